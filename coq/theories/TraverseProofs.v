(* TraverseProofs.v — C14: the lazy work list of SearchImpl (Search.v search_loop / expand)
   against the eager textbook specification (TraverseSpec.v), and the properties of the
   specification: origin first, no duplicates, exactly the reachable elements, BFS
   distances, DFS pre-order, fuel. *)
From Agdb Require Import Bytes DbValue Graph DbModel Search Revisions AdjOk TraverseSpec.
From Coq Require Import ZifyBool ZifyNat ZifyN.
Ltac Zify.zify_post_hook ::= Z.div_mod_to_equations.
Open Scope Z_scope.

(* ====================================================================== *)
(* 1. one-step unfoldings of the lazy loop without conditions              *)
(* ====================================================================== *)

Lemma eval_conditions_nil : forall r d i k, eval_conditions r d i k [] = Continue true.
Proof. reflexivity. Qed.

Lemma search_loop_nil_O : forall r d a rv o W V c acc,
  search_loop r d a rv o [] HDefault O W V c acc = None.
Proof. reflexivity. Qed.

Lemma search_loop_nil_empty : forall r d a rv o f V c acc,
  search_loop r d a rv o [] HDefault (S f) [] V c acc = Some (rev acc).
Proof. reflexivity. Qed.

Lemma search_loop_nil_cons : forall r d a rv o f x k rest V c acc,
  search_loop r d a rv o [] HDefault (S f) ((x, k) :: rest) V c acc =
  if visited V x then
    search_loop r d a rv o [] HDefault f
      (if fix_visited_chain r && (x <? 0) then expand r (gr d) a rv o rest (x, k) false else rest) V c acc
  else
    search_loop r d a rv o [] HDefault f (expand r (gr d) a rv o rest (x, k) true) (Z.abs x :: V) c (x :: acc).
Proof. reflexivity. Qed.

(* ====================================================================== *)
(* 2. lazy work list = eager work list with the sibling chains collapsed   *)
(* ====================================================================== *)

Section Lockstep.
  Variable d : db.
  Let g := gr d.
  Hypothesis Hok : adj_ok g.
  Variable a : algo.
  Variable rv : bool.
  Variable origin : Z.

  Definition first_of (x : Z) := if rv then first_edge_to g x else first_edge_from g x.
  Definition sibling_of (x : Z) := if rv then next_edge_to g x else next_edge_from g x.
  Definition target_of (x : Z) := if rv then edge_from g x else edge_to g x.
  Definition sibs (e : Z) : list Z := if rv then sibs_to g e else sibs_from g e.

  (* a pending edge item stands for the remaining sibling chain starting at it; the origin
     edge (distance 0) stands for itself only *)
  Definition abs_item (it : Z * Z) : list (Z * Z) :=
    let '(x, k) := it in
    if (0 <? x) || (k =? 0) then [(x, k)] else map (fun e => (e, k)) (sibs x).
  Definition abs_work (W : list (Z * Z)) : list (Z * Z) := flat_map abs_item W.

  Lemma abs_work_cons : forall it W, abs_work (it :: W) = abs_item it ++ abs_work W.
  Proof. reflexivity. Qed.
  Lemma abs_work_nil : abs_work [] = [].
  Proof. reflexivity. Qed.

  Lemma abs_work_app : forall W1 W2, abs_work (W1 ++ W2) = abs_work W1 ++ abs_work W2.
  Proof. intros. unfold abs_work. apply flat_map_app. Qed.

  Lemma sibs_zero : sibs 0 = [].
  Proof. unfold sibs. destruct rv; [apply sibs_to_zero | apply sibs_from_zero]. Qed.

  Lemma sibs_edge : forall e, edge_id g e = true -> sibs e = e :: sibs (sibling_of e).
  Proof.
    intros e He. unfold sibs, sibling_of. destruct rv.
    - destruct (sibs_to_edge g Hok e He) as (l1 & _ & H). exact H.
    - destruct (sibs_from_edge g Hok e He) as (l1 & _ & H). exact H.
  Qed.

  Lemma succs_node : forall n, 0 < n -> succs g rv n = sibs (first_of n).
  Proof.
    intros n Hn. unfold succs, sibs, first_of. destruct (0 <? n) eqn:E; [|lia].
    destruct rv; reflexivity.
  Qed.

  Lemma succs_edge : forall e, e < 0 -> succs g rv e = [target_of e].
  Proof.
    intros e He. unfold succs, target_of. destruct (0 <? e) eqn:E; [lia|]. reflexivity.
  Qed.

  Lemma first_of_elem : forall n, node_id g n = true -> first_of n <> 0 -> edge_id g (first_of n) = true.
  Proof.
    intros n Hn Hnz. unfold first_of in *. destruct rv.
    - apply (first_to_edge g Hok n Hn Hnz).
    - apply (first_from_edge g Hok n Hn Hnz).
  Qed.

  Lemma sibling_of_elem : forall e, edge_id g e = true -> sibling_of e <> 0 -> edge_id g (sibling_of e) = true.
  Proof.
    intros e He Hnz. unfold sibling_of in *. destruct rv.
    - apply (next_to_edge g Hok e He Hnz).
    - apply (next_from_edge g Hok e He Hnz).
  Qed.

  Lemma target_of_elem : forall e, edge_id g e = true -> node_id g (target_of e) = true.
  Proof.
    intros e He. unfold target_of. destruct rv.
    - apply (ao_from_node g Hok e He).
    - apply (ao_to_node g Hok e He).
  Qed.

  Lemma sibling_of_nonpos : forall e, edge_id g e = true -> sibling_of e <= 0.
  Proof.
    intros e He. destruct (Z.eq_dec (sibling_of e) 0) as [E|E]; [lia|].
    pose proof (sibling_of_elem e He E) as H. apply edge_id_bounds in H. lia.
  Qed.

  Definition elem_work (W : list (Z * Z)) : Prop := forall x k, In (x, k) W -> elem_id g x = true.

  (* the lazy visited set (slot numbers) and the eager one (ids) agree on existing elements *)
  Definition vis_rel (V : list Z) (acc : list (Z * Z)) : Prop :=
    forall y, elem_id g y = true -> visited V y = inb y (map fst acc).

  Lemma vis_rel_cons : forall V acc x k, elem_id g x = true -> vis_rel V acc ->
    vis_rel (Z.abs x :: V) ((x, k) :: acc).
  Proof.
    intros V acc x k Hx Hrel y Hy. specialize (Hrel y Hy). unfold visited, inb in *. cbn [existsb map fst].
    rewrite <- Hrel. f_equal.
    destruct (Z.abs y =? Z.abs x) eqn:E1; destruct (y =? x) eqn:E2; try reflexivity.
    - assert (y = x) by (apply (elem_id_abs_inj g); [assumption|assumption|lia]). lia.
    - assert (y = x) by lia. subst. lia.
  Qed.

  Lemma elem_cases : forall x, elem_id g x = true ->
    (node_id g x = true /\ 0 < x) \/ (edge_id g x = true /\ x < 0).
  Proof.
    intros x H. unfold elem_id in H. apply orb_prop in H. destruct H as [H|H].
    - left. split; [exact H | apply node_id_bounds in H; lia].
    - right. split; [exact H | apply edge_id_bounds in H; lia].
  Qed.

  (* abs of a sibling item *)
  Lemma abs_item_sibling : forall e k, edge_id g e = true -> k <> 0 ->
    abs_item (sibling_of e, k) = map (fun y => (y, k)) (sibs (sibling_of e)).
  Proof.
    intros e k He Hk. unfold abs_item. pose proof (sibling_of_nonpos e He).
    destruct (0 <? sibling_of e) eqn:E1; [lia|]. destruct (k =? 0) eqn:E2; [lia|]. reflexivity.
  Qed.

  Lemma abs_item_edge : forall e k, edge_id g e = true -> k <> 0 ->
    abs_item (e, k) = (e, k) :: map (fun y => (y, k)) (sibs (sibling_of e)).
  Proof.
    intros e k He Hk. unfold abs_item. pose proof (edge_id_bounds g e He).
    destruct (0 <? e) eqn:E1; [lia|]. destruct (k =? 0) eqn:E2; [lia|].
    cbn [orb]. rewrite (sibs_edge e He). reflexivity.
  Qed.

  Lemma abs_item_node : forall n k, 0 < n -> abs_item (n, k) = [(n, k)].
  Proof. intros n k Hn. unfold abs_item. destruct (0 <? n) eqn:E; [reflexivity | lia]. Qed.

  Lemma abs_item_first : forall n k, node_id g n = true ->
    abs_item (first_of n, k + 1) = map (fun y => (y, k + 1)) (sibs (first_of n)) \/ k + 1 = 0.
  Proof.
    intros n k Hn. destruct (Z.eq_dec (k + 1) 0) as [E|E]; [right; exact E|left].
    unfold abs_item.
    assert (first_of n <= 0).
    { destruct (Z.eq_dec (first_of n) 0) as [E0|E0]; [lia|].
      pose proof (first_of_elem n Hn E0) as H. apply edge_id_bounds in H. lia. }
    destruct (0 <? first_of n) eqn:E1; [lia|]. destruct (k + 1 =? 0) eqn:E2; [lia|]. reflexivity.
  Qed.

  (* distances in the work list are never negative *)
  Definition nonneg_work (W : list (Z * Z)) : Prop := forall x k, In (x, k) W -> 0 <= k.

  Lemma lockstep : forall f W V acc,
    elem_work W -> nonneg_work W -> vis_rel V acc ->
    search_loop rv_fixed d a rv origin [] HDefault f W V 0 (map fst acc) =
    option_map (map fst) (spec_run g a rv f (abs_work W) acc).
  Proof.
    induction f as [|f IH]; intros W V acc HW Hnn Hrel; [reflexivity|].
    destruct W as [|[x k] rest].
    { rewrite search_loop_nil_empty. rewrite abs_work_nil; cbn [spec_run spec_step option_map].
      rewrite map_rev. reflexivity. }
    rewrite search_loop_nil_cons. fold g.
    assert (Hx : elem_id g x = true) by (apply (HW x k); left; reflexivity).
    assert (Hk : 0 <= k) by (apply (Hnn x k); left; reflexivity).
    assert (HWr : elem_work rest) by (intros y j Hy; apply (HW y j); right; exact Hy).
    assert (Hnr : nonneg_work rest) by (intros y j Hy; apply (Hnn y j); right; exact Hy).
    rewrite (Hrel x Hx).
    destruct (elem_cases x Hx) as [[Hn Hpos]|[He Hneg]].
    - (* a node *)
      assert (Hlt : (x <? 0) = false) by lia.
      rewrite ?abs_work_cons, ?abs_work_nil. rewrite (abs_item_node x k Hpos). cbn [app spec_run spec_step].
      destruct (inb x (map fst acc)) eqn:Evis.
      + rewrite Hlt, andb_false_r. apply IH; assumption.
      + change (x :: map fst acc) with (map fst ((x, k) :: acc)).
        rewrite (succs_node x Hpos).
        assert (Hexp : abs_work (expand rv_fixed g a rv origin rest (x, k) true) =
                       match a with
                       | BFS => abs_work rest ++ map (fun y => (y, k + 1)) (sibs (first_of x))
                       | DFS => map (fun y => (y, k + 1)) (sibs (first_of x)) ++ abs_work rest
                       end).
        { unfold expand. fold (first_of x).
          destruct (0 <? x) eqn:E0; [|lia]. cbn [andb].
          destruct (first_of x =? 0) eqn:E1; cbn [negb].
          - assert (E : first_of x = 0) by lia. rewrite E, sibs_zero. cbn [map].
            destruct a; [rewrite app_nil_r|]; reflexivity.
          - destruct (abs_item_first x k Hn) as [Hab|Hab]; [|lia].
            destruct a.
            + rewrite abs_work_app. rewrite ?abs_work_cons, ?abs_work_nil. rewrite Hab, app_nil_r. reflexivity.
            + rewrite ?abs_work_cons, ?abs_work_nil. rewrite Hab. reflexivity. }
        rewrite <- Hexp. apply IH.
        * (* elem_work *)
          intros y j Hy. unfold expand in Hy. fold (first_of x) in Hy.
          destruct (0 <? x) eqn:E0; [|lia]. cbn [andb] in Hy.
          destruct (first_of x =? 0) eqn:E1; cbn [negb] in Hy; [apply (HWr y j Hy)|].
          assert (Hfe : elem_id g (first_of x) = true).
          { unfold elem_id. rewrite (first_of_elem x Hn ltac:(lia)). apply orb_true_r. }
          destruct a.
          -- apply in_app_or in Hy. destruct Hy as [Hy|[Hy|[]]]; [apply (HWr y j Hy)|].
             injection Hy as <- <-. exact Hfe.
          -- destruct Hy as [Hy|Hy]; [|apply (HWr y j Hy)]. injection Hy as <- <-. exact Hfe.
        * intros y j Hy. unfold expand in Hy. fold (first_of x) in Hy.
          destruct (0 <? x) eqn:E0; [|lia]. cbn [andb] in Hy.
          destruct (first_of x =? 0) eqn:E1; cbn [negb] in Hy; [apply (Hnr y j Hy)|].
          destruct a.
          -- apply in_app_or in Hy. destruct Hy as [Hy|[Hy|[]]]; [apply (Hnr y j Hy)|].
             injection Hy as <- <-. lia.
          -- destruct Hy as [Hy|Hy]; [|apply (Hnr y j Hy)]. injection Hy as <- <-. lia.
        * apply vis_rel_cons; assumption.
    - (* an edge *)
      assert (Hlt : (x <? 0) = true) by lia.
      assert (Hpos : (0 <? x) = false) by lia.
      cbn [fix_visited_chain rv_fixed andb]. rewrite Hlt.
      (* the abstraction of the current item *)
      assert (Hcur : abs_work ((x, k) :: rest) =
                     (x, k) :: (if k =? 0 then [] else map (fun y => (y, k)) (sibs (sibling_of x))) ++ abs_work rest).
      { rewrite ?abs_work_cons, ?abs_work_nil. destruct (k =? 0) eqn:Ek.
        - unfold abs_item. rewrite Hpos, Ek. reflexivity.
        - rewrite (abs_item_edge x k He ltac:(lia)). reflexivity. }
      rewrite Hcur. cbn [spec_run spec_step].
      (* the sibling item pushed by expand *)
      set (chain := negb (sibling_of x =? 0) && negb (k =? 0)).
      assert (Hchain : abs_work (if chain then (sibling_of x, k) :: rest else rest) =
                       (if k =? 0 then [] else map (fun y => (y, k)) (sibs (sibling_of x))) ++ abs_work rest).
      { unfold chain. destruct (k =? 0) eqn:Ek; [rewrite andb_false_r; reflexivity|].
        destruct (sibling_of x =? 0) eqn:Es; cbn [negb andb].
        - assert (E : sibling_of x = 0) by lia. rewrite E, sibs_zero. reflexivity.
        - rewrite ?abs_work_cons, ?abs_work_nil. rewrite (abs_item_sibling x k He ltac:(lia)). reflexivity. }
      assert (HWc : elem_work (if chain then (sibling_of x, k) :: rest else rest)).
      { unfold chain. destruct (sibling_of x =? 0) eqn:Es; cbn [negb andb]; [exact HWr|].
        destruct (k =? 0); cbn [negb]; [exact HWr|].
        intros y j [Hy|Hy]; [|apply (HWr y j Hy)]. injection Hy as <- <-.
        unfold elem_id. rewrite (sibling_of_elem x He ltac:(lia)). apply orb_true_r. }
      assert (Hnc : nonneg_work (if chain then (sibling_of x, k) :: rest else rest)).
      { destruct chain; [|exact Hnr]. intros y j [Hy|Hy]; [|apply (Hnr y j Hy)]. injection Hy as <- <-. exact Hk. }
      destruct (inb x (map fst acc)) eqn:Evis.
      + (* visited edge: the chain continues *)
        assert (Hexp : expand rv_fixed g a rv origin rest (x, k) false =
                       if chain then (sibling_of x, k) :: rest else rest).
        { unfold expand. fold (sibling_of x). rewrite Hpos. cbn [fix_edge_origin rv_fixed andb].
          fold chain. destruct a; reflexivity. }
        rewrite Hexp, <- Hchain. apply IH; assumption.
      + rewrite (succs_edge x Hneg). cbn [map].
        change (x :: map fst acc) with (map fst ((x, k) :: acc)).
        assert (Hexp : abs_work (expand rv_fixed g a rv origin rest (x, k) true) =
                       match a with
                       | BFS => ((if k =? 0 then [] else map (fun y => (y, k)) (sibs (sibling_of x))) ++ abs_work rest)
                                ++ [(target_of x, k + 1)]
                       | DFS => [(target_of x, k + 1)] ++
                                ((if k =? 0 then [] else map (fun y => (y, k)) (sibs (sibling_of x))) ++ abs_work rest)
                       end).
        { pose proof (target_of_elem x He) as Ht. apply node_id_bounds in Ht.
          unfold expand. fold (sibling_of x) (target_of x). rewrite Hpos. cbn [fix_edge_origin rv_fixed andb].
          fold chain. rewrite <- Hchain. destruct a.
          - destruct chain.
            + rewrite ?abs_work_cons, ?abs_work_nil. rewrite <- app_assoc. f_equal.
              rewrite abs_work_app. rewrite ?abs_work_cons, ?abs_work_nil. rewrite abs_item_node by lia.
              rewrite app_nil_r. reflexivity.
            + rewrite abs_work_app. rewrite ?abs_work_cons, ?abs_work_nil. rewrite abs_item_node by lia.
              rewrite app_nil_r. reflexivity.
          - rewrite ?abs_work_cons, ?abs_work_nil. rewrite abs_item_node by lia. reflexivity. }
        rewrite <- Hexp. apply IH.
        * intros y j Hy. unfold expand in Hy. fold (sibling_of x) (target_of x) in Hy. rewrite Hpos in Hy.
          cbn [fix_edge_origin rv_fixed andb] in Hy. fold chain in Hy.
          assert (Hte : elem_id g (target_of x) = true).
          { unfold elem_id. rewrite (target_of_elem x He). reflexivity. }
          destruct a.
          -- assert (Hy' : In (y, j) ((if chain then (sibling_of x, k) :: rest else rest) ++ [(target_of x, k + 1)])).
             { destruct chain; [|exact Hy]. destruct Hy as [Hy|Hy]; [left; exact Hy|right; exact Hy]. }
             apply in_app_or in Hy'. destruct Hy' as [Hy'|[Hy'|[]]]; [apply (HWc y j Hy')|].
             injection Hy' as <- <-. exact Hte.
          -- destruct Hy as [Hy|Hy]; [injection Hy as <- <-; exact Hte|]. apply (HWc y j Hy).
        * intros y j Hy. unfold expand in Hy. fold (sibling_of x) (target_of x) in Hy. rewrite Hpos in Hy.
          cbn [fix_edge_origin rv_fixed andb] in Hy. fold chain in Hy.
          destruct a.
          -- assert (Hy' : In (y, j) ((if chain then (sibling_of x, k) :: rest else rest) ++ [(target_of x, k + 1)])).
             { destruct chain; [|exact Hy]. destruct Hy as [Hy|Hy]; [left; exact Hy|right; exact Hy]. }
             apply in_app_or in Hy'. destruct Hy' as [Hy'|[Hy'|[]]]; [apply (Hnc y j Hy')|].
             injection Hy' as <- <-. lia.
          -- destruct Hy as [Hy|Hy]; [injection Hy as <- <-; lia|]. apply (Hnc y j Hy).
        * apply vis_rel_cons; assumption.
  Qed.
End Lockstep.

(* ====================================================================== *)
(* 3. list helpers                                                         *)
(* ====================================================================== *)

Lemma inb_In : forall x l, inb x l = true <-> In x l.
Proof. intros. unfold inb. apply existsb_eqb_In. Qed.

Lemma inb_false : forall x l, inb x l = false <-> ~ In x l.
Proof.
  intros x l. split.
  - intros H Hin. apply inb_In in Hin. rewrite Hin in H. discriminate.
  - intros H. destruct (inb x l) eqn:E; [|reflexivity]. apply inb_In in E. contradiction.
Qed.

Lemma NoDup_app_intro : forall (A : Type) (l1 l2 : list A),
  NoDup l1 -> NoDup l2 -> (forall x, In x l1 -> ~ In x l2) -> NoDup (l1 ++ l2).
Proof.
  induction l1 as [|x l1 IH]; intros l2 H1 H2 Hd; cbn [app]; [exact H2|].
  inversion H1 as [|? ? Hx H1']; subst. constructor.
  - intros Hin. apply in_app_or in Hin. destruct Hin as [Hin|Hin]; [contradiction|].
    apply (Hd x); [left; reflexivity | exact Hin].
  - apply IH; [exact H1' | exact H2 |]. intros y Hy. apply Hd. right. exact Hy.
Qed.

Lemma NoDup_flat_map : forall (A B : Type) (f : A -> list B) (l : list A),
  NoDup l -> (forall x, In x l -> NoDup (f x)) ->
  (forall x y e, In x l -> In y l -> x <> y -> In e (f x) -> In e (f y) -> False) ->
  NoDup (flat_map f l).
Proof.
  induction l as [|x l IH]; intros Hl Hf Hd; cbn [flat_map]; [constructor|].
  inversion Hl as [|? ? Hx Hl']; subst. apply NoDup_app_intro.
  - apply Hf. left. reflexivity.
  - apply IH; [exact Hl' | |].
    + intros y Hy. apply Hf. right. exact Hy.
    + intros y z e Hy Hz. apply Hd; right; assumption.
  - intros e He Hin. apply in_flat_map in Hin. destruct Hin as (y & Hy & Hey).
    apply (Hd x y e); [left; reflexivity | right; exact Hy | | exact He | exact Hey].
    intros E. subst. contradiction.
Qed.

Lemma NoDup_map_inj_on : forall (A B : Type) (f : A -> B) (l : list A),
  NoDup l -> (forall x y, In x l -> In y l -> f x = f y -> x = y) -> NoDup (map f l).
Proof.
  induction l as [|x l IH]; intros Hl Hinj; cbn [map]; [constructor|].
  inversion Hl as [|? ? Hx Hl']; subst. constructor.
  - intros Hin. apply in_map_iff in Hin. destruct Hin as (y & Hfy & Hy).
    assert (y = x) by (apply Hinj; [right; exact Hy | left; reflexivity | exact Hfy]).
    subst. contradiction.
  - apply IH; [exact Hl'|]. intros y z Hy Hz. apply Hinj; right; assumption.
Qed.

(* ====================================================================== *)
(* 4. the elements of the graph                                            *)
(* ====================================================================== *)

Lemma elements_elem : forall g x, In x (elements g) -> elem_id g x = true.
Proof.
  intros g x H. unfold elements in H. apply in_flat_map in H. destruct H as (s & Hs & Hx).
  apply in_seq in Hs. unfold element_at in Hx.
  destruct (fmeta g (Z.of_nat s) <? 0) eqn:E1; [contradiction|].
  destruct (from g (Z.of_nat s) <? 0) eqn:E2; destruct Hx as [Hx|[]]; subst x.
  - unfold elem_id, edge_id, is_edge, valid_index, capacity. unfold fmeta, from in *. rewrite !get_opp.
    assert (H1 : (- Z.of_nat s <? 0) = true) by lia. rewrite H1.
    assert (H2 : (- Z.of_nat s =? 0) = false) by lia. rewrite H2.
    assert (H3 : (Z.abs (- Z.of_nat s) <? Z.of_nat (length (g_from g))) = true) by lia. rewrite H3.
    rewrite E1, E2. cbn. apply orb_true_r.
  - unfold elem_id, node_id, is_node, valid_index, capacity.
    assert (H1 : (0 <? Z.of_nat s) = true) by lia. rewrite H1.
    assert (H2 : (Z.of_nat s =? 0) = false) by lia. rewrite H2.
    assert (H3 : (Z.abs (Z.of_nat s) <? Z.of_nat (length (g_from g))) = true) by lia. rewrite H3.
    rewrite E1. assert (H4 : (0 <=? from g (Z.of_nat s)) = true) by lia. rewrite H4. reflexivity.
Qed.

Lemma elem_in_elements : forall g x, elem_id g x = true -> In x (elements g).
Proof.
  intros g x H. unfold elem_id in H. apply orb_prop in H. destruct H as [H|H].
  - apply node_id_in_elements. exact H.
  - apply edge_id_in_elements. exact H.
Qed.

Lemma elements_NoDup : forall g, NoDup (elements g).
Proof.
  intros g. unfold elements. apply NoDup_flat_map.
  - apply seq_NoDup.
  - intros s _. destruct (element_at g s); [|constructor]. constructor; [intros []|constructor].
  - intros s t e _ _ Hst Hs Ht. unfold element_at in *.
    destruct (fmeta g (Z.of_nat s) <? 0); [contradiction|].
    destruct (fmeta g (Z.of_nat t) <? 0); [contradiction|].
    destruct (from g (Z.of_nat s) <? 0); destruct (from g (Z.of_nat t) <? 0);
      destruct Hs as [Hs|[]]; destruct Ht as [Ht|[]]; lia.
Qed.

(* a duplicate-free list of existing elements is no longer than the number of slots *)
Lemma elems_length_bound : forall g l, NoDup l -> (forall x, In x l -> elem_id g x = true) ->
  (length l <= length (g_from g) - 1)%nat.
Proof.
  intros g l Hnd Hel.
  assert (H : NoDup (map (fun x => Z.to_nat (Z.abs x)) l)).
  { apply NoDup_map_inj_on; [exact Hnd|]. intros x y Hx Hy E.
    apply (elem_id_abs_inj g); [apply Hel; exact Hx | apply Hel; exact Hy | lia]. }
  assert (Hi : incl (map (fun x => Z.to_nat (Z.abs x)) l) (seq 1 (length (g_from g) - 1))).
  { intros s Hs. apply in_map_iff in Hs. destruct Hs as (x & <- & Hx).
    pose proof (elem_id_slot g x (Hel x Hx)). apply in_seq. lia. }
  pose proof (NoDup_incl_length H Hi) as Hlen. rewrite map_length, seq_length in Hlen. exact Hlen.
Qed.

(* ====================================================================== *)
(* 5. the eager specification: invariants, termination                      *)
(* ====================================================================== *)

Section SpecFacts.
  Variable g : graph.
  Hypothesis Hok : adj_ok g.
  Variable a : algo.
  Variable rv : bool.

  Lemma succs_elem : forall x y, elem_id g x = true -> In y (succs g rv x) -> elem_id g y = true.
  Proof.
    intros x y Hx Hy. unfold succs in Hy. unfold elem_id in Hx. apply orb_prop in Hx.
    destruct Hx as [Hx|Hx].
    - pose proof (node_id_bounds g x Hx) as (Hp & _). destruct (0 <? x) eqn:E; [|lia].
      unfold elem_id. destruct rv.
      + rewrite (in_edge_edge g Hok x y Hx Hy). apply orb_true_r.
      + rewrite (out_edge_edge g Hok x y Hx Hy). apply orb_true_r.
    - pose proof (edge_id_bounds g x Hx) as (Hp & _). destruct (0 <? x) eqn:E; [lia|].
      destruct Hy as [Hy|[]]. subst y. unfold elem_id. destruct rv.
      + rewrite (ao_from_node g Hok x Hx). reflexivity.
      + rewrite (ao_to_node g Hok x Hx). reflexivity.
  Qed.

  (* lifting a step invariant to the result of a run *)
  Lemma spec_run_inv : forall (P : list (Z * Z) -> list (Z * Z) -> Prop),
    (forall E acc E' acc', P E acc -> spec_step g a rv E acc = Some (E', acc') -> P E' acc') ->
    forall f E acc r, P E acc -> spec_run g a rv f E acc = Some r -> P [] (rev r).
  Proof.
    intros P Hstep. induction f as [|f IH]; intros E acc r HP Hrun; cbn [spec_run] in Hrun; [discriminate|].
    destruct (spec_step g a rv E acc) as [[E' acc']|] eqn:Es.
    - apply (IH E' acc' r); [|exact Hrun]. apply (Hstep E acc); assumption.
    - injection Hrun as <-. rewrite rev_involutive. destruct E as [|[x k] rest]; [exact HP|].
      cbn [spec_step] in Es. destruct (inb x (map fst acc)); discriminate.
  Qed.

  (* all items are existing elements *)
  Definition inv_elem (E acc : list (Z * Z)) : Prop :=
    (forall x k, In (x, k) E -> elem_id g x = true) /\ (forall x k, In (x, k) acc -> elem_id g x = true).

  Lemma inv_elem_step : forall E acc E' acc', inv_elem E acc -> spec_step g a rv E acc = Some (E', acc') -> inv_elem E' acc'.
  Proof.
    intros E acc E' acc' [HE HA] Hs. destruct E as [|[x k] rest]; cbn [spec_step] in Hs; [discriminate|].
    assert (Hx : elem_id g x = true) by (apply (HE x k); left; reflexivity).
    assert (Hr : forall y j, In (y, j) rest -> elem_id g y = true) by (intros y j Hy; apply (HE y j); right; exact Hy).
    destruct (inb x (map fst acc)); injection Hs as <- <-.
    - split; assumption.
    - assert (Hn : forall y j, In (y, j) (map (fun y => (y, k + 1)) (succs g rv x)) -> elem_id g y = true).
      { intros y j Hy. apply in_map_iff in Hy. destruct Hy as (z & Hz & Hin). injection Hz as <- <-.
        apply (succs_elem x z Hx Hin). }
      split.
      + intros y j Hy. destruct a; apply in_app_or in Hy; destruct Hy as [Hy|Hy]; eauto.
      + intros y j [Hy|Hy]; [injection Hy as <- <-; exact Hx | apply (HA y j Hy)].
  Qed.

  (* ---- termination measure ---- *)
  Definition weight (x : Z) : nat := S (length (succs g rv x)).
  Fixpoint unvis_weight (U A : list Z) : nat :=
    match U with
    | [] => 0
    | x :: r => (if inb x A then 0 else weight x) + unvis_weight r A
    end%nat.
  Definition mu (E acc : list (Z * Z)) : nat := (length E + unvis_weight (elements g) (map fst acc))%nat.

  Lemma unvis_weight_mono : forall U A x, (unvis_weight U (x :: A) <= unvis_weight U A)%nat.
  Proof.
    induction U as [|y U IH]; intros A x; cbn [unvis_weight]; [lia|].
    specialize (IH A x). unfold inb in *. cbn [existsb].
    destruct (y =? x); cbn [orb]; [lia|]. destruct (existsb (Z.eqb y) A); lia.
  Qed.

  Lemma unvis_weight_mark : forall U A x, In x U -> inb x A = false ->
    (unvis_weight U (x :: A) + weight x <= unvis_weight U A)%nat.
  Proof.
    induction U as [|y U IH]; intros A x Hin Hx; [contradiction|]. cbn [unvis_weight].
    destruct (Z.eq_dec y x) as [E|E].
    - subst y. pose proof (unvis_weight_mono U A x). rewrite Hx.
      unfold inb at 1. cbn [existsb]. rewrite Z.eqb_refl. cbn [orb]. lia.
    - destruct Hin as [Hin|Hin]; [contradiction|]. specialize (IH A x Hin Hx).
      unfold inb at 1. cbn [existsb]. assert (Eb : (y =? x) = false) by lia. rewrite Eb. cbn [orb].
      fold (inb y A). destruct (inb y A); lia.
  Qed.

  Lemma mu_step : forall E acc E' acc', inv_elem E acc -> spec_step g a rv E acc = Some (E', acc') ->
    (mu E' acc' < mu E acc)%nat.
  Proof.
    intros E acc E' acc' [HE HA] Hs. destruct E as [|[x k] rest]; cbn [spec_step] in Hs; [discriminate|].
    assert (Hx : elem_id g x = true) by (apply (HE x k); left; reflexivity).
    unfold mu. destruct (inb x (map fst acc)) eqn:Ev; injection Hs as <- <-.
    - cbn [length]. lia.
    - cbn [map fst length].
      pose proof (unvis_weight_mark (elements g) (map fst acc) x (elem_in_elements g x Hx) Ev) as Hm.
      unfold weight in Hm.
      assert (Hl : length (match a with
                           | BFS => rest ++ map (fun y => (y, k + 1)) (succs g rv x)
                           | DFS => map (fun y => (y, k + 1)) (succs g rv x) ++ rest end)
                   = (length rest + length (succs g rv x))%nat).
      { destruct a; rewrite app_length, map_length; lia. }
      rewrite Hl. lia.
  Qed.

  Lemma spec_run_terminates : forall f E acc, inv_elem E acc -> (mu E acc < f)%nat ->
    exists r, spec_run g a rv f E acc = Some r.
  Proof.
    induction f as [|f IH]; intros E acc Hinv Hmu; [lia|]. cbn [spec_run].
    destruct (spec_step g a rv E acc) as [[E' acc']|] eqn:Es; [|eexists; reflexivity].
    apply IH.
    - apply (inv_elem_step E acc); assumption.
    - pose proof (mu_step E acc E' acc' Hinv Es). lia.
  Qed.

  (* ---- the initial measure fits the fuel ---- *)
  Definition adj_of (x : Z) : list Z := if 0 <? x then succs g rv x else [].

  Lemma unvis_weight_nil : forall U,
    (unvis_weight U [] <= length U + (length (flat_map adj_of U) + length U))%nat.
  Proof.
    induction U as [|x U IH]; cbn [unvis_weight flat_map length]; [lia|].
    rewrite app_length. unfold weight, adj_of at 1. unfold succs at 1 2.
    destruct (0 <? x); cbn [length inb existsb]; lia.
  Qed.

  Lemma adj_all_NoDup : NoDup (flat_map adj_of (elements g)).
  Proof.
    apply NoDup_flat_map.
    - apply elements_NoDup.
    - intros x Hx. unfold adj_of, succs. destruct (0 <? x) eqn:E; [|constructor].
      assert (Hn : node_id g x = true).
      { pose proof (elements_elem g x Hx) as H. unfold elem_id in H. apply orb_prop in H.
        destruct H as [H|H]; [exact H|]. apply edge_id_bounds in H. lia. }
      destruct rv; [apply (ao_in_nodup g Hok x Hn) | apply (ao_out_nodup g Hok x Hn)].
    - intros x y e Hx Hy Hne He1 He2. unfold adj_of, succs in *.
      destruct (0 <? x) eqn:Ex; [|contradiction]. destruct (0 <? y) eqn:Ey; [|contradiction].
      assert (Hnx : node_id g x = true).
      { pose proof (elements_elem g x Hx) as H. unfold elem_id in H. apply orb_prop in H.
        destruct H as [H|H]; [exact H|]. apply edge_id_bounds in H. lia. }
      assert (Hny : node_id g y = true).
      { pose proof (elements_elem g y Hy) as H. unfold elem_id in H. apply orb_prop in H.
        destruct H as [H|H]; [exact H|]. apply edge_id_bounds in H. lia. }
      destruct rv.
      + apply (ao_in_spec g Hok x e Hnx) in He1. apply (ao_in_spec g Hok y e Hny) in He2. lia.
      + apply (ao_out_spec g Hok x e Hnx) in He1. apply (ao_out_spec g Hok y e Hny) in He2. lia.
  Qed.

  Lemma mu_init : forall o, (mu [(o, 0%Z)] [] < search_fuel g)%nat.
  Proof.
    intros o. unfold mu, search_fuel. cbn [length map].
    pose proof (unvis_weight_nil (elements g)) as H1.
    pose proof (elems_length_bound g (elements g) (elements_NoDup g) (elements_elem g)) as H2.
    assert (H3 : (length (flat_map adj_of (elements g)) <= length (g_from g) - 1)%nat).
    { apply elems_length_bound; [apply adj_all_NoDup|].
      intros e He. apply in_flat_map in He. destruct He as (x & Hx & He).
      unfold adj_of in He. destruct (0 <? x); [|contradiction].
      apply (succs_elem x e (elements_elem g x Hx) He). }
    lia.
  Qed.

  Lemma search_spec_run : forall o, elem_id g o = true ->
    spec_run g a rv (search_fuel g) [(o, 0)] [] = Some (search_spec g a rv o).
  Proof.
    intros o Ho. unfold search_spec.
    destruct (spec_run_terminates (search_fuel g) [(o, 0)] []) as [r Hr].
    - split; [|intros x k []]. intros x k [H|[]]. injection H as <- <-. exact Ho.
    - apply mu_init.
    - rewrite Hr. reflexivity.
  Qed.
End SpecFacts.

(* ====================================================================== *)
(* 6. C14: the implementation's order is the eager specification's order    *)
(* ====================================================================== *)

Theorem lazy_eq_eager : forall d a reverse origin,
  adj_ok (gr d) -> graph_index (gr d) origin = true ->
  graph_search rv_fixed d a reverse origin [] HDefault = Some (map fst (search_spec (gr d) a reverse origin)).
Proof.
  intros d a rv o Hok Ho. rewrite graph_index_elem_id in Ho.
  unfold graph_search.
  assert (Hv : is_node (gr d) o || is_edge (gr d) o = true).
  { unfold elem_id, node_id, edge_id in Ho. apply orb_prop in Ho.
    destruct Ho as [H|H]; apply andb_prop in H; destruct H as [_ H]; rewrite H; [reflexivity | apply orb_true_r]. }
  rewrite Hv.
  change (@nil Z) with (map (@fst Z Z) []) at 2.
  rewrite (lockstep d Hok a rv o (search_fuel (gr d)) [(o, 0)] [] []).
  - assert (Habs : abs_work d rv [(o, 0)] = [(o, 0)]).
    { unfold abs_work, abs_item. cbn [flat_map]. rewrite orb_true_r. reflexivity. }
    rewrite Habs, (search_spec_run (gr d) Hok a rv o Ho). reflexivity.
  - intros x k [H|[]]. injection H as <- <-. exact Ho.
  - intros x k [H|[]]. injection H as <- <-. lia.
  - intros y _. reflexivity.
Qed.

(* the fuel of the loop is never exhausted (origins as resolved by DbImpl: graph_index holds, or
   the id is no valid index at all and the search is not started) *)
Theorem search_no_fuel : forall d a reverse origin,
  adj_ok (gr d) ->
  graph_index (gr d) origin = true \/ is_node (gr d) origin || is_edge (gr d) origin = false ->
  graph_search rv_fixed d a reverse origin [] HDefault <> None.
Proof.
  intros d a rv o Hok [Ho|Ho].
  - rewrite (lazy_eq_eager d a rv o Hok Ho). discriminate.
  - unfold graph_search. rewrite Ho. discriminate.
Qed.

(* ====================================================================== *)
(* 7. the specification returns the origin first, no duplicates, exactly    *)
(*    the reachable elements, with walk lengths as distances                *)
(* ====================================================================== *)

Section SpecProps.
  Variable g : graph.
  Hypothesis Hok : adj_ok g.
  Variable a : algo.
  Variable rv : bool.
  Variable o : Z.
  Hypothesis Ho : elem_id g o = true.

  Lemma walk_reach : forall x k, walk g rv o x k -> reach g rv o x.
  Proof. intros x k H. induction H; [constructor | econstructor; eassumption]. Qed.

  Lemma reach_walk : forall x, reach g rv o x -> exists k, walk g rv o x k.
  Proof.
    intros x H. induction H as [|x y _ [k IH] Hy]; [exists 0; constructor|].
    exists (k + 1). econstructor; eassumption.
  Qed.

  Lemma walk_nonneg : forall x k, walk g rv o x k -> 0 <= k.
  Proof. intros x k H. induction H; lia. Qed.

  Lemma reach_elem : forall x, reach g rv o x -> elem_id g x = true.
  Proof. intros x H. induction H; [exact Ho | eapply succs_elem; eassumption]. Qed.

  (* (a) the origin is the oldest entry of the result *)
  Definition inv_first (E acc : list (Z * Z)) : Prop :=
    (acc = [] /\ E = [(o, 0)]) \/ exists acc0, acc = acc0 ++ [(o, 0)].

  Lemma inv_first_step : forall E acc E' acc', inv_first E acc -> spec_step g a rv E acc = Some (E', acc') -> inv_first E' acc'.
  Proof.
    intros E acc E' acc' H Hs. destruct H as [[-> ->]|[acc0 ->]].
    - cbn in Hs. injection Hs as <- <-. right. exists []. reflexivity.
    - destruct E as [|[x k] rest]; cbn [spec_step] in Hs; [discriminate|].
      destruct (inb x (map fst (acc0 ++ [(o, 0)]))); injection Hs as <- <-; right.
      + exists acc0. reflexivity.
      + exists ((x, k) :: acc0). reflexivity.
  Qed.

  (* (b) no duplicates *)
  Definition inv_nodup (E acc : list (Z * Z)) : Prop := NoDup (map fst acc).

  Lemma inv_nodup_step : forall E acc E' acc', inv_nodup E acc -> spec_step g a rv E acc = Some (E', acc') -> inv_nodup E' acc'.
  Proof.
    intros E acc E' acc' H Hs. unfold inv_nodup in *. destruct E as [|[x k] rest]; cbn [spec_step] in Hs; [discriminate|].
    destruct (inb x (map fst acc)) eqn:Ev; injection Hs as <- <-; [exact H|].
    cbn [map fst]. constructor; [apply inb_false; exact Ev | exact H].
  Qed.

  (* (c) every pending or visited item is reached by a walk of the recorded length *)
  Definition inv_walk (E acc : list (Z * Z)) : Prop :=
    forall x k, In (x, k) E \/ In (x, k) acc -> walk g rv o x k.

  Lemma inv_walk_step : forall E acc E' acc', inv_walk E acc -> spec_step g a rv E acc = Some (E', acc') -> inv_walk E' acc'.
  Proof.
    intros E acc E' acc' H Hs. destruct E as [|[x k] rest]; cbn [spec_step] in Hs; [discriminate|].
    assert (Hx : walk g rv o x k) by (apply H; left; left; reflexivity).
    destruct (inb x (map fst acc)); injection Hs as <- <-; intros y j Hy.
    - apply H. destruct Hy as [Hy|Hy]; [left; right; exact Hy | right; exact Hy].
    - assert (Hnew : In (y, j) (map (fun z => (z, k + 1)) (succs g rv x)) -> walk g rv o y j).
      { intros Hin. apply in_map_iff in Hin. destruct Hin as (z & Hz & Hin). injection Hz as <- <-.
        econstructor; eassumption. }
      destruct Hy as [Hy|[Hy|Hy]].
      + destruct a; apply in_app_or in Hy; destruct Hy as [Hy|Hy]; auto; apply H; left; right; exact Hy.
      + injection Hy as <- <-. exact Hx.
      + apply H. right. exact Hy.
  Qed.

  (* (d) the visited set is closed under successors up to the pending items *)
  Definition inv_closed (E acc : list (Z * Z)) : Prop :=
    (forall x y, In x (map fst acc) -> In y (succs g rv x) -> In y (map fst acc) \/ In y (map fst E)) /\
    (In o (map fst acc) \/ In o (map fst E)).

  Lemma inv_closed_step : forall E acc E' acc', inv_closed E acc -> spec_step g a rv E acc = Some (E', acc') -> inv_closed E' acc'.
  Proof.
    intros E acc E' acc' [Hc Hor] Hs. destruct E as [|[x k] rest]; cbn [spec_step] in Hs; [discriminate|].
    destruct (inb x (map fst acc)) eqn:Ev; injection Hs as <- <-.
    - apply inb_In in Ev. split.
      + intros x' y Hx' Hy. destruct (Hc x' y Hx' Hy) as [H|[H|H]]; [left; exact H | subst; left; exact Ev | right; exact H].
      + destruct Hor as [H|[H|H]]; [left; exact H | cbn [fst] in H; subst; left; exact Ev | right; exact H].
    - assert (HE' : forall y, In y (map fst rest) \/ In y (succs g rv x) ->
                  In y (map fst (match a with
                                 | BFS => rest ++ map (fun z => (z, k + 1)) (succs g rv x)
                                 | DFS => map (fun z => (z, k + 1)) (succs g rv x) ++ rest end))).
      { intros y Hy.
        assert (Hn : In y (succs g rv x) -> In y (map fst (map (fun z => (z, k + 1)) (succs g rv x)))).
        { intros Hin. rewrite map_map. cbn [fst]. rewrite map_id. exact Hin. }
        destruct a; rewrite map_app; apply in_or_app; destruct Hy as [Hy|Hy]; auto. }
      split.
      + intros x' y Hx' Hy. cbn [map fst] in Hx'. destruct Hx' as [Hx'|Hx'].
        * subst x'. right. apply HE'. right. exact Hy.
        * destruct (Hc x' y Hx' Hy) as [H|[H|H]].
          -- left. right. exact H.
          -- cbn [fst] in H. subst. left. left. reflexivity.
          -- right. apply HE'. left. exact H.
      + destruct Hor as [H|[H|H]].
        * left. right. exact H.
        * cbn [fst] in H. subst. left. left. reflexivity.
        * right. apply HE'. left. exact H.
  Qed.

  Theorem search_spec_reachable :
    let r := search_spec g a rv o in
    (exists tl, r = (o, 0) :: tl) /\
    NoDup (map fst r) /\
    (forall x, In x (map fst r) <-> reach g rv o x) /\
    (forall x k, In (x, k) r -> walk g rv o x k).
  Proof.
    intros r. pose proof (search_spec_run g Hok a rv o Ho) as Hrun. fold r in Hrun.
    (* the four invariants at the end of the run *)
    assert (H1 : inv_first [] (rev r)).
    { apply (spec_run_inv g a rv inv_first inv_first_step _ _ _ r) in Hrun; [exact Hrun|].
      left. split; reflexivity. }
    assert (H2 : inv_nodup [] (rev r)).
    { apply (spec_run_inv g a rv inv_nodup inv_nodup_step _ _ _ r) in Hrun; [exact Hrun|]. constructor. }
    assert (H3 : inv_walk [] (rev r)).
    { apply (spec_run_inv g a rv inv_walk inv_walk_step _ _ _ r) in Hrun; [exact Hrun|].
      intros x k [[H|[]]|[]]. injection H as <- <-. constructor. }
    assert (H4 : inv_closed [] (rev r)).
    { apply (spec_run_inv g a rv inv_closed inv_closed_step _ _ _ r) in Hrun; [exact Hrun|].
      split; [intros x y []|]. right. left. reflexivity. }
    assert (Hw : forall x k, In (x, k) r -> walk g rv o x k).
    { intros x k Hin. apply H3. right. apply in_rev in Hin. exact Hin. }
    repeat split.
    - destruct H1 as [[_ H]|[acc0 H]]; [discriminate|].
      exists (rev acc0). rewrite <- (rev_involutive r), H, rev_app_distr. reflexivity.
    - unfold inv_nodup in H2. rewrite map_rev in H2. apply NoDup_rev in H2.
      rewrite rev_involutive in H2. exact H2.
    - intros Hin. apply in_map_iff in Hin. destruct Hin as ([y k] & Hy & Hin). cbn [fst] in Hy. subst y.
      eapply walk_reach. apply Hw. exact Hin.
    - intros Hreach. destruct H4 as [Hc Hor].
      assert (Hin : forall y, reach g rv o y -> In y (map fst (rev r))).
      { intros y Hy. induction Hy as [|y z _ IH Hz].
        - destruct Hor as [H|[]]. exact H.
        - destruct (Hc y z IH Hz) as [H|[]]. exact H. }
      specialize (Hin x Hreach). rewrite map_rev in Hin. apply in_rev in Hin. exact Hin.
    - exact Hw.
  Qed.
End SpecProps.

(* ====================================================================== *)
(* 8. breadth-first: distances are non-decreasing and shortest              *)
(* ====================================================================== *)

From Coq Require Import Sorting.Sorted.

Lemma SSorted_app : forall (A : Type) (R : A -> A -> Prop) (l1 l2 : list A),
  StronglySorted R l1 -> StronglySorted R l2 -> (forall x y, In x l1 -> In y l2 -> R x y) ->
  StronglySorted R (l1 ++ l2).
Proof.
  induction l1 as [|x l1 IH]; intros l2 H1 H2 H; cbn [app]; [exact H2|].
  apply StronglySorted_inv in H1. destruct H1 as [H1 Hx]. constructor.
  - apply IH; [exact H1 | exact H2 |]. intros y z Hy Hz. apply H; [right; exact Hy | exact Hz].
  - apply Forall_app. split; [exact Hx|]. apply Forall_forall. intros y Hy. apply H; [left; reflexivity | exact Hy].
Qed.

Lemma SSorted_all : forall (A : Type) (R : A -> A -> Prop) (l : list A),
  (forall x y, In x l -> In y l -> R x y) -> StronglySorted R l.
Proof.
  induction l as [|x l IH]; intros H; constructor.
  - apply IH. intros y z Hy Hz. apply H; right; assumption.
  - apply Forall_forall. intros y Hy. apply H; [left; reflexivity | right; exact Hy].
Qed.

Lemma SSorted_rev : forall (A : Type) (R : A -> A -> Prop) (l : list A),
  StronglySorted (fun x y => R y x) l -> StronglySorted R (rev l).
Proof.
  induction l as [|x l IH]; intros H; cbn [rev]; [constructor|].
  apply StronglySorted_inv in H. destruct H as [H Hx]. apply SSorted_app.
  - apply IH. exact H.
  - constructor; constructor.
  - intros y z Hy [Hz|[]]. subst z. rewrite Forall_forall in Hx. apply Hx. apply in_rev. exact Hy.
Qed.

Lemma SSorted_map : forall (A B : Type) (f : A -> B) (R : B -> B -> Prop) (l : list A),
  StronglySorted (fun x y => R (f x) (f y)) l -> StronglySorted R (map f l).
Proof.
  induction l as [|x l IH]; intros H; cbn [map]; [constructor|].
  apply StronglySorted_inv in H. destruct H as [H Hx]. constructor; [apply IH; exact H|].
  apply Forall_forall. intros y Hy. apply in_map_iff in Hy. destruct Hy as (z & <- & Hz).
  rewrite Forall_forall in Hx. apply Hx. exact Hz.
Qed.

Lemma SSorted_head_min : forall (A : Type) (R : A -> A -> Prop) (x : A) (l : list A),
  StronglySorted R (x :: l) -> forall y, In y l -> R x y.
Proof.
  intros A R x l H y Hy. apply StronglySorted_inv in H. destruct H as [_ H].
  rewrite Forall_forall in H. apply H. exact Hy.
Qed.

Section BfsProps.
  Variable g : graph.
  Hypothesis Hok : adj_ok g.
  Variable rv : bool.
  Variable o : Z.
  Hypothesis Ho : elem_id g o = true.

  Definition le_k (p q : Z * Z) : Prop := snd p <= snd q.

  Definition inv_bfs (E acc : list (Z * Z)) : Prop :=
    StronglySorted le_k E /\
    (forall p q, In p E -> In q E -> snd q <= snd p + 1) /\
    (forall p q, In p acc -> In q E -> snd p <= snd q) /\
    StronglySorted (fun p q => le_k q p) acc /\
    (forall x dx z, In (x, dx) acc -> In z (succs g rv x) ->
       (exists dz, In (z, dz) acc /\ dz <= dx + 1) \/ In (z, dx + 1) E).

  Lemma inv_bfs_step : forall E acc E' acc', inv_bfs E acc -> spec_step g BFS rv E acc = Some (E', acc') -> inv_bfs E' acc'.
  Proof.
    intros E acc E' acc' (Hs & Hspread & Hacc & Hsa & Hsucc) Hstep.
    destruct E as [|[x k] rest]; cbn [spec_step] in Hstep; [discriminate|].
    assert (Hrest : StronglySorted le_k rest) by (apply StronglySorted_inv in Hs; tauto).
    assert (Hmin : forall q, In q rest -> k <= snd q).
    { intros q Hq. apply (SSorted_head_min _ le_k (x, k) rest Hs q Hq). }
    destruct (inb x (map fst acc)) eqn:Ev; injection Hstep as <- <-.
    - (* already visited *)
      repeat split.
      + exact Hrest.
      + intros p q Hp Hq. apply Hspread; right; assumption.
      + intros p q Hp Hq. apply Hacc; [exact Hp | right; exact Hq].
      + exact Hsa.
      + intros x' dx z Hx' Hz. destruct (Hsucc x' dx z Hx' Hz) as [H|[H|H]].
        * left. exact H.
        * injection H as <- Hk. apply inb_In in Ev. apply in_map_iff in Ev.
          destruct Ev as ([x0 d0] & Hx0 & Hin). cbn [fst] in Hx0. subst x0.
          left. exists d0. split; [exact Hin|].
          pose proof (Hacc (x, d0) (x, k) Hin (or_introl eq_refl)) as Hle. cbn [snd] in Hle. lia.
        * right. exact H.
    - (* a new element *)
      set (new := map (fun y => (y, k + 1)) (succs g rv x)).
      assert (Hnew : forall q, In q new -> snd q = k + 1).
      { intros q Hq. unfold new in Hq. apply in_map_iff in Hq. destruct Hq as (z & <- & _). reflexivity. }
      assert (Hrmax : forall q, In q rest -> snd q <= k + 1).
      { intros q Hq. apply (Hspread (x, k) q); [left; reflexivity | right; exact Hq]. }
      repeat split.
      + apply SSorted_app.
        * exact Hrest.
        * apply SSorted_all. intros p q Hp Hq. unfold le_k. rewrite (Hnew p Hp), (Hnew q Hq). lia.
        * intros p q Hp Hq. unfold le_k. rewrite (Hnew q Hq). apply Hrmax. exact Hp.
      + intros p q Hp Hq. apply in_app_or in Hp. apply in_app_or in Hq.
        assert (Hp' : k <= snd p) by (destruct Hp as [Hp|Hp]; [apply Hmin; exact Hp | rewrite (Hnew p Hp); lia]).
        assert (Hq' : snd q <= k + 1) by (destruct Hq as [Hq|Hq]; [apply Hrmax; exact Hq | rewrite (Hnew q Hq); lia]).
        lia.
      + intros p q Hp Hq. apply in_app_or in Hq.
        assert (Hq' : k <= snd q) by (destruct Hq as [Hq|Hq]; [apply Hmin; exact Hq | rewrite (Hnew q Hq); lia]).
        destruct Hp as [Hp|Hp].
        * subst p. exact Hq'.
        * pose proof (Hacc p (x, k) Hp (or_introl eq_refl)) as Hle. cbn [snd] in Hle. lia.
      + constructor; [exact Hsa|]. apply Forall_forall. intros p Hp. unfold le_k.
        apply (Hacc p (x, k) Hp). left. reflexivity.
      + intros x' dx z Hx' Hz. destruct Hx' as [Hx'|Hx'].
        * injection Hx' as <- <-. right. apply in_or_app. right. unfold new. apply in_map_iff.
          exists z. split; [reflexivity | exact Hz].
        * destruct (Hsucc x' dx z Hx' Hz) as [(dz & Hin & Hle)|[H|H]].
          -- left. exists dz. split; [right; exact Hin | exact Hle].
          -- injection H as <- Hk. left. exists k. split; [left; reflexivity | lia].
          -- right. apply in_or_app. left. exact H.
  Qed.

  Theorem bfs_spec_distances :
    let r := search_spec g BFS rv o in
    StronglySorted Z.le (map snd r) /\
    (forall x k, In (x, k) r -> shortest g rv o x k).
  Proof.
    intros r. pose proof (search_spec_run g Hok BFS rv o Ho) as Hrun. fold r in Hrun.
    assert (H : inv_bfs [] (rev r)).
    { apply (spec_run_inv g BFS rv inv_bfs inv_bfs_step _ _ _ r) in Hrun; [exact Hrun|].
      repeat split.
      - constructor; constructor.
      - intros p q [<-|[]] [<-|[]]. lia.
      - intros p q [].
      - constructor.
      - intros x dx z []. }
    destruct H as (_ & _ & _ & Hsa & Hsucc).
    destruct (search_spec_reachable g Hok BFS rv o Ho) as ((tl & Hhd) & Hnd & _ & Hw). fold r in Hhd, Hnd, Hw.
    split.
    - apply SSorted_map. apply SSorted_rev in Hsa. rewrite rev_involutive in Hsa. exact Hsa.
    - intros x k Hin. split; [apply Hw; exact Hin|].
      (* every walk of length j to y ends at an element recorded with a distance <= j *)
      assert (Hall : forall y j, walk g rv o y j -> exists dy, In (y, dy) r /\ dy <= j).
      { intros y j Hy. induction Hy as [|y z j _ (dy & Hiny & Hle) Hz].
        - exists 0. split; [rewrite Hhd; left; reflexivity | lia].
        - destruct (Hsucc y dy z (proj1 (in_rev r (y, dy)) Hiny) Hz) as [(dz & Hinz & Hle')|[]].
          exists dz. split; [apply in_rev; exact Hinz | lia]. }
      intros k' Hk'. destruct (Hall x k' Hk') as (dx & Hinx & Hle).
      (* the recorded distance is unique *)
      assert (dx = k).
      { clear - Hnd Hin Hinx. induction r as [|[y j] r' IH]; [contradiction|].
        cbn [map fst] in Hnd. inversion Hnd as [|? ? Hny Hnd']; subst.
        destruct Hin as [Hin|Hin]; destruct Hinx as [Hinx|Hinx].
        - congruence.
        - injection Hin as -> ->. exfalso. apply Hny. apply in_map_iff. exists (x, dx). split; [reflexivity | exact Hinx].
        - injection Hinx as -> ->. exfalso. apply Hny. apply in_map_iff. exists (x, k). split; [reflexivity | exact Hin].
        - apply IH; assumption. }
      lia.
  Qed.
End BfsProps.

(* ====================================================================== *)
(* 9. depth-first: the result is the pre-order of the recursive DFS          *)
(* ====================================================================== *)

Section DfsProps.
  Variable g : graph.
  Hypothesis Hok : adj_ok g.
  Variable rv : bool.

  (* several iterations of the eager loop *)
  Inductive steps : list (Z * Z) -> list (Z * Z) -> list (Z * Z) -> list (Z * Z) -> Prop :=
  | steps_refl : forall E acc, steps E acc E acc
  | steps_cons : forall E acc E1 acc1 E2 acc2,
      spec_step g DFS rv E acc = Some (E1, acc1) -> steps E1 acc1 E2 acc2 -> steps E acc E2 acc2.

  Lemma steps_trans : forall E acc E1 acc1 E2 acc2,
    steps E acc E1 acc1 -> steps E1 acc1 E2 acc2 -> steps E acc E2 acc2.
  Proof. intros E acc E1 acc1 E2 acc2 H. induction H; intros H2; [exact H2|]. econstructor; eauto. Qed.

  Lemma run_steps : forall E acc E' acc', steps E acc E' acc' ->
    forall f r, spec_run g DFS rv f E acc = Some r -> exists f', spec_run g DFS rv f' E' acc' = Some r.
  Proof.
    intros E acc E' acc' H. induction H as [|E acc E1 acc1 E2 acc2 Hs _ IH]; intros f r Hr; [exists f; exact Hr|].
    destruct f as [|f]; cbn [spec_run] in Hr; [discriminate|]. rewrite Hs in Hr. apply (IH f r Hr).
  Qed.

  Definition todo (A : list Z) : nat := unvis_weight g rv (elements g) A.

  Lemma todo_mark : forall A x, elem_id g x = true -> inb x A = false -> (todo (x :: A) < todo A)%nat.
  Proof.
    intros A x Hx Hv. unfold todo.
    pose proof (unvis_weight_mark g rv (elements g) A x (elem_in_elements g x Hx) Hv) as H.
    unfold weight in H. lia.
  Qed.

  Lemma dfs_sim : forall fr x k rest acc, elem_id g x = true -> (todo (map fst acc) < fr)%nat ->
    exists acc', steps ((x, k) :: rest) acc rest acc' /\
                 map fst acc' = dfs_rec g rv fr x (map fst acc) /\
                 (todo (map fst acc') <= todo (map fst acc))%nat.
  Proof.
    induction fr as [|fr IH]; intros x k rest acc Hx Hfr; [lia|]. cbn [dfs_rec].
    destruct (inb x (map fst acc)) eqn:Ev.
    - exists acc. split; [|split; [reflexivity | lia]].
      econstructor; [|constructor]. cbn [spec_step]. rewrite Ev. reflexivity.
    - (* the successors, one after the other *)
      assert (Hfold : forall ys, (forall y, In y ys -> elem_id g y = true) ->
                forall acc1, (todo (map fst acc1) < fr)%nat ->
                exists acc2, steps (map (fun y => (y, k + 1)) ys ++ rest) acc1 rest acc2 /\
                             map fst acc2 = fold_left (fun s y => dfs_rec g rv fr y s) ys (map fst acc1) /\
                             (todo (map fst acc2) <= todo (map fst acc1))%nat).
      { induction ys as [|y ys IHys]; intros Hys acc1 Hacc1.
        - exists acc1. split; [constructor | split; [reflexivity | lia]].
        - cbn [map app fold_left].
          destruct (IH y (k + 1) (map (fun y => (y, k + 1)) ys ++ rest) acc1 (Hys y (or_introl eq_refl)) Hacc1)
            as (acc1' & Hst1 & Hm1 & Ht1).
          destruct (IHys (fun z Hz => Hys z (or_intror Hz)) acc1' ltac:(lia)) as (acc2 & Hst2 & Hm2 & Ht2).
          exists acc2. split; [eapply steps_trans; eassumption|]. split; [rewrite Hm2, Hm1; reflexivity | lia]. }
      pose proof (todo_mark (map fst acc) x Hx Ev) as Hmark.
      destruct (Hfold (succs g rv x) (fun y Hy => succs_elem g Hok rv x y Hx Hy) ((x, k) :: acc)) as (acc2 & Hst & Hm & Ht).
      { cbn [map fst]. lia. }
      exists acc2. split; [|split].
      + econstructor; [|exact Hst]. cbn [spec_step]. rewrite Ev. reflexivity.
      + exact Hm.
      + cbn [map fst] in Ht. lia.
  Qed.

  Theorem dfs_spec_preorder : forall o fr, elem_id g o = true -> (search_fuel g <= fr)%nat ->
    map fst (search_spec g DFS rv o) = rev (dfs_rec g rv fr o []).
  Proof.
    intros o fr Ho Hfr. pose proof (search_spec_run g Hok DFS rv o Ho) as Hrun.
    destruct (dfs_sim fr o 0 [] [] Ho) as (acc' & Hst & Hm & _).
    { pose proof (mu_init g Hok rv o) as H. unfold mu in H. cbn [length map] in H. unfold todo. cbn [map]. lia. }
    destruct (run_steps _ _ _ _ Hst _ _ Hrun) as (f' & Hf').
    destruct f' as [|f']; cbn [spec_run spec_step] in Hf'; [discriminate|]. injection Hf' as Hf'.
    rewrite <- Hf', map_rev, Hm. reflexivity.
  Qed.
End DfsProps.

(* ====================================================================== *)
(* 10. C14 statements on the implementation model                           *)
(* ====================================================================== *)

Theorem traversal_exact : forall d a reverse origin,
  adj_ok (gr d) -> graph_index (gr d) origin = true ->
  exists r, graph_search rv_fixed d a reverse origin [] HDefault = Some (origin :: r) /\
            NoDup (origin :: r) /\
            (forall x, In x (origin :: r) <-> reach (gr d) reverse origin x).
Proof.
  intros d a rv o Hok Ho. rewrite (lazy_eq_eager d a rv o Hok Ho).
  rewrite graph_index_elem_id in Ho.
  destruct (search_spec_reachable (gr d) Hok a rv o Ho) as ((tl & Hhd) & Hnd & Hreach & _).
  exists (map fst tl). rewrite Hhd in *. cbn [map fst] in *. repeat split; try assumption; apply Hreach.
Qed.

(* the query level: SearchQuery::search with an origin only (forward) or a destination only (reverse) *)
Definition plain_query (alg : algorithm) (origin destination : Z) : search_query :=
  {| s_algorithm := alg; s_origin := QId origin; s_destination := QId destination;
     s_limit := 0; s_offset := 0; s_order_by := []; s_conditions := [] |}.

Theorem search_query_forward : forall d o, adj_ok (gr d) -> graph_index (gr d) o = true ->
  search rv_fixed d (plain_query ABreadthFirst o 0) = SOk (map fst (bfs_spec (gr d) false o)) /\
  search rv_fixed d (plain_query ADepthFirst o 0) = SOk (map fst (dfs_spec (gr d) false o)).
Proof.
  intros d o Hok Ho. unfold search, plain_query, bfs_spec, dfs_spec.
  cbn [s_algorithm s_origin s_destination s_limit s_offset s_order_by s_conditions is_zero_id db_id handler_of].
  rewrite Ho. cbn [Z.eqb andb]. rewrite !(lazy_eq_eager d _ false o Hok Ho). split; reflexivity.
Qed.

Theorem search_query_reverse : forall d o, adj_ok (gr d) -> graph_index (gr d) o = true ->
  search rv_fixed d (plain_query ABreadthFirst 0 o) = SOk (map fst (bfs_spec (gr d) true o)) /\
  search rv_fixed d (plain_query ADepthFirst 0 o) = SOk (map fst (dfs_spec (gr d) true o)).
Proof.
  intros d o Hok Ho.
  assert (Hnz : o <> 0).
  { pose proof Ho as H. rewrite graph_index_elem_id in H. apply elem_id_slot in H. lia. }
  pose proof (lazy_eq_eager d BFS true o Hok Ho) as Hb. pose proof (lazy_eq_eager d DFS true o Hok Ho) as Hd.
  unfold search, plain_query, bfs_spec, dfs_spec.
  cbn [s_algorithm s_origin s_destination s_limit s_offset s_order_by s_conditions db_id handler_of].
  change (handler_of 0 0) with HDefault.
  destruct o as [|p|p]; [lia| |]; cbn [is_zero_id]; rewrite Ho, Hb, Hd; split; reflexivity.
Qed.

(* ====================================================================== *)
(* 11. witnesses: the two repaired defects                                  *)
(* ====================================================================== *)

From Agdb Require Import Queries.

Definition q_nodes (n : Z) : query := InsertNodes n (Single []) [] (Ids []).
Definition q_edge (f t : Z) : query := InsertEdges (Ids [QId f]) (Ids [QId t]) (Single []) false (Ids []).
Definition run_queries (r : revision) (qs : list query) : db := fold_left (fun d q => fst (exec r d q)) qs db_new.
Definition ids_of (r : qres) : option (list Z) :=
  match r with QOk _ els => Some (map e_id els) | _ => None end.

(* (1) before fix_edge_origin: a search from an edge also returned the edge's older siblings,
   which are not reachable from it.  Nodes 1 2, edges -3 : 1->2, -4 : 1->2. *)
Definition witness1 (r : revision) : db := run_queries r [q_nodes 2; q_edge 1 2; q_edge 1 2].

Lemma edge_origin_pinned_refuted :
  let d := witness1 rv_pinned in
  adj_ok (gr d) /\ graph_index (gr d) (-4) = true /\
  graph_search rv_pinned d BFS false (-4) [] HDefault = Some [-4; -3; 2] /\
  graph_search rv_pinned d DFS false (-4) [] HDefault = Some [-4; 2; -3] /\
  ids_of (snd (exec rv_pinned d (SearchQ (plain_query ABreadthFirst (-4) 0)))) = Some [-4; -3; 2] /\
  ~ reach (gr d) false (-4) (-3) /\
  graph_search rv_fixed (witness1 rv_fixed) BFS false (-4) [] HDefault = Some [-4; 2].
Proof.
  intros d. split; [apply adj_okb_sound; vm_compute; reflexivity|].
  split; [vm_compute; reflexivity|]. split; [vm_compute; reflexivity|]. split; [vm_compute; reflexivity|].
  split; [vm_compute; reflexivity|]. split; [|vm_compute; reflexivity].
  assert (H : forall x, reach (gr d) false (-4) x -> x = -4 \/ x = 2).
  { intros x Hx. induction Hx as [|x y _ IH Hy]; [left; reflexivity|].
    destruct IH as [->| ->]; vm_compute in Hy; [destruct Hy as [<-|[]]; right; reflexivity | contradiction]. }
  intros Hr. destruct (H _ Hr); discriminate.
Qed.

(* (2) with fix_edge_origin but before fix_visited_chain: the already visited origin edge cut the
   lazily expanded edge list of its node, so older siblings reachable through the node were lost.
   Node 1, self-loops -2 and -3. *)
Definition rv_no_visited_chain : revision :=
  {| fix_rollback_replace := true; fix_alias_steal_undo := true; fix_alias_nodes_only := true;
     fix_strict_order := true; fix_slice_clamp := true; fix_edge_origin := true;
     fix_visited_chain := false; fix_nodes_ids_alias := true; fix_empty_alias := false |}.

Definition witness2 (r : revision) : db := run_queries r [q_nodes 1; q_edge 1 1; q_edge 1 1].

Lemma visited_chain_refuted :
  let d := witness2 rv_no_visited_chain in
  adj_ok (gr d) /\ graph_index (gr d) (-3) = true /\
  graph_search rv_no_visited_chain d BFS false (-3) [] HDefault = Some [-3; 1] /\
  graph_search rv_no_visited_chain d DFS false (-3) [] HDefault = Some [-3; 1] /\
  graph_search rv_no_visited_chain d BFS true (-3) [] HDefault = Some [-3; 1] /\
  ids_of (snd (exec rv_no_visited_chain d (SearchQ (plain_query ABreadthFirst (-3) 0)))) = Some [-3; 1] /\
  reach (gr d) false (-3) (-2) /\
  graph_search rv_fixed (witness2 rv_fixed) BFS false (-3) [] HDefault = Some [-3; 1; -2].
Proof.
  intros d. split; [apply adj_okb_sound; vm_compute; reflexivity|].
  split; [vm_compute; reflexivity|]. split; [vm_compute; reflexivity|]. split; [vm_compute; reflexivity|].
  split; [vm_compute; reflexivity|]. split; [vm_compute; reflexivity|]. split; [|vm_compute; reflexivity].
  apply (reach_step _ _ _ 1).
  - apply (reach_step _ _ _ (-3)); [constructor|]. vm_compute. left. reflexivity.
  - vm_compute. right. left. reflexivity.
Qed.

(* non-vacuity of the positive theorems: searches on the example graph of AdjOk.v *)
Definition example_db : db := with_gr db_new example_graph.

Lemma example_searches :
  adj_ok (gr example_db) /\
  graph_search rv_fixed example_db BFS false 1 [] HDefault = Some [1; -5; -4; 3; 2; -7; -8; -6] /\
  graph_search rv_fixed example_db DFS false 1 [] HDefault = Some [1; -5; 3; -7; -4; 2; -8; -6] /\
  graph_search rv_fixed example_db BFS true 3 [] HDefault = Some [3; -5; -6; 1; 2; -7; -8; -4] /\
  graph_search rv_fixed example_db DFS false (-4) [] HDefault = Some [-4; 2; -8; -6; 3; -7; 1; -5] /\
  bfs_spec example_graph false 1 = [(1, 0); (-5, 1); (-4, 1); (3, 2); (2, 2); (-7, 3); (-8, 3); (-6, 3)].
Proof.
  split; [exact example_graph_adj_ok|]. vm_compute. repeat split.
Qed.

(* ====================================================================== *)
(* 12. the statements pinned in Props/C14.v                                 *)
(* ====================================================================== *)

Lemma lazy_eq_eager_bfs : forall d reverse origin,
  adj_ok (gr d) -> graph_index (gr d) origin = true ->
  graph_search rv_fixed d BFS reverse origin [] HDefault = Some (map fst (bfs_spec (gr d) reverse origin)).
Proof. intros. apply lazy_eq_eager; assumption. Qed.

Lemma lazy_eq_eager_dfs : forall d reverse origin,
  adj_ok (gr d) -> graph_index (gr d) origin = true ->
  graph_search rv_fixed d DFS reverse origin [] HDefault = Some (map fst (dfs_spec (gr d) reverse origin)).
Proof. intros. apply lazy_eq_eager; assumption. Qed.

Lemma bfs_reachable : forall g reverse o,
  adj_ok g -> graph_index g o = true ->
  let r := bfs_spec g reverse o in
  (exists tl, r = (o, 0) :: tl) /\
  NoDup (map fst r) /\
  (forall x, In x (map fst r) <-> reach g reverse o x) /\
  StronglySorted Z.le (map snd r) /\
  (forall x k, In (x, k) r -> shortest g reverse o x k).
Proof.
  intros g rv o Hok Ho r. rewrite graph_index_elem_id in Ho.
  destruct (search_spec_reachable g Hok BFS rv o Ho) as (H1 & H2 & H3 & _).
  destruct (bfs_spec_distances g Hok rv o Ho) as (H4 & H5).
  split; [exact H1|]. split; [exact H2|]. split; [exact H3|]. split; [exact H4 | exact H5].
Qed.

Lemma dfs_preorder : forall g reverse o,
  adj_ok g -> graph_index g o = true ->
  let r := dfs_spec g reverse o in
  (exists tl, r = (o, 0) :: tl) /\
  NoDup (map fst r) /\
  (forall x, In x (map fst r) <-> reach g reverse o x) /\
  (forall x k, In (x, k) r -> walk g reverse o x k) /\
  (forall fr, (search_fuel g <= fr)%nat -> map fst r = rev (dfs_rec g reverse fr o [])).
Proof.
  intros g rv o Hok Ho r. rewrite graph_index_elem_id in Ho.
  destruct (search_spec_reachable g Hok DFS rv o Ho) as (H1 & H2 & H3 & H4).
  split; [exact H1|]. split; [exact H2|]. split; [exact H3|]. split; [exact H4|].
  intros fr Hfr. apply dfs_spec_preorder; assumption.
Qed.

(* ====================================================================== *)
(* 13. the fuel suffices for EVERY condition list and handler               *)
(* ====================================================================== *)

Section GenFuel.
  Variable d : db.
  Local Notation g := (gr d) (only parsing).
  Hypothesis Hok : adj_ok g.
  Variable a : algo.
  Variable rv : bool.
  Variable origin : Z.

  Let absw := abs_work d rv.

  (* weight of the elements whose slot is not yet visited *)
  Fixpoint slot_weight (U V : list Z) : nat :=
    match U with
    | [] => 0
    | x :: r => (if visited V x then 0 else weight g rv x) + slot_weight r V
    end%nat.

  Lemma slot_weight_mono : forall U V s, (slot_weight U (s :: V) <= slot_weight U V)%nat.
  Proof.
    induction U as [|y U IH]; intros V s; cbn [slot_weight]; [lia|].
    specialize (IH V s). unfold visited in *. cbn [existsb].
    destruct (Z.abs y =? s); cbn [orb]; [lia|]. destruct (existsb (Z.eqb (Z.abs y)) V); lia.
  Qed.

  Lemma slot_weight_mark : forall U V x, In x U -> visited V x = false ->
    (slot_weight U (Z.abs x :: V) + weight g rv x <= slot_weight U V)%nat.
  Proof.
    induction U as [|y U IH]; intros V x Hin Hx; [contradiction|]. cbn [slot_weight].
    destruct (Z.eq_dec y x) as [E|E].
    - subst y. pose proof (slot_weight_mono U V (Z.abs x)). rewrite Hx.
      unfold visited at 1. cbn [existsb]. rewrite Z.eqb_refl. cbn [orb]. lia.
    - destruct Hin as [Hin|Hin]; [contradiction|]. specialize (IH V x Hin Hx).
      unfold visited at 1. cbn [existsb]. fold (visited V y).
      destruct (Z.abs y =? Z.abs x); cbn [orb]; destruct (visited V y); lia.
  Qed.

  Lemma slot_weight_nil : forall U, slot_weight U [] = unvis_weight g rv U [].
  Proof. induction U as [|x U IH]; cbn [slot_weight unvis_weight]; [reflexivity|]. rewrite IH. reflexivity. Qed.

  Definition lazy_mu (W : list (Z * Z)) (V : list Z) : nat := (length (absw W) + slot_weight (elements g) V)%nat.

  (* the effect of expand on the collapsed work list, and the preservation of the work-list invariants *)
  Lemma expand_facts : forall x k rest follow,
    elem_work d ((x, k) :: rest) -> nonneg_work ((x, k) :: rest) ->
    (length (absw (expand rv_fixed g a rv origin rest (x, k) follow)) + 1 =
     length (absw ((x, k) :: rest)) + (if follow then length (succs g rv x) else 0))%nat /\
    elem_work d (expand rv_fixed g a rv origin rest (x, k) follow) /\
    nonneg_work (expand rv_fixed g a rv origin rest (x, k) follow).
  Proof.
    intros x k rest follow HW Hnn. unfold absw.
    assert (Hx : elem_id g x = true) by (apply (HW x k); left; reflexivity).
    assert (Hk : 0 <= k) by (apply (Hnn x k); left; reflexivity).
    assert (HWr : elem_work d rest) by (intros y j Hy; apply (HW y j); right; exact Hy).
    assert (Hnr : nonneg_work rest) by (intros y j Hy; apply (Hnn y j); right; exact Hy).
    destruct (elem_cases d x Hx) as [[Hn Hpos]|[He Hneg]].
    - (* node *)
      rewrite abs_work_cons, (abs_item_node d rv x k Hpos). cbn [app length].
      rewrite (succs_node d rv x Hpos).
      unfold expand. fold (first_of d rv x).
      destruct (0 <? x) eqn:E0; [|lia].
      destruct follow; cbn [andb]; [|repeat split; [lia | exact HWr | exact Hnr]].
      destruct (first_of d rv x =? 0) eqn:E1; cbn [negb].
      + assert (E : first_of d rv x = 0) by lia. rewrite E, (sibs_zero d rv). cbn [length].
        repeat split; [lia | exact HWr | exact Hnr].
      + assert (Hfe : elem_id g (first_of d rv x) = true).
        { unfold elem_id. rewrite (first_of_elem d Hok rv x Hn ltac:(lia)). apply orb_true_r. }
        destruct (abs_item_first d Hok rv x k Hn) as [Hab|Hab]; [|lia].
        destruct a.
        * repeat split.
          -- rewrite abs_work_app, abs_work_cons, abs_work_nil, Hab, app_nil_r, app_length, map_length. lia.
          -- intros y j Hy. apply in_app_or in Hy. destruct Hy as [Hy|[Hy|[]]]; [apply (HWr y j Hy)|].
             injection Hy as <- <-. exact Hfe.
          -- intros y j Hy. apply in_app_or in Hy. destruct Hy as [Hy|[Hy|[]]]; [apply (Hnr y j Hy)|].
             injection Hy as <- <-. lia.
        * repeat split.
          -- rewrite abs_work_cons, Hab, app_length, map_length. lia.
          -- intros y j [Hy|Hy]; [|apply (HWr y j Hy)]. injection Hy as <- <-. exact Hfe.
          -- intros y j [Hy|Hy]; [|apply (Hnr y j Hy)]. injection Hy as <- <-. lia.
    - (* edge *)
      assert (Hpos : (0 <? x) = false) by lia.
      rewrite (succs_edge d rv x Hneg). cbn [length].
      set (tail := if k =? 0 then [] else map (fun y => (y, k)) (sibs d rv (sibling_of d rv x))).
      assert (Hcur : abs_work d rv ((x, k) :: rest) = (x, k) :: tail ++ abs_work d rv rest).
      { rewrite abs_work_cons. unfold tail. destruct (k =? 0) eqn:Ek.
        - unfold abs_item. rewrite Hpos, Ek. reflexivity.
        - rewrite (abs_item_edge d Hok rv x k He ltac:(lia)). reflexivity. }
      rewrite Hcur. cbn [length].
      set (chain := negb (sibling_of d rv x =? 0) && negb (k =? 0)).
      set (W1 := if chain then (sibling_of d rv x, k) :: rest else rest).
      assert (Hchain : abs_work d rv W1 = tail ++ abs_work d rv rest).
      { unfold W1, chain, tail. destruct (k =? 0) eqn:Ek; [rewrite andb_false_r; reflexivity|].
        destruct (sibling_of d rv x =? 0) eqn:Es; cbn [negb andb].
        - assert (E : sibling_of d rv x = 0) by lia. rewrite E, (sibs_zero d rv). reflexivity.
        - rewrite abs_work_cons, (abs_item_sibling d Hok rv x k He ltac:(lia)). reflexivity. }
      assert (HWc : elem_work d W1).
      { unfold W1, chain. destruct (sibling_of d rv x =? 0) eqn:Es; cbn [negb andb]; [exact HWr|].
        destruct (k =? 0); cbn [negb]; [exact HWr|].
        intros y j [Hy|Hy]; [|apply (HWr y j Hy)]. injection Hy as <- <-.
        unfold elem_id. rewrite (sibling_of_elem d Hok rv x He ltac:(lia)). apply orb_true_r. }
      assert (Hnc : nonneg_work W1).
      { unfold W1. destruct chain; [|exact Hnr]. intros y j [Hy|Hy]; [|apply (Hnr y j Hy)]. injection Hy as <- <-. exact Hk. }
      assert (Hte : elem_id g (target_of d rv x) = true).
      { unfold elem_id. rewrite (target_of_elem d Hok rv x He). reflexivity. }
      assert (Htp : 0 < target_of d rv x).
      { pose proof (target_of_elem d Hok rv x He) as Ht. apply node_id_bounds in Ht. lia. }
      rewrite <- Hchain.
      unfold expand. fold (sibling_of d rv x) (target_of d rv x). rewrite Hpos.
      cbn [fix_edge_origin rv_fixed andb]. fold chain.
      destruct a; destruct follow.
      + (* BFS, follow *)
        assert (Heq : (if chain then (sibling_of d rv x, k) :: rest ++ [(target_of d rv x, k + 1)]
                       else rest ++ [(target_of d rv x, k + 1)]) = W1 ++ [(target_of d rv x, k + 1)]).
        { unfold W1. destruct chain; reflexivity. }
        rewrite Heq. repeat split.
        * rewrite abs_work_app, abs_work_cons, abs_work_nil, (abs_item_node d rv _ _ Htp), app_length. cbn [length app]. lia.
        * intros y j Hy. apply in_app_or in Hy. destruct Hy as [Hy|[Hy|[]]]; [apply (HWc y j Hy)|].
          injection Hy as <- <-. exact Hte.
        * intros y j Hy. apply in_app_or in Hy. destruct Hy as [Hy|[Hy|[]]]; [apply (Hnc y j Hy)|].
          injection Hy as <- <-. lia.
      + fold W1. repeat split; [lia | exact HWc | exact Hnc].
      + (* DFS, follow *)
        fold W1. repeat split.
        * rewrite abs_work_cons, (abs_item_node d rv _ _ Htp). cbn [length app]. lia.
        * intros y j [Hy|Hy]; [injection Hy as <- <-; exact Hte | apply (HWc y j Hy)].
        * intros y j [Hy|Hy]; [injection Hy as <- <-; lia | apply (Hnc y j Hy)].
      + fold W1. repeat split; [lia | exact HWc | exact Hnc].
  Qed.

  Lemma search_loop_terminates : forall conds h f W V c acc,
    elem_work d W -> nonneg_work W -> (lazy_mu W V < f)%nat ->
    search_loop rv_fixed d a rv origin conds h f W V c acc <> None.
  Proof.
    intros conds h. induction f as [|f IH]; intros W V c acc HW Hnn Hmu; [lia|].
    destruct W as [|[x k] rest]; [discriminate|].
    cbn [search_loop].
    assert (Hx : elem_id g x = true) by (apply (HW x k); left; reflexivity).
    assert (HWr : elem_work d rest) by (intros y j Hy; apply (HW y j); right; exact Hy).
    assert (Hnr : nonneg_work rest) by (intros y j Hy; apply (Hnn y j); right; exact Hy).
    destruct (expand_facts x k rest true HW Hnn) as (Ht1 & Ht2 & Ht3).
    destruct (expand_facts x k rest false HW Hnn) as (Hf1 & Hf2 & Hf3).
    unfold lazy_mu in *.
    destruct (visited V x) eqn:Ev.
    - cbn [fix_visited_chain rv_fixed andb].
      destruct (x <? 0) eqn:Elt.
      + apply IH; [exact Hf2 | exact Hf3 | lia].
      + apply IH; [exact HWr | exact Hnr|].
        destruct (elem_cases d x Hx) as [[Hn Hpos]|[He Hneg]]; [|lia].
        unfold absw in *. rewrite abs_work_cons, (abs_item_node d rv x k Hpos) in Hmu. cbn [app length] in Hmu. lia.
    - pose proof (slot_weight_mark (elements g) V x (elem_in_elements g x Hx) Ev) as Hm. unfold weight in Hm.
      destruct (handle h c (eval_conditions rv_fixed d x k conds)) as [control c'].
      destruct control as [add|add|add].
      + apply IH; [exact Ht2 | exact Ht3 | lia].
      + discriminate.
      + apply IH; [exact Hf2 | exact Hf3 | lia].
  Qed.

  Theorem graph_search_no_fuel : forall conds h,
    graph_index g origin = true \/ is_node g origin || is_edge g origin = false ->
    graph_search rv_fixed d a rv origin conds h <> None.
  Proof.
    intros conds h [Ho|Ho]; unfold graph_search; [|rewrite Ho; discriminate].
    rewrite graph_index_elem_id in Ho.
    destruct (is_node g origin || is_edge g origin); [|discriminate].
    apply search_loop_terminates.
    - intros x k [H|[]]. injection H as <- <-. exact Ho.
    - intros x k [H|[]]. injection H as <- <-. lia.
    - unfold lazy_mu, absw. rewrite abs_work_cons, abs_work_nil. unfold abs_item. rewrite orb_true_r.
      cbn [app length]. rewrite slot_weight_nil.
      pose proof (mu_init g Hok rv origin) as H. unfold mu in H. cbn [length map] in H. lia.
  Qed.
End GenFuel.
