(* RaftInv.v — invariants of the consensus model that hold for every adversarial event list:
   well-formedness, commit monotonicity (C28a), stability of committed entries (C28b). *)
From Coq Require Import NArith List Bool Lia Arith.
From Agdb Require Import Raft RaftWitness RaftProofs.
Import ListNotations.
Open Scope N_scope.

(* ------------------------------------------------------------------ lists *)

Lemma upd_nth_length : forall A (f : A -> A) l k, length (upd_nth k f l) = length l.
Proof. induction l; destruct k; cbn; auto. Qed.

Lemma nth_upd_nth_eq : forall A (f : A -> A) d l k, (k < length l)%nat -> nth k (upd_nth k f l) d = f (nth k l d).
Proof. induction l; destruct k; cbn; intros; try lia; auto. apply IHl; lia. Qed.

Lemma nth_upd_nth_neq : forall A (f : A -> A) d l k j, k <> j -> nth j (upd_nth k f l) d = nth j l d.
Proof. induction l; destruct k; destruct j; cbn; intros; try congruence; auto. Qed.

Lemma nth_error_upd_nth_eq : forall A (f : A -> A) l k x,
  nth_error l k = Some x -> nth_error (upd_nth k f l) k = Some (f x).
Proof. induction l; destruct k; cbn; intros; try discriminate; auto. congruence. Qed.

Lemma nth_error_upd_nth_neq : forall A (f : A -> A) l k j, k <> j -> nth_error (upd_nth k f l) j = nth_error l j.
Proof. induction l; destruct k; destruct j; cbn; intros; try congruence; auto. Qed.

Lemma In_remove_nth : forall A (l : list A) k x, In x (remove_nth k l) -> In x l.
Proof.
  induction l as [|a l IH]; intros k x H; destruct k; cbn in *; auto.
  destruct H; [left|right]; eauto.
Qed.

Lemma nth_error_firstn_lt : forall A (l : list A) n k, (k < n)%nat -> nth_error (firstn n l) k = nth_error l k.
Proof.
  induction l; intros n k H; destruct n; destruct k; cbn; auto; try lia. apply IHl; lia.
Qed.

Lemma clear_from_length : forall ps a s, length (clear_from a s ps) = length ps.
Proof. induction ps; cbn; intros; auto. Qed.

Lemma clear_from_nth : forall ps a s k,
  nth k (clear_from a s ps) peer0 = nth k ps peer0 \/
  nth k (clear_from a s ps) peer0 = p_set_voted false (nth k ps peer0).
Proof.
  induction ps; intros a0 s k; cbn [clear_from].
  - destruct k; auto.
  - destruct k; cbn [nth].
    + destruct (a0 =? s); auto.
    + apply IHps.
Qed.

Lemma reset_from_length : forall ps a s, length (reset_from a s ps) = length ps.
Proof. induction ps; cbn; intros; auto. Qed.

(* row k of the table after the reset at election (fix_ack_term): the own row is kept, every other row is cleared *)
Lemma reset_from_nth : forall ps a s k,
  nth k (reset_from a s ps) peer0 =
  if a + N.of_nat k =? s then nth k ps peer0 else p_set_all 0 0 0 (nth k ps peer0).
Proof.
  induction ps as [|p ps IH]; intros a s k; cbn [reset_from].
  - destruct k; cbn [nth]; destruct (_ =? _); reflexivity.
  - destruct k; cbn [nth].
    + replace (a + N.of_nat 0) with a by lia. reflexivity.
    + rewrite IH. replace (a + 1 + N.of_nat k) with (a + N.of_nat (S k)) by lia. reflexivity.
Qed.

Lemma node_at_reset_rows : forall nd j,
  node_at (reset_rows nd) j = if j =? n_index nd then node_at nd j else p_set_all 0 0 0 (node_at nd j).
Proof.
  intros nd j. unfold node_at, reset_rows. cbn [n_peers set_peers]. rewrite reset_from_nth.
  replace (0 + N.of_nat (N.to_nat j)) with j by lia. reflexivity.
Qed.

Lemma local_reset_rows : forall nd, local (reset_rows nd) = local nd.
Proof. intros nd. unfold local. change (n_index (reset_rows nd)) with (n_index nd). rewrite node_at_reset_rows, N.eqb_refl. reflexivity. Qed.

Lemma others_reset_rows : forall nd, others (reset_rows nd) = others nd.
Proof. intros nd. unfold others, indices, reset_rows. cbn [n_peers set_peers n_index]. rewrite reset_from_length. reflexivity. Qed.

(* the heartbeats sent at election carry the own row, which the reset leaves alone *)
Lemma heartbeat_reset_rows : forall nd, heartbeat_no_timer (reset_rows nd) = heartbeat_no_timer nd.
Proof.
  intros nd. unfold heartbeat_no_timer. rewrite others_reset_rows. apply map_ext. intros j.
  unfold mk_req. rewrite local_reset_rows. reflexivity.
Qed.

(* `vote_received` with the effect of the acknowledgement repair isolated *)
Lemma vote_received_eq : forall rv nd r,
  vote_received rv nd r =
  if n_size nd / 2 <? votes (upd_peer nd (q_to r) (p_set_voted true)) then
    (if fix_ack_term rv then reset_rows (set_term (set_state (upd_peer nd (q_to r) (p_set_voted true)) Leader) (q_term r))
     else set_term (set_state (upd_peer nd (q_to r) (p_set_voted true)) Leader) (q_term r),
     heartbeat_no_timer (set_term (set_state (upd_peer nd (q_to r) (p_set_voted true)) Leader) (q_term r)))
  else (upd_peer nd (q_to r) (p_set_voted true), []).
Proof.
  intros rv nd r. unfold vote_received.
  change (n_size (upd_peer nd (q_to r) (p_set_voted true))) with (n_size nd).
  destruct (_ <? _); [|reflexivity]. destruct (fix_ack_term rv); rewrite ?heartbeat_reset_rows; reflexivity.
Qed.

(* ------------------------------------------------------------------ node invariant and the step relation *)

Record ninv (nd : node) : Prop := {
  ni_range : (N.to_nat (n_index nd) < length (n_peers nd))%nat;
  ni_commit : n_commit nd = p_lc (local nd);
  ni_len : length (n_logs nd) = N.to_nat (p_li (local nd));
  ni_size : n_size nd <> 1 }.

Definition stable (nd nd' : node) : Prop :=
  n_index nd' = n_index nd /\ length (n_peers nd') = length (n_peers nd) /\ n_size nd' = n_size nd /\
  n_commit nd <= n_commit nd' /\
  forall idx e, idx <= n_commit nd -> log_at (n_logs nd) idx = Some e -> log_at (n_logs nd') idx = Some e.

Definition good (nd nd' : node) : Prop := ninv nd' /\ stable nd nd'.

Lemma stable_refl : forall nd, stable nd nd.
Proof. intros nd; repeat split; auto; lia. Qed.

Lemma stable_trans : forall a b c, stable a b -> stable b c -> stable a c.
Proof.
  intros a b c (I1 & L1 & S1 & C1 & E1) (I2 & L2 & S2 & C2 & E2).
  repeat split; try congruence; try lia.
  intros idx e H1 H2. apply E2; [lia|]. apply E1; auto.
Qed.

Lemma good_refl : forall nd, ninv nd -> good nd nd.
Proof. intros; split; auto using stable_refl. Qed.

Lemma good_trans : forall a b c, good a b -> good b c -> good a c.
Proof. intros a b c [_ S1] [I2 S2]. split; auto. eapply stable_trans; eauto. Qed.

(* a change that leaves the storage and the own (li, lc) untouched *)
Lemma good_same : forall nd nd',
  ninv nd ->
  n_index nd' = n_index nd -> length (n_peers nd') = length (n_peers nd) -> n_size nd' = n_size nd ->
  n_logs nd' = n_logs nd -> n_commit nd' = n_commit nd ->
  p_li (local nd') = p_li (local nd) -> p_lc (local nd') = p_lc (local nd) ->
  good nd nd'.
Proof.
  intros nd nd' [R C L S] Hi Hl Hs Hlog Hc Hli Hlc. split.
  - constructor; congruence.
  - repeat split; auto; try lia. intros; congruence.
Qed.

Lemma local_upd_peer : forall nd j f,
  (N.to_nat (n_index nd) < length (n_peers nd))%nat ->
  local (upd_peer nd j f) = if j =? n_index nd then f (local nd) else local nd.
Proof.
  intros nd j f R. unfold local, node_at, upd_peer. cbn.
  destruct (N.eqb_spec j (n_index nd)) as [->|Hne].
  - apply nth_upd_nth_eq; auto.
  - apply nth_upd_nth_neq. intros H. apply Hne. lia.
Qed.

Lemma good_upd_peer : forall nd j f,
  ninv nd ->
  (j <> n_index nd \/ (forall p, p_li (f p) = p_li p /\ p_lc (f p) = p_lc p)) ->
  good nd (upd_peer nd j f).
Proof.
  intros nd j f I H. pose proof (ni_range _ I) as R.
  apply good_same; auto; try reflexivity.
  - unfold upd_peer; cbn. apply upd_nth_length.
  - rewrite local_upd_peer by auto. destruct (N.eqb_spec j (n_index nd)); auto.
    destruct H as [H|H]; [congruence|apply H].
  - rewrite local_upd_peer by auto. destruct (N.eqb_spec j (n_index nd)); auto.
    destruct H as [H|H]; [congruence|apply H].
Qed.

Lemma good_set_state : forall nd s, ninv nd -> good nd (set_state nd s).
Proof. intros; apply good_same; auto. Qed.
Lemma good_set_term : forall nd t, ninv nd -> good nd (set_term nd t).
Proof. intros; apply good_same; auto. Qed.
Lemma good_set_et : forall nd t, ninv nd -> good nd (set_et nd t).
Proof. intros; apply good_same; auto. Qed.

Lemma good_clear_votes : forall nd, ninv nd -> good nd (clear_votes nd).
Proof.
  intros nd I. apply good_same; auto; cbn.
  - apply clear_from_length.
  - unfold local, node_at; cbn.
    destruct (clear_from_nth (n_peers nd) 0 (n_index nd) (N.to_nat (n_index nd))) as [-> | ->]; auto.
  - unfold local, node_at; cbn.
    destruct (clear_from_nth (n_peers nd) 0 (n_index nd) (N.to_nat (n_index nd))) as [-> | ->]; auto.
Qed.

Lemma good_reset_rows : forall nd, ninv nd -> good nd (reset_rows nd).
Proof.
  intros nd I. apply good_same; auto; try (rewrite local_reset_rows; reflexivity).
  cbn. apply reset_from_length.
Qed.

(* ------------------------------------------------------------------ storage steps *)

Lemma log_at_some_lt : forall l idx e, log_at l idx = Some e -> 1 <= idx /\ (N.to_nat (idx - 1) < length l)%nat.
Proof.
  unfold log_at; intros l idx e H. destruct (N.eqb_spec idx 0); [discriminate|].
  split; [lia|]. apply nth_error_Some. congruence.
Qed.

Lemma log_at_append_keep : forall l k x idx e,
  log_at l idx = Some e -> idx <= k -> log_at (firstn (N.to_nat k) l ++ [x]) idx = Some e.
Proof.
  intros l k x idx e H Hk. pose proof (log_at_some_lt _ _ _ H) as [H1 H2].
  unfold log_at in *. destruct (N.eqb_spec idx 0); [discriminate|].
  rewrite nth_error_app1.
  - rewrite nth_error_firstn_lt; auto. lia.
  - rewrite firstn_length. lia.
Qed.

Lemma local_append_storage : forall nd log,
  (N.to_nat (n_index nd) < length (n_peers nd))%nat ->
  local (append_storage nd log) = p_set_log (e_index log) (e_term log) (local nd).
Proof.
  intros nd log R. unfold append_storage, upd_local.
  rewrite local_upd_peer by exact R. rewrite N.eqb_refl. reflexivity.
Qed.

Lemma local_commit_storage : forall nd idx,
  (N.to_nat (n_index nd) < length (n_peers nd))%nat ->
  local (commit_storage nd idx) = p_set_commit idx (local nd).
Proof.
  intros nd idx R. unfold commit_storage, upd_local.
  rewrite local_upd_peer by exact R. rewrite N.eqb_refl. reflexivity.
Qed.

Lemma peers_len_append_storage : forall nd log, length (n_peers (append_storage nd log)) = length (n_peers nd).
Proof. intros. unfold append_storage, upd_local, upd_peer. cbn. apply upd_nth_length. Qed.

Lemma peers_len_commit_storage : forall nd idx, length (n_peers (commit_storage nd idx)) = length (n_peers nd).
Proof. intros. unfold commit_storage, upd_local, upd_peer. cbn. apply upd_nth_length. Qed.

Lemma good_append_storage : forall nd log,
  ninv nd -> p_lc (local nd) < e_index log -> e_index log <= p_li (local nd) + 1 ->
  good nd (append_storage nd log).
Proof.
  intros nd log I Hc Hi. pose proof I as [R C L S].
  assert (Hlogs : n_logs (append_storage nd log) = firstn (N.to_nat (e_index log - 1)) (n_logs nd) ++ [log]) by reflexivity.
  assert (Hcm : n_commit (append_storage nd log) = n_commit nd) by reflexivity.
  split.
  - constructor.
    + rewrite peers_len_append_storage. exact R.
    + rewrite local_append_storage by exact R. rewrite Hcm. exact C.
    + rewrite local_append_storage by exact R. rewrite Hlogs.
      rewrite app_length, firstn_length. cbn [length p_set_log p_li]. lia.
    + exact S.
  - repeat split.
    + apply peers_len_append_storage.
    + rewrite Hcm. lia.
    + intros idx e H1 H2. rewrite Hlogs. apply log_at_append_keep; auto. lia.
Qed.

Lemma good_commit_storage : forall nd idx,
  ninv nd -> p_lc (local nd) < idx -> good nd (commit_storage nd idx).
Proof.
  intros nd idx I Hc. pose proof I as [R C L S].
  assert (Hlogs : n_logs (commit_storage nd idx) = n_logs nd) by reflexivity.
  assert (Hcm : n_commit (commit_storage nd idx) = idx) by reflexivity.
  split.
  - constructor.
    + rewrite peers_len_commit_storage. exact R.
    + rewrite local_commit_storage by exact R. rewrite Hcm. reflexivity.
    + rewrite local_commit_storage by exact R. rewrite Hlogs. exact L.
    + exact S.
  - repeat split.
    + apply peers_len_commit_storage.
    + rewrite Hcm. lia.
    + intros i e H1 H2. rewrite Hlogs. exact H2.
Qed.

(* ------------------------------------------------------------------ the handlers *)

Lemma good_process : forall nd el due, ninv nd -> good nd (fst (process nd el due)).
Proof.
  intros nd el due I. unfold process.
  destruct (n_state nd); cbn [is_election andb fst];
    try (destruct (n_tt nd <? el); cbn [fst];
         [ eapply good_trans; [apply good_set_state; eauto | apply good_set_et; apply good_set_state; auto]
         | apply good_refl; auto ]).
  - (* Election *)
    destruct (n_et nd <=? el); cbn [fst].
    + unfold pre_election. cbn [fst].
      eapply good_trans; [apply good_clear_votes; auto | apply good_set_et; apply good_clear_votes; auto].
    + destruct (n_tt nd <? el); cbn [fst];
        [ eapply good_trans; [apply good_set_state; eauto | apply good_set_et; apply good_set_state; auto]
        | apply good_refl; auto ].
  - apply good_refl; auto.
Qed.

Lemma good_append : forall nd d, ninv nd -> good nd (fst (append nd d)).
Proof.
  intros nd d I. pose proof I as [R C L S]. unfold append. cbn [fst].
  apply N.eqb_neq in S.
  set (nd1 := upd_local nd (fun p => p_set_log (p_li p + 1) (n_term nd) p)).
  assert (Hloc1 : local nd1 = p_set_log (p_li (local nd) + 1) (n_term nd) (local nd)).
  { unfold nd1, upd_local. rewrite local_upd_peer by exact R. rewrite N.eqb_refl. reflexivity. }
  assert (Hsz : n_size (st_append nd1 (mkEntry (p_li (local nd1)) (n_term nd1) d)) = n_size nd) by reflexivity.
  rewrite Hsz, S.
  (* the only step: local (li, lt) := (li+1, term); logs := firstn li logs ++ [log] *)
  set (log := mkEntry (p_li (local nd1)) (n_term nd1) d).
  assert (Hidx : e_index log = p_li (local nd) + 1) by (unfold log; cbn [e_index]; rewrite Hloc1; reflexivity).
  assert (Hlogs : n_logs (st_append nd1 log) = firstn (N.to_nat (e_index log - 1)) (n_logs nd) ++ [log]) by reflexivity.
  assert (Hcm : n_commit (st_append nd1 log) = n_commit nd) by reflexivity.
  assert (Hloc2 : local (st_append nd1 log) = local nd1) by reflexivity.
  assert (Hlen : length (n_peers (st_append nd1 log)) = length (n_peers nd)).
  { unfold nd1, upd_local, upd_peer. cbn. apply upd_nth_length. }
  split.
  - constructor.
    + rewrite Hlen. exact R.
    + rewrite Hloc2, Hloc1, Hcm. exact C.
    + rewrite Hloc2, Hloc1, Hlogs. rewrite app_length, firstn_length, Hidx. cbn [length p_set_log p_li]. lia.
    + apply N.eqb_neq. exact S.
  - repeat split.
    + exact Hlen.
    + rewrite Hcm. lia.
    + intros idx e H1 H2. rewrite Hlogs. apply log_at_append_keep; auto.
      pose proof (log_at_some_lt _ _ _ H2). lia.
Qed.

Lemma good_become_follower : forall nd r, ninv nd -> good nd (become_follower nd r).
Proof.
  intros nd r I. unfold become_follower. destruct (n_term nd <=? q_term r).
  - eapply good_trans; [apply good_set_term; eauto | apply good_set_state; apply good_set_term; auto].
  - apply good_refl; auto.
Qed.

Lemma good_update_node : forall nd r, ninv nd -> q_from r <> n_index nd -> good nd (update_node nd r).
Proof. intros. unfold update_node. apply good_upd_peer; auto. Qed.

Lemma validate_log_append_true : forall nd r log,
  validate_log_append nd r log = inl true ->
  p_lc (local nd) < e_index log /\ e_index log <= p_li (local nd) + 1.
Proof.
  intros nd r log. unfold validate_log_append.
  destruct (N.eqb_spec (p_lt (local nd)) (e_term log)).
  - destruct (N.leb_spec (e_index log) (p_li (local nd))); [discriminate|].
    destruct (N.ltb_spec (p_lc (local nd)) (e_index log)); cbn [andb]; [|discriminate].
    destruct (N.eqb_spec (p_li (local nd) + 1) (e_index log)); [|discriminate]. intros _. lia.
  - destruct (N.ltb_spec (p_lt (local nd)) (e_term log)); cbn [andb]; [|discriminate].
    destruct (N.ltb_spec (p_lc (local nd)) (e_index log)); cbn [andb]; [|discriminate].
    destruct (N.leb_spec (e_index log) (p_li (local nd) + 1)); [|discriminate]. intros _. lia.
Qed.

Lemma good_append_logs : forall logs nd r, ninv nd -> good nd (fst (append_logs nd r logs)).
Proof.
  induction logs as [|log rest IH]; intros nd r I; cbn [append_logs].
  - apply good_refl; auto.
  - destruct (validate_log_append nd r log) as [doit|resp] eqn:V; cbn [fst]; [|apply good_refl; auto].
    set (nd1 := if doit then append_storage nd log else nd).
    assert (G1 : good nd nd1).
    { unfold nd1. destruct doit; [|apply good_refl; auto].
      apply validate_log_append_true in V. apply good_append_storage; tauto. }
    set (nd2 := if (e_index log <=? q_lc r) && (p_lc (local nd1) <? e_index log)
                then commit_storage nd1 (e_index log) else nd1).
    assert (G2 : good nd1 nd2).
    { unfold nd2. destruct (e_index log <=? q_lc r); cbn [andb]; [|apply good_refl; apply G1].
      destruct (N.ltb_spec (p_lc (local nd1)) (e_index log)); [|apply good_refl; apply G1].
      apply good_commit_storage; [apply G1 | auto]. }
    eapply good_trans; [exact G1|]. eapply good_trans; [exact G2|]. apply IH. apply G2.
Qed.

Lemma good_request : forall rv nd r el,
  ninv nd -> q_from r <> n_index nd -> good nd (fst (handle_request rv nd r el)).
Proof.
  intros rv nd r el I Hne. unfold handle_request. destruct (q_kind r) as [logs| | |].
  - (* Append *)
    unfold append_request. destruct (validate_term nd r); cbn [fst]; [apply good_refl; auto|].
    pose proof (good_become_follower nd r I) as G1.
    assert (G2 : good (become_follower nd r) (update_node (become_follower nd r) r)).
    { apply good_update_node; [apply G1|]. destruct G1 as [_ (Hi & _)]. congruence. }
    eapply good_trans; [exact G1|]. eapply good_trans; [exact G2|]. apply good_append_logs. apply G2.
  - (* Heartbeat *)
    unfold heartbeat_request. destruct (validate_term nd r); cbn [fst]; [apply good_refl; auto|].
    pose proof (good_become_follower nd r I) as G1.
    destruct (validate_log (become_follower nd r) r); cbn [fst]; [exact G1|].
    assert (G2 : good (become_follower nd r) (update_node (become_follower nd r) r)).
    { apply good_update_node; [apply G1|]. destruct G1 as [_ (Hi & _)]. congruence. }
    eapply good_trans; [exact G1|]. eapply good_trans; [exact G2|].
    destruct (N.ltb_spec (p_lc (local (update_node (become_follower nd r) r))) (q_lc r)).
    + apply good_commit_storage; [apply G2|auto].
    + apply good_refl; apply G2.
  - (* PreVote: the node is unchanged *)
    assert (E : fst (pre_vote_request nd r el) = nd).
    { unfold pre_vote_request. destruct (validate_log_for_vote nd r); destruct (n_state nd); cbn [fst]; auto;
        destruct (el <=? n_tt nd); auto. }
    rewrite E. apply good_refl; auto.
  - (* Vote *)
    unfold vote_request.
    destruct (validate_vote_state nd r); cbn [fst]; [apply good_refl; auto|].
    destruct (validate_term_for_vote nd r); cbn [fst]; [apply good_refl; auto|].
    destruct (validate_log_for_vote nd r); cbn [fst]; [apply good_refl; auto|].
    destruct (fix_vote_term rv); [|apply good_set_state; auto].
    eapply good_trans; [apply good_set_term; eauto | apply good_set_state; apply good_set_term; auto].
Qed.

Lemma request_to : forall rv nd r el, s_to (snd (handle_request rv nd r el)) = q_from r.
Proof.
  intros rv nd r el. unfold handle_request. destruct (q_kind r) as [logs| | |].
  - unfold append_request. destruct (validate_term nd r) eqn:V; cbn [snd].
    + unfold validate_term in V. destruct (q_term r <? n_term nd); inversion V; reflexivity.
    + generalize (update_node (become_follower nd r) r). induction logs as [|log rest IH]; intros n0; cbn [append_logs snd].
      * reflexivity.
      * destruct (validate_log_append n0 r log) eqn:W; cbn [snd]; [apply IH|].
        unfold validate_log_append in W.
        repeat match type of W with context [if ?b then _ else _] => destruct b end; inversion W; reflexivity.
  - unfold heartbeat_request. destruct (validate_term nd r) eqn:V; cbn [snd].
    + unfold validate_term in V. destruct (q_term r <? n_term nd); inversion V; reflexivity.
    + destruct (validate_log (become_follower nd r) r) eqn:W; cbn [snd]; [|reflexivity].
      unfold validate_log in W. destruct (_ || _); inversion W; reflexivity.
  - unfold pre_vote_request.
    destruct (validate_log_for_vote nd r) eqn:W.
    + unfold validate_log_for_vote in W. destruct (_ || _); inversion W.
      destruct (n_state nd); cbn [snd s_to]; auto; destruct (el <=? n_tt nd); reflexivity.
    + destruct (n_state nd); cbn [snd s_to]; auto; destruct (el <=? n_tt nd); reflexivity.
  - unfold vote_request.
    destruct (validate_vote_state nd r) eqn:V1; cbn [snd].
    { unfold validate_vote_state in V1. destruct (n_state nd); try (inversion V1; reflexivity).
      destruct (q_term r <=? t); inversion V1; reflexivity. }
    destruct (validate_term_for_vote nd r) eqn:V2; cbn [snd].
    { unfold validate_term_for_vote in V2. destruct (q_term r <=? n_term nd); inversion V2; reflexivity. }
    destruct (validate_log_for_vote nd r) eqn:V3; cbn [snd]; [|reflexivity].
    unfold validate_log_for_vote in V3. destruct (_ || _); inversion V3; reflexivity.
Qed.

(* ------------------------------------------------------------------ response handlers *)

Lemma good_election : forall nd, ninv nd -> good nd (fst (election nd)).
Proof.
  intros nd I. unfold election. cbn [fst].
  eapply good_trans; [apply good_set_term; eauto|].
  eapply good_trans; [apply good_set_state; apply good_set_term; auto|].
  apply good_clear_votes. apply good_set_state. apply good_set_term. auto.
Qed.

Lemma voted_keeps : forall v p, p_li (p_set_voted v p) = p_li p /\ p_lc (p_set_voted v p) = p_lc p.
Proof. intros; split; reflexivity. Qed.

Lemma good_pre_vote_received : forall nd r, ninv nd -> good nd (fst (pre_vote_received nd r)).
Proof.
  intros nd r I. unfold pre_vote_received.
  assert (G1 : good nd (upd_peer nd (q_to r) (p_set_voted true))) by (apply good_upd_peer; auto using voted_keeps).
  destruct (_ <? _).
  - eapply good_trans; [exact G1|]. apply good_election. apply G1.
  - exact G1.
Qed.

Lemma good_vote_received : forall rv nd r, ninv nd -> good nd (fst (vote_received rv nd r)).
Proof.
  intros rv nd r I. unfold vote_received.
  assert (G1 : good nd (upd_peer nd (q_to r) (p_set_voted true))) by (apply good_upd_peer; auto using voted_keeps).
  destruct (_ <? _); cbn [fst]; [|exact G1].
  eapply good_trans; [exact G1|].
  eapply good_trans; [apply good_set_state; apply G1|].
  assert (G3 : good (set_state (upd_peer nd (q_to r) (p_set_voted true)) Leader)
                    (set_term (set_state (upd_peer nd (q_to r) (p_set_voted true)) Leader) (q_term r)))
    by (apply good_set_term; apply good_set_state; apply G1).
  destruct (fix_ack_term rv); [|exact G3].
  eapply good_trans; [exact G3|]. apply good_reset_rows. apply G3.
Qed.

Lemma good_commit : forall nd r, ninv nd -> q_to r <> n_index nd -> good nd (fst (commit nd r)).
Proof.
  intros nd r I Hne. unfold commit.
  set (nd1 := upd_peer nd (q_to r) (p_set_all (q_li r) (q_lt r) (q_lc r))).
  assert (G1 : good nd nd1) by (apply good_upd_peer; auto).
  destruct (N.ltb_spec (p_lc (local nd1)) (q_li r)); cbn [andb fst]; [|exact G1].
  destruct (_ <=? _); cbn [fst]; [|exact G1].
  eapply good_trans; [exact G1|]. apply good_commit_storage; [apply G1|auto].
Qed.

Lemma good_response : forall rv nd r s,
  ninv nd -> q_to r <> n_index nd -> good nd (fst (handle_response rv nd r s)).
Proof.
  intros rv nd r s I Hne. unfold handle_response.
  destruct (n_state nd); destruct (q_kind r); destruct (s_result s); cbn [fst];
    first [ apply good_refl; exact I
          | apply good_pre_vote_received; exact I
          | destruct (vote_counts rv nd r); cbn [fst]; [apply good_vote_received; exact I | apply good_refl; exact I]
          | destruct (ack_counts rv nd r); cbn [fst]; [apply good_commit; [exact I|exact Hne] | apply good_refl; exact I]
          | match goal with |- context [if ?b then _ else _] => destruct b end; cbn [fst];
            [ eapply good_trans; [apply good_set_term; exact I|];
              eapply good_trans; [apply good_set_state; apply good_set_term; exact I|];
              apply good_set_et; apply good_set_state; apply good_set_term; exact I
            | apply good_refl; exact I ] ].
Qed.

(* ------------------------------------------------------------------ messages *)

Definition reqs_ok (i : N) (reqs : list request) : Prop :=
  forall q, In q reqs -> q_from q = i /\ q_to q <> i.

Lemma others_neq : forall nd j, In j (others nd) -> j <> n_index nd.
Proof.
  intros nd j H. unfold others in H. apply filter_In in H as [_ H].
  intros ->. rewrite N.eqb_refl in H. discriminate.
Qed.

Lemma reqs_ok_map : forall nd' T K l,
  (forall j, In j l -> j <> n_index nd') ->
  reqs_ok (n_index nd') (map (fun j => mk_req nd' j T K) l).
Proof.
  intros nd' T K l H q Hq. apply in_map_iff in Hq as [j [<- Hj]]. cbn. split; auto.
Qed.

Lemma reqs_ok_others : forall nd' T K, reqs_ok (n_index nd') (map (fun j => mk_req nd' j T K) (others nd')).
Proof. intros. apply reqs_ok_map. apply others_neq. Qed.

Lemma reqs_ok_nil : forall i, reqs_ok i [].
Proof. intros i q []. Qed.

Lemma index_clear_votes : forall nd, n_index (clear_votes nd) = n_index nd. Proof. reflexivity. Qed.

Lemma reqs_process : forall nd el due, reqs_ok (n_index nd) (snd (process nd el due)).
Proof.
  intros nd el due. unfold process.
  destruct (n_state nd); cbn [is_election andb snd];
    try (destruct (n_tt nd <? el); cbn [snd]; apply reqs_ok_nil).
  - destruct (n_et nd <=? el); cbn [snd].
    + unfold pre_election. cbn [snd]. apply (reqs_ok_others (clear_votes nd)).
    + destruct (n_tt nd <? el); cbn [snd]; apply reqs_ok_nil.
  - apply reqs_ok_map. intros j Hj. apply filter_In in Hj as [Hj _]. apply others_neq; auto.
Qed.

Lemma reqs_append : forall nd d, reqs_ok (n_index nd) (snd (append nd d)).
Proof.
  intros nd d. unfold append. cbn [snd].
  apply (reqs_ok_others (upd_local nd (fun p => p_set_log (p_li p + 1) (n_term nd) p))).
Qed.

Lemma index_upd_peer : forall nd j f, n_index (upd_peer nd j f) = n_index nd. Proof. reflexivity. Qed.

Lemma reqs_election : forall nd, reqs_ok (n_index nd) (snd (election nd)).
Proof.
  intros nd. unfold election. cbn [snd].
  apply (reqs_ok_others (clear_votes (set_state (set_term nd (n_term nd + 1)) Candidate))).
Qed.

Lemma reqs_hb_no_timer : forall nd, reqs_ok (n_index nd) (heartbeat_no_timer nd).
Proof. intros. unfold heartbeat_no_timer. apply reqs_ok_others. Qed.

Lemma reqs_response : forall rv nd r s,
  q_to r <> n_index nd -> reqs_ok (n_index nd) (snd (handle_response rv nd r s)).
Proof.
  intros rv nd r s Hne. unfold handle_response.
  destruct (n_state nd); destruct (q_kind r); destruct (s_result s); cbn [snd];
    try apply reqs_ok_nil;
    try (destruct (vote_counts rv nd r); cbn [snd]; [|apply reqs_ok_nil]);
    try (destruct (ack_counts rv nd r); cbn [snd]; [|apply reqs_ok_nil]);
    try (match goal with |- context [if ?b then _ else _] => destruct b end; cbn [snd]; apply reqs_ok_nil).
  all: try (unfold pre_vote_received; destruct (_ <? _); cbn [snd]; [|apply reqs_ok_nil];
            apply (reqs_election (upd_peer nd (q_to r) (p_set_voted true)))).
  all: try (unfold vote_received; destruct (_ <? _); cbn [snd]; [|apply reqs_ok_nil];
            destruct (fix_ack_term rv);
            [ apply (reqs_hb_no_timer (reset_rows (set_term (set_state (upd_peer nd (q_to r) (p_set_voted true)) Leader) (q_term r))))
            | apply (reqs_hb_no_timer (set_term (set_state (upd_peer nd (q_to r) (p_set_voted true)) Leader) (q_term r)))]).
  all: try (unfold commit; destruct (_ && _); cbn [snd]; [|apply reqs_ok_nil];
            apply (reqs_hb_no_timer (commit_storage (upd_peer nd (q_to r) (p_set_all (q_li r) (q_lt r) (q_lc r))) (q_li r)))).
  all: try (unfold reconcile; cbn [snd]; intros q [<-|[]]; cbn; split; auto).
Qed.

(* ------------------------------------------------------------------ the cluster *)

Definition msg_ok (m : msg) : Prop :=
  match m with
  | MReq r => q_from r <> q_to r
  | MResp r s => q_from r <> q_to r /\ s_to s = q_from r
  end.

Definition nodes_ok (l : list node) : Prop :=
  forall k nd, nth_error l k = Some nd -> ninv nd /\ n_index nd = N.of_nat k.

Definition nstable (l l' : list node) : Prop :=
  forall k nd, nth_error l k = Some nd -> exists nd', nth_error l' k = Some nd' /\ stable nd nd'.

Definition cinv (c : cluster) : Prop := nodes_ok (c_nodes c) /\ forall m, In m (c_net c) -> msg_ok m.

Lemma nstable_refl : forall l, nstable l l.
Proof. intros l k nd H. exists nd. split; auto using stable_refl. Qed.

Lemma nstable_trans : forall a b c, nstable a b -> nstable b c -> nstable a c.
Proof.
  intros a b c H1 H2 k nd H. destruct (H1 _ _ H) as [nd1 [E1 S1]]. destruct (H2 _ _ E1) as [nd2 [E2 S2]].
  exists nd2. split; auto. eapply stable_trans; eauto.
Qed.

Lemma nodes_put : forall c i nd nd',
  nodes_ok (c_nodes c) -> get_node c i = Some nd -> good nd nd' ->
  nodes_ok (put_node c i nd') /\ nstable (c_nodes c) (put_node c i nd').
Proof.
  intros c i nd nd' H G [I' S]. unfold get_node in G. unfold put_node. split.
  - intros k x Hk. destruct (Nat.eq_dec (N.to_nat i) k) as [<-|Hne].
    + rewrite (nth_error_upd_nth_eq _ _ _ _ _ G) in Hk. inversion Hk; subst x. split; auto.
      destruct (H _ _ G) as [_ E]. destruct S as (Hi & _). congruence.
    + rewrite nth_error_upd_nth_neq in Hk by auto. apply H; auto.
  - intros k x Hk. destruct (Nat.eq_dec (N.to_nat i) k) as [<-|Hne].
    + rewrite G in Hk. inversion Hk; subst x. exists nd'. split; auto.
      apply (nth_error_upd_nth_eq _ _ _ _ _ G).
    + exists x. rewrite nth_error_upd_nth_neq by auto. split; auto using stable_refl.
Qed.

Lemma get_node_index : forall c i nd, nodes_ok (c_nodes c) -> get_node c i = Some nd -> n_index nd = i.
Proof. intros c i nd H G. destruct (H _ _ G) as [_ E]. rewrite E. lia. Qed.

Lemma net_add_reqs : forall (net : list msg) i reqs,
  (forall m, In m net -> msg_ok m) -> reqs_ok i reqs ->
  forall m, In m (net ++ map MReq reqs) -> msg_ok m.
Proof.
  intros net i reqs H R m Hm. apply in_app_or in Hm as [Hm|Hm]; auto.
  apply in_map_iff in Hm as [q [<- Hq]]. cbn. destruct (R _ Hq) as [-> Hne]. congruence.
Qed.

Lemma step_inv : forall rv c e, cinv c -> cinv (step rv c e) /\ nstable (c_nodes c) (c_nodes (step rv c e)).
Proof.
  intros rv c e [HN HM]. destruct e as [i el due | k el | k | k | i d]; cbn [step].
  - (* Tick *)
    destruct (get_node c i) as [nd|] eqn:G; [|split; [split; auto | apply nstable_refl]].
    pose proof (good_process nd el due (proj1 (HN _ _ G))) as Gd.
    pose proof (reqs_process nd el due) as R.
    destruct (process nd el due) as [nd' reqs]. cbn [fst snd] in *. cbn [c_nodes c_net].
    destruct (nodes_put c i nd nd' HN G Gd) as [N1 N2].
    split; [split|]; auto. eapply net_add_reqs; eauto.
  - (* Deliver *)
    destruct (nth_error (c_net c) k) as [[r | r s]|] eqn:Hk; [| |split; [split; auto | apply nstable_refl]].
    + pose proof (HM _ (nth_error_In _ _ Hk)) as Hok. cbn in Hok.
      assert (HM' : forall m, In m (remove_nth k (c_net c)) -> msg_ok m) by (intros m Hm; apply HM; eapply In_remove_nth; eauto).
      destruct (get_node c (q_to r)) as [nd|] eqn:G; [|split; [split; auto | apply nstable_refl]].
      pose proof (get_node_index _ _ _ HN G) as Ei.
      assert (Hne : q_from r <> n_index nd) by congruence.
      pose proof (good_request rv nd r el (proj1 (HN _ _ G)) Hne) as Gd.
      pose proof (request_to rv nd r el) as To.
      destruct (handle_request rv nd r el) as [nd' s]. cbn [fst snd] in *. cbn [c_nodes c_net].
      destruct (nodes_put c (q_to r) nd nd' HN G Gd) as [N1 N2].
      split; [split|]; auto. intros m Hm. apply in_app_or in Hm as [Hm|[<-|[]]]; auto. cbn. auto.
    + pose proof (HM _ (nth_error_In _ _ Hk)) as Hok. cbn in Hok. destruct Hok as [Hft Hto].
      assert (HM' : forall m, In m (remove_nth k (c_net c)) -> msg_ok m) by (intros m Hm; apply HM; eapply In_remove_nth; eauto).
      destruct (get_node c (s_to s)) as [nd|] eqn:G; [|split; [split; auto | apply nstable_refl]].
      pose proof (get_node_index _ _ _ HN G) as Ei.
      assert (Hne : q_to r <> n_index nd) by congruence.
      pose proof (good_response rv nd r s (proj1 (HN _ _ G)) Hne) as Gd.
      pose proof (reqs_response rv nd r s Hne) as R.
      destruct (handle_response rv nd r s) as [nd' reqs]. cbn [fst snd] in *. cbn [c_nodes c_net].
      destruct (nodes_put c (s_to s) nd nd' HN G Gd) as [N1 N2].
      split; [split|]; auto. eapply net_add_reqs; eauto.
  - (* Drop *)
    cbn [c_nodes c_net]. split; [split; auto | apply nstable_refl].
    intros m Hm; apply HM; eapply In_remove_nth; eauto.
  - (* Duplicate *)
    destruct (nth_error (c_net c) k) as [m0|] eqn:Hk; [|split; [split; auto | apply nstable_refl]].
    cbn [c_nodes c_net]. split; [split; auto | apply nstable_refl].
    intros m Hm. apply in_app_or in Hm as [Hm|[<-|[]]]; auto. apply HM. eapply nth_error_In; eauto.
  - (* ClientAppend *)
    destruct (get_node c i) as [nd|] eqn:G; [|split; [split; auto | apply nstable_refl]].
    destruct (is_leader (n_state nd)); [|split; [split; auto | apply nstable_refl]].
    pose proof (good_append nd d (proj1 (HN _ _ G))) as Gd.
    pose proof (reqs_append nd d) as R.
    destruct (append nd d) as [nd' reqs]. cbn [fst snd] in *. cbn [c_nodes c_net].
    destruct (nodes_put c i nd nd' HN G Gd) as [N1 N2].
    split; [split|]; auto. eapply net_add_reqs; eauto.
Qed.

Lemma run_from_inv : forall rv evs c, cinv c -> cinv (run_from rv c evs) /\ nstable (c_nodes c) (c_nodes (run_from rv c evs)).
Proof.
  intros rv. induction evs as [|e evs IH]; intros c H; cbn [run_from fold_left].
  - split; auto using nstable_refl.
  - destruct (step_inv rv c e H) as [H1 S1]. destruct (IH _ H1) as [H2 S2].
    split; auto. eapply nstable_trans; eauto.
Qed.

(* ------------------------------------------------------------------ the initial cluster *)

Lemma init_inv : forall size, size <> 1 -> cinv (init_default size).
Proof.
  intros size Hs. split; [|intros m []].
  intros k nd Hk. unfold init_default, init in Hk. cbn [c_nodes] in Hk.
  rewrite nth_error_map in Hk. destruct (nth_error (seq 0 (N.to_nat size)) k) as [j|] eqn:Hj; [|discriminate].
  cbn in Hk. inversion Hk; subst nd; clear Hk.
  assert (Hlt : (k < N.to_nat size)%nat).
  { rewrite <- (seq_length (N.to_nat size) 0). apply nth_error_Some. congruence. }
  assert (j = k).
  { pose proof (nth_error_nth _ _ 0%nat Hj) as E. rewrite seq_nth in E by lia. lia. }
  subst j. split; [|reflexivity].
  assert (Hloc : local (new_node size (N.of_nat k) 1000 1000 3000) = mkPeer 0 0 0 true).
  { unfold local, node_at, new_node. cbn [n_peers n_index]. rewrite Nat2N.id.
    rewrite (nth_indep _ _ (mkPeer 0 0 0 (N.of_nat 0 =? N.of_nat k))) by (rewrite map_length, seq_length; lia).
    rewrite (map_nth (fun i => mkPeer 0 0 0 (N.of_nat i =? N.of_nat k))).
    rewrite seq_nth by lia. cbn. rewrite N.eqb_refl. reflexivity. }
  constructor.
  - cbn. rewrite map_length, seq_length, Nat2N.id. lia.
  - rewrite Hloc. reflexivity.
  - rewrite Hloc. reflexivity.
  - exact Hs.
Qed.

(* ================================================================== C28 (a), (b) *)

Lemma fold_run_app : forall rv size evs evs', run rv size (evs ++ evs') = run_from rv (run rv size evs) evs'.
Proof. intros. unfold run, run_from. apply fold_left_app. Qed.

Theorem commit_monotone : forall rv size evs evs' i,
  size <> 1 -> commit_of (run rv size evs) i <= commit_of (run rv size (evs ++ evs')) i.
Proof.
  intros rv size evs evs' i Hs. rewrite fold_run_app.
  destruct (run_from_inv rv evs (init_default size) (init_inv size Hs)) as [H1 _].
  destruct (run_from_inv rv evs' (run rv size evs) H1) as [_ S].
  unfold commit_of. destruct (nth_error (c_nodes (run rv size evs)) i) as [nd|] eqn:E; [|lia].
  destruct (S _ _ E) as [nd' [E' (_ & _ & _ & C & _)]]. rewrite E'. exact C.
Qed.

Theorem committed_stable : forall rv size evs evs' i idx e,
  size <> 1 ->
  idx <= commit_of (run rv size evs) i ->
  log_at (logs_of (run rv size evs) i) idx = Some e ->
  log_at (logs_of (run rv size (evs ++ evs')) i) idx = Some e.
Proof.
  intros rv size evs evs' i idx e Hs Hc Hl. rewrite fold_run_app.
  destruct (run_from_inv rv evs (init_default size) (init_inv size Hs)) as [H1 _].
  destruct (run_from_inv rv evs' (run rv size evs) H1) as [_ S].
  unfold commit_of, logs_of in *. destruct (nth_error (c_nodes (run rv size evs)) i) as [nd|] eqn:E.
  - destruct (S _ _ E) as [nd' [E' (_ & _ & _ & _ & K)]]. rewrite E'. apply K; auto.
  - cbn in Hl. unfold log_at in Hl. destruct (idx =? 0); [discriminate|]. destruct (N.to_nat (idx - 1)); discriminate.
Qed.

Lemma C28ab_example : forall rv,
  let c := run rv w28_ack_diverged_n w28_ack_diverged in
  commit_of c 1 = 2 /\ log_at (logs_of c 1) 2 = Some (mkEntry 2 2 22).
Proof. intros [[|] [|] [|]]; vm_compute; auto. Qed.
