(* StoredDbRun.v — proofs (stored database, part 1): the loader only READS, so its run on a record
   store (`cp_run sd_step`, the executable `load_db`) is ONE of the runs the abstract record map accepts: every
   `cwp` statement about a read-only program holds of that run, and the store is left as it was. *)
From Agdb Require Import Bytes BytesProofs Utf8 Codec DbValue ValueIndex Graph DbModel Records RecordsProofs Storage StorageSpec
  StorageLayout StorageWp StorageRefine StorageProofs Collections CollValues CollWp StoredDb.
From Coq Require Import ZifyBool ZifyNat ZifyN.
Open Scope N_scope.

Fixpoint sd_reads {A} (p : cprog A) : Prop :=
  match p with
  | CDo o k => sd_is_read o = true /\ forall v, sd_reads (k v)
  | _ => True
  end.

Lemma sd_reads_bind {A B} (p : cprog A) (f : A -> cprog B) :
  sd_reads p -> (forall a, sd_reads (f a)) -> sd_reads (cbind p f).
Proof.
  induction p as [a|e| |o k IH]; intros Hp Hf; cbn [cbind sd_reads] in *; auto.
  destruct Hp as [Ho Hk]. split; [exact Ho|]. intros v. apply IH; auto.
Qed.

Lemma sd_reads_try {A} (p : cprog A) : sd_reads p -> sd_reads (cp_try p).
Proof.
  induction p as [a|e| |o k IH]; intros Hp; cbn [cp_try sd_reads] in *; auto.
  destruct Hp as [Ho Hk]. split; [exact Ho|]. intros v. apply IH; auto.
Qed.

Lemma sd_reads_value i : sd_reads (cp_value i).
Proof. cbn. split; [reflexivity|]. intros [| | |e| |]; exact I. Qed.
Lemma sd_reads_value_at_size i off n : sd_reads (cp_value_at_size i off n).
Proof. cbn. split; [reflexivity|]. intros [| | |e| |]; exact I. Qed.
Lemma sd_reads_value_size i : sd_reads (cp_value_size i).
Proof. cbn. split; [reflexivity|]. intros [| | |e| |]; exact I. Qed.
Lemma sd_reads_de64 bs : sd_reads (cp_de64 bs).
Proof. unfold cp_de64. destruct (lenN bs <? 8); exact I. Qed.
Lemma sd_reads_outcome {A} (o : outcome A) : sd_reads (cp_of_outcome o).
Proof. destruct o; exact I. Qed.

(* ---- the element classes: `load` only reads ---- *)
Definition sd_elem_reads {T} (E : cv_elem T) : Prop := forall bs, sd_reads (ce_load E bs).

Lemma sd_reads_u64 : sd_elem_reads ce_u64.
Proof. intros bs. apply sd_reads_de64. Qed.
Lemma sd_reads_i64 : sd_elem_reads ce_i64.
Proof. intros bs. cbn [ce_load ce_i64]. apply sd_reads_bind; [apply sd_reads_de64|intros; exact I]. Qed.
Lemma sd_reads_state : sd_elem_reads ce_state.
Proof. intros bs. cbn [ce_load ce_state]. destruct (cm_state_of bs); exact I. Qed.
Lemma sd_reads_raw n : sd_elem_reads (ce_raw n).
Proof. intros bs. cbn [ce_load ce_raw]. destruct (lenN bs <? n); exact I. Qed.
Lemma sd_reads_str_de b : sd_reads (cv_str_de b).
Proof.
  unfold cv_str_de. apply sd_reads_bind; [apply sd_reads_de64|]. intros len.
  destruct (two64 <=? 8 + len); [exact I|]. destruct (lenN b <? 8 + len); [exact I|].
  destruct (utf8_valid _); exact I.
Qed.
Lemma sd_reads_string : sd_elem_reads ce_string.
Proof.
  intros bs. cbn [ce_load ce_string]. apply sd_reads_bind; [apply sd_reads_de64|]. intros i.
  apply sd_reads_bind; [apply sd_reads_value|]. intros b. apply sd_reads_str_de.
Qed.
Lemma sd_reads_dbvalue : sd_elem_reads ce_dbvalue.
Proof.
  intros bs. cbn [ce_load ce_dbvalue]. apply sd_reads_bind; [apply sd_reads_outcome|]. intros ix.
  destruct (is_value ix); [apply sd_reads_outcome|].
  apply sd_reads_bind; [apply sd_reads_value|]. intros b. apply sd_reads_outcome.
Qed.
Lemma sd_reads_pair {A B} (EA : cv_elem A) (EB : cv_elem B) :
  sd_elem_reads EA -> sd_elem_reads EB -> sd_elem_reads (ce_pair EA EB).
Proof.
  intros HA HB bs. cbn [ce_load ce_pair]. apply sd_reads_bind; [apply HA|]. intros a.
  apply sd_reads_bind; [apply HB|]. intros b. exact I.
Qed.
Lemma sd_reads_dbkv : sd_elem_reads ce_dbkv.
Proof. apply sd_reads_pair; apply sd_reads_dbvalue. Qed.

(* ---- vectors ---- *)
Section Vec.
  Variable T : Type.
  Variable E : cv_elem T.
  Hypothesis HE : sd_elem_reads E.

  Lemma sd_reads_from_storage i : sd_reads (cv_from_storage T E i).
  Proof.
    unfold cv_from_storage. apply sd_reads_bind; [apply sd_reads_value|]. intros b.
    apply sd_reads_bind; [apply sd_reads_de64|]. intros len.
    apply sd_reads_bind; [apply sd_reads_value_size|]. intros dl.
    destruct (_ || _ || _); exact I.
  Qed.

  Lemma sd_reads_cv_value h i : sd_reads (cv_value T E h i).
  Proof.
    unfold cv_value. apply sd_reads_bind; [unfold cv_validate; destruct (cv_len h <=? i); exact I|]. intros _.
    apply sd_reads_bind; [apply sd_reads_value_at_size|]. intros bs. apply HE.
  Qed.

  Lemma sd_reads_iter h fuel : forall i, sd_reads (cv_iter T E h fuel i).
  Proof.
    induction fuel as [|f IH]; intros i; cbn [cv_iter]; [exact I|].
    apply sd_reads_bind; [apply sd_reads_try, sd_reads_cv_value|]. intros [x|]; [|exact I].
    apply sd_reads_bind; [apply IH|]. intros l. exact I.
  Qed.

  Lemma sd_reads_values h : sd_reads (cv_values T E h).
  Proof. apply sd_reads_iter. Qed.

  Lemma sd_reads_vec_load i : sd_reads (sd_vec_load T E i).
  Proof. unfold sd_vec_load. apply sd_reads_bind; [apply sd_reads_from_storage|]. intros h. apply sd_reads_values. Qed.
End Vec.

Lemma sd_reads_map_load K V (EK : cv_elem K) (EV : cv_elem V) i :
  sd_elem_reads EK -> sd_elem_reads EV -> sd_reads (sd_map_load K V EK EV i).
Proof.
  intros HK HV. unfold sd_map_load. apply sd_reads_bind.
  { unfold cm_from_storage. apply sd_reads_bind; [apply sd_reads_value|]. intros b. destruct (lenN b <? 32); [exact I|].
    apply sd_reads_bind; [apply sd_reads_from_storage|]. intros s.
    apply sd_reads_bind; [apply sd_reads_from_storage|]. intros k.
    apply sd_reads_bind; [apply sd_reads_from_storage|]. intros v. exact I. }
  intros d. apply sd_reads_bind; [apply sd_reads_values, sd_reads_state|]. intros ss.
  apply sd_reads_bind; [apply sd_reads_values, HK|]. intros ks.
  apply sd_reads_bind; [apply sd_reads_values, HV|]. intros vs. exact I.
Qed.

Lemma sd_reads_graph_load i : sd_reads (sd_graph_load i).
Proof.
  unfold sd_graph_load. apply sd_reads_bind.
  { unfold cg_from_storage. apply sd_reads_bind; [apply sd_reads_value|]. intros b.
    do 4 (apply sd_reads_bind; [apply sd_reads_de64|]; intros ?).
    do 4 (apply sd_reads_bind; [apply sd_reads_from_storage|]; intros ?). exact I. }
  intros d. do 4 (apply sd_reads_bind; [apply sd_reads_values, sd_reads_i64|]; intros ?). exact I.
Qed.

Lemma sd_reads_kvs_load idxs : sd_reads (sd_kvs_load idxs).
Proof.
  induction idxs as [|i r IH]; cbn [sd_kvs_load]; [exact I|].
  apply sd_reads_bind; [destruct (i =? 0); [exact I|apply sd_reads_vec_load, sd_reads_dbkv]|]. intros l.
  apply sd_reads_bind; [exact IH|]. intros t. exact I.
Qed.

Lemma sd_reads_index_list_load es : sd_reads (sd_index_list_load es).
Proof.
  induction es as [|e r IH]; cbn [sd_index_list_load]; [exact I|].
  apply sd_reads_bind.
  { unfold sd_index_load. apply sd_reads_bind; [apply sd_reads_dbvalue|]. intros key.
    apply sd_reads_bind; [apply sd_reads_de64|]. intros mi.
    apply sd_reads_bind; [apply sd_reads_map_load; [apply sd_reads_dbvalue|apply sd_reads_i64]|]. intros ids. exact I. }
  intros x. apply sd_reads_bind; [exact IH|]. intros t. exact I.
Qed.

Lemma sd_reads_load root : sd_reads (sd_load root).
Proof.
  unfold sd_load. apply sd_reads_bind.
  { unfold sd_root_load. apply sd_reads_bind; [apply sd_reads_value|]. intros b. unfold cr_de.
    do 6 (apply sd_reads_bind; [apply sd_reads_de64|]; intros ?). exact I. }
  intros r. apply sd_reads_bind; [apply sd_reads_graph_load|]. intros g.
  apply sd_reads_bind; [apply sd_reads_map_load; [apply sd_reads_string|apply sd_reads_i64]|]. intros a1.
  apply sd_reads_bind; [apply sd_reads_map_load; [apply sd_reads_i64|apply sd_reads_string]|]. intros a2.
  apply sd_reads_bind.
  { unfold sd_indexes_load. apply sd_reads_bind; [apply sd_reads_vec_load, sd_reads_raw|]. intros es. apply sd_reads_index_list_load. }
  intros ix. apply sd_reads_bind.
  { unfold sd_values_load. apply sd_reads_bind; [apply sd_reads_vec_load, sd_reads_u64|]. intros idxs. apply sd_reads_kvs_load. }
  intros vs. exact I.
Qed.

(* ---- the run on a record store is a run the abstract record map accepts ---- *)
Lemma sd_step_accepted fl sp o : sd_is_read o = true ->
  fst (sd_step (sm sp) o) = sm sp /\
  spec_step fl sp o (snd (sd_step (sm sp) o)) = Some sp /\
  obs_ok o (snd (sd_step (sm sp) o)) /\
  snd (sd_step (sm sp) o) <> ObPanic /\ snd (sd_step (sm sp) o) <> ObFault.
Proof.
  intros Hr. destruct o; try discriminate Hr; cbn [sd_step spec_step fst snd obs_ok].
  - destruct (m_get (sm sp) index) as [x|]; cbn [guard is_bytes obs_eqb_err].
    + rewrite (proj2 (bytes_eqb_eq x x) eq_refl). repeat split; congruence.
    + repeat split; congruence.
  - destruct (m_get (sm sp) index) as [x|]; cbn [guard is_bytes obs_eqb_err].
    + destruct ((lenN x <? offset) || (lenN x <? offset + size)); cbn [guard is_bytes obs_eqb_err].
      * repeat split; congruence.
      * rewrite (proj2 (bytes_eqb_eq _ _) eq_refl). repeat split; congruence.
    + repeat split; congruence.
  - destruct (m_get (sm sp) index) as [x|]; cbn [guard is_num obs_eqb_err].
    + rewrite N.eqb_refl. repeat split; congruence.
    + repeat split; congruence.
Qed.

Theorem sd_run_sound fl {A} (p : cprog A) : forall sp (Q : cres A -> spec -> Prop),
  sd_reads p -> cwp fl p sp Q ->
  fst (cp_run sd_step p (sm sp)) = sm sp /\ Q (snd (cp_run sd_step p (sm sp))) sp.
Proof.
  induction p as [a|e| |o k IH]; intros sp Q Hr H; cbn [cp_run cwp sd_reads fst snd] in *; auto.
  - destruct H.
  - destruct Hr as [Ho Hk].
    destruct (sd_step_accepted fl sp o Ho) as (E1 & E2 & E3 & NP & NF).
    destruct (sd_step (sm sp) o) as [m' v] eqn:Es. cbn [fst snd] in *. subst m'.
    destruct v; try congruence; apply IH; auto.
Qed.

(* the answers to read calls are determined by the record map *)
Lemma sd_step_unique fl sp o v sp' : sd_is_read o = true ->
  spec_step fl sp o v = Some sp' -> v = snd (sd_step (sm sp) o) /\ sp' = sp.
Proof.
  assert (GE : forall e x, obs_eqb_err x e = true -> x = ObErr e).
  { intros e x. destruct x as [| | |e'| |]; cbn [obs_eqb_err]; try discriminate. destruct e', e; try discriminate; reflexivity. }
  assert (GB : forall b x, is_bytes x b = true -> x = ObBytes b).
  { intros b x. destruct x; cbn [is_bytes]; try discriminate. intros H. apply bytes_eqb_eq in H. subst. reflexivity. }
  assert (GN : forall n x, is_num x n = true -> x = ObNum n).
  { intros n x. destruct x; cbn [is_num]; try discriminate. intros H. apply N.eqb_eq in H. subst. reflexivity. }
  intros Hr Hs. destruct o; try discriminate Hr; cbn [sd_step spec_step snd] in *; unfold guard in Hs.
  - destruct (m_get (sm sp) index) as [x|].
    + destruct (is_bytes v x) eqn:E; [|discriminate]. injection Hs as <-. split; [apply GB; exact E|reflexivity].
    + destruct (obs_eqb_err v SeNotFound) eqn:E; [|discriminate]. injection Hs as <-. split; [apply GE; exact E|reflexivity].
  - destruct (m_get (sm sp) index) as [x|].
    + destruct ((lenN x <? offset) || (lenN x <? offset + size)).
      * destruct (obs_eqb_err v SeOutOfBounds) eqn:E; [|discriminate]. injection Hs as <-. split; [apply GE; exact E|reflexivity].
      * destruct (is_bytes v _) eqn:E; [|discriminate]. injection Hs as <-. split; [apply GB; exact E|reflexivity].
    + destruct (obs_eqb_err v SeNotFound) eqn:E; [|discriminate]. injection Hs as <-. split; [apply GE; exact E|reflexivity].
  - destruct (m_get (sm sp) index) as [x|].
    + destruct (is_num v (lenN x)) eqn:E; [|discriminate]. injection Hs as <-. split; [apply GN; exact E|reflexivity].
    + destruct (obs_eqb_err v SeNotFound) eqn:E; [|discriminate]. injection Hs as <-. split; [apply GE; exact E|reflexivity].
Qed.

(* a read-only program on the model of storage.rs (C04) returns what it returns on the abstract map, or the storage panics *)
Section Model.
  Variable ops : store_ops cdata.
  Variable fl : bool.
  Hypothesis K : kind ops fl.

  Theorem sd_run_model {A} (p : cprog A) : forall s sp, sd_reads p -> Rel s sp ->
    snd (cp_run (st_step cdata ops) p s) = CrDead \/
    (snd (cp_run (st_step cdata ops) p s) = snd (cp_run sd_step p (sm sp)) /\ Rel (fst (cp_run (st_step cdata ops) p s)) sp).
  Proof.
    induction p as [a|e| |o k IH]; intros s sp Hr RL; cbn [cp_run sd_reads fst snd] in *; auto.
    destruct Hr as [Ho Hk].
    pose proof (step_refines ops fl K s sp o RL) as SR.
    destruct (st_step cdata ops s o) as [s' v] eqn:Es. cbn [fst snd] in SR.
    destruct SR as [->|(sp' & Hs & RL')]; [left; reflexivity|].
    destruct (sd_step_unique fl sp o v sp' Ho Hs) as [Ev ->].
    destruct (sd_step_accepted fl sp o Ho) as (E1 & _ & _ & NP & NF).
    destruct (sd_step (sm sp) o) as [m' v'] eqn:Es'. cbn [fst snd] in *. subst m' v'.
    destruct v; try congruence; apply IH; auto.
  Qed.
End Model.
