(* UndoStepsKv2.v — C13_step_inverse: insert_or_replace_key_value (replace arm and append arm),
   reserve_kv (neutral), remove_keys and remove_all_values (folds of single removals). *)
From Agdb Require Import Bytes BytesProofs DbValue Graph DbModel Revisions UndoBase UndoObs UndoAlias UndoKv
  UndoGraphBase UndoGraph UndoAbs UndoDb UndoStepsKv.
From Coq Require Import Permutation ZifyBool ZifyNat ZifyN.
Open Scope Z_scope.

Section Steps.
  Variable rv : revision.
  Hypothesis Hrv : fix_rollback_replace rv = true.

  (* generic step on (indexes, vals) whose undo may depend on the state it is applied to *)
  Lemma kv_step' d ix1 s1 c :
    db_ok d -> isim ix1 ix1 -> vsim s1 s1 ->
    (forall e, isim (indexes e) ix1 -> vsim (vals e) s1 ->
       exists ix' s', undo_one e c = ROk (with_vals (with_indexes e ix') s') /\
                      isim ix' (indexes d) /\ vsim s' (vals d)) ->
    let d1 := {| gr := gr d; aliases := aliases d; vals := s1; indexes := ix1; undo := c :: undo d |} in
    db_ok d1 /\ undoable rv d d1.
  Proof.
    intros Hok Hi1 Hv1 Hop d1. destruct Hok as [G A V I]. split.
    - constructor; cbn; auto.
    - exists [c]. split; [reflexivity|]. intros e [Ge Ae Ve Ie]. cbn in Ge, Ae, Ve, Ie.
      rewrite rollback_cmds_one by assumption.
      destruct (Hop e Ie Ve) as (ix' & s' & Hun & Hi' & Hv'). rewrite Hun. eexists. split; [reflexivity|].
      constructor; cbn; auto.
  Qed.

  Lemma step_replace d id x old l' :
    db_ok d -> replace_first (kvs_get (vals d) id) x = Some (old, l') -> idx_has d id old ->
    let d1 := {| gr := gr d; aliases := aliases d; vals := kvs_set (vals d) id l';
                 indexes := idx_insert_id (idx_remove_id (indexes d) (fst old) (snd old) id) (fst old) (snd x) id;
                 undo := CReplaceKeyValue id old :: undo d |} in
    db_ok d1 /\ undoable rv d d1.
  Proof.
    intros Hok Hrf Hhas. pose proof Hok as [G A V I].
    destruct V as (Vok & _ & _). destruct I as (Iok & _ & _).
    destruct (replace_first_inverse _ _ _ _ Hrf) as (Ekey & Hinv).
    assert (Hkl' : keys_ok l').
    { unfold keys_ok. rewrite (replace_first_keys _ _ _ _ Hrf). apply Vok. }
    apply kv_step'; auto.
    - split; [|split]; try (apply idx_ok_update, idx_ok_update; assumption). intros k. apply idx_rel_refl.
    - assert (Hk : forall i, keys_ok (kvs_get (kvs_set (vals d) id l') i)).
      { intros i. rewrite kvs_get_set. destruct (same_slot id i); [assumption | apply Vok]. }
      split; [|split]; auto.
    - intros e (Ie1 & _ & Ie3) (Ve1 & _ & Ve3).
      assert (Pid : Permutation l' (kvs_get (vals e) id)).
      { specialize (Ve3 id). rewrite kvs_get_set, same_slot_refl in Ve3. symmetry. exact Ve3. }
      destruct (replace_first_perm l' (kvs_get (vals e) id) old x (kvs_get (vals d) id) Hkl' Pid Hinv) as (le' & Hre & Ple).
      exists (idx_insert_id (idx_remove_id (indexes e) (fst x) (snd x) id) (fst x) (snd old) id), (kvs_set (vals e) id le').
      split; [|split].
      + cbn [undo_one]. unfold kvs_insert_or_replace. rewrite Hre. reflexivity.
      + split; [apply idx_ok_update, idx_ok_update; assumption|]. split; [assumption|]. intros key.
        unfold idx_insert_id, idx_remove_id. rewrite !idx_find_update'. specialize (Ie3 key).
        unfold idx_insert_id, idx_remove_id in Ie3. rewrite !idx_find_update' in Ie3. rewrite Ekey in Ie3.
        destruct (dbv_eqb_spec (fst x) key) as [E|]; [|exact Ie3]. subst key.
        destruct (idx_find (indexes e) (fst x)) as [la|], (idx_find (indexes d) (fst x)) as [lb|] eqn:Eb;
          cbn [omap idx_rel] in Ie3 |- *; try tauto.
        rewrite (remove_first_pair_perm _ _ _ _ Ie3). rewrite remove_first_pair_app_last.
        apply remove_first_pair_then_append. apply Hhas. rewrite Ekey. exact Eb.
      + split; [|split]; auto.
        * intros i. rewrite kvs_get_set. destruct (same_slot id i); [|apply Ve1].
          eapply keys_ok_perm; [exact Ple | apply Vok].
        * intros i. rewrite kvs_get_set. specialize (Ve3 i). rewrite kvs_get_set in Ve3.
          destruct (same_slot id i) eqn:E; [|exact Ve3].
          rewrite <- Ple. rewrite (kvs_get_same _ _ _ E). reflexivity.
  Qed.

  Lemma step_insert_or_replace d id x :
    db_ok d ->
    (forall old l', replace_first (kvs_get (vals d) id) x = Some (old, l') -> idx_has d id old) ->
    db_ok (insert_or_replace_key_value d id x) /\ undoable rv d (insert_or_replace_key_value d id x).
  Proof.
    intros Hok Hhas. unfold insert_or_replace_key_value, kvs_insert_or_replace.
    destruct (replace_first (kvs_get (vals d) id) x) as [[old l']|] eqn:E.
    - apply (step_replace d id x old l' Hok E). eapply Hhas. reflexivity.
    - apply replace_first_none in E. exact (step_insert_key_value rv Hrv d id x Hok E).
  Qed.

  (* reserve_kv only grows the outer vector *)
  Lemma step_reserve_kv d id : db_ok d -> db_ok (reserve_kv d id) /\ undoable rv d (reserve_kv d id).
  Proof.
    intros Hok. assert (S : sim (reserve_kv d id) d).
    { destruct Hok as [G A V I]. constructor; cbn; auto.
      destruct V as (V1 & _ & _). split; [|split]; auto; intros i; rewrite kvs_get_reserve; auto. }
    split; [eapply sim_ok_l, S | apply undoable_neutral; [reflexivity | exact S]].
  Qed.

  (* ---- folds of single removals ---- *)

  Definition remove_sel (id : Z) (sel : kv -> bool) (d : db) (x : kv) : db :=
    if sel x then remove_kv d id x else d.

  (* the pairs still to be processed are present, indexed, and have pairwise different keys *)
  Lemma fold_remove_sel id sel l : forall d,
    db_ok d -> NoDup (map fst l) ->
    (forall x, In x l -> In x (kvs_get (vals d) id) /\ idx_has d id x) ->
    let d1 := fold_left (remove_sel id sel) l d in
    db_ok d1 /\ undoable rv d d1.
  Proof.
    induction l as [|x r IH]; intros d Hok Hnd Hpre; cbn [fold_left].
    - split; [assumption | apply undoable_refl; assumption].
    - inversion Hnd as [|? ? Hnx Hnd']. subst.
      assert (Hstep : db_ok (remove_sel id sel d x) /\ undoable rv d (remove_sel id sel d x) /\
                      (forall y, In y r -> In y (kvs_get (vals (remove_sel id sel d x)) id) /\ idx_has (remove_sel id sel d x) id y)).
      { unfold remove_sel. destruct (sel x).
        - destruct (Hpre x (or_introl eq_refl)) as (Hin & Hhas).
          destruct (step_remove_kv rv Hrv d id x Hok Hin Hhas) as (Hok1 & U1). split; [assumption|]. split; [assumption|].
          intros y Hy. destruct (Hpre y (or_intror Hy)) as (Hiny & Hhasy).
          assert (Hne : fst y <> fst x) by (intros E; apply Hnx; rewrite <- E; apply in_map, Hy).
          split.
          + cbn [remove_kv vals]. rewrite kvs_get_remove_value, same_slot_refl.
            destruct Hok as [_ _ (Vok & _ & _) _]. rewrite remove_first_key_filter by apply Vok.
            apply filter_In. split; [assumption|]. unfold key_is. destruct (dbv_eqb_spec (fst y) (fst x)); [contradiction | reflexivity].
          + unfold idx_has. cbn [remove_kv indexes]. unfold idx_remove_id. intros ids. rewrite idx_find_update'.
            destruct (dbv_eqb_spec (fst x) (fst y)); [congruence|]. apply Hhasy.
        - split; [assumption|]. split; [apply undoable_refl; assumption|]. intros y Hy. apply Hpre. right. assumption. }
      destruct Hstep as (Hok1 & U1 & Hpre1). destruct (IH _ Hok1 Hnd' Hpre1) as (Hok2 & U2).
      split; [exact Hok2 | eapply undoable_trans; eassumption].
  Qed.

  (* remove_keys is such a fold *)
  Lemma remove_keys_fold d id keys :
    snd (remove_keys d id keys) =
    fold_left (remove_sel id (fun x => mem dbv_eqb (fst x) keys)) (kvs_get (vals d) id) d.
  Proof.
    unfold remove_keys. generalize (kvs_get (vals d) id) as l. generalize 0 as n. revert d.
    intros d n l. revert d n. induction l as [|x r IH]; intros d n; cbn [fold_left]; [reflexivity|].
    unfold remove_sel at 2. destruct (mem dbv_eqb (fst x) keys); apply IH.
  Qed.

  (* every pair of the element is listed in the index on its key (if there is one) *)
  Definition idx_has_all (d : db) (id : Z) : Prop := forall x, In x (kvs_get (vals d) id) -> idx_has d id x.

  Lemma step_remove_keys d id keys :
    db_ok d -> idx_has_all d id ->
    db_ok (snd (remove_keys d id keys)) /\ undoable rv d (snd (remove_keys d id keys)).
  Proof.
    intros Hok Hall. rewrite remove_keys_fold. apply fold_remove_sel; auto.
    destruct Hok as [_ _ (Vok & _ & _) _]. apply Vok.
  Qed.

  (* remove_all_values: the same removals, the list is cleared at the end *)
  Lemma remove_all_fold_fields l id : forall d,
    let d1 := fold_left (fun acc (x : kv) => push_undo (index_remove_if acc (fst x) (snd x) id) (CInsertKeyValue id x)) l d in
    let d2 := fold_left (remove_sel id (fun _ => true)) l d in
    gr d1 = gr d2 /\ aliases d1 = aliases d2 /\ indexes d1 = indexes d2 /\ undo d1 = undo d2 /\ vals d1 = vals d.
  Proof.
    induction l as [|x r IH]; intros d; cbn [fold_left]; [auto|].
    set (da := push_undo (index_remove_if d (fst x) (snd x) id) (CInsertKeyValue id x)).
    set (db' := remove_sel id (fun _ => true) d x).
    (* the two folds run from states that agree on everything but vals *)
    assert (Hgen : forall l' a b, gr a = gr b -> aliases a = aliases b -> indexes a = indexes b -> undo a = undo b ->
              let a1 := fold_left (fun acc (x : kv) => push_undo (index_remove_if acc (fst x) (snd x) id) (CInsertKeyValue id x)) l' a in
              let b1 := fold_left (remove_sel id (fun _ => true)) l' b in
              gr a1 = gr b1 /\ aliases a1 = aliases b1 /\ indexes a1 = indexes b1 /\ undo a1 = undo b1 /\ vals a1 = vals a).
    { clear. induction l' as [|y r' IH']; intros a b Hg Ha Hi Hu; cbn [fold_left]; [auto|].
      destruct (IH' (push_undo (index_remove_if a (fst y) (snd y) id) (CInsertKeyValue id y))
                    (remove_sel id (fun _ => true) b y)) as (H1 & H2 & H3 & H4 & H5);
        cbn; try congruence. auto. }
    apply (Hgen r da db'); reflexivity.
  Qed.

  Lemma fold_remove_all_vals l id : forall d,
    kvs_get (vals d) id = l ->
    let d2 := fold_left (remove_sel id (fun _ => true)) l d in
    forall j, kvs_get (vals d2) j = if same_slot id j then [] else kvs_get (vals d) j.
  Proof.
    induction l as [|x r IH]; intros d El; cbn [fold_left]; intros j.
    - destruct (same_slot id j) eqn:E; [|reflexivity]. rewrite <- (kvs_get_same _ _ _ E). exact El.
    - unfold remove_sel at 2. cbn beta iota.
      assert (El' : kvs_get (vals (remove_kv d id x)) id = r).
      { cbn [remove_kv vals]. rewrite kvs_get_remove_value, same_slot_refl, El. cbn [remove_first_key].
        rewrite dbv_eqb_refl. reflexivity. }
      rewrite (IH _ El' j). destruct (same_slot id j) eqn:E; [reflexivity|].
      cbn [remove_kv vals]. rewrite kvs_get_remove_value, E. reflexivity.
  Qed.

  Lemma step_remove_all_values d id :
    db_ok d -> idx_has_all d id ->
    db_ok (remove_all_values d id) /\ undoable rv d (remove_all_values d id).
  Proof.
    intros Hok Hall. set (l := kvs_get (vals d) id).
    set (d2 := fold_left (remove_sel id (fun _ => true)) l d).
    assert (H2 : db_ok d2 /\ undoable rv d d2).
    { apply fold_remove_sel; auto. destruct Hok as [_ _ (Vok & _ & _) _]. apply Vok. }
    destruct H2 as (Hok2 & U2).
    destruct (remove_all_fold_fields l id d) as (Eg & Ea & Ei & Eu & Ev). fold d2 in Eg, Ea, Ei, Eu.
    unfold remove_all_values. fold l.
    set (d1 := fold_left (fun acc (x : kv) => push_undo (index_remove_if acc (fst x) (snd x) id) (CInsertKeyValue id x)) l d) in *.
    assert (S : sim (with_vals d1 (kvs_remove (vals d1) id)) d2).
    { destruct Hok2 as [G A V I]. constructor; cbn [gr aliases vals indexes with_vals].
      - rewrite Eg. exact G.
      - rewrite Ea. exact A.
      - assert (Eq : forall j, kvs_get (kvs_remove (vals d1) id) j = kvs_get (vals d2) j).
        { intros j. rewrite kvs_get_remove, Ev. unfold d2. rewrite (fold_remove_all_vals l id d eq_refl j). reflexivity. }
        destruct V as (V1 & _ & _). split; [|split]; auto; intros j; rewrite Eq; auto.
      - rewrite Ei. exact I. }
    split; [eapply sim_ok_l, S|]. eapply undoable_sim_r; [exact U2 | exact S | exact Eu].
  Qed.
End Steps.
