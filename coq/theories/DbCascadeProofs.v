(* DbCascadeProofs.v — the DbImpl-level cascade of remove (C08 "together with their properties"):
   removing a node through DbModel.remove_id removes the node, every incident edge, the
   key-value lists of all of them, and the node's alias; it never fails on a well-formed graph. *)
From Agdb Require Import Bytes DbValue Graph DbModel.
From Agdb Require Import GraphArr GraphSim GraphSim2 GraphSim3 GraphOps GraphOps2 GraphProofs GraphRemove GraphSpec GraphWf.
From Coq Require Import ZifyBool ZifyNat ZifyN.
Ltac Zify.zify_post_hook ::= Z.div_mod_to_equations.
Open Scope Z_scope.

(* ---------- key-value store ---------- *)

Lemma nth_kvs_set_nth (s : kvstore) (n : nat) (v : list kv) (m : nat) :
  nth m (kvs_set_nth s n v) [] = if Nat.eqb n m then v else nth m s [].
Proof.
  revert n m. induction s as [|x r IH]; intros n m.
  - revert m. induction n as [|n IHn]; intros m; cbn [kvs_set_nth].
    + destruct m as [|m]; cbn [nth Nat.eqb]; [reflexivity|]. destruct m; reflexivity.
    + destruct m as [|m]; cbn [nth Nat.eqb]; [reflexivity|]. rewrite IHn. destruct (Nat.eqb n m); [reflexivity|].
      destruct m; reflexivity.
  - destruct n as [|n], m as [|m]; cbn [kvs_set_nth nth Nat.eqb]; try reflexivity. apply IH.
Qed.

Lemma nth_removelast {A} (l : list A) (d : A) (m : nat) :
  nth m (removelast l) d = if Nat.ltb (S m) (length l) then nth m l d else d.
Proof.
  revert m. induction l as [|x r IH]; intros m; cbn [removelast length].
  - destruct m; reflexivity.
  - destruct r as [|y r'].
    + cbn [length]. destruct m; reflexivity.
    + destruct m as [|m]; [reflexivity|]. cbn [nth]. rewrite IH. cbn [length].
      change (S (S m) <? S (S (length r')))%nat with (S m <? S (length r'))%nat. reflexivity.
Qed.

Lemma kvs_get_remove_same s i : kvs_get (kvs_remove s i) i = [].
Proof.
  unfold kvs_get, kvs_remove.
  destruct (Nat.eqb_spec (S (zabs_nat i)) (length s)) as [E|E].
  - rewrite nth_removelast. destruct (Nat.ltb_spec (S (zabs_nat i)) (length s)); [lia|reflexivity].
  - destruct (Nat.ltb_spec (zabs_nat i) (length s)) as [L|L].
    + unfold kvs_set. rewrite nth_kvs_set_nth, Nat.eqb_refl. reflexivity.
    + apply nth_overflow. lia.
Qed.

Lemma kvs_get_remove_keep s i j : kvs_get s j = [] -> kvs_get (kvs_remove s i) j = [].
Proof.
  unfold kvs_get, kvs_remove. intros H.
  destruct (Nat.eqb_spec (S (zabs_nat i)) (length s)) as [E|E].
  - rewrite nth_removelast. destruct (Nat.ltb (S (zabs_nat j)) (length s)); [assumption|reflexivity].
  - destruct (Nat.ltb_spec (zabs_nat i) (length s)) as [L|L]; [|assumption].
    unfold kvs_set. rewrite nth_kvs_set_nth. destruct (Nat.eqb (zabs_nat i) (zabs_nat j)); [reflexivity|assumption].
Qed.

(* ---------- remove_all_values only touches values, indexes and the undo stack ---------- *)

Lemma rav_fold_proj id l d :
  let d1 := fold_left (fun acc (x : kv) =>
              push_undo (index_remove_if acc (fst x) (snd x) id) (CInsertKeyValue id x)) l d in
  gr d1 = gr d /\ aliases d1 = aliases d /\ vals d1 = vals d.
Proof.
  revert d. induction l as [|x r IH]; intros d; cbn [fold_left]; [auto|].
  destruct (IH (push_undo (index_remove_if d (fst x) (snd x) id) (CInsertKeyValue id x))) as [H1 [H2 H3]].
  cbn zeta in *. rewrite H1, H2, H3. auto.
Qed.

Lemma rav_proj d id :
  gr (remove_all_values d id) = gr d /\ aliases (remove_all_values d id) = aliases d /\
  vals (remove_all_values d id) = kvs_remove (vals d) id.
Proof.
  unfold remove_all_values. cbn [gr aliases vals with_vals].
  destruct (rav_fold_proj id (kvs_get (vals d) id) d) as [H1 [H2 H3]]. cbn zeta in *.
  rewrite H1, H2, H3. auto.
Qed.

(* ---------- the alias ---------- *)

Lemma alookup_aremove {K V} (keqb : K -> K -> bool) (m : list (K * V)) k :
  alookup keqb (aremove keqb m k) k = None.
Proof.
  induction m as [|[k' v] r IH]; cbn [aremove alookup]; [reflexivity|].
  destruct (keqb k' k) eqn:E; [exact IH|]. cbn [alookup]. rewrite E. exact IH.
Qed.

Lemma imap_value_remove_key m a : imap_value (imap_remove_key m a) a = None.
Proof. unfold imap_value, imap_remove_key. cbn [k2v]. apply alookup_aremove. Qed.

(* ---------- removing a list of edges ---------- *)

Definition cascade_step (acc : db * option errkind) (e : Z * Z * Z) : db * option errkind :=
  match acc with
  | (a, Some k) => (a, Some k)
  | (a, None) =>
    let '(ei, f, t) := e in
    match Graph.remove_edge (gr a) ei with
    | Some g => (remove_all_values (push_undo (with_gr a g) (CInsertEdge f t)) ei, None)
    | None => (a, Some EFuel)
    end
  end.

Lemma cascade_fold (L : list (Z * Z * Z)) :
  forall (a : db) (aa : agraph) (fl : list Z),
    (forall t, In t L -> fst (fst t) <= 0) ->
    sim (gr a) aa fl ->
    exists a' aa' fl',
      fold_left cascade_step L (a, None) = (a', None) /\
      sim (gr a') aa' fl' /\ a_nodes aa' = a_nodes aa /\ incl (a_edges aa') (a_edges aa) /\
      (forall t, In t L -> ~ In (- fst (fst t)) (map eslot (a_edges aa'))) /\
      aliases a' = aliases a /\
      (forall j, kvs_get (vals a) j = [] -> kvs_get (vals a') j = []) /\
      (forall t, In t L -> kvs_get (vals a') (fst (fst t)) = []).
Proof.
  induction L as [|[[ei f] t] r IH]; intros a aa fl Hneg HS.
  - exists a, aa, fl. cbn [fold_left]. split; [reflexivity|]. split; [assumption|]. split; [reflexivity|].
    split; [apply incl_refl|]. split; [intros ? []|]. split; [reflexivity|]. split; [auto|intros ? []].
  - cbn [fold_left cascade_step].
    assert (He : ei <= 0) by (apply (Hneg (ei, f, t)); left; reflexivity).
    destruct (gstep_sim (gr a) aa fl (GRemoveEdge ei) HS He) as [g1 [out [aa1 [fl1 [E1 [E2 S1]]]]]].
    cbn [gstep] in E1. destruct (remove_edge (gr a) ei) as [g2|]; [|discriminate].
    injection E1 as <- <-. cbn [astep] in E2. injection E2 as <-.
    set (a1 := remove_all_values (push_undo (with_gr a g2) (CInsertEdge f t)) ei).
    destruct (rav_proj (push_undo (with_gr a g2) (CInsertEdge f t)) ei) as [P1 [P2 P3]].
    fold a1 in P1, P2, P3. cbn [gr aliases vals push_undo with_gr] in P1, P2, P3.
    assert (S1' : sim (gr a1) {| a_nodes := a_nodes aa; a_edges := remE (- ei) (a_edges aa) |} fl1) by (rewrite P1; exact S1).
    destruct (IH a1 {| a_nodes := a_nodes aa; a_edges := remE (- ei) (a_edges aa) |} fl1)
      as [a' [aa' [fl' [F [S' [N' [I' [X' [A' [V' W']]]]]]]]]]; [|exact S1'|].
    { intros t0 Ht0. apply Hneg. right. assumption. }
    exists a', aa', fl'. split; [exact F|]. split; [exact S'|]. cbn [a_nodes a_edges] in *.
    split; [exact N'|]. split.
    { intros x Hx. apply I' in Hx. apply in_remE in Hx. tauto. }
    split.
    { intros t0 [<-|Ht0]; [|apply X'; assumption]. cbn [fst].
      intros Hi. apply in_map_iff in Hi. destruct Hi as [x [Hx Hi]]. apply I' in Hi. apply in_remE in Hi. tauto. }
    split; [rewrite A', P2; reflexivity|]. split.
    { intros j Hj. apply V'. rewrite P3. apply kvs_get_remove_keep. assumption. }
    intros t0 [<-|Ht0]; [|apply W'; assumption]. cbn [fst].
    apply V'. rewrite P3. apply kvs_get_remove_same.
Qed.

(* ---------- remove_id on a node ---------- *)

Lemma remove_node_db_step_eq d n alias :
  remove_node_db d n alias =
  let d1 := match alias with
            | Some a => with_aliases (push_undo d (CInsertAlias n a))
                                     (imap_remove_key (imap_remove_key (aliases d) a) a)
            | None => d
            end in
  if negb (is_node (gr d1) n) then (d1, Some ENotFound) else
  match fold_left cascade_step (node_edges d1 n) (d1, None) with
  | (d2, Some k) => (d2, Some k)
  | (d2, None) =>
    match Graph.remove_node (gr d2) n with
    | Some g => (push_undo (with_gr d2 g) CInsertNode, None)
    | None => (d2, Some EFuel)
    end
  end.
Proof. reflexivity. Qed.

Lemma node_edges_ids d n t :
  In t (node_edges d n) -> In (fst (fst t)) (out_edges (gr d) n) \/ In (fst (fst t)) (in_edges (gr d) n).
Proof.
  unfold node_edges. rewrite in_app_iff, in_map_iff, in_flat_map. intros [[e [<- He]]|[e [He Ht]]].
  - left. exact He.
  - right. destruct (edge_from (gr d) e =? n); [destruct Ht|]. destruct Ht as [<-|[]]. exact He.
Qed.

Lemma node_edges_cover g' d n e :
  gr d = g' -> wf g' -> 0 < n -> is_node g' n = true ->
  In e (out_edges g' n) \/ In e (in_edges g' n) ->
  exists t, In t (node_edges d n) /\ fst (fst t) = e.
Proof.
  intros <- Hwf Hn Hi H. unfold node_edges.
  destruct (wf_out_edges _ n Hwf Hn Hi) as [_ [Hout _]]. destruct (wf_in_edges _ n Hwf Hn Hi) as [_ [Hin _]].
  assert (Ho : In e (out_edges (gr d) n) \/ (In e (in_edges (gr d) n) /\ edge_from (gr d) e <> n)).
  { destruct H as [H|H]; [left; assumption|].
    destruct (Z.eq_dec (edge_from (gr d) e) n) as [E|E]; [left|right; auto].
    apply Hin in H. apply Hout. tauto. }
  destruct Ho as [Ho|[Ho Hne]].
  - exists (e, edge_from (gr d) e, edge_to (gr d) e). split; [|reflexivity].
    apply in_app_iff. left. apply in_map_iff. exists e. auto.
  - exists (e, edge_from (gr d) e, edge_to (gr d) e). split; [|reflexivity].
    apply in_app_iff. right. apply in_flat_map. exists e. split; [assumption|].
    destruct (Z.eqb_spec (edge_from (gr d) e) n); [contradiction|]. left. reflexivity.
Qed.

Lemma remove_node_db_cascade d n alias :
  wf (gr d) -> 0 < n -> graph_index (gr d) n = true ->
  exists d0 d',
    remove_node_db d n alias = (d0, None) /\ d' = remove_all_values d0 n /\
    wf (gr d') /\
    graph_index (gr d') n = false /\ kvs_get (vals d') n = [] /\
    (forall e, In e (out_edges (gr d) n) \/ In e (in_edges (gr d) n) ->
       graph_index (gr d') e = false /\ kvs_get (vals d') e = []) /\
    (forall al, alias = Some al -> imap_value (aliases d') al = None) /\
    (forall i, graph_index (gr d') i = true -> graph_index (gr d) i = true) /\
    node_count (gr d') = node_count (gr d) - 1.
Proof.
  intros [aa [fl HS]] Hn Hgi.
  assert (Hnode : is_node (gr d) n = true).
  { unfold graph_index in Hgi. destruct (Z.ltb_spec n 0); [lia|]. destruct (Z.ltb_spec 0 n); [assumption|lia]. }
  assert (Hwf : wf (gr d)) by (exists aa, fl; exact HS).
  rewrite remove_node_db_step_eq.
  set (d1 := match alias with
             | Some a => with_aliases (push_undo d (CInsertAlias n a))
                                      (imap_remove_key (imap_remove_key (aliases d) a) a)
             | None => d end).
  assert (G1 : gr d1 = gr d) by (unfold d1; destruct alias; reflexivity).
  assert (V1 : vals d1 = vals d) by (unfold d1; destruct alias; reflexivity).
  assert (A1 : forall al, alias = Some al -> imap_value (aliases d1) al = None).
  { intros al E. unfold d1. rewrite E. cbn [aliases with_aliases]. apply imap_value_remove_key. }
  cbn zeta. rewrite G1, Hnode. cbn [negb].
  assert (Hneg : forall t, In t (node_edges d1 n) -> fst (fst t) <= 0).
  { intros t Ht. apply node_edges_ids in Ht. rewrite G1 in Ht.
    destruct (wf_out_edges _ n Hwf Hn Hnode) as [_ [Hout _]]. destruct (wf_in_edges _ n Hwf Hn Hnode) as [_ [Hin _]].
    destruct Ht as [Ht|Ht]; [apply Hout in Ht|apply Hin in Ht]; lia. }
  assert (HS1 : sim (gr d1) aa fl) by (rewrite G1; exact HS).
  destruct (cascade_fold (node_edges d1 n) d1 aa fl Hneg HS1)
    as [d2 [aa2 [fl2 [F [S2 [N2 [I2 [X2 [A2 [V2 W2]]]]]]]]]].
  rewrite F.
  assert (Hn2 : In n (a_nodes aa2)).
  { rewrite N2. apply (is_node_iff _ _ _ _ _ _ _ _ _ HS) in Hnode. rewrite Z.abs_eq in Hnode by lia. exact Hnode. }
  destruct (remove_node_sim (gr d2) aa2 fl2 n S2 Hn2) as [g3 [fl3 [E3 S3]]]. rewrite E3.
  set (d3 := push_undo (with_gr d2 g3) CInsertNode).
  destruct (rav_proj d3 n) as [P1 [P2 P3]]. cbn [gr aliases vals d3 push_undo with_gr] in P1, P2, P3.
  exists d3, (remove_all_values d3 n). split; [reflexivity|]. split; [reflexivity|].
  rewrite P1, P2, P3.
  split; [eexists; eexists; exact S3|].
  split.
  { destruct (graph_index g3 n) eqn:E; [|reflexivity]. apply (sim_graph_index _ _ _ S3) in E.
    cbn [a_nodes a_edges] in E. destruct E as [[_ E]|[E _]]; [|lia]. apply in_zrem in E. tauto. }
  split; [apply kvs_get_remove_same|].
  split.
  { intros e He.
    destruct (node_edges_cover (gr d) d1 n e G1 Hwf Hn Hnode He) as [t [Ht <-]].
    split.
    - destruct (graph_index g3 (fst (fst t))) eqn:E; [|reflexivity].
      apply (sim_graph_index _ _ _ S3) in E. cbn [a_nodes a_edges] in E.
      specialize (Hneg t Ht). destruct E as [[E _]|[_ E]]; [lia|].
      exfalso. apply (X2 t Ht). apply in_map_iff in E. destruct E as [x [Hx E]].
      apply filter_In in E. apply in_map_iff. exists x. tauto.
    - apply kvs_get_remove_keep. apply W2. assumption. }
  split.
  { intros al E. rewrite A2. apply A1. assumption. }
  split.
  { intros i E. apply (sim_graph_index _ _ _ S3) in E. apply (sim_graph_index _ _ _ HS).
    cbn [a_nodes a_edges] in E. destruct E as [[Hp E]|[Hp E]].
    - left. split; [assumption|]. apply in_zrem in E. rewrite <- N2. tauto.
    - right. split; [assumption|]. apply in_map_iff in E. destruct E as [x [Hx E]].
      apply filter_In in E. apply in_map_iff. exists x. split; [assumption|]. apply I2. tauto. }
  rewrite (sim_node_count _ _ _ S3), (sim_node_count _ _ _ HS). cbn [a_nodes].
  rewrite zrem_length; [rewrite N2; reflexivity|apply (sim_nodes_nodup _ _ _ S2)|assumption].
Qed.

Theorem remove_id_node_cascade d n :
  wf (gr d) -> 0 < n -> graph_index (gr d) n = true ->
  exists d',
    remove_id d n = (d', ROk true) /\
    wf (gr d') /\
    graph_index (gr d') n = false /\ kvs_get (vals d') n = [] /\
    (forall e, In e (out_edges (gr d) n) \/ In e (in_edges (gr d) n) ->
       graph_index (gr d') e = false /\ kvs_get (vals d') e = []) /\
    (forall al, imap_key (aliases d) n = Some al -> imap_value (aliases d') al = None) /\
    (forall i, graph_index (gr d') i = true -> graph_index (gr d) i = true) /\
    node_count (gr d') = node_count (gr d) - 1.
Proof.
  intros Hwf Hn Hgi.
  destruct (remove_node_db_cascade d n (imap_key (aliases d) n) Hwf Hn Hgi) as [d0 [d' [E [-> H]]]].
  exists (remove_all_values d0 n). unfold remove_id. rewrite Hgi.
  destruct (Z.ltb_spec 0 n) as [_|]; [|lia]. rewrite E. split; [reflexivity|exact H].
Qed.

(* removal through the alias: remove_q (QAlias a) *)
Theorem remove_alias_node_cascade d a n :
  wf (gr d) -> imap_value (aliases d) a = Some n -> 0 < n -> graph_index (gr d) n = true ->
  exists d',
    remove_q d (QAlias a) = (d', ROk true) /\
    wf (gr d') /\
    graph_index (gr d') n = false /\ kvs_get (vals d') n = [] /\
    (forall e, In e (out_edges (gr d) n) \/ In e (in_edges (gr d) n) ->
       graph_index (gr d') e = false /\ kvs_get (vals d') e = []) /\
    imap_value (aliases d') a = None /\
    (forall i, graph_index (gr d') i = true -> graph_index (gr d) i = true) /\
    node_count (gr d') = node_count (gr d) - 1.
Proof.
  intros Hwf Ha Hn Hgi.
  destruct (remove_node_db_cascade d n (Some a) Hwf Hn Hgi) as [d0 [d' [E [-> [H1 [H2 [H3 [H4 [H5 H6]]]]]]]]].
  exists (remove_all_values d0 n). unfold remove_q. rewrite Ha, E. split; [reflexivity|].
  split; [exact H1|]. split; [exact H2|]. split; [exact H3|]. split; [exact H4|].
  split; [apply H5; reflexivity|exact H6].
Qed.

(* ---------- remove_id on an edge ---------- *)

Theorem remove_id_edge_cascade d e :
  wf (gr d) -> e < 0 -> graph_index (gr d) e = true ->
  exists d',
    remove_id d e = (d', ROk true) /\
    wf (gr d') /\
    graph_index (gr d') e = false /\ kvs_get (vals d') e = [] /\
    (forall i, graph_index (gr d') i = true <-> graph_index (gr d) i = true /\ i <> e) /\
    node_count (gr d') = node_count (gr d).
Proof.
  intros [aa [fl HS]] He Hgi.
  unfold remove_id. rewrite Hgi. destruct (Z.ltb_spec 0 e) as [|_]; [lia|].
  unfold remove_edge_db.
  destruct (gstep_sim (gr d) aa fl (GRemoveEdge e) HS (Z.lt_le_incl e 0 He)) as [g1 [out [aa1 [fl1 [E1 [E2 S1]]]]]].
  cbn [gstep] in E1. destruct (remove_edge (gr d) e) as [g2|]; [|discriminate].
  injection E1 as <- <-. cbn [astep] in E2. injection E2 as <-.
  set (d1 := push_undo (with_gr d g2) (CInsertEdge (edge_from (gr d) e) (edge_to (gr d) e))).
  destruct (rav_proj d1 e) as [P1 [P2 P3]]. cbn [gr aliases vals d1 push_undo with_gr] in P1, P2, P3.
  exists (remove_all_values d1 e). split; [reflexivity|]. rewrite P1, P3.
  split; [eexists; eexists; exact S1|].
  assert (Hiff : forall i, graph_index g2 i = true <-> graph_index (gr d) i = true /\ i <> e).
  { intros i. rewrite (sim_graph_index _ _ _ S1), (sim_graph_index _ _ _ HS). cbn [a_nodes a_edges].
    rewrite map_eslot_remE, in_zrem. split.
    - intros [[Hp Hi]|[Hp [Hi Hne]]]; [split; [left; auto|lia]|split; [right; auto|lia]].
    - intros [[[Hp Hi]|[Hp Hi]] Hne]; [left; auto|right]. split; [assumption|]. split; [assumption|lia]. }
  split.
  { destruct (graph_index g2 e) eqn:E; [|reflexivity]. apply Hiff in E. tauto. }
  split; [apply kvs_get_remove_same|]. split; [exact Hiff|].
  rewrite (sim_node_count _ _ _ S1), (sim_node_count _ _ _ HS). reflexivity.
Qed.

(* ---------- remove_id is total on a well-formed graph and keeps it well-formed ---------- *)

Theorem remove_id_total d id :
  wf (gr d) -> exists d' b, remove_id d id = (d', ROk b) /\ wf (gr d') /\ graph_index (gr d') id = false.
Proof.
  intros Hwf. destruct (graph_index (gr d) id) eqn:Hgi.
  - destruct (Z.ltb_spec id 0) as [Hneg|Hpos].
    + destruct (remove_id_edge_cascade d id Hwf Hneg Hgi) as [d' [E [W [G _]]]]. exists d', true. auto.
    + assert (0 < id).
      { unfold graph_index in Hgi. destruct (Z.ltb_spec id 0); [lia|]. destruct (Z.ltb_spec 0 id); [assumption|discriminate]. }
      destruct (remove_id_node_cascade d id Hwf H Hgi) as [d' [E [W [G _]]]]. exists d', true. auto.
  - exists d, false. unfold remove_id. rewrite Hgi. auto.
Qed.

(* the graph mutations of DbImpl keep the graph well-formed *)
Theorem db_mutations_wf d :
  wf (gr d) ->
  wf (gr (snd (insert_node_db d))) /\
  (forall f t i d', 0 <= f -> 0 <= t -> insert_edge_db d f t = ROk (i, d') -> wf (gr d')) /\
  (forall id, wf (gr (fst (remove_id d id)))).
Proof.
  intros Hwf. split; [|split].
  - unfold insert_node_db. pose proof (wf_insert_node (gr d) Hwf) as H.
    destruct (insert_node (gr d)) as [i g]. exact H.
  - intros f t i d' Hf Ht E. unfold insert_edge_db in E.
    destruct (insert_edge (gr d) f t) as [[i0 g]|] eqn:E0; [|discriminate].
    injection E as <- <-. cbn [gr push_undo with_gr]. exact (wf_insert_edge (gr d) f t i0 g Hwf Hf Ht E0).
  - intros id. destruct (remove_id_total d id Hwf) as [d' [b [E [W _]]]]. rewrite E. exact W.
Qed.

(* ---------- example: nodes 1 2 3 (1 aliased "a"), edges 1->2 (-4), 2->1 (-5), 1->1 (-6), 2->3 (-7),
   values on node 1 and on edges -4 -6 -7; removing node 1 removes -4 -5 -6 with their values and the alias,
   keeps node 2, 3 and edge -7 with its value ---------- *)

Definition ex_db : db :=
  let d := snd (insert_node_db (snd (insert_node_db (snd (insert_node_db db_new))))) in
  let d := insert_new_alias d 1 [x61] in
  let ins d f t := match insert_edge_db d f t with ROk (_, d') => d' | RErr _ => d end in
  let d := ins (ins (ins (ins d 1 2) 2 1) 1 1) 2 3 in
  let kvp (n : Z) : kv := (DI64 n, DI64 (n * 10)) in
  insert_key_value (insert_key_value (insert_key_value (insert_key_value d 1 (kvp 1)) (-4) (kvp 4)) (-6) (kvp 6)) (-7) (kvp 7).

Lemma ex_cascade :
  elements (gr ex_db) = [1; 2; 3; -4; -5; -6; -7] /\
  imap_value (aliases ex_db) [x61] = Some 1 /\
  out_edges (gr ex_db) 1 = [-6; -4] /\ in_edges (gr ex_db) 1 = [-6; -5] /\
  match remove_id ex_db 1 with
  | (d', ROk true) =>
      elements (gr d') = [2; 3; -7] /\ node_count (gr d') = 2 /\
      imap_value (aliases d') [x61] = None /\
      kvs_get (vals d') 1 = [] /\ kvs_get (vals d') (-4) = [] /\ kvs_get (vals d') (-6) = [] /\
      kvs_get (vals d') (-7) = [(DI64 7, DI64 70)] /\
      out_edges (gr d') 2 = [-7] /\ in_edges (gr d') 2 = []
  | _ => False
  end.
Proof. vm_compute. repeat split; reflexivity. Qed.
