(* RaftLiveInd3.v — C30, 3 nodes, FIFO schedule, ANY number of appended entries.
   The four round lemmas of RaftLiveInd.Induction for `ss_gen 3` by symbolic evaluation (k, L, d are variables),
   then the theorem by the generic induction over the payloads. *)
From Coq Require Import NArith List Bool Lia Arith.
From Agdb Require Import Raft RaftProofs RaftLive RaftLiveInd.
Import ListNotations.
Open Scope N_scope.

(* election by node 0's timer: 12 deliveries (2 pre-votes, 2 votes, 2 heartbeats, each with its answer) *)
Lemma elect3 : forall rv,
  ndrain rv 12 (nstep rv (strip (init_default (N.of_nat 3))) (Tick 0 0 [])) = ss_gen 3 0 0 [].
Proof. intros [[|] [|] [|]]; vm_compute; reflexivity. Qed.

(* the first append (the followers' last-entry term is still 0): 2 appends, 2 acknowledgements — the leader commits
   on the first one and sends 2 heartbeats carrying the new commit index —, 2 heartbeats, 2 answers *)
Lemma round0_3 : forall rv d,
  ndrain rv 8 (nstep rv (ss_gen 3 0 0 []) (ClientAppend 0 d)) = ss_gen 3 1 1 [mkEntry 1 1 d].
Proof. intros rv d. expand_ss. sym_eval. do 8 fifo_one. reflexivity. Qed.

Lemma round_3 : forall rv k L d, 1 <= k -> length L = N.to_nat k ->
  ndrain rv 8 (nstep rv (ss_gen 3 k 1 L) (ClientAppend 0 d)) = ss_gen 3 (k + 1) 1 (L ++ [mkEntry (k + 1) 1 d]).
Proof. intros rv k L d Hk HL. expand_ss. sym_eval. do 8 fifo_one. reflexivity. Qed.

(* a heartbeat round in a steady state changes nothing *)
Lemma hb_3 : forall rv k pt L,
  ndrain rv 4 (nstep rv (ss_gen 3 k pt L) (Tick 0 1001 (peers_of 3))) = ss_gen 3 k pt L.
Proof.
  intros rv k pt L. change (peers_of 3) with [1; 2]. expand_ss. sym_eval. do 4 fifo_one. reflexivity.
Qed.

Definition live_script3 : list N -> list event := live_script 12 8 4 3.

Theorem live_fifo_3 : forall rv payloads c',
  fifo_run rv (live_actions 3 payloads) (init_default 3) c' ->
  strip c' = ss_gen 3 (lenN payloads) (pt_of (lenN payloads)) (mk_log 1 0 payloads).
Proof.
  intros rv payloads c' R.
  exact (live_fifo rv 3 (ss_gen 3) 12 8 4 (ss_gen_net 3) (elect3 rv) (round0_3 rv) (round_3 rv) (hb_3 rv) payloads c' R).
Qed.

Theorem live_fifo_script_3 : forall rv payloads,
  fifo_run rv (live_actions 3 payloads) (init_default 3) (run rv 3 (live_script3 payloads)).
Proof.
  intros rv payloads.
  exact (live_fifo_script rv 3 (ss_gen 3) 12 8 4 (ss_gen_net 3) (elect3 rv) (round0_3 rv) (round_3 rv) (hb_3 rv) payloads).
Qed.

(* the statement pinned in Props/C30.v *)
Theorem C30_fifo_unbounded_3_proof : forall rv payloads c',
  fifo_run rv (live_actions 3 payloads) (init_default 3) c' ->
  c_net c' = [] /\
  map n_state (c_nodes c') = [Leader; Follower 0; Follower 0] /\
  Forall (fun nd => n_term nd = 1 /\ n_logs nd = mk_log 1 0 payloads /\ n_commit nd = lenN payloads) (c_nodes c') /\
  all_synced_b c' payloads = true.
Proof.
  intros rv payloads c' R. pose proof (live_fifo_3 rv payloads c' R) as S.
  assert (Hnet : c_net c' = []) by exact (f_equal c_net S).
  assert (Hnodes : c_nodes c' = c_nodes (ss_gen 3 (lenN payloads) (pt_of (lenN payloads)) (mk_log 1 0 payloads)))
    by exact (f_equal c_nodes S).
  split; [exact Hnet|]. split; [rewrite Hnodes; reflexivity|]. split; [rewrite Hnodes; apply ss_gen_nodes|].
  destruct c' as [nodes net h]. cbn [c_nodes] in Hnodes. subst nodes.
  assert (Hlen : lenN payloads = lenN (mk_log 1 0 payloads)) by (unfold lenN; rewrite mk_log_length; reflexivity).
  apply all_synced_intro; cbn.
  - reflexivity.
  - repeat constructor; exact Hlen.
  - exact Hlen.
  - apply mk_log_data.
Qed.
