(* StorageLayout.v — proofs (part 1 of the C04 development): byte-list lemmas for the
   store primitives, the serialisation of a list of regions (the shape of the data
   file), its layout (position, index, size of every region) and the relation between
   a layout and the record table / free maps. *)
From Agdb Require Import Bytes BytesProofs Records RecordsProofs RecordsTableProofs Storage.
From Coq Require Import ZifyBool ZifyNat ZifyN.
Ltac Zify.zify_post_hook ::= Z.div_mod_to_equations.
Open Scope N_scope.
Arguments N.add : simpl never.
Arguments N.mul : simpl never.
Arguments N.sub : simpl never.
Arguments N.of_nat : simpl never.
Arguments N.to_nat : simpl never.
Arguments N.eqb : simpl never.
Arguments N.ltb : simpl never.
Arguments N.leb : simpl never.

(* ---------- byte lists ---------- *)
Lemma lenN_app {A} (a b : list A) : lenN (a ++ b) = lenN a + lenN b.
Proof. unfold lenN. rewrite app_length. lia. Qed.
Lemma lenN_nil {A} : lenN (@nil A) = 0.
Proof. reflexivity. Qed.
Lemma to_nat_lenN {A} (a : list A) : N.to_nat (lenN a) = length a.
Proof. unfold lenN. lia. Qed.
Lemma lenN_le64 n : lenN (le64 n) = 8.
Proof. unfold lenN. rewrite le64_length. reflexivity. Qed.
Lemma zeros_length n : length (zeros n) = N.to_nat n.
Proof. apply repeat_length. Qed.
Lemma lenN_zeros n : lenN (zeros n) = n.
Proof. unfold lenN. rewrite zeros_length. lia. Qed.
Lemma lenN_0_nil {A} (l : list A) : lenN l = 0 -> l = [].
Proof. destruct l; [reflexivity|]. unfold lenN; cbn [length]. lia. Qed.

Lemma firstn_app_l {A} (a b : list A) n : n = length a -> firstn n (a ++ b) = a.
Proof. intros ->. rewrite firstn_app, Nat.sub_diag, firstn_all, firstn_O, app_nil_r. reflexivity. Qed.
Lemma skipn_app_l {A} (a b : list A) n : n = length a -> skipn n (a ++ b) = b.
Proof. intros ->. rewrite skipn_app, Nat.sub_diag, skipn_all. reflexivity. Qed.

(* overwrite the middle part *)
Lemma bs_write_mid (a b c b' : bytes) p :
  p = length a -> length b' = length b -> bs_write (a ++ b ++ c) p b' = a ++ b' ++ c.
Proof.
  intros -> HL. unfold bs_write.
  rewrite firstn_app_l by reflexivity.
  replace (length a - length (a ++ b ++ c))%nat with 0%nat by (rewrite !app_length; lia).
  cbn [repeat app]. f_equal. f_equal.
  rewrite app_assoc. apply skipn_app_l. rewrite app_length. lia.
Qed.

(* overwrite the tail and extend *)
Lemma bs_write_tail (a b b' : bytes) p :
  p = length a -> (length b <= length b')%nat -> bs_write (a ++ b) p b' = a ++ b'.
Proof.
  intros -> HL. unfold bs_write.
  rewrite firstn_app_l by reflexivity.
  replace (length a - length (a ++ b))%nat with 0%nat by (rewrite !app_length; lia).
  cbn [repeat app]. f_equal.
  rewrite skipn_all2 by (rewrite app_length; lia). apply app_nil_r.
Qed.

Lemma bs_write_end (a b' : bytes) p : p = length a -> bs_write a p b' = a ++ b'.
Proof. intros H. rewrite <- (app_nil_r a) at 1. apply bs_write_tail; [assumption|cbn; lia]. Qed.

Lemma bs_resize_prefix (a b : bytes) p : p = length a -> bs_resize (a ++ b) p = a.
Proof.
  intros ->. unfold bs_resize. rewrite firstn_app_l by reflexivity.
  replace (length a - length (a ++ b))%nat with 0%nat by (rewrite app_length; lia). apply app_nil_r.
Qed.

Lemma bs_read_mid (a b c : bytes) p n : p = length a -> n = length b -> bs_read (a ++ b ++ c) p n = b.
Proof. intros -> ->. unfold bs_read. rewrite skipn_app_l by reflexivity. apply firstn_app_l. reflexivity. Qed.

Lemma bs_write_length d p bs : length (bs_write d p bs) = Nat.max (length d) (p + length bs).
Proof.
  unfold bs_write. rewrite !app_length, firstn_length, repeat_length, skipn_length. lia.
Qed.

Lemma pad_to_length bs n : length (pad_to bs n) = N.to_nat n.
Proof. unfold pad_to, bs_resize. rewrite app_length, firstn_length, repeat_length. lia. Qed.
Lemma lenN_pad_to bs n : lenN (pad_to bs n) = n.
Proof. unfold lenN. rewrite pad_to_length. lia. Qed.
Lemma pad_to_grow bs n : lenN bs <= n -> pad_to bs n = bs ++ zeros (n - lenN bs).
Proof.
  intros H. unfold pad_to, bs_resize, zeros, lenN in *. rewrite firstn_all2 by lia. f_equal. f_equal. lia.
Qed.
Lemma pad_to_shrink bs n : n <= lenN bs -> pad_to bs n = firstn (N.to_nat n) bs.
Proof.
  intros H. unfold pad_to, bs_resize, lenN in *.
  replace (N.to_nat n - length bs)%nat with 0%nat by lia. apply app_nil_r.
Qed.

(* ---------- regions ---------- *)
Notation region := (N * bytes)%type.
Definition enc (r : region) : bytes := le64 (fst r) ++ le64 (lenN (snd r)) ++ snd r.
Fixpoint ser (rg : list region) : bytes :=
  match rg with [] => [] | r :: t => enc r ++ ser t end.
Definition slen (rg : list region) : N := lenN (ser rg).
Definition vrec : bytes := le64 0 ++ le64 8 ++ le64 1.

Lemma lenN_enc r : lenN (enc r) = 16 + lenN (snd r).
Proof. unfold enc. rewrite !lenN_app, !lenN_le64. lia. Qed.
Lemma lenN_vrec : lenN vrec = 24.
Proof. reflexivity. Qed.
Lemma ser_app a b : ser (a ++ b) = ser a ++ ser b.
Proof. induction a as [|r a IH]; cbn [ser app]; [reflexivity|]. now rewrite IH, app_assoc. Qed.
Lemma slen_app a b : slen (a ++ b) = slen a + slen b.
Proof. unfold slen. now rewrite ser_app, lenN_app. Qed.
Lemma slen_cons r a : slen (r :: a) = 16 + lenN (snd r) + slen a.
Proof. unfold slen. cbn [ser]. now rewrite lenN_app, lenN_enc. Qed.
Lemma slen_nil : slen [] = 0.
Proof. reflexivity. Qed.
Lemma slen_0 a : slen a = 0 -> a = [].
Proof. destruct a as [|r a]; [reflexivity|]. rewrite slen_cons. lia. Qed.

(* position, index and size of every region, the first one at `pos` *)
Fixpoint layout (pos : N) (rg : list region) : list (N * N * N) :=
  match rg with
  | [] => []
  | (i, p) :: t => (pos, i, lenN p) :: layout (pos + 16 + lenN p) t
  end.

Lemma layout_app pos a b : layout pos (a ++ b) = layout pos a ++ layout (pos + slen a) b.
Proof.
  revert pos; induction a as [|[i p] a IH]; intros pos; cbn [layout app].
  - rewrite slen_nil. f_equal. lia.
  - rewrite IH, slen_cons. cbn [snd]. do 3 f_equal. lia.
Qed.

Lemma layout_range pos rg q i n : In (q, i, n) (layout pos rg) -> pos <= q /\ q + 16 + n <= pos + slen rg.
Proof.
  revert pos; induction rg as [|[j p] t IH]; intros pos; cbn [layout In]; [tauto|].
  rewrite slen_cons. cbn [snd]. intros [[= <- <- <-]|H]; [lia|]. apply IH in H. lia.
Qed.

Lemma layout_In pos rg q i n : In (q, i, n) (layout pos rg) -> exists v, In (i, v) rg /\ lenN v = n.
Proof.
  revert pos; induction rg as [|[j p] t IH]; intros pos; cbn [layout In]; [tauto|].
  intros [[= <- <- <-]|H]; [eauto|]. destruct (IH _ H) as (v & Hv & Hn). eauto.
Qed.

Lemma In_layout pos rg i v : In (i, v) rg -> exists q, In (q, i, lenN v) (layout pos rg).
Proof.
  revert pos; induction rg as [|[j p] t IH]; intros pos; cbn [layout In]; [tauto|].
  intros [[= -> ->]|H]; [eauto|]. destruct (IH (pos + 16 + lenN p) H) as (q & Hq). eauto.
Qed.

(* the entry that starts at the start is the head *)
Lemma layout_at_start pos rg i n : In (pos, i, n) (layout pos rg) ->
  exists p t, rg = (i, p) :: t /\ lenN p = n.
Proof.
  destruct rg as [|[j p] t]; cbn [layout In]; [tauto|].
  intros [[= <- <-]|H]; [eauto|]. apply layout_range in H. lia.
Qed.

(* the entry that ends at the end is the last *)
Lemma layout_at_end pos rg q i n : In (q, i, n) (layout pos rg) -> q + 16 + n = pos + slen rg ->
  exists a p, rg = a ++ [(i, p)] /\ lenN p = n /\ q = pos + slen a.
Proof.
  revert pos; induction rg as [|[j p] t IH]; intros pos; cbn [layout In]; [tauto|].
  rewrite slen_cons. cbn [snd]. intros [[= <- <- <-]|H] E.
  - assert (t = []) by (apply slen_0; lia). subst t. exists [], p. repeat split.
    assert (Z0 : slen (@nil (N * bytes)) = 0) by reflexivity. lia.
  - destruct (IH _ H ltac:(lia)) as (a & p' & -> & Hn & Hq).
    exists ((j, p) :: a), p'. rewrite slen_cons. cbn [snd app]. repeat split; [assumption|lia].
Qed.

(* ---------- lookup in a region list ---------- *)
Lemma m_get_app V (a b : list (N * V)) k :
  m_get (a ++ b) k = match m_get a k with Some v => Some v | None => m_get b k end.
Proof. induction a as [|[x y] a IH]; cbn [m_get app]; [reflexivity|]. destruct (x =? k); auto. Qed.

Lemma m_get_split V (m : list (N * V)) k v :
  m_get m k = Some v -> exists a b, m = a ++ (k, v) :: b /\ m_get a k = None.
Proof.
  induction m as [|[x y] m IH]; cbn [m_get]; [discriminate|].
  destruct (N.eqb_spec x k) as [->|Hx].
  - intros [= ->]. exists [], m. auto.
  - intros H. destruct (IH H) as (a & b & -> & Ha). exists ((x, y) :: a), b. split; [reflexivity|].
    cbn [m_get]. destruct (N.eqb_spec x k); [congruence|assumption].
Qed.

Lemma m_get_none_In V (m : list (N * V)) k v : m_get m k = None -> ~ In (k, v) m.
Proof.
  induction m as [|[x y] m IH]; cbn [m_get In]; [tauto|].
  destruct (N.eqb_spec x k); [discriminate|]. intros H [[= -> ->]|Hin]; [congruence|]. exact (IH H Hin).
Qed.

Lemma m_get_notin V (m : list (N * V)) k : (forall v, ~ In (k, v) m) -> m_get m k = None.
Proof.
  intros H. destruct (m_get m k) as [v|] eqn:E; [|reflexivity]. apply get_In in E. destruct (H v E).
Qed.

(* ---------- record table / free maps against a layout ---------- *)
Definition trel (rs : records) (L : list (N * N * N)) : Prop :=
  (forall q i n, i <> 0 -> (In (q, i, n) L <-> live_at (recs rs) i = Some (q, n))) /\
  (forall q n, In (q, 0, n) L <-> m_get (fps rs) q = Some n).

Definition rwf (rs : records) : Prop := twf (recs rs) /\ fwf rs.

Lemma rwf_new : rwf records_new.
Proof. split; [apply twf_new|apply fwf_new]. Qed.

Lemma trel_new : trel records_new [].
Proof.
  split.
  - intros q i n Hi. cbn [In]. split; [tauto|].
    unfold live_at. cbn [recs records_new]. destruct (N.to_nat i) as [|[|k]] eqn:E; cbn [nth_error]; try discriminate.
    assert (i = 0) by lia. congruence.
  - intros q n. cbn. split; [tauto|discriminate].
Qed.

(* ---------- more list facts ---------- *)
Lemma layout_split pos rg q i n : In (q, i, n) (layout pos rg) ->
  exists A v B, rg = A ++ (i, v) :: B /\ lenN v = n /\ q = pos + slen A.
Proof.
  revert pos; induction rg as [|[j p] t IH]; intros pos; cbn [layout In]; [tauto|].
  intros [[= <- <- <-]|H].
  - exists [], p, t. rewrite slen_nil. repeat split. lia.
  - destruct (IH _ H) as (A & v & B & -> & Hn & Hq). exists ((j, p) :: A), v, B.
    rewrite slen_cons. cbn [snd app]. repeat split; [assumption|lia].
Qed.

Lemma app_last_live (A0 : list region) i v A' F :
  A0 ++ [(i, v)] = A' ++ F -> (forall i v, In (i, v) F -> i = 0) -> i <> 0 -> F = [] /\ A' = A0 ++ [(i, v)].
Proof.
  intros E HF Hi. induction F as [|x F' _] using rev_ind.
  { rewrite app_nil_r in E. auto. }
  rewrite app_assoc in E. apply app_inj_tail in E. destruct E as [_ <-].
  exfalso. apply Hi. apply (HF i v). apply in_or_app. right. left. reflexivity.
Qed.

Lemma lrel_update l l' (L L' : list (N * N * N)) j X :
  j <> 0 ->
  (forall q i n, i <> 0 -> (In (q, i, n) L <-> live_at l i = Some (q, n))) ->
  (forall i, live_at l' i = if i =? j then X else live_at l i) ->
  (forall q i n, i <> 0 -> i <> j -> (In (q, i, n) L' <-> In (q, i, n) L)) ->
  (forall q n, In (q, j, n) L' <-> X = Some (q, n)) ->
  forall q i n, i <> 0 -> (In (q, i, n) L' <-> live_at l' i = Some (q, n)).
Proof.
  intros Hj HL HU HS HJ q i n Hi. rewrite HU. destruct (N.eqb_spec i j) as [->|Hij].
  - apply HJ.
  - rewrite HS by assumption. apply HL. assumption.
Qed.

Lemma skipn_skipn_add {A} (l : list A) x y : skipn x (skipn y l) = skipn (y + x) l.
Proof.
  revert l; induction y as [|y IH]; intros l; cbn [skipn Nat.add]; [reflexivity|].
  destruct l; [now rewrite !skipn_nil|apply IH].
Qed.

(* two consecutive writes: a 16-byte header and the payload, into a gap or at the end *)
Lemma place_in (pre g post hdr payload : bytes) P P2 :
  P = length pre -> length hdr = 16%nat -> (16 + length payload <= length g)%nat -> P2 = (P + 16)%nat ->
  bs_write (bs_write (pre ++ g ++ post) P hdr) P2 payload = pre ++ hdr ++ payload ++ skipn (16 + length payload) g ++ post.
Proof.
  intros -> Hh Hg ->.
  rewrite <- (firstn_skipn 16 g) at 1. rewrite <- app_assoc.
  rewrite bs_write_mid; [|reflexivity|rewrite firstn_length; lia].
  rewrite <- (firstn_skipn (length payload) (skipn 16 g)) at 1.
  rewrite <- app_assoc, (app_assoc pre hdr).
  rewrite bs_write_mid; [|rewrite app_length; lia|rewrite firstn_length, skipn_length; lia].
  rewrite <- app_assoc. do 3 f_equal. rewrite skipn_skipn_add. reflexivity.
Qed.

Lemma place_end (pre hdr payload : bytes) P P2 :
  P = length pre -> length hdr = 16%nat -> P2 = (P + 16)%nat ->
  bs_write (bs_write pre P hdr) P2 payload = pre ++ hdr ++ payload.
Proof.
  intros -> Hh ->. rewrite (bs_write_end pre hdr) by reflexivity.
  rewrite bs_write_end by (rewrite app_length; lia). now rewrite <- app_assoc.
Qed.
