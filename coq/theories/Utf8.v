(* Utf8.v — executable model of core::str::from_utf8's validity check
   (Unicode Table 3-7, well-formed UTF-8 byte sequences).  The real check is
   std code: modelled, tied by the correspondence runs (C20, C12). *)
From Agdb Require Import Bytes.
Open Scope N_scope.

Definition inr (lo hi : N) (b : byte) : bool := (lo <=? b2n b) && (b2n b <=? hi).
Definition cont := inr 128 191.

Fixpoint utf8_valid_fuel (fuel : nat) (bs : bytes) : bool :=
  match fuel with
  | O => match bs with [] => true | _ => false end
  | S f =>
    match bs with
    | [] => true
    | b0 :: r0 =>
      if b2n b0 <=? 127 then utf8_valid_fuel f r0
      else if inr 194 223 b0 then
        match r0 with b1 :: r1 => cont b1 && utf8_valid_fuel f r1 | _ => false end
      else if inr 224 239 b0 then
        match r0 with
        | b1 :: b2 :: r2 =>
          (if b2n b0 =? 224 then inr 160 191 b1
           else if b2n b0 =? 237 then inr 128 159 b1
           else cont b1) && cont b2 && utf8_valid_fuel f r2
        | _ => false
        end
      else if inr 240 244 b0 then
        match r0 with
        | b1 :: b2 :: b3 :: r3 =>
          (if b2n b0 =? 240 then inr 144 191 b1
           else if b2n b0 =? 244 then inr 128 143 b1
           else cont b1) && cont b2 && cont b3 && utf8_valid_fuel f r3
        | _ => false
        end
      else false
    end
  end.

Definition utf8_valid (bs : bytes) : bool := utf8_valid_fuel (length bs) bs.
