(* StoredDbOpsAlias6.v — the part of MapImpl::insert AFTER the grow check (probe loop, do_insert, in-place rehash after a
   full cycle, commit) as a program of its own, so_map_insert_body, proved on a table that has room (so_no_grow):
   so_map_insert_body_spec.  so_map_insert = transaction; grow check; so_map_insert_body (so_map_insert_unfold). *)
From Coq Require Import List NArith ZArith Arith Bool Lia Permutation.
Import ListNotations.
From Agdb Require Import Bytes BytesProofs Records RecordsProofs Storage StorageSpec StorageLayout
  Collections CollWp CollBytes CollVecBase CollVecOps CollVec CollVec2 CollElems CollSep CollMap CollMapHist
  OpenMap OpenMapProofs OpenMapSpec OpenMapRefineBase OpenMapRefineOps OpenMapRefineStep OpenMapRefine
  StoredDb StoredDbRep StoredDbProbe StoredDbOpsAlias StoredDbOpsAlias4 StoredDbOpsAlias5.
From Coq Require Import ZifyBool ZifyNat ZifyN.
Ltac Zify.zify_post_hook ::= Z.div_mod_to_equations.
Open Scope N_scope.

Definition so_map_insert_body (K V : Type) (EK : cv_elem K) (EV : cv_elem V) (keqb : K -> K -> bool) (h : K -> N)
    (x : so_map_rest) (d1 : cm_data) (key : K) (nv : V) (id : N) : cprog (cm_data * option V) :=
  let cap := cm_capacity d1 in
  let start := (h key) mod cap in
  r <~ so_ior_loop K V EK EV keqb (N.to_nat cap) d1 key nv cap start start None ;;
  d2 <~ match fst (fst r) with Some pos => so_map_do_insert K V EK EV d1 pos key nv | None => CRet d1 end ;;
  d3 <~ (if snd r then smr_rehash_in_place x d2 else CRet d2) ;;
  cp_commit id ;;~
  CRet (d3, snd (fst r)).

Lemma so_map_insert_unfold K V EK EV keqb h x d key nv :
  so_map_insert K V EK EV keqb h x d key nv =
  (id <~ cp_transaction ;;
   d1 <~ (if so_max_len (cm_capacity d) <=? cm_len d then smr_grow x d else CRet d) ;;
   so_map_insert_body K V EK EV keqb h x d1 key nv id).
Proof. reflexivity. Qed.

Section MapInsertProof3.
  Variables K V : Type.
  Variable EK : cv_elem K.
  Variable EV : cv_elem V.
  Variable LK : elem_law EK.
  Variable LV : elem_law EV.
  Variable keqb : K -> K -> bool.
  Variable veqb : V -> V -> bool.
  Variable h : K -> N.
  Variable mincap : nat.
  Variable fl : bool.
  Hypothesis keqb_eq : forall a b, keqb a b = true <-> a = b.
  Hypothesis veqb_eq : forall a b, veqb a b = true <-> a = b.
  Hypothesis Hmin : (4 <= mincap)%nat.

  Notation msepT := (msep K V EK EV LK LV).
  Notation mrepT := (mrep K V EK EV LK LV).
  Notation mfootT := (mfoot K V EK EV LK LV).
  Notation slotsT := (ct_slots K V).
  Notation loopM := (ior_loop K V keqb om_fixed).

  Theorem so_map_insert_body_spec x d ss ks vs t key nv id sp (Q : cres (cm_data * option V) -> spec -> Prop) :
    mrepT (hp sp) d ss ks vs t -> PInv K V h mincap (ct_omap K V t) ->
    so_key_absent K V keqb (slotsT (ct_states t) (ct_keys t) (ct_values t)) key ->
    so_no_grow K V t -> smr_rehash_in_place x = so_map_rip K V EK EV h ->
    el_valid LK key -> el_valid LV nv -> ct_len t + 1 < two64 -> sdepth sp = id -> id <> 0 ->
    (forall d' ss' ks' vs' t' sp',
        mrepT (hp sp') d' ss' ks' vs' t' -> cm_index d' = cm_index d -> PInv K V h mincap (ct_omap K V t') ->
        Permutation (sd_table_entries t') ((key, nv) :: sd_table_entries t) ->
        sdepth sp' = id - 1 -> frame (hp sp) (hp sp') (mfootT d ss ks vs) (mfootT d' ss' ks' vs') ->
        Q (CrOk (d', None)) sp') ->
    cwp fl (so_map_insert_body K V EK EV keqb h x d key nv id) sp Q.
  Proof.
    intros HM HP Habs Hng Hx VK VV Hlen Hid Hid0 HQ.
    pose proof (mr_sep _ _ _ _ _ _ _ _ _ _ _ _ HM) as HS.
    destruct (mr_same _ _ _ _ _ _ _ _ _ _ _ _ HM) as [SK SV]. pose proof (mr_len _ _ _ _ _ _ _ _ _ _ _ _ HM) as HL.
    assert (Hcap : cm_capacity d = lenN (ct_states t)).
    { unfold cm_capacity. exact (vr_len _ _ _ _ _ _ _ (ms_s _ _ _ _ _ _ _ _ _ _ _ _ _ _ HS)). }
    unfold so_map_insert_body.
    assert (Hm0 : heq (hp sp) (hp sp)) by (intros j0; reflexivity).
    pose proof HM as HM0.
    unfold so_no_grow in Hng.
    rewrite Hcap.
    set (sl := slotsT (ct_states t) (ct_keys t) (ct_values t)) in *.
    assert (Lsl : length sl = length (ct_states t)) by (apply ct_slots_length; auto).
    (* the model's insert_or_replace on the table *)
    destruct (insert_or_replace_spec K V keqb veqb h mincap om_fixed keqb_eq veqb_eq Hmin eq_refl
                (ct_omap K V t) key (fun _ => true) nv HP) as (m' & ret & Hior & HP' & Hpost).
    unfold insert_or_replace, insert_or_replace_fuel, probe_fuel, grow_if_full in Hior.
    unfold capacity, ct_omap in Hior. cbn [slots len] in Hior. fold sl in Hior.
    assert (Hmax : (max_len (length sl) <=? N.to_nat (ct_len t))%nat = false).
    { apply Nat.leb_gt. unfold max_len, so_max_len, lenN in *. rewrite Lsl. lia. }
    rewrite Hmax in Hior. cbn [slots len] in Hior.
    destruct (loopM (length sl) sl (length sl) (hpos K h key (length sl)) key (fun _ => true) nv (hpos K h key (length sl)) None)
      as [r|] eqn:Hloop; [|discriminate].
    assert (Hlen0 : (0 < length sl)%nat).
    { unfold so_max_len, lenN in Hng. rewrite Lsl. destruct (ct_states t); cbn [length] in *; [|lia]. cbn in Hng. lia. }
    assert (Hstart : h key mod lenN (ct_states t) < lenN (ct_states t)) by (apply N.mod_lt; unfold lenN; lia).
    assert (Ehp : hpos K h key (length sl) = N.to_nat (h key mod lenN (ct_states t))).
    { unfold hpos, lenN. rewrite Lsl. reflexivity. }
    (* what the loop found *)
    assert (Hc0 : (0 < length sl)%nat) by exact Hlen0.
    destruct HP as [HInv Hch]. unfold capacity in Hch. cbn [ct_omap slots] in Hch. fold sl in Hch.
    pose proof (hpos_lt K keqb h key (length sl) Hc0) as Hs.
    destruct (ior_loop_spec K V keqb veqb h om_fixed keqb_eq veqb_eq eq_refl (length sl) sl key (fun _ => true) nv Hc0 Hch
                (length sl) (hpos K h key (length sl)) None Hs) as (r2 & Hr2 & Hpost2).
    { rewrite rem_start. lia. }
    { intros j Hj Hd. rewrite dist_self in Hd. lia. }
    { intros j Hj Hd. rewrite dist_self in Hd. lia. }
    rewrite Hloop in Hr2. inversion Hr2; subst r2. clear Hr2. unfold ior_post in Hpost2.
    destruct (ior_ret K V r) as [w|] eqn:Hret.
    { exfalso. destruct Hpost2 as (p & Hp & Hv & _). pose proof (Habs _ _ _ Hv) as X. rewrite (proj2 (keqb_eq key key) eq_refl) in X. discriminate. }
    destruct Hpost2 as (Hsl & _ & Hfree).
    destruct (ior_free K V r) as [p|] eqn:Hfr.
    2:{ exfalso. destruct HInv as [Hcv Hor]. unfold ct_omap, capacity in Hcv, Hor. cbn [slots len] in Hcv, Hor. fold sl in Hcv, Hor.
        pose proof (cnt_all_prefix _ (is_valid K V) Empty (length sl) sl (le_n _) Hfree) as Hall.
        unfold cv in Hcv. lia. }
    destruct Hfree as (Hp & Hpv & _).
    apply cwp_bind.
    eapply (so_ior_loop_spec K V EK EV LK LV keqb veqb h mincap fl keqb_eq veqb_eq Hmin d ss ks vs (ct_states t) (ct_keys t) (ct_values t) key nv (lenN (ct_states t))
              (h key mod lenN (ct_states t)) sp (mr_sep _ _ _ _ _ _ _ _ _ _ _ _ HM0) SK SV)
      with (r := r); [unfold lenN; lia|exact Habs|exact Hstart| |].
    { fold sl. replace (N.to_nat (lenN (ct_states t))) with (length sl) by (unfold lenN; lia). rewrite <- Ehp. exact Hloop. }
    rewrite Hfr. cbn [option_map kont fst snd].
    apply cwp_bind.
    eapply (so_map_do_insert_spec K V EK EV LK LV keqb veqb h mincap fl keqb_eq veqb_eq Hmin); [exact HM0|unfold lenN; lia|exact VK|exact VV|exact Hlen|].
    intros d' ss' ks' vs' sp1 HM1 Hi1 Hd1 Hf1. cbn [kont].
    rewrite Nat2N.id in HM1.
    set (t' := {| ct_states := cl_upd (ct_states t) p StValid; ct_keys := cl_upd (ct_keys t) p key;
                  ct_values := cl_upd (ct_values t) p nv; ct_len := ct_len t + 1 |}) in *.
    assert (Esl2 : slotsT (ct_states t') (ct_keys t') (ct_values t') = upd p (Valid key nv) sl).
    { cbn [t' ct_states ct_keys ct_values]. rewrite ct_slots_upd by auto. reflexivity. }
    rewrite Hsl in Hior.
    destruct (ior_full_cycle K V r) eqn:Hfull; cbn [andb fix_rehash_in_place om_fixed] in Hior.
    - (* a full cycle: rehash in place *)
      unfold rehash_in_place, rehash_values, do_insert, capacity in Hior. cbn [slots len] in Hior.
      rewrite upd_length in Hior.
      destruct (rehash_loop K V h (rehash_fuel (length sl) (length sl)) (length sl) (length sl) (upd p (Valid key nv) sl)
                            (repeat false (length sl)) 0) as [sl3|] eqn:HRL; [|discriminate].
      injection Hior as <- <-. destruct Hpost as [_ Hperm].
      rewrite Hx. unfold so_map_rip, so_rehash_values.
      assert (Ecap : N.to_nat (cm_capacity d') = length sl).
      { unfold cm_capacity. rewrite (vr_len _ _ _ _ _ _ _ (ms_s _ _ _ _ _ _ _ _ _ _ _ _ _ _ (mr_sep _ _ _ _ _ _ _ _ _ _ _ _ HM1))).
        cbn [t' ct_states]. unfold lenN. rewrite cl_upd_length. lia. }
      rewrite Ecap. rewrite <- Esl2 in HRL.
      apply cwp_bind. apply cwp_bind.
      eapply (so_rehash_loop_spec K V EK EV LK LV keqb h fl d' (length sl) (length sl) Hlen0);
        [exact (mr_sep _ _ _ _ _ _ _ _ _ _ _ _ HM1)|cbn [t' ct_keys ct_states]; rewrite !cl_upd_length; auto|
         cbn [t' ct_values ct_states]; rewrite !cl_upd_length; auto|cbn [t' ct_states]; rewrite cl_upd_length; lia|
         cbn [t' ct_states]; rewrite cl_upd_length; lia|lia|exact HRL|].
      intros ss3 ks3 vs3 ls3 lk3 lv3 sp3 HS3 A3 B3 C3 E3 D3 F3. cbn [kont cbind].
      apply cwp_bind. apply hwp_commit; [lia|lia|]. intros sp2 Hm2 Hd2. cbn [kont cwp].
      set (t3 := {| ct_states := ls3; ct_keys := lk3; ct_values := lv3; ct_len := ct_len t + 1 |}).
      assert (Em : ct_omap K V t3 = {| slots := sl3; len := (N.to_nat (ct_len t) + 1)%nat |}).
      { unfold ct_omap. cbn [t3 ct_states ct_keys ct_values ct_len]. rewrite E3. f_equal. lia. }
      eapply (HQ d' ss3 ks3 vs3 t3).
      + constructor; [eapply msep_heq; [exact HS3|exact Hm2]|exact (mr_len _ _ _ _ _ _ _ _ _ _ _ _ HM1)|split; [exact A3|exact B3]].
      + exact Hi1.
      + rewrite Em. exact HP'.
      + rewrite !(sd_table_entries_iter_all K V). rewrite Em. exact Hperm.
      + lia.
      + eapply frame_trans; [apply frame_refl; exact Hm0|]. eapply frame_trans; [exact Hf1|].
        eapply frame_trans; [exact F3|apply frame_refl; exact Hm2].
    - cbn [cbind].
      apply cwp_bind. apply hwp_commit; [lia|lia|]. intros sp2 Hm2 Hd2. cbn [kont cwp].
      assert (Em : ct_omap K V t' = m' /\ ret = None).
      { inversion Hior. split; [|reflexivity]. unfold ct_omap, do_insert. rewrite Esl2. cbn [t' ct_len]. f_equal. lia. }
      destruct Em as [Em ->]. destruct Hpost as [_ Hperm].
      eapply HQ.
      + constructor; [eapply msep_heq; [exact (mr_sep _ _ _ _ _ _ _ _ _ _ _ _ HM1)|exact Hm2]|
                      exact (mr_len _ _ _ _ _ _ _ _ _ _ _ _ HM1)|exact (mr_same _ _ _ _ _ _ _ _ _ _ _ _ HM1)].
      + exact Hi1.
      + rewrite Em. exact HP'.
      + rewrite !(sd_table_entries_iter_all K V). rewrite Em. exact Hperm.
      + lia.
      + eapply frame_trans; [apply frame_refl; exact Hm0|]. eapply frame_trans; [exact Hf1|apply frame_refl; exact Hm2].
  Qed.
End MapInsertProof3.
