(* UndoGraphAlloc.v — C13: get_free_index / free_index / insert_node / remove_node (isolated)
   on the slot arrays are the abstract allocate / release operations (LIFO free list). *)
From Agdb Require Import Bytes BytesProofs DbValue Graph DbModel UndoBase UndoObs UndoKv UndoGraphBase UndoGraph.
From Coq Require Import Permutation ZifyBool ZifyNat ZifyN.
Ltac Zify.zify_post_hook ::= Z.div_mod_to_equations.
Open Scope Z_scope.

Definition a_alloc (a : ag) : Z * ag :=
  match afree a with
  | [] => (acap a, a_activate a (acap a) [] (acap a + 1))
  | s :: fl => (s, a_activate a s fl (acap a))
  end.

Lemma rep_alloc g a Xo Xi i g' :
  rep_x g a Xo Xi -> get_free_index g = (i, g') -> capacity g' <= two63z ->
  i = fst (a_alloc a) /\ rep_x g' (snd (a_alloc a)) Xo Xi.
Proof.
  intros R Hg Hb. unfold get_free_index in Hg. unfold a_alloc.
  pose proof (r_lens _ _ _ _ R) as Hl. pose proof (r_cap _ _ _ _ R) as Hcap.
  destruct (Z.eqb_spec (fmeta g 0) i64_min) as [E|NE].
  - pose proof (proj1 (rep_free_empty _ _ _ _ R) E) as Hnil. rewrite Hnil.
    injection Hg as <- <-. rewrite (r_acap _ _ _ _ R). cbn [fst snd]. split; [reflexivity|].
    rewrite cap_grow in Hb. replace (capacity g + 1) with (capacity (grow g)) by apply cap_grow.
    apply (rep_activate g a Xo Xi); auto using lens_grow, from_grow, to_grow, tmeta_grow.
    + rewrite cap_grow. lia.
    + rewrite cap_grow. lia.
    + rewrite cap_grow. intros; lia.
    + eapply rep_out_of_range; [exact R | lia].
    + apply from_out. lia.
    + apply to_out; [assumption | lia].
    + apply tmeta_out; [assumption | lia].
    + intros. apply fmeta_grow.
    + rewrite fmeta_grow. apply fmeta_out; [assumption | lia].
    + rewrite fmeta_grow, E. constructor.
    + constructor.
    + intros x [].
  - pose proof (r_free _ _ _ _ R) as Hch. pose proof (r_free_nd _ _ _ _ R) as Hnd.
    pose proof (r_free_in _ _ _ _ R) as Hin.
    destruct (afree a) as [|s fl] eqn:Efl; inversion Hch as [E0|s' l' Hs Hm Hrest E0]; subst; [congruence|].
    rewrite <- E0 in Hg. rewrite !Z.opp_involutive in Hg. injection Hg as <- <-. cbn [fst snd]. split; [reflexivity|].
    inversion Hnd as [|? ? Hns Hnd']. subst.
    destruct (Hin s (or_introl eq_refl)) as (Hr & Hf & H1 & H2 & H3).
    assert (Hl1 : lens_ok (set_fmeta g 0 (fmeta g s))) by (apply lens_set_fmeta, Hl).
    set (g' := set_fmeta (set_fmeta g 0 (fmeta g s)) s 0).
    replace (acap a) with (capacity g') by (symmetry; apply (r_acap _ _ _ _ R)).
    apply (rep_activate g a Xo Xi); auto.
    + apply lens_set_fmeta, Hl1.
    + unfold g'. rewrite !cap_set_fmeta. lia.
    + unfold g'. rewrite !cap_set_fmeta. intros; lia.
    + eapply rep_free_kind; [exact R|]. rewrite Efl. left. reflexivity.
    + intros j Hj Hne. unfold g'. rewrite fmeta_set_fmeta by (auto; rewrite ?cap_set_fmeta; lia).
      destruct (Z.eqb_spec s j); [lia|]. rewrite fmeta_set_fmeta by (auto; lia).
      destruct (Z.eqb_spec 0 j); [lia | reflexivity].
    + unfold g'. rewrite fmeta_set_fmeta by (auto; rewrite ?cap_set_fmeta; lia). rewrite Z.eqb_refl. reflexivity.
    + assert (E1 : fmeta g' 0 = fmeta g s).
      { unfold g'. rewrite fmeta_set_fmeta by (auto; rewrite ?cap_set_fmeta; lia).
        destruct (Z.eqb_spec s 0); [lia|]. rewrite fmeta_set_fmeta by (auto; lia). rewrite Z.eqb_refl. reflexivity. }
      rewrite E1. eapply fchain_ext; [exact Hrest|]. intros x Hx.
      destruct (Hin x (or_intror Hx)) as (Hxr & _).
      unfold g'. rewrite fmeta_set_fmeta by (auto; rewrite ?cap_set_fmeta; lia).
      destruct (Z.eqb_spec s x); [subst; contradiction|]. rewrite fmeta_set_fmeta by (auto; lia).
      destruct (Z.eqb_spec 0 x); [lia | reflexivity].
    + intros x Hx. rewrite Efl. split; [right; assumption|]. intros ->. contradiction.
Qed.

(* ------------------------------------------------------------------ *)
(* releasing a slot nobody refers to (free_index)                       *)

Definition a_release (a : ag) (s : Z) : ag :=
  {| ak := upd (ak a) s KFree; aout := aout a; ain := ain a; acount := acount a;
     afree := s :: afree a; acap := acap a |}.

Lemma fchain_head_neg nx h l : fchain nx h l -> h < 0.
Proof. destruct 1; unfold i64_min in *; lia. Qed.

Section FreeIndex.
  Variables (g : graph) (s : Z).
  Hypothesis Hl : lens_ok g.
  Hypothesis Hs : 0 < s < capacity g.

  Lemma fmeta_free_index j : 0 <= j ->
    fmeta (free_index g s) j = if j =? 0 then - s else if j =? s then fmeta g 0 else fmeta g j.
  Proof.
    intros Hj. unfold free_index. rewrite fmeta_set_tmeta, fmeta_set_to, fmeta_set_from.
    rewrite fmeta_set_fmeta by (auto using lens_set_fmeta; rewrite ?cap_set_fmeta; lia).
    destruct (Z.eqb_spec 0 j), (Z.eqb_spec j 0); try lia.
    rewrite fmeta_set_fmeta by (auto; lia).
    destruct (Z.eqb_spec s j), (Z.eqb_spec j s); try lia; reflexivity.
  Qed.
  Lemma from_free_index j : 0 <= j -> from (free_index g s) j = if j =? s then 0 else from g j.
  Proof.
    intros Hj. unfold free_index. rewrite from_set_tmeta, from_set_to.
    rewrite from_set_from by (auto using lens_set_fmeta; rewrite ?cap_set_fmeta; lia).
    destruct (Z.eqb_spec s j), (Z.eqb_spec j s); try lia; reflexivity.
  Qed.
  Lemma to_free_index j : 0 <= j -> to (free_index g s) j = if j =? s then 0 else to g j.
  Proof.
    intros Hj. unfold free_index. rewrite to_set_tmeta.
    rewrite to_set_to by (auto using lens_set_fmeta, lens_set_from; rewrite ?cap_set_from, ?cap_set_fmeta; lia).
    destruct (Z.eqb_spec s j), (Z.eqb_spec j s); try lia; reflexivity.
  Qed.
  Lemma tmeta_free_index j : 0 <= j -> tmeta (free_index g s) j = if j =? s then 0 else tmeta g j.
  Proof.
    intros Hj. unfold free_index.
    rewrite tmeta_set_tmeta by (auto using lens_set_fmeta, lens_set_from, lens_set_to; rewrite ?cap_set_to, ?cap_set_from, ?cap_set_fmeta; lia).
    destruct (Z.eqb_spec s j), (Z.eqb_spec j s); try lia; reflexivity.
  Qed.
  Lemma cap_free_index : capacity (free_index g s) = capacity g.
  Proof. unfold free_index. rewrite cap_set_tmeta, cap_set_to, cap_set_from, !cap_set_fmeta. reflexivity. Qed.
  Lemma lens_free_index : lens_ok (free_index g s).
  Proof.
    unfold free_index. apply lens_set_tmeta, lens_set_to, lens_set_from, lens_set_fmeta, lens_set_fmeta, Hl.
  Qed.
End FreeIndex.

Lemma rep_release g a Xo Xi s :
  rep_x g a Xo Xi -> 0 < s < capacity g -> 0 <= fmeta g s ->
  (forall n, 0 < n -> ak a n = KNode -> ~ In s (aout a n) /\ ~ In s (ain a n)) ->
  (forall e f t, 0 < e -> e <> s -> ak a e = KEdge f t -> f <> s /\ t <> s) ->
  rep_x (free_index g s) (a_release a s) (fun x => Xo x /\ x <> s) (fun x => Xi x /\ x <> s).
Proof.
  intros R Hs Hv Hnol Hnoe.
  pose proof (r_lens _ _ _ _ R) as Hl. pose proof (r_cap _ _ _ _ R) as Hcap.
  assert (Hnf : ~ In s (afree a)).
  { intros Hin. destruct (r_free_in _ _ _ _ R s Hin) as (_ & Hneg & _). lia. }
  assert (Hfm : forall j, 0 < j -> j <> s -> fmeta (free_index g s) j = fmeta g j).
  { intros j Hj Hne. rewrite fmeta_free_index by (auto; lia).
    destruct (Z.eqb_spec j 0); [lia|]. destruct (Z.eqb_spec j s); [lia | reflexivity]. }
  assert (Hfr : forall j, 0 < j -> j <> s -> from (free_index g s) j = from g j).
  { intros j Hj Hne. rewrite from_free_index by (auto; lia). destruct (Z.eqb_spec j s); [lia | reflexivity]. }
  assert (Hto : forall j, 0 < j -> j <> s -> to (free_index g s) j = to g j).
  { intros j Hj Hne. rewrite to_free_index by (auto; lia). destruct (Z.eqb_spec j s); [lia | reflexivity]. }
  assert (Htm : forall j, 0 <= j -> j <> s -> tmeta (free_index g s) j = tmeta g j).
  { intros j Hj Hne. rewrite tmeta_free_index by (auto; lia). destruct (Z.eqb_spec j s); [lia | reflexivity]. }
  constructor; cbn [a_release ak aout ain acount afree acap].
  - apply lens_free_index, Hl.
  - rewrite cap_free_index. assumption.
  - rewrite cap_free_index. apply (r_acap _ _ _ _ R).
  - rewrite (r_count _ _ _ _ R). unfold node_count. symmetry. apply Htm; lia.
  - rewrite fmeta_free_index by (auto; lia). rewrite Z.eqb_refl. constructor; [lia | unfold i64_min, two63z in *; lia |].
    rewrite fmeta_free_index by (auto; lia). destruct (Z.eqb_spec s 0); [lia|]. rewrite Z.eqb_refl.
    eapply fchain_ext; [apply (r_free _ _ _ _ R)|]. intros x Hx.
    pose proof (rep_free_range _ _ _ _ R x Hx). apply Hfm; [lia|]. intros ->. contradiction.
  - constructor; [assumption | apply (r_free_nd _ _ _ _ R)].
  - rewrite cap_free_index. intros x [<-|Hx].
    + rewrite fmeta_free_index, from_free_index, to_free_index, tmeta_free_index by (auto; lia).
      destruct (Z.eqb_spec s 0); [lia|]. rewrite Z.eqb_refl.
      pose proof (fchain_head_neg _ _ _ (r_free _ _ _ _ R)). repeat split; lia.
    + destruct (r_free_in _ _ _ _ R x Hx) as (Hr & Hf & H1 & H2 & H3).
      assert (x <> s) by (intros ->; contradiction).
      rewrite Hfm, Hfr, Hto, Htm by lia. repeat split; try assumption; lia.
  - intros i Hi. destruct (Z.eq_dec i s) as [->|Hne].
    + rewrite upd_same. symmetry. apply slot_kind_free; [lia|]. right.
      rewrite fmeta_free_index by (auto; lia). destruct (Z.eqb_spec s 0); [lia|]. rewrite Z.eqb_refl.
      apply (fchain_head_neg _ _ _ (r_free _ _ _ _ R)).
    + rewrite upd_other by assumption. rewrite (r_kind _ _ _ _ R) by assumption. symmetry.
      apply slot_kind_ext; auto. rewrite cap_free_index. reflexivity.
  - intros n Hn Hk. destruct (Z.eq_dec n s) as [->|Hne]; [rewrite upd_same in Hk; discriminate|].
    rewrite upd_other in Hk by assumption. destruct (r_out _ _ _ _ R n Hn Hk) as (Hc & Hnd' & Hdeg).
    rewrite Hfr, Hfm by assumption. repeat split; try assumption.
    eapply chain_ext; [exact Hc|]. intros e He.
    pose proof (rep_out_range _ _ _ _ R n e Hn Hk He). apply Hfm; [lia|]. intros ->.
    apply (proj1 (Hnol n Hn Hk)), He.
  - intros n Hn Hk. destruct (Z.eq_dec n s) as [->|Hne]; [rewrite upd_same in Hk; discriminate|].
    rewrite upd_other in Hk by assumption. destruct (r_in _ _ _ _ R n Hn Hk) as (Hc & Hnd' & Hdeg).
    rewrite Hto, Htm by (assumption || lia). repeat split; try assumption.
    eapply chain_ext; [exact Hc|]. intros e He.
    pose proof (rep_in_range _ _ _ _ R n e Hn Hk He). apply Htm; [lia|]. intros ->.
    apply (proj2 (Hnol n Hn Hk)), He.
  - intros n e Hn Hk. destruct (Z.eq_dec n s) as [->|Hne]; [rewrite upd_same in Hk; discriminate|].
    rewrite upd_other in Hk by assumption. rewrite (r_out_mem _ _ _ _ R) by assumption.
    destruct (Z.eq_dec e s) as [->|Hes].
    + rewrite upd_same. split.
      * intros Hc. exfalso. apply (proj1 (Hnol n Hn Hk)). apply (r_out_mem _ _ _ _ R); assumption.
      * intros (_ & (t & Ht) & _). discriminate.
    + rewrite upd_other by assumption. tauto.
  - intros n e Hn Hk. destruct (Z.eq_dec n s) as [->|Hne]; [rewrite upd_same in Hk; discriminate|].
    rewrite upd_other in Hk by assumption. rewrite (r_in_mem _ _ _ _ R) by assumption.
    destruct (Z.eq_dec e s) as [->|Hes].
    + rewrite upd_same. split.
      * intros Hc. exfalso. apply (proj2 (Hnol n Hn Hk)). apply (r_in_mem _ _ _ _ R); assumption.
      * intros (_ & (t & Ht) & _). discriminate.
    + rewrite upd_other by assumption. tauto.
  - intros e f t He Hk. destruct (Z.eq_dec e s) as [->|Hes]; [rewrite upd_same in Hk; discriminate|].
    rewrite upd_other in Hk by assumption. destruct (r_edge _ _ _ _ R e f t He Hk) as (Hf & Ht & Kf & Kt).
    destruct (Hnoe e f t He Hes Hk) as (Hfs & Hts). rewrite !upd_other by assumption. auto.
Qed.

(* node count *)
Definition a_set_count (a : ag) (c : Z) : ag :=
  {| ak := ak a; aout := aout a; ain := ain a; acount := c; afree := afree a; acap := acap a |}.

Lemma rep_set_count g a Xo Xi c :
  rep_x g a Xo Xi -> rep_x (set_tmeta g 0 c) (a_set_count a c) Xo Xi.
Proof.
  intros R. pose proof (r_lens _ _ _ _ R) as Hl. pose proof (r_cap _ _ _ _ R) as Hcap.
  assert (Htm : forall j, 0 < j -> tmeta (set_tmeta g 0 c) j = tmeta g j).
  { intros j Hj. rewrite tmeta_set_tmeta by (auto; lia). destruct (Z.eqb_spec 0 j); [lia | reflexivity]. }
  constructor; cbn [a_set_count ak aout ain acount afree acap];
    try (first [apply (r_acap _ _ _ _ R) | apply (r_free _ _ _ _ R) | apply (r_free_nd _ _ _ _ R)
               | apply (r_kind _ _ _ _ R) | apply (r_out _ _ _ _ R) | apply (r_out_mem _ _ _ _ R)
               | apply (r_in_mem _ _ _ _ R) | apply (r_edge _ _ _ _ R) ]; fail); auto using lens_set_tmeta.
  - unfold node_count. rewrite tmeta_set_tmeta by (auto; lia). reflexivity.
  - intros s Hs. destruct (r_free_in _ _ _ _ R s Hs) as (Hr & Hf & H1 & H2 & H3). rewrite Htm by lia. auto.
  - intros n Hn Hk. destruct (r_in _ _ _ _ R n Hn Hk) as (Hc & Hnd & Hdeg). rewrite Htm by assumption.
    repeat split; try assumption. eapply chain_ext; [exact Hc|]. intros e He.
    apply Htm. pose proof (chain_pos _ _ _ Hc) as Hp. rewrite Forall_forall in Hp. apply Hp, He.
Qed.

(* ---- insert_node / remove_node of an isolated node ---- *)

Definition a_insert_node (a : ag) : Z * ag :=
  let '(i, a1) := a_alloc a in (i, a_set_count a1 (acount a1 + 1)).

Lemma rep_insert_node g a i g' :
  rep g a -> insert_node g = (i, g') -> capacity g' <= two63z ->
  i = fst (a_insert_node a) /\ rep g' (snd (a_insert_node a)).
Proof.
  unfold insert_node, a_insert_node, rep. intros R Hg Hb.
  destruct (get_free_index g) as [i1 g1] eqn:Eg. injection Hg as <- <-.
  rewrite cap_set_tmeta in Hb. destruct (rep_alloc _ _ _ _ _ _ R Eg Hb) as (Ei & R1).
  destruct (a_alloc a) as [i2 a1]. cbn [fst snd] in *. split; [assumption|].
  rewrite (r_count _ _ _ _ R1). apply rep_set_count, R1.
Qed.

Lemma remove_from_edges_zero fuel g : remove_from_edges fuel g 0 = Some g.
Proof. destruct fuel; reflexivity. Qed.
Lemma remove_to_edges_zero fuel g : remove_to_edges fuel g 0 = Some g.
Proof. destruct fuel; reflexivity. Qed.

Definition a_remove_node (a : ag) (n : Z) : ag :=
  let a1 := a_release a n in a_set_count a1 (acount a1 - 1).

Lemma rep_remove_node g a n :
  rep g a -> 0 < n -> ak a n = KNode -> aout a n = [] -> ain a n = [] ->
  exists g', remove_node g n = Some g' /\ rep g' (a_remove_node a n) /\ capacity g' = capacity g.
Proof.
  unfold rep. intros R Hn Hk Ho Hi.
  pose proof (r_lens _ _ _ _ R) as Hl.
  destruct (rep_node_range _ _ _ _ R n Hn Hk) as (Hr & Hfm & Hfr).
  destruct (r_out _ _ _ _ R n Hn Hk) as (Hc & _). rewrite Ho in Hc. apply chain_head in Hc.
  destruct (r_in _ _ _ _ R n Hn Hk) as (Hc2 & _). rewrite Hi in Hc2. apply chain_head in Hc2.
  unfold remove_node.
  assert (Hin : is_node g n = true).
  { apply is_node_kind; [assumption|]. rewrite <- (r_kind _ _ _ _ R) by assumption. assumption. }
  rewrite Hin, Hc. cbn [Z.opp]. rewrite remove_from_edges_zero, Hc2. cbn [Z.opp]. rewrite remove_to_edges_zero.
  eexists. split; [reflexivity|]. split.
  - unfold a_remove_node.
    assert (R1 : rep_x (free_index g n) (a_release a n) xnone xnone).
    { eapply rep_x_ext; [| |apply (rep_release g a xnone xnone n R); try lia].
      - intros x. unfold xnone. tauto.
      - intros x. unfold xnone. tauto.
      - intros m Hm Hkm. split; intros Hc3.
        + destruct (rep_out_edge _ _ _ _ R m n Hm Hkm Hc3) as (t & Ht). congruence.
        + destruct (rep_in_edge _ _ _ _ R m n Hm Hkm Hc3) as (t & Ht). congruence.
      - intros e f t He Hne Hke. destruct (rep_edge_in_out g a e f t R He Hke) as (H1 & H2).
        split; intros ->; [rewrite Ho in H1 | rewrite Hi in H2]; contradiction. }
    rewrite (r_count _ _ _ _ R1). apply rep_set_count, R1.
  - rewrite cap_set_tmeta. apply cap_free_index.
Qed.
