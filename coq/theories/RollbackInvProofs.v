(* RollbackInvProofs.v — what every rollback preserves outright (no simulation needed):
   the graph invariant `wf` (C08) and the structural bijection of the alias map (C10).
   The undo commands reach the graph only through insert_node / insert_edge / remove_edge /
   remove_node, and these keep wf when the ids carry the sign of their kind (`cmd_ok`); every
   primitive of C13 (`pstep`) pushes only such commands (`uok` = the whole undo stack is sign-correct). *)
From Agdb Require Import Bytes BytesProofs DbValue Graph DbModel Search Queries Revisions
  GraphSim GraphWf GraphLive DbFrameProofs AliasProofs ImapProofs.
From Agdb Require Import UndoBase UndoObs UndoAlias UndoKv UndoGraphBase UndoGraph UndoAbs UndoDb
  UndoStepsKv UndoStepsKv2 UndoStepsIndex UndoMain UndoRemoveNode2.
From Coq Require Import Permutation ZifyBool ZifyNat ZifyN.
Ltac Zify.zify_post_hook ::= Z.div_mod_to_equations.
Open Scope Z_scope.

Definition cmd_ok (c : command) : Prop :=
  match c with
  | CInsertEdge f t => 0 <= f /\ 0 <= t
  | CRemoveEdge i => i <= 0
  | CRemoveNode i => 0 <= i
  | _ => True
  end.

Definition uok (d : db) : Prop := Forall cmd_ok (undo d).

(* ---------- one undo command ---------- *)
Lemma undo_one_wf d c d' : undo_one d c = ROk d' -> cmd_ok c -> wf (gr d) -> wf (gr d').
Proof.
  destruct c; cbn [undo_one cmd_ok]; intros H Hc Hwf; try (injection H as <-; exact Hwf).
  - destruct (insert_edge (gr d) f t) as [[i g]|] eqn:E; [|discriminate]. injection H as <-. cbn [gr with_gr].
    destruct Hc as [Hf Ht]. exact (wf_insert_edge (gr d) f t i g Hwf Hf Ht E).
  - pose proof (wf_insert_node (gr d) Hwf) as W. destruct (insert_node (gr d)) as [i g]. injection H as <-. exact W.
  - destruct (wf_remove_edge (gr d) index Hwf Hc) as (g & E & W). rewrite E in H. injection H as <-. exact W.
  - destruct (wf_remove_node (gr d) index Hwf Hc) as (g & E & W). rewrite E in H. injection H as <-. exact W.
  - destruct (kvs_insert_or_replace (vals d) id x) as [[old|] s]; [|discriminate]. injection H as <-. exact Hwf.
Qed.

Lemma undo_one_bij d c d' : undo_one d c = ROk d' -> alias_bij d -> alias_bij d'.
Proof.
  unfold alias_bij. destruct c; cbn [undo_one]; intros H Hb; try (injection H as <-; exact Hb).
  - injection H as <-. cbn [aliases with_aliases]. now apply bij_imap_insert.
  - destruct (insert_edge (gr d) f t) as [[i g]|]; [|discriminate]. injection H as <-. exact Hb.
  - destruct (insert_node (gr d)) as [i g]. injection H as <-. exact Hb.
  - injection H as <-. cbn [aliases with_aliases]. now apply bij_imap_remove_key.
  - destruct (Graph.remove_edge (gr d) index); [|discriminate]. injection H as <-. exact Hb.
  - destruct (Graph.remove_node (gr d) index); [|discriminate]. injection H as <-. exact Hb.
  - destruct (kvs_insert_or_replace (vals d) id x) as [[old|] s]; [|discriminate]. injection H as <-. exact Hb.
Qed.

Lemma rollback_cmds_wf_bij rv cs : forall d d',
  rollback_cmds rv d cs = ROk d' -> Forall cmd_ok cs -> wf (gr d) -> alias_bij d ->
  wf (gr d') /\ alias_bij d'.
Proof.
  induction cs as [|c r IH]; intros d d' H Hc Hwf Hb; cbn [rollback_cmds] in H.
  - injection H as <-. now split.
  - inversion Hc as [|? ? Hc1 Hc2]; subst.
    destruct (undo_one d c) as [d1|k] eqn:E; [|discriminate].
    pose proof (undo_one_wf d c d1 E Hc1 Hwf) as W1. pose proof (undo_one_bij d c d1 E Hb) as B1.
    assert (Hgo : rollback_cmds rv d1 r = ROk d' -> wf (gr d') /\ alias_bij d') by (intros Hr; now apply (IH d1)).
    destruct c; try (exact (Hgo H)).
    destruct (fix_rollback_replace rv); [exact (Hgo H)|]. injection H as <-. now split.
Qed.

Lemma rollback_wf_bij rv d d' :
  rollback rv d = ROk d' -> uok d -> wf (gr d) -> alias_bij d -> wf (gr d') /\ alias_bij d'.
Proof. unfold rollback. intros H Hu Hwf Hb. exact (rollback_cmds_wf_bij rv (undo d) (clear_undo d) d' H Hu Hwf Hb). Qed.

(* ---------- every primitive pushes sign-correct commands and keeps wf ---------- *)
Lemma uok_push d c : cmd_ok c -> uok d -> uok (push_undo d c).
Proof. intros Hc Hu. unfold uok. cbn [undo push_undo]. now constructor. Qed.

Lemma graph_index_pos_node g i : 0 < i -> graph_index g i = is_node g i.
Proof. intros H. unfold graph_index. destruct (Z.ltb_spec i 0); [lia|]. destruct (Z.ltb_spec 0 i); [reflexivity|lia]. Qed.

Lemma remove_sel_fold_uok id sel l : forall d,
  uok d -> uok (fold_left (remove_sel id sel) l d) /\ gr (fold_left (remove_sel id sel) l d) = gr d.
Proof.
  induction l as [|x r IH]; intros d Hu; cbn [fold_left]; [now split|].
  assert (Hu1 : uok (remove_sel id sel d x) /\ gr (remove_sel id sel d x) = gr d).
  { unfold remove_sel. destruct (sel x); [|now split]. split; [|reflexivity].
    unfold uok, remove_kv. cbn [undo]. constructor; [exact I|exact Hu]. }
  destruct Hu1 as [Hu1 Hg1]. destruct (IH _ Hu1) as [Hu2 Hg2]. split; [exact Hu2|congruence].
Qed.

Section Psteps.
  Variable rv : revision.
  Hypothesis Hsteal : fix_alias_steal_undo rv = true.

  Lemma pstep_uok d d1 : pstep rv d d1 -> wf (gr d) -> uok d -> wf (gr d1) /\ uok d1.
  Proof.
    intros H Hwf Hu. destruct H.
    - (* insert_node_db *)
      unfold insert_node_db in H. pose proof (insert_node_live (gr d) Hwf) as L.
      destruct (insert_node (gr d)) as [i0 g]. injection H as <- <-. destruct L as (W & Hp & _).
      split; [exact W|]. apply uok_push; [cbn [cmd_ok]; lia|exact Hu].
    - (* insert_edge_db *)
      unfold insert_edge_db in H1. destruct (insert_edge (gr d) f t) as [[i0 g]|] eqn:E; [|discriminate].
      injection H1 as <- <-.
      assert (Hn : is_node (gr d) f = true /\ is_node (gr d) t = true).
      { unfold insert_edge in E. destruct (is_node (gr d) f && is_node (gr d) t) eqn:En; [|discriminate].
        now apply andb_true_iff in En. }
      destruct (insert_edge_live (gr d) f t i0 g Hwf) as (W & Hneg & _); try assumption.
      { rewrite graph_index_pos_node by assumption. apply Hn. }
      { rewrite graph_index_pos_node by assumption. apply Hn. }
      split; [exact W|]. apply uok_push; [cbn [cmd_ok]; lia|exact Hu].
    - (* remove_edge_db *)
      unfold remove_edge_db in H1. destruct (wf_remove_edge (gr d) (- e0) Hwf) as (g & E & W); [lia|].
      rewrite E in H1. injection H1 as <-. split; [exact W|].
      assert (He : is_edge (gr d) (- e0) = true) by (rewrite is_edge_opp; exact H0).
      destruct (wf_edge_ends (gr d) (- e0) Hwf He) as (Hf & _ & Ht & _).
      apply uok_push; [cbn [cmd_ok]; lia|exact Hu].
    - (* isolated node *)
      destruct (wf_remove_node (gr d) n Hwf) as (g & E & W); [lia|]. rewrite E in H3. injection H3 as <-.
      split; [exact W|]. apply uok_push; [exact I|exact Hu].
    - split; [exact Hwf|]. unfold insert_new_alias. unfold uok. cbn [undo with_aliases push_undo]. constructor; [exact I|exact Hu].
    - unfold insert_alias. rewrite Hsteal.
      destruct (imap_key (aliases d) id); cbn [aliases with_aliases push_undo];
        match goal with |- context [imap_value ?m a] => destruct (imap_value m a) end;
        (split; [exact Hwf|]); unfold uok; cbn [undo with_aliases push_undo]; repeat (constructor; [exact I|]); exact Hu.
    - unfold remove_alias. destruct (imap_value (aliases d) a); cbn [snd]; (split; [exact Hwf|]); [|exact Hu].
      unfold uok. cbn [undo with_aliases push_undo]. constructor; [exact I|exact Hu].
    - split; [exact Hwf|]. unfold uok, insert_key_value. cbn [undo with_vals push_undo index_insert_if with_indexes].
      constructor; [exact I|exact Hu].
    - unfold insert_or_replace_key_value. destruct (kvs_insert_or_replace (vals d) id x) as [[old|] s];
        (split; [exact Hwf|]); unfold uok; cbn [undo with_vals push_undo index_insert_if index_remove_if with_indexes];
        (constructor; [exact I|exact Hu]).
    - split; [exact Hwf|exact Hu].
    - rewrite remove_keys_fold. destruct (remove_sel_fold_uok id (fun x => mem dbv_eqb (fst x) keys) (kvs_get (vals d) id) d Hu) as [Hu1 Hg1].
      split; [rewrite Hg1; exact Hwf|exact Hu1].
    - rewrite gr_remove_all_values. split; [exact Hwf|].
      unfold remove_all_values, uok. cbn [undo with_vals].
      destruct (remove_all_fold_fields (kvs_get (vals d) id) id d) as (_ & _ & _ & Eu & _). rewrite Eu.
      apply (remove_sel_fold_uok id (fun _ => true) _ d Hu).
    - (* insert_index *)
      unfold insert_index in H. destruct (idx_find (indexes d) key); [discriminate|]. injection H as _ <-.
      match goal with |- wf (gr ?X) /\ _ =>
        assert (Hinv : backfill_inv key (with_indexes (push_undo d (CRemoveIndex key))
                                                      (indexes (push_undo d (CRemoveIndex key)) ++ [(key, [])])) X) end.
      { apply backfill_inv_outer. repeat split. }
      destruct Hinv as (Eg & _ & _ & Eu & _). unfold uok. rewrite Eg, Eu. cbn [gr undo with_indexes push_undo].
      split; [exact Hwf|]. constructor; [exact I|exact Hu].
    - unfold remove_index. destruct (idx_find (indexes d) key) as [ids|]; cbn [snd]; [|now split].
      set (X := fold_left (fun acc (p : dbvalue * Z) => push_undo acc (CInsertToIndex key (fst p) (snd p))) ids d).
      assert (Hf : gr X = gr d /\ uok X).
      { apply (fold_left_inv (fun a => gr a = gr d /\ uok a)); [now split|].
        intros acc p _ [Hg Hua]. split; [exact Hg|]. apply uok_push; [exact I|exact Hua]. }
      destruct Hf as [Hg Hu1]. cbn [gr with_indexes push_undo]. rewrite Hg. split; [exact Hwf|].
      unfold uok. cbn [undo with_indexes push_undo]. constructor; [exact I|exact Hu1].
  Qed.

  Lemma psteps_uok d d1 : psteps rv d d1 -> wf (gr d) -> uok d -> wf (gr d1) /\ uok d1.
  Proof.
    intros H Hwf Hu. induction H as [d|d d1 d2 H12 IH H2]; [now split|].
    destruct (IH Hwf Hu) as [W1 U1]. exact (pstep_uok d1 d2 H2 W1 U1).
  Qed.
End Psteps.
