(* ByteStores.v — the three StorageData back-ends as functions on byte lists
   (agdb/src/storage/memory_storage.rs, file_storage.rs, file_storage_memory_mapped.rs).
   Definitions only. *)
From Agdb Require Import Bytes FileWal.
Open Scope nat_scope.

(* MemoryStorage::write: `if end < len { copy in place } else { resize(pos, 0); extend }` *)
Definition mem_write (d : bytes) (pos : nat) (bs : bytes) : bytes :=
  let e := pos + length bs in
  if Nat.ltb e (length d) then firstn pos d ++ bs ++ skipn e d
  else set_len d pos ++ bs.
(* MemoryStorage::resize = Vec::resize(new_len, 0) *)
Definition mem_resize (d : bytes) (n : nat) : bytes := set_len d n.
(* MemoryStorage::read: &buffer[pos..pos+len]; None = slice index panic *)
Definition mem_read (d : bytes) (pos len : nat) : option bytes :=
  if Nat.leb (pos + len) (length d) then Some (firstn len (skipn pos d)) else None.

(* FileStorage: the data file after the call (log aside): seek + write_all / set_len *)
Definition file_write (d : bytes) (pos : nat) (bs : bytes) : bytes :=
  match bs with [] => d | _ => write_at (set_len d (Nat.max (length d) pos)) pos bs end.
Definition file_resize (d : bytes) (n : nat) : bytes := set_len d n.
(* read_exact: None = Err (unexpected end of file) *)
Definition file_read (d : bytes) (pos len : nat) : option bytes :=
  if Nat.leb (pos + len) (length d) then Some (firstn len (skipn pos d)) else None.

(* FileStorageMemoryMapped: memory first, then the file; reads from memory *)
Record mapped := { m_mem : bytes; m_file : bytes }.
Definition mapped_write (m : mapped) pos bs := {| m_mem := mem_write (m_mem m) pos bs; m_file := file_write (m_file m) pos bs |}.
Definition mapped_resize (m : mapped) n := {| m_mem := mem_resize (m_mem m) n; m_file := file_resize (m_file m) n |}.
Definition mapped_read (m : mapped) pos len := mem_read (m_mem m) pos len.
