(* FileWalRestartProofs.v — C01: recovery is itself crash safe (restartable).
   Recovery of the repaired code is a sequence of file-system calls (FileWal.recovery_calls true: cut a
   torn tail; per record newest first: guard, undo, remove the record from the log; clear).  Every crash
   cut of that sequence — incl. a torn undo write — of a state left by a crash of normal operation is
   again such a state for the same committed content (Recoverable is closed under the cuts of recovery),
   so any number of interrupted recoveries end in the same content, the guard never firing. *)
From Agdb Require Import Bytes BytesProofs FileWal FileWalProofs FileWalGuardProofs.
From Coq Require Import ZifyBool ZifyNat ZifyN.
Ltac Zify.zify_post_hook ::= Z.div_mod_to_equations.
Open Scope nat_scope.
Arguments N.of_nat : simpl never.
Arguments N.to_nat : simpl never.
Arguments N.ltb : simpl never.

(* ---------- small facts ---------- *)

Lemma crash_cons_0 st c cs j : crash st (c :: cs) 0 j = apply_torn st c j.
Proof. reflexivity. Qed.

Lemma crash_cons_S st c cs k j : crash st (c :: cs) (S k) j = crash (apply_sys st c) cs k j.
Proof. reflexivity. Qed.

Lemma log_size_encs rs : log_size rs = length (encs rs).
Proof.
  induction rs as [|r rs IH]; [reflexivity|].
  rewrite encs_cons, app_length, enc_rec_length, <- IH. reflexivity.
Qed.

Lemma log_size_rev rs : log_size (rev rs) = log_size rs.
Proof.
  unfold log_size. induction rs as [|r rs IH]; [reflexivity|].
  cbn [rev]. rewrite map_app, list_sum_app, IH.
  change (list_sum (map rec_size [r])) with (rec_size r + 0).
  change (list_sum (map rec_size (r :: rs))) with (rec_size r + list_sum (map rec_size rs)). lia.
Qed.

Lemma set_len_prefix (a b : bytes) : set_len (a ++ b) (length a) = a.
Proof.
  unfold set_len. rewrite firstn_app, Nat.sub_diag, firstn_all, firstn_O, app_nil_r.
  replace (length a - length (a ++ b)) with 0 by (rewrite app_length; lia). cbn [repeat]. apply app_nil_r.
Qed.

Lemma set_len_0 (w : bytes) : set_len w 0 = [].
Proof. unfold set_len. cbn [firstn Nat.sub repeat app]. reflexivity. Qed.

Lemma incomplete_length_pos t : incomplete t -> t = [] \/ 0 < length t.
Proof. destruct t; [now left|right; cbn; lia]. Qed.

(* writing a value over a prefix of itself / over itself *)
Lemma write_at_over (d : bytes) p (v : bytes) j : p <= length d ->
  write_at (write_at d p (firstn j v)) p v = write_at d p v.
Proof.
  intros Hp.
  set (t := firstn j v). assert (Ht : length t <= length v) by (unfold t; rewrite firstn_length; lia).
  assert (L1 : length (write_at d p t) = Nat.max (length d) (p + length t)) by (apply write_at_length; exact Hp).
  apply (list_ext x00).
  - rewrite !write_at_length by lia. lia.
  - intros i Hi. rewrite !nth_write_at by lia.
    destruct (Nat.ltb_spec i p); [reflexivity|].
    destruct (Nat.ltb_spec i (p + length v)); [reflexivity|].
    destruct (Nat.ltb_spec i (p + length t)); [lia|reflexivity].
Qed.

(* applying an undo record on top of its own (complete or torn) application *)
Definition after_undo (d : bytes) (r : nat * bytes) (j : nat) : bytes :=
  match snd r with
  | [] => d
  | v => write_at d (fst r) (firstn j v)
  end.

Lemma apply_rec_over d r j : fst r <= length d ->
  apply_rec (after_undo d r j) r = apply_rec d r /\ fst r <= length (after_undo d r j).
Proof.
  intros Hp. destruct r as [p v]. unfold after_undo, apply_rec. cbn [fst snd] in *.
  destruct v as [|b v']; [split; [reflexivity|exact Hp]|].
  split; [now apply write_at_over|]. rewrite write_at_length by exact Hp. lia.
Qed.

Lemma apply_rec_idem d r : fst r <= length d ->
  apply_rec (apply_rec d r) r = apply_rec d r /\ fst r <= length (apply_rec d r).
Proof.
  intros Hp. destruct r as [p v]. unfold apply_rec. cbn [fst snd] in *.
  destruct v as [|b v'].
  - rewrite set_len_length. split; [|lia]. pose proof (set_len_same (set_len d p)) as E.
    now rewrite set_len_length in E.
  - split.
    + pose proof (write_at_over d p (b :: v') (length (b :: v')) Hp) as E. now rewrite firstn_all in E.
    + rewrite write_at_length by exact Hp. lia.
Qed.

Lemma undo_call_torn st r j :
  apply_torn st (undo_call r) j = {| data := after_undo (data st) r j; wal := wal st |}.
Proof.
  destruct r as [p v]. unfold undo_call, after_undo. cbn [fst snd].
  destruct v; cbn [apply_torn]; destruct st; reflexivity.
Qed.

Lemma undo_call_done st r :
  apply_sys st (undo_call r) = {| data := apply_rec (data st) r; wal := wal st |}.
Proof.
  destruct r as [p v]. unfold undo_call, apply_rec. cbn [fst snd].
  destruct v; cbn [apply_sys]; reflexivity.
Qed.

(* ---------- the undo loop ---------- *)

(* a state whose log is exactly the records rs, all of them still to be undone *)
Lemma rec_of_parts d0 d rs :
  Forall ok_rec rs -> replay_nf rs d = d0 -> gok_nf rs d -> Recoverable d0 {| data := d; wal := encs rs |}.
Proof.
  intros Hok Hr Hg. apply (rec_tail d0 _ rs []); cbn [data wal];
    [now rewrite app_nil_r|apply incomplete_nil|exact Hok|exact Hr|exact Hg].
Qed.

Lemma undo_loop d0 rs : forall d,
  Forall ok_rec rs -> replay_nf rs d = d0 -> gok_nf rs d ->
  let st := {| data := d; wal := encs rs |} in
  exists cs, undo_calls true (rev rs) d = (cs, true) /\
             (forall k j, Recoverable d0 (crash st cs k j)) /\
             run_calls st cs = {| data := d0; wal := [] |}.
Proof.
  induction rs as [|r rs IH] using rev_ind; intros d Hok Hr Hg st; subst st.
  - exists []. cbn [rev undo_calls]. repeat split.
    + intros k j. rewrite crash_all by (cbn; lia). cbn [run_calls fold_left]. now apply rec_of_parts.
    + cbn [run_calls fold_left encs map concat]. unfold replay_nf in Hr. cbn in Hr. now rewrite Hr.
  - apply Forall_app in Hok as [Hok Hokr].
    rewrite replay_nf_app, replay_nf_one in Hr.
    apply gok_nf_app in Hg as [Hg1 Hg]. rewrite gok_nf_one in Hg1. rewrite replay_nf_one in Hg.
    destruct (IH (apply_rec d r) Hok Hr Hg) as (cs & Ecs & Scs & Rcs).
    rewrite rev_app_distr. cbn [rev app undo_calls andb].
    destruct (Nat.ltb_spec (length d) (fst r)) as [C|_]; [lia|].
    rewrite Ecs. cbn [app].
    exists (undo_call r :: WalSetLen (log_size (rev rs)) :: cs). split; [reflexivity|].
    set (st := {| data := d; wal := encs (rs ++ [r]) |}).
    (* the state with r undone, r still in the log *)
    assert (Mid : forall d', apply_rec d' r = apply_rec d r -> fst r <= length d' ->
                             Recoverable d0 {| data := d'; wal := encs (rs ++ [r]) |}).
    { intros d' E L. apply rec_of_parts.
      - apply Forall_app; split; [exact Hok|exact Hokr].
      - now rewrite replay_nf_app, replay_nf_one, E.
      - apply gok_nf_app. rewrite gok_nf_one, replay_nf_one, E. split; assumption. }
    assert (Cut : apply_sys (apply_sys st (undo_call r)) (WalSetLen (log_size (rev rs)))
                  = {| data := apply_rec d r; wal := encs rs |}).
    { rewrite undo_call_done. cbn [apply_sys data wal st]. f_equal.
      rewrite log_size_rev, log_size_encs, encs_app. apply set_len_prefix. }
    split.
    + intros k j. destruct k as [|[|k]].
      * rewrite crash_cons_0, undo_call_torn. cbn [data wal st].
        destruct (apply_rec_over d r j Hg1) as [E L]. now apply Mid.
      * rewrite crash_cons_S, crash_cons_0, undo_call_done. cbn [apply_torn data wal st].
        destruct (apply_rec_idem d r Hg1) as [E L]. now apply Mid.
      * rewrite !crash_cons_S, Cut. apply Scs.
    + cbn [run_calls fold_left]. fold (run_calls (apply_sys (apply_sys st (undo_call r)) (WalSetLen (log_size (rev rs)))) cs).
      rewrite Cut. exact Rcs.
Qed.

(* ---------- the whole recovery ---------- *)

Theorem recovery_restartable d0 st :
  Recoverable d0 st ->
  exists cs, recovery_calls true st = (cs, true) /\
             (forall k j, Recoverable d0 (crash st cs k j)) /\
             run_calls st cs = {| data := d0; wal := [] |}.
Proof.
  intros HR. pose proof HR as (rs & t & Hw & Ht & Hok & Hr & Hg).
  unfold recovery_calls. rewrite Hw, records_encs by assumption. rewrite <- Hw.
  destruct (undo_loop d0 rs (data st) Hok Hr Hg) as (cs & Ecs & Scs & Rcs). cbv zeta in Scs, Rcs.
  rewrite Ecs. rewrite log_size_encs.
  set (rep := if Nat.ltb (length (encs rs)) (length (wal st)) then [WalSetLen (length (encs rs))] else []).
  exists (rep ++ cs ++ [WalSetLen 0]). split; [reflexivity|].
  (* after the repair the log is exactly the records *)
  assert (Rep : run_calls st rep = {| data := data st; wal := encs rs |}).
  { unfold rep. destruct (Nat.ltb_spec (length (encs rs)) (length (wal st))) as [L|L].
    - cbn [run_calls fold_left apply_sys]. f_equal. rewrite Hw. apply set_len_prefix.
    - cbn [run_calls fold_left]. rewrite Hw, app_length in L.
      assert (Z : t = []) by (apply length_zero_nil; lia). subst t. rewrite app_nil_r in Hw.
      destruct st as [dd ww]; cbn [data wal] in *. now rewrite Hw. }
  assert (Fin : Recoverable d0 {| data := d0; wal := [] |}) by apply good'_rec, good'_committed.
  split.
  - intros k j. rewrite crash_app.
    destruct (Nat.ltb_spec k (length rep)) as [K|K].
    + (* the cut is the repair call: a length change is atomic *)
      unfold rep in *. destruct (Nat.ltb (length (encs rs)) (length (wal st))); cbn [length] in K; [|lia].
      assert (k = 0) by lia. subst k. rewrite crash_cons_0. cbn [apply_torn]. exact HR.
    + rewrite Rep, crash_app.
      destruct (Nat.ltb_spec (k - length rep) (length cs)) as [K2|K2]; [apply Scs|].
      rewrite Rcs. destruct (k - length rep - length cs) as [|k3].
      * rewrite crash_cons_0. cbn [apply_torn]. exact Fin.
      * rewrite crash_all by (cbn; lia). cbn [run_calls fold_left apply_sys data wal]. now rewrite set_len_0.
  - rewrite !run_calls_app, Rep, Rcs. cbn [run_calls fold_left apply_sys data wal]. now rewrite set_len_0.
Qed.

(* any number of interrupted recoveries, each cut anywhere *)
Definition interrupted (st : fstate) (cut : nat * nat) : fstate :=
  crash st (fst (recovery_calls true st)) (fst cut) (snd cut).

Theorem interrupted_recoveries d0 cuts : forall st,
  Recoverable d0 st -> Recoverable d0 (fold_left interrupted cuts st).
Proof.
  induction cuts as [|[k j] cuts IH]; intros st HR; cbn [fold_left]; [exact HR|].
  apply IH. unfold interrupted. cbn [fst snd].
  destruct (recovery_restartable d0 st HR) as (cs & E & S & _). rewrite E. apply S.
Qed.

(* from a crash cut of normal operation: interrupted recoveries, then one that completes *)
Theorem recovery_after_interruptions d0 ops k j cuts :
  wp d0 ops ->
  let c := crash {| data := d0; wal := [] |} (trace walrev_fixed {| data := d0; wal := [] |} ops) k j in
  let c' := fold_left interrupted cuts c in
  let want := {| data := expect d0 {| data := d0; wal := [] |} ops k; wal := [] |} in
  snd (recovery_calls true c') = true /\
  run_calls c' (fst (recovery_calls true c')) = want /\
  recover_g walrev_fixed c' = Some want.
Proof.
  intros Hwp c c' want.
  assert (R : Recoverable (expect d0 {| data := d0; wal := [] |} ops k) c').
  { apply interrupted_recoveries. apply crash_recoverable; [apply good'_committed|exact Hwp]. }
  destruct (recovery_restartable _ _ R) as (cs & E & _ & Run). rewrite E. cbn [fst snd].
  repeat split; [exact Run|]. apply rec_gsafe in R. exact R.
Qed.

(* ---------- the call sequence and the recovery function agree on ALL files ---------- *)

Lemma undo_calls_spec rr : forall d w,
  match undo_calls true rr d with
  | (cs, true) => apply_all_g rr d = Some (data (run_calls {| data := d; wal := w |} cs))
  | (_, false) => apply_all_g rr d = None
  end.
Proof.
  induction rr as [|r rest IH]; intros d w; cbn [undo_calls apply_all_g andb].
  - reflexivity.
  - unfold apply_rec_g. destruct (Nat.ltb (length d) (fst r)); [reflexivity|].
    specialize (IH (apply_rec d r) (set_len w (log_size rest))).
    destruct (undo_calls true rest (apply_rec d r)) as [cs [|]]; [|exact IH].
    rewrite IH. cbn [app run_calls fold_left]. rewrite undo_call_done. reflexivity.
Qed.

Theorem recovery_calls_spec st :
  match recovery_calls true st with
  | (cs, true) => recover_g walrev_fixed st = Some (run_calls st cs)
  | (_, false) => recover_g walrev_fixed st = None
  end.
Proof.
  unfold recovery_calls, recover_g, replay_g. cbn [w_newest_first walrev_fixed].
  set (rs := records (wal st)).
  set (rep := if Nat.ltb (log_size rs) (length (wal st)) then [WalSetLen (log_size rs)] else []).
  assert (Rep : exists w, run_calls st rep = {| data := data st; wal := w |}).
  { unfold rep. destruct (Nat.ltb (log_size rs) (length (wal st))).
    - exists (set_len (wal st) (log_size rs)). reflexivity.
    - exists (wal st). destruct st; reflexivity. }
  destruct Rep as [w Rep].
  pose proof (undo_calls_spec (rev rs) (data st) w) as S.
  destruct (undo_calls true (rev rs) (data st)) as [cs [|]]; [|now rewrite S].
  rewrite S. f_equal. rewrite !run_calls_app, Rep.
  cbn [run_calls fold_left apply_sys]. now rewrite set_len_0.
Qed.

(* not interrupted, the call sequence ends in the state the recovery function returns *)
Theorem recovery_calls_end st cs :
  recovery_calls true st = (cs, true) -> run_calls st cs = recover walrev_fixed st.
Proof.
  intros E. pose proof (recovery_calls_spec st) as S. rewrite E in S. now apply recover_g_some in S.
Qed.

(* the same for the code without guard and without progressive removal (g = false: /repo) *)
Lemma undo_calls_plain rr : forall d w,
  exists cs, undo_calls false rr d = (cs, true) /\
             run_calls {| data := d; wal := w |} cs = {| data := fold_left apply_rec rr d; wal := w |}.
Proof.
  induction rr as [|r rest IH]; intros d w; cbn [undo_calls andb fold_left].
  - exists []. split; reflexivity.
  - destruct (IH (apply_rec d r) w) as (cs & E & R). rewrite E. cbn [app].
    exists (undo_call r :: cs). split; [reflexivity|].
    cbn [run_calls fold_left]. rewrite undo_call_done. exact R.
Qed.

Theorem recovery_calls_plain_end st :
  snd (recovery_calls false st) = true /\
  run_calls st (fst (recovery_calls false st)) = recover walrev_fixed st.
Proof.
  unfold recovery_calls.
  set (rs := records (wal st)).
  set (rep := if Nat.ltb (log_size rs) (length (wal st)) then [WalSetLen (log_size rs)] else []).
  assert (Rep : exists w, run_calls st rep = {| data := data st; wal := w |}).
  { unfold rep. destruct (Nat.ltb (log_size rs) (length (wal st))).
    - exists (set_len (wal st) (log_size rs)). reflexivity.
    - exists (wal st). destruct st; reflexivity. }
  destruct Rep as [w Rep].
  destruct (undo_calls_plain (rev rs) (data st) w) as (cs & E & R). rewrite E. cbn [fst snd].
  split; [reflexivity|]. rewrite !run_calls_app, Rep, R.
  cbn [run_calls fold_left apply_sys data wal]. rewrite set_len_0.
  unfold recover, replay. cbn [w_newest_first walrev_fixed]. reflexivity.
Qed.

(* ---------- the simple guard alone is not enough ---------- *)

(* Replaying the whole log and clearing it only at the end (g = false is the code of /repo) leaves,
   when recovery is interrupted before the clear, a state on which the position guard fires: the
   committed file has 2 bytes; resize 5; resize 4; crash; recovery undoes both records and dies before
   clearing the log; the newest record (position 4) now lies beyond the end (2).  With the records
   removed as they are undone (g = true) every cut is recovered. *)
Lemma simple_guard_refuted :
  let d0 := [x01; x02] in
  let c := run_calls (st0 d0) (trace walrev_fixed (st0 d0) [OResize 5; OResize 4]) in
  let cs := fst (recovery_calls false c) in
  recover_g walrev_fixed (crash c cs 2 0) = None /\
  recover walrev_fixed (crash c cs 2 0) = st0 d0 /\
  forall k, k <= 6 -> recover_g walrev_fixed (crash c (fst (recovery_calls true c)) k 0) = Some (st0 d0).
Proof.
  cbv zeta. split; [vm_compute; reflexivity|]. split; [vm_compute; reflexivity|].
  intros k Hk. do 7 (destruct k as [|k]; [vm_compute; reflexivity|]). lia.
Qed.

(* the same with the sizes of the report: 50 committed bytes; resize 100; resize 90; the process dies (or the
   storage is dropped with the transaction open); the rollback undoes both records and is interrupted before
   the log is cleared: the simple guard then refuses every later open *)
Lemma simple_guard_refuted_50 :
  let d0 := repeat x01 50 in
  let c := run_calls (st0 d0) (trace walrev_fixed (st0 d0) [OResize 100; OResize 90]) in
  let cut := crash c (fst (recovery_calls false c)) 2 0 in
  length (data cut) = 50 /\ records (wal cut) = [(50, []); (90, repeat x00 10)] /\
  recover_g walrev_fixed cut = None /\ recover walrev_fixed cut = st0 d0.
Proof. cbv zeta. repeat split; vm_compute; reflexivity. Qed.
