(* CollMap.v — proofs (collections, part 10): DbMapData of map.rs — the record
   (len, states index, keys index, values index) and the three vectors it names, side by side
   in one storage.

   msep g d slots.. lists..   the index record and the three vectors are represented (vrep) and
                              pairwise disjoint (all footprints in one duplicate-free list)
   mrep g d slots.. t         msep for the lists of the table t, the cached len is the table's,
                              the three lists have one length (= capacity), everything stored in
                              the index record is a u64 *)
From Agdb Require Import Bytes BytesProofs Records RecordsProofs Storage StorageSpec StorageLayout
  Collections CollWp CollBytes CollVecBase CollVecOps CollVec CollVec2 CollElems CollSep.
From Coq Require Import ZifyBool ZifyNat ZifyN.
Ltac Zify.zify_post_hook ::= Z.div_mod_to_equations.
Open Scope N_scope.
Arguments N.add : simpl never.
Arguments N.mul : simpl never.
Arguments N.sub : simpl never.
Arguments N.of_nat : simpl never.
Arguments N.to_nat : simpl never.
Arguments N.eqb : simpl never.
Arguments N.ltb : simpl never.
Arguments N.leb : simpl never.
Arguments N.div : simpl never.

Arguments ct_states {K V}. Arguments ct_keys {K V}. Arguments ct_values {K V}. Arguments ct_len {K V}.

(* one component F of a duplicate-free list of live footprints changes to F' *)
Lemma sep_update g g' (A F F' B : list N) :
  frame g g' F F' -> NoDup (A ++ F ++ B) -> live_all g (A ++ B) -> NoDup F' ->
  NoDup (A ++ F' ++ B) /\ frame g g' (A ++ F ++ B) (A ++ F' ++ B) /\ (forall j, In j (A ++ B) -> g' j = g j).
Proof.
  intros Hf Hnd Hl NF'. split; [eapply nodup_frame_update; eauto|]. split; [apply frame_extend; auto|].
  intros j Hj. apply NoDup_app_iff in Hnd. destruct Hnd as (NA & NFB & DA). apply NoDup_app_iff in NFB. destruct NFB as (NF & NB & DF).
  assert (~ In j F).
  { intros I. apply in_app_or in Hj. destruct Hj as [Hj|Hj]; [apply (DA j Hj); apply in_or_app; auto|apply (DF j I Hj)]. }
  exact (proj1 (frame_keeps _ _ _ _ j Hf H (Hl j Hj))).
Qed.

(* the 32-byte index record *)
Lemma index_ser_parts a b c d :
  a < two64 -> b < two64 -> c < two64 -> d < two64 ->
  lenN (cm_index_ser a b c d) = 32 /\
  de (firstn 8 (cm_index_ser a b c d)) = a /\
  de (firstn 8 (skipn 8 (cm_index_ser a b c d))) = b /\
  de (firstn 8 (skipn 16 (cm_index_ser a b c d))) = c /\
  de (firstn 8 (skipn 24 (cm_index_ser a b c d))) = d.
Proof.
  intros Ha Hb Hc Hd. unfold cm_index_ser. split; [rewrite !lenN_app, !lenN_le64; reflexivity|].
  split; [rewrite firstn_app_l by (rewrite le64_length; reflexivity); apply de_le64; exact Ha|].
  split.
  { rewrite skipn_app_l by (rewrite le64_length; reflexivity).
    rewrite firstn_app_l by (rewrite le64_length; reflexivity). apply de_le64; exact Hb. }
  split.
  { rewrite (app_assoc (le64 a)). rewrite skipn_app_l by (rewrite app_length, !le64_length; reflexivity).
    rewrite firstn_app_l by (rewrite le64_length; reflexivity). apply de_le64; exact Hc. }
  rewrite (app_assoc (le64 a)), (app_assoc (le64 a ++ le64 b)).
  rewrite skipn_app_l by (rewrite !app_length, !le64_length; reflexivity).
  rewrite firstn_all2 by (rewrite le64_length; lia). apply de_le64; exact Hd.
Qed.

Section MapProofs.
  Variables K V : Type.
  Variable EK : cv_elem K.
  Variable EV : cv_elem V.
  Variable LK : elem_law EK.
  Variable LV : elem_law EV.
  Variable fl : bool.

  Notation vrepS := (vrep cm_st ce_state law_state).
  Notation vrepK := (vrep K EK LK).
  Notation vrepV := (vrep V EV LV).
  Notation footS := (foot cm_st ce_state law_state).
  Notation footK := (foot K EK LK).
  Notation footV := (foot V EV LV).

  Definition mfoot (d : cm_data) (ss ks vs : list bytes) : list N :=
    cm_index d :: footS (cm_states d) ss ++ footK (cm_keys d) ks ++ footV (cm_values d) vs.

  Record msep (g : heap) (d : cm_data) (ss ks vs : list bytes) (ls : list cm_st) (lk : list K) (lv : list V) : Prop := {
    ms_rec : g (cm_index d) = Some (cm_index_ser (cm_len d) (cv_index (cm_states d)) (cv_index (cm_keys d)) (cv_index (cm_values d)));
    ms_s : vrepS g (cm_states d) ss ls;
    ms_k : vrepK g (cm_keys d) ks lk;
    ms_v : vrepV g (cm_values d) vs lv;
    ms_bounds : cm_len d < two64 /\ cv_index (cm_states d) < two64 /\ cv_index (cm_keys d) < two64 /\ cv_index (cm_values d) < two64;
    ms_nodup : NoDup (mfoot d ss ks vs)
  }.

  Record mrep (g : heap) (d : cm_data) (ss ks vs : list bytes) (t : cm_table K V) : Prop := {
    mr_sep : msep g d ss ks vs (ct_states t) (ct_keys t) (ct_values t);
    mr_len : cm_len d = ct_len t;
    mr_same : length (ct_keys t) = length (ct_states t) /\ length (ct_values t) = length (ct_states t)
  }.

  Lemma msep_live g d ss ks vs ls lk lv : msep g d ss ks vs ls lk lv -> live_all g (mfoot d ss ks vs).
  Proof.
    intros H. unfold mfoot. intros j [<-|Hj].
    - rewrite (ms_rec _ _ _ _ _ _ _ _ H). discriminate.
    - apply in_app_or in Hj. destruct Hj as [Hj|Hj]; [exact (vrep_live _ _ _ _ _ _ _ (ms_s _ _ _ _ _ _ _ _ H) j Hj)|].
      apply in_app_or in Hj. destruct Hj as [Hj|Hj]; [exact (vrep_live _ _ _ _ _ _ _ (ms_k _ _ _ _ _ _ _ _ H) j Hj)|
                                                     exact (vrep_live _ _ _ _ _ _ _ (ms_v _ _ _ _ _ _ _ _ H) j Hj)].
  Qed.

  Lemma msep_heq g g' d ss ks vs ls lk lv : msep g d ss ks vs ls lk lv -> heq g' g -> msep g' d ss ks vs ls lk lv.
  Proof.
    intros [H1 H2 H3 H4 H5 H6] Hm. constructor; auto; try (eapply vrep_heq; eauto). rewrite Hm. exact H1.
  Qed.

  Definition with_s (d : cm_data) (h : cv_vec) : cm_data := cm_with d (cm_len d) h (cm_keys d) (cm_values d).
  Definition with_k (d : cm_data) (h : cv_vec) : cm_data := cm_with d (cm_len d) (cm_states d) h (cm_values d).
  Definition with_v (d : cm_data) (h : cv_vec) : cm_data := cm_with d (cm_len d) (cm_states d) (cm_keys d) h.

  (* ---- an operation on one of the three vectors ---- *)
  Lemma msep_update_s g g' d ss ks vs ls lk lv h' ss' ls' :
    msep g d ss ks vs ls lk lv -> cv_index h' = cv_index (cm_states d) ->
    vrepS g' h' ss' ls' -> frame g g' (footS (cm_states d) ss) (footS h' ss') ->
    msep g' (with_s d h') ss' ks vs ls' lk lv /\ frame g g' (mfoot d ss ks vs) (mfoot (with_s d h') ss' ks vs).
  Proof.
    intros H Hi HR' Hf. pose proof (msep_live _ _ _ _ _ _ _ _ H) as Hl. pose proof (ms_nodup _ _ _ _ _ _ _ _ H) as Hnd.
    unfold mfoot in Hl, Hnd.
    destruct (sep_update g g' [cm_index d] _ _ (footK (cm_keys d) ks ++ footV (cm_values d) vs) Hf Hnd) as (N' & F' & Same).
    { intros j Hj. apply Hl. cbn [app] in *. destruct Hj as [<-|Hj]; [left; reflexivity|]. right. apply in_or_app. right. exact Hj. }
    { eapply vrep_nodup; exact HR'. }
    split; [|exact F'].
    constructor; cbn [with_s cm_with cm_index cm_len cm_states cm_keys cm_values].
    - rewrite Same by (left; reflexivity). rewrite Hi. exact (ms_rec _ _ _ _ _ _ _ _ H).
    - exact HR'.
    - eapply vrep_transport; [exact (ms_k _ _ _ _ _ _ _ _ H)|]. intros j Hj. apply Same. cbn [app]. right. apply in_or_app. left. exact Hj.
    - eapply vrep_transport; [exact (ms_v _ _ _ _ _ _ _ _ H)|]. intros j Hj. apply Same. cbn [app]. right. apply in_or_app. right. exact Hj.
    - rewrite Hi. exact (ms_bounds _ _ _ _ _ _ _ _ H).
    - exact N'.
  Qed.

  Lemma msep_update_k g g' d ss ks vs ls lk lv h' ks' lk' :
    msep g d ss ks vs ls lk lv -> cv_index h' = cv_index (cm_keys d) ->
    vrepK g' h' ks' lk' -> frame g g' (footK (cm_keys d) ks) (footK h' ks') ->
    msep g' (with_k d h') ss ks' vs ls lk' lv /\ frame g g' (mfoot d ss ks vs) (mfoot (with_k d h') ss ks' vs).
  Proof.
    intros H Hi HR' Hf. pose proof (msep_live _ _ _ _ _ _ _ _ H) as Hl. pose proof (ms_nodup _ _ _ _ _ _ _ _ H) as Hnd.
    unfold mfoot in Hl, Hnd.
    destruct (sep_update g g' (cm_index d :: footS (cm_states d) ss) _ _ (footV (cm_values d) vs) Hf Hnd) as (N' & F' & Same).
    { intros j Hj. apply Hl. cbn [app] in *. destruct Hj as [<-|Hj]; [left; reflexivity|]. right.
      apply in_app_or in Hj. apply in_or_app. destruct Hj as [Hj|Hj]; [left; exact Hj|right; apply in_or_app; right; exact Hj]. }
    { eapply vrep_nodup; exact HR'. }
    split; [|exact F'].
    constructor; cbn [with_k cm_with cm_index cm_len cm_states cm_keys cm_values].
    - rewrite Same by (left; reflexivity). rewrite Hi. exact (ms_rec _ _ _ _ _ _ _ _ H).
    - eapply vrep_transport; [exact (ms_s _ _ _ _ _ _ _ _ H)|]. intros j Hj. apply Same. cbn [app]. right. apply in_or_app. left. exact Hj.
    - exact HR'.
    - eapply vrep_transport; [exact (ms_v _ _ _ _ _ _ _ _ H)|]. intros j Hj. apply Same. cbn [app]. right. apply in_or_app. right. exact Hj.
    - rewrite Hi. exact (ms_bounds _ _ _ _ _ _ _ _ H).
    - exact N'.
  Qed.

  Lemma msep_update_v g g' d ss ks vs ls lk lv h' vs' lv' :
    msep g d ss ks vs ls lk lv -> cv_index h' = cv_index (cm_values d) ->
    vrepV g' h' vs' lv' -> frame g g' (footV (cm_values d) vs) (footV h' vs') ->
    msep g' (with_v d h') ss ks vs' ls lk lv' /\ frame g g' (mfoot d ss ks vs) (mfoot (with_v d h') ss ks vs').
  Proof.
    intros H Hi HR' Hf. pose proof (msep_live _ _ _ _ _ _ _ _ H) as Hl. pose proof (ms_nodup _ _ _ _ _ _ _ _ H) as Hnd.
    unfold mfoot in Hl, Hnd.
    assert (Esh : forall X : list N, cm_index d :: footS (cm_states d) ss ++ footK (cm_keys d) ks ++ X
                                     = (cm_index d :: footS (cm_states d) ss ++ footK (cm_keys d) ks) ++ X ++ []).
    { intros X. rewrite app_nil_r. cbn [app]. rewrite <- app_assoc. reflexivity. }
    rewrite Esh in Hnd.
    destruct (sep_update g g' (cm_index d :: footS (cm_states d) ss ++ footK (cm_keys d) ks) _ _ [] Hf Hnd) as (N' & F' & Same).
    { rewrite app_nil_r. intros j Hj. apply Hl. cbn [app] in *. destruct Hj as [<-|Hj]; [left; reflexivity|]. right.
      apply in_app_or in Hj. apply in_or_app. destruct Hj as [Hj|Hj]; [left; exact Hj|right; apply in_or_app; left; exact Hj]. }
    { eapply vrep_nodup; exact HR'. }
    rewrite <- !Esh in F'. rewrite <- Esh in N'. rewrite app_nil_r in Same.
    split; [|exact F'].
    constructor; cbn [with_v cm_with cm_index cm_len cm_states cm_keys cm_values].
    - rewrite Same by (left; reflexivity). rewrite Hi. exact (ms_rec _ _ _ _ _ _ _ _ H).
    - eapply vrep_transport; [exact (ms_s _ _ _ _ _ _ _ _ H)|]. intros j Hj. apply Same. cbn [app]. right. apply in_or_app. left. exact Hj.
    - eapply vrep_transport; [exact (ms_k _ _ _ _ _ _ _ _ H)|]. intros j Hj. apply Same. cbn [app]. right. apply in_or_app. right. exact Hj.
    - exact HR'.
    - rewrite Hi. exact (ms_bounds _ _ _ _ _ _ _ _ H).
    - exact N'.
  Qed.

  (* ---- set_len: only the index record changes ---- *)
  Lemma cm_set_len_spec d ss ks vs ls lk lv n sp (Q : cres cm_data -> spec -> Prop) :
    msep (hp sp) d ss ks vs ls lk lv -> n < two64 ->
    (forall sp', msep (hp sp') (cm_with d n (cm_states d) (cm_keys d) (cm_values d)) ss ks vs ls lk lv -> sdepth sp' = sdepth sp ->
        frame (hp sp) (hp sp') (mfoot d ss ks vs) (mfoot d ss ks vs) ->
        Q (CrOk (cm_with d n (cm_states d) (cm_keys d) (cm_values d))) sp') ->
    cwp fl (cm_set_len d n) sp Q.
  Proof.
    intros H Hn HQ. unfold cm_set_len. apply cwp_bind.
    pose proof (ms_rec _ _ _ _ _ _ _ _ H) as Hrec. unfold cm_index_ser in Hrec.
    eapply wr_header; [exact Hrec|]. intros sp' Hm Hd. cbn [kont cwp].
    pose proof (ms_nodup _ _ _ _ _ _ _ _ H) as Hnd. unfold mfoot in Hnd. apply NoDup_cons_iff in Hnd. destruct Hnd as [Hx _].
    assert (Same : forall j, In j (footS (cm_states d) ss ++ footK (cm_keys d) ks ++ footV (cm_values d) vs) -> hp sp' j = hp sp j).
    { intros j Hj. rewrite Hm. apply hupd_other. intros Ej. subst j. contradiction. }
    apply HQ; [|exact Hd|].
    - constructor; cbn [cm_with cm_index cm_len cm_states cm_keys cm_values].
      + rewrite Hm. apply hupd_same.
      + eapply vrep_transport; [exact (ms_s _ _ _ _ _ _ _ _ H)|]. intros j Hj. apply Same. apply in_or_app. left. exact Hj.
      + eapply vrep_transport; [exact (ms_k _ _ _ _ _ _ _ _ H)|]. intros j Hj. apply Same. apply in_or_app. right. apply in_or_app. left. exact Hj.
      + eapply vrep_transport; [exact (ms_v _ _ _ _ _ _ _ _ H)|]. intros j Hj. apply Same. apply in_or_app. right. apply in_or_app. right. exact Hj.
      + destruct (ms_bounds _ _ _ _ _ _ _ _ H) as (_ & B). split; [exact Hn|exact B].
      + exact (ms_nodup _ _ _ _ _ _ _ _ H).
    - eapply frame_hupd; [|exact Hm]. left; reflexivity.
  Qed.

  (* ---- DbMapData::from_storage: the reload ---- *)
  Lemma cm_from_storage_spec d ss ks vs ls lk lv sp (Q : cres cm_data -> spec -> Prop) :
    msep (hp sp) d ss ks vs ls lk lv ->
    (forall d', msep (hp sp) d' ss ks vs ls lk lv -> cm_index d' = cm_index d -> cm_len d' = cm_len d ->
        cv_len (cm_states d') = cv_len (cm_states d) ->
        mfoot d' ss ks vs = mfoot d ss ks vs -> Q (CrOk d') sp) ->
    cwp fl (cm_from_storage K V EK EV (cm_index d)) sp Q.
  Proof.
    intros H HQ. unfold cm_from_storage.
    destruct (ms_bounds _ _ _ _ _ _ _ _ H) as (B1 & B2 & B3 & B4).
    destruct (index_ser_parts _ _ _ _ B1 B2 B3 B4) as (P0 & P1 & P2 & P3 & P4).
    apply cwp_bind. eapply cwp_value; [exact (ms_rec _ _ _ _ _ _ _ _ H)|]. cbn [kont].
    rewrite P0. replace (32 <? 32) with false by reflexivity. rewrite P1, P2, P3, P4.
    apply cwp_bind. eapply cv_from_storage_spec; [exact (ms_s _ _ _ _ _ _ _ _ H)|]. intros hs Hs Is Ls. cbn [kont].
    apply cwp_bind. eapply cv_from_storage_spec; [exact (ms_k _ _ _ _ _ _ _ _ H)|]. intros hk Hk Ik Lk. cbn [kont].
    apply cwp_bind. eapply cv_from_storage_spec; [exact (ms_v _ _ _ _ _ _ _ _ H)|]. intros hv Hv Iv Lv. cbn [kont cwp].
    assert (Ef : mfoot {| cm_index := cm_index d; cm_len := cm_len d; cm_states := hs; cm_keys := hk; cm_values := hv |} ss ks vs = mfoot d ss ks vs).
    { unfold mfoot, foot. cbn [cm_index cm_states cm_keys cm_values]. rewrite Is, Ik, Iv. reflexivity. }
    apply HQ; cbn [cm_index cm_len cm_states]; auto.
    constructor; cbn [cm_index cm_len cm_states cm_keys cm_values]; auto.
    - rewrite Is, Ik, Iv. exact (ms_rec _ _ _ _ _ _ _ _ H).
    - rewrite Is, Ik, Iv. auto.
    - rewrite Ef. exact (ms_nodup _ _ _ _ _ _ _ _ H).
  Qed.

  (* ---- DbMapData::new ---- *)
  Lemma cm_new_spec sp (Q : cres cm_data -> spec -> Prop) :
    (forall d sp', msep (hp sp') d [] [] [] [] [] [] -> cm_len d = 0 -> sdepth sp' = sdepth sp ->
        (forall j, In j (mfoot d [] [] []) -> hp sp j = None) ->
        (forall j, ~ In j (mfoot d [] [] []) -> hp sp' j = hp sp j) -> Q (CrOk d) sp') ->
    cwp fl cm_new sp Q.
  Proof.
    intros HQ. unfold cm_new.
    apply cwp_bind. apply (cv_new_spec cm_st ce_state law_state fl). intros hs sp1 Rs Zs Bs Ns Ds Fs. cbn [kont].
    apply cwp_bind. apply (cv_new_spec K EK LK fl). intros hk sp2 Rk Zk Bk Nk Dk Fk. cbn [kont].
    apply cwp_bind. apply (cv_new_spec V EV LV fl). intros hv sp3 Rv Zv Bv Nv Dv Fv. cbn [kont].
    apply cwp_bind. apply hwp_insert. intros i sp4 Zi Bi Ni Hm Dd. cbn [kont cwp].
    (* the heaps: each step adds one record *)
    destruct Fs as (Fs1 & _ & _). destruct Fk as (Fk1 & _ & _). destruct Fv as (Fv1 & _ & _).
    unfold foot in *. cbn [owned flat_map In] in *.
    assert (Ls1 : hp sp1 (cv_index hs) <> None) by (apply (vrep_live _ _ _ _ _ _ _ Rs); left; reflexivity).
    assert (Lk2 : hp sp2 (cv_index hk) <> None) by (apply (vrep_live _ _ _ _ _ _ _ Rk); left; reflexivity).
    assert (Lv3 : hp sp3 (cv_index hv) <> None) by (apply (vrep_live _ _ _ _ _ _ _ Rv); left; reflexivity).
    assert (Esk : cv_index hs <> cv_index hk) by (intros E; rewrite E in Ls1; contradiction).
    assert (Hs2 : hp sp2 (cv_index hs) = hp sp1 (cv_index hs)) by (apply Fk1; [tauto|intros [X|[]]; congruence]).
    assert (Esv : cv_index hs <> cv_index hv) by (intros E; rewrite E, Nv in Hs2; congruence).
    assert (Ekv : cv_index hk <> cv_index hv) by (intros E; rewrite E in Lk2; contradiction).
    assert (Hs3 : hp sp3 (cv_index hs) = hp sp2 (cv_index hs)) by (apply Fv1; [tauto|intros [X|[]]; congruence]).
    assert (Hk3 : hp sp3 (cv_index hk) = hp sp2 (cv_index hk)) by (apply Fv1; [tauto|intros [X|[]]; congruence]).
    assert (Eis : i <> cv_index hs) by (intros E; rewrite E, Hs3, Hs2 in Ni; contradiction).
    assert (Eik : i <> cv_index hk) by (intros E; rewrite E, Hk3 in Ni; contradiction).
    assert (Eiv : i <> cv_index hv) by (intros E; rewrite E in Ni; contradiction).
    assert (H4 : forall j, j <> i -> hp sp4 j = hp sp3 j) by (intros j Hj; rewrite Hm; apply hupd_other; congruence).
    set (d := {| cm_index := i; cm_len := 0; cm_states := hs; cm_keys := hk; cm_values := hv |}).
    assert (Hfoot : mfoot d [] [] [] = [i; cv_index hs; cv_index hk; cv_index hv]) by reflexivity.
    apply (HQ d sp4); [|reflexivity|lia| |].
    - constructor; cbn [d cm_index cm_len cm_states cm_keys cm_values].
      + rewrite Hm. apply hupd_same.
      + eapply vrep_transport; [exact Rs|]. intros j [<-|[]]. rewrite H4, Hs3, Hs2 by congruence. reflexivity.
      + eapply vrep_transport; [exact Rk|]. intros j [<-|[]]. rewrite H4, Hk3 by congruence. reflexivity.
      + eapply vrep_transport; [exact Rv|]. intros j [<-|[]]. rewrite H4 by congruence. reflexivity.
      + split; [reflexivity|]. auto.
      + rewrite Hfoot. repeat constructor; cbn [In]; intuition congruence.
    - rewrite Hfoot. cbn [In]. intros j [<-|[<-|[<-|[<-|[]]]]].
      + (* the index record: free in sp3, and nothing but the three vectors was added since sp *)
        rewrite <- (Fs1 i) by (cbn [In]; intuition congruence).
        rewrite <- (Fk1 i) by (cbn [In]; intuition congruence).
        rewrite <- (Fv1 i) by (cbn [In]; intuition congruence). exact Ni.
      + exact Ns.
      + rewrite <- (Fs1 (cv_index hk)) by (cbn [In]; intuition congruence). exact Nk.
      + rewrite <- (Fs1 (cv_index hv)) by (cbn [In]; intuition congruence).
        rewrite <- (Fk1 (cv_index hv)) by (cbn [In]; intuition congruence). exact Nv.
    - rewrite Hfoot. cbn [In]. intros j Hj.
      rewrite H4 by intuition congruence.
      rewrite (Fv1 j) by (cbn [In]; intuition congruence).
      rewrite (Fk1 j) by (cbn [In]; intuition congruence).
      apply Fs1; cbn [In]; intuition congruence.
  Qed.
End MapProofs.
