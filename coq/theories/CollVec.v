(* CollVec.v — proofs (collections, part 5): every operation of the storage-backed vector
   (vec.rs: DbVec::new / from_storage, VecImpl::push / remove / replace / swap / reserve /
   resize / shrink_to_fit / value / iter, DbVecData::remove_from_storage) refines the list
   operation it stands for, keeps the representation invariant `vrep`, leaves the transaction
   depth as it was and touches exactly its footprint (`frame`).

   vrep g h slots l:  the record g(index h) = le64 (len h) ++ concat slots ++ spare (spare
   bytes unconstrained), slot i represents l[i], len h = |l| <= capacity h, 8 + size * |l|
   fits in a u64, the index and the records owned by the slots are pairwise distinct. *)
From Agdb Require Import Bytes BytesProofs Records RecordsProofs Storage StorageSpec StorageLayout
  Collections CollWp CollBytes CollVecBase CollVecOps.
From Coq Require Import ZifyBool ZifyNat ZifyN Permutation.
Ltac Zify.zify_post_hook ::= Z.div_mod_to_equations.
Open Scope N_scope.
Arguments N.add : simpl never.
Arguments N.mul : simpl never.
Arguments N.sub : simpl never.
Arguments N.of_nat : simpl never.
Arguments N.to_nat : simpl never.
Arguments N.eqb : simpl never.
Arguments N.ltb : simpl never.
Arguments N.leb : simpl never.
Arguments N.div : simpl never.

Section Vec.
  Variable T : Type.
  Variable E : cv_elem T.
  Variable L : elem_law E.
  Variable fl : bool.

  Let sz := ce_size E.
  Let k := N.to_nat sz.

  Notation owned := (owned T E L).
  Notation vinv := (vinv T E L).
  Notation rep := (el_rep L).
  Notation own := (el_own L).

  Definition foot (h : cv_vec) (bss : list bytes) : list N := cv_index h :: owned bss.

  Record vrep (g : heap) (h : cv_vec) (bss : list bytes) (l : list T) : Prop := {
    vr_inv : vinv g (cv_index h) (cv_len h) bss l;
    vr_len : cv_len h = lenN l;
    vr_cap : cv_len h <= cv_cap h;
    vr_fits : 8 + sz * lenN l < two64
  }.

  Lemma vrep_lenN g h bss l : vrep g h bss l -> lenN bss = cv_len h.
  Proof. intros H. rewrite (vr_len _ _ _ _ H). unfold lenN. rewrite (vinv_lengths T E L _ _ _ _ _ (vr_inv _ _ _ _ H)). reflexivity. Qed.

  Lemma vrep_heq g g' h bss l : vrep g h bss l -> heq g' g -> vrep g' h bss l.
  Proof. intros [H1 H2 H3 H4] Hm. constructor; auto. eapply vinv_heq; eauto. Qed.

  (* ---------------- DbVec::new ---------------- *)
  Lemma cv_new_spec sp (Q : cres cv_vec -> spec -> Prop) :
    (forall h sp', vrep (hp sp') h [] [] -> cv_index h <> 0 -> cv_index h < two64 -> hp sp (cv_index h) = None -> sdepth sp' = sdepth sp ->
        frame (hp sp) (hp sp') [] (foot h []) -> Q (CrOk h) sp') ->
    cwp fl cv_new sp Q.
  Proof.
    intros HQ. unfold cv_new. apply cwp_bind. apply hwp_insert. intros i sp' Hi Hlt Hn Hm Hd. cbn [kont cwp].
    apply HQ; cbn [cv_index cv_len cv_cap]; auto.
    - constructor; cbn [cv_index cv_len cv_cap].
      + constructor.
        * exists []. rewrite Hm. cbn [concat app]. rewrite app_nil_r. apply hupd_same.
        * constructor.
        * cbn. constructor; [intros []|constructor].
      + reflexivity.
      + lia.
      + unfold lenN. cbn [length]. unfold two64. lia.
    - split; [|split]; intros j; unfold foot; cbn [owned flat_map In cv_index].
      + intros _ H. rewrite Hm. apply hupd_other. tauto.
      + intros [<-|[]] _. exact Hn.
      + intros [].
  Qed.

  (* ---------------- DbVecData::reallocate ---------------- *)
  Lemma cv_reallocate_spec h bss l c sp (Q : cres cv_vec -> spec -> Prop) :
    vrep (hp sp) h bss l -> cv_len h <= c ->
    (forall sp', vrep (hp sp') (cv_set_cap h c) bss l -> sdepth sp' = sdepth sp ->
        frame (hp sp) (hp sp') (foot h bss) (foot h bss) -> Q (CrOk (cv_set_cap h c)) sp') ->
    cwp fl (cv_reallocate T E h c) sp Q.
  Proof.
    intros HR Hc HQ. unfold cv_reallocate. apply cwp_bind.
    destruct (vinv_rec_get T E L _ _ _ _ _ (vr_inv _ _ _ _ HR)) as (spare & Hrec).
    eapply (wr_resize T E fl); [exact Hrec|eapply vinv_chunks; exact (vr_inv _ _ _ _ HR)|rewrite (vrep_lenN _ _ _ _ HR); exact Hc|].
    intros spare' sp' Hm Hd. cbn [kont cwp]. apply HQ; [|exact Hd|].
    - destruct HR as [H1 H2 H3 H4]. constructor; cbn [cv_set_cap cv_index cv_len cv_cap]; auto.
      eapply vinv_rewrite; eauto.
    - eapply frame_hupd; [|exact Hm]. left; reflexivity.
  Qed.

  (* ---------------- DbVecData::resize ---------------- *)
  Lemma cv_data_resize_spec h bss l new_len x sp (Q : cres cv_vec -> spec -> Prop) :
    vrep (hp sp) h bss l -> el_valid L x -> new_len <= cv_cap h -> 8 + sz * new_len < two64 ->
    (forall bss' sp', vrep (hp sp') (cv_set_len h new_len) bss' (cl_resize l (N.to_nat new_len) x) -> sdepth sp' = sdepth sp ->
        frame (hp sp) (hp sp') (foot h bss) (foot h bss') -> Q (CrOk (cv_set_len h new_len)) sp') ->
    cwp fl (cv_data_resize T E h new_len x) sp Q.
  Proof.
    intros HR Hv Hcap Hfit HQ. unfold cv_data_resize.
    pose proof (vrep_lenN _ _ _ _ HR) as HlenB. pose proof (vr_len _ _ _ _ HR) as HlenL.
    pose proof (vr_inv _ _ _ _ HR) as HI.
    apply cwp_bind. apply hwp_transaction. intros sp0 Hm0 Hd0. cbn [kont].
    assert (HI0 : vinv (hp sp0) (cv_index h) (cv_len h) bss l) by (eapply vinv_heq; eauto).
    assert (Hf0 : frame (hp sp) (hp sp0) (foot h bss) (foot h bss)) by (apply frame_refl; exact Hm0).
    destruct (N.le_gt_cases (cv_len h) new_len) as [Hge|Hlt].
    - (* grow (or keep) *)
      apply cwp_bind. rewrite <- HlenB.
      eapply (fill_spec T E L fl x Hv); [exact HI0|]. intros bss2 sp1 Hl2 HI1 Hd1 Hf1. cbn [kont].
      replace (N.to_nat (lenN bss - new_len)) with 0%nat by lia. cbn [cv_drop cbind].
      apply cwp_bind. destruct (vinv_rec_get T E L _ _ _ _ _ HI1) as (spare1 & Hrec1).
      eapply wr_header; [exact Hrec1|]. intros sp2 Hm2 Hd2. cbn [kont].
      apply cwp_bind. apply hwp_commit; [lia|lia|]. intros sp3 Hm3 Hd3. cbn [kont cwp].
      assert (Hl : cl_resize l (N.to_nat new_len) x = l ++ repeat x (N.to_nat (new_len - lenN bss))).
      { unfold cl_resize. rewrite firstn_all2 by (unfold lenN in *; lia). f_equal. f_equal. unfold lenN in *. lia. }
      apply (HQ (bss ++ bss2) sp3); [|lia|].
      + constructor; cbn [cv_set_len cv_index cv_len cv_cap].
        * rewrite Hl. eapply vinv_heq; [|exact Hm3]. eapply vinv_rewrite; [exact HI1|exact Hm2].
        * unfold lenN. rewrite cl_resize_length. lia.
        * exact Hcap.
        * unfold lenN. rewrite cl_resize_length. rewrite N2Nat.id. exact Hfit.
      + eapply frame_trans; [exact Hf0|]. eapply frame_trans; [exact Hf1|].
        eapply frame_trans; [eapply frame_hupd; [|exact Hm2]; left; reflexivity|]. apply frame_refl. exact Hm3.
    - (* shrink *)
      replace (N.to_nat (new_len - cv_len h)) with 0%nat by lia. cbn [cv_fill cbind].
      set (A := firstn (N.to_nat new_len) bss). set (B := skipn (N.to_nat new_len) bss).
      assert (HAB : bss = A ++ [] ++ B) by (cbn [app]; symmetry; apply firstn_skipn).
      destruct (vinv_rec_get T E L _ _ _ _ _ HI0) as (spare & Hrec0).
      apply cwp_bind.
      replace (N.to_nat (cv_len h - new_len)) with (length B) by (unfold B; rewrite skipn_length; unfold lenN in *; lia).
      replace new_len with (lenN (A ++ [])) at 1 by (rewrite app_nil_r; unfold A, lenN; rewrite firstn_length; unfold lenN in *; lia).
      eapply (drop_spec T E L fl B (skipn (N.to_nat new_len) l) (cv_index h) (cv_len h) A [] (firstn (N.to_nat new_len) l) spare).
      + rewrite <- HAB. exact Hrec0.
      + constructor.
      + apply elems_firstn. exact (vi_elems _ _ _ _ _ _ _ _ HI0).
      + apply elems_skipn. exact (vi_elems _ _ _ _ _ _ _ _ HI0).
      + rewrite <- owned_app. unfold A, B. rewrite firstn_skipn. exact (vi_nodup _ _ _ _ _ _ _ _ HI0).
      + intros sp1 Hrec1 HA1 Hd1 Hf1. cbn [kont].
        apply cwp_bind. eapply wr_header; [exact Hrec1|]. intros sp2 Hm2 Hd2. cbn [kont].
        apply cwp_bind. apply hwp_commit; [lia|lia|]. intros sp3 Hm3 Hd3. cbn [kont cwp].
        assert (Hl : cl_resize l (N.to_nat new_len) x = firstn (N.to_nat new_len) l).
        { unfold cl_resize. replace (N.to_nat new_len - length l)%nat with 0%nat by (unfold lenN in *; lia). cbn [repeat]. apply app_nil_r. }
        assert (HndA : NoDup (cv_index h :: owned A)).
        { eapply nodup_prefix. rewrite <- (firstn_skipn (N.to_nat new_len) bss) in HI0. exact (vi_nodup _ _ _ _ _ _ _ _ HI0). }
        apply (HQ A sp3); [|lia|].
        * constructor; cbn [cv_set_len cv_index cv_len cv_cap].
          -- rewrite Hl. constructor.
             ++ exists (concat B ++ spare). rewrite Hm3, Hm2, hupd_same. cbn [app]. rewrite concat_app, <- app_assoc. reflexivity.
             ++ eapply elems_transport; [exact HA1|]. intros j Hj. rewrite Hm3, Hm2. apply hupd_other.
                intros Ej. subst j. apply NoDup_cons_iff in HndA. tauto.
             ++ exact HndA.
          -- unfold lenN. rewrite cl_resize_length. lia.
          -- exact Hcap.
          -- unfold lenN. rewrite cl_resize_length. rewrite N2Nat.id. exact Hfit.
        * eapply frame_trans; [exact Hf0|]. unfold foot. rewrite (eq_sym (firstn_skipn (N.to_nat new_len) bss)) at 1.
          fold A B. rewrite owned_app.
          eapply frame_trans; [exact Hf1|].
          eapply frame_trans; [eapply frame_hupd; [|exact Hm2]; left; reflexivity|]. apply frame_refl. exact Hm3.
  Qed.
  (* ---------------- VecImpl::push / reserve / resize / shrink_to_fit ---------------- *)
  Lemma grow_cap_gt c : c < cv_grow_cap c.
  Proof.
    unfold cv_grow_cap. destruct (N.eqb_spec c 0); [lia|]. destruct (N.eqb_spec c 1); [lia|].
    assert (1 <= c / 2) by (apply N.div_le_lower_bound; lia). lia.
  Qed.

  Lemma cv_push_spec h bss l x sp (Q : cres cv_vec -> spec -> Prop) :
    vrep (hp sp) h bss l -> el_valid L x -> 8 + sz * (lenN l + 1) < two64 ->
    (forall h' bss' sp', vrep (hp sp') h' bss' (l ++ [x]) -> cv_index h' = cv_index h -> sdepth sp' = sdepth sp ->
        frame (hp sp) (hp sp') (foot h bss) (foot h' bss') -> Q (CrOk h') sp') ->
    cwp fl (cv_push T E h x) sp Q.
  Proof.
    intros HR Hv Hfit HQ. unfold cv_push. apply cwp_bind.
    pose proof (vr_len _ _ _ _ HR) as HlenL. pose proof (vr_cap _ _ _ _ HR) as Hcap.
    assert (Hres : forall l', cl_resize l (N.to_nat (lenN l + 1)) x = l' -> l' = l ++ [x]).
    { intros l' <-. unfold cl_resize. rewrite firstn_all2 by (unfold lenN; lia).
      replace (N.to_nat (lenN l + 1) - length l)%nat with 1%nat by (unfold lenN; lia). reflexivity. }
    destruct (N.eqb_spec (cv_len h) (cv_cap h)) as [Eq|Ne].
    - pose proof (grow_cap_gt (cv_cap h)) as Hg.
      eapply cv_reallocate_spec; [exact HR|lia|]. intros sp1 HR1 Hd1 Hf1. cbn [kont].
      eapply cv_data_resize_spec; [exact HR1|exact Hv|cbn [cv_set_cap cv_len cv_cap]; lia|cbn [cv_set_cap cv_len]; rewrite HlenL; exact Hfit|].
      intros bss' sp2 HR2 Hd2 Hf2. cbn [cv_set_cap cv_len] in HR2. rewrite HlenL in HR2.
      rewrite (Hres _ eq_refl) in HR2. cbn [cv_set_cap cv_len]. rewrite HlenL.
      eapply HQ; [exact HR2|reflexivity|congruence|]. eapply frame_trans; eassumption.
    - cbn [cwp kont].
      eapply cv_data_resize_spec; [exact HR|exact Hv|lia|rewrite HlenL; exact Hfit|].
      intros bss' sp2 HR2 Hd2 Hf2. rewrite HlenL in HR2. rewrite (Hres _ eq_refl) in HR2. rewrite HlenL.
      eapply HQ; [exact HR2|reflexivity|congruence|exact Hf2].
  Qed.

  Lemma cv_reserve_spec h bss l c sp (Q : cres cv_vec -> spec -> Prop) :
    vrep (hp sp) h bss l ->
    (forall h' sp', vrep (hp sp') h' bss l -> cv_index h' = cv_index h -> c <= cv_cap h' -> sdepth sp' = sdepth sp ->
        frame (hp sp) (hp sp') (foot h bss) (foot h' bss) -> Q (CrOk h') sp') ->
    cwp fl (cv_reserve T E h c) sp Q.
  Proof.
    intros HR HQ. unfold cv_reserve. pose proof (vr_cap _ _ _ _ HR) as Hcap.
    destruct (N.ltb_spec (cv_cap h) c) as [Lt|Ge].
    - eapply cv_reallocate_spec; [exact HR|lia|]. intros sp1 HR1 Hd1 Hf1.
      eapply HQ; [exact HR1|reflexivity|cbn [cv_set_cap cv_cap]; lia|exact Hd1|exact Hf1].
    - cbn [cwp]. eapply HQ; [exact HR|reflexivity|exact Ge|reflexivity|]. apply frame_refl. intros j; reflexivity.
  Qed.

  Lemma cv_resize_spec h bss l n x sp (Q : cres cv_vec -> spec -> Prop) :
    vrep (hp sp) h bss l -> el_valid L x -> 8 + sz * n < two64 ->
    (forall h' bss' sp', vrep (hp sp') h' bss' (cl_resize l (N.to_nat n) x) -> cv_index h' = cv_index h -> sdepth sp' = sdepth sp ->
        frame (hp sp) (hp sp') (foot h bss) (foot h' bss') -> Q (CrOk h') sp') ->
    cwp fl (cv_resize T E h n x) sp Q.
  Proof.
    intros HR Hv Hfit HQ. unfold cv_resize. apply cwp_bind.
    eapply cv_reserve_spec; [exact HR|]. intros h1 sp1 HR1 Hi1 Hc1 Hd1 Hf1. cbn [kont].
    eapply cv_data_resize_spec; [exact HR1|exact Hv|exact Hc1|exact Hfit|].
    intros bss' sp2 HR2 Hd2 Hf2.
    eapply HQ; [exact HR2|cbn [cv_set_len cv_index]; exact Hi1|congruence|].
    eapply frame_trans; [exact Hf1|]. exact Hf2.
  Qed.

  Lemma cv_shrink_spec h bss l sp (Q : cres cv_vec -> spec -> Prop) :
    vrep (hp sp) h bss l ->
    (forall h' sp', vrep (hp sp') h' bss l -> cv_index h' = cv_index h -> sdepth sp' = sdepth sp ->
        frame (hp sp) (hp sp') (foot h bss) (foot h' bss) -> Q (CrOk h') sp') ->
    cwp fl (cv_shrink_to_fit T E h) sp Q.
  Proof.
    intros HR HQ. unfold cv_shrink_to_fit. eapply cv_reallocate_spec; [exact HR|lia|].
    intros sp1 HR1 Hd1 Hf1. eapply HQ; [exact HR1|reflexivity|exact Hd1|exact Hf1].
  Qed.

  (* ---------------- reads ---------------- *)
  Lemma cv_validate_ok h i sp {A} (rest : cprog A) (Q : cres A -> spec -> Prop) :
    i < cv_len h -> cwp fl rest sp Q -> cwp fl (cv_validate h i ;;~ rest) sp Q.
  Proof. intros Hi H. unfold cv_validate. destruct (N.leb_spec (cv_len h) i); [lia|]. exact H. Qed.

  Lemma cv_validate_err h i sp {A} (rest : cprog A) (Q : cres A -> spec -> Prop) :
    cv_len h <= i -> Q (CrErr CvIndex) sp -> cwp fl (cv_validate h i ;;~ rest) sp Q.
  Proof. intros Hi H. unfold cv_validate. destruct (N.leb_spec (cv_len h) i); [|lia]. exact H. Qed.

  Lemma cv_read_slot_spec g h bss l i sp (Q : cres bytes -> spec -> Prop) :
    vrep g h bss l -> heq (hp sp) g -> i < cv_len h ->
    Q (CrOk (nth (N.to_nat i) bss [])) sp -> cwp fl (cv_read_slot T E h i) sp Q.
  Proof.
    intros HR Hm Hi HQ. unfold cv_read_slot.
    destruct (vinv_rec_get T E L _ _ _ _ _ (vr_inv _ _ _ _ HR)) as (spare & Hrec).
    eapply (rd_slot T E fl); [rewrite Hm; exact Hrec|eapply vinv_chunks; exact (vr_inv _ _ _ _ HR)| |exact HQ].
    pose proof (vrep_lenN _ _ _ _ HR). unfold lenN in *. lia.
  Qed.

  Lemma vrep_nth g h bss l i : vrep g h bss l -> i < cv_len h ->
    exists x, nth_error l (N.to_nat i) = Some x /\ rep g (nth (N.to_nat i) bss []) x.
  Proof.
    intros HR Hi. pose proof (vr_len _ _ _ _ HR) as HL.
    destruct (nth_error_lt_Some l (N.to_nat i)) as (x & Hx); [unfold lenN in HL; lia|].
    exists x. split; [exact Hx|]. eapply elems_nth; [exact (vi_elems _ _ _ _ _ _ _ _ (vr_inv _ _ _ _ HR))|exact Hx].
  Qed.

  Lemma cv_value_spec h bss l i sp (Q : cres T -> spec -> Prop) :
    vrep (hp sp) h bss l ->
    match nth_error l (N.to_nat i) with
    | Some x => Q (CrOk x) sp
    | None => Q (CrErr CvIndex) sp
    end ->
    cwp fl (cv_value T E h i) sp Q.
  Proof.
    intros HR HQ. unfold cv_value. pose proof (vr_len _ _ _ _ HR) as HL.
    destruct (N.lt_ge_cases i (cv_len h)) as [Hi|Hi].
    - apply cv_validate_ok; [exact Hi|]. destruct (vrep_nth _ _ _ _ _ HR Hi) as (x & Hx & Hrep). rewrite Hx in HQ.
      apply cwp_bind. eapply cv_read_slot_spec; [exact HR|intros j; reflexivity|exact Hi|]. cbn [kont].
      eapply (el_load E L); [exact Hrep|exact HQ].
    - apply cv_validate_err; [exact Hi|].
      destruct (nth_error l (N.to_nat i)) eqn:En; [|exact HQ].
      apply nth_error_Some_lt in En. unfold lenN in HL. lia.
  Qed.

  Lemma cv_iter_spec h bss l sp : vrep (hp sp) h bss l ->
    forall fuel i (Q : cres (list T) -> spec -> Prop),
    (length l - N.to_nat i < fuel)%nat -> Q (CrOk (skipn (N.to_nat i) l)) sp -> cwp fl (cv_iter T E h fuel i) sp Q.
  Proof.
    intros HR. induction fuel as [|f IH]; intros i Q Hf HQ; [lia|]. cbn [cv_iter].
    apply cwp_bind. apply cwp_try. eapply cv_value_spec; [exact HR|].
    destruct (nth_error l (N.to_nat i)) as [x|] eqn:En; cbn [kont cwp].
    - apply cwp_bind. apply IH.
      + apply nth_error_Some_lt in En. lia.
      + cbn [kont cwp]. replace (N.to_nat (i + 1)) with (S (N.to_nat i)) by lia.
        assert (Hs : skipn (N.to_nat i) l = x :: skipn (S (N.to_nat i)) l).
        { clear - En. revert En. generalize (N.to_nat i). intros n. revert l. induction n as [|n IHn]; intros [|y t]; cbn [nth_error skipn]; try discriminate.
          - intros [= ->]. reflexivity.
          - apply IHn. }
        rewrite Hs in HQ. exact HQ.
    - apply nth_error_None in En. rewrite skipn_all2 in HQ by exact En. exact HQ.
  Qed.

  Lemma cv_values_spec h bss l sp (Q : cres (list T) -> spec -> Prop) :
    vrep (hp sp) h bss l -> Q (CrOk l) sp -> cwp fl (cv_values T E h) sp Q.
  Proof.
    intros HR HQ. unfold cv_values. eapply cv_iter_spec; [exact HR| |exact HQ].
    pose proof (vr_len _ _ _ _ HR) as HL. unfold lenN in HL. lia.
  Qed.

  (* ---------------- DbVec::from_storage: the reload ---------------- *)
  Lemma cv_from_storage_spec h bss l sp (Q : cres cv_vec -> spec -> Prop) :
    vrep (hp sp) h bss l ->
    (forall h', vrep (hp sp) h' bss l -> cv_index h' = cv_index h -> cv_len h' = cv_len h -> Q (CrOk h') sp) ->
    cwp fl (cv_from_storage T E (cv_index h)) sp Q.
  Proof.
    intros HR HQ. unfold cv_from_storage.
    pose proof (vr_inv _ _ _ _ HR) as HI. destruct (vinv_rec_get T E L _ _ _ _ _ HI) as (spare & Hrec).
    pose proof (vr_len _ _ _ _ HR) as HL. pose proof (vr_fits _ _ _ _ HR) as HF. fold sz in HF.
    pose proof (vrep_lenN _ _ _ _ HR) as HB. pose proof (sz_pos T E L) as Hsz. fold sz in Hsz.
    assert (Hc : chunks k bss) by (eapply vinv_chunks; exact HI).
    apply cwp_bind. eapply cwp_value; [exact Hrec|]. cbn [kont].
    apply cwp_bind. apply cwp_de64; [rewrite lenN_app, lenN_le64; lia|]. cbn [kont].
    rewrite firstn_app_l by (rewrite le64_length; reflexivity).
    assert (Hlt : cv_len h < two64) by (rewrite HL; nia).
    rewrite (de_le64 _ Hlt).
    apply cwp_bind. eapply cwp_value_size; [exact Hrec|]. cbn [kont].
    rewrite (rec_len T E) by exact Hc. fold sz. rewrite HB.
    destruct (N.leb_spec two64 (cv_len h * sz)) as [X|_]; [nia|].
    destruct (N.leb_spec two64 (cv_len h * sz + 8)) as [X|_]; [nia|].
    destruct (N.ltb_spec (8 + sz * cv_len h + lenN spare) (cv_len h * sz + 8)) as [X|_]; [nia|].
    cbn [orb cwp]. apply HQ; cbn [cv_index cv_len cv_cap]; try reflexivity.
    constructor; cbn [cv_index cv_len cv_cap]; [exact HI|exact HL| |exact (vr_fits _ _ _ _ HR)].
    apply N.div_le_lower_bound; [lia|nia].
  Qed.

  (* ---------------- VecImpl::replace ---------------- *)
  Lemma cv_replace_spec h bss l i x sp (Q : cres T -> spec -> Prop) :
    vrep (hp sp) h bss l -> el_valid L x ->
    match nth_error l (N.to_nat i) with
    | Some old => forall bss' sp', vrep (hp sp') h bss' (cl_upd l (N.to_nat i) x) -> sdepth sp' = sdepth sp ->
                    frame (hp sp) (hp sp') (foot h bss) (foot h bss') -> Q (CrOk old) sp'
    | None => Q (CrErr CvIndex) sp
    end ->
    cwp fl (cv_replace T E h i x) sp Q.
  Proof.
    intros HR Hv HQ. unfold cv_replace. pose proof (vr_len _ _ _ _ HR) as HL.
    destruct (N.lt_ge_cases i (cv_len h)) as [Hi|Hi].
    2:{ apply cv_validate_err; [exact Hi|]. destruct (nth_error l (N.to_nat i)) eqn:En; [|exact HQ].
        apply nth_error_Some_lt in En. unfold lenN in HL. lia. }
    apply cv_validate_ok; [exact Hi|]. destruct (vrep_nth _ _ _ _ _ HR Hi) as (old & Hx & Hrep). rewrite Hx in HQ.
    pose proof (vr_inv _ _ _ _ HR) as HI. pose proof (vrep_lenN _ _ _ _ HR) as HB.
    assert (Hin : (N.to_nat i < length bss)%nat) by (unfold lenN in HB; lia).
    set (bi := nth (N.to_nat i) bss []) in *.
    apply cwp_bind. eapply cv_read_slot_spec; [exact HR|intros j; reflexivity|exact Hi|]. cbn [kont]. fold bi.
    apply cwp_bind. eapply (el_load E L); [exact Hrep|]. cbn [kont].
    apply cwp_bind. apply hwp_transaction. intros sp0 Hm0 Hd0. cbn [kont].
    assert (Hrep0 : rep (hp sp0) bi old) by (eapply (el_local E L); [exact Hrep|intros j _; apply Hm0]).
    apply cwp_bind. eapply (el_remove E L); [exact Hrep0|]. intros sp1 Hd1 Hfree1 Hsame1. cbn [kont].
    apply cwp_bind. apply (el_store E L); [exact Hv|]. intros b sp2 Hb Hd2 Hfresh2 Hsame2. cbn [kont].
    (* footprint facts about the old slots *)
    pose proof (vi_nodup _ _ _ _ _ _ _ _ HI) as Hnd. pose proof Hnd as Hnd'.
    rewrite (owned_split T E L bss _ Hin) in Hnd'. fold bi in Hnd'.
    apply NoDup_cons_iff in Hnd'. destruct Hnd' as [Hidx Hnd'].
    apply NoDup_app_iff in Hnd'. destruct Hnd' as (N1 & N2 & N3). apply NoDup_app_iff in N2. destruct N2 as (N4 & N5 & N6).
    assert (Hidx_bi : ~ In (cv_index h) (own bi)) by (intros I; apply Hidx; apply in_or_app; right; apply in_or_app; auto).
    destruct (vinv_rec_get T E L _ _ _ _ _ HI) as (spare & Hrec).
    assert (Hrec1 : hp sp1 (cv_index h) = Some (le64 (cv_len h) ++ concat bss ++ spare)) by (rewrite (Hsame1 _ Hidx_bi), Hm0; exact Hrec).
    assert (Hidx_b : ~ In (cv_index h) (own b)) by (intros I; rewrite (Hfresh2 _ I) in Hrec1; discriminate).
    assert (Hrec2 : hp sp2 (cv_index h) = Some (le64 (cv_len h) ++ concat bss ++ spare)) by (rewrite (Hsame2 _ Hidx_b); exact Hrec1).
    assert (Hlb : length b = k).
    { pose proof (el_len E L _ _ _ Hb) as X. unfold lenN in X. unfold k, sz. lia. }
    apply cwp_bind. eapply (wr_slot T E fl); [exact Hrec2|eapply vinv_chunks; exact HI|exact Hin|exact Hlb|].
    intros sp3 Hm3 Hd3. cbn [kont].
    apply cwp_bind. apply hwp_commit; [lia|lia|]. intros sp4 Hm4 Hd4. cbn [kont cwp].
    (* the other slots keep their records *)
    assert (Hother : forall j, In j (owned (firstn (N.to_nat i) bss)) \/ In j (owned (skipn (S (N.to_nat i)) bss)) ->
                       hp sp4 j = hp sp j /\ ~ In j (own b)).
    { intros j Hj.
      assert (Hjo : In j (owned bss)) by (destruct Hj; [eapply owned_firstn_in|eapply owned_skipn_in]; eauto).
      assert (Hjl : hp sp j <> None) by (eapply elems_live; [exact (vi_elems _ _ _ _ _ _ _ _ HI)|exact Hjo]).
      assert (Hjbi : ~ In j (own bi)).
      { intros I. destruct Hj as [Hj|Hj]; [apply (N3 j Hj); apply in_or_app; auto|apply (N6 j I Hj)]. }
      assert (Hj1 : hp sp1 j = hp sp j) by (rewrite (Hsame1 _ Hjbi); apply Hm0).
      assert (Hjb : ~ In j (own b)) by (intros I; apply Hjl; rewrite <- Hj1; apply Hfresh2; exact I).
      split; [|exact Hjb].
      rewrite Hm4, Hm3, hupd_other by (intros Ej; subst j; apply (nodup_head_in _ _ Hnd); exact Hjo).
      rewrite (Hsame2 _ Hjb). exact Hj1. }
    pose proof (vi_elems _ _ _ _ _ _ _ _ HI) as HE.
    assert (Hli : (N.to_nat i < length l)%nat) by (eapply nth_error_Some_lt; eauto).
    eapply (HQ (cl_upd bss (N.to_nat i) b) sp4); [|lia|].
    - constructor; [|rewrite HL; unfold lenN; rewrite cl_upd_length; reflexivity|exact (vr_cap _ _ _ _ HR)|
                    unfold lenN; rewrite cl_upd_length; exact (vr_fits _ _ _ _ HR)].
      constructor.
      + exists spare. rewrite Hm4, Hm3. apply hupd_same.
      + rewrite (cl_upd_split bss _ b Hin), (cl_upd_split l _ x Hli). apply Forall2_app; [|constructor].
        * eapply elems_transport; [apply elems_firstn; exact HE|]. intros j Hj. exact (proj1 (Hother j (or_introl Hj))).
        * eapply (el_local E L); [exact Hb|]. intros j Hj. rewrite Hm4, Hm3. apply hupd_other. intros Ej; subst j. contradiction.
        * eapply elems_transport; [apply elems_skipn; exact HE|]. intros j Hj. exact (proj1 (Hother j (or_intror Hj))).
      + apply nodup_upd; [exact Hin|exact Hnd|eapply (el_nodup E L); exact Hb|].
        intros j Hj. split; [intros Ej; subst j; contradiction|].
        split; intros I; [destruct (Hother j (or_introl I)) as [_ X]|destruct (Hother j (or_intror I)) as [_ X]]; contradiction.
    - unfold foot. rewrite (owned_upd T E L bss _ b Hin), (owned_split T E L bss _ Hin). fold bi.
      set (P := owned (firstn (N.to_nat i) bss)) in *. set (S' := owned (skipn (S (N.to_nat i)) bss)) in *.
      split; [|split]; intros j; cbn [In]; rewrite !in_app_iff; intros H1 H2.
      + assert (j <> cv_index h) by (intros ->; tauto).
        rewrite Hm4, Hm3, hupd_other by congruence.
        rewrite (Hsame2 j) by tauto. rewrite (Hsame1 j) by tauto. apply Hm0.
      + assert (Hjb : In j (own b)) by tauto.
        rewrite <- Hm0. rewrite <- (Hsame1 j) by tauto. apply Hfresh2. exact Hjb.
      + assert (Hjb : In j (own bi)) by tauto. assert (j <> cv_index h) by (intros ->; tauto).
        rewrite Hm4, Hm3, hupd_other by congruence.
        rewrite (Hsame2 j) by tauto. apply Hfree1. exact Hjb.
  Qed.
End Vec.
