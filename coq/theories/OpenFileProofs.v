(* OpenFileProofs.v — C07: totality of the storage layer's open path (lemmas about OpenFile.v). *)
From Agdb Require Import Bytes BytesProofs OpenFile.
From Coq Require Import ZifyBool ZifyNat ZifyN.
Ltac Zify.zify_post_hook ::= Z.div_mod_to_equations.
Open Scope N_scope.
Arguments N.add : simpl never.
Arguments N.mul : simpl never.
Arguments N.sub : simpl never.
Arguments N.div : simpl never.
Arguments N.modulo : simpl never.
Arguments N.ltb : simpl never.
Arguments N.leb : simpl never.
Arguments N.eqb : simpl never.
Arguments N.min : simpl never.
Arguments N.max : simpl never.
Arguments N.of_nat : simpl never.
Arguments N.to_nat : simpl never.

(* ------------------------------------------------------------------ *)
(* outcome predicates                                                   *)
(* ------------------------------------------------------------------ *)

(* returns a value or an error: no panic, no allocation above the limit, no non-termination *)
Definition ok2 {A} (r : ores A) : Prop :=
  match r with OOk _ | OErr => True | _ => False end.

(* ... except for the one known class: the record table request, and then it really exceeds the limit *)
Definition okt (limit : N) {A} (r : ores A) : Prop :=
  match r with
  | OOk _ | OErr => True
  | OAlloc ATable n => limit < n
  | _ => False
  end.

Lemma ok2_okt limit {A} (r : ores A) : ok2 r -> okt limit r.
Proof. destruct r as [a| | |s n|]; cbn; tauto. Qed.

Lemma ok2_bind {A B} (r : ores A) (f : A -> ores B) :
  ok2 r -> (forall a, r = OOk a -> ok2 (f a)) -> ok2 (rbind r f).
Proof. destruct r as [a| | |s n|]; cbn; try tauto. intros _ H. now apply H. Qed.

Lemma okt_bind limit {A B} (r : ores A) (f : A -> ores B) :
  okt limit r -> (forall a, r = OOk a -> okt limit (f a)) -> okt limit (rbind r f).
Proof. destruct r as [a| | |s n|]; cbn; try tauto. intros _ H. now apply H. Qed.

(* ------------------------------------------------------------------ *)
(* lists                                                                *)
(* ------------------------------------------------------------------ *)

Lemma lenN_app {A} (a b : list A) : lenN (a ++ b) = lenN a + lenN b.
Proof. unfold lenN. rewrite app_length. lia. Qed.

Lemma lenN_sub_le d pos len : lenN (sub d pos len) <= len.
Proof. unfold sub, lenN. rewrite firstn_length. lia. Qed.

Lemma lenN_zeros n : lenN (zeros n) = n.
Proof. unfold zeros, lenN. rewrite repeat_length. lia. Qed.

Lemma lenN_put d pos bs : pos <= lenN d -> lenN (put d pos bs) <= lenN d + lenN bs.
Proof.
  unfold put, lenN. intros H. rewrite !app_length, firstn_length, skipn_length. lia.
Qed.

Lemma lenN_firstn_le {A} (d : list A) n : lenN (firstn n d) <= lenN d.
Proof. unfold lenN. rewrite firstn_length. lia. Qed.

Lemma lenN_firstn_n {A} (d : list A) n : lenN (firstn (N.to_nat n) d) <= n.
Proof. unfold lenN. rewrite firstn_length. lia. Qed.

(* ------------------------------------------------------------------ *)
(* allocation requests                                                  *)
(* ------------------------------------------------------------------ *)

Section Fixed.
  Variable be : backend.
  Variable limit : N.
  Hypothesis limit_small : limit <= isize_max.

  Notation G := og_fixed.

  Lemma alloc_req_ok s n : n <= limit -> alloc_req limit s n = OOk tt.
  Proof.
    intros H. unfold alloc_req.
    destruct (isize_max <? n) eqn:E1; [lia|].
    destruct (limit <? n) eqn:E2; [lia|]. reflexivity.
  Qed.

  (* ---------------------------------------------------------------- *)
  (* the recovery log                                                  *)
  (* ---------------------------------------------------------------- *)

  (* the framing `repair` accepts: from p, complete records with non-negative sizes up to exactly L *)
  Inductive chain (w : bytes) (L : N) : N -> Prop :=
  | chain_end : chain w L L
  | chain_rec p : p + 16 + de (sub w (p + 8) 8) <= L ->
                  chain w L (p + 16 + de (sub w (p + 8) 8)) -> chain w L p.

  Lemma chain_le w L p : chain w L p -> p <= L.
  Proof. induction 1; lia. Qed.

  Lemma wal_repair_fixed fuel w pos :
    pos <= lenN w -> lenN w < pos + 16 * N.of_nat fuel ->
    exists L, wal_repair G fuel w pos = OOk L /\ chain w L pos /\ L <= lenN w.
  Proof.
    revert pos. induction fuel as [|f IH]; intros pos Hp Hf; [lia|].
    cbn [wal_repair]. cbv zeta.
    destruct (lenN w <=? pos) eqn:E1.
    { exists (lenN w). replace pos with (lenN w) by lia. repeat split; [constructor|lia]. }
    destruct (lenN w <? pos + 16) eqn:E2.
    { exists pos. repeat split; [constructor|lia]. }
    destruct (de (sub w (pos + 8) 8) <? two63) eqn:E3.
    - destruct (i64_max <? pos + 16 + de (sub w (pos + 8) 8)) eqn:E4.
      { exists pos. repeat split; [constructor|lia]. }
      destruct (lenN w <? pos + 16 + de (sub w (pos + 8) 8)) eqn:E5.
      { exists pos. repeat split; [constructor|lia]. }
      destruct (IH (pos + 16 + de (sub w (pos + 8) 8))) as (L & HL & Hc & Hle); [lia|lia|].
      exists L. split; [exact HL|]. split; [|exact Hle].
      apply chain_rec; [|exact Hc]. apply chain_le in Hc. lia.
    - destruct (pos + 16 <? two64 - de (sub w (pos + 8) 8)) eqn:E4.
      { exists pos. repeat split; [constructor|lia]. }
      cbn [og_wal_framed og_fixed]. exists pos. repeat split; [constructor|lia].
  Qed.

  (* total payload of a list of log records *)
  Definition vsum (rs : list (N * bytes)) : N := fold_right (fun r a => lenN (snd r) + a) 0 rs.

  Lemma wal_records_chain fuel w L p acc :
    chain w L p -> L <= limit -> L < p + 16 * N.of_nat fuel ->
    exists rs, wal_records limit fuel w L p acc = OOk rs /\ vsum rs + p <= vsum acc + L.
  Proof.
    intros Hc HL. revert fuel acc. induction Hc as [|p Hle Hc IH]; intros fuel acc Hf.
    - destruct fuel as [|f]; [lia|]. cbn [wal_records].
      replace (L <=? L) with true by lia. exists acc. split; [reflexivity|lia].
    - destruct fuel as [|f]; [lia|]. cbn [wal_records]. cbv zeta.
      pose proof (chain_le _ _ _ Hc) as Hn.
      destruct (L <=? p) eqn:E1; [lia|].
      destruct (L <? p + 16) eqn:E2; [lia|].
      rewrite alloc_req_ok by lia. cbn [rbind].
      destruct (L <? p + 16 + de (sub w (p + 8) 8)) eqn:E3; [lia|].
      destruct (IH f ((de (sub w p 8), sub w (p + 16) (de (sub w (p + 8) 8))) :: acc)) as (rs & Hrs & Hs); [lia|].
      exists rs. split; [exact Hrs|].
      cbn [vsum fold_right snd] in Hs. fold (vsum acc) in Hs.
      pose proof (lenN_sub_le w (p + 16) (de (sub w (p + 8) 8))). lia.
  Qed.

  Lemma apply_rec_fixed d pos v :
    ok2 (wal_apply_rec G be limit d (pos, v)) /\
    forall d', wal_apply_rec G be limit d (pos, v) = OOk d' -> lenN d' <= lenN d + lenN v.
  Proof.
    unfold wal_apply_rec. cbn [og_wal_pos og_fixed andb].
    destruct (lenN d <? pos) eqn:E1; [split; [exact I|discriminate]|].
    destruct (i64_max <? pos) eqn:E2; [split; [exact I|discriminate]|].
    cbn [andb].
    destruct v as [|b v'].
    - split; [exact I|]. intros d' H. injection H as <-.
      rewrite lenN_app, lenN_zeros. pose proof (lenN_firstn_n d pos). lia.
    - split; [exact I|]. intros d' H. injection H as <-.
      replace (pos - lenN d) with 0 by lia. change (zeros 0) with (@nil byte). rewrite app_nil_r.
      apply lenN_put. lia.
  Qed.

  Lemma apply_all_fixed rs : forall d,
    ok2 (wal_apply_all G be limit rs d) /\
    forall d', wal_apply_all G be limit rs d = OOk d' -> lenN d' <= lenN d + vsum rs.
  Proof.
    induction rs as [|[pos v] rs IH]; intros d; cbn [wal_apply_all].
    - split; [exact I|]. intros d' H. injection H as <-. cbn [vsum fold_right]. lia.
    - destruct (apply_rec_fixed d pos v) as (Hok & Hlen).
      destruct (wal_apply_rec G be limit d (pos, v)) as [d1| | |s n|] eqn:E; cbn [rbind]; cbn in Hok; try tauto.
      + destruct (IH d1) as (Hok1 & Hlen1). split; [exact Hok1|].
        intros d' H. specialize (Hlen1 d' H). specialize (Hlen d1 eq_refl).
        cbn [vsum fold_right snd]. fold (vsum rs). lia.
      + split; [exact I|discriminate].
  Qed.

  Lemma recover_fixed data wal :
    lenN wal <= limit ->
    ok2 (wal_recover G be limit data wal) /\
    forall d, wal_recover G be limit data wal = OOk d -> lenN d <= lenN data + lenN wal.
  Proof.
    intros Hw. unfold wal_recover.
    destruct (wal_repair_fixed (S (length wal)) wal 0) as (L & HL & Hc & Hle); [lia|unfold lenN; lia|].
    rewrite HL. cbn [rbind].
    destruct (wal_records_chain (S (length wal)) wal L 0 [] Hc) as (rs & Hrs & Hs); [lia|unfold lenN in *; lia|].
    rewrite Hrs. cbn [rbind]. cbn [vsum fold_right] in Hs.
    destruct (apply_all_fixed rs data) as (Hok & Hlen). split; [exact Hok|].
    intros d H. specialize (Hlen d H). lia.
  Qed.

  Lemma recover_fixed_opt data wal :
    lenN data + match wal with Some w => lenN w | None => 0 end <= limit ->
    ok2 (wal_recover G be limit data (match wal with Some w => w | None => [] end)) /\
    forall d, wal_recover G be limit data (match wal with Some w => w | None => [] end) = OOk d ->
              lenN d <= lenN data + match wal with Some w => lenN w | None => 0 end.
  Proof.
    intros Hl. destruct wal as [w|].
    - apply recover_fixed. lia.
    - destruct (recover_fixed data [] ltac:(unfold lenN; cbn; lia)) as (Hok & Hlen). split; [exact Hok|].
      intros d H. specialize (Hlen d H). unfold lenN in *. cbn [length] in *. lia.
  Qed.

  Lemma backend_new_fixed data wal :
    lenN data + match wal with Some w => lenN w | None => 0 end <= limit ->
    ok2 (backend_new G be limit data wal) /\
    forall d, backend_new G be limit data wal = OOk d ->
              lenN d <= lenN data + match wal with Some w => lenN w | None => 0 end.
  Proof.
    intros Hl. pose proof (recover_fixed_opt data wal Hl) as (Hok & Hlen).
    unfold backend_new. destruct be.
    - (* file *) split; [exact Hok|exact Hlen].
    - (* memory *)
      rewrite alloc_req_ok by lia. cbn [rbind]. split; [exact I|]. intros d H. injection H as <-. lia.
    - (* mapped *)
      destruct (wal_recover _ _ _ _ _) as [d| | |s n|] eqn:E;
        cbn [rbind]; cbn in Hok; try tauto; try (split; [exact I|discriminate]).
      + specialize (Hlen d eq_refl). rewrite alloc_req_ok by lia. cbn [rbind].
        split; [exact I|]. intros d' H. injection H as <-. exact Hlen.
  Qed.

  (* ---------------------------------------------------------------- *)
  (* reading                                                           *)
  (* ---------------------------------------------------------------- *)

  Lemma sread_fixed d pos len : lenN d <= limit -> ok2 (sread G be limit d pos len).
  Proof.
    intros Hd. unfold sread.
    destruct (pos + len <=? lenN d) eqn:E.
    - destruct be; try exact I. rewrite alloc_req_ok by lia. exact I.
    - cbn [og_read_checked og_fixed]. exact I.
  Qed.

  Lemma read_record_fixed d pos : lenN d <= limit -> ok2 (read_record G be limit d pos).
  Proof.
    intros Hd. unfold read_record. apply ok2_bind; [now apply sread_fixed|]. intros b _. exact I.
  Qed.

  Lemma table_req_fixed tlen cap index : okt limit (table_req G limit tlen cap index).
  Proof.
    unfold table_req. destruct (index <? tlen); [exact I|].
    destruct (index + 1 <=? cap); [exact I|]. cbv zeta. cbn [og_table_checked og_fixed].
    destruct (isize_max <? _); [exact I|].
    destruct (limit <? 24 * N.max (N.max (2 * cap) (index + 1)) 4) eqn:E; [cbn; lia|exact I].
  Qed.

  Lemma read_loop_fixed fuel d : lenN d <= limit ->
    forall pos tlen cap tab, pos <= lenN d + 32 -> lenN d + 32 < pos + 16 * N.of_nat fuel ->
    okt limit (read_loop G be limit fuel d pos tlen cap tab).
  Proof.
    intros Hd. induction fuel as [|f IH]; intros pos tlen cap tab Hp Hf.
    - (* the fuel cannot run out: a record never ends more than 32 bytes past the end *)
      lia.
    - cbn [read_loop]. cbv zeta.
      destruct (lenN d <=? pos) eqn:E1; [exact I|].
      apply okt_bind; [apply ok2_okt, read_record_fixed, Hd|].
      intros [index size] _.
      destruct (lenN d - pos + 16 <? size) eqn:E2; [exact I|].
      destruct (index =? 0).
      + apply IH; lia.
      + apply okt_bind; [apply table_req_fixed|]. intros [tlen' cap'] _. apply IH; lia.
  Qed.

  Lemma read_records_fixed d : lenN d + 24 <= limit -> okt limit (read_records G be limit d).
  Proof.
    intros Hd. unfold read_records.
    apply okt_bind.
    - apply ok2_okt. destruct (16 <=? lenN d); [|exact I].
      apply ok2_bind; [apply read_record_fixed; lia|]. intros [index size] _.
      destruct (index =? 0); [|exact I]. destruct (size <? 8); [exact I|].
      apply ok2_bind; [apply sread_fixed; lia|]. intros b _. exact I.
    - intros version _. destruct (1 <? version); [exact I|].
      apply okt_bind.
      + apply ok2_okt. destruct (version =? 1); [exact I|].
        rewrite alloc_req_ok by lia. exact I.
      + intros d' Hd'.
        assert (Hl : lenN d' <= limit).
        { destruct (version =? 1).
          - assert (E : d = d') by congruence. subst d'. lia.
          - rewrite alloc_req_ok in Hd' by lia. cbn [rbind] in Hd'.
            assert (E : version_header ++ d = d') by congruence. subst d'.
            rewrite lenN_app. change (lenN version_header) with 24. lia. }
        apply okt_bind.
        * apply read_loop_fixed; [exact Hl|lia|unfold lenN; lia].
        * intros tab _. exact I.
  Qed.

  Theorem open_bytes_fixed data wal :
    lenN data + match wal with Some w => lenN w | None => 0 end + 24 <= limit ->
    okt limit (open_bytes G be limit data wal).
  Proof.
    intros Hl. unfold open_bytes.
    destruct (backend_new_fixed data wal ltac:(lia)) as (Hok & Hlen).
    apply okt_bind; [now apply ok2_okt|].
    intros d Hd. apply read_records_fixed. specialize (Hlen d Hd). lia.
  Qed.

  (* what `open` hands out keeps the file within the limit, so later reads allocate within it too *)
  Lemma read_records_data d st :
    lenN d + 24 <= limit -> read_records G be limit d = OOk st -> lenN (o_data st) <= limit.
  Proof.
    intros Hd. unfold read_records.
    destruct (if 16 <=? lenN d then _ else _) as [version| | |s n|]; cbn [rbind]; try discriminate.
    destruct (1 <? version); [discriminate|].
    destruct (version =? 1).
    - cbn [rbind]. destruct (read_loop _ _ _ _ _ _ _ _ _) as [tab| | |s n|]; cbn [rbind]; try discriminate.
      intros H. injection H as <-. cbn [o_data]. lia.
    - rewrite alloc_req_ok by lia. cbn [rbind].
      destruct (read_loop _ _ _ _ _ _ _ _ _) as [tab| | |s n|]; cbn [rbind]; try discriminate.
      intros H. assert (E : o_data st = version_header ++ d) by (inversion H; reflexivity).
      rewrite E, lenN_app. change (lenN version_header) with 24. lia.
  Qed.

  Theorem open_bytes_data data wal st :
    lenN data + match wal with Some w => lenN w | None => 0 end + 24 <= limit ->
    open_bytes G be limit data wal = OOk st -> lenN (o_data st) <= limit.
  Proof.
    intros Hl. unfold open_bytes.
    destruct (backend_new_fixed data wal ltac:(lia)) as (_ & Hlen).
    destruct (backend_new G be limit data wal) as [d| | |s n|]; cbn [rbind]; try discriminate.
    specialize (Hlen d eq_refl). apply read_records_data. lia.
  Qed.

  Theorem value_as_bytes_fixed st i :
    lenN (o_data st) <= limit -> ok2 (value_as_bytes G be limit st i).
  Proof.
    intros Hd. unfold value_as_bytes.
    destruct (table_get i (o_table st)) as [[pos size]|]; [|exact I].
    now apply sread_fixed.
  Qed.
End Fixed.

(* replay with the position check (og_wal_pos): a record can only be applied inside the file or at its
   end, so it extends the file by at most its own payload, and the whole replay by at most the log *)
Theorem replay_record_bound be limit d pos v d' :
  wal_apply_rec og_fixed be limit d (pos, v) = OOk d' -> pos <= lenN d /\ lenN d' <= N.max (lenN d) (pos + lenN v).
Proof.
  unfold wal_apply_rec. cbn [og_wal_pos og_fixed andb].
  destruct (lenN d <? pos) eqn:E1; [discriminate|].
  destruct (i64_max <? pos) eqn:E2; [discriminate|]. cbn [andb].
  destruct v as [|b v'].
  - intros H. injection H as <-. split; [lia|].
    rewrite lenN_app, lenN_zeros. pose proof (lenN_firstn_n d pos). lia.
  - intros H. injection H as <-. split; [lia|].
    replace (pos - lenN d) with 0 by lia. change (zeros 0) with (@nil byte). rewrite app_nil_r.
    unfold put, lenN. rewrite !app_length, firstn_length, skipn_length. lia.
Qed.

Theorem recovery_length_bound be limit data wal :
  limit <= isize_max -> lenN wal <= limit ->
  ok2 (wal_recover og_fixed be limit data wal) /\
  forall d, wal_recover og_fixed be limit data wal = OOk d -> lenN d <= lenN data + lenN wal.
Proof. intros H1 H2. now apply recover_fixed. Qed.

(* ------------------------------------------------------------------ *)
(* with the limit of the property: 1024 * (|data| + |log|) + 65536      *)
(* ------------------------------------------------------------------ *)

Definition wal_len (wal : option bytes) : N := match wal with Some w => lenN w | None => 0 end.

(* inputs a file system can hold *)
Definition realistic (data : bytes) (wal : option bytes) : Prop := lenN data + wal_len wal <= 1125899906842624.  (* 2^50 *)

Lemma limit_facts data wal : realistic data wal ->
  alloc_limit (lenN data) (wal_len wal) <= isize_max /\
  lenN data + wal_len wal + 24 <= alloc_limit (lenN data) (wal_len wal).
Proof. unfold realistic, alloc_limit, isize_max, two63. lia. Qed.

Theorem open_file_total be data wal :
  realistic data wal ->
  okt (alloc_limit (lenN data) (wal_len wal)) (open_file og_fixed be data wal).
Proof.
  intros Hr. destruct (limit_facts data wal Hr) as (H1 & H2).
  unfold open_file. apply open_bytes_fixed; assumption.
Qed.

Theorem open_file_read_total be data wal st i :
  realistic data wal ->
  open_file og_fixed be data wal = OOk st ->
  ok2 (value_as_bytes og_fixed be (alloc_limit (lenN data) (wal_len wal)) st i).
Proof.
  intros Hr Ho. destruct (limit_facts data wal Hr) as (H1 & H2).
  apply value_as_bytes_fixed; [exact H1|].
  unfold open_file in Ho. eapply open_bytes_data; eassumption.
Qed.

(* ------------------------------------------------------------------ *)
(* witnesses: the code before the repairs, and the known class          *)
(* ------------------------------------------------------------------ *)

Definition og_current : oguards :=   (* /repo after 51d65f2 and before fixes/C07-wal-position.diff: all but the log position check *)
  {| og_read_checked := true; og_table_checked := true; og_wal_framed := true; og_wal_pos := false |}.

(* 17 bytes: the version record promises 8 value bytes, one is there *)
Definition ex_short : bytes := le64 0 ++ le64 8 ++ [x01].
(* a record header with index 2^40 after the version record *)
Definition ex_big_index : bytes := version_header ++ le64 1099511627776 ++ le64 0.
(* index u64::MAX *)
Definition ex_max_index : bytes := version_header ++ le64 18446744073709551615 ++ le64 0.
(* a record whose size passes the lenient check (remaining + 16) but not the file *)
Definition ex_lenient : bytes := version_header ++ le64 1 ++ le64 20 ++ [x61; x62; x63; x64].
(* the version record claims 2^40 value bytes *)
Definition ex_version_size : bytes := le64 0 ++ le64 1099511627776 ++ le64 1.
(* an intact file: one record with three bytes *)
Definition ex_intact : bytes := version_header ++ le64 1 ++ le64 3 ++ [x61; x62; x63].
(* recovery logs *)
Definition ex_log_back16 : bytes := le64 0 ++ le64 18446744073709551600.          (* size = -16: seeks back to itself *)
Definition ex_log_back8 : bytes := le64 0 ++ le64 18446744073709551608 ++ repeat x00 24.   (* size = -8 *)
Definition ex_log_far : bytes := le64 1099511627776 ++ le64 0.                     (* truncate at 2^40 *)

Definition cls (g : oguards) (be : backend) (data : bytes) (wal : option bytes) : N :=
  ores_class (open_file g be data wal).
(* classes: 0 opens, 1 error, 2 panic, 3 allocation (buffer), 4 allocation (record table), 5 no termination *)

Lemma pinned_witnesses :
  cls og_pinned BMemory ex_short None = 2 /\ cls og_fixed BMemory ex_short None = 1 /\
  cls og_pinned BMapped ex_short None = 2 /\ cls og_pinned BFile ex_short None = 1 /\
  cls og_pinned BFile ex_max_index None = 2 /\ cls og_fixed BFile ex_max_index None = 1 /\
  cls og_pinned BFile ex_version_size None = 3 /\ cls og_fixed BFile ex_version_size None = 1 /\
  cls og_pinned BMemory ex_version_size None = 2 /\
  cls og_pinned BFile ex_intact (Some ex_log_back16) = 5 /\ cls og_fixed BFile ex_intact (Some ex_log_back16) = 0 /\
  cls og_pinned BFile ex_intact (Some ex_log_back8) = 2 /\ cls og_fixed BFile ex_intact (Some ex_log_back8) = 0 /\
  cls og_pinned BMapped ex_intact (Some ex_log_far) = 3 /\ cls og_pinned BFile ex_intact (Some ex_log_far) = 5 /\
  cls og_current BMapped ex_intact (Some ex_log_far) = 3 /\ cls og_current BFile ex_intact (Some ex_log_far) = 5 /\
  cls og_fixed BMapped ex_intact (Some ex_log_far) = 1 /\ cls og_fixed BFile ex_intact (Some ex_log_far) = 1.
Proof. vm_compute. repeat split. Qed.

(* the known class is real: also the repaired code sizes the record table by the index *)
Lemma table_class_witness :
  open_file og_fixed BFile ex_big_index None = OAlloc ATable 26388279066648 /\
  open_file og_fixed BMemory ex_big_index None = OAlloc ATable 26388279066648 /\
  alloc_limit (lenN ex_big_index) 0 < 26388279066648.
Proof. vm_compute. repeat split. Qed.

(* reading a record whose size passed the lenient check *)
Lemma lenient_read_witness :
  (exists st, open_file og_pinned BMemory ex_lenient None = OOk st /\
              value_as_bytes og_pinned BMemory (alloc_limit (lenN ex_lenient) 0) st 1 = OPanic) /\
  (exists st, open_file og_fixed BMemory ex_lenient None = OOk st /\
              value_as_bytes og_fixed BMemory (alloc_limit (lenN ex_lenient) 0) st 1 = OErr).
Proof. split; eexists; split; vm_compute; reflexivity. Qed.

(* non-vacuity: an intact file opens on every back-end and its record reads back *)
Lemma intact_opens :
  forall be, exists st,
    open_file og_fixed be ex_intact None = OOk st /\ o_table st = [(1, (24, 3))] /\
    value_as_bytes og_fixed be (alloc_limit (lenN ex_intact) 0) st 1 = OOk [x61; x62; x63] /\
    realistic ex_intact None.
Proof.
  intros be. destruct be; eexists; (split; [vm_compute; reflexivity|]);
    (split; [reflexivity|]); (split; [vm_compute; reflexivity|]); unfold realistic; vm_compute; discriminate.
Qed.

Lemma current_log_position :
  cls og_current BMapped ex_intact (Some ex_log_far) = 3 /\ cls og_current BFile ex_intact (Some ex_log_far) = 5.
Proof. vm_compute. split; reflexivity. Qed.
