(* StoredDbOpsQuery.v — proofs (stored database, part 22): the programs that the correspondence run compares byte for byte
   with the real database — so_q_insert_node (insert nodes values), so_q_insert_values (insert values ids),
   so_q_insert_edge (insert edges): the core operations as the public queries issue them inside transaction_mut's
   storage transaction — keep the database stored and compute DbModel's functions. *)
From Coq Require Import Permutation.
From Agdb Require Import Bytes BytesProofs Utf8 Codec DbValue ValueIndex Graph DbModel Records RecordsProofs Storage StorageSpec
  StorageLayout StorageWp StorageRefine StorageProofs Collections CollValues CollWp CollBytes CollVecBase CollVecOps CollVec CollVec2
  CollElems CollSep CollMap CollGraph CollValuesProofs StoredDb StoredDbRep StoredDbLoad StoredDbProofs StoredDbFrame StoredDbOps
  StoredDbOpsGraph StoredDbOpsGraph2 StoredDbOpsDb StoredDbOpsKv StoredDbOpsKv2 StoredDbOpsKv3 StoredDbOpsDb2 StoredDbOpsDb3.
From Coq Require Import ZifyBool ZifyNat ZifyN.
Ltac Zify.zify_post_hook ::= Z.div_mod_to_equations.
Open Scope N_scope.
Arguments N.add : simpl never.
Arguments N.mul : simpl never.
Arguments N.sub : simpl never.
Arguments N.of_nat : simpl never.
Arguments N.to_nat : simpl never.
Arguments N.eqb : simpl never.
Arguments N.ltb : simpl never.
Arguments N.leb : simpl never.
Arguments N.div : simpl never.

Lemma stored_db_w_heq g g' root d w : heq g' g -> stored_db_w g root d w -> stored_db_w g' root d w.
Proof.
  intros Hm [Hroot Hu64 Hver Hg Hgi Ha1 Hk1 Ha2 Hk2 Hiv Hii Hix Hvv Hvi Hv Hnd]. constructor; auto.
  - rewrite Hm. exact Hroot.
  - eapply grep_heq; eauto.
  - eapply sd_map_rep_heq; eauto.
  - eapply sd_map_rep_heq; eauto.
  - eapply vrep_heq; eauto.
  - eapply sd_ix_rep_heq; eauto.
  - eapply vrep_heq; eauto.
  - eapply sd_kv_rep_heq; eauto.
Qed.

(* the model of the two loops over a property list *)
Definition mq_insert_key_values (d : db) (id : Z) (l : list kv) : db := fold_left (fun a x => insert_key_value a id x) l d.
Definition mq_insert_or_replace_key_values (d : db) (id : Z) (l : list kv) : db :=
  fold_left (fun a x => insert_or_replace_key_value a id x) l d.

Fixpoint so_kvs_ok (d : db) (id : Z) (l : list kv) : Prop :=
  match l with
  | [] => True
  | x :: t => (idx_find (indexes d) (fst x) = None /\ el_valid law_dbkv x /\ so_kv_fits d id) /\ so_kvs_ok (insert_key_value d id x) id t
  end.
Fixpoint so_iors_ok (d : db) (id : Z) (l : list kv) : Prop :=
  match l with
  | [] => True
  | x :: t => (so_not_indexed d id x /\ el_valid law_dbkv x /\ so_kv_fits d id) /\ so_iors_ok (insert_or_replace_key_value d id x) id t
  end.

Definition so_qpost (root : N) (w : sd_wit) (sp : spec) (d' : db) (r : cres so_db) (sp' : spec) : Prop :=
  exists h' w', r = CrOk h' /\ stored_db_w (hp sp') root d' w' /\ so_handles h' w' /\ sdepth sp' = sdepth sp /\
                frame (hp sp) (hp sp') (sd_foot root w) (sd_foot root w').

Section Query.
  Variable fl : bool.

  Lemma so_insert_key_values_stored root id : so_index_ok (cg_as_u64 id) -> forall l d w h sp,
    stored_db_w (hp sp) root d w -> so_handles h w -> so_kvs_ok d id l ->
    cwp fl (so_insert_key_values h id l) sp (so_qpost root w sp (mq_insert_key_values d id l)).
  Proof.
    intros Hix. induction l as [|x t IH]; intros d w h sp H Hh OK; cbn [so_insert_key_values mq_insert_key_values fold_left so_kvs_ok] in *.
    - cbn [cwp]. exists h, w. repeat (split; [first [reflexivity|assumption]|]). apply frame_refl. intros j; reflexivity.
    - destruct OK as [(O1 & O2 & O3) OK']. apply cwp_bind.
      eapply so_insert_key_value_stored; [exact H|exact Hh|exact O1|exact Hix|exact O2|exact O3|].
      intros h1 vh1 vs1 vi1 vw1 sp1 H1 Hh1 D1 F1. cbn [kont].
      eapply cwp_mono; [|eapply IH; eassumption].
      intros r sp2 (h2 & w2 & -> & H2 & Hh2 & D2 & F2). exists h2, w2.
      split; [reflexivity|]. split; [exact H2|]. split; [exact Hh2|]. split; [congruence|eapply frame_trans; eassumption].
  Qed.

  Lemma so_insert_or_replace_key_values_stored root id : so_index_ok (cg_as_u64 id) -> forall l d w h sp,
    stored_db_w (hp sp) root d w -> so_handles h w -> so_iors_ok d id l ->
    cwp fl (so_insert_or_replace_key_values h id l) sp (so_qpost root w sp (mq_insert_or_replace_key_values d id l)).
  Proof.
    intros Hix. induction l as [|x t IH]; intros d w h sp H Hh OK;
      cbn [so_insert_or_replace_key_values mq_insert_or_replace_key_values fold_left so_iors_ok] in *.
    - cbn [cwp]. exists h, w. repeat (split; [first [reflexivity|assumption]|]). apply frame_refl. intros j; reflexivity.
    - destruct OK as [(O1 & O2 & O3) OK']. apply cwp_bind.
      eapply so_insert_or_replace_key_value_stored; [exact H|exact Hh|exact O1|exact Hix|exact O2|exact O3|].
      intros h1 vh1 vs1 vi1 vw1 sp1 H1 Hh1 D1 F1. cbn [kont fst].
      eapply cwp_mono; [|eapply IH; eassumption].
      intros r sp2 (h2 & w2 & -> & H2 & Hh2 & D2 & F2). exists h2, w2.
      split; [reflexivity|]. split; [exact H2|]. split; [exact Hh2|]. split; [congruence|eapply frame_trans; eassumption].
  Qed.

  (* insert nodes (count 1, no alias) values [l] *)
  Theorem so_q_insert_node_stored root d w h l sp :
    stored_db_w (hp sp) root d w -> so_handles h w -> so_graph_ok (gr d) ->
    let id := fst (insert_node_db d) in
    let d2 := reserve_kv (snd (insert_node_db d)) id in
    so_index_ok (cg_as_u64 id) -> so_kvs_ok d2 id l ->
    cwp fl (so_q_insert_node h l) sp
        (fun r sp' => exists h' w', r = CrOk (h', id) /\ stored_db_w (hp sp') root (mq_insert_key_values d2 id l) w' /\
                                    so_handles h' w' /\ sdepth sp' = sdepth sp /\
                                    frame (hp sp) (hp sp') (sd_foot root w) (sd_foot root w')).
  Proof.
    intros H Hh OK id d2 Hix Hkv. unfold so_q_insert_node.
    apply cwp_bind. apply hwp_transaction. intros sp0 Hm0 Hd0. cbn [kont].
    apply cwp_bind. eapply so_insert_node_stored; [eapply stored_db_w_heq; [exact Hm0|exact H]|exact Hh|exact OK|].
    intros h1 dg1 s1 sp1 H1 Hh1 D1 F1. cbn [kont fst snd]. fold id.
    apply cwp_bind. eapply so_reserve_key_value_capacity_stored; [exact H1|exact Hh1|exact Hix|].
    intros h2 vh2 vs2 vi2 vw2 sp2 H2 Hh2 D2 F2. cbn [kont]. fold d2 in H2.
    apply cwp_bind. eapply cwp_mono; [|eapply so_insert_key_values_stored; [exact Hix|exact H2|exact Hh2|exact Hkv]].
    intros r sp3 (h3 & w3 & -> & H3 & Hh3 & D3 & F3). cbn [kont].
    apply cwp_bind. apply hwp_commit; [lia|lia|]. intros sp4 Hm4 Hd4. cbn [kont cwp].
    exists h3, w3. split; [reflexivity|]. split; [eapply stored_db_w_heq; [exact Hm4|exact H3]|]. split; [exact Hh3|]. split; [lia|].
    eapply frame_trans; [apply frame_refl; exact Hm0|]. eapply frame_trans; [exact F1|]. eapply frame_trans; [exact F2|].
    eapply frame_trans; [exact F3|apply frame_refl; exact Hm4].
  Qed.

  (* insert values [l] ids id, on an existing element *)
  Theorem so_q_insert_values_stored root d w h id l sp :
    stored_db_w (hp sp) root d w -> so_handles h w -> so_index_ok (cg_as_u64 id) ->
    so_iors_ok (reserve_kv d id) id l ->
    cwp fl (so_q_insert_values h id l) sp (so_qpost root w sp (mq_insert_or_replace_key_values (reserve_kv d id) id l)).
  Proof.
    intros H Hh Hix Hkv. unfold so_q_insert_values.
    apply cwp_bind. apply hwp_transaction. intros sp0 Hm0 Hd0. cbn [kont].
    apply cwp_bind. eapply so_reserve_key_value_capacity_stored; [eapply stored_db_w_heq; [exact Hm0|exact H]|exact Hh|exact Hix|].
    intros h2 vh2 vs2 vi2 vw2 sp2 H2 Hh2 D2 F2. cbn [kont].
    apply cwp_bind. eapply cwp_mono; [|eapply so_insert_or_replace_key_values_stored; [exact Hix|exact H2|exact Hh2|exact Hkv]].
    intros r sp3 (h3 & w3 & -> & H3 & Hh3 & D3 & F3). cbn [kont].
    apply cwp_bind. apply hwp_commit; [lia|lia|]. intros sp4 Hm4 Hd4. cbn [kont cwp].
    exists h3, w3. split; [reflexivity|]. split; [eapply stored_db_w_heq; [exact Hm4|exact H3]|]. split; [exact Hh3|]. split; [lia|].
    eapply frame_trans; [apply frame_refl; exact Hm0|]. eapply frame_trans; [exact F2|].
    eapply frame_trans; [exact F3|apply frame_refl; exact Hm4].
  Qed.
End Query.
