(* RaftVote.v — C27 at full strength for the repaired revision `rr_fixed` of raft.rs.
   With both election repairs (vote_request adopts the request's term; response() counts a Vote/Ok answer only
   for the candidate's current term) the term of a node never decreases and every support a node gives
   (a granted vote, or its own candidacy) is for a term strictly above its term before and at most its term after.
   Hence: a node supports at most one candidate per term (`double_vote_b` never holds), no candidate counts a
   vote of another term (`stale_vote_b`), nobody acknowledges an Append below a term it voted in
   (`ack_below_vote_b`) — for every cluster size and every adversarial event list — and election safety follows
   from the quorum argument of RaftElect.v. *)
From Coq Require Import NArith List Bool Lia Arith.
From Agdb Require Import Raft RaftWitness RaftProofs RaftInv RaftElect.
Import ListNotations.
Open Scope N_scope.

(* ================================================================== terms: what each handler does to `term` *)

Lemma term_process : forall nd el due, n_term (fst (process nd el due)) = n_term nd.
Proof.
  intros nd el due. unfold process.
  destruct (n_state nd); cbn [is_election andb fst]; try (destruct (n_tt nd <? el); reflexivity); try reflexivity.
  destruct (n_et nd <=? el); cbn [fst]; [reflexivity|]. destruct (n_tt nd <? el); reflexivity.
Qed.

Lemma term_append : forall nd d, n_term (fst (append nd d)) = n_term nd.
Proof. intros. unfold append. cbn [fst]. destruct (_ =? 1); reflexivity. Qed.

Lemma term_append_logs : forall logs nd r, n_term (fst (append_logs nd r logs)) = n_term nd.
Proof.
  induction logs as [|log rest IH]; intros nd r; cbn [append_logs]; auto.
  destruct (validate_log_append nd r log) as [doit|]; cbn [fst]; auto.
  rewrite IH. destruct (_ && _); destruct doit; reflexivity.
Qed.

Lemma term_become_follower : forall nd r,
  validate_term nd r = None -> n_term nd <= q_term r /\ n_term (become_follower nd r) = q_term r.
Proof.
  intros nd r V. unfold validate_term in V. unfold become_follower.
  destruct (N.ltb_spec (q_term r) (n_term nd)); [discriminate|].
  destruct (N.leb_spec (n_term nd) (q_term r)); [|lia]. split; [lia|reflexivity].
Qed.

Lemma validate_term_not_ok : forall nd r resp, validate_term nd r = Some resp -> is_ok (s_result resp) = false.
Proof. intros nd r resp V. unfold validate_term in V. destruct (_ <? _); inversion V; reflexivity. Qed.

Lemma validate_log_not_ok : forall nd r resp, validate_log nd r = Some resp -> is_ok (s_result resp) = false.
Proof. intros nd r resp V. unfold validate_log in V. destruct (_ || _); inversion V; reflexivity. Qed.

Lemma validate_log_for_vote_not_ok : forall nd r resp, validate_log_for_vote nd r = Some resp -> is_ok (s_result resp) = false.
Proof. intros nd r resp V. unfold validate_log_for_vote in V. destruct (_ || _); inversion V; reflexivity. Qed.

Lemma validate_vote_state_not_ok : forall nd r resp, validate_vote_state nd r = Some resp -> is_ok (s_result resp) = false.
Proof.
  intros nd r resp V. unfold validate_vote_state in V.
  destruct (n_state nd); try (inversion V; reflexivity). destruct (_ <=? _); inversion V; reflexivity.
Qed.

Lemma validate_term_for_vote_not_ok : forall nd r resp, validate_term_for_vote nd r = Some resp -> is_ok (s_result resp) = false.
Proof. intros nd r resp V. unfold validate_term_for_vote in V. destruct (_ <=? _); inversion V; reflexivity. Qed.

(* what a request does to the term, and what an Ok answer tells *)
Lemma request_term : forall rv nd r el,
  n_term nd <= n_term (fst (handle_request rv nd r el)) /\
  (is_vote (q_kind r) && is_ok (s_result (snd (handle_request rv nd r el))) = true ->
   n_term nd < q_term r /\ (fix_vote_term rv = true -> n_term (fst (handle_request rv nd r el)) = q_term r)) /\
  (is_append_or_hb (q_kind r) && is_ok (s_result (snd (handle_request rv nd r el))) = true -> n_term nd <= q_term r).
Proof.
  intros rv nd r el. unfold handle_request. destruct (q_kind r) as [logs| | |]; cbn [is_vote is_append_or_hb andb].
  - (* Append *)
    unfold append_request. destruct (validate_term nd r) as [resp|] eqn:V; cbn [fst snd].
    + rewrite (validate_term_not_ok _ _ _ V). repeat split; try discriminate. lia.
    + destruct (term_become_follower nd r V) as [L E].
      rewrite term_append_logs. change (n_term (update_node (become_follower nd r) r)) with (n_term (become_follower nd r)).
      rewrite E. repeat split; auto; discriminate.
  - (* Heartbeat *)
    unfold heartbeat_request. destruct (validate_term nd r) as [resp|] eqn:V; cbn [fst snd].
    + rewrite (validate_term_not_ok _ _ _ V). repeat split; try discriminate. lia.
    + destruct (term_become_follower nd r V) as [L E].
      destruct (validate_log (become_follower nd r) r) as [resp|] eqn:W; cbn [fst snd].
      * rewrite E. repeat split; auto; discriminate.
      * destruct (_ <? _); cbn; rewrite E; repeat split; auto; discriminate.
  - (* PreVote: node unchanged *)
    assert (E : fst (pre_vote_request nd r el) = nd).
    { unfold pre_vote_request. destruct (validate_log_for_vote nd r); destruct (n_state nd); cbn [fst]; auto;
        destruct (el <=? n_tt nd); auto. }
    rewrite E. repeat split; try discriminate. lia.
  - (* Vote *)
    unfold vote_request.
    destruct (validate_vote_state nd r) as [resp|] eqn:V1; cbn [fst snd].
    { rewrite (validate_vote_state_not_ok _ _ _ V1). repeat split; try discriminate. lia. }
    destruct (validate_term_for_vote nd r) as [resp|] eqn:V2; cbn [fst snd].
    { rewrite (validate_term_for_vote_not_ok _ _ _ V2). repeat split; try discriminate. lia. }
    destruct (validate_log_for_vote nd r) as [resp|] eqn:V3; cbn [fst snd].
    { rewrite (validate_log_for_vote_not_ok _ _ _ V3). repeat split; try discriminate. lia. }
    unfold validate_term_for_vote in V2. destruct (N.leb_spec (q_term r) (n_term nd)); [discriminate|].
    destruct (fix_vote_term rv); cbn; repeat split; auto; try lia; try discriminate.
Qed.

Lemma term_commit : forall nd r, n_term (fst (commit nd r)) = n_term nd.
Proof. intros. unfold commit. destruct (_ && _); reflexivity. Qed.

(* with the term check in `response()`, a response never lowers the term *)
Lemma response_term : forall rv nd r s,
  fix_vote_match rv = true -> n_term nd <= n_term (fst (handle_response rv nd r s)).
Proof.
  intros rv nd r s F. unfold handle_response.
  destruct (n_state nd) eqn:S; destruct (q_kind r) eqn:K; destruct (s_result s) eqn:R; cbn [fst];
    try lia;
    try (destruct (ack_counts rv nd r); cbn [fst]; [rewrite term_commit|]; lia);
    try (unfold reconcile; cbn [fst]; lia);
    try (match goal with |- context [if n_term nd <? ?l then _ else _] => destruct (N.ltb_spec (n_term nd) l) end; cbn; lia).
  - (* Candidate, Vote, Ok *)
    unfold vote_counts. rewrite F. cbn [negb orb].
    destruct (N.eqb_spec (q_term r) (n_term nd)) as [E|]; cbn [fst]; [|lia].
    unfold vote_received. destruct (_ <? _); [destruct (fix_ack_term rv)|]; cbn; lia.
  - (* Election, PreVote, Ok *)
    unfold pre_vote_received. destruct (_ <? _); cbn; lia.
Qed.

(* a new candidacy (the condition under which `node_ghosts` records GCand) raises the term by one *)
Lemma response_new_candidacy : forall rv nd r s,
  is_candidate (n_state (fst (handle_response rv nd r s))) &&
  negb (is_candidate (n_state nd) && (n_term nd =? n_term (fst (handle_response rv nd r s)))) = true ->
  n_term (fst (handle_response rv nd r s)) = n_term nd + 1.
Proof.
  intros rv nd r s H. apply andb_true_iff in H as [C NC].
  destruct (response_candidate rv nd r s C) as [E|[(S0 & _ & _ & _ & E)|(S0 & E)]].
  - rewrite E in *. rewrite C, N.eqb_refl in NC. discriminate.
  - rewrite E in NC. cbn in NC. rewrite S0, N.eqb_refl in NC. discriminate.
  - rewrite E. reflexivity.
Qed.

(* ================================================================== ghosts contributed by one step *)

Lemma existsb_node_ghosts : forall (P : ghost -> bool) old new,
  (forall i t, P (GCand i t) = false) -> (forall i t l, P (GLeader i t l) = false) ->
  (forall i b t x e, P (GCommit i b t x e) = false) ->
  existsb P (node_ghosts old new) = false.
Proof.
  intros P old new H1 H2 H3. unfold node_ghosts. rewrite !existsb_app.
  assert (E : forall l, existsb P (map (fun idx => GCommit (n_index new) (is_leader (n_state old) && is_leader (n_state new))
                                                    (n_term new) idx (log_at (n_logs new) idx)) l) = false).
  { induction l; cbn; auto. rewrite H3. auto. }
  rewrite E.
  destruct (is_candidate (n_state new) && negb (is_candidate (n_state old) && (n_term old =? n_term new)));
    destruct (is_leader (n_state new) && negb (is_leader (n_state old))); cbn; rewrite ?H1, ?H2; reflexivity.
Qed.

Lemma ack_below_app : forall a b, ack_below_vote_b (a ++ b) = ack_below_vote_b a || ack_below_vote_b b.
Proof. intros. unfold ack_below_vote_b. apply existsb_app. Qed.

Lemma ack_below_node_ghosts : forall old new, ack_below_vote_b (node_ghosts old new) = false.
Proof. intros. apply existsb_node_ghosts; reflexivity. Qed.

Lemma stale_node_ghosts : forall old new, stale_vote_b (node_ghosts old new) = false.
Proof. intros. apply existsb_node_ghosts; reflexivity. Qed.

Lemma stale_request_ghosts : forall c new r s, stale_vote_b (request_ghosts c new r s) = false.
Proof.
  intros. unfold request_ghosts. rewrite !stale_app.
  destruct (is_vote (q_kind r) && is_ok (s_result s)); cbn [stale_vote_b existsb orb];
  destruct (is_append_or_hb (q_kind r) && is_ok (s_result s) && (q_term r <? voted_term (c_hist c) (n_index new))); cbn [stale_vote_b existsb orb];
  destruct (is_append_or_hb (q_kind r) && is_ok (s_result s)); cbn [stale_vote_b existsb orb]; auto;
  destruct (get_node c (q_from r)); auto; destruct (entries_eqb _ _); auto.
Qed.

Lemma supports_request_ghosts : forall c new r s,
  supports (request_ghosts c new r s) =
  if is_vote (q_kind r) && is_ok (s_result s) then [(n_index new, q_term r, q_from r)] else [].
Proof.
  intros. unfold request_ghosts. rewrite !supports_app.
  destruct (is_vote (q_kind r) && is_ok (s_result s)); cbn [supports flat_map app];
  destruct (is_append_or_hb (q_kind r) && is_ok (s_result s) && (q_term r <? voted_term (c_hist c) (n_index new))); cbn [supports flat_map app];
  destruct (is_append_or_hb (q_kind r) && is_ok (s_result s)); cbn [supports flat_map app]; auto;
  destruct (get_node c (q_from r)); auto; destruct (entries_eqb _ _); auto.
Qed.

Lemma ack_below_request_ghosts : forall c new r s,
  is_append_or_hb (q_kind r) && is_ok (s_result s) && (q_term r <? voted_term (c_hist c) (n_index new)) = false ->
  ack_below_vote_b (request_ghosts c new r s) = false.
Proof.
  intros c new r s H. unfold request_ghosts. rewrite !ack_below_app, H.
  destruct (is_vote (q_kind r) && is_ok (s_result s)); cbn [ack_below_vote_b existsb orb];
  destruct (is_append_or_hb (q_kind r) && is_ok (s_result s)); cbn [ack_below_vote_b existsb orb]; auto;
  destruct (get_node c (q_from r)); auto; destruct (entries_eqb _ _); auto.
Qed.

(* the repaired `response()` never counts a vote of another term: the ghost is never emitted *)
Lemma response_ghosts_fixed : forall rv old r s, fix_vote_match rv = true -> response_ghosts rv old r s = [].
Proof.
  intros rv old r s F. unfold response_ghosts, vote_counts. rewrite F. cbn [negb orb].
  destruct (q_term r =? n_term old); cbn; rewrite ?andb_false_r; reflexivity.
Qed.

(* the highest voted term is bounded by any bound on the GVote entries of the voter *)
Lemma voted_term_le : forall h v T,
  (forall t cd, In (v, t, cd) (supports h) -> t <= T) -> voted_term h v <= T.
Proof.
  intros h v T H. unfold voted_term.
  assert (G : forall l m, m <= T -> (forall t cd, In (v, t, cd) (supports l) -> t <= T) ->
              fold_left (fun m g => match g with GVote v' t _ => if v' =? v then N.max m t else m | _ => m end) l m <= T).
  { induction l as [|g l IH]; intros m Hm Hl; cbn [fold_left]; auto.
    apply IH.
    - destruct g as [| v' t cd | | | | |]; auto. destruct (N.eqb_spec v' v) as [->|]; auto.
      apply N.max_lub; auto. apply (Hl t cd). cbn. auto.
    - intros t cd Hin. apply (Hl t cd). change (g :: l) with ([g] ++ l). rewrite supports_app. apply in_or_app. auto. }
  apply G; auto. lia.
Qed.

(* ================================================================== the invariant *)

Record K (c : cluster) : Prop := {
  k_cinv : cinv c;
  k_term : forall k nd t cd, nth_error (c_nodes c) k = Some nd -> In (N.of_nat k, t, cd) (supports (c_hist c)) -> t <= n_term nd;
  k_once : forall v t c1 c2, In (v, t, c1) (supports (c_hist c)) -> In (v, t, c2) (supports (c_hist c)) -> c1 = c2;
  k_noack : ack_below_vote_b (c_hist c) = false;
  k_nostale : stale_vote_b (c_hist c) = false }.

(* node i goes from nd to nd' without lowering its term; the step records at most one new support, by i, for a
   term above nd's and at most nd''s *)
Lemma K_put : forall c i nd nd' net g,
  K c -> cinv (mkCluster (put_node c i nd') net (c_hist c ++ g)) ->
  get_node c i = Some nd -> n_term nd <= n_term nd' ->
  (supports g = [] \/ exists t cd, supports g = [(i, t, cd)] /\ n_term nd < t /\ t <= n_term nd') ->
  ack_below_vote_b g = false -> stale_vote_b g = false ->
  K (mkCluster (put_node c i nd') net (c_hist c ++ g)).
Proof.
  intros c i nd nd' net g Kc CI G T Sg A S. unfold get_node in G.
  constructor; auto; cbn [c_nodes c_hist].
  - intros k x t cd Hk Hin. unfold put_node in Hk. rewrite supports_app in Hin.
    destruct (Nat.eq_dec (N.to_nat i) k) as [<-|Hne].
    + rewrite (nth_error_upd_nth_eq _ _ _ _ _ G) in Hk. inversion Hk; subst x.
      apply in_app_or in Hin as [Hin|Hin].
      * pose proof (k_term _ Kc _ _ _ _ G Hin). lia.
      * destruct Sg as [E|(t0 & cd0 & E & L1 & L2)]; rewrite E in Hin; [destruct Hin|].
        destruct Hin as [Hin|[]]. inversion Hin; subst. lia.
    + rewrite nth_error_upd_nth_neq in Hk by auto.
      apply in_app_or in Hin as [Hin|Hin].
      * eapply (k_term _ Kc); eauto.
      * destruct Sg as [E|(t0 & cd0 & E & L1 & L2)]; rewrite E in Hin; [destruct Hin|].
        destruct Hin as [Hin|[]]. inversion Hin; subst. lia.
  - intros v t c1 c2 H1 H2. rewrite supports_app in H1, H2.
    assert (Old : forall cd, In (i, t, cd) (supports (c_hist c)) -> t <= n_term nd).
    { intros cd Hin. apply (k_term _ Kc (N.to_nat i) nd t cd G). rewrite N2Nat.id. exact Hin. }
    apply in_app_or in H1 as [H1|H1]; apply in_app_or in H2 as [H2|H2].
    + eapply (k_once _ Kc); eauto.
    + destruct Sg as [E|(t0 & cd0 & E & L1 & L2)]; rewrite E in H2; [destruct H2|].
      destruct H2 as [H2|[]]. inversion H2; subst. specialize (Old _ H1). lia.
    + destruct Sg as [E|(t0 & cd0 & E & L1 & L2)]; rewrite E in H1; [destruct H1|].
      destruct H1 as [H1|[]]. inversion H1; subst. specialize (Old _ H2). lia.
    + destruct Sg as [E|(t0 & cd0 & E & L1 & L2)]; rewrite E in H1, H2; [destruct H1|].
      destruct H1 as [H1|[]]. destruct H2 as [H2|[]]. congruence.
  - rewrite ack_below_app, (k_noack _ Kc), A. reflexivity.
  - rewrite stale_app, (k_nostale _ Kc), S. reflexivity.
Qed.

Lemma K_same_hist : forall c c',
  K c -> cinv c' -> c_nodes c' = c_nodes c -> c_hist c' = c_hist c -> K c'.
Proof.
  intros c c' Kc I N H. constructor; auto; rewrite ?N, ?H.
  - apply (k_term _ Kc).
  - apply (k_once _ Kc).
  - apply (k_noack _ Kc).
  - apply (k_nostale _ Kc).
Qed.

Theorem K_step : forall rv c e,
  fix_vote_term rv = true -> fix_vote_match rv = true -> K c -> K (step rv c e).
Proof.
  intros rv c e FT FM Kc.
  pose proof (proj1 (step_inv rv c e (k_cinv _ Kc))) as CI.
  destruct (k_cinv _ Kc) as [HN HM].
  destruct e as [i el due | k el | k | k | i d]; cbn [step] in *.
  - (* Tick *)
    destruct (get_node c i) as [nd|] eqn:G; [|exact Kc].
    pose proof (term_process nd el due) as Tm.
    pose proof (process_keeps nd el due) as Kp.
    destruct (process nd el due) as [nd' reqs]. cbn [fst snd] in *.
    apply (K_put c i nd nd'); auto; try lia.
    + left. rewrite supports_node_ghosts.
      destruct (is_candidate (n_state nd')) eqn:C; cbn [andb]; auto.
      assert (E : nd' = nd) by (apply Kp; unfold cl; rewrite C; reflexivity). subst nd'.
      rewrite C, N.eqb_refl. reflexivity.
    + apply ack_below_node_ghosts.
    + apply stale_node_ghosts.
  - (* Deliver *)
    destruct (nth_error (c_net c) k) as [[r | r s]|] eqn:Hk; [| |exact Kc].
    + (* request *)
      pose proof (HM _ (nth_error_In _ _ Hk)) as Hok. cbn in Hok.
      destruct (get_node c (q_to r)) as [nd|] eqn:G.
      2:{ eapply K_same_hist; eauto. }
      pose proof (get_node_index _ _ _ HN G) as Ei.
      assert (Hne : q_from r <> n_index nd) by congruence.
      pose proof (good_request rv nd r el (proj1 (HN _ _ G)) Hne) as [_ St].
      pose proof (request_keeps rv nd r el) as Kp.
      pose proof (request_term rv nd r el) as (T1 & T2 & T3).
      destruct (handle_request rv nd r el) as [nd' s]. cbn [fst snd] in *.
      destruct St as (Hi & _).
      assert (NoC : supports (node_ghosts nd nd') = []).
      { rewrite supports_node_ghosts.
        destruct (is_candidate (n_state nd')) eqn:C; cbn [andb]; auto.
        assert (E : nd' = nd) by (apply Kp; unfold cl; rewrite C; reflexivity). subst nd'.
        rewrite C, N.eqb_refl. reflexivity. }
      apply (K_put c (q_to r) nd nd'); auto.
      * rewrite supports_app, NoC, app_nil_r, supports_request_ghosts.
        destruct (is_vote (q_kind r) && is_ok (s_result s)) eqn:V; [|left; reflexivity].
        right. exists (q_term r), (q_from r). destruct (T2 eq_refl) as [L E]. specialize (E FT).
        split; [rewrite Hi, Ei; reflexivity|]. split; lia.
      * rewrite ack_below_app, ack_below_node_ghosts, orb_false_r.
        apply ack_below_request_ghosts.
        destruct (is_append_or_hb (q_kind r) && is_ok (s_result s)) eqn:A; cbn [andb]; auto.
        specialize (T3 eq_refl). apply N.ltb_ge.
        assert (V : voted_term (c_hist c) (n_index nd') <= n_term nd).
        { apply voted_term_le. intros t cd Hin. rewrite Hi, Ei in Hin.
          apply (k_term _ Kc (N.to_nat (q_to r)) nd t cd G). rewrite N2Nat.id. exact Hin. }
        lia.
      * rewrite stale_app, stale_request_ghosts, stale_node_ghosts. reflexivity.
    + (* response *)
      pose proof (HM _ (nth_error_In _ _ Hk)) as Hok. cbn in Hok. destruct Hok as [Hft Hto].
      destruct (get_node c (s_to s)) as [nd|] eqn:G.
      2:{ eapply K_same_hist; eauto. }
      pose proof (get_node_index _ _ _ HN G) as Ei.
      assert (Hne : q_to r <> n_index nd) by congruence.
      pose proof (good_response rv nd r s (proj1 (HN _ _ G)) Hne) as [_ St].
      pose proof (response_term rv nd r s FM) as T1.
      pose proof (response_new_candidacy rv nd r s) as T2.
      destruct (handle_response rv nd r s) as [nd' reqs]. cbn [fst snd] in *.
      destruct St as (Hi & _).
      rewrite (response_ghosts_fixed rv nd r s FM) in *. cbn [app] in *.
      apply (K_put c (s_to s) nd nd'); auto.
      * rewrite supports_node_ghosts.
        destruct (is_candidate (n_state nd') && negb (is_candidate (n_state nd) && (n_term nd =? n_term nd'))) eqn:C;
          [|left; reflexivity].
        right. exists (n_term nd'), (n_index nd'). specialize (T2 eq_refl).
        split; [rewrite Hi, Ei; reflexivity|]. split; lia.
      * apply ack_below_node_ghosts.
      * apply stale_node_ghosts.
  - (* Drop *)
    eapply K_same_hist; eauto.
  - (* Duplicate *)
    destruct (nth_error (c_net c) k) as [m0|] eqn:Hk; [|exact Kc].
    eapply K_same_hist; eauto.
  - (* ClientAppend *)
    destruct (get_node c i) as [nd|] eqn:G; [|exact Kc].
    destruct (is_leader (n_state nd)) eqn:L; [|exact Kc].
    pose proof (term_append nd d) as Tm.
    pose proof (append_state nd d) as As.
    destruct (append nd d) as [nd' reqs]. cbn [fst snd] in *.
    apply (K_put c i nd nd'); auto; try lia.
    + left. rewrite supports_node_ghosts, As.
      destruct (n_state nd); try discriminate. reflexivity.
    + apply ack_below_node_ghosts.
    + apply stale_node_ghosts.
Qed.

Lemma run_K : forall rv evs c,
  fix_vote_term rv = true -> fix_vote_match rv = true -> K c -> K (run_from rv c evs).
Proof.
  intros rv. induction evs as [|e evs IH]; intros c FT FM Kc; cbn [run_from fold_left] in *; auto.
  apply IH; auto. apply K_step; auto.
Qed.

Lemma init_K : forall size, size <> 1 -> K (init_default size).
Proof.
  intros size Hs. apply N.eqb_neq in Hs as Hs'.
  assert (H : c_hist (init_default size) = []).
  { unfold init_default, init. cbn [c_hist]. rewrite Hs'. reflexivity. }
  constructor; rewrite ?H; auto.
  - apply init_inv; auto.
  - intros k nd t cd _ [].
  - intros v t c1 c2 [].
Qed.

Lemma double_vote_of_once : forall h,
  (forall v t c1 c2, In (v, t, c1) (supports h) -> In (v, t, c2) (supports h) -> c1 = c2) -> double_vote_b h = false.
Proof.
  intros h H. unfold double_vote_b.
  destruct (existsb _ (supports h)) eqn:E; auto. exfalso.
  apply existsb_exists in E as [[[v1 t1] c1] [H1 E]].
  apply existsb_exists in E as [[[v2 t2] c2] [H2 E]].
  apply andb_true_iff in E as [E E3]. apply andb_true_iff in E as [E1 E2].
  apply N.eqb_eq in E1, E2. subst v2 t2. apply negb_true_iff in E3. apply N.eqb_neq in E3.
  apply E3. eapply H; eauto.
Qed.

(* the three defect classes rooted in the election code never occur in a revision with both election repairs
   (whatever the third flag, the acknowledgement repair, is: `rr_fixed` and `rr_before_ack_fix`) *)
Theorem elect_fixed_no_election_classes : forall rv size evs,
  fix_vote_term rv = true -> fix_vote_match rv = true ->
  size <> 1 ->
  let h := c_hist (run rv size evs) in
  double_vote_b h = false /\ stale_vote_b h = false /\ ack_below_vote_b h = false.
Proof.
  intros rv size evs F1 F2 Hs. cbv zeta. unfold run.
  pose proof (run_K rv evs _ F1 F2 (init_K size Hs)) as Kr.
  split; [|split].
  - apply double_vote_of_once. apply (k_once _ Kr).
  - apply (k_nostale _ Kr).
  - apply (k_noack _ Kr).
Qed.

Theorem fixed_no_election_classes : forall size evs,
  size <> 1 ->
  let h := c_hist (run rr_fixed size evs) in
  double_vote_b h = false /\ stale_vote_b h = false /\ ack_below_vote_b h = false.
Proof. intros size evs. apply elect_fixed_no_election_classes; reflexivity. Qed.

(* ================================================================== the one-node cluster *)

(* a cluster of one node exchanges no messages: the node is Leader of term 1 from the start and nobody else ever is *)
Record K1 (c : cluster) : Prop := {
  k1_net : c_net c = [];
  k1_nodes : exists nd, c_nodes c = [nd] /\ n_state nd = Leader /\ n_index nd = 0 /\ length (n_peers nd) = 1%nat;
  k1_leaders : leaders (c_hist c) = [(0, 1)] }.

Lemma others_single : forall nd, n_index nd = 0 -> length (n_peers nd) = 1%nat -> others nd = [].
Proof. intros nd I L. unfold others, indices. rewrite L, I. reflexivity. Qed.

Lemma append_index_len : forall nd d,
  n_index (fst (append nd d)) = n_index nd /\ length (n_peers (fst (append nd d))) = length (n_peers nd).
Proof. intros. unfold append. cbn [fst]. destruct (_ =? 1); cbn; rewrite ?upd_nth_length; auto. Qed.

Lemma K1_step : forall rv c e, K1 c -> K1 (step rv c e).
Proof.
  intros rv c e [Hn (nd & Hc & S & I & L) Hl].
  destruct e as [i el due | k el | k | k | i d]; cbn [step].
  - unfold get_node. rewrite Hc.
    destruct (N.to_nat i) as [|j] eqn:Ej; cbn [nth_error]; [|destruct j; constructor; eauto].
    unfold process. rewrite S. rewrite (others_single nd I L). cbn [filter map].
    constructor; cbn [c_net c_nodes c_hist].
    + rewrite Hn. reflexivity.
    + exists nd. unfold put_node. rewrite Hc, Ej. cbn. auto.
    + rewrite leaders_app, leaders_node_ghosts, S, Hl. reflexivity.
  - rewrite Hn. destruct k; cbn [nth_error]; constructor; eauto.
  - constructor; cbn [c_net c_nodes c_hist]; eauto. rewrite Hn. destruct k; reflexivity.
  - rewrite Hn. destruct k; cbn [nth_error]; constructor; eauto.
  - unfold get_node. rewrite Hc.
    destruct (N.to_nat i) as [|j] eqn:Ej; cbn [nth_error]; [|destruct j; constructor; eauto].
    rewrite S. cbn [is_leader].
    pose proof (append_state nd d) as As.
    assert (R : snd (append nd d) = []).
    { unfold append. cbn [snd].
      rewrite (others_single (upd_local nd (fun p => p_set_log (p_li p + 1) (n_term nd) p))); auto.
      unfold upd_local, upd_peer. cbn. rewrite upd_nth_length. exact L. }
    pose proof (append_index_len nd d) as (I' & L').
    destruct (append nd d) as [nd' reqs]. cbn [fst snd] in *. subst reqs.
    constructor; cbn [c_net c_nodes c_hist].
    + rewrite Hn. reflexivity.
    + exists nd'. unfold put_node. rewrite Hc, Ej. cbn. repeat split; try congruence.
    + rewrite leaders_app, leaders_node_ghosts, As, S, Hl. reflexivity.
Qed.

Lemma run_K1 : forall rv evs c, K1 c -> K1 (run_from rv c evs).
Proof.
  intros rv. induction evs as [|e evs IH]; intros c Kc; cbn [run_from fold_left]; auto.
  apply IH. apply K1_step; auto.
Qed.

Lemma init_K1 : K1 (init_default 1).
Proof. constructor; cbn; eauto. eexists; repeat split; reflexivity. Qed.

(* ================================================================== C27, full statement, repaired revision *)

(* for EVERY cluster size and EVERY adversarial event list (delivery in any order, loss, duplication, arbitrary
   timer readings, client appends): no two distinct nodes ever become Leader with the same term *)
Theorem election_safety_elect_fixed : forall rv size evs,
  fix_vote_term rv = true -> fix_vote_match rv = true -> election_safety (c_hist (run rv size evs)).
Proof.
  intros rv size evs F1 F2. destruct (N.eq_dec size 1) as [->|Hs].
  - pose proof (run_K1 rv evs _ init_K1) as Kr. unfold run.
    intros i j t Hi Hj. rewrite (k1_leaders _ Kr) in Hi, Hj.
    destruct Hi as [Hi|[]]. destruct Hj as [Hj|[]]. congruence.
  - destruct (elect_fixed_no_election_classes rv size evs F1 F2 Hs) as (DV & _ & _).
    apply election_safety_cond; auto.
Qed.

Theorem election_safety_fixed : forall size evs, election_safety (c_hist (run rr_fixed size evs)).
Proof. intros. apply election_safety_elect_fixed; reflexivity. Qed.

(* today's /repo: both election repairs, not yet the acknowledgement repair *)
Theorem election_safety_before_ack_fix : forall size evs, election_safety (c_hist (run rr_before_ack_fix size evs)).
Proof. intros. apply election_safety_elect_fixed; reflexivity. Qed.

(* non-vacuity: a run of the repaired revision that elects four leaders in four terms; the event lists that
   gave two leaders of term 1 before the repairs now elect exactly one; a one-node cluster *)
Lemma election_fixed_example :
  leaders (c_hist (run rr_fixed w29_old_term_commit_n w29_old_term_commit)) = [(0, 1); (2, 2); (0, 3); (2, 4)] /\
  leaders (c_hist (run rr_fixed w27_double_vote_n w27_double_vote)) = [(0, 1)] /\
  leaders (c_hist (run rr_fixed w27_stale_vote_n w27_stale_vote)) = [(2, 1)] /\
  leaders (c_hist (run rr_fixed 1 [ClientAppend 0 7; Tick 0 0 []])) = [(0, 1)].
Proof. vm_compute. auto. Qed.
