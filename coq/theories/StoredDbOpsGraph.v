(* StoredDbOpsGraph.v — proofs (stored database, part 10): graph.rs's insert_node / insert_edge as programs over the
   storage (StoredDbOps.v) compute Graph.v's functions on the four arrays a stored graph represents.

     so_graph_ok G          what the code needs of the arrays to run without an error / a u64 wrap (each a consequence
                            of C08's well-formedness + a capacity below 2^60; stated explicitly, nothing else assumed):
                            four arrays of one length n, 1 <= n < 2^60; the free-list head from_meta[0] is i64::MIN or
                            has magnitude < n; the node count to_meta[0] is in [0, 2^63 - 1)
     gget_spec / gset_spec / ggrow_spec     the GraphData interface at the level of `graph` (any transaction depth)
     so_get_free_index_spec, so_graph_insert_node_spec   Graph.get_free_index, Graph.insert_node *)
From Agdb Require Import Bytes BytesProofs Utf8 Codec DbValue ValueIndex Graph DbModel Records RecordsProofs Storage StorageSpec
  StorageLayout Collections CollValues CollWp CollBytes CollVecBase CollVecOps CollVec CollVec2 CollElems CollSep CollMap
  CollGraph CollValuesProofs StoredDb StoredDbRep StoredDbFrame StoredDbOps.
From Coq Require Import ZifyBool ZifyNat ZifyN.
Ltac Zify.zify_post_hook ::= Z.div_mod_to_equations.
Open Scope N_scope.
Arguments N.add : simpl never.
Arguments N.mul : simpl never.
Arguments N.sub : simpl never.
Arguments N.of_nat : simpl never.
Arguments N.to_nat : simpl never.
Arguments N.eqb : simpl never.
Arguments N.ltb : simpl never.
Arguments N.leb : simpl never.
Arguments N.div : simpl never.

(* ---------------- the arrays of Graph.v through the field selector ---------------- *)
Definition garr (G : graph) (f : cg_field) : list Z := ga_get (sd_arrays G) f.
Definition gset (G : graph) (f : cg_field) (i v : Z) : graph :=
  sd_graph_of (ga_put (sd_arrays G) f (Graph.set (garr G f) i v)).

Lemma gset_from G i v : gset G GfFrom i v = set_from G i v. Proof. reflexivity. Qed.
Lemma gset_to G i v : gset G GfTo i v = set_to G i v. Proof. reflexivity. Qed.
Lemma gset_fmeta G i v : gset G GfFromMeta i v = set_fmeta G i v. Proof. reflexivity. Qed.
Lemma gset_tmeta G i v : gset G GfToMeta i v = set_tmeta G i v. Proof. reflexivity. Qed.

Lemma zabs_as_u64 i : N.to_nat (cg_as_u64 i) = zabs_nat i.
Proof. unfold cg_as_u64, zabs_nat. lia. Qed.

Lemma set_nth_cl_upd : forall (l : list Z) n v, set_nth l n v = cl_upd l n v.
Proof. induction l as [|x r IH]; intros [|n] v; cbn [set_nth cl_upd]; try reflexivity; rewrite IH; reflexivity. Qed.

Lemma set_nth_length : forall (l : list Z) n v, length (set_nth l n v) = length l.
Proof. induction l as [|x r IH]; intros [|n] v; cbn [set_nth length]; try reflexivity. rewrite IH. reflexivity. Qed.

Lemma nth_set_nth : forall (l : list Z) n m v, (n < length l)%nat ->
  nth m (set_nth l n v) 0%Z = if Nat.eqb m n then v else nth m l 0%Z.
Proof.
  induction l as [|x r IH]; intros [|n] [|m] v H; cbn [set_nth nth length Nat.eqb] in *; try lia; try reflexivity.
  apply IH. lia.
Qed.

Lemma nth_error_nth_Z (l : list Z) n : (n < length l)%nat -> nth_error l n = Some (nth n l 0%Z).
Proof. revert n. induction l as [|x r IH]; intros [|n] H; cbn [nth_error nth length] in *; try lia; [reflexivity|apply IH; lia]. Qed.

Lemma sd_arrays_gset G f i v : sd_arrays (gset G f i v) = ga_put (sd_arrays G) f (cl_upd (garr G f) (N.to_nat (cg_as_u64 i)) v).
Proof. unfold gset. rewrite sd_arrays_of. unfold Graph.set. rewrite set_nth_cl_upd, zabs_as_u64. reflexivity. Qed.

(* the elements of a stored i64 vector are i64 values *)
Lemma vrepZ_range g h bss l : vrepZ g h bss l -> Forall i64_range l.
Proof.
  intros HR. pose proof (vi_elems _ _ _ _ _ _ _ _ (vr_inv _ _ _ _ _ _ _ HR)) as HE. clear HR.
  induction HE as [|b x bs xs Hx _ IH]; constructor; [|exact IH]. destruct Hx as [_ Hv]. exact Hv.
Qed.

Lemma grep_range g d s G f i : grep g d s (sd_arrays G) -> i64_range (get (garr G f) i).
Proof.
  intros H. pose proof (vrepZ_range _ _ _ _ (gr_vec _ _ _ _ H f)) as HF. fold (garr G f) in HF.
  unfold get. destruct (Nat.lt_ge_cases (zabs_nat i) (length (garr G f))) as [Hl|Hl].
  - rewrite Forall_forall in HF. apply HF. apply nth_In. exact Hl.
  - rewrite nth_overflow by exact Hl. unfold i64_range. lia.
Qed.

Lemma cg_with_eta d : cg_with d (cg_from d) (cg_to d) (cg_from_meta d) (cg_to_meta d) = d.
Proof. destruct d. reflexivity. Qed.

Section GraphOps.
  Variable fl : bool.

  Lemma gget_spec d s G f i sp (Q : cres Z -> spec -> Prop) :
    grep (hp sp) d s (sd_arrays G) -> (zabs_nat i < length (garr G f))%nat ->
    Q (CrOk (get (garr G f) i)) sp -> cwp fl (cg_get d f i) sp Q.
  Proof.
    intros H Hi HQ. unfold cg_get. eapply cv_value_spec; [exact (gr_vec _ _ _ _ H f)|].
    fold (garr G f). rewrite zabs_as_u64, (nth_error_nth_Z _ _ Hi). exact HQ.
  Qed.

  Lemma gset_spec d s G f i v sp (Q : cres unit -> spec -> Prop) :
    grep (hp sp) d s (sd_arrays G) -> i64_range v -> (zabs_nat i < length (garr G f))%nat ->
    (forall s' sp', grep (hp sp') d s' (sd_arrays (gset G f i v)) -> sdepth sp' = sdepth sp ->
        frame (hp sp) (hp sp') (gfoot d s) (gfoot d s') -> Q (CrOk tt) sp') ->
    cwp fl (cg_set d f i v) sp Q.
  Proof.
    intros H Hv Hi HQ. eapply cg_set_spec; [exact H|exact Hv|]. fold (garr G f).
    destruct (N.leb_spec (lenN (garr G f)) (cg_as_u64 i)) as [X|_].
    { pose proof (zabs_as_u64 i). unfold lenN in X. lia. }
    intros s' sp' H' Hd Hf. rewrite cg_with_eta in H'. rewrite <- sd_arrays_gset in H'. eapply HQ; eassumption.
  Qed.

  Lemma ggrow_spec d s G sp (Q : cres cg_data -> spec -> Prop) :
    grep (hp sp) d s (sd_arrays G) -> ga_fits (sd_arrays (grow G)) ->
    (forall d' s' sp', grep (hp sp') d' s' (sd_arrays (grow G)) -> cg_index d' = cg_index d -> sdepth sp' = sdepth sp ->
        frame (hp sp) (hp sp') (gfoot d s) (gfoot d' s') -> Q (CrOk d') sp') ->
    cwp fl (cg_grow d) sp Q.
  Proof.
    intros H Hfit HQ. unfold cg_grow. set (a := sd_arrays G) in *.
    assert (Hf4 : forall f, 8 + ce_size ce_i64 * (lenN (ga_get a f) + 1) < two64).
    { intros f. specialize (Hfit f). destruct f; cbn [a sd_arrays grow ga_get ga_from ga_to ga_from_meta ga_to_meta g_from g_to g_fmeta g_tmeta] in *;
        rewrite lenN_app in Hfit; unfold lenN in *; cbn [length ce_size ce_i64] in *; lia. }
    assert (Z0ok : i64_range 0%Z) by (unfold i64_range; lia).
    apply cwp_bind. eapply cv_push_spec; [exact (gr_vec _ _ _ _ H GfFrom)|exact Z0ok|apply (Hf4 GfFrom)|].
    intros h1 s1 sp1 R1 I1 D1 F1. cbn [kont].
    destruct (grep_update _ _ _ _ _ GfFrom _ _ _ H I1 R1 F1) as [H1 Ff1].
    apply cwp_bind. eapply cv_push_spec; [exact (gr_vec _ _ _ _ H1 GfTo)|exact Z0ok|apply (Hf4 GfTo)|].
    intros h2 s2 sp2 R2 I2 D2 F2. cbn [kont].
    destruct (grep_update _ _ _ _ _ GfTo _ _ _ H1 I2 R2 F2) as [H2 Ff2].
    apply cwp_bind. eapply cv_push_spec; [exact (gr_vec _ _ _ _ H2 GfFromMeta)|exact Z0ok|apply (Hf4 GfFromMeta)|].
    intros h3 s3 sp3 R3 I3 D3 F3. cbn [kont].
    destruct (grep_update _ _ _ _ _ GfFromMeta _ _ _ H2 I3 R3 F3) as [H3 Ff3].
    apply cwp_bind. eapply cv_push_spec; [exact (gr_vec _ _ _ _ H3 GfToMeta)|exact Z0ok|apply (Hf4 GfToMeta)|].
    intros h4 s4 sp4 R4 I4 D4 F4. cbn [kont cwp].
    destruct (grep_update _ _ _ _ _ GfToMeta _ _ _ H3 I4 R4 F4) as [H4 Ff4].
    eapply HQ; [exact H4|reflexivity|lia|].
    eapply frame_trans; [exact Ff1|]. eapply frame_trans; [exact Ff2|]. eapply frame_trans; [exact Ff3|exact Ff4].
  Qed.

  (* ---------------- what the code needs of the arrays ---------------- *)
  Record so_graph_ok (G : graph) : Prop := {
    go_to : length (g_to G) = length (g_from G);
    go_fmeta : length (g_fmeta G) = length (g_from G);
    go_tmeta : length (g_tmeta G) = length (g_from G);
    go_pos : (1 <= length (g_from G))%nat;
    go_cap : (Z.of_nat (length (g_from G)) < 1152921504606846976)%Z;                         (* 2^60 *)
    go_free : fmeta G 0 <> i64_min -> (zabs_nat (fmeta G 0) < length (g_from G))%nat;
    go_count : (0 <= tmeta G 0 < 9223372036854775807)%Z
  }.

  Lemma garr_length G f : so_graph_ok G -> length (garr G f) = length (g_from G).
  Proof. intros [A B C _ _ _ _]. destruct f; cbn [garr ga_get sd_arrays ga_from ga_to ga_from_meta ga_to_meta]; auto. Qed.

  Lemma cap_of_grep g d s G : grep g d s (sd_arrays G) -> cg_capacity d = lenN (g_from G).
  Proof. intros H. exact (vr_len _ _ _ _ _ _ _ (gr_vec _ _ _ _ H GfFrom)). Qed.

  Lemma zabs_opp i : zabs_nat (- i) = zabs_nat i.
  Proof. unfold zabs_nat. rewrite Z.abs_opp. reflexivity. Qed.

  (* ---------------- get_free_index ---------------- *)
  Lemma so_get_free_index_spec d s G sp (Q : cres (cg_data * Z) -> spec -> Prop) :
    grep (hp sp) d s (sd_arrays G) -> so_graph_ok G ->
    (forall d' s' sp', grep (hp sp') d' s' (sd_arrays (snd (get_free_index G))) -> cg_index d' = cg_index d ->
        sdepth sp' = sdepth sp -> frame (hp sp) (hp sp') (gfoot d s) (gfoot d' s') ->
        Q (CrOk (d', fst (get_free_index G))) sp') ->
    cwp fl (so_get_free_index d) sp Q.
  Proof.
    intros H OK HQ. pose proof OK as [Lt Lfm Ltm Lpos Lcap Lfree Lcnt].
    assert (LA : forall f, length (garr G f) = length (g_from G)) by (intros f; apply garr_length; exact OK).
    unfold so_get_free_index, cg_free_index.
    apply cwp_bind. eapply cv_value_spec; [exact (gr_vec _ _ _ _ H GfFromMeta)|].
    change (ga_get (sd_arrays G) GfFromMeta) with (g_fmeta G). change (N.to_nat 0) with 0%nat.
    rewrite (nth_error_nth_Z (g_fmeta G) 0) by lia. cbn [kont].
    change (nth 0 (g_fmeta G) 0%Z) with (fmeta G 0).
    unfold get_free_index in HQ. change cg_i64_min with i64_min.
    destruct (Z.eqb_spec (fmeta G 0) i64_min) as [E|NE]; cbn [fst snd] in HQ.
    - (* grow *)
      apply cwp_bind. eapply ggrow_spec; [exact H| |].
      + intros f. destruct f; cbn [sd_arrays grow ga_get ga_from ga_to ga_from_meta ga_to_meta g_from g_to g_fmeta g_tmeta];
          rewrite lenN_app; unfold lenN, two64; cbn [length]; lia.
      + intros d' s' sp' H' I' D' F'. cbn [kont cwp]. rewrite (cap_of_grep _ _ _ _ H).
        replace (u2z (lenN (g_from G))) with (capacity G); [eapply HQ; eassumption|].
        unfold capacity, u2z, lenN, two63. destruct (N.ltb_spec (N.of_nat (length (g_from G))) 9223372036854775808); lia.
    - (* pop the free list *)
      specialize (Lfree NE). set (index := fmeta G 0) in *.
      apply cwp_bind. eapply (gget_spec d s G GfFromMeta); [exact H|rewrite zabs_opp, LA; exact Lfree|]. cbn [kont].
      change (get (garr G GfFromMeta) (- index)) with (fmeta G (- index)).
      apply cwp_bind. eapply (gset_spec d s G GfFromMeta); [exact H|apply (grep_range _ _ _ G GfFromMeta (- index) H)|rewrite LA; cbn; lia|].
      intros s1 sp1 H1 D1 F1. cbn [kont]. rewrite gset_fmeta in H1.
      apply cwp_bind. eapply (gset_spec d s1 _ GfFromMeta); [exact H1|unfold i64_range; lia| |].
      { cbn [garr ga_get sd_arrays ga_from_meta set_fmeta g_fmeta]. unfold Graph.set. rewrite set_nth_length, zabs_opp, Lfm. exact Lfree. }
      intros s2 sp2 H2 D2 F2. cbn [kont cwp]. rewrite gset_fmeta in H2.
      eapply HQ; [exact H2|reflexivity|lia|eapply frame_trans; eassumption].
  Qed.

  (* get_free_index keeps what insert_node needs next *)
  Lemma get_free_index_tmeta G : so_graph_ok G ->
    tmeta (snd (get_free_index G)) 0 = tmeta G 0 /\ (1 <= length (g_tmeta (snd (get_free_index G))))%nat.
  Proof.
    intros [Lt Lfm Ltm Lpos _ _ _]. unfold get_free_index. destruct (fmeta G 0 =? i64_min)%Z; cbn [snd].
    - unfold tmeta, get, grow. cbn [g_tmeta zabs_nat]. rewrite app_length. split; [|lia].
      change (zabs_nat 0) with 0%nat. rewrite app_nth1 by lia. reflexivity.
    - cbn [set_fmeta tmeta g_tmeta]. split; [reflexivity|lia].
  Qed.

  (* ---------------- GraphImpl::insert_node ---------------- *)
  Theorem so_graph_insert_node_spec d s G sp (Q : cres (cg_data * Z) -> spec -> Prop) :
    grep (hp sp) d s (sd_arrays G) -> so_graph_ok G ->
    (forall d' s' sp', grep (hp sp') d' s' (sd_arrays (snd (insert_node G))) -> cg_index d' = cg_index d ->
        sdepth sp' = sdepth sp -> frame (hp sp) (hp sp') (gfoot d s) (gfoot d' s') ->
        Q (CrOk (d', fst (insert_node G))) sp') ->
    cwp fl (so_graph_insert_node d) sp Q.
  Proof.
    intros H OK HQ. unfold so_graph_insert_node.
    apply cwp_bind. apply hwp_transaction. intros sp0 Hm0 Hd0. cbn [kont].
    apply cwp_bind. eapply so_get_free_index_spec; [eapply grep_heq; [exact H|exact Hm0]|exact OK|].
    intros d1 s1 sp1 H1 I1 D1 F1. cbn [kont fst snd].
    destruct (get_free_index_tmeta G OK) as [Et Lt1]. pose proof (go_count _ OK) as Hc.
    unfold insert_node in HQ. destruct (get_free_index G) as [ix G1] eqn:EG. cbn [fst snd] in *.
    unfold cg_node_count.
    apply cwp_bind. apply cwp_bind. eapply cv_value_spec; [exact (gr_vec _ _ _ _ H1 GfToMeta)|].
    change (ga_get (sd_arrays G1) GfToMeta) with (g_tmeta G1). change (N.to_nat 0) with 0%nat.
    rewrite (nth_error_nth_Z (g_tmeta G1) 0) by lia. cbn [kont cwp].
    change (nth 0 (g_tmeta G1) 0%Z) with (tmeta G1 0). rewrite Et.
    assert (Ecnt : u2z (z2u (tmeta G 0) + 1) = (tmeta G 0 + 1)%Z).
    { unfold u2z, z2u, two63. destruct (N.ltb_spec (Z.to_N (tmeta G 0 mod 18446744073709551616) + 1) 9223372036854775808); lia. }
    apply cwp_bind. change (cg_set_node_count d1 (z2u (tmeta G 0) + 1)) with (cg_set d1 GfToMeta 0%Z (u2z (z2u (tmeta G 0) + 1))). rewrite Ecnt.

    eapply (gset_spec d1 s1 G1 GfToMeta 0%Z); [exact H1|unfold i64_range; lia|cbn [garr ga_get sd_arrays ga_to_meta]; cbn; lia|].
    intros s2 sp2 H2 D2 F2. cbn [kont cwp]. rewrite gset_tmeta in H2.
    apply cwp_bind. apply hwp_commit; [lia|lia|]. intros sp3 Hm3 Hd3. cbn [kont cwp].
    unfold node_count in HQ. rewrite Et in HQ.
    eapply HQ; [eapply grep_heq; [exact H2|exact Hm3]|exact I1|lia|].
    eapply frame_trans; [apply frame_refl; exact Hm0|]. eapply frame_trans; [exact F1|].
    eapply frame_trans; [exact F2|apply frame_refl; exact Hm3].
  Qed.
End GraphOps.
