(* HistoryAtomicExamples.v — non-vacuity of the history theorems of HistoryAtomicProofs.v (a concrete
   history with failing queries and failing transactions of the query kinds newly covered), and the
   witness showing why the quantifier `query_ok` (no insert list names a key twice) cannot be dropped
   from the "no observable effect" statement. *)
From Agdb Require Import Bytes BytesProofs DbValue Graph DbModel Search Queries Revisions
  KvProofs QueryInvProofs UndoObs UndoGraph HistoryAtomicProofs.
Open Scope Z_scope.

Definition ha_k : dbvalue := DString [x6b].
Definition ha_l : dbvalue := DString [x6c].

Definition ha_history : list hitem :=
  [ (* nodes 1 ("a", k:1) and 2 (k:2, l:3); an index on k; edge -3 : 1 -> 2 (l:5) *)
    HQuery (InsertNodes 2 (Multi [[(ha_k, DI64 1)]; [(ha_k, DI64 2); (ha_l, DI64 3)]]) [[x61]] (Ids []));
    HQuery (InsertIndex ha_k);
    HQuery (InsertEdges (Ids [QId 1]) (Ids [QId 2]) (Single [(ha_l, DI64 5)]) false (Ids []));
    (* a query failing part-way: the second id does not exist, the (indexed) value written on node 1 is rolled back *)
    HQuery (InsertValues (Ids [QId 1; QId 9]) (Single [(ha_k, DI64 7)]));
    (* a transaction failing at the end: node 1 removed through its alias (cascade: edge -3 with its value,
       alias, indexed value), a new node reusing a freed slot with the alias "b", an indexed value removed *)
    HTxn [Remove (Ids [QAlias [x61]]);
          InsertNodes 1 (Single [(ha_k, DI64 9)]) [[x62]] (Ids []);
          RemoveValues (Ids [QId 2]) [ha_k]] true;
    (* a transaction whose third query fails (node 1 is gone by then) *)
    HTxn [InsertEdges (Ids [QId 2]) (Ids [QId 1]) (Single []) false (Ids []);
          Remove (Ids [QId 1]);
          InsertEdges (Ids [QId 1]) (Ids [QId 2]) (Single []) false (Ids [])] false;
    (* and a committed removal *)
    HQuery (Remove (Ids [QId 2])) ].

Ltac kd := cbn [keys_distinct]; repeat split; (reflexivity || exact I).
Ltac fk := repeat (apply Forall_cons; [kd|]); apply Forall_nil.
Ltac qk := cbn [query_ok qvalues_ok]; first [exact I | kd | fk].
Ltac ik := cbn [item_ok]; first [qk | (repeat (apply Forall_cons; [qk|]); apply Forall_nil)].

Fixpoint failed_flags (d : db) (its : list hitem) : list bool :=
  match its with
  | [] => []
  | it :: r => item_failed rv_fixed d it :: failed_flags (run_item rv_fixed d it) r
  end.

Lemma ha_history_ok :
  Forall item_ok ha_history /\ bounded rv_fixed db_new ha_history /\
  failed_flags db_new ha_history = [false; false; false; true; true; true; false].
Proof.
  split; [|split].
  - unfold ha_history. repeat (apply Forall_cons; [ik|]). apply Forall_nil.
  - cbn [bounded ha_history]. repeat split; vm_compute; discriminate.
  - vm_compute. reflexivity.
Qed.

(* the state after the first three items, and after all seven *)
Lemma ha_history_states :
  let d3 := run_items rv_fixed db_new (firstn 3 ha_history) in
  let d6 := run_items rv_fixed db_new (firstn 6 ha_history) in
  let d7 := run_items rv_fixed db_new ha_history in
  elements (gr d3) = [1; 2; -3] /\ obs_eqb d3 d6 = true /\
  next_slots 3 (gr d3) = next_slots 3 (gr d6) /\
  search rv_fixed d6 {| s_algorithm := AIndex; s_origin := QId 0; s_destination := QId 0; s_limit := 0; s_offset := 0;
                        s_order_by := []; s_conditions := [Cond LAnd MNone (CKeyValue ha_k CEqual (DI64 1))] |} = SOk [1] /\
  imap_value (aliases d6) [x61] = Some 1 /\ imap_value (aliases d6) [x62] = None /\
  elements (gr d7) = [1] /\ undo d7 = [].
Proof. vm_compute. repeat split; reflexivity. Qed.

(* ---- why query_ok is needed -------------------------------------------------------------------
   `insert nodes values [[k:1, k:2]]` creates node 1 with TWO pairs named k (insert_key_value of a new
   element does not look for an existing key).  The transaction [remove values k from node 1; fail] is
   rolled back by re-appending the removed pairs newest first: the list comes back as [k:2, k:1].  The
   two states are equal for the observation relation of C13 (lists are compared as multisets), yet
   they are distinguishable: a key lookup reads the FIRST pair, so `search elements where k == 1` finds
   node 1 before the failed transaction and nothing after it. *)
Definition dup_d0 : db :=
  fst (exec rv_fixed db_new (InsertNodes 1 (Multi [[(ha_k, DI64 1); (ha_k, DI64 2)]]) [] (Ids []))).
Definition dup_txn : list query := [RemoveValues (Ids [QId 1]) [ha_k]].
Definition dup_d1 : db := fst (transaction rv_fixed dup_d0 dup_txn true).
Definition dup_search : search_query :=
  {| s_algorithm := AElements; s_origin := QId 0; s_destination := QId 0; s_limit := 0; s_offset := 0;
     s_order_by := []; s_conditions := [Cond LAnd MNone (CKeyValue ha_k CEqual (DI64 1))] |}.

Lemma dup_keys_witness :
  ~ query_ok (InsertNodes 1 (Multi [[(ha_k, DI64 1); (ha_k, DI64 2)]]) [] (Ids [])) /\
  snd (transaction rv_fixed dup_d0 dup_txn true) = [QOk 2 []] /\
  kvs_get (vals dup_d0) 1 = [(ha_k, DI64 1); (ha_k, DI64 2)] /\
  kvs_get (vals dup_d1) 1 = [(ha_k, DI64 2); (ha_k, DI64 1)] /\
  obs_eq dup_d0 dup_d1 /\
  search rv_fixed dup_d0 dup_search = SOk [1] /\
  search rv_fixed dup_d1 dup_search = SOk [] /\
  exec_select rv_fixed dup_d0 (SearchQ dup_search) <> exec_select rv_fixed dup_d1 (SearchQ dup_search).
Proof.
  split; [|split; [|split; [|split; [|split; [|split; [|split]]]]]].
  - cbn [query_ok qvalues_ok]. intros H. inversion H as [|? ? H1 _]; subst.
    cbn [keys_distinct] in H1. destruct H1 as [H1 _]. vm_compute in H1. discriminate.
  - vm_compute. reflexivity.
  - vm_compute. reflexivity.
  - vm_compute. reflexivity.
  - apply obs_eqb_sound. vm_compute. reflexivity.
  - vm_compute. reflexivity.
  - vm_compute. reflexivity.
  - vm_compute. discriminate.
Qed.
