(* StoredDbOpsKv3.v — proofs (stored database, part 17): DbKeyValues::insert_or_replace as a program over the storage
   computes DbModel's kvs_insert_or_replace on the values component of a stored database: valid_index, kvs (the slot
   read again, from_storage), the lazy search for the first pair with an equal key, replace in place / reserve + push. *)
From Coq Require Import Permutation.
From Agdb Require Import Bytes BytesProofs Utf8 Codec DbValue ValueIndex Graph DbModel Records RecordsProofs Storage StorageSpec
  StorageLayout Collections CollValues CollWp CollBytes CollVecBase CollVecOps CollVec CollVec2 CollElems CollSep CollMap
  CollGraph CollValuesProofs StoredDb StoredDbRep StoredDbLoad StoredDbFrame StoredDbOps StoredDbOpsKv StoredDbOpsKv2.
From Coq Require Import ZifyBool ZifyNat ZifyN.
Ltac Zify.zify_post_hook ::= Z.div_mod_to_equations.
Open Scope N_scope.
Arguments N.add : simpl never.
Arguments N.mul : simpl never.
Arguments N.sub : simpl never.
Arguments N.of_nat : simpl never.
Arguments N.to_nat : simpl never.
Arguments N.eqb : simpl never.
Arguments N.ltb : simpl never.
Arguments N.leb : simpl never.
Arguments N.div : simpl never.

(* position and value of the first pair with an equal key *)
Fixpoint kv_pos (l : list kv) (key : dbvalue) : option (nat * kv) :=
  match l with
  | [] => None
  | y :: r => if dbv_eqb (fst y) key then Some (O, y)
              else match kv_pos r key with Some (n, z) => Some (S n, z) | None => None end
  end.

Lemma replace_first_pos l x :
  replace_first l x = match kv_pos l (fst x) with Some (n, old) => Some (old, cl_upd l n x) | None => None end.
Proof.
  induction l as [|y r IH]; cbn [replace_first kv_pos]; [reflexivity|].
  destruct (dbv_eqb (fst y) (fst x)); [reflexivity|]. rewrite IH. destruct (kv_pos r (fst x)) as [[n old]|]; reflexivity.
Qed.

Lemma kv_pos_nth l key n old : kv_pos l key = Some (n, old) -> nth_error l n = Some old.
Proof.
  revert n. induction l as [|y r IH]; intros n; cbn [kv_pos]; [discriminate|].
  destruct (dbv_eqb (fst y) key); [intros [= <- <-]; reflexivity|].
  destruct (kv_pos r key) as [[m z]|]; [|discriminate]. intros [= <- <-]. cbn [nth_error]. apply IH. reflexivity.
Qed.

Lemma skipn_nth_error {A} (l : list A) n x : nth_error l n = Some x -> skipn n l = x :: skipn (S n) l.
Proof.
  revert l. induction n as [|n IH]; intros [|y t]; cbn [nth_error skipn]; try discriminate.
  - intros [= ->]. reflexivity.
  - apply IH.
Qed.

(* the model's function on a slot position *)
Definition kvs_ior (s : kvstore) (n : nat) (x : kv) : option kv * kvstore :=
  match replace_first (nth n s []) x with
  | Some (old, l') => (Some old, kvs_set_nth s n l')
  | None => (None, kvs_set_nth s n (nth n s [] ++ [x]))
  end.

Lemma kvs_ior_model s i x : kvs_insert_or_replace s i x = kvs_ior s (zabs_nat i) x.
Proof. reflexivity. Qed.

Section KvOps3.
  Variable fl : bool.

  Lemma so_kv_find_spec k bss l key sp : vrepK (hp sp) k bss l ->
    forall fuel i (Q : cres (option (N * kv)) -> spec -> Prop),
    (length l - N.to_nat i < fuel)%nat ->
    match kv_pos (skipn (N.to_nat i) l) key with
    | Some (n, y) => Q (CrOk (Some (i + N.of_nat n, y))) sp
    | None => Q (CrOk None) sp
    end ->
    cwp fl (so_kv_find k key fuel i) sp Q.
  Proof.
    intros HR. induction fuel as [|f IH]; intros i Q Hf HQ; [lia|]. cbn [so_kv_find].
    apply cwp_bind. apply cwp_try. eapply cv_value_spec; [exact HR|].
    destruct (nth_error l (N.to_nat i)) as [y|] eqn:En.
    - cbn [kont]. rewrite (skipn_nth_error _ _ _ En) in HQ. cbn [kv_pos] in HQ.
      destruct (dbv_eqb (fst y) key).
      + cbn [cwp]. replace (i + N.of_nat 0) with i in HQ by lia. exact HQ.
      + apply IH; [apply nth_error_Some_lt in En; lia|]. replace (N.to_nat (i + 1)) with (S (N.to_nat i)) by lia.
        destruct (kv_pos (skipn (S (N.to_nat i)) l) key) as [[n z]|]; [|exact HQ].
        replace (i + 1 + N.of_nat n) with (i + N.of_nat (S n)) by lia. exact HQ.
    - cbn [kont cwp]. apply nth_error_None in En. rewrite skipn_all2 in HQ by exact En. exact HQ.
  Qed.

  Theorem so_kv_insert_or_replace_spec vh vs vi vw kvs index x sp (Q : cres (cv_vec * option kv) -> spec -> Prop) :
    kvrep (hp sp) vh vs vi vw kvs -> so_index_ok index -> el_valid law_dbkv x ->
    8 + ce_size ce_dbkv * (lenN (nth (N.to_nat index) kvs []) + 1) < two64 ->
    (forall vh1 vs1 vi1 vw1 sp',
        kvrep (hp sp') vh1 vs1 vi1 vw1 (snd (kvs_ior kvs (N.to_nat index) x)) ->
        cv_index vh1 = cv_index vh -> sdepth sp' = sdepth sp ->
        frame (hp sp) (hp sp') (kvfoot vh vs vw) (kvfoot vh1 vs1 vw1) ->
        Q (CrOk (vh1, fst (kvs_ior kvs (N.to_nat index) x))) sp') ->
    cwp fl (so_kv_insert_or_replace vh index x) sp Q.
  Proof.
    intros H Hix Hx Hfit HQ. pose proof H as [A B C].
    destruct (sd_kv_rep_lengths _ _ _ _ B) as [L1 L2].
    pose proof (vr_len _ _ _ _ _ _ _ A) as Hlen. unfold lenN in Hlen.
    unfold so_kv_insert_or_replace, so_kv_valid_index.
    (* the branch that appends through insert_value *)
    assert (Hins : nth (N.to_nat index) kvs [] = [] ->
                   cwp fl (vh' <~ so_kv_insert_value vh index x ;; CRet (vh', None)) sp Q).
    { intros El. apply cwp_bind. eapply so_kv_insert_value_spec; [exact H|exact Hix|exact Hx|exact Hfit|].
      intros vh1 vs1 vi1 vw1 sp' H1 I1 D1 F1. cbn [kont cwp].
      unfold kvs_ior in HQ. rewrite El in HQ. cbn [replace_first fst snd] in HQ. rewrite El in H1. cbn [app] in *.
      eapply HQ; eassumption. }
    apply cwp_bind. destruct (N.ltb_spec index (cv_len vh)) as [Hlt|Hge].
    2:{ cbn [cwp kont negb]. apply Hins. apply nth_overflow. lia. }
    assert (Hn : (N.to_nat index < length kvs)%nat) by lia.
    destruct (sd_kv_rep_at _ _ _ _ _ B Hn) as (ia & i & ib & a & w & b & ka & l & kb & Evi & Evw & Ekvs & Lia & La & Lka & Ba & Bs & Bb).
    subst vi vw kvs.
    assert (El : nth (N.to_nat index) (ka ++ l :: kb) [] = l) by (rewrite <- Lka; apply nth_mid). pose proof Hfit as Hfit'. rewrite El in Hfit'.
    apply cwp_bind. eapply cv_value_spec; [exact A|]. rewrite <- Lia, nth_error_mid. cbn [kont cwp].
    destruct w as [[k bss]|]; cbn [sd_kv_slot_rep] in Bs.
    2:{ destruct Bs as [-> ->]. rewrite N.eqb_refl. cbn [negb]. apply Hins. exact El. }
    destruct Bs as (Hnz & Hki & HR). destruct (N.eqb_spec i 0) as [X|_]; [contradiction|]. cbn [negb].
    (* kvs: the slot again, from_storage *)
    apply cwp_bind. unfold so_kv_kvs. apply cwp_bind. eapply cv_value_spec; [exact A|]. rewrite <- Lia, nth_error_mid. cbn [kont].
    rewrite <- Hki. eapply cv_from_storage_spec; [exact HR|]. intros k' HR' Hi' Hl'. cbn [kont].
    destruct (kvrep_slot_update _ _ _ _ _ _ _ _ _ _ _ _ _ _ k' bss l H (eq_trans La (eq_sym Lia)) (eq_trans Lka (eq_sym Lia)) HR' Hi') as [H' F'].
    { unfold foot. rewrite Hi'. apply frame_refl. intros j; reflexivity. }
    (* the search *)
    apply cwp_bind. eapply so_kv_find_spec; [exact HR'|pose proof (vr_len _ _ _ _ _ _ _ HR') as X; unfold lenN in X; lia|].
    change (N.to_nat 0) with 0%nat. cbn [skipn].
    unfold kvs_ior in HQ. rewrite El, replace_first_pos in HQ. rewrite <- Lka in HQ.
    destruct (kv_pos l (fst x)) as [[n old]|] eqn:Ep; cbn [kont fst snd] in *.
    - (* replace in place *)
      apply cwp_bind. eapply cv_replace_spec; [exact HR'|exact Hx|].
      replace (N.to_nat (0 + N.of_nat n)) with n by lia. rewrite (kv_pos_nth _ _ _ _ Ep).
      intros bss2 sp2 HR2 D2 F2. cbn [kont cwp].
      destruct (kvrep_slot_update _ _ _ _ _ _ _ _ _ _ _ _ _ _ k' bss2 (cl_upd l n x) H' (eq_trans La (eq_sym Lia)) (eq_trans Lka (eq_sym Lia)) HR2 eq_refl F2) as [H3 F3].
      rewrite kvs_set_nth_mid in HQ.
      eapply HQ; [exact H3|reflexivity|exact D2|eapply frame_trans; eassumption].
    - (* append: reserve + push *)
      apply cwp_bind. eapply cv_reserve_spec; [exact HR'|]. intros k1 sp2 HR1 Ik1 _ D2 F2. cbn [kont].
      apply cwp_bind. eapply cv_push_spec; [exact HR1|exact Hx|exact Hfit'|].
      intros k2 bss2 sp3 HR2 Ik2 D3 F3. cbn [kont cwp].
      destruct (kvrep_slot_update _ _ _ _ _ _ _ _ _ _ _ _ _ _ k2 bss2 (l ++ [x]) H' (eq_trans La (eq_sym Lia)) (eq_trans Lka (eq_sym Lia)) HR2) as [H3 Fr3];
        [congruence|eapply frame_trans; eassumption|].
      rewrite kvs_set_nth_mid in HQ.
      eapply HQ; [exact H3|reflexivity|congruence|eapply frame_trans; eassumption].
  Qed.
End KvOps3.
