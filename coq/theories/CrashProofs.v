(* CrashProofs.v — C02 / C03: consequences of C01 for whole queries and transactions *)
From Agdb Require Import Bytes FileWal FileWalProofs TxnNesting.
From Coq Require Import ZifyBool ZifyNat.
Open Scope nat_scope.

(* ---- a body without flush followed by one flush: every cut recovers before or after ---- *)

Definition final_data (st : fstate) (ops : list op) : bytes :=
  data (run_calls st (trace walrev_fixed st ops)).

Lemma trace_app st a b :
  trace walrev_fixed st (a ++ b) =
  trace walrev_fixed st a ++ trace walrev_fixed (run_calls st (trace walrev_fixed st a)) b.
Proof.
  revert st; induction a as [|o r IH]; intros st; cbn [app trace]; [reflexivity|].
  rewrite IH, <- app_assoc. f_equal. f_equal. now rewrite run_calls_app.
Qed.

Lemma expect_body_flush body : no_flush body = true ->
  forall d0 st k,
    expect d0 st (body ++ [OFlush]) k = d0 \/
    expect d0 st (body ++ [OFlush]) k = final_data st body.
Proof.
  induction body as [|o r IH]; intros Hnf d0 st k.
  - cbn [app expect calls_of length]. destruct (Nat.ltb k 1); [left; reflexivity|right]. reflexivity.
  - cbn [app expect].
    destruct (Nat.ltb k (length (calls_of walrev_fixed (data st) o))); [left; reflexivity|].
    assert (Hr : no_flush r = true) by (destruct o; cbn [no_flush] in Hnf; [exact Hnf|exact Hnf|discriminate]).
    assert (E : (match o with OFlush => data (run_calls st (calls_of walrev_fixed (data st) o)) | _ => d0 end) = d0)
      by (destruct o; cbn [no_flush] in Hnf; [reflexivity|reflexivity|discriminate]).
    rewrite E.
    destruct (IH Hr d0 (run_calls st (calls_of walrev_fixed (data st) o)) (k - length (calls_of walrev_fixed (data st) o))) as [H|H];
      [left; exact H|right].
    rewrite H. unfold final_data. cbn [trace]. now rewrite run_calls_app.
Qed.

Theorem atomic_single_flush d0 body k j :
  no_flush body = true -> wp d0 (body ++ [OFlush]) ->
  let st := {| data := d0; wal := [] |} in
  let r := recover walrev_fixed (crash st (trace walrev_fixed st (body ++ [OFlush])) k j) in
  wal r = [] /\ (data r = d0 \/ data r = final_data st body).
Proof.
  intros Hnf Hwp st r. subst r. unfold st.
  rewrite (recover_from_committed d0 (body ++ [OFlush]) k j Hwp). cbn [data wal]. split; [reflexivity|].
  apply expect_body_flush. exact Hnf.
Qed.

(* ---- every cut of every operation list recovers the content of some flush point ---- *)

(* contents at the completed flushes *)
Fixpoint flush_points (st : fstate) (ops : list op) : list bytes :=
  match ops with
  | [] => []
  | o :: r =>
    let st' := run_calls st (calls_of walrev_fixed (data st) o) in
    match o with
    | OFlush => data st' :: flush_points st' r
    | _ => flush_points st' r
    end
  end.

Lemma expect_in_flush_points ops : forall d0 st k, In (expect d0 st ops k) (d0 :: flush_points st ops).
Proof.
  induction ops as [|o r IH]; intros d0 st k; cbn [expect flush_points]; [left; reflexivity|].
  destruct (Nat.ltb k (length (calls_of walrev_fixed (data st) o))); [left; reflexivity|].
  set (st' := run_calls st (calls_of walrev_fixed (data st) o)).
  destruct o.
  - destruct (IH d0 st' (k - length (calls_of walrev_fixed (data st) (OWrite pos bs)))) as [H|H]; [left; exact H|right; exact H].
  - destruct (IH d0 st' (k - length (calls_of walrev_fixed (data st) (OResize n)))) as [H|H]; [left; exact H|right; exact H].
  - destruct (IH (data st') st' (k - length (calls_of walrev_fixed (data st) OFlush))) as [H|H].
    + right. left. exact H.
    + right. right. exact H.
Qed.

Theorem crash_recovers_a_flush_point d0 ops k j :
  wp d0 ops ->
  let st := {| data := d0; wal := [] |} in
  In (data (recover walrev_fixed (crash st (trace walrev_fixed st ops) k j))) (d0 :: flush_points st ops).
Proof.
  intros Hwp st. unfold st. rewrite (recover_from_committed d0 ops k j Hwp). cbn [data].
  apply expect_in_flush_points.
Qed.

(* ---- nesting: an outer transaction suppresses every inner flush ---- *)

Lemma sd_ops_app a : forall n b, sd_ops n (a ++ b) = sd_ops n a ++ sd_ops (depth_after n a) b.
Proof.
  induction a as [|e r IH]; intros n b; cbn [app sd_ops depth_after]; [reflexivity|].
  destruct e as [| |o].
  - apply IH.
  - destruct n as [|[|m]]; cbn [Nat.pred]; rewrite IH; reflexivity.
  - now rewrite IH.
Qed.

Lemma no_flush_app a b : no_flush (a ++ b) = no_flush a && no_flush b.
Proof.
  induction a as [|o r IH]; cbn [app no_flush]; [reflexivity|]. destruct o; [exact IH|exact IH|reflexivity].
Qed.

Lemma stays_open_no_flush evs : forall n, 1 <= n -> stays_open n evs = true -> no_flush (sd_ops n evs) = true.
Proof.
  induction evs as [|e r IH]; intros n Hn H; cbn [sd_ops no_flush]; [reflexivity|].
  destruct e as [| |o]; cbn [stays_open] in H.
  - apply IH; [lia|exact H].
  - apply andb_true_iff in H as [H2 H]. apply Nat.leb_le in H2.
    destruct n as [|[|m]]; [lia|lia|]. cbn [Nat.pred] in H. apply IH; [lia|exact H].
  - apply andb_true_iff in H as [Ho H]. destruct o; cbn [no_flush]; try discriminate; apply IH; assumption.
Qed.

(* DbImpl::transaction_mut after the fix: storage.transaction(); body; storage.commit(id).
   Whatever the body does (collection operations with their own nested, matched transactions),
   the byte store sees no flush before the final one. *)
Theorem outer_transaction_single_flush body :
  stays_open 1 body = true -> depth_after 1 body = 1 ->
  exists ops, sd_ops 0 (SBegin :: body ++ [SCommit]) = ops ++ [OFlush] /\ no_flush ops = true.
Proof.
  intros Hs Hd. exists (sd_ops 1 body). split.
  - cbn [sd_ops]. rewrite sd_ops_app, Hd. reflexivity.
  - apply stays_open_no_flush; [lia|exact Hs].
Qed.

(* without the outer transaction the same body flushes in the middle (the pre-fix code) *)
Lemma no_outer_transaction_flushes_inside :
  let body := [SBegin; SData (OWrite 0 [x01]); SCommit; SBegin; SData (OWrite 1 [x02]); SCommit] in
  sd_ops 0 body = [OWrite 0 [x01]; OFlush; OWrite 1 [x02]; OFlush] /\ stays_open 1 body = true /\ depth_after 1 body = 1.
Proof. vm_compute. repeat split. Qed.

(* ---- C32: a storage transaction left open by a failed call ---- *)

(* While the nesting counter stays >= 1 (a `?` early return skipped the matching commit), no later
   operation ever flushes: whatever is done afterwards, closing (Drop = recovery) or crashing at ANY
   point brings the file back to the content of the last flush, i.e. all later work is lost. *)
Theorem leaked_transaction_loses_later_work d0 n later k j :
  1 <= n -> stays_open n later = true -> wp d0 (sd_ops n later) ->
  let st := {| data := d0; wal := [] |} in
  recover walrev_fixed (crash st (trace walrev_fixed st (sd_ops n later)) k j) = {| data := d0; wal := [] |}.
Proof.
  intros Hn Hs Hwp st. unfold st.
  rewrite (recover_from_committed d0 _ k j Hwp). f_equal.
  apply expect_no_flush. now apply stays_open_no_flush.
Qed.

(* With the counter back at 0 the next outermost transaction ends with a flush, and after a completed
   flush the content is committed: reopening yields exactly the final content. *)
Theorem flushed_work_is_kept d0 ops :
  wp d0 (ops ++ [OFlush]) ->
  let st := {| data := d0; wal := [] |} in
  let fin := run_calls st (trace walrev_fixed st (ops ++ [OFlush])) in
  recover walrev_fixed fin = {| data := data fin; wal := [] |}.
Proof.
  intros Hwp st fin.
  assert (G0 : Good d0 st) by (exists []; cbn [data wal st]; repeat split; constructor).
  (* Good is preserved along complete operations; after the final flush the log is empty *)
  assert (Gen : forall ops' st' d', Good d' st' -> wp (data st') (ops' ++ [OFlush]) ->
            let f := run_calls st' (trace walrev_fixed st' (ops' ++ [OFlush])) in
            Good (data f) f).
  { clear. induction ops' as [|o r IH]; intros st' d' HG Hwp f; subst f.
    - cbn [app trace]. rewrite app_nil_r. destruct (op_flush d' st' HG) as (_ & G & _). exact G.
    - cbn [app trace]. rewrite run_calls_app.
      destruct o as [pos bs|n|].
      + destruct Hwp as (Hb & Hpos & Hnext).
        destruct (op_write d' st' pos bs HG Hpos Hb (wp_bound _ _ Hnext)) as (_ & G' & D').
        apply (IH _ d' G'). rewrite D'. exact Hnext.
      + destruct Hwp as (Hb & Hnext). pose proof (wp_bound _ _ Hnext) as B. rewrite set_len_length in B.
        destruct (op_resize d' st' n HG Hb B) as (_ & G' & D').
        apply (IH _ d' G'). rewrite D'. exact Hnext.
      + destruct Hwp as (Hb & Hnext). destruct (op_flush d' st' HG) as (_ & G' & D').
        apply (IH _ _ G'). rewrite D'. exact Hnext. }
  specialize (Gen ops st d0 G0 Hwp). cbv zeta in Gen. fold fin in Gen.
  apply good_safe in Gen. exact Gen.
Qed.
