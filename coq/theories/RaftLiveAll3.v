(* RaftLiveAll3.v — C30, 3 nodes, ANY number of appended entries, EVERY per-channel-FIFO interleaving of the
   deliveries of each round (RaftLiveAll.pf_run: messages of one pair of nodes in order, different pairs interleave
   arbitrarily).  The steady state is generalised over the fields no handler reads in these runs (`ssx`): the leader's
   vote marks and the (term, commit) it recorded for its peers, and the followers' rows for the other nodes — the
   interleavings differ exactly there. *)
From Coq Require Import NArith List Bool Lia Arith.
From Agdb Require Import Raft RaftProofs RaftLive RaftLiveInd RaftLiveInd3 RaftLiveAll.
Import ListNotations.
Open Scope N_scope.

Definition ssx (k pt : N) (L : list entry) (v1 v2 : bool) (t1 c1 t2 c2 : N) (r10 r12 r20 r21 : peer) : cluster :=
  mkCluster
    [ mkNode 0 3 Leader 1 [mkPeer k pt k true; mkPeer k t1 c1 v1; mkPeer k t2 c2 v2] L k 0 1000 1000 3000;
      mkNode 1 3 (Follower 0) 1 [r10; mkPeer k pt k true; r12] L k 1000 1000 1000 3000;
      mkNode 2 3 (Follower 0) 1 [r20; r21; mkPeer k pt k true] L k 2000 2000 1000 3000 ]
    [] [].

(* s (nodes and network of a cluster) is a steady state with log L of k entries, pt = term of the last entry *)
Definition steady3s (k pt : N) (L : list entry) (s : cluster) : Prop :=
  exists v1 v2 t1 c1 t2 c2 r10 r12 r20 r21, s = ssx k pt L v1 v2 t1 c1 t2 c2 r10 r12 r20 r21.

Ltac fin := unfold steady3s, ssx; repeat eexists.

(* ------------------------------------------------------------------ the four kinds of round *)

(* election: EVERY interleaving (reflective exploration of RaftLive.v on the concrete initial state; two final
   states, which differ in the peer whose vote the candidate counted) *)
Lemma elect_all : forall rv c',
  dl_run rv (step rv (init_default 3) (Tick 0 0 [])) c' -> steady3s 0 0 [] (strip c').
Proof.
  intros rv c' R.
  assert (F : exists a b, finals rv 100 (strip (step rv (init_default 3) (Tick 0 0 []))) = Some [a; b] /\
                          steady3s 0 0 [] a /\ steady3s 0 0 [] b).
  { destruct rv as [[|] [|] [|]]; eexists; eexists; (split; [vm_compute; reflexivity | split; fin]). }
  destruct F as [a [b [F [Ha Hb]]]].
  destruct (finals_sound _ _ _ _ F c' R) as [y [[<-|[<-|[]]] Ey]]; rewrite <- Ey.
  - destruct Ha as [v1 [v2 [t1 [c1 [t2 [c2 [r10 [r12 [r20 [r21 ->]]]]]]]]]]. fin.
  - destruct Hb as [v1 [v2 [t1 [c1 [t2 [c2 [r10 [r12 [r20 [r21 ->]]]]]]]]]]. fin.
Qed.

(* heartbeat round from a steady state: EVERY interleaving *)
Lemma hb_all : forall rv k pt L v1 v2 t1 c1 t2 c2 r10 r12 r20 r21,
  Reach rv (steady3s k pt L) (nstep rv (ssx k pt L v1 v2 t1 c1 t2 c2 r10 r12 r20 r21) (Tick 0 1001 [1; 2])).
Proof.
  intros. unfold ssx.
  match goal with |- Reach ?rv ?G ?s => eassert (E0 : s = _) by (sym_eval; reflexivity) end.
  rewrite E0. clear E0.
  match goal with |- Reach ?rv ?G ?s => explore ltac:(idtac) rv G s ltac:(fin) ltac:(fun _ => assumption) end.
Qed.

(* append round, every per-channel-FIFO interleaving: first entry (the followers' last-entry term is 0) *)
Lemma round0_pf : forall rv d v1 v2 t1 c1 t2 c2 r10 r12 r20 r21,
  ReachP rv (steady3s 1 1 [mkEntry 1 1 d]) (nstep rv (ssx 0 0 [] v1 v2 t1 c1 t2 c2 r10 r12 r20 r21) (ClientAppend 0 d)).
Proof.
  intros. unfold ssx.
  match goal with |- ReachP ?rv ?G ?s => eassert (E0 : s = _) by (sym_eval; reflexivity) end.
  rewrite E0. clear E0.
  match goal with |- ReachP ?rv ?G ?s => explore_p ltac:(idtac) rv G s ltac:(fin) ltac:(fun _ => assumption) end.
Qed.

(* ... and every later entry (symbolic k, L, payload) *)
Lemma round_pf : forall rv k L d v1 v2 t1 c1 t2 c2 r10 r12 r20 r21, 1 <= k -> length L = N.to_nat k ->
  ReachP rv (steady3s (k + 1) 1 (L ++ [mkEntry (k + 1) 1 d]))
         (nstep rv (ssx k 1 L v1 v2 t1 c1 t2 c2 r10 r12 r20 r21) (ClientAppend 0 d)).
Proof.
  intros rv k L d v1 v2 t1 c1 t2 c2 r10 r12 r20 r21 Hk HL. unfold ssx.
  match goal with |- ReachP ?rv ?G ?s => eassert (E0 : s = _) by (sym_eval; reflexivity) end.
  rewrite E0. clear E0.
  match goal with |- ReachP ?rv ?G ?s =>
    explore_p ltac:(clear - Hk HL) rv G s ltac:(fin) ltac:(fun _ => assumption) end.
Qed.

(* ------------------------------------------------------------------ induction over the payloads *)

Lemma round_any_pf : forall rv k L d c c1, length L = N.to_nat k ->
  steady3s k (pt_of k) L (strip c) -> pf_run rv (step rv c (ClientAppend 0 d)) c1 ->
  steady3s (k + 1) (pt_of (k + 1)) (L ++ [mkEntry (k + 1) 1 d]) (strip c1).
Proof.
  intros rv k L d c c1 HL [v1 [v2 [t1 [c1' [t2 [c2 [r10 [r12 [r20 [r21 Hc]]]]]]]]]] R.
  assert (P1 : pt_of (k + 1) = 1) by (unfold pt_of; destruct (k + 1 =? 0) eqn:E; [apply N.eqb_eq in E; lia | reflexivity]).
  rewrite P1. destruct (N.eq_dec k 0) as [->|Hk].
  - destruct L; [|discriminate HL].
    apply (round0_pf rv d v1 v2 t1 c1' t2 c2 r10 r12 r20 r21 (step rv c (ClientAppend 0 d)) c1); [|exact R].
    rewrite nstep_step, Hc. reflexivity.
  - assert (P : pt_of k = 1) by (unfold pt_of; destruct (k =? 0) eqn:E; [apply N.eqb_eq in E; lia | reflexivity]).
    rewrite P in Hc.
    apply (round_pf rv k L d v1 v2 t1 c1' t2 c2 r10 r12 r20 r21 ltac:(lia) HL (step rv c (ClientAppend 0 d)) c1); [|exact R].
    rewrite nstep_step, Hc. reflexivity.
Qed.

Lemma appends_pf : forall rv payloads k L c c',
  length L = N.to_nat k -> steady3s k (pt_of k) L (strip c) ->
  pff_run rv (map (ClientAppend 0) payloads ++ [Tick 0 1001 [1; 2]]) c c' ->
  steady3s (k + lenN payloads) (pt_of (k + lenN payloads)) (L ++ mk_log 1 k payloads) (strip c').
Proof.
  intros rv. induction payloads as [|d rest IH]; intros k L c c' HL Hc R.
  - cbn [map app] in R. inversion R as [|a0 r0 c0 c1 c2 D R2]; subst. inversion R2; subst.
    change (lenN (@nil N)) with 0. rewrite N.add_0_r. cbn [mk_log]. rewrite app_nil_r.
    destruct Hc as [v1 [v2 [t1 [c1' [t2 [c2 [r10 [r12 [r20 [r21 Hc]]]]]]]]]].
    apply (reach_reachp _ _ _ (hb_all rv k (pt_of k) L v1 v2 t1 c1' t2 c2 r10 r12 r20 r21)
             (step rv c (Tick 0 1001 [1; 2])) c'); [|exact D].
    rewrite nstep_step, Hc. reflexivity.
  - cbn [map app] in R. inversion R as [|a0 r0 c0 c1 c2 D R2]; subst.
    pose proof (round_any_pf rv k L d c c1 HL Hc D) as H1.
    rewrite lenN_cons. replace (k + (lenN rest + 1)) with (k + 1 + lenN rest) by lia.
    cbn [mk_log]. replace (L ++ mkEntry (k + 1) 1 d :: mk_log 1 (k + 1) rest)
      with ((L ++ [mkEntry (k + 1) 1 d]) ++ mk_log 1 (k + 1) rest) by (rewrite <- app_assoc; reflexivity).
    apply (IH (k + 1) _ c1 c'); [rewrite app_length, HL; cbn [length]; lia | exact H1 | exact R2].
Qed.

Theorem live_pf_3 : forall rv payloads c',
  pff_run rv (live_actions 3 payloads) (init_default 3) c' ->
  steady3s (lenN payloads) (pt_of (lenN payloads)) (mk_log 1 0 payloads) (strip c').
Proof.
  intros rv payloads c' R. unfold live_actions in R. change (peers_of 3) with [1; 2] in R.
  inversion R as [|a0 r0 c0 c1 c2 D R2]; subst.
  pose proof (elect_all rv c1 (pf_run_dl _ _ _ D)) as H1.
  exact (appends_pf rv payloads 0 [] c1 c' eq_refl H1 R2).
Qed.

(* the statement pinned in Props/C30.v *)
Theorem C30_pf_unbounded_3_proof : forall rv payloads c',
  pff_run rv (live_actions 3 payloads) (init_default 3) c' ->
  c_net c' = [] /\
  map n_state (c_nodes c') = [Leader; Follower 0; Follower 0] /\
  Forall (fun nd => n_term nd = 1 /\ n_logs nd = mk_log 1 0 payloads /\ n_commit nd = lenN payloads) (c_nodes c') /\
  all_synced_b c' payloads = true.
Proof.
  intros rv payloads c' R.
  destruct (live_pf_3 rv payloads c' R) as [v1 [v2 [t1 [c1 [t2 [c2 [r10 [r12 [r20 [r21 S]]]]]]]]]].
  assert (Hnet : c_net c' = []) by exact (f_equal c_net S).
  pose proof (f_equal c_nodes S) as Hnodes. cbn [strip c_nodes ssx] in Hnodes.
  split; [exact Hnet|]. split; [rewrite Hnodes; reflexivity|].
  split; [rewrite Hnodes; repeat constructor|].
  destruct c' as [nodes net h]. cbn [c_nodes] in Hnodes. subst nodes.
  assert (Hlen : lenN payloads = lenN (mk_log 1 0 payloads)) by (unfold lenN; rewrite mk_log_length; reflexivity).
  apply all_synced_intro; cbn.
  - reflexivity.
  - repeat constructor; exact Hlen.
  - exact Hlen.
  - apply mk_log_data.
Qed.

(* non-vacuity: the oldest-first run of RaftLiveInd3.v is one of these runs *)
Lemma live_pf_3_inhabited : forall rv payloads,
  pff_run rv (live_actions 3 payloads) (init_default 3) (run rv 3 (live_script3 payloads)).
Proof. intros rv payloads. apply fifo_run_pff. apply live_fifo_script_3. Qed.
