(* IndexDbProofs.v — C11, part 2: the exactness invariant of the indexes and its preservation by the
   DbImpl-level mutations.

   The invariant is stated relative to a set E of live element ids (E id = the element with this
   signed id exists); for a database state the intended E is `graph_index (gr d)`.  Keeping E a
   parameter lets the removal functions (which change the graph first and the values afterwards)
   be handled compositionally. *)
From Agdb Require Import Bytes DbValue Graph DbModel Search Queries DbValueEqProofs DbFrameProofs KvProofs KvDbProofs KvSelectProofs IndexProofs.
From Coq Require Import ZifyBool ZifyNat ZifyN.
Open Scope Z_scope.

(* an id and its negation never both denote live elements (a slot is a node or an edge) *)
Definition E_ok (E : Z -> bool) : Prop := forall i, E i = true -> E (- i) = false.

(* every index holds, for each live element and each value class, exactly as many entries as the
   element has pairs (key, value); dead ids have no entries *)
Definition idx_exact_on (E : Z -> bool) (d : db) : Prop :=
  forall key ids, idx_find (indexes d) key = Some ids ->
  forall P, respects P -> forall id,
    cntP ids P id = if E id then cntK (kvs_get (vals d) id) key P else 0%nat.

(* only live elements have properties *)
Definition vals_live_on (E : Z -> bool) (d : db) : Prop :=
  forall i, E i = false -> E (- i) = false -> kvs_get (vals d) i = [].

Lemma E_ok_zero E : E_ok E -> E 0 = false.
Proof. intros H. destruct (E 0) eqn:E0; [|reflexivity]. pose proof (H 0 E0) as H1. cbn in H1. congruence. Qed.

Lemma idx_exact_on_ext E E' d : (forall i, E i = E' i) -> idx_exact_on E d -> idx_exact_on E' d.
Proof. intros He H key ids Hf P HP id. rewrite <- He. now apply H. Qed.

Lemma vals_live_on_ext E E' d : (forall i, E i = E' i) -> vals_live_on E d -> vals_live_on E' d.
Proof. intros He H i H1 H2. apply H; now rewrite He. Qed.

Lemma abs_cases a b : Z.abs a = Z.abs b <-> b = a \/ b = - a.
Proof. lia. Qed.

Lemma kvs_get_abs s i j : Z.abs i = Z.abs j -> kvs_get s i = kvs_get s j.
Proof. intros H. unfold kvs_get. f_equal. now apply zabs_nat_eq. Qed.

Lemma kvs_get_neg s i : kvs_get s (- i) = kvs_get s i.
Proof. apply kvs_get_abs. lia. Qed.

(* ---------- a change confined to one live element ---------- *)
Lemma idx_exact_local E d d' id :
  E_ok E -> E id = true -> idx_exact_on E d ->
  (forall j, Z.abs id <> Z.abs j -> kvs_get (vals d') j = kvs_get (vals d) j) ->
  (forall key ids', idx_find (indexes d') key = Some ids' ->
     exists ids, idx_find (indexes d) key = Some ids /\
       (forall P id', respects P -> id' <> id -> cntP ids' P id' = cntP ids P id') /\
       ((forall Q, respects Q -> cntP ids Q id = cntK (kvs_get (vals d) id) key Q) ->
        forall P, respects P -> cntP ids' P id = cntK (kvs_get (vals d') id) key P)) ->
  idx_exact_on E d'.
Proof.
  intros Hok Hid Hd Hother Hidx key ids' Hf P HP id'.
  destruct (Hidx key ids' Hf) as (ids & Hf0 & Hne & Heq).
  destruct (Z.eq_dec id' id) as [->|Hn].
  - rewrite Hid. apply Heq; [|exact HP]. intros Q HQ. pose proof (Hd key ids Hf0 Q HQ id) as H. now rewrite Hid in H.
  - rewrite (Hne P id' HP Hn). pose proof (Hd key ids Hf0 P HP id') as H. rewrite H.
    destruct (Z.eq_dec (Z.abs id) (Z.abs id')) as [Ha|Ha].
    + apply abs_cases in Ha. destruct Ha as [Ha|Ha]; [congruence|]. subst id'.
      now rewrite (Hok id Hid).
    + now rewrite (Hother id' Ha).
Qed.

Lemma vals_live_local E d d' id :
  E id = true -> vals_live_on E d ->
  (forall j, Z.abs id <> Z.abs j -> kvs_get (vals d') j = kvs_get (vals d) j) ->
  vals_live_on E d'.
Proof.
  intros Hid Hl Hother i H1 H2.
  destruct (Z.eq_dec (Z.abs id) (Z.abs i)) as [Ha|Ha].
  - apply abs_cases in Ha. destruct Ha as [-> | ->]; [congruence|]. rewrite Z.opp_involutive in H2. congruence.
  - rewrite (Hother i Ha). now apply Hl.
Qed.

(* ---------- one pair appended / removed / replaced, with the matching index update ---------- *)
Lemma insert_one_exact E d d' id x :
  E_ok E -> E id = true -> idx_exact_on E d ->
  kvs_get (vals d') id = kvs_get (vals d) id ++ [x] ->
  (forall j, Z.abs id <> Z.abs j -> kvs_get (vals d') j = kvs_get (vals d) j) ->
  indexes d' = idx_insert_id (indexes d) (fst x) (snd x) id ->
  idx_exact_on E d'.
Proof.
  intros Hok Hid Hd Hget Hother Hix.
  apply (idx_exact_local E d d' id Hok Hid Hd Hother).
  intros key ids' Hf. rewrite Hix in Hf. unfold idx_insert_id in Hf. rewrite idx_find_update in Hf.
  destruct (idx_find (indexes d) key) as [ids|]; [|discriminate]. inversion Hf as [Hids']. clear Hf.
  exists ids. split; [reflexivity|]. split.
  - intros P id' HP Hn. destruct (dbv_eqb (fst x) key); [|reflexivity].
    rewrite cntP_app, cntP_cons, cntP_nil. cbn [fst snd].
    rewrite (proj2 (Z.eqb_neq id id')) by congruence. rewrite andb_false_r. cbn [b2nat]. lia.
  - intros Hall P HP. rewrite Hget, cntK_app, cntK_cons, cntK_nil, <- (Hall P HP).
    destruct (dbv_eqb (fst x) key); cbn [andb b2nat]; [|lia].
    rewrite cntP_app, cntP_cons, cntP_nil. cbn [fst snd]. rewrite Z.eqb_refl, andb_true_r. lia.
Qed.

Lemma remove_one_exact E d d' id x pre post :
  E_ok E -> E id = true -> idx_exact_on E d ->
  kvs_get (vals d) id = pre ++ x :: post -> kvs_get (vals d') id = pre ++ post ->
  (forall j, Z.abs id <> Z.abs j -> kvs_get (vals d') j = kvs_get (vals d) j) ->
  indexes d' = idx_remove_id (indexes d) (fst x) (snd x) id ->
  idx_exact_on E d'.
Proof.
  intros Hok Hid Hd Hget Hget' Hother Hix.
  apply (idx_exact_local E d d' id Hok Hid Hd Hother).
  intros key ids' Hf. rewrite Hix in Hf. unfold idx_remove_id in Hf. rewrite idx_find_update in Hf.
  destruct (idx_find (indexes d) key) as [ids|]; [|discriminate]. inversion Hf as [Hids']. clear Hf.
  exists ids. split; [reflexivity|]. split.
  - intros P id' HP Hn. destruct (dbv_eqb (fst x) key); [|reflexivity].
    rewrite (cntP_remove_first_pair ids (snd x) id P id' HP).
    rewrite (proj2 (Z.eqb_neq id id')) by congruence. rewrite andb_false_r. cbn [b2nat]. lia.
  - intros Hall P HP. rewrite Hget'. pose proof (Hall P HP) as HP1. rewrite Hget in HP1.
    rewrite cntK_app, cntK_cons in HP1. rewrite cntK_app.
    destruct (dbv_eqb (fst x) key) eqn:Ek; cbn [andb b2nat] in *; [|lia].
    rewrite (cntP_remove_first_pair ids (snd x) id P id HP), Z.eqb_refl, andb_true_r.
    pose proof (Hall (fun w => dbv_eqb w (snd x)) (respects_eqb (snd x))) as H1. rewrite Hget in H1.
    rewrite cntK_app, cntK_cons, Ek, dbv_eqb_refl in H1. cbn [andb b2nat] in H1.
    destruct (Nat.ltb_spec 0 (cntP ids (fun w => dbv_eqb w (snd x)) id)); [|lia]. cbn [andb].
    destruct (P (snd x)); cbn [b2nat] in *; lia.
Qed.

Lemma replace_one_exact E d d' id old x l1 l2 :
  E_ok E -> E id = true -> idx_exact_on E d ->
  dbv_eqb (fst old) (fst x) = true ->
  kvs_get (vals d) id = l1 ++ old :: l2 -> kvs_get (vals d') id = l1 ++ x :: l2 ->
  (forall j, Z.abs id <> Z.abs j -> kvs_get (vals d') j = kvs_get (vals d) j) ->
  indexes d' = idx_insert_id (idx_remove_id (indexes d) (fst old) (snd old) id) (fst old) (snd x) id ->
  idx_exact_on E d'.
Proof.
  intros Hok Hid Hd Hkey Hget Hget' Hother Hix.
  apply (idx_exact_local E d d' id Hok Hid Hd Hother).
  intros key ids' Hf. rewrite Hix in Hf. unfold idx_insert_id, idx_remove_id in Hf.
  rewrite !idx_find_update in Hf.
  destruct (idx_find (indexes d) key) as [ids|]; [|discriminate]. inversion Hf as [Hids']. clear Hf.
  exists ids. split; [reflexivity|]. split.
  - intros P id' HP Hn. destruct (dbv_eqb (fst old) key); [|reflexivity].
    rewrite cntP_app, cntP_cons, cntP_nil, (cntP_remove_first_pair ids (snd old) id P id' HP). cbn [fst snd].
    rewrite (proj2 (Z.eqb_neq id id')) by congruence. rewrite !andb_false_r. cbn [b2nat]. lia.
  - intros Hall P HP. rewrite Hget'. pose proof (Hall P HP) as HP1. rewrite Hget in HP1.
    rewrite cntK_app, cntK_cons in HP1. rewrite cntK_app, cntK_cons.
    rewrite <- (dbv_eqb_congr_l (fst old) (fst x) key Hkey).
    destruct (dbv_eqb (fst old) key) eqn:Ek; cbn [andb b2nat] in *; [|lia].
    rewrite cntP_app, cntP_cons, cntP_nil, (cntP_remove_first_pair ids (snd old) id P id HP). cbn [fst snd].
    rewrite Z.eqb_refl, !andb_true_r.
    pose proof (Hall (fun w => dbv_eqb w (snd old)) (respects_eqb (snd old))) as H1. rewrite Hget in H1.
    rewrite cntK_app, cntK_cons, Ek, dbv_eqb_refl in H1. cbn [andb b2nat] in H1.
    destruct (Nat.ltb_spec 0 (cntP ids (fun w => dbv_eqb w (snd old)) id)); [|lia]. cbn [andb].
    destruct (P (snd old)), (P (snd x)); cbn [b2nat] in *; lia.
Qed.

Section IndexDb.
  Variable rv : revision.

  (* ---- insert_key_value / insert_or_replace_key_value ---- *)
  Lemma insert_key_value_exact E d id x :
    E_ok E -> E id = true -> idx_exact_on E d -> idx_exact_on E (insert_key_value d id x).
  Proof.
    intros Hok Hid Hd. apply (insert_one_exact E d _ id x Hok Hid Hd).
    - rewrite insert_key_value_vals, kvs_get_insert_value. now rewrite abs_eqb_refl.
    - intros j Hj. rewrite insert_key_value_vals, kvs_get_insert_value. now rewrite (proj2 (Z.eqb_neq _ _) Hj).
    - reflexivity.
  Qed.

  Lemma insert_or_replace_key_value_exact E d id x :
    E_ok E -> E id = true -> idx_exact_on E d -> idx_exact_on E (insert_or_replace_key_value d id x).
  Proof.
    intros Hok Hid Hd. pose proof (kvs_insert_or_replace_spec (vals d) id x) as Hs.
    pose proof (insert_or_replace_key_value_vals d id x) as Hv.
    unfold insert_or_replace_key_value in *.
    destruct (kvs_insert_or_replace (vals d) id x) as [[old|] s]; cbn [snd] in Hv; destruct Hs as [Hother Hs].
    - destruct Hs as (l1 & l2 & H1 & H2 & H3 & H4).
      apply (replace_one_exact E d _ id old x l1 l2 Hok Hid Hd H4 H1).
      + rewrite Hv. exact H2.
      + intros j Hj. rewrite Hv. now apply Hother.
      + reflexivity.
    - destruct Hs as [H1 H2].
      apply (insert_one_exact E d _ id x Hok Hid Hd).
      + rewrite Hv. exact H2.
      + intros j Hj. rewrite Hv. now apply Hother.
      + reflexivity.
  Qed.

  Lemma insert_key_value_live E d id x :
    E id = true -> vals_live_on E d -> vals_live_on E (insert_key_value d id x).
  Proof.
    intros Hid Hl. apply (vals_live_local E d _ id Hid Hl).
    intros j Hj. rewrite insert_key_value_vals, kvs_get_insert_value. now rewrite (proj2 (Z.eqb_neq _ _) Hj).
  Qed.

  Lemma insert_or_replace_key_value_live E d id x :
    E id = true -> vals_live_on E d -> vals_live_on E (insert_or_replace_key_value d id x).
  Proof.
    intros Hid Hl. apply (vals_live_local E d _ id Hid Hl).
    intros j Hj. rewrite insert_or_replace_key_value_vals. now apply kvs_insert_or_replace_other.
  Qed.

  Lemma reserve_kv_exact E d id : idx_exact_on E d -> idx_exact_on E (reserve_kv d id).
  Proof.
    intros Hd key ids Hf P HP id'. rewrite reserve_kv_vals, kvs_get_reserve. now apply Hd.
  Qed.

  Lemma reserve_kv_live E d id : vals_live_on E d -> vals_live_on E (reserve_kv d id).
  Proof. intros Hl i H1 H2. rewrite reserve_kv_vals, kvs_get_reserve. now apply Hl. Qed.

  Lemma insert_kvs_replace_exact E d id kvs :
    E_ok E -> E id = true -> idx_exact_on E d -> idx_exact_on E (insert_kvs_replace d id kvs).
  Proof.
    intros Hok Hid Hd. unfold insert_kvs_replace.
    apply fold_left_inv; [now apply reserve_kv_exact|].
    intros a x _ Ha. now apply insert_or_replace_key_value_exact.
  Qed.

  Lemma insert_kvs_new_exact E d id kvs :
    E_ok E -> E id = true -> idx_exact_on E d -> idx_exact_on E (insert_kvs_new d id kvs).
  Proof.
    intros Hok Hid Hd. unfold insert_kvs_new.
    apply fold_left_inv; [now apply reserve_kv_exact|].
    intros a x _ Ha. now apply insert_key_value_exact.
  Qed.

  Lemma insert_kvs_replace_live E d id kvs :
    E id = true -> vals_live_on E d -> vals_live_on E (insert_kvs_replace d id kvs).
  Proof.
    intros Hid Hl. unfold insert_kvs_replace.
    apply fold_left_inv; [now apply reserve_kv_live|].
    intros a x _ Ha. now apply insert_or_replace_key_value_live.
  Qed.

  Lemma insert_kvs_new_live E d id kvs :
    E id = true -> vals_live_on E d -> vals_live_on E (insert_kvs_new d id kvs).
  Proof.
    intros Hid Hl. unfold insert_kvs_new.
    apply fold_left_inv; [now apply reserve_kv_live|].
    intros a x _ Ha. now apply insert_key_value_live.
  Qed.

  (* the index list itself (which keys are indexed) is not touched by value mutations *)
  Lemma insert_or_replace_key_value_keys d id x :
    map fst (indexes (insert_or_replace_key_value d id x)) = map fst (indexes d).
  Proof.
    unfold insert_or_replace_key_value.
    destruct (kvs_insert_or_replace (vals d) id x) as [[old|] s];
      cbn [indexes push_undo index_insert_if index_remove_if with_indexes with_vals];
      unfold idx_insert_id, idx_remove_id; now rewrite !idx_update_keys.
  Qed.

  Lemma insert_key_value_keys d id x :
    map fst (indexes (insert_key_value d id x)) = map fst (indexes d).
  Proof. cbn. unfold idx_insert_id. apply idx_update_keys. Qed.

  (* ---- remove_keys ---- *)
  Lemma rk_fold_exact E id keys todo : forall pre n a,
    E_ok E -> E id = true ->
    keys_distinct (pre ++ todo) -> kvs_get (vals a) id = pre ++ todo -> idx_exact_on E a ->
    idx_exact_on E (snd (fold_left (rk_step id keys) todo (n, a))).
  Proof.
    induction todo as [|x todo IH]; intros pre n a Hok Hid Hd Hget Ha; cbn [fold_left]; [exact Ha|].
    cbn [rk_step]. destruct (mem dbv_eqb (fst x) keys) eqn:Em.
    - set (a' := push_undo _ _).
      assert (Hpre : has_key pre (fst x) = false).
      { apply keys_distinct_app in Hd. destruct Hd as (_ & _ & Hpre).
        destruct (has_key pre (fst x)) eqn:Eh; [|reflexivity].
        unfold has_key in Eh. apply existsb_exists in Eh. destruct Eh as [p [Hin Hp]].
        specialize (Hpre p Hin). cbn [has_key existsb] in Hpre.
        apply orb_false_iff in Hpre. destruct Hpre as [Hpre _].
        rewrite dbv_eqb_sym in Hpre. congruence. }
      assert (Hget' : kvs_get (vals a') id = pre ++ todo).
      { subst a'. cbn [vals push_undo with_vals index_remove_if with_indexes].
        rewrite kvs_get_remove_value, abs_eqb_refl, Hget, remove_first_key_app by exact Hpre.
        cbn [remove_first_key]. now rewrite dbv_eqb_refl. }
      assert (Hd' : keys_distinct (pre ++ todo)).
      { apply keys_distinct_app in Hd. apply keys_distinct_app. cbn [keys_distinct] in Hd.
        destruct Hd as (H1 & [H2 H3] & H4). repeat split; try assumption.
        intros p Hin. specialize (H4 p Hin). cbn [has_key existsb] in H4.
        apply orb_false_iff in H4. tauto. }
      apply (IH pre (n + 1) a' Hok Hid Hd' Hget').
      apply (remove_one_exact E a a' id x pre todo Hok Hid Ha Hget Hget').
      + intros j Hj. subst a'. cbn [vals push_undo with_vals index_remove_if with_indexes].
        rewrite kvs_get_remove_value. now rewrite (proj2 (Z.eqb_neq _ _) Hj).
      + reflexivity.
    - apply (IH (pre ++ [x]) n a Hok Hid); [now rewrite <- app_assoc|now rewrite <- app_assoc|exact Ha].
  Qed.

  Lemma remove_keys_exact E d id keys :
    E_ok E -> E id = true -> keys_distinct (kvs_get (vals d) id) -> idx_exact_on E d ->
    idx_exact_on E (snd (remove_keys d id keys)).
  Proof.
    intros Hok Hid Hd Ha. rewrite remove_keys_unfold.
    now apply (rk_fold_exact E id keys (kvs_get (vals d) id) [] 0 d).
  Qed.

  Lemma remove_keys_live E d id keys :
    E id = true -> keys_distinct (kvs_get (vals d) id) -> vals_live_on E d ->
    vals_live_on E (snd (remove_keys d id keys)).
  Proof.
    intros Hid Hd Hl. apply (vals_live_local E d _ id Hid Hl).
    pose proof (remove_keys_spec d id keys Hd) as R. cbv zeta in R. apply R.
  Qed.

  Lemma remove_keys_index_keys d id keys :
    map fst (indexes (snd (remove_keys d id keys))) = map fst (indexes d).
  Proof.
    rewrite remove_keys_unfold.
    apply (fold_left_inv (fun acc : Z * db => map fst (indexes (snd acc)) = map fst (indexes d))); [reflexivity|].
    intros [n a] x _ H. cbn [rk_step snd] in *. destruct (mem dbv_eqb (fst x) keys); cbn [snd]; [|exact H].
    cbn [indexes push_undo with_vals index_remove_if with_indexes]. unfold idx_remove_id.
    now rewrite idx_update_keys.
  Qed.
End IndexDb.
