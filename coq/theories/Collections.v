(* Collections.v — model of the storage-backed collections of agdb (layer L2):
     collections/vec.rs      DbVecData / VecImpl / DbVec and the VecValue element classes
     collections/map.rs      DbMapData (the MapData interface over three DbVecs + a record with len)
     graph.rs                GraphDataStorage (four DbVec<i64> + a record with their indexes)
     db.rs                   DbStorageIndex (the root record, storage index 1)
   Definitions only (executable, extracted).  Proofs: Coll*.v.

   Every function of the code is a PROGRAM over the storage interface: a tree `cprog A`
   whose nodes are calls of Storage<D> (the operation language `sop` of Storage.v, the
   one C04 is about) and whose branches are selected by the observation `obs` the
   storage answers with.  Nothing about the storage is assumed here.  A program is
     * executed on the model of storage.rs (`cp_run (st_step cdata ops)`: exact record
       bytes and indexes, used by the correspondence run), and
     * verified against the ABSTRACT record map of StorageSpec.v (`spec_step`, the
       acceptor C04_refines_map proves the storage to satisfy): CollWp.v defines
       `cwp` = "for every answer the abstract map allows", and `cwp_sound` transfers
       every such statement to the concrete storage model through C04's step_refines.
   The Rust `?` is CErr (the mutations done so far stay); a panic of the storage
   (u64 overflow; ObPanic) or an answer of the wrong shape ends the process: CDead.

   u64 arithmetic of vec.rs (offsets 8 + size * index, capacity growth) is modelled in N;
   `from_storage` reproduces its checked_mul / checked_add.  The other sums are bounded by
   the record size, which the storage keeps below 2^64 (C04: a request beyond is a panic). *)
From Agdb Require Import Bytes Utf8 Records Storage StorageSpec.
Open Scope N_scope.

(* ------------------------------------------------------------------------- *)
(* programs over the storage                                                  *)
(* ------------------------------------------------------------------------- *)
Inductive cv_err :=
| CvIndex                 (* VecImpl::validate_index: "Index (i) out of bounds (len)" *)
| CvVecLen                (* DbVec::from_storage: "Vector length exceeds its storage size" (fix 2101e5c) *)
| CvStorage (e : serr)    (* an error of the storage, propagated by `?` *)
| CvData.                 (* a deserialization error (element, index record) *)

Inductive cprog (A : Type) : Type :=
| CRet (a : A)
| CErr (e : cv_err)
| CDead
| CDo (o : sop) (k : obs -> cprog A).
Arguments CRet {A} a.
Arguments CErr {A} e.
Arguments CDead {A}.
Arguments CDo {A} o k.

Fixpoint cbind {A B} (p : cprog A) (f : A -> cprog B) : cprog B :=
  match p with
  | CRet a => f a
  | CErr e => CErr e
  | CDead => CDead
  | CDo o k => CDo o (fun v => cbind (k v) f)
  end.
Notation "x <~ m ;; f" := (cbind m (fun x => f)) (at level 61, m at next level, right associativity).
Notation "m ;;~ f" := (cbind m (fun _ => f)) (at level 61, right associativity).

(* `.ok()` / `if let Ok(..)`: an Err becomes None, the storage keeps what was done *)
Fixpoint cp_try {A} (p : cprog A) : cprog (option A) :=
  match p with
  | CRet a => CRet (Some a)
  | CErr _ => CRet None
  | CDead => CDead
  | CDo o k => CDo o (fun v => cp_try (k v))
  end.
(* keeps the error *)
Fixpoint cp_catch {A} (p : cprog A) : cprog (sum A cv_err) :=
  match p with
  | CRet a => CRet (Datatypes.inl a)
  | CErr e => CRet (Datatypes.inr e)
  | CDead => CDead
  | CDo o k => CDo o (fun v => cp_catch (k v))
  end.

Inductive cres (A : Type) : Type :=
| CrOk (a : A)
| CrErr (e : cv_err)
| CrDead.
Arguments CrOk {A} a.
Arguments CrErr {A} e.
Arguments CrDead {A}.

(* execution on any state machine answering storage calls *)
Fixpoint cp_run {S A} (step : S -> sop -> S * obs) (p : cprog A) (s : S) : S * cres A :=
  match p with
  | CRet a => (s, CrOk a)
  | CErr e => (s, CrErr e)
  | CDead => (s, CrDead)
  | CDo o k =>
    let '(s', v) := step s o in
    match v with
    | ObPanic | ObFault => (s', CrDead)
    | _ => cp_run step (k v) s'
    end
  end.

(* the calls of Storage<D> the collections use *)
Definition cp_unit (o : sop) : cprog unit :=
  CDo o (fun v => match v with ObUnit => CRet tt | ObErr e => CErr (CvStorage e) | _ => CDead end).
Definition cp_num (o : sop) : cprog N :=
  CDo o (fun v => match v with ObNum n => CRet n | ObErr e => CErr (CvStorage e) | _ => CDead end).
Definition cp_bytes (o : sop) : cprog bytes :=
  CDo o (fun v => match v with ObBytes b => CRet b | ObErr e => CErr (CvStorage e) | _ => CDead end).

Definition cp_insert (bs : bytes) : cprog N := cp_num (SInsert bs).                    (* insert / insert_bytes *)
Definition cp_insert_at (i off : N) (bs : bytes) : cprog unit := cp_unit (SInsertAt i off bs). (* insert_at / insert_bytes_at *)
Definition cp_resize_value (i n : N) : cprog unit := cp_unit (SResize i n).
Definition cp_move_at (i from to n : N) : cprog unit := cp_unit (SMove i from to n).
Definition cp_remove (i : N) : cprog unit := cp_unit (SRemove i).
Definition cp_value (i : N) : cprog bytes := cp_bytes (SValue i).                       (* value_as_bytes *)
Definition cp_value_at_size (i off n : N) : cprog bytes := cp_bytes (SValueAtSize i off n).
Definition cp_value_size (i : N) : cprog N := cp_num (SValueSize i).
Definition cp_transaction : cprog N := cp_num STransaction.
Definition cp_commit (id : N) : cprog unit := cp_unit (SCommit id).

(* u64::deserialize / StorageIndex::deserialize: bytes.get(0..8) *)
Definition cp_de64 (bs : bytes) : cprog N :=
  if lenN bs <? 8 then CErr CvData else CRet (de (firstn 8 bs)).

(* ------------------------------------------------------------------------- *)
(* VecValue: the element classes                                              *)
(* ------------------------------------------------------------------------- *)
Record cv_elem (T : Type) := {
  ce_size : N;                        (* storage_len() *)
  ce_store : T -> cprog bytes;        (* store(&self, storage) *)
  ce_load : bytes -> cprog T;         (* load(storage, bytes) *)
  ce_remove : bytes -> cprog unit     (* remove(storage, bytes) *)
}.
Arguments ce_size {T}. Arguments ce_store {T}. Arguments ce_load {T}. Arguments ce_remove {T}.

(* u64 (also StorageIndex): stored inline *)
Definition ce_u64 : cv_elem N :=
  {| ce_size := 8; ce_store := fun x => CRet (le64 x); ce_load := cp_de64; ce_remove := fun _ => CRet tt |}.
(* i64 (also DbId): two's complement, inline *)
Definition ce_i64 : cv_elem Z :=
  {| ce_size := 8; ce_store := fun z => CRet (le64 (z2u z));
     ce_load := fun bs => n <~ cp_de64 bs ;; CRet (u2z n); ce_remove := fun _ => CRet tt |}.
(* an inline element of n raw bytes that owns no other record: MapValueState (1: see
   ce_state), DbValueIndex holding an inline value (16), DbIndexStorageIndex (24) *)
Definition ce_raw (n : N) : cv_elem bytes :=
  {| ce_size := n; ce_store := fun b => CRet b;
     ce_load := fun bs => if lenN bs <? n then CErr CvData else CRet (firstn (N.to_nat n) bs);
     ce_remove := fun _ => CRet tt |}.

(* String: out of line.  store = storage.insert(self) (record = le64 len ++ utf8), the
   element is the record's index; load = storage.value::<String>(index); remove = storage.remove(index) *)
Definition cv_str_ser (s : bytes) : bytes := le64 (lenN s) ++ s.
Definition cv_str_de (b : bytes) : cprog bytes :=
  len <~ cp_de64 b ;;
  if two64 <=? 8 + len then CErr CvData                  (* begin.checked_add(len) *)
  else if lenN b <? 8 + len then CErr CvData             (* bytes.get(begin..end) *)
  else let s := firstn (N.to_nat len) (skipn 8 b) in
       if utf8_valid s then CRet s else CErr CvData.     (* String::from_utf8 *)
Definition ce_string : cv_elem bytes :=
  {| ce_size := 8;
     ce_store := fun s => i <~ cp_insert (cv_str_ser s) ;; CRet (le64 i);
     ce_load := fun bs => i <~ cp_de64 bs ;; b <~ cp_value i ;; cv_str_de b;
     ce_remove := fun bs => i <~ cp_de64 bs ;; cp_remove i |}.

(* ------------------------------------------------------------------------- *)
(* DbVecData / VecImpl / DbVec                                                *)
(* ------------------------------------------------------------------------- *)
Record cv_vec := { cv_index : N; cv_len : N; cv_cap : N }.
Definition cv_set_len (h : cv_vec) (n : N) : cv_vec := {| cv_index := cv_index h; cv_len := n; cv_cap := cv_cap h |}.
Definition cv_set_cap (h : cv_vec) (c : N) : cv_vec := {| cv_index := cv_index h; cv_len := cv_len h; cv_cap := c |}.

Section Vec.
  Variable T : Type.
  Variable E : cv_elem T.
  Let sz := ce_size E.

  (* DbVecData::offset *)
  Definition cv_offset (i : N) : N := 8 + sz * i.

  Definition cv_read_slot (h : cv_vec) (i : N) : cprog bytes :=
    cp_value_at_size (cv_index h) (cv_offset i) sz.

  (* DbVec::new: storage.insert(&0_u64) *)
  Definition cv_new : cprog cv_vec :=
    i <~ cp_insert (le64 0) ;; CRet {| cv_index := i; cv_len := 0; cv_cap := 0 |}.

  (* DbVec::from_storage *)
  Definition cv_from_storage (i : N) : cprog cv_vec :=
    b <~ cp_value i ;;
    len <~ cp_de64 b ;;
    data_len <~ cp_value_size i ;;
    let capacity := data_len / sz in
    if (two64 <=? len * sz) || (two64 <=? len * sz + 8) || (data_len <? len * sz + 8) then CErr CvVecLen
    else CRet {| cv_index := i; cv_len := len; cv_cap := capacity |}.

  (* DbVecData::reallocate *)
  Definition cv_reallocate (h : cv_vec) (capacity : N) : cprog cv_vec :=
    cp_resize_value (cv_index h) (8 + sz * capacity) ;;~ CRet (cv_set_cap h capacity).

  (* for index in start..start+n { bytes = value.store(storage)?; insert_bytes_at(index, offset(index), bytes)? } *)
  Fixpoint cv_fill (idx : N) (x : T) (n : nat) (start : N) : cprog unit :=
    match n with
    | O => CRet tt
    | S n' =>
      bs <~ ce_store E x ;;
      cp_insert_at idx (cv_offset start) bs ;;~
      cv_fill idx x n' (start + 1)
    end.
  (* for index in start..start+n { bytes = value_as_bytes_at_size(..)?; T::remove(storage, bytes)? } *)
  Fixpoint cv_drop (idx : N) (n : nat) (start : N) : cprog unit :=
    match n with
    | O => CRet tt
    | S n' =>
      bs <~ cp_value_at_size idx (cv_offset start) sz ;;
      ce_remove E bs ;;~
      cv_drop idx n' (start + 1)
    end.

  (* DbVecData::resize *)
  Definition cv_data_resize (h : cv_vec) (new_len : N) (x : T) : cprog cv_vec :=
    id <~ cp_transaction ;;
    cv_fill (cv_index h) x (N.to_nat (new_len - cv_len h)) (cv_len h) ;;~
    cv_drop (cv_index h) (N.to_nat (cv_len h - new_len)) new_len ;;~
    cp_insert_at (cv_index h) 0 (le64 new_len) ;;~
    cp_commit id ;;~
    CRet (cv_set_len h new_len).

  Definition cv_validate (h : cv_vec) (i : N) : cprog unit :=
    if cv_len h <=? i then CErr CvIndex else CRet tt.

  (* VecImpl::push *)
  Definition cv_grow_cap (c : N) : N := if c =? 0 then 1 else if c =? 1 then 2 else c + c / 2.
  Definition cv_push (h : cv_vec) (x : T) : cprog cv_vec :=
    h1 <~ (if cv_len h =? cv_cap h then cv_reallocate h (cv_grow_cap (cv_cap h)) else CRet h) ;;
    cv_data_resize h1 (cv_len h1 + 1) x.

  (* VecImpl::remove -> DbVecData::remove *)
  Definition cv_remove (h : cv_vec) (i : N) : cprog (cv_vec * T) :=
    cv_validate h i ;;~
    bs <~ cv_read_slot h i ;;
    x <~ ce_load E bs ;;
    let h' := cv_set_len h (cv_len h - 1) in
    id <~ cp_transaction ;;
    ce_remove E bs ;;~
    cp_move_at (cv_index h) (cv_offset (i + 1)) (cv_offset i) (sz * (cv_len h - i - 1)) ;;~
    cp_insert_at (cv_index h) 0 (le64 (cv_len h')) ;;~
    cp_commit id ;;~
    CRet (h', x).

  (* VecImpl::replace -> DbVecData::replace *)
  Definition cv_replace (h : cv_vec) (i : N) (x : T) : cprog T :=
    cv_validate h i ;;~
    old_bs <~ cv_read_slot h i ;;
    old <~ ce_load E old_bs ;;
    id <~ cp_transaction ;;
    ce_remove E old_bs ;;~
    bs <~ ce_store E x ;;
    cp_insert_at (cv_index h) (cv_offset i) bs ;;~
    cp_commit id ;;~
    CRet old.

  (* VecImpl::swap -> DbVecData::swap *)
  Definition cv_swap (h : cv_vec) (i j : N) : cprog unit :=
    if i =? j then CRet tt
    else
      cv_validate h i ;;~
      cv_validate h j ;;~
      bs <~ cv_read_slot h i ;;
      id <~ cp_transaction ;;
      cp_move_at (cv_index h) (cv_offset j) (cv_offset i) sz ;;~
      cp_insert_at (cv_index h) (cv_offset j) bs ;;~
      cp_commit id.

  (* VecImpl::reserve / resize / shrink_to_fit *)
  Definition cv_reserve (h : cv_vec) (capacity : N) : cprog cv_vec :=
    if cv_cap h <? capacity then cv_reallocate h capacity else CRet h.
  Definition cv_resize (h : cv_vec) (new_len : N) (x : T) : cprog cv_vec :=
    h1 <~ cv_reserve h new_len ;; cv_data_resize h1 new_len x.
  Definition cv_shrink_to_fit (h : cv_vec) : cprog cv_vec := cv_reallocate h (cv_len h).

  (* VecImpl::value *)
  Definition cv_value (h : cv_vec) (i : N) : cprog T :=
    cv_validate h i ;;~ bs <~ cv_read_slot h i ;; ce_load E bs.

  (* VecIterator: next() = vec.value(storage, index).ok(); the first None ends `collect` *)
  Fixpoint cv_iter (h : cv_vec) (fuel : nat) (i : N) : cprog (list T) :=
    match fuel with
    | O => CRet []
    | S f =>
      r <~ cp_try (cv_value h i) ;;
      match r with
      | None => CRet []
      | Some x => l <~ cv_iter h f (i + 1) ;; CRet (x :: l)
      end
    end.
  (* index len is always out of bounds: len + 1 calls of next() *)
  Definition cv_values (h : cv_vec) : cprog (list T) := cv_iter h (S (N.to_nat (cv_len h))) 0.

  (* DbVecData::remove_from_storage *)
  Definition cv_remove_from_storage (h : cv_vec) : cprog unit :=
    id <~ cp_transaction ;;
    cv_drop (cv_index h) (N.to_nat (cv_len h)) 0 ;;~
    cp_remove (cv_index h) ;;~
    cp_commit id.

  (* ---- histories of one vector ---- *)
  Inductive cv_op :=
  | VoPush (x : T)
  | VoReplace (i : N) (x : T)
  | VoRemove (i : N)
  | VoSwap (i j : N)
  | VoResize (n : N) (x : T)
  | VoReserve (n : N)
  | VoShrink
  | VoValue (i : N)
  | VoValues
  | VoLen
  | VoReload                       (* the handle is dropped and rebuilt: from_storage(storage_index) *)
  | VoMaint (o : sop).             (* SOptimize | SReopen | SReopenCopy on the storage underneath *)

  Inductive cv_obs :=
  | VbUnit
  | VbVal (x : T)
  | VbVals (l : list T)
  | VbNum (n : N)
  | VbErr (e : cv_err).

  Definition cv_is_maint (o : sop) : bool :=
    match o with SOptimize | SReopen | SReopenCopy => true | _ => false end.

  (* one operation: a `?`-error leaves the handle as it was *)
  Definition cv_step (h : cv_vec) (o : cv_op) : cprog (cv_vec * cv_obs) :=
    let fin {A} (p : cprog A) (f : A -> cv_vec * cv_obs) : cprog (cv_vec * cv_obs) :=
      r <~ cp_catch p ;; CRet (match r with Datatypes.inl a => f a | Datatypes.inr e => (h, VbErr e) end) in
    match o with
    | VoPush x => fin (cv_push h x) (fun h' => (h', VbUnit))
    | VoReplace i x => fin (cv_replace h i x) (fun old => (h, VbVal old))
    | VoRemove i => fin (cv_remove h i) (fun r => (fst r, VbVal (snd r)))
    | VoSwap i j => fin (cv_swap h i j) (fun _ => (h, VbUnit))
    | VoResize n x => fin (cv_resize h n x) (fun h' => (h', VbUnit))
    | VoReserve n => fin (cv_reserve h n) (fun h' => (h', VbUnit))
    | VoShrink => fin (cv_shrink_to_fit h) (fun h' => (h', VbUnit))
    | VoValue i => fin (cv_value h i) (fun x => (h, VbVal x))
    | VoValues => fin (cv_values h) (fun l => (h, VbVals l))
    | VoLen => CRet (h, VbNum (cv_len h))
    | VoReload => fin (cv_from_storage (cv_index h)) (fun h' => (h', VbUnit))
    | VoMaint m => if cv_is_maint m then fin (cp_unit m) (fun _ => (h, VbUnit)) else CRet (h, VbUnit)
    end.

  Fixpoint cv_run (h : cv_vec) (l : list cv_op) : cprog (cv_vec * list cv_obs) :=
    match l with
    | [] => CRet (h, [])
    | o :: t =>
      r <~ cv_step h o ;;
      r' <~ cv_run (fst r) t ;;
      CRet (fst r', snd r :: snd r')
    end.
End Vec.

Arguments VoPush {T} x. Arguments VoReplace {T} i x. Arguments VoRemove {T} i. Arguments VoSwap {T} i j.
Arguments VoResize {T} n x. Arguments VoReserve {T} n. Arguments VoShrink {T}. Arguments VoValue {T} i.
Arguments VoValues {T}. Arguments VoLen {T}. Arguments VoReload {T}. Arguments VoMaint {T} o.
Arguments VbUnit {T}. Arguments VbVal {T} x. Arguments VbVals {T} l. Arguments VbNum {T} n. Arguments VbErr {T} e.

(* ------------------------------------------------------------------------- *)
(* the vector as a list: the specification of every operation                 *)
(* ------------------------------------------------------------------------- *)
Section VecSpec.
  Variable T : Type.

  Fixpoint cl_upd (l : list T) (i : nat) (x : T) : list T :=
    match l, i with
    | [], _ => []
    | _ :: t, O => x :: t
    | y :: t, S j => y :: cl_upd t j x
    end.
  Definition cl_remove (l : list T) (i : nat) : list T := firstn i l ++ skipn (S i) l.
  Definition cl_resize (l : list T) (n : nat) (x : T) : list T := firstn n l ++ repeat x (n - length l).

  Definition cl_step (l : list T) (o : cv_op T) : list T * cv_obs T :=
    match o with
    | VoPush x => (l ++ [x], VbUnit)
    | VoReplace i x =>
      match nth_error l (N.to_nat i) with
      | Some old => (cl_upd l (N.to_nat i) x, VbVal old)
      | None => (l, VbErr CvIndex)
      end
    | VoRemove i =>
      match nth_error l (N.to_nat i) with
      | Some old => (cl_remove l (N.to_nat i), VbVal old)
      | None => (l, VbErr CvIndex)
      end
    | VoSwap i j =>
      if i =? j then (l, VbUnit)
      else match nth_error l (N.to_nat i), nth_error l (N.to_nat j) with
           | Some a, Some b => (cl_upd (cl_upd l (N.to_nat i) b) (N.to_nat j) a, VbUnit)
           | _, _ => (l, VbErr CvIndex)
           end
    | VoResize n x => (cl_resize l (N.to_nat n) x, VbUnit)
    | VoReserve _ | VoShrink | VoReload | VoMaint _ => (l, VbUnit)
    | VoValue i =>
      match nth_error l (N.to_nat i) with
      | Some a => (l, VbVal a)
      | None => (l, VbErr CvIndex)
      end
    | VoValues => (l, VbVals l)
    | VoLen => (l, VbNum (lenN l))
    end.

  Fixpoint cl_run (l : list T) (ops : list (cv_op T)) : list T * list (cv_obs T) :=
    match ops with
    | [] => (l, [])
    | o :: t =>
      let '(l1, v) := cl_step l o in
      let '(l2, vs) := cl_run l1 t in
      (l2, v :: vs)
    end.
End VecSpec.
Arguments cl_upd {T}. Arguments cl_remove {T}. Arguments cl_resize {T}. Arguments cl_step {T}. Arguments cl_run {T}.

(* ------------------------------------------------------------------------- *)
(* DbMapData (map.rs): the MapData interface over storage                     *)
(* ------------------------------------------------------------------------- *)
Inductive cm_st := StEmpty | StValid | StDeleted.
(* MapValueState::serialize *)
Definition cm_state_ser (s : cm_st) : bytes :=
  match s with StEmpty => [x00] | StValid => [x01] | StDeleted => [x02] end.
(* MapValueState::deserialize(bytes.first()): None = "Unknown value" error *)
Definition cm_state_of (b : bytes) : option cm_st :=
  match b with
  | x00 :: _ => Some StEmpty
  | x01 :: _ => Some StValid
  | x02 :: _ => Some StDeleted
  | _ => None
  end.
Definition ce_state : cv_elem cm_st :=
  {| ce_size := 1; ce_store := fun s => CRet (cm_state_ser s);
     ce_load := fun bs => match cm_state_of bs with Some s => CRet s | None => CErr CvData end;
     ce_remove := fun _ => CRet tt |}.

Record cm_data := {
  cm_index : N;          (* storage_index of the MapDataIndex record *)
  cm_len : N;            (* data_index.len *)
  cm_states : cv_vec;
  cm_keys : cv_vec;
  cm_values : cv_vec
}.
Definition cm_with (d : cm_data) (n : N) (s k v : cv_vec) : cm_data :=
  {| cm_index := cm_index d; cm_len := n; cm_states := s; cm_keys := k; cm_values := v |}.

(* MapDataIndex::serialize *)
Definition cm_index_ser (len si ki vi : N) : bytes := le64 len ++ le64 si ++ le64 ki ++ le64 vi.

Section MapData.
  Variables K V : Type.
  Variable EK : cv_elem K.
  Variable EV : cv_elem V.
  Variable kdef : K.      (* K::default() *)
  Variable vdef : V.      (* T::default() *)

  (* DbMapData::new *)
  Definition cm_new : cprog cm_data :=
    s <~ cv_new ;;
    k <~ cv_new ;;
    v <~ cv_new ;;
    i <~ cp_insert (cm_index_ser 0 (cv_index s) (cv_index k) (cv_index v)) ;;
    CRet {| cm_index := i; cm_len := 0; cm_states := s; cm_keys := k; cm_values := v |}.

  (* DbMapData::from_storage *)
  Definition cm_from_storage (i : N) : cprog cm_data :=
    b <~ cp_value i ;;
    if lenN b <? 32 then CErr CvData
    else
      let len := de (firstn 8 b) in
      let si := de (firstn 8 (skipn 8 b)) in
      let ki := de (firstn 8 (skipn 16 b)) in
      let vi := de (firstn 8 (skipn 24 b)) in
      s <~ cv_from_storage cm_st ce_state si ;;
      k <~ cv_from_storage K EK ki ;;
      v <~ cv_from_storage V EV vi ;;
      CRet {| cm_index := i; cm_len := len; cm_states := s; cm_keys := k; cm_values := v |}.

  (* the MapData interface *)
  Definition cm_capacity (d : cm_data) : N := cv_len (cm_states d).
  Definition cm_state (d : cm_data) (i : N) : cprog cm_st := cv_value cm_st ce_state (cm_states d) i.
  Definition cm_key (d : cm_data) (i : N) : cprog K := cv_value K EK (cm_keys d) i.
  Definition cm_value (d : cm_data) (i : N) : cprog V := cv_value V EV (cm_values d) i.
  Definition cm_set_state (d : cm_data) (i : N) (s : cm_st) : cprog unit := cv_replace cm_st ce_state (cm_states d) i s ;;~ CRet tt.
  Definition cm_set_key (d : cm_data) (i : N) (k : K) : cprog unit := cv_replace K EK (cm_keys d) i k ;;~ CRet tt.
  Definition cm_set_value (d : cm_data) (i : N) (v : V) : cprog unit := cv_replace V EV (cm_values d) i v ;;~ CRet tt.
  (* set_len: self.data_index.len = len (first); storage.insert_at(self.storage_index, 0, &len) *)
  Definition cm_set_len (d : cm_data) (n : N) : cprog cm_data :=
    cp_insert_at (cm_index d) 0 (le64 n) ;;~ CRet (cm_with d n (cm_states d) (cm_keys d) (cm_values d)).
  (* resize: states, keys, values — in this order, each its own storage transaction *)
  Definition cm_resize (d : cm_data) (capacity : N) : cprog cm_data :=
    s <~ cv_resize cm_st ce_state (cm_states d) capacity StEmpty ;;
    k <~ cv_resize K EK (cm_keys d) capacity kdef ;;
    v <~ cv_resize V EV (cm_values d) capacity vdef ;;
    CRet (cm_with d (cm_len d) s k v).
  Definition cm_swap (d : cm_data) (i j : N) : cprog unit :=
    cv_swap cm_st ce_state (cm_states d) i j ;;~
    cv_swap K EK (cm_keys d) i j ;;~
    cv_swap V EV (cm_values d) i j.
  Definition cm_shrink_to_fit (d : cm_data) : cprog cm_data :=
    s <~ cv_shrink_to_fit cm_st ce_state (cm_states d) ;;
    k <~ cv_shrink_to_fit K EK (cm_keys d) ;;
    v <~ cv_shrink_to_fit V EV (cm_values d) ;;
    CRet (cm_with d (cm_len d) s k v).
  (* remove_from_storage: states, values, keys, the index record *)
  Definition cm_remove_from_storage (d : cm_data) : cprog unit :=
    id <~ cp_transaction ;;
    cv_remove_from_storage cm_st ce_state (cm_states d) ;;~
    cv_remove_from_storage V EV (cm_values d) ;;~
    cv_remove_from_storage K EK (cm_keys d) ;;~
    cp_remove (cm_index d) ;;~
    cp_commit id.

  (* histories of the interface (what MultiMapImpl's algorithms are written against) *)
  Inductive cm_op :=
  | MoSetState (i : N) (s : cm_st)
  | MoSetKey (i : N) (k : K)
  | MoSetValue (i : N) (v : V)
  | MoSetLen (n : N)
  | MoResize (capacity : N)
  | MoSwap (i j : N)
  | MoShrink
  | MoState (i : N)
  | MoKey (i : N)
  | MoValue (i : N)
  | MoCapLen
  | MoReload
  | MoMaint (o : sop).

  Inductive cm_obs :=
  | MbUnit
  | MbState (s : cm_st)
  | MbKey (k : K)
  | MbVal (v : V)
  | MbNums (capacity len : N)
  | MbErr (e : cv_err).

  Definition cm_step (d : cm_data) (o : cm_op) : cprog (cm_data * cm_obs) :=
    let fin {A} (p : cprog A) (f : A -> cm_data * cm_obs) : cprog (cm_data * cm_obs) :=
      r <~ cp_catch p ;; CRet (match r with Datatypes.inl a => f a | Datatypes.inr e => (d, MbErr e) end) in
    match o with
    | MoSetState i s => fin (cm_set_state d i s) (fun _ => (d, MbUnit))
    | MoSetKey i k => fin (cm_set_key d i k) (fun _ => (d, MbUnit))
    | MoSetValue i v => fin (cm_set_value d i v) (fun _ => (d, MbUnit))
    | MoSetLen n => fin (cm_set_len d n) (fun d' => (d', MbUnit))
    | MoResize c => fin (cm_resize d c) (fun d' => (d', MbUnit))
    | MoSwap i j => fin (cm_swap d i j) (fun _ => (d, MbUnit))
    | MoShrink => fin (cm_shrink_to_fit d) (fun d' => (d', MbUnit))
    | MoState i => fin (cm_state d i) (fun s => (d, MbState s))
    | MoKey i => fin (cm_key d i) (fun k => (d, MbKey k))
    | MoValue i => fin (cm_value d i) (fun v => (d, MbVal v))
    | MoCapLen => CRet (d, MbNums (cm_capacity d) (cm_len d))
    | MoReload => fin (cm_from_storage (cm_index d)) (fun d' => (d', MbUnit))
    | MoMaint m => if cv_is_maint m then fin (cp_unit m) (fun _ => (d, MbUnit)) else CRet (d, MbUnit)
    end.

  Fixpoint cm_run (d : cm_data) (l : list cm_op) : cprog (cm_data * list cm_obs) :=
    match l with
    | [] => CRet (d, [])
    | o :: t =>
      r <~ cm_step d o ;;
      r' <~ cm_run (fst r) t ;;
      CRet (fst r', snd r :: snd r')
    end.

  (* ---- the table the interface stands for ---- *)
  Record cm_table := { ct_states : list cm_st; ct_keys : list K; ct_values : list V; ct_len : N }.

  Definition ct_step (t : cm_table) (o : cm_op) : cm_table * cm_obs :=
    let upd_s s := {| ct_states := s; ct_keys := ct_keys t; ct_values := ct_values t; ct_len := ct_len t |} in
    let upd_k k := {| ct_states := ct_states t; ct_keys := k; ct_values := ct_values t; ct_len := ct_len t |} in
    let upd_v v := {| ct_states := ct_states t; ct_keys := ct_keys t; ct_values := v; ct_len := ct_len t |} in
    match o with
    | MoSetState i s =>
      if lenN (ct_states t) <=? i then (t, MbErr CvIndex) else (upd_s (cl_upd (ct_states t) (N.to_nat i) s), MbUnit)
    | MoSetKey i k =>
      if lenN (ct_keys t) <=? i then (t, MbErr CvIndex) else (upd_k (cl_upd (ct_keys t) (N.to_nat i) k), MbUnit)
    | MoSetValue i v =>
      if lenN (ct_values t) <=? i then (t, MbErr CvIndex) else (upd_v (cl_upd (ct_values t) (N.to_nat i) v), MbUnit)
    | MoSetLen n => ({| ct_states := ct_states t; ct_keys := ct_keys t; ct_values := ct_values t; ct_len := n |}, MbUnit)
    | MoResize c =>
      ({| ct_states := cl_resize (ct_states t) (N.to_nat c) StEmpty;
          ct_keys := cl_resize (ct_keys t) (N.to_nat c) kdef;
          ct_values := cl_resize (ct_values t) (N.to_nat c) vdef; ct_len := ct_len t |}, MbUnit)
    | MoSwap i j =>
      let sw {A} (l : list A) :=
        match nth_error l (N.to_nat i), nth_error l (N.to_nat j) with
        | Some a, Some b => cl_upd (cl_upd l (N.to_nat i) b) (N.to_nat j) a
        | _, _ => l
        end in
      if i =? j then (t, MbUnit)
      else if (lenN (ct_states t) <=? i) || (lenN (ct_states t) <=? j) then (t, MbErr CvIndex)
      else ({| ct_states := sw (ct_states t); ct_keys := sw (ct_keys t); ct_values := sw (ct_values t);
               ct_len := ct_len t |}, MbUnit)
    | MoShrink | MoReload | MoMaint _ => (t, MbUnit)
    | MoState i => match nth_error (ct_states t) (N.to_nat i) with Some s => (t, MbState s) | None => (t, MbErr CvIndex) end
    | MoKey i => match nth_error (ct_keys t) (N.to_nat i) with Some k => (t, MbKey k) | None => (t, MbErr CvIndex) end
    | MoValue i => match nth_error (ct_values t) (N.to_nat i) with Some v => (t, MbVal v) | None => (t, MbErr CvIndex) end
    | MoCapLen => (t, MbNums (lenN (ct_states t)) (ct_len t))
    end.

  Fixpoint ct_run (t : cm_table) (l : list cm_op) : cm_table * list cm_obs :=
    match l with
    | [] => (t, [])
    | o :: r =>
      let '(t1, v) := ct_step t o in
      let '(t2, vs) := ct_run t1 r in
      (t2, v :: vs)
    end.
End MapData.

(* ------------------------------------------------------------------------- *)
(* GraphDataStorage (graph.rs)                                                *)
(* ------------------------------------------------------------------------- *)
Record cg_data := { cg_index : N; cg_from : cv_vec; cg_to : cv_vec; cg_from_meta : cv_vec; cg_to_meta : cv_vec }.
Definition cg_with (g : cg_data) (f t fm tm : cv_vec) : cg_data :=
  {| cg_index := cg_index g; cg_from := f; cg_to := t; cg_from_meta := fm; cg_to_meta := tm |}.
Definition cg_index_ser (f t fm tm : N) : bytes := le64 f ++ le64 t ++ le64 fm ++ le64 tm.
Definition cg_i64_min : Z := (-9223372036854775808)%Z.

(* GraphDataStorage::new: one transaction around four vectors (each with one pushed element) and the index record *)
Definition cg_new : cprog cg_data :=
  id <~ cp_transaction ;;
  f0 <~ cv_new ;; f <~ cv_push Z ce_i64 f0 0%Z ;;
  t0 <~ cv_new ;; t <~ cv_push Z ce_i64 t0 0%Z ;;
  fm0 <~ cv_new ;; fm <~ cv_push Z ce_i64 fm0 cg_i64_min ;;
  tm0 <~ cv_new ;; tm <~ cv_push Z ce_i64 tm0 0%Z ;;
  i <~ cp_insert (cg_index_ser (cv_index f) (cv_index t) (cv_index fm) (cv_index tm)) ;;
  cp_commit id ;;~
  CRet {| cg_index := i; cg_from := f; cg_to := t; cg_from_meta := fm; cg_to_meta := tm |}.

(* GraphDataStorage::from_storage; GraphDataStorageIndexes::deserialize reads 8 bytes at &bytes[0..], [8..], [16..],
   [24..] in this order: each slice start is within the record because the previous read succeeded (no slice panic) *)
Definition cg_from_storage (i : N) : cprog cg_data :=
  b <~ cp_value i ;;
  fi <~ cp_de64 b ;;
  ti <~ cp_de64 (skipn 8 b) ;;
  fmi <~ cp_de64 (skipn 16 b) ;;
  tmi <~ cp_de64 (skipn 24 b) ;;
  f <~ cv_from_storage Z ce_i64 fi ;;
  t <~ cv_from_storage Z ce_i64 ti ;;
  fm <~ cv_from_storage Z ce_i64 fmi ;;
  tm <~ cv_from_storage Z ce_i64 tmi ;;
  CRet {| cg_index := i; cg_from := f; cg_to := t; cg_from_meta := fm; cg_to_meta := tm |}.

(* GraphIndex::as_u64 *)
Definition cg_as_u64 (i : Z) : N := Z.to_N (Z.abs i).

(* the GraphData interface *)
Inductive cg_field := GfFrom | GfTo | GfFromMeta | GfToMeta.
Definition cg_vec (g : cg_data) (f : cg_field) : cv_vec :=
  match f with GfFrom => cg_from g | GfTo => cg_to g | GfFromMeta => cg_from_meta g | GfToMeta => cg_to_meta g end.
Definition cg_capacity (g : cg_data) : N := cv_len (cg_from g).
Definition cg_get (g : cg_data) (f : cg_field) (i : Z) : cprog Z := cv_value Z ce_i64 (cg_vec g f) (cg_as_u64 i).
Definition cg_set (g : cg_data) (f : cg_field) (i : Z) (v : Z) : cprog unit :=
  cv_replace Z ce_i64 (cg_vec g f) (cg_as_u64 i) v ;;~ CRet tt.
Definition cg_free_index (g : cg_data) : cprog Z := cv_value Z ce_i64 (cg_from_meta g) 0.
Definition cg_node_count (g : cg_data) : cprog N := c <~ cv_value Z ce_i64 (cg_to_meta g) 0 ;; CRet (z2u c).  (* `as u64` *)
Definition cg_set_node_count (g : cg_data) (c : N) : cprog unit :=
  cv_replace Z ce_i64 (cg_to_meta g) 0 (u2z c) ;;~ CRet tt.                                               (* `as i64` *)
(* grow: four pushes (from, to, from_meta, to_meta), each its own storage transaction *)
Definition cg_grow (g : cg_data) : cprog cg_data :=
  f <~ cv_push Z ce_i64 (cg_from g) 0%Z ;;
  t <~ cv_push Z ce_i64 (cg_to g) 0%Z ;;
  fm <~ cv_push Z ce_i64 (cg_from_meta g) 0%Z ;;
  tm <~ cv_push Z ce_i64 (cg_to_meta g) 0%Z ;;
  CRet (cg_with g f t fm tm).
Definition cg_shrink_to_fit (g : cg_data) : cprog cg_data :=
  f <~ cv_shrink_to_fit Z ce_i64 (cg_from g) ;;
  t <~ cv_shrink_to_fit Z ce_i64 (cg_to g) ;;
  fm <~ cv_shrink_to_fit Z ce_i64 (cg_from_meta g) ;;
  tm <~ cv_shrink_to_fit Z ce_i64 (cg_to_meta g) ;;
  CRet (cg_with g f t fm tm).

Inductive cg_op :=
| GoSet (f : cg_field) (i v : Z)
| GoGet (f : cg_field) (i : Z)
| GoGrow
| GoShrink
| GoCap
| GoReload
| GoMaint (o : sop).
Inductive cg_obs :=
| GbUnit
| GbVal (z : Z)
| GbNum (n : N)
| GbErr (e : cv_err).

Definition cg_step (g : cg_data) (o : cg_op) : cprog (cg_data * cg_obs) :=
  let fin {A} (p : cprog A) (f : A -> cg_data * cg_obs) : cprog (cg_data * cg_obs) :=
    r <~ cp_catch p ;; CRet (match r with Datatypes.inl a => f a | Datatypes.inr e => (g, GbErr e) end) in
  match o with
  | GoSet f i v => fin (cg_set g f i v) (fun _ => (g, GbUnit))
  | GoGet f i => fin (cg_get g f i) (fun z => (g, GbVal z))
  | GoGrow => fin (cg_grow g) (fun g' => (g', GbUnit))
  | GoShrink => fin (cg_shrink_to_fit g) (fun g' => (g', GbUnit))
  | GoCap => CRet (g, GbNum (cg_capacity g))
  | GoReload => fin (cg_from_storage (cg_index g)) (fun g' => (g', GbUnit))
  | GoMaint m => if cv_is_maint m then fin (cp_unit m) (fun _ => (g, GbUnit)) else CRet (g, GbUnit)
  end.
Fixpoint cg_run (g : cg_data) (l : list cg_op) : cprog (cg_data * list cg_obs) :=
  match l with
  | [] => CRet (g, [])
  | o :: t =>
    r <~ cg_step g o ;;
    r' <~ cg_run (fst r) t ;;
    CRet (fst r', snd r :: snd r')
  end.

(* the four slot arrays the interface stands for (Graph.v's g_from, g_to, g_fmeta, g_tmeta) *)
Record cg_arrays := { ga_from : list Z; ga_to : list Z; ga_from_meta : list Z; ga_to_meta : list Z }.
Definition ga_get (a : cg_arrays) (f : cg_field) : list Z :=
  match f with GfFrom => ga_from a | GfTo => ga_to a | GfFromMeta => ga_from_meta a | GfToMeta => ga_to_meta a end.
Definition ga_put (a : cg_arrays) (f : cg_field) (l : list Z) : cg_arrays :=
  match f with
  | GfFrom => {| ga_from := l; ga_to := ga_to a; ga_from_meta := ga_from_meta a; ga_to_meta := ga_to_meta a |}
  | GfTo => {| ga_from := ga_from a; ga_to := l; ga_from_meta := ga_from_meta a; ga_to_meta := ga_to_meta a |}
  | GfFromMeta => {| ga_from := ga_from a; ga_to := ga_to a; ga_from_meta := l; ga_to_meta := ga_to_meta a |}
  | GfToMeta => {| ga_from := ga_from a; ga_to := ga_to a; ga_from_meta := ga_from_meta a; ga_to_meta := l |}
  end.
Definition ga_step (a : cg_arrays) (o : cg_op) : cg_arrays * cg_obs :=
  match o with
  | GoSet f i v =>
    if lenN (ga_get a f) <=? cg_as_u64 i then (a, GbErr CvIndex)
    else (ga_put a f (cl_upd (ga_get a f) (N.to_nat (cg_as_u64 i)) v), GbUnit)
  | GoGet f i =>
    match nth_error (ga_get a f) (N.to_nat (cg_as_u64 i)) with Some z => (a, GbVal z) | None => (a, GbErr CvIndex) end
  | GoGrow =>
    ({| ga_from := ga_from a ++ [0%Z]; ga_to := ga_to a ++ [0%Z];
        ga_from_meta := ga_from_meta a ++ [0%Z]; ga_to_meta := ga_to_meta a ++ [0%Z] |}, GbUnit)
  | GoShrink | GoReload | GoMaint _ => (a, GbUnit)
  | GoCap => (a, GbNum (lenN (ga_from a)))
  end.
Fixpoint ga_run (a : cg_arrays) (l : list cg_op) : cg_arrays * list cg_obs :=
  match l with
  | [] => (a, [])
  | o :: r =>
    let '(a1, v) := ga_step a o in
    let '(a2, vs) := ga_run a1 r in
    (a2, v :: vs)
  end.

(* ------------------------------------------------------------------------- *)
(* DbStorageIndex (db.rs): the root record at storage index 1                 *)
(* ------------------------------------------------------------------------- *)
Record cr_root := { cr_version : N; cr_graph : N; cr_aliases1 : N; cr_aliases2 : N; cr_indexes : N; cr_values : N }.
Definition cr_ser (r : cr_root) : bytes :=
  le64 (cr_version r) ++ le64 (cr_graph r) ++ le64 (cr_aliases1 r) ++ le64 (cr_aliases2 r) ++ le64 (cr_indexes r) ++ le64 (cr_values r).
(* DbStorageIndex::deserialize: u64::deserialize(bytes) then &bytes[8*k..] (slice panic when shorter) *)
Definition cr_de (b : bytes) : cprog cr_root :=
  v <~ cp_de64 b ;;
  g <~ cp_de64 (skipn 8 b) ;;
  a1 <~ cp_de64 (skipn 16 b) ;;
  a2 <~ cp_de64 (skipn 24 b) ;;
  ix <~ cp_de64 (skipn 32 b) ;;
  vs <~ cp_de64 (skipn 40 b) ;;
  CRet {| cr_version := v; cr_graph := g; cr_aliases1 := a1; cr_aliases2 := a2; cr_indexes := ix; cr_values := vs |}.
(* try_new_with_storage, second branch: storage.value::<DbStorageIndex>(StorageIndex(1)) *)
Definition cr_load : cprog cr_root := b <~ cp_value 1 ;; cr_de b.
(* first branch: insert(&DbStorageIndex::default()) ... insert_at(StorageIndex(1), 0, &db_storage_index) *)
Definition cr_create : cprog N := cp_insert (cr_ser {| cr_version := 0; cr_graph := 0; cr_aliases1 := 0; cr_aliases2 := 0; cr_indexes := 0; cr_values := 0 |}).
Definition cr_store (r : cr_root) : cprog unit := cp_insert_at 1 0 (cr_ser r).
