(* GraphC08.v — the statements of C08 / C18 (graph part) assembled from the simulation:
   observation bundle, abstract adjacency equations, canonical abstraction `abs`,
   non-vacuity and witness examples. *)
From Agdb Require Import Bytes Graph GraphArr GraphSim GraphSim2 GraphSim3 GraphOps GraphOps2 GraphProofs GraphRemove GraphSpec GraphWf.
From Coq Require Import Sorted Permutation FinFun.
From Coq Require Import ZifyBool ZifyNat ZifyN.
Ltac Zify.zify_post_hook ::= Z.div_mod_to_equations.
Open Scope Z_scope.

(* ---------- abstract adjacency: defining equations ---------- *)

Lemma a_out_in_iff a n e :
  In e (a_out a n) <-> exists x, In x (a_edges a) /\ e = - eslot x /\ esrc x = n.
Proof.
  unfold a_out. rewrite in_map_iff. split.
  - intros [s [<- Hs]]. apply in_adj in Hs. destruct Hs as [x [Hx [<- Hk]]]. exists x. auto.
  - intros [x [Hx [-> Hk]]]. exists (eslot x). split; [reflexivity|]. apply in_adj. exists x. auto.
Qed.

Lemma a_in_in_iff a n e :
  In e (a_in a n) <-> exists x, In x (a_edges a) /\ e = - eslot x /\ etgt x = n.
Proof.
  unfold a_in. rewrite in_map_iff. split.
  - intros [s [<- Hs]]. apply in_adj in Hs. destruct Hs as [x [Hx [<- Hk]]]. exists x. auto.
  - intros [x [Hx [-> Hk]]]. exists (eslot x). split; [reflexivity|]. apply in_adj. exists x. auto.
Qed.

(* a new edge goes to the head of its source's out-list and of its target's in-list
   (a self-loop to both lists of the same node); nothing else changes *)
Lemma a_out_insert nodes E s f t n :
  a_out {| a_nodes := nodes; a_edges := (s, (f, t)) :: E |} n =
  if f =? n then - s :: a_out {| a_nodes := nodes; a_edges := E |} n
  else a_out {| a_nodes := nodes; a_edges := E |} n.
Proof. unfold a_out. cbn [a_edges]. rewrite adj_cons. cbn [esrc eslot fst snd]. destruct (f =? n); reflexivity. Qed.

Lemma a_in_insert nodes E s f t n :
  a_in {| a_nodes := nodes; a_edges := (s, (f, t)) :: E |} n =
  if t =? n then - s :: a_in {| a_nodes := nodes; a_edges := E |} n
  else a_in {| a_nodes := nodes; a_edges := E |} n.
Proof. unfold a_in. cbn [a_edges]. rewrite adj_cons. cbn [etgt eslot fst snd]. destruct (t =? n); reflexivity. Qed.

Lemma map_opp_zrem s l : map Z.opp (zrem s l) = zrem (- s) (map Z.opp l).
Proof.
  unfold zrem. induction l as [|y r IH]; cbn [filter map]; [reflexivity|].
  destruct (Z.eqb_spec y s); destruct (Z.eqb_spec (- y) (- s)); try lia; cbn [negb map]; [exact IH|f_equal; exact IH].
Qed.

(* removing an edge deletes it from both lists and keeps the order of the rest *)
Lemma a_out_remove nodes E s n :
  a_out {| a_nodes := nodes; a_edges := remE s E |} n = zrem (- s) (a_out {| a_nodes := nodes; a_edges := E |} n).
Proof. unfold a_out. cbn [a_edges]. rewrite adj_remE. apply map_opp_zrem. Qed.

Lemma a_in_remove nodes E s n :
  a_in {| a_nodes := nodes; a_edges := remE s E |} n = zrem (- s) (a_in {| a_nodes := nodes; a_edges := E |} n).
Proof. unfold a_in. cbn [a_edges]. rewrite adj_remE. apply map_opp_zrem. Qed.

(* removing a node removes exactly the edges with that node as an endpoint (a self-loop once) *)
Lemma keep_edge_in n E x :
  In x (filter (keep_edge n) E) <-> In x E /\ esrc x <> n /\ etgt x <> n.
Proof.
  rewrite filter_In. unfold keep_edge.
  destruct (Z.eqb_spec (esrc x) n); destruct (Z.eqb_spec (etgt x) n); cbn [negb andb]; intuition congruence.
Qed.

(* ---------- everything observable agrees with the abstract multigraph ---------- *)

Definition observations_agree (g : graph) (a : agraph) : Prop :=
  node_count g = Z.of_nat (length (a_nodes a)) /\
  (forall i, graph_index g i = true <-> (0 < i /\ In i (a_nodes a)) \/ (i < 0 /\ In i (a_edge_ids a))) /\
  (forall i, In i (elements g) <-> In i (a_nodes a) \/ In i (a_edge_ids a)) /\
  (forall n, In n (a_nodes a) ->
     out_edges g n = a_out a n /\ edge_count_from g n = Z.of_nat (length (a_out a n)) /\
     in_edges g n = a_in a n /\ edge_count_to g n = Z.of_nat (length (a_in a n))) /\
  (forall x, In x (a_edges a) -> edge_from g (- eslot x) = esrc x /\ edge_to g (- eslot x) = etgt x).

Definition agraph_ok (a : agraph) : Prop :=
  NoDup (a_nodes a) /\ (forall n, In n (a_nodes a) -> 0 < n) /\
  NoDup (a_edge_ids a) /\ (forall e, In e (a_edge_ids a) -> e < 0) /\
  (forall n, In n (a_nodes a) -> ~ In (- n) (a_edge_ids a)) /\
  (forall x, In x (a_edges a) -> In (esrc x) (a_nodes a) /\ In (etgt x) (a_nodes a)).

Lemma in_edge_ids a i : In i (a_edge_ids a) <-> In (- i) (map eslot (a_edges a)).
Proof.
  unfold a_edge_ids. rewrite !in_map_iff. split; intros [x [Hx H]]; exists x; split; auto; lia.
Qed.

Lemma sim_observations g a fl : sim g a fl -> observations_agree g a /\ agraph_ok a.
Proof.
  intros HS. split.
  - split; [apply (sim_node_count _ _ _ HS)|]. split.
    { intros i. rewrite (sim_graph_index _ _ _ HS), in_edge_ids. reflexivity. }
    split; [intros i; apply (sim_elements _ _ _ i HS)|]. split.
    { intros n Hn. destruct (sim_out_edges _ _ _ HS n Hn). destruct (sim_in_edges _ _ _ HS n Hn). auto. }
    intros x Hx. apply (sim_edge_ends _ _ _ HS x Hx).
  - split; [apply (sim_nodes_nodup _ _ _ HS)|]. split.
    { intros n Hn. apply (sim_nodes_pos _ _ _ HS n Hn). }
    split.
    { unfold a_edge_ids. rewrite <- (map_map eslot Z.opp).
      apply Injective_map_NoDup; [intros x y; lia|]. apply (sim_edges_nodup _ _ _ HS). }
    split.
    { intros e He. unfold a_edge_ids in He. apply in_map_iff in He. destruct He as [x [<- Hx]].
      pose proof (sim_edges_pos _ _ _ HS x Hx). lia. }
    split.
    { intros n Hn Hi. apply in_edge_ids in Hi. rewrite Z.opp_involutive in Hi.
      apply (sim_disjoint _ _ _ HS n Hn Hi). }
    intros x Hx. apply (sim_ends _ _ _ HS x Hx).
Qed.

(* ---------- the free list ---------- *)

(* fl is the free list threaded through from_meta from slot 0 (head = - first, i64::MIN = empty):
   duplicate-free, made of cleared unused slots, and - as long as the capacity has not reached 2^63,
   the one slot whose negation is i64::MIN - it covers exactly the slots with from_meta < 0 *)
Lemma sim_free_list g a fl :
  sim g a fl ->
  fmeta g 0 = fhead fl /\ fchain (fmeta g) fl /\ NoDup fl /\
  (forall s, In s fl -> 0 < s < capacity g /\ fmeta g s < 0 /\ from g s = 0 /\ to g s = 0 /\ tmeta g s = 0 /\
                        ~ In s (a_nodes a) /\ ~ In s (map eslot (a_edges a))) /\
  (capacity g <= 9223372036854775808 -> forall s, 0 < s < capacity g -> (fmeta g s < 0 <-> In s fl)).
Proof.
  intros HS. pose proof (r_free _ _ _ _ _ _ _ _ _ _ _ _ _ (proj2 HS)) as FS.
  split; [apply (f_head _ _ _ _ _ _ _ _ _ FS)|]. split; [apply (f_chain _ _ _ _ _ _ _ _ _ FS)|].
  split; [apply (f_nodup _ _ _ _ _ _ _ _ _ FS)|]. split.
  - intros s Hs. destruct (f_fl _ _ _ _ _ _ _ _ _ FS s Hs) as [Hr [_ [Ha Hb]]].
    destruct (f_unused _ _ _ _ _ _ _ _ _ FS s Hr Ha Hb) as [U1 [U2 [U3 U4]]]. auto 10.
  - intros Hcap s Hr. split.
    + intros Hneg. apply (f_cover _ _ _ _ _ _ _ _ _ FS Hcap s Hr).
      * intros Hi. destruct (h_node _ _ _ _ _ _ _ (r_out _ _ _ _ _ _ _ _ _ _ _ _ _ (proj2 HS)) s Hi). lia.
      * intros Hi. apply in_map_iff in Hi. destruct Hi as [x [<- Hx]].
        destruct (h_rec _ _ _ _ _ _ _ (r_out _ _ _ _ _ _ _ _ _ _ _ _ _ (proj2 HS)) x Hx). lia.
    + intros Hs. destruct (f_fl _ _ _ _ _ _ _ _ _ FS s Hs) as [_ [_ [Ha Hb]]].
      apply (f_unused _ _ _ _ _ _ _ _ _ FS s Hr Ha Hb).
Qed.

(* ---------- the canonical abstraction: what can be recovered from the arrays alone ---------- *)

Definition abs_nodes (g : graph) : list Z := filter (fun i => 0 <? i) (elements g).
Definition abs_edges (g : graph) : list aedge :=
  map (fun e => (- e, (edge_from g e, edge_to g e))) (filter (fun i => i <? 0) (elements g)).
(* nodes and edges in slot order; the out-/in-lists are out_edges g / in_edges g themselves *)
Definition abs (g : graph) : agraph := {| a_nodes := abs_nodes g; a_edges := abs_edges g |}.

Lemma NoDup_map_inv' {A B} (f : A -> B) l : NoDup (map f l) -> NoDup l.
Proof.
  induction l as [|x r IH]; cbn [map]; intros H; constructor; inversion H; subst; auto.
  intros Hi. apply H2. apply in_map. assumption.
Qed.

(* any abstract graph that simulates g has the same nodes and edges as `abs g` (as sets; the
   per-node order is fixed by sim_observations: a_out a n = out_edges g n) *)
Lemma sim_abs g a fl :
  sim g a fl -> Permutation (a_nodes a) (abs_nodes g) /\ Permutation (a_edges a) (abs_edges g).
Proof.
  intros HS. split.
  - apply NoDup_Permutation.
    + apply (sim_nodes_nodup _ _ _ HS).
    + apply NoDup_filter, elements_nodup.
    + intros i. unfold abs_nodes. rewrite filter_In, (sim_elements _ _ _ i HS). split.
      * intros Hi. pose proof (sim_nodes_pos _ _ _ HS i Hi). split; [left; assumption|lia].
      * intros [[Hi|Hi] Hp]; [assumption|].
        unfold a_edge_ids in Hi. apply in_map_iff in Hi. destruct Hi as [x [<- Hx]].
        pose proof (sim_edges_pos _ _ _ HS x Hx). lia.
  - apply NoDup_Permutation.
    + apply (NoDup_map_inv' eslot). apply (sim_edges_nodup _ _ _ HS).
    + unfold abs_edges. apply Injective_map_NoDup.
      * intros x y H. injection H. lia.
      * apply NoDup_filter, elements_nodup.
    + intros x. unfold abs_edges. rewrite in_map_iff. split.
      * intros Hx. exists (- eslot x). pose proof (sim_edges_pos _ _ _ HS x Hx).
        destruct (sim_edge_ends _ _ _ HS x Hx) as [-> ->]. rewrite Z.opp_involutive.
        split; [destruct x as [s [f t]]; reflexivity|].
        apply filter_In. split; [|lia]. apply (sim_elements _ _ _ _ HS). right.
        unfold a_edge_ids. apply in_map_iff. exists x. auto.
      * intros [e [<- He]]. apply filter_In in He. destruct He as [He Hn].
        apply (sim_elements _ _ _ _ HS) in He. destruct He as [He|He].
        { pose proof (sim_nodes_pos _ _ _ HS e He). lia. }
        unfold a_edge_ids in He. apply in_map_iff in He. destruct He as [x [<- Hx]].
        destruct (sim_edge_ends _ _ _ HS x Hx) as [-> ->]. rewrite Z.opp_involutive.
        destruct x as [s [f t]]. exact Hx.
Qed.

(* ---------- histories: the final graph is observably the abstract multigraph ---------- *)

Theorem history_refines ops :
  Forall gop_ok ops ->
  exists g a, grun graph_new a_empty ops = Some (g, a) /\ wf g /\ observations_agree g a /\ agraph_ok a.
Proof.
  intros H. destruct (grun_new ops H) as [g [a [fl [E HS]]]].
  exists g, a. split; [exact E|]. split; [exists a, fl; exact HS|]. apply (sim_observations g a fl HS).
Qed.

(* ---------- the definitions of the specification, as equations ---------- *)

Lemma astep_def (a : agraph) (op : gop) (out : option Z) :
  astep a op out =
  match op, out with
  | GInsertNode, Some i =>
      if (0 <? i) && a_fresh a i then Some {| a_nodes := i :: a_nodes a; a_edges := a_edges a |} else None
  | GInsertEdge f t, Some i =>
      if (i <? 0) && a_fresh a (- i) && zmem f (a_nodes a) && zmem t (a_nodes a)
      then Some {| a_nodes := a_nodes a; a_edges := (- i, (f, t)) :: a_edges a |} else None
  | GInsertEdge f t, None =>
      if zmem f (a_nodes a) && zmem t (a_nodes a) then None else Some a
  | GRemoveNode n, None =>
      Some {| a_nodes := zrem n (a_nodes a); a_edges := filter (keep_edge n) (a_edges a) |}
  | GRemoveEdge e, None =>
      Some {| a_nodes := a_nodes a; a_edges := remE (- e) (a_edges a) |}
  | _, _ => None
  end.
Proof. destruct op, out; reflexivity. Qed.

Lemma a_fresh_def a s : a_fresh a s = true <-> ~ In s (a_nodes a) /\ ~ In s (map eslot (a_edges a)).
Proof. unfold a_fresh. rewrite Bool.andb_true_iff, !Bool.negb_true_iff, !zmem_false. reflexivity. Qed.

Lemma gstep_def (g : graph) (op : gop) :
  gstep g op =
  match op with
  | GInsertNode => let '(i, g') := insert_node g in Some (g', Some i)
  | GInsertEdge f t => match insert_edge g f t with
                       | Some (i, g') => Some (g', Some i)
                       | None => Some (g, None)
                       end
  | GRemoveNode n => match remove_node g n with Some g' => Some (g', None) | None => None end
  | GRemoveEdge e => match remove_edge g e with Some g' => Some (g', None) | None => None end
  end.
Proof. destruct op; reflexivity. Qed.

Lemma grun_def (g : graph) (a : agraph) (ops : list gop) :
  grun g a ops =
  match ops with
  | [] => Some (g, a)
  | op :: r =>
    match gstep g op with
    | None => None
    | Some (g', out) => match astep a op out with None => None | Some a' => grun g' a' r end
    end
  end.
Proof. destruct ops; reflexivity. Qed.

Lemma adjacency_insert nodes E s f t n :
  a_out {| a_nodes := nodes; a_edges := (s, (f, t)) :: E |} n =
    (if f =? n then - s :: a_out {| a_nodes := nodes; a_edges := E |} n
     else a_out {| a_nodes := nodes; a_edges := E |} n) /\
  a_in {| a_nodes := nodes; a_edges := (s, (f, t)) :: E |} n =
    (if t =? n then - s :: a_in {| a_nodes := nodes; a_edges := E |} n
     else a_in {| a_nodes := nodes; a_edges := E |} n).
Proof. split; [apply a_out_insert|apply a_in_insert]. Qed.

Lemma adjacency_remove nodes E s n :
  a_out {| a_nodes := nodes; a_edges := remE s E |} n = zrem (- s) (a_out {| a_nodes := nodes; a_edges := E |} n) /\
  a_in {| a_nodes := nodes; a_edges := remE s E |} n = zrem (- s) (a_in {| a_nodes := nodes; a_edges := E |} n).
Proof. split; [apply a_out_remove|apply a_in_remove]. Qed.

Lemma zrem_def s l y : In y (zrem s l) <-> In y l /\ y <> s.
Proof. apply in_zrem. Qed.

Lemma wf_preserved_all g :
  wf g ->
  wf (snd (insert_node g)) /\
  (forall f t i g', 0 <= f -> 0 <= t -> insert_edge g f t = Some (i, g') -> wf g') /\
  (forall e, e <= 0 -> exists g', remove_edge g e = Some g' /\ wf g') /\
  (forall n, 0 <= n -> exists g', remove_node g n = Some g' /\ wf g').
Proof.
  intros H. split; [apply wf_insert_node; exact H|]. split.
  - intros f t i g' Hf Ht E. exact (wf_insert_edge g f t i g' H Hf Ht E).
  - split; [intros e He; exact (wf_remove_edge g e H He)|intros n Hn; exact (wf_remove_node g n H Hn)].
Qed.

Lemma wf_adjacency g n :
  wf g -> 0 < n -> is_node g n = true ->
  (NoDup (out_edges g n) /\
   (forall e, In e (out_edges g n) <-> e < 0 /\ is_edge g e = true /\ edge_from g e = n) /\
   edge_count_from g n = Z.of_nat (length (out_edges g n))) /\
  (NoDup (in_edges g n) /\
   (forall e, In e (in_edges g n) <-> e < 0 /\ is_edge g e = true /\ edge_to g e = n) /\
   edge_count_to g n = Z.of_nat (length (in_edges g n))).
Proof. intros H Hn Hi. split; [exact (wf_out_edges g n H Hn Hi)|exact (wf_in_edges g n H Hn Hi)]. Qed.

Lemma new_wf : sim graph_new a_empty [] /\ wf graph_new.
Proof. split; [exact sim_new|exact wf_new]. Qed.

(* ---------- examples ---------- *)

Definition ex_ops : list gop :=
  [GInsertNode; GInsertNode; GInsertNode; GInsertEdge 1 2; GInsertEdge 2 2; GInsertEdge 3 2;
   GInsertEdge 1 9; GRemoveEdge (-4); GInsertEdge 2 1; GRemoveNode 2; GInsertNode; GInsertEdge 2 2;
   GInsertEdge 1 2; GInsertEdge 1 2].

(* insertions, a failing edge insertion (endpoint 9 missing), edge removal with slot reuse, removal of a
   node with a self-loop, an incoming and an outgoing edge, reuse of the freed slots, parallel edges *)
Lemma ex_history :
  match grun graph_new a_empty ex_ops with
  | Some (g, a) =>
      elements g = [1; 2; 3; -4; -5; -6] /\ a_nodes a = [2; 3; 1] /\
      a_edges a = [(4, (1, 2)); (5, (1, 2)); (6, (2, 2))] /\
      out_edges g 1 = [-4; -5] /\ in_edges g 2 = [-4; -5; -6] /\ out_edges g 2 = [-6] /\
      edge_count_from g 2 = 1 /\ edge_count_to g 2 = 3 /\ node_count g = 3
  | None => False
  end.
Proof. vm_compute. repeat split; reflexivity. Qed.

(* why ids must carry the sign of their kind: the raw GraphImpl-level insert_edge accepts the
   negated id of a node as an endpoint and then stores a non-negative `from`, so that the
   returned "edge" -3 is not an edge (DbImpl never does this: db_id / graph_index check the sign) *)
Lemma ex_raw_negative_endpoint :
  let g2 := snd (insert_node (snd (insert_node graph_new))) in
  match insert_edge g2 (-1) 2 with
  | Some (i, g3) => i = -3 /\ is_edge g3 (-3) = false /\ is_node g3 3 = true
  | None => False
  end.
Proof. vm_compute. repeat split; reflexivity. Qed.
