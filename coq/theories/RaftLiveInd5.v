(* RaftLiveInd5.v — C30, 5 nodes, FIFO schedule, ANY number of appended entries.
   The four round lemmas of RaftLiveInd.Induction for `ss_gen 5` by symbolic evaluation (k, L, d are variables),
   then the theorem by the generic induction over the payloads. *)
From Coq Require Import NArith List Bool Lia Arith.
From Agdb Require Import Raft RaftProofs RaftLive RaftLiveInd.
Import ListNotations.
Open Scope N_scope.

(* election by node 0's timer: 24 deliveries (4 pre-votes, 4 votes, 4 heartbeats, each with its answer) *)
Lemma elect5 : forall rv,
  ndrain rv 24 (nstep rv (strip (init_default (N.of_nat 5))) (Tick 0 0 [])) = ss_gen 5 0 0 [].
Proof. intros [[|] [|] [|]]; vm_compute; reflexivity. Qed.

(* the first append (the followers' last-entry term is still 0): 4 appends, 4 acknowledgements — the leader commits
   on the second one (quorum 3 with itself) and sends 4 heartbeats carrying the new commit index —, 4 heartbeats, 4 answers *)
Lemma round0_5 : forall rv d,
  ndrain rv 16 (nstep rv (ss_gen 5 0 0 []) (ClientAppend 0 d)) = ss_gen 5 1 1 [mkEntry 1 1 d].
Proof. intros rv d. expand_ss. sym_eval. do 16 fifo_one. reflexivity. Qed.

Lemma round_5 : forall rv k L d, 1 <= k -> length L = N.to_nat k ->
  ndrain rv 16 (nstep rv (ss_gen 5 k 1 L) (ClientAppend 0 d)) = ss_gen 5 (k + 1) 1 (L ++ [mkEntry (k + 1) 1 d]).
Proof. intros rv k L d Hk HL. expand_ss. sym_eval. do 16 fifo_one. reflexivity. Qed.

(* a heartbeat round in a steady state changes nothing *)
Lemma hb_5 : forall rv k pt L,
  ndrain rv 8 (nstep rv (ss_gen 5 k pt L) (Tick 0 1001 (peers_of 5))) = ss_gen 5 k pt L.
Proof.
  intros rv k pt L. change (peers_of 5) with [1; 2; 3; 4]. expand_ss. sym_eval. do 8 fifo_one. reflexivity.
Qed.

Definition live_script5 : list N -> list event := live_script 24 16 8 5.

Theorem live_fifo_5 : forall rv payloads c',
  fifo_run rv (live_actions 5 payloads) (init_default 5) c' ->
  strip c' = ss_gen 5 (lenN payloads) (pt_of (lenN payloads)) (mk_log 1 0 payloads).
Proof.
  intros rv payloads c' R.
  exact (live_fifo rv 5 (ss_gen 5) 24 16 8 (ss_gen_net 3) (elect5 rv) (round0_5 rv) (round_5 rv) (hb_5 rv) payloads c' R).
Qed.

Theorem live_fifo_script_5 : forall rv payloads,
  fifo_run rv (live_actions 5 payloads) (init_default 5) (run rv 5 (live_script5 payloads)).
Proof.
  intros rv payloads.
  exact (live_fifo_script rv 5 (ss_gen 5) 24 16 8 (ss_gen_net 3) (elect5 rv) (round0_5 rv) (round_5 rv) (hb_5 rv) payloads).
Qed.

(* the statement pinned in Props/C30.v *)
Theorem C30_fifo_unbounded_5_proof : forall rv payloads c',
  fifo_run rv (live_actions 5 payloads) (init_default 5) c' ->
  c_net c' = [] /\
  map n_state (c_nodes c') = [Leader; Follower 0; Follower 0; Follower 0; Follower 0] /\
  Forall (fun nd => n_term nd = 1 /\ n_logs nd = mk_log 1 0 payloads /\ n_commit nd = lenN payloads) (c_nodes c') /\
  all_synced_b c' payloads = true.
Proof.
  intros rv payloads c' R. pose proof (live_fifo_5 rv payloads c' R) as S.
  assert (Hnet : c_net c' = []) by exact (f_equal c_net S).
  assert (Hnodes : c_nodes c' = c_nodes (ss_gen 5 (lenN payloads) (pt_of (lenN payloads)) (mk_log 1 0 payloads)))
    by exact (f_equal c_nodes S).
  split; [exact Hnet|]. split; [rewrite Hnodes; reflexivity|]. split; [rewrite Hnodes; apply ss_gen_nodes|].
  destruct c' as [nodes net h]. cbn [c_nodes] in Hnodes. subst nodes.
  assert (Hlen : lenN payloads = lenN (mk_log 1 0 payloads)) by (unfold lenN; rewrite mk_log_length; reflexivity).
  apply all_synced_intro; cbn.
  - reflexivity.
  - repeat constructor; exact Hlen.
  - exact Hlen.
  - apply mk_log_data.
Qed.
