(* TraversalLiveProofs.v — the hypothesis of the history theorems of C09 / C10 / C11 discharged:
   on a well-formed graph the breadth-/depth-first searches (ANY condition list, ANY limit/offset
   handler) and the path search (ANY condition list) return only existing elements, hence
   `search_live rv_fixed` (every id returned by any search exists) holds outright.

   NOTE.  `traversal_live` as stated in SearchLiveProofs.v is slightly too strong to be true: its
   path-search clause does not ask the origin to be an existing element, and the raw `path_search`
   (like the raw GraphImpl functions, which look only at |id|) started from the NEGATED id of a node
   returns that negated id (traversal_live_refuted below).  DbImpl never does that: every origin /
   destination goes through db_id.  `traversal_live_on` adds exactly this premise, and
   `search_live` (the statement the invariant proofs actually use) follows from it. *)
From Agdb Require Import Bytes BytesProofs DbValue Graph DbModel Search Queries Revisions
  AdjOk TraverseSpec TraverseProofs PathProofs AdjOkWf
  GraphSim GraphWf ElementsGraphProofs
  AliasProofs KvProofs KvDbProofs IndexProofs IndexDbProofs IndexDb3Proofs IndexDb4Proofs IndexInvProofs
  DbInvProofs QueryInvProofs SearchLiveProofs.
From Coq Require Import ZifyBool ZifyNat ZifyN.
Ltac Zify.zify_post_hook ::= Z.div_mod_to_equations.
Open Scope Z_scope.

(* the hypothesis relative to existing origins / destinations (as DbImpl resolves them) *)
Definition traversal_live_on (rv : revision) : Prop :=
  (forall d a reverse origin conds h ids,
     wf (gr d) -> graph_index (gr d) origin = true ->
     graph_search rv d a reverse origin conds h = Some ids ->
     forall id, In id ids -> graph_index (gr d) id = true) /\
  (forall d conds origin dest ids,
     wf (gr d) -> graph_index (gr d) origin = true -> graph_index (gr d) dest = true ->
     path_search rv d conds origin dest = Some ids ->
     forall id, In id ids -> graph_index (gr d) id = true).

(* ---------- breadth / depth first: every condition list, every handler ---------- *)
Section Loop.
  Variable d : db.
  Hypothesis Hok : adj_ok (gr d).
  Variable a : algo.
  Variable reverse : bool.
  Variable origin : Z.

  Lemma search_loop_elems : forall conds h f W V c acc ids,
    elem_work d W -> nonneg_work W -> (forall x, In x acc -> elem_id (gr d) x = true) ->
    search_loop rv_fixed d a reverse origin conds h f W V c acc = Some ids ->
    forall x, In x ids -> elem_id (gr d) x = true.
  Proof.
    intros conds h. induction f as [|f IH]; intros W V c acc ids HW Hnn Hacc Hs; [discriminate|].
    destruct W as [|[x k] rest]; cbn [search_loop] in Hs.
    - injection Hs as <-. intros y Hy. apply Hacc. now apply in_rev.
    - assert (Hx : elem_id (gr d) x = true) by (apply (HW x k); left; reflexivity).
      assert (HWr : elem_work d rest) by (intros y j Hy; apply (HW y j); right; exact Hy).
      assert (Hnr : nonneg_work rest) by (intros y j Hy; apply (Hnn y j); right; exact Hy).
      destruct (expand_facts d Hok a reverse origin x k rest true HW Hnn) as (_ & Ht2 & Ht3).
      destruct (expand_facts d Hok a reverse origin x k rest false HW Hnn) as (_ & Hf2 & Hf3).
      assert (Hacc' : forall add : bool, forall y, In y (if add then x :: acc else acc) -> elem_id (gr d) y = true).
      { intros [|] y Hy; [destruct Hy as [<-|Hy]; [exact Hx|now apply Hacc]|now apply Hacc]. }
      destruct (visited V x).
      + cbn [fix_visited_chain rv_fixed andb] in Hs. destruct (x <? 0).
        * exact (IH _ _ _ _ _ Hf2 Hf3 Hacc Hs).
        * exact (IH _ _ _ _ _ HWr Hnr Hacc Hs).
      + destruct (handle h c (eval_conditions rv_fixed d x k conds)) as [control c'].
        destruct control as [add|add|add].
        * exact (IH _ _ _ _ _ Ht2 Ht3 (Hacc' add) Hs).
        * injection Hs as <-. intros y Hy. apply (Hacc' add). now apply in_rev.
        * exact (IH _ _ _ _ _ Hf2 Hf3 (Hacc' add) Hs).
  Qed.

  Lemma graph_search_elems conds h ids :
    graph_index (gr d) origin = true ->
    graph_search rv_fixed d a reverse origin conds h = Some ids ->
    forall x, In x ids -> graph_index (gr d) x = true.
  Proof.
    unfold graph_search. intros Ho Hs x Hx. rewrite graph_index_elem_id in *.
    destruct (is_node (gr d) origin || is_edge (gr d) origin).
    2:{ injection Hs as <-. destruct Hx. }
    apply (search_loop_elems conds h (search_fuel (gr d)) [(origin, 0)] [] 0 [] ids); try assumption.
    - intros y j [H|[]]. injection H as <- <-. exact Ho.
    - intros y j [H|[]]. injection H as <- <-. lia.
    - intros y [].
  Qed.
End Loop.

(* ---------- path search: every condition list ---------- *)
Lemma is_path_elems g o w p : adj_ok g -> is_path g o w p -> forall x, In x p -> elem_id g x = true.
Proof.
  intros Hok H. induction H as [Ho|u p e H IH He Hf]; intros x Hx.
  - destruct Hx as [<-|[]]. unfold elem_id. now rewrite Ho.
  - apply in_app_or in Hx. destruct Hx as [Hx|[<-|[<-|[]]]]; [now apply IH| |]; unfold elem_id.
    + rewrite He. apply orb_true_r.
    + now rewrite (ao_to_node g Hok e He).
Qed.

Lemma path_search_elems rv d conds origin dest ids :
  adj_ok (gr d) -> 0 < origin -> 0 < dest ->
  path_search rv d conds origin dest = Some ids ->
  forall x, In x ids -> graph_index (gr d) x = true.
Proof.
  intros Hok Ho Hd Hs x Hx. rewrite graph_index_elem_id.
  assert (Hne : ids <> []) by (intros ->; destruct Hx).
  destruct (path_search_any_sound rv d conds dest Hok origin ids Ho Hd Hs Hne) as (els & -> & Hp).
  apply (is_path_elems (gr d) origin dest (map fst els) Hok Hp).
  apply in_map_iff in Hx. destruct Hx as [p [<- Hp']]. apply filter_In in Hp'. apply in_map. tauto.
Qed.

(* an existing element that is_node accepts is a positive id *)
Lemma live_node_pos g i : wf g -> graph_index g i = true -> is_node g i = true -> 0 < i.
Proof.
  intros Hwf Hl Hn. unfold graph_index in Hl. destruct (Z.ltb_spec i 0).
  - rewrite (wf_node_edge_disjoint g i Hwf Hn) in Hl. discriminate.
  - destruct (Z.ltb_spec 0 i); [assumption|discriminate].
Qed.

Theorem traversal_live_holds : traversal_live_on rv_fixed.
Proof.
  split.
  - intros d a reverse origin conds h ids Hwf Ho Hs. apply wf_adj_ok in Hwf.
    now apply (graph_search_elems d Hwf a reverse origin conds h ids).
  - intros d conds origin dest ids Hwf Ho Hd Hs id Hin.
    destruct (negb (origin =? dest) && is_node (gr d) origin && is_node (gr d) dest) eqn:E.
    + apply andb_prop in E. destruct E as [E E3]. apply andb_prop in E. destruct E as [_ E2].
      apply (path_search_elems rv_fixed d conds origin dest ids); try assumption.
      * now apply wf_adj_ok.
      * now apply (live_node_pos (gr d)).
      * now apply (live_node_pos (gr d)).
    + unfold path_search in Hs. rewrite E in Hs. injection Hs as <-. destruct Hin.
Qed.

(* ---------- every search returns existing elements ---------- *)
Theorem search_live_of_traversal_on rv : traversal_live_on rv -> search_live rv.
Proof.
  intros [Hgs Hps] d s ids Hd Hs id Hin. unfold live.
  pose proof (proj1 Hd) as Hwf. pose proof (proj1 (proj2 (proj2 Hd))) as Hal.
  unfold search in Hs. destruct (s_algorithm s) eqn:Ealg.
  1,2: (
    destruct (is_zero_id (s_destination s));
    [ destruct (db_id d (s_origin s)) as [o|e] eqn:Eo; [|discriminate];
      pose proof (db_id_live d _ o Hal Eo) as Hlo;
      destruct (s_order_by s) as [|ko ord];
      [ apply opt_ids_ok in Hs; exact (Hgs d _ false o _ _ ids Hwf Hlo Hs id Hin)
      | destruct (sorted_slice_in _ _ _ _ _ _ id Hs Hin) as (l0 & El & Hl); apply opt_ids_ok in El;
        exact (Hgs d _ false o _ _ l0 Hwf Hlo El id Hl) ]
    | destruct (is_zero_id (s_origin s));
      [ destruct (db_id d (s_destination s)) as [o|e] eqn:Eo; [|discriminate];
        pose proof (db_id_live d _ o Hal Eo) as Hlo;
        destruct (s_order_by s) as [|ko ord];
        [ apply opt_ids_ok in Hs; exact (Hgs d _ true o _ _ ids Hwf Hlo Hs id Hin)
        | destruct (sorted_slice_in _ _ _ _ _ _ id Hs Hin) as (l0 & El & Hl); apply opt_ids_ok in El;
          exact (Hgs d _ true o _ _ l0 Hwf Hlo El id Hl) ]
      | destruct (db_id d (s_origin s)) as [o|e] eqn:Eo; [|discriminate];
        destruct (db_id d (s_destination s)) as [t|e] eqn:Et; [|discriminate];
        pose proof (db_id_live d _ o Hal Eo) as Hlo; pose proof (db_id_live d _ t Hal Et) as Hlt;
        destruct (sorted_slice_in _ _ _ _ _ _ id Hs Hin) as (l0 & El & Hl); apply opt_ids_ok in El;
        exact (Hps d _ o t l0 Hwf Hlo Hlt El id Hl) ] ]).
  - (* index *)

    destruct (s_conditions s) as [|[lg md cd] rest]; [discriminate|].
    destruct cd; try discriminate.
    destruct (idx_find (indexes d) key) as [ids0|] eqn:Ef; [|discriminate].
    inversion Hs; subst. apply in_map_iff in Hin. destruct Hin as [p [<- Hp]]. apply filter_In in Hp.
    apply (index_entry_live d key ids0 p); [apply Hd|exact Ef|tauto].
  - (* elements *)

    destruct (s_order_by s) as [|ko ord].
    + inversion Hs; subst. eapply elements_search_existing; eassumption.
    + apply (slice_ids_in _ _ _ _ _ id Hs) in Hin. apply stable_sort_in in Hin.
      eapply elements_search_existing; eassumption.
Qed.

Theorem search_live_fixed : search_live rv_fixed.
Proof. exact (search_live_of_traversal_on rv_fixed traversal_live_holds). Qed.

(* ---------- the original, unrelativised hypothesis is false ---------- *)
(* two nodes, an edge 1 -> 2 (-3): the raw path search from -1 (the negated id of node 1, which
   is_node accepts because GraphImpl looks at |id| only) to 2 returns the id -1, not an element *)
Definition tl_db : db :=
  fst (exec rv_fixed (fst (exec rv_fixed db_new (InsertNodes 2 (Single []) [] (Ids []))))
            (InsertEdges (Ids [QId 1]) (Ids [QId 2]) (Single []) false (Ids []))).

Lemma traversal_live_refuted : ~ traversal_live rv_fixed.
Proof.
  intros [_ Hps].
  assert (Hwf : wf (gr tl_db)).
  { assert (Hi : Inv tl_db); [|apply Hi].
    unfold tl_db. apply (exec_ok_Inv rv_fixed search_live_fixed eq_refl); [exact I| |reflexivity].
    apply (exec_ok_Inv rv_fixed search_live_fixed eq_refl); [exact I|exact Inv_new|reflexivity]. }
  specialize (Hps tl_db [] (-1) 2 [-1; -3; 2] Hwf eq_refl (-1) (or_introl eq_refl)).
  vm_compute in Hps. discriminate.
Qed.
