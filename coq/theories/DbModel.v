(* DbModel.v — model of agdb::DbImpl (agdb/src/db.rs): graph + alias maps + per-element
   key-value lists + indexes + the undo stack with rollback, one function per DbImpl
   method.  Errors are returned as values; a failing step leaves the partial
   effects in place exactly as the `?` early returns of the code do (rollback is a
   separate step, as in transaction_mut).  Definitions only. *)
From Agdb Require Import Bytes DbValue Graph.
Open Scope Z_scope.

Inductive errkind :=
| EDbCreate | EInvalidIndex | ENotAllowed | ENotEnoughData | ENotFound | EOutOfBounds | ETypeError
| EFuel.   (* the model's fuel ran out: stands for a non-terminating loop of the code *)

Inductive res (A : Type) := ROk (a : A) | RErr (e : errkind).
Arguments ROk {A} a.
Arguments RErr {A} e.

(* ---- association maps (MapImpl at the level of key -> value) ---- *)
Section Assoc.
  Context {K V : Type} (keqb : K -> K -> bool).
  Fixpoint alookup (m : list (K * V)) (k : K) : option V :=
    match m with
    | [] => None
    | (k', v) :: r => if keqb k' k then Some v else alookup r k
    end.
  Fixpoint aremove (m : list (K * V)) (k : K) : list (K * V) :=
    match m with
    | [] => []
    | (k', v) :: r => if keqb k' k then aremove r k else (k', v) :: aremove r k
    end.
  (* MapImpl::insert = insert_or_replace: returns the previous value *)
  Definition ainsert (m : list (K * V)) (k : K) (v : V) : option V * list (K * V) :=
    (alookup m k, aremove m k ++ [(k, v)]).
End Assoc.

(* IndexedMapImpl<String, DbId>: the two maps kept side by side *)
Record imap := { k2v : list (bytes * Z); v2k : list (Z * bytes) }.
Definition imap_empty : imap := {| k2v := []; v2k := [] |}.

Definition imap_insert (m : imap) (key : bytes) (value : Z) : imap :=
  let '(old_v, k2v1) := ainsert bytes_eqb (k2v m) key value in
  let v2k1 := match old_v with Some v => aremove Z.eqb (v2k m) v | None => v2k m end in
  let '(old_k, v2k2) := ainsert Z.eqb v2k1 value key in
  let k2v2 := match old_k with Some k => aremove bytes_eqb k2v1 k | None => k2v1 end in
  {| k2v := k2v2; v2k := v2k2 |}.

Definition imap_remove_key (m : imap) (key : bytes) : imap :=
  let v2k1 := match alookup bytes_eqb (k2v m) key with
              | Some v => aremove Z.eqb (v2k m) v
              | None => v2k m
              end in
  {| k2v := aremove bytes_eqb (k2v m) key; v2k := v2k1 |}.

Definition imap_value (m : imap) (key : bytes) : option Z := alookup bytes_eqb (k2v m) key.
Definition imap_key (m : imap) (value : Z) : option bytes := alookup Z.eqb (v2k m) value.

(* ---- per-element key-value lists (DbKeyValues), indexed by |id| ---- *)
Definition kvstore := list (list kv).

Definition kvs_get (s : kvstore) (i : Z) : list kv := nth (zabs_nat i) s [].
Fixpoint kvs_set_nth (s : kvstore) (n : nat) (v : list kv) : kvstore :=
  match s, n with
  | [], O => [v]
  | [], S n' => [] :: kvs_set_nth [] n' v
  | _ :: r, O => v :: r
  | x :: r, S n' => x :: kvs_set_nth r n' v
  end.
Definition kvs_set (s : kvstore) (i : Z) (v : list kv) : kvstore := kvs_set_nth s (zabs_nat i) v.

(* insert_value: append *)
Definition kvs_insert_value (s : kvstore) (i : Z) (x : kv) : kvstore :=
  kvs_set s i (kvs_get s i ++ [x]).

Fixpoint replace_first (l : list kv) (x : kv) : option (kv * list kv) :=
  match l with
  | [] => None
  | y :: r => if dbv_eqb (fst y) (fst x) then Some (y, x :: r)
              else match replace_first r x with
                   | Some (old, r') => Some (old, y :: r')
                   | None => None
                   end
  end.

(* insert_or_replace: replace the first pair with an equal key in place, else append *)
Definition kvs_insert_or_replace (s : kvstore) (i : Z) (x : kv) : option kv * kvstore :=
  match replace_first (kvs_get s i) x with
  | Some (old, l') => (Some old, kvs_set s i l')
  | None => (None, kvs_insert_value s i x)
  end.

Fixpoint remove_first_key (l : list kv) (k : dbvalue) : list kv :=
  match l with
  | [] => []
  | y :: r => if dbv_eqb (fst y) k then r else y :: remove_first_key r k
  end.
Definition kvs_remove_value (s : kvstore) (i : Z) (k : dbvalue) : kvstore :=
  kvs_set s i (remove_first_key (kvs_get s i) k).

(* remove: drop the element's list; the outer vector is popped when it was the last entry *)
Definition kvs_remove (s : kvstore) (i : Z) : kvstore :=
  if Nat.eqb (S (zabs_nat i)) (length s) then removelast s else
  if Nat.ltb (zabs_nat i) (length s) then kvs_set s i [] else s.

(* reserve_capacity grows the outer vector up to the index *)
Definition kvs_reserve (s : kvstore) (i : Z) : kvstore :=
  if Nat.ltb (zabs_nat i) (length s) then s else kvs_set s i [].

Definition kvs_value (s : kvstore) (i : Z) (k : dbvalue) : option dbvalue :=
  match find (fun p : kv => dbv_eqb (fst p) k) (kvs_get s i) with
  | Some p => Some (snd p)
  | None => None
  end.

Fixpoint position (keys : list dbvalue) (k : dbvalue) (n : nat) : option nat :=
  match keys with
  | [] => None
  | x :: r => if dbv_eqb x k then Some n else position r k (S n)
  end.

(* stable insertion sort by a nat key *)
Fixpoint insert_by {A} (key : A -> nat) (x : A) (l : list A) : list A :=
  match l with
  | [] => [x]
  | y :: r => if Nat.ltb (key x) (key y) then x :: y :: r else y :: insert_by key x r
  end.
Definition sort_by_key {A} (key : A -> nat) (l : list A) : list A :=
  fold_left (fun acc x => insert_by key x acc) l [].

(* values_by_keys: pairs whose key is requested, ordered by position in the request (stable) *)
Definition kvs_values_by_keys (s : kvstore) (i : Z) (keys : list dbvalue) : list kv :=
  let tagged := flat_map (fun p : kv => match position keys (fst p) 0 with
                                         | Some n => [(n, p)] | None => [] end) (kvs_get s i) in
  map snd (sort_by_key (fun t : nat * kv => fst t) tagged).

(* ---- indexes: Vec<DbIndex> in creation order; ids = multimap value -> id ---- *)
Definition index := (dbvalue * list (dbvalue * Z))%type.

Fixpoint idx_update (ix : list index) (key : dbvalue) (f : list (dbvalue * Z) -> list (dbvalue * Z)) : list index :=
  match ix with
  | [] => []
  | (k, ids) :: r => if dbv_eqb k key then (k, f ids) :: r else (k, ids) :: idx_update r key f
  end.
Definition idx_find (ix : list index) (key : dbvalue) : option (list (dbvalue * Z)) :=
  match find (fun p : index => dbv_eqb (fst p) key) ix with Some p => Some (snd p) | None => None end.

Fixpoint remove_first_pair (ids : list (dbvalue * Z)) (v : dbvalue) (id : Z) : list (dbvalue * Z) :=
  match ids with
  | [] => []
  | (v', id') :: r => if dbv_eqb v' v && (id' =? id) then r else (v', id') :: remove_first_pair r v id
  end.
Definition idx_insert_id (ix : list index) key v id := idx_update ix key (fun ids => ids ++ [(v, id)]).
Definition idx_remove_id (ix : list index) key v id := idx_update ix key (fun ids => remove_first_pair ids v id).
Fixpoint idx_remove (ix : list index) (key : dbvalue) : list index :=
  match ix with
  | [] => []
  | (k, ids) :: r => if dbv_eqb k key then r else (k, ids) :: idx_remove r key
  end.

(* ---- undo commands (command.rs) ---- *)
Inductive command :=
| CInsertAlias (id : Z) (alias : bytes)
| CInsertEdge (f t : Z)
| CInsertIndex (key : dbvalue)
| CInsertToIndex (key value : dbvalue) (id : Z)
| CInsertKeyValue (id : Z) (x : kv)
| CInsertNode
| CRemoveAlias (alias : bytes)
| CRemoveEdge (index : Z)
| CRemoveIndex (key : dbvalue)
| CRemoveKeyValue (id : Z) (x : kv)
| CRemoveNode (index : Z)
| CReplaceKeyValue (id : Z) (x : kv).

Record db := {
  gr : graph;
  aliases : imap;
  vals : kvstore;
  indexes : list index;
  undo : list command      (* newest first *)
}.

Definition db_new : db :=
  {| gr := graph_new; aliases := imap_empty; vals := []; indexes := []; undo := [] |}.

Definition with_gr d g := {| gr := g; aliases := aliases d; vals := vals d; indexes := indexes d; undo := undo d |}.
Definition with_aliases d a := {| gr := gr d; aliases := a; vals := vals d; indexes := indexes d; undo := undo d |}.
Definition with_vals d v := {| gr := gr d; aliases := aliases d; vals := v; indexes := indexes d; undo := undo d |}.
Definition with_indexes d i := {| gr := gr d; aliases := aliases d; vals := vals d; indexes := i; undo := undo d |}.
Definition push_undo d c := {| gr := gr d; aliases := aliases d; vals := vals d; indexes := indexes d; undo := c :: undo d |}.
Definition clear_undo d := {| gr := gr d; aliases := aliases d; vals := vals d; indexes := indexes d; undo := [] |}.

(* Which revision of the code is modelled (the model follows /repo: once a fix:
   commit is made the corresponding flag is on). *)
Record revision := {
  fix_rollback_replace : bool;   (* rollback continues after a ReplaceKeyValue command *)
  fix_alias_steal_undo : bool;   (* insert_alias records the inverse for the previous holder *)
  fix_alias_nodes_only : bool;   (* insert aliases rejects edge ids *)
  fix_strict_order : bool;       (* ordering comparisons only within one value kind *)
  fix_slice_clamp : bool;        (* SearchQuery::slice clamps instead of panicking *)
  fix_edge_origin : bool;        (* a search from an edge does not chain the origin's siblings *)
  fix_visited_chain : bool;      (* an already visited edge met in a node's edge list does not cut the list *)
  fix_nodes_ids_alias : bool;    (* insert nodes with ids + aliases re-aliases through insert_alias (undoable) *)
  fix_empty_alias : bool         (* insert nodes / insert values reject an empty alias like insert aliases does *)
}.

Section Rev.
  Variable rv : revision.

  (* ---- id resolution ---- *)
  Inductive qid := QId (id : Z) | QAlias (a : bytes).

  Definition db_id (d : db) (q : qid) : res Z :=
    match q with
    | QId id => if graph_index (gr d) id then ROk id else RErr ENotFound
    | QAlias a => match imap_value (aliases d) a with Some id => ROk id | None => RErr ENotFound end
    end.

  Definition from_id (d : db) (id : Z) : Z :=
    if id <? 0 then edge_from (gr d) id else first_edge_from (gr d) id.
  Definition to_id (d : db) (id : Z) : Z :=
    if id <? 0 then edge_to (gr d) id else first_edge_to (gr d) id.

  (* ---- mutations ---- *)
  Definition insert_node_db (d : db) : Z * db :=
    let '(i, g) := insert_node (gr d) in
    (i, push_undo (with_gr d g) (CRemoveNode i)).

  Definition insert_edge_db (d : db) (f t : Z) : res (Z * db) :=
    match insert_edge (gr d) f t with
    | Some (i, g) => ROk (i, push_undo (with_gr d g) (CRemoveEdge i))
    | None => RErr EInvalidIndex
    end.

  Definition insert_new_alias (d : db) (id : Z) (a : bytes) : db :=
    with_aliases (push_undo d (CRemoveAlias a)) (imap_insert (aliases d) a id).

  Definition insert_alias (d : db) (id : Z) (a : bytes) : db :=
    let d1 := match imap_key (aliases d) id with
              | Some old => with_aliases (push_undo d (CInsertAlias id old))
                                         (imap_remove_key (imap_remove_key (aliases d) old) old)
              | None => d
              end in
    let d2 := if fix_alias_steal_undo rv then
                match imap_value (aliases d1) a with
                | Some holder => push_undo d1 (CInsertAlias holder a)
                | None => d1
                end
              else d1 in
    with_aliases (push_undo d2 (CRemoveAlias a)) (imap_insert (aliases d2) a id).

  Definition remove_alias (d : db) (a : bytes) : bool * db :=
    match imap_value (aliases d) a with
    | Some id => (true, with_aliases (push_undo d (CInsertAlias id a))
                                     (imap_remove_key (imap_remove_key (aliases d) a) a))
    | None => (false, d)
    end.

  Definition index_insert_if (d : db) (key v : dbvalue) (id : Z) : db :=
    with_indexes d (idx_insert_id (indexes d) key v id).
  Definition index_remove_if (d : db) (key v : dbvalue) (id : Z) : db :=
    with_indexes d (idx_remove_id (indexes d) key v id).

  Definition insert_key_value (d : db) (id : Z) (x : kv) : db :=
    let d1 := index_insert_if d (fst x) (snd x) id in
    let d2 := push_undo d1 (CRemoveKeyValue id x) in
    with_vals d2 (kvs_insert_value (vals d2) id x).

  Definition insert_or_replace_key_value (d : db) (id : Z) (x : kv) : db :=
    match kvs_insert_or_replace (vals d) id x with
    | (Some old, s) =>
        let d1 := with_vals d s in
        let d2 := index_insert_if (index_remove_if d1 (fst old) (snd old) id) (fst old) (snd x) id in
        push_undo d2 (CReplaceKeyValue id old)
    | (None, s) =>
        let d1 := with_vals d s in
        let d2 := index_insert_if d1 (fst x) (snd x) id in
        push_undo d2 (CRemoveKeyValue id x)
    end.

  Definition reserve_kv (d : db) (id : Z) : db := with_vals d (kvs_reserve (vals d) id).

  Definition remove_all_values (d : db) (id : Z) : db :=
    let d1 := fold_left (fun acc (x : kv) =>
                push_undo (index_remove_if acc (fst x) (snd x) id) (CInsertKeyValue id x))
              (kvs_get (vals d) id) d in
    with_vals d1 (kvs_remove (vals d1) id).

  Definition remove_keys (d : db) (id : Z) (keys : list dbvalue) : Z * db :=
    fold_left (fun (acc : Z * db) (x : kv) =>
      let '(n, a) := acc in
      if mem dbv_eqb (fst x) keys then
        let a1 := index_remove_if a (fst x) (snd x) id in
        let a2 := with_vals a1 (kvs_remove_value (vals a1) id (fst x)) in
        (n + 1, push_undo a2 (CInsertKeyValue id x))
      else (n, a))
    (kvs_get (vals d) id) (0, d).

  (* node_edges: out-list, then in-list without self-loops: (edge, from, to) *)
  Definition node_edges (d : db) (n : Z) : list (Z * Z * Z) :=
    let g := gr d in
    map (fun e => (e, edge_from g e, edge_to g e)) (out_edges g n) ++
    flat_map (fun e => if edge_from g e =? n then [] else [(e, edge_from g e, edge_to g e)]) (in_edges g n).

  (* removals return the (possibly partially modified) state together with an optional error,
     exactly like the `?` early returns of the code *)
  Definition remove_edge_db (d : db) (e : Z) : db * option errkind :=
    let f := edge_from (gr d) e in let t := edge_to (gr d) e in
    match Graph.remove_edge (gr d) e with
    | Some g => (push_undo (with_gr d g) (CInsertEdge f t), None)
    | None => (d, Some EFuel)
    end.

  Definition remove_node_db (d : db) (n : Z) (alias : option bytes) : db * option errkind :=
    let d1 := match alias with
              | Some a => with_aliases (push_undo d (CInsertAlias n a))
                                       (imap_remove_key (imap_remove_key (aliases d) a) a)
              | None => d
              end in
    (* node_edges: self.graph.node(..).ok_or(NotFound) *)
    if negb (is_node (gr d1) n) then (d1, Some ENotFound) else
    let step (acc : db * option errkind) (e : Z * Z * Z) : db * option errkind :=
      match acc with
      | (a, Some k) => (a, Some k)
      | (a, None) =>
        let '(ei, f, t) := e in
        match Graph.remove_edge (gr a) ei with
        | Some g => (remove_all_values (push_undo (with_gr a g) (CInsertEdge f t)) ei, None)
        | None => (a, Some EFuel)
        end
      end in
    match fold_left step (node_edges d1 n) (d1, None) with
    | (d2, Some k) => (d2, Some k)
    | (d2, None) =>
      match Graph.remove_node (gr d2) n with
      | Some g => (push_undo (with_gr d2 g) CInsertNode, None)
      | None => (d2, Some EFuel)
      end
    end.

  (* returns (state, Ok removed? | Err) *)
  Definition remove_id (d : db) (id : Z) : db * res bool :=
    if graph_index (gr d) id then
      let '(d1, e) := if 0 <? id then remove_node_db d id (imap_key (aliases d) id) else remove_edge_db d id in
      match e with
      | None => (remove_all_values d1 id, ROk true)
      | Some k => (d1, RErr k)
      end
    else (d, ROk false).

  Definition remove_q (d : db) (q : qid) : db * res bool :=
    match q with
    | QId id => remove_id d id
    | QAlias a =>
      match imap_value (aliases d) a with
      | Some id =>
        match remove_node_db d id (Some a) with
        | (d1, None) => (remove_all_values d1 id, ROk true)
        | (d1, Some k) => (d1, RErr k)
        end
      | None => (d, ROk false)
      end
    end.

  (* insert_index: back-fill over 1..values.len() *)
  Definition insert_index (d : db) (key : dbvalue) : res (Z * db) :=
    match idx_find (indexes d) key with
    | Some _ => RErr ENotAllowed
    | None =>
      let d1 := push_undo d (CRemoveIndex key) in
      let d2 := with_indexes d1 (indexes d1 ++ [(key, [])]) in
      let slots := seq 1 (length (vals d2) - 1) in
      let d3 := fold_left (fun acc i =>
                  let iz := Z.of_nat i in
                  let id := if is_node (gr acc) iz then iz else - iz in
                  fold_left (fun a (x : kv) =>
                    if dbv_eqb (fst x) key then index_insert_if a key (snd x) id else a)
                    (kvs_get (vals acc) iz) acc) slots d2 in
      ROk (match idx_find (indexes d3) key with Some ids => Z.of_nat (length ids) | None => 0 end, d3)
    end.

  Definition remove_index (d : db) (key : dbvalue) : Z * db :=
    match idx_find (indexes d) key with
    | Some ids =>
      let d1 := fold_left (fun acc (p : dbvalue * Z) => push_undo acc (CInsertToIndex key (fst p) (snd p))) ids d in
      let d2 := push_undo d1 (CInsertIndex key) in
      (Z.of_nat (length ids), with_indexes d2 (idx_remove (indexes d2) key))
    | None => (0, d)
    end.

  (* ---- rollback: undo stack replayed newest first ---- *)
  Definition undo_one (d : db) (c : command) : res db :=
    match c with
    | CInsertAlias id a => ROk (with_aliases d (imap_insert (aliases d) a id))
    | CInsertEdge f t =>
        match insert_edge (gr d) f t with
        | Some (_, g) => ROk (with_gr d g)
        | None => RErr EInvalidIndex
        end
    | CInsertIndex key => ROk (with_indexes d (indexes d ++ [(key, [])]))
    | CInsertToIndex key v id => ROk (index_insert_if d key v id)
    | CInsertKeyValue id x =>
        let d1 := index_insert_if d (fst x) (snd x) id in
        ROk (with_vals d1 (kvs_insert_value (vals d1) id x))
    | CInsertNode => let '(_, g) := insert_node (gr d) in ROk (with_gr d g)
    | CRemoveAlias a => ROk (with_aliases d (imap_remove_key (aliases d) a))
    | CRemoveEdge i =>
        match Graph.remove_edge (gr d) i with Some g => ROk (with_gr d g) | None => RErr EFuel end
    | CRemoveIndex key => ROk (with_indexes d (idx_remove (indexes d) key))
    | CRemoveKeyValue id x =>
        let d1 := index_remove_if d (fst x) (snd x) id in
        ROk (with_vals d1 (kvs_remove_value (vals d1) id (fst x)))
    | CRemoveNode i =>
        match Graph.remove_node (gr d) i with Some g => ROk (with_gr d g) | None => RErr EFuel end
    | CReplaceKeyValue id x =>
        match kvs_insert_or_replace (vals d) id x with
        | (Some old, s) =>
            let d1 := with_vals d s in
            ROk (index_insert_if (index_remove_if d1 (fst old) (snd old) id) (fst old) (snd x) id)
        | (None, s) => RErr ENotFound     (* .expect("old value not found during rollback") *)
        end
    end.

  Fixpoint rollback_cmds (d : db) (cs : list command) : res db :=
    match cs with
    | [] => ROk d
    | c :: r =>
      match undo_one d c with
      | RErr k => RErr k
      | ROk d1 =>
        match c with
        | CReplaceKeyValue _ _ => if fix_rollback_replace rv then rollback_cmds d1 r else ROk d1
        | _ => rollback_cmds d1 r
        end
      end
    end.

  Definition rollback (d : db) : res db := rollback_cmds (clear_undo d) (undo d).
  Definition commit (d : db) : db := clear_undo d.
End Rev.
