(* AuthProofsTokens.v — revocation: logged-out, expired and deleted users' tokens stay rejected (C24). *)
From Agdb Require Import Bytes Auth AuthProofs.
From Coq Require Import Lia ZifyBool ZifyN.
Open Scope N_scope.

Arguments N.add : simpl never.
Arguments N.ltb : simpl never.
Arguments N.leb : simpl never.
Arguments N.eqb : simpl never.

(* everything of the state except databases is untouched by a database operation *)
Lemma apply_db_frame : forall s who o d op no,
  let s' := snd (apply_db s who o d op no) in
  s_tokens s' = s_tokens s /\ s_next s' = s_next s /\ s_users s' = s_users s /\
  s_admin s' = s_admin s /\ s_ttl s' = s_ttl s.
Proof.
  intros s who o d op no. unfold apply_db.
  destruct (find_db (s_dbs s) o d); destruct op; cbn [snd]; dm; cbn; auto.
Qed.

(* which sessions a request revokes, according to the documentation of the logout / delete endpoints *)
Definition killed (s : state) (now : N) (tok : option N) (req : request) (r : tokrec) : bool :=
  match req with
  | ReqLogout sel =>
    match user_of_token s now tok, tok with
    | Some u, Some t =>
      match sel with
      | LoCurrent => t_id r =? t
      | LoAll => t_user r =? u
      | LoOthers => (t_user r =? u) && negb (t_id r =? t)
      | LoSession sid => t_id r =? sid
      end
    | _, _ => false
    end
  | ReqAdminUserLogout v (LoSession sid) => t_id r =? sid
  | ReqAdminUserLogout v _ => t_user r =? v
  | ReqAdminUserLogoutAll => negb (t_user r =? s_admin s)
  | ReqAdminUserDelete v => t_user r =? v
  | _ => false
  end.

(* shape of the token table after one request *)
Lemma step_tokens : forall s now tok req,
  let s' := snd (step s now tok req) in
  (s_next s' = s_next s /\
   forall r, In r (s_tokens s') ->
     In r (s_tokens s) /\ (resp_ok (fst (step s now tok req)) = true -> killed s now tok req r = false))
  \/
  (is_login req = true /\ s_next s' = s_next s + 1 /\ exists u e, s_tokens s' = s_tokens s ++ [mkTok (s_next s) u e]).
Proof.
  intros s now tok req. unfold step.
  destruct (authorize s now tok req) eqn:A.
  2:{ left. cbn [snd fst resp_ok]. split; [reflexivity|]. intros r H; split; [exact H|discriminate]. }
  destruct req.
  - (* login *) right. cbn [apply snd s_next s_tokens is_login]. split; [reflexivity|]. split; [reflexivity|]. eauto.
  - (* logout *)
    left. cbn [apply snd fst s_next with_tokens s_tokens resp_ok]. split; [reflexivity|].
    cbn [authorize] in A.
    destruct (user_of_token s now tok) as [u|] eqn:U; [|discriminate A].
    destruct tok as [t|]; [|cbn in U; discriminate U].
    intros r H. unfold logout_tokens in H. cbn [killed]. rewrite U.
    destruct sel; apply filter_In in H; destruct H as [H1 H2]; split; try exact H1; intros _.
    + apply Bool.negb_true_iff in H2. exact H2.
    + apply Bool.negb_true_iff in H2. exact H2.
    + destruct (t_user r =? u); destruct (t_id r =? t); cbn in *; congruence.
    + apply Bool.negb_true_iff in H2. exact H2.
  - left. cbn [apply snd with_users s_next s_tokens]. split; [reflexivity|]. intros r H. split; [exact H|reflexivity].
  - left. cbn [apply snd]. split; [reflexivity|]. intros r H. split; [exact H|reflexivity].
  - left. cbn [apply snd]. split; [reflexivity|]. intros r H. split; [exact H|reflexivity].
  - left. cbn [apply]. destruct (apply_db_frame s (match user_of_token s now tok with Some u => u | None => 0 end) o d op
                                   (match user_of_token s now tok with Some u => u | None => 0 end)) as (T & Nx & _).
    rewrite Nx. split; [reflexivity|]. intros r H. rewrite T in H. split; [exact H|reflexivity].
  - left. cbn [apply snd]. split; [reflexivity|]. intros r H. split; [exact H|reflexivity].
  - left. cbn [apply].
    destruct (apply_db_frame s (s_admin s) o d op (match op with OCopy no _ => no | ORename no _ => no | _ => o end)) as (T & Nx & _).
    rewrite Nx. split; [reflexivity|]. intros r H. rewrite T in H. split; [exact H|reflexivity].
  - left. cbn [apply snd with_users s_next s_tokens]. split; [reflexivity|]. intros r H. split; [exact H|reflexivity].
  - left. cbn [apply snd with_users s_next s_tokens]. split; [reflexivity|]. intros r H. split; [exact H|reflexivity].
  - (* admin user delete *)
    left. cbn [apply snd fst s_next s_tokens resp_ok]. split; [reflexivity|].
    intros r H. apply filter_In in H. destruct H as [H1 H2]. split; [exact H1|]. intros _.
    cbn [killed]. apply Bool.negb_true_iff in H2. exact H2.
  - (* admin user logout *)
    left. cbn [apply snd fst s_next with_tokens s_tokens resp_ok]. split; [reflexivity|].
    intros r H. cbn [killed].
    destruct sel; apply filter_In in H; destruct H as [H1 H2]; (split; [exact H1|]); intros _;
      apply Bool.negb_true_iff in H2; exact H2.
  - (* admin logout all *)
    left. cbn [apply snd fst s_next with_tokens s_tokens resp_ok]. split; [reflexivity|].
    intros r H. apply filter_In in H. destruct H as [H1 H2]. split; [exact H1|]. intros _.
    cbn [killed]. rewrite H2. reflexivity.
  - left. cbn [apply snd]. split; [reflexivity|]. intros r H. split; [exact H|reflexivity].
  - left. cbn [apply snd]. split; [reflexivity|]. intros r H. split; [exact H|reflexivity].
Qed.

(* ---------- invariants ---------- *)

(* every record carrying token id t satisfies P, and t is older than the next fresh id *)
Definition tok_inv (P : tokrec -> Prop) (s : state) (t : N) : Prop :=
  (forall r, In r (s_tokens s) -> t_id r = t -> P r) /\ t < s_next s.

(* token ids are unique and below the next fresh id (holds initially, kept by every request) *)
Definition tok_wf (s : state) : Prop :=
  NoDup (map t_id (s_tokens s)) /\ forall r, In r (s_tokens s) -> t_id r < s_next s.

Lemma tok_inv_step : forall P s t now tok req,
  tok_inv P s t -> tok_inv P (snd (step s now tok req)) t.
Proof.
  intros P s t now tok req [H1 H2]. destruct (step_tokens s now tok req) as [[Nx H]|[_ [Nx (u & e & T)]]].
  - split; [|rewrite Nx; exact H2]. intros r Hr E. apply H1; [apply H; exact Hr|exact E].
  - split; [|rewrite Nx; lia]. rewrite T. intros r Hr E. apply in_app_or in Hr. destruct Hr as [Hr|[Hr|[]]].
    + apply H1; assumption.
    + subst r. cbn in E. lia.
Qed.

Lemma tok_inv_run : forall P tr s t, tok_inv P s t -> tok_inv P (run s tr) t.
Proof.
  induction tr as [|[[now tok] req] tr IH]; intros s t H; cbn [run]; [exact H|].
  apply IH. apply tok_inv_step. exact H.
Qed.

Lemma NoDup_map_filter : forall {A B} (f : A -> B) (p : A -> bool) l, NoDup (map f l) -> NoDup (map f (filter p l)).
Proof.
  intros A B f p l. induction l as [|a l IH]; cbn; intros H; [constructor|].
  inversion H as [|x y N1 N2]; subst. destruct (p a); cbn.
  - constructor; [|apply IH; exact N2]. intros C. apply N1. apply in_map_iff in C. destruct C as (z & Ez & Iz).
    apply in_map_iff. exists z. split; [exact Ez|]. apply filter_In in Iz. apply Iz.
  - apply IH. exact N2.
Qed.

Lemma NoDup_sub : forall (l l' : list tokrec),
  NoDup (map t_id l) -> (forall r, In r l' -> In r l) -> NoDup l' -> NoDup (map t_id l').
Proof.
  intros l l' N S. induction l' as [|a l' IH]; intros D; cbn; [constructor|].
  inversion D as [|x y D1 D2]; subst. constructor.
  - intros C. apply in_map_iff in C. destruct C as (z & Ez & Iz).
    assert (z = a).
    { clear IH D D2. assert (Ia : In a l) by (apply S; left; reflexivity). assert (Iz' : In z l) by (apply S; right; exact Iz).
      revert N Ia Iz' Ez. clear. induction l as [|h l IH]; cbn; intros N Ia Iz Ez; [contradiction|].
      inversion N as [|x y N1 N2]; subst.
      destruct Ia as [Ia|Ia]; destruct Iz as [Iz|Iz]; subst; try reflexivity.
      - exfalso. apply N1. rewrite <- Ez. apply in_map. exact Iz.
      - exfalso. apply N1. rewrite Ez. apply in_map. exact Ia.
      - apply IH; assumption. }
    subst z. exact (D1 Iz).
  - apply IH; [intros r Hr; apply S; right; exact Hr|exact D2].
Qed.

Lemma tok_wf_init : forall admin ttl users, tok_wf (init_state admin ttl users).
Proof. intros. split; cbn; [constructor|intros r []]. Qed.

Lemma step_tokens_filter : forall s now tok req,
  (exists p, s_tokens (snd (step s now tok req)) = filter p (s_tokens s) /\ s_next (snd (step s now tok req)) = s_next s)
  \/ (s_next (snd (step s now tok req)) = s_next s + 1 /\
      exists u e, s_tokens (snd (step s now tok req)) = s_tokens s ++ [mkTok (s_next s) u e]).
Proof.
  intros s now tok req. unfold step.
  assert (Id : forall l : list tokrec, l = filter (fun _ => true) l).
  { induction l; cbn; congruence. }
  destruct (authorize s now tok req) eqn:A.
  2:{ left. exists (fun _ => true). cbn [snd]. split; [apply Id|reflexivity]. }
  destruct req; cbn [apply snd];
    try (left; exists (fun _ => true); cbn; split; [apply Id|reflexivity]; fail).
  - right. cbn. split; [reflexivity|eauto].
  - left. cbn [with_tokens s_tokens s_next]. unfold logout_tokens. destruct sel; eexists; split; reflexivity.
  - left. destruct (apply_db_frame s (match user_of_token s now tok with Some u => u | None => 0 end) o d op
                                   (match user_of_token s now tok with Some u => u | None => 0 end)) as (T & Nx & _).
    exists (fun _ => true). rewrite T, Nx. split; [apply Id|reflexivity].
  - left. destruct (apply_db_frame s (s_admin s) o d op (match op with OCopy no _ => no | ORename no _ => no | _ => o end)) as (T & Nx & _).
    exists (fun _ => true). rewrite T, Nx. split; [apply Id|reflexivity].
  - left. cbn. eexists; split; reflexivity.
  - left. cbn [with_tokens s_tokens s_next]. destruct sel; eexists; split; reflexivity.
  - left. cbn. eexists; split; reflexivity.
Qed.

Lemma tok_wf_step : forall s now tok req, tok_wf s -> tok_wf (snd (step s now tok req)).
Proof.
  intros s now tok req [N B]. destruct (step_tokens_filter s now tok req) as [(p & T & Nx)|(Nx & u & e & T)].
  - split.
    + rewrite T. apply NoDup_map_filter. exact N.
    + rewrite T, Nx. intros r H. apply filter_In in H. apply B. apply H.
  - split.
    + rewrite T, map_app. cbn.
      (* NoDup (ids ++ [next]) *)
      clear T. induction (s_tokens s) as [|a l IH]; cbn.
      * constructor; [intros []|constructor].
      * inversion N as [|x y N1 N2]; subst. constructor.
        -- intros C. apply in_app_or in C. destruct C as [C|[C|[]]]; [exact (N1 C)|].
           specialize (B a (or_introl eq_refl)). lia.
        -- apply IH; [exact N2|intros r H; apply B; right; exact H].
    + rewrite T, Nx. intros r H. apply in_app_or in H. destruct H as [H|[H|[]]].
      * specialize (B r H). lia.
      * subst r. cbn. lia.
Qed.

Lemma tok_wf_run : forall tr s, tok_wf s -> tok_wf (run s tr).
Proof.
  induction tr as [|[[now tok] req] tr IH]; intros s H; cbn [run]; [exact H|].
  apply IH. apply tok_wf_step. exact H.
Qed.

(* ---------- rejection ---------- *)

Lemma tok_inv_rejected : forall s t now,
  tok_inv (fun r => t_exp r < now) s t -> user_of_token s now (Some t) = None.
Proof.
  intros s t now [H _]. cbn [user_of_token]. unfold find_token.
  destruct (find (fun r => t_id r =? t) (s_tokens s)) as [r|] eqn:F; [|reflexivity].
  apply find_some in F. destruct F as [I E]. apply N.eqb_eq in E.
  specialize (H r I E). cbn in H. destruct (t_exp r <? now) eqn:L; [reflexivity|lia].
Qed.

Lemma tok_inv_weaken : forall (P Q : tokrec -> Prop) s t, (forall r, P r -> Q r) -> tok_inv P s t -> tok_inv Q s t.
Proof. intros P Q s t W [H1 H2]. split; [|exact H2]. intros r I E. apply W. apply H1; assumption. Qed.

(* a token that is gone is rejected by every later request of every sequence *)
Theorem revoked_forever : forall s t tr now req,
  tok_inv (fun _ => False) s t -> is_login req = false ->
  step (run s tr) now (Some t) req = (RespErr 401, run s tr).
Proof.
  intros s t tr now req H L. apply unauthenticated_step; [|exact L].
  apply tok_inv_rejected. apply tok_inv_weaken with (P := fun _ => False); [intros r []|].
  apply tok_inv_run. exact H.
Qed.

(* a token is rejected at every time after its expiry, whatever happened in between *)
Theorem expired_forever : forall s t e tr now req,
  tok_inv (fun r => t_exp r <= e) s t -> e < now -> is_login req = false ->
  step (run s tr) now (Some t) req = (RespErr 401, run s tr).
Proof.
  intros s t e tr now req H E L. apply unauthenticated_step; [|exact L].
  apply tok_inv_rejected. apply tok_inv_weaken with (P := fun r => t_exp r <= e); [intros r Hr; cbn; lia|].
  apply tok_inv_run. exact H.
Qed.

(* a live token satisfies the expiry invariant with its own expiry time *)
Lemma live_token_bound : forall s t r,
  tok_wf s -> find_token s t = Some r -> tok_inv (fun x => t_exp x <= t_exp r) s t.
Proof.
  intros s t r [N B] F. unfold find_token in F. apply find_some in F. destruct F as [I E]. apply N.eqb_eq in E.
  split.
  - intros x Ix Ex. assert (x = r); [|subst; lia].
    clear B. revert N I Ix E Ex. induction (s_tokens s) as [|h l IH]; cbn; intros N I Ix E Ex; [contradiction|].
    inversion N as [|a b N1 N2]; subst.
    destruct I as [I|I]; destruct Ix as [Ix|Ix]; subst; try reflexivity.
    + exfalso. apply N1. rewrite <- Ex. apply in_map. exact Ix.
    + exfalso. apply N1. rewrite Ex. apply in_map. exact I.
    + apply IH; auto.
  - rewrite <- E. apply B. exact I.
Qed.

(* every successful logout / forced logout / user deletion kills the documented sessions *)
Theorem revocation_kills : forall s now tok req r,
  tok_wf s -> resp_ok (fst (step s now tok req)) = true ->
  In r (s_tokens s) -> killed s now tok req r = true ->
  tok_inv (fun _ => False) (snd (step s now tok req)) (t_id r).
Proof.
  intros s now tok req r [N B] OK I K.
  destruct (step_tokens s now tok req) as [[Nx H]|[L [Nx (u & e & T)]]].
  - split; [|rewrite Nx; apply B; exact I].
    intros x Ix Ex. destruct (H x Ix) as [Ix' Kx]. specialize (Kx OK).
    assert (x = r); [|subst; congruence].
    clear - N Ix' I Ex. revert N Ix' I Ex. induction (s_tokens s) as [|h l IH]; cbn; intros N Ix I Ex; [contradiction|].
    inversion N as [|a b N1 N2]; subst.
    destruct I as [I|I]; destruct Ix as [Ix|Ix]; subst; try reflexivity.
    + exfalso. apply N1. rewrite <- Ex. apply in_map. exact Ix.
    + exfalso. apply N1. rewrite Ex. apply in_map. exact I.
    + apply IH; auto.
  - (* a login kills nothing *)
    destruct req; cbn [is_login] in L; try discriminate L. cbn [killed] in K. discriminate K.
Qed.
