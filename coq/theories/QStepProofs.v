(* QStepProofs.v — generic facts about the step monad of Queries.v (st_fold) and the notion of a
   history (a list of queries, each executed as its own transaction by `exec`). *)
From Agdb Require Import Bytes DbValue Graph DbModel Search Queries DbFrameProofs.
Open Scope Z_scope.

Arguments StOk {A} d a.
Arguments StErr {A} d e.
Arguments StPanic {A} d.

Definition step_db {A} (s : step A) : db :=
  match s with StOk d _ => d | StErr d _ => d | StPanic d => d end.

Definition step_is_ok {A} (s : step A) : bool :=
  match s with StOk _ _ => true | _ => false end.

(* a property of the state that every element step preserves (whatever its outcome) is preserved
   by the whole fold, whatever its outcome *)
Lemma st_fold_inv {A B} (P : db -> Prop) (f : db -> B -> A -> step B) (l : list A) (d : db) (b : B) :
  P d -> (forall a b x, In x l -> P a -> P (step_db (f a b x))) -> P (step_db (st_fold f d b l)).
Proof.
  revert d b. induction l as [|x l IH]; cbn [st_fold]; intros d b Hd Hf; [exact Hd|].
  pose proof (Hf d b x (or_introl eq_refl) Hd) as Hx.
  destruct (f d b x) as [d1 b1|d1 e|d1]; cbn [step_db] in *; [|exact Hx|exact Hx].
  apply IH; [exact Hx|]. intros a b0 y Hy. apply Hf. now right.
Qed.

(* an element on which the step function never succeeds makes the whole fold fail *)
Lemma st_fold_not_ok {A B} (f : db -> B -> A -> step B) (l : list A) (x : A) (d : db) (b : B) :
  In x l -> (forall a b, step_is_ok (f a b x) = false) -> step_is_ok (st_fold f d b l) = false.
Proof.
  revert d b. induction l as [|y l IH]; cbn [st_fold]; intros d b Hin Hx; [destruct Hin|].
  destruct Hin as [->|Hin].
  - specialize (Hx d b). destruct (f d b x); [discriminate|reflexivity|reflexivity].
  - destruct (f d b y); [now apply IH|reflexivity|reflexivity].
Qed.

(* a panic can only come from an element step *)
Lemma st_fold_no_panic {A B} (f : db -> B -> A -> step B) (l : list A) (d : db) (b : B) :
  (forall a b x, match f a b x with StPanic _ => False | _ => True end) ->
  match st_fold f d b l with StPanic _ => False | _ => True end.
Proof.
  intros Hf. revert d b. induction l as [|y l IH]; cbn [st_fold]; intros d b; [exact I|].
  specialize (Hf d b y). destruct (f d b y); [apply IH|exact I|contradiction].
Qed.

(* ---- histories ---- *)
Definition exec_all (rv : revision) (d : db) (qs : list query) : db :=
  fold_left (fun a q => fst (exec rv a q)) qs d.

Lemma exec_all_inv (rv : revision) (P : db -> Prop) (qs : list query) (d : db) :
  P d -> (forall a q, P a -> P (fst (exec rv a q))) -> P (exec_all rv d qs).
Proof.
  intros Hd Hstep. unfold exec_all. apply fold_left_inv; [exact Hd|].
  intros acc q _. apply Hstep.
Qed.

Lemma db_eta (d : db) :
  {| gr := gr d; aliases := aliases d; vals := vals d; indexes := indexes d; undo := undo d |} = d.
Proof. now destruct d. Qed.

Lemma clear_undo_id (d : db) : undo d = [] -> clear_undo d = d.
Proof. destruct d; cbn. now intros ->. Qed.
