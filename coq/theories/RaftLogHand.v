(* RaftLogHand.v — further handler-level facts for the leader-completeness proof (RaftLogLC.v):
   the (term, index) of a node's last entry never goes down lexicographically when a request is handled,
   what a granted vote tells about the candidate's last entry, and how a node becomes Candidate or Leader. *)
From Coq Require Import NArith List Bool Lia Arith.
From Agdb Require Import Raft RaftProofs RaftInv RaftElect RaftVote RaftLogWf.
Import ListNotations.
Open Scope N_scope.

(* (term of last entry, log index) of the node's own table row, lexicographic order *)
Definition lexle (nd nd' : node) : Prop :=
  p_lt (local nd) < p_lt (local nd') \/
  (p_lt (local nd) = p_lt (local nd') /\ p_li (local nd) <= p_li (local nd')).

Lemma lexle_refl : forall nd, lexle nd nd. Proof. intros; right; split; [reflexivity|lia]. Qed.
Lemma lexle_trans : forall a b c, lexle a b -> lexle b c -> lexle a c.
Proof. unfold lexle; intros a b c H1 H2. lia. Qed.

Lemma nwf_li : forall nd, ninv nd -> p_li (local nd) = lenN (n_logs nd).
Proof. intros nd I. unfold lenN. rewrite (ni_len _ I). lia. Qed.

Lemma lexle_keep : forall nd nd', ninv nd -> ninv nd' -> keep nd nd' -> lexle nd nd'.
Proof.
  intros nd nd' I I' [K1 K2]. right. split; [congruence|]. rewrite (nwf_li _ I), (nwf_li _ I'), K1. lia.
Qed.

Lemma lexle_loop_step : forall nd r log doit,
  nwf nd -> validate_log_append nd r log = inl doit -> e_term log <= n_term nd -> lexle nd (loop_step nd r log doit).
Proof.
  intros nd r log doit W V T.
  destruct (nwf_loop_step nd r log doit W V T) as (_ & _ & F & Tr).
  destruct doit.
  - destruct (Tr eq_refl) as (A & B & _). apply validate_log_append_true' in V as (_ & _ & [[E1 E2]|E]).
    + right. rewrite A, B. split; lia.
    + left. rewrite B. exact E.
  - destruct (F eq_refl) as (_ & A & B). right. split; [congruence|lia].
Qed.

Lemma lexle_append_logs : forall logs nd r,
  nwf nd -> (forall e, In e logs -> e_term e <= n_term nd) -> lexle nd (fst (append_logs nd r logs)).
Proof.
  induction logs as [|log rest IH]; intros nd r W T; [apply lexle_refl|].
  rewrite append_logs_cons. destruct (validate_log_append nd r log) as [doit|resp] eqn:V; [|apply lexle_refl].
  destruct (nwf_loop_step nd r log doit W V (T _ (or_introl eq_refl))) as (W' & T' & _).
  eapply lexle_trans; [eapply lexle_loop_step; eauto; apply T; left; reflexivity|].
  apply IH; auto. intros e H. rewrite T'. apply T. right; exact H.
Qed.

Lemma lexle_request : forall rv nd r el,
  nwf nd -> req_wf r -> q_from r <> n_index nd -> lexle nd (fst (handle_request rv nd r el)).
Proof.
  intros rv nd r el W RW Hne. pose proof (w_inv _ W) as I.
  destruct (request_shape rv nd r el W RW Hne) as [W' _].
  unfold handle_request, req_wf in *. destruct (q_kind r) as [logs| | |] eqn:K.
  - unfold append_request in *. destruct (validate_term nd r) eqn:V; cbn [fst] in *; [apply lexle_refl|].
    destruct (term_become_follower nd r V) as [L E].
    set (nd1 := update_node (become_follower nd r) r) in *.
    assert (K1 : keep nd nd1).
    { eapply keep_trans; [apply keep_become_follower|]. apply keep_upd_peer.
      + apply (good_become_follower nd r I).
      + left. destruct (good_become_follower nd r I) as [_ (Hi & _)]. congruence. }
    assert (I1 : ninv nd1).
    { pose proof (good_become_follower nd r I) as G1.
      apply (good_update_node (become_follower nd r) r); [apply G1|]. destruct G1 as [_ (Hi & _)]. congruence. }
    assert (W1 : nwf nd1).
    { apply (nwf_keep nd nd1 W I1 K1). unfold nd1. unfold update_node, upd_peer, set_peers. cbn [n_term]. rewrite E. exact L. }
    eapply lexle_trans; [apply lexle_keep; eauto|].
    apply lexle_append_logs; auto. destruct RW as [_ T]. intros e H.
    change (n_term nd1) with (n_term (become_follower nd r)). rewrite E. auto.
  - apply lexle_keep; auto; [apply W'|].
    unfold heartbeat_request. destruct (validate_term nd r); cbn [fst]; [apply keep_refl|].
    destruct (validate_log (become_follower nd r) r); cbn [fst]; [apply keep_become_follower|].
    assert (K2 : keep nd (update_node (become_follower nd r) r)).
    { eapply keep_trans; [apply keep_become_follower|]. apply keep_upd_peer.
      - apply (good_become_follower nd r I).
      - left. destruct (good_become_follower nd r I) as [_ (Hi & _)]. congruence. }
    destruct (_ <? _); [|exact K2]. eapply keep_trans; [exact K2|]. apply keep_commit_storage.
    pose proof (good_become_follower nd r I) as G1.
    apply (good_update_node (become_follower nd r) r); [apply G1|]. destruct G1 as [_ (Hi & _)]. congruence.
  - assert (E : fst (pre_vote_request nd r el) = nd).
    { unfold pre_vote_request. destruct (validate_log_for_vote nd r); destruct (n_state nd); cbn [fst]; auto;
        destruct (el <=? n_tt nd); auto. }
    rewrite E. apply lexle_refl.
  - apply lexle_keep; auto; [apply W'|].
    unfold vote_request.
    destruct (validate_vote_state nd r); cbn [fst]; [apply keep_refl|].
    destruct (validate_term_for_vote nd r); cbn [fst]; [apply keep_refl|].
    destruct (validate_log_for_vote nd r); cbn [fst]; [apply keep_refl|].
    destruct (fix_vote_term rv); split; reflexivity.
Qed.

(* a granted vote: the candidate's last entry is at least the voter's, componentwise; the voter adopts the term *)
Lemma vote_granted : forall nd r el,
  q_kind r = KVote -> is_ok (s_result (snd (handle_request rr_fixed nd r el))) = true ->
  p_li (local nd) <= q_li r /\ p_lt (local nd) <= q_lt r /\
  n_logs (fst (handle_request rr_fixed nd r el)) = n_logs nd /\
  cl (n_state (fst (handle_request rr_fixed nd r el))) = false /\
  n_term nd < q_term r /\ n_term (fst (handle_request rr_fixed nd r el)) = q_term r.
Proof.
  intros nd r el K. unfold handle_request. rewrite K. unfold vote_request.
  destruct (validate_vote_state nd r) as [resp|] eqn:V1; cbn [fst snd].
  { rewrite (validate_vote_state_not_ok _ _ _ V1). discriminate. }
  destruct (validate_term_for_vote nd r) as [resp|] eqn:V2; cbn [fst snd].
  { rewrite (validate_term_for_vote_not_ok _ _ _ V2). discriminate. }
  destruct (validate_log_for_vote nd r) as [resp|] eqn:V3; cbn [fst snd].
  { rewrite (validate_log_for_vote_not_ok _ _ _ V3). discriminate. }
  intros _. unfold validate_log_for_vote in V3. unfold validate_term_for_vote in V2.
  destruct (N.ltb_spec (q_li r) (p_li (local nd))); cbn [orb] in V3; [discriminate|].
  destruct (N.ltb_spec (q_lt r) (p_lt (local nd))); cbn [orb] in V3; [discriminate|].
  destruct (N.leb_spec (q_term r) (n_term nd)); [discriminate|].
  cbn. repeat split; auto.
Qed.

(* requests other than a granted vote record no support *)
Lemma request_no_vote : forall rv nd r el,
  is_vote (q_kind r) && is_ok (s_result (snd (handle_request rv nd r el))) = true -> q_kind r = KVote.
Proof. intros rv nd r el H. destruct (q_kind r); cbn in H; try discriminate. reflexivity. Qed.

(* the Vote requests sent by a response handler describe the sender's own last entry *)
Lemma response_vote_reqs : forall rv nd r s q,
  In q (snd (handle_response rv nd r s)) -> q_kind q = KVote ->
  let nd' := fst (handle_response rv nd r s) in
  n_state nd' = Candidate /\ q_term q = n_term nd' /\ q_li q = p_li (local nd') /\ q_lt q = p_lt (local nd').
Proof.
  intros rv nd r s q. unfold handle_response.
  assert (HB : forall n0, In q (heartbeat_no_timer n0) -> q_kind q = KVote -> False).
  { intros n0 H K. unfold heartbeat_no_timer in H. apply in_map_iff in H as [j [<- _]]. discriminate. }
  destruct (n_state nd) eqn:S; destruct (q_kind r); destruct (s_result s); cbn [fst snd];
    try (intros H; exact (False_ind _ H));
    try (match goal with |- context [if n_term nd <? ?l then _ else _] => destruct (n_term nd <? l) end; cbn [fst snd];
         intros H; exact (False_ind _ H));
    try (destruct (ack_counts rv nd r); cbn [fst snd]; [|intros H; exact (False_ind _ H)];
         unfold commit; destruct (_ && _); cbn [fst snd]; [intros H K; exfalso; eapply HB; eauto | intros H; exact (False_ind _ H)]);
    try (unfold reconcile; cbn [fst snd]; intros [<-|[]] K; discriminate).
  - destruct (vote_counts rv nd r); cbn [fst snd]; [|intros H; exact (False_ind _ H)].
    rewrite vote_received_eq. destruct (_ <? _); cbn [fst snd]; [|intros H; exact (False_ind _ H)].
    intros H K; exfalso; eapply HB; eauto.
  - unfold pre_vote_received. destruct (_ <? _); cbn [fst snd]; [|intros H; exact (False_ind _ H)].
    unfold election; cbn [fst snd]. intros H _. apply in_map_iff in H as [j [<- _]]. cbn. auto.
Qed.

(* how a node is Candidate or Leader after a response *)
Lemma response_cl : forall nd r s,
  cl (n_state (fst (handle_response rr_fixed nd r s))) = true ->
  let nd' := fst (handle_response rr_fixed nd r s) in
  (n_state nd' = n_state nd /\ n_term nd' = n_term nd) \/
  (n_state nd = Candidate /\ is_leader (n_state nd') = true /\ n_term nd' = n_term nd) \/
  (n_state nd' = Candidate /\ n_term nd' = n_term nd + 1).
Proof.
  intros nd r s C. cbv zeta. unfold cl in C. apply orb_true_iff in C as [C|C].
  - destruct (response_candidate rr_fixed nd r s C) as [E|[(S0 & _ & _ & _ & E)|(S0 & E)]].
    + left. rewrite E. auto.
    + left. rewrite E. cbn. auto.
    + right; right. rewrite E. unfold election. cbn. auto.
  - destruct (is_leader (n_state nd)) eqn:L.
    + left. destruct (response_from_leader rr_fixed nd r s L) as [[L' E]|[F _]]; [|congruence].
      split; auto. destruct (n_state nd); try discriminate. destruct (n_state (fst (handle_response rr_fixed nd r s))); try discriminate. reflexivity.
    + right; left. destruct (response_leader rr_fixed nd r s C L) as (S0 & _ & _ & VC & _ & E).
      repeat split; auto. rewrite E. unfold vote_counts in VC. cbn in VC. apply N.eqb_eq in VC. exact VC.
Qed.

Lemma commit_process : forall nd el due, n_commit (fst (process nd el due)) = n_commit nd.
Proof.
  intros nd el due. unfold process.
  destruct (n_state nd); cbn [is_election andb fst]; try (destruct (n_tt nd <? el); reflexivity); try reflexivity.
  destruct (n_et nd <=? el); cbn [fst]; [reflexivity|]. destruct (n_tt nd <? el); reflexivity.
Qed.

Lemma commit_append : forall nd d, n_size nd <> 1 -> n_commit (fst (append nd d)) = n_commit nd.
Proof.
  intros nd d S. unfold append. cbn [fst].
  change (n_size (st_append _ _)) with (n_size nd). apply N.eqb_neq in S. rewrite S. reflexivity.
Qed.

(* ------------------------------------------------------------------ the commit index of a follower *)

Lemma validate_log_append_false : forall nd r log,
  validate_log_append nd r log = inl false -> p_lt (local nd) = e_term log /\ e_index log <= p_li (local nd).
Proof.
  intros nd r log. unfold validate_log_append.
  destruct (N.eqb_spec (p_lt (local nd)) (e_term log)).
  - destruct (N.leb_spec (e_index log) (p_li (local nd))); [auto|].
    destruct (_ && _); discriminate.
  - destruct (_ && _ && _); discriminate.
Qed.

Lemma loop_step_lc : forall nd r log doit,
  nwf nd -> validate_log_append nd r log = inl doit -> e_term log <= n_term nd ->
  p_lc (local nd) <= p_li (local nd) ->
  let nd2 := loop_step nd r log doit in
  p_lc (local nd) <= p_lc (local nd2) /\ p_lc (local nd2) <= N.max (p_lc (local nd)) (q_lc r) /\
  (p_lc (local nd) < p_lc (local nd2) -> p_lc (local nd2) = e_index log) /\ p_lc (local nd2) <= p_li (local nd2).
Proof.
  intros nd r log doit W V T C. cbv zeta. unfold loop_step.
  set (nd1 := if doit then append_storage nd log else nd).
  pose proof (ni_range _ (w_inv _ W)) as R.
  assert (W1 : nwf nd1) by (unfold nd1; destruct doit; [eapply nwf_append_storage; eauto | auto]).
  pose proof (ni_range _ (w_inv _ W1)) as R1.
  assert (C1 : p_lc (local nd1) = p_lc (local nd)).
  { unfold nd1. destruct doit; auto. rewrite local_append_storage by exact R. reflexivity. }
  assert (L1 : p_li (local nd1) = if doit then e_index log else p_li (local nd)).
  { unfold nd1. destruct doit; auto. rewrite local_append_storage by exact R. reflexivity. }
  assert (B : e_index log <= p_li (local nd1) /\ (doit = true -> p_lc (local nd) < e_index log)).
  { destruct doit.
    - apply validate_log_append_true' in V. rewrite L1. split; [lia|tauto].
    - apply validate_log_append_false in V. rewrite L1. split; [tauto|discriminate]. }
  destruct ((e_index log <=? q_lc r) && (p_lc (local nd1) <? e_index log)) eqn:E.
  - apply andb_true_iff in E as [E1 E2]. apply N.leb_le in E1. apply N.ltb_lt in E2.
    rewrite local_commit_storage by exact R1. cbn [p_set_commit p_lc p_li]. repeat split; try lia.
  - rewrite C1. repeat split; try lia. destruct doit; [|lia]. destruct B as [_ B]. specialize (B eq_refl). lia.
Qed.

(* after an entry of a chain has been skipped (the follower claims to hold it), the rest of the chain is answered Ok *)
Lemma append_logs_skip_ok : forall rest nd r prev,
  nwf nd -> chain (prev :: rest) -> (forall e, In e rest -> e_term e <= n_term nd) ->
  p_lt (local nd) = e_term prev -> e_index prev <= p_li (local nd) -> p_lc (local nd) <= e_index prev ->
  s_result (snd (append_logs nd r rest)) = ROk.
Proof.
  induction rest as [|log rest IH]; intros nd r prev W C T Ht Hi Hc; [reflexivity|].
  destruct (C O prev log eq_refl eq_refl) as [Ci Ct].
  rewrite append_logs_cons.
  destruct (validate_log_append nd r log) as [[|]|resp] eqn:V.
  - destruct (nwf_loop_step nd r log true W V (T _ (or_introl eq_refl))) as (W' & T' & _ & L).
    destruct (L eq_refl) as (A & B & Cc).
    eapply (append_logs_rest_ok rest _ r log); auto.
    + eapply chain_tail; eauto.
    + intros e H. rewrite T'. apply T. right; exact H.
  - destruct (nwf_loop_step nd r log false W V (T _ (or_introl eq_refl))) as (W' & T' & L & _).
    destruct (L eq_refl) as (_ & A & B).
    destruct (validate_log_append_false _ _ _ V) as [V1 V2].
    assert (C0 : p_lc (local nd) <= p_li (local nd)) by lia.
    destruct (loop_step_lc nd r log false W V (T _ (or_introl eq_refl)) C0) as (M1 & M2 & M3 & M4).
    eapply (IH _ r log); auto.
    + eapply chain_tail; eauto.
    + intros e H. rewrite T'. apply T. right; exact H.
    + congruence.
    + lia.
    + destruct (N.lt_ge_cases (p_lc (local nd)) (p_lc (local (loop_step nd r log false)))) as [H|H]; [rewrite (M3 H); lia | lia].
  - exfalso. unfold validate_log_append in V. rewrite Ht in V.
    destruct (N.eqb_spec (e_term prev) (e_term log)) as [E|E].
    + destruct (N.leb_spec (e_index log) (p_li (local nd))); [discriminate|].
      destruct (N.ltb_spec (p_lc (local nd)) (e_index log)); [|lia]. cbn [andb] in V.
      destruct (N.eqb_spec (p_li (local nd) + 1) (e_index log)); [discriminate|lia].
    + destruct (N.ltb_spec (e_term prev) (e_term log)); [|lia]. cbn [andb] in V.
      destruct (N.ltb_spec (p_lc (local nd)) (e_index log)); [|lia]. cbn [andb] in V.
      destruct (N.leb_spec (e_index log) (p_li (local nd) + 1)); [discriminate|lia].
Qed.

Lemma append_logs_commit : forall logs nd r,
  nwf nd -> chain logs -> (forall e, In e logs -> e_term e <= n_term nd) -> p_lc (local nd) <= p_li (local nd) ->
  let nd' := fst (append_logs nd r logs) in
  p_lc (local nd') <= p_li (local nd') /\ p_lc (local nd') <= N.max (p_lc (local nd)) (q_lc r) /\
  p_lc (local nd) <= p_lc (local nd') /\
  (p_lc (local nd) < p_lc (local nd') -> s_result (snd (append_logs nd r logs)) = ROk).
Proof.
  induction logs as [|log rest IH]; intros nd r W C T Hc; cbv zeta.
  - cbn. repeat split; try lia.
  - rewrite append_logs_cons. destruct (validate_log_append nd r log) as [doit|resp] eqn:V; cbn [fst snd]; [|repeat split; lia].
    destruct (nwf_loop_step nd r log doit W V (T _ (or_introl eq_refl))) as (W' & T' & Lf & Lt).
    destruct (loop_step_lc nd r log doit W V (T _ (or_introl eq_refl)) Hc) as (M1 & M2 & M3 & M4).
    assert (T2 : forall e, In e rest -> e_term e <= n_term (loop_step nd r log doit)) by (intros e H; rewrite T'; apply T; right; exact H).
    destruct (IH (loop_step nd r log doit) r W' (chain_tail _ _ C) T2 M4) as (I1 & I2 & I3 & I4).
    repeat split; try lia.
    intros Hr. destruct (N.lt_ge_cases (p_lc (local (loop_step nd r log doit))) (p_lc (local (fst (append_logs (loop_step nd r log doit) r rest))))) as [H|H].
    + apply I4; auto.
    + assert (Hr' : p_lc (local nd) < p_lc (local (loop_step nd r log doit))) by lia.
      specialize (M3 Hr'). destruct doit.
      * destruct (Lt eq_refl) as (A & B & Cc). eapply (append_logs_rest_ok rest _ r log); auto.
      * destruct (Lf eq_refl) as (_ & A & B). destruct (validate_log_append_false _ _ _ V) as [V1 V2].
        eapply (append_logs_skip_ok rest _ r log); auto; [congruence|lia|lia].
Qed.

Lemma ninv_lc : forall nd, ninv nd -> p_lc (local nd) = n_commit nd.
Proof. intros nd I. symmetry. apply (ni_commit _ I). Qed.

(* what a request does to the commit index *)
Lemma request_commit : forall rv nd r el,
  nwf nd -> req_wf r -> q_from r <> n_index nd ->
  n_commit nd <= lenN (n_logs nd) -> (is_append_or_hb (q_kind r) = true -> q_lc r <= q_li r) ->
  let nd' := fst (handle_request rv nd r el) in
  n_commit nd' <= lenN (n_logs nd') /\ n_commit nd' <= N.max (n_commit nd) (q_lc r) /\
  (n_commit nd < n_commit nd' ->
   is_append_or_hb (q_kind r) = true /\ is_ok (s_result (snd (handle_request rv nd r el))) = true).
Proof.
  intros rv nd r el W RW Hne CL MC. cbv zeta. pose proof (w_inv _ W) as I.
  destruct (request_shape rv nd r el W RW Hne) as [W' _]. pose proof (w_inv _ W') as I'.
  rewrite <- (nwf_li _ I'), <- (ninv_lc _ I'), <- (ninv_lc _ I).
  rewrite <- (nwf_li _ I), <- (ninv_lc _ I) in CL.
  unfold handle_request, req_wf in *. destruct (q_kind r) as [logs| | |] eqn:K.
  - unfold append_request in *. destruct (validate_term nd r) eqn:V; cbn [fst snd] in *; [repeat split; lia|].
    destruct (term_become_follower nd r V) as [L E].
    set (nd1 := update_node (become_follower nd r) r) in *.
    assert (K1 : keep nd nd1).
    { eapply keep_trans; [apply keep_become_follower|]. apply keep_upd_peer.
      + apply (good_become_follower nd r I).
      + left. destruct (good_become_follower nd r I) as [_ (Hi & _)]. congruence. }
    assert (G1 : good nd nd1).
    { pose proof (good_become_follower nd r I) as G1. eapply good_trans; [exact G1|].
      apply (good_update_node (become_follower nd r) r); [apply G1|]. destruct G1 as [_ (Hi & _)]. congruence. }
    destruct G1 as [I1 St].
    assert (W1 : nwf nd1).
    { apply (nwf_keep nd nd1 W I1 K1). unfold nd1. unfold update_node, upd_peer, set_peers. cbn [n_term]. rewrite E. exact L. }
    assert (C1 : p_lc (local nd1) = p_lc (local nd)).
    { rewrite (ninv_lc _ I1), (ninv_lc _ I). unfold nd1, update_node, upd_peer, set_peers, become_follower.
      destruct (_ <=? _); reflexivity. }
    assert (L1 : p_li (local nd1) = p_li (local nd)).
    { rewrite (nwf_li _ I1), (nwf_li _ I). destruct K1 as [K1 _]. rewrite K1. reflexivity. }
    destruct RW as [Cn T].
    assert (T1 : forall e, In e logs -> e_term e <= n_term nd1).
    { intros e H. unfold nd1. unfold update_node, upd_peer, set_peers. cbn [n_term]. rewrite E. auto. }
    destruct (append_logs_commit logs nd1 r W1 Cn T1) as (A1 & A2 & A3 & A4); [lia|].
    rewrite C1 in *. repeat split; auto. apply A4 in H. rewrite H. reflexivity.
  - unfold heartbeat_request in *. destruct (validate_term nd r) eqn:V; cbn [fst snd] in *; [repeat split; lia|].
    destruct (validate_log (become_follower nd r) r) eqn:VL; cbn [fst snd] in *.
    + assert (C1 : p_lc (local (become_follower nd r)) = p_lc (local nd)).
      { rewrite (ninv_lc _ I'), (ninv_lc _ I). unfold become_follower. destruct (_ <=? _); reflexivity. }
      assert (L1 : p_li (local (become_follower nd r)) = p_li (local nd)).
      { rewrite (nwf_li _ I'), (nwf_li _ I). destruct (keep_become_follower nd r) as [K1 _]. rewrite K1. reflexivity. }
      rewrite C1, L1. repeat split; lia.
    + set (nd2 := update_node (become_follower nd r) r) in *.
      assert (G1 : good nd nd2).
      { pose proof (good_become_follower nd r I) as G1. eapply good_trans; [exact G1|].
        apply (good_update_node (become_follower nd r) r); [apply G1|]. destruct G1 as [_ (Hi & _)]. congruence. }
      destruct G1 as [I2 St].
      assert (K2 : keep nd nd2).
      { eapply keep_trans; [apply keep_become_follower|]. apply keep_upd_peer.
        - apply (good_become_follower nd r I).
        - left. destruct (good_become_follower nd r I) as [_ (Hi & _)]. congruence. }
      assert (C2 : p_lc (local nd2) = p_lc (local nd)).
      { rewrite (ninv_lc _ I2), (ninv_lc _ I). unfold nd2, update_node, upd_peer, set_peers, become_follower.
        destruct (_ <=? _); reflexivity. }
      assert (L2 : p_li (local nd2) = p_li (local nd)).
      { rewrite (nwf_li _ I2), (nwf_li _ I). destruct K2 as [K2 _]. rewrite K2. reflexivity. }
      assert (VL' : p_li (local nd) = q_li r).
      { unfold validate_log in VL.
        destruct (N.eqb_spec (p_li (local (become_follower nd r))) (q_li r)) as [E|E]; cbn [negb orb] in VL; [|discriminate].
        rewrite <- E. rewrite (nwf_li _ (proj1 (good_become_follower nd r I))), (nwf_li _ I).
        destruct (keep_become_follower nd r) as [Kb _]. rewrite Kb. reflexivity. }
      specialize (MC eq_refl).
      destruct (N.ltb_spec (p_lc (local nd2)) (q_lc r)); cbn [fst snd].
      * rewrite local_commit_storage by apply (ni_range _ I2). cbn [p_set_commit p_lc p_li]. rewrite L2. repeat split; auto; lia.
      * rewrite C2, L2. repeat split; lia.
  - assert (E : fst (pre_vote_request nd r el) = nd).
    { unfold pre_vote_request. destruct (validate_log_for_vote nd r); destruct (n_state nd); cbn [fst]; auto;
        destruct (el <=? n_tt nd); auto. }
    rewrite E in *. repeat split; lia.
  - assert (E : p_lc (local (fst (vote_request rv nd r))) = p_lc (local nd) /\ p_li (local (fst (vote_request rv nd r))) = p_li (local nd)).
    { rewrite (ninv_lc _ I'), (ninv_lc _ I), (nwf_li _ I'), (nwf_li _ I). unfold vote_request.
      destruct (validate_vote_state nd r); cbn [fst]; auto.
      destruct (validate_term_for_vote nd r); cbn [fst]; auto.
      destruct (validate_log_for_vote nd r); cbn [fst]; auto.
      destruct (fix_vote_term rv); auto. }
    destruct E as [E1 E2]. rewrite E1, E2. repeat split; lia.
Qed.

(* ------------------------------------------------------------------ Append/Heartbeat requests carry the sender's own row *)

Definition own_row (nd' : node) (q : request) : Prop :=
  q_li q = p_li (local nd') /\ q_lc q = p_lc (local nd').

Lemma response_ahb_reqs : forall rv nd r s q,
  In q (snd (handle_response rv nd r s)) -> is_append_or_hb (q_kind q) = true ->
  own_row (fst (handle_response rv nd r s)) q.
Proof.
  intros rv nd r s q. unfold handle_response, own_row.
  assert (HB : forall n0, In q (heartbeat_no_timer n0) -> q_li q = p_li (local n0) /\ q_lc q = p_lc (local n0)).
  { intros n0 H. unfold heartbeat_no_timer in H. apply in_map_iff in H as [j [<- _]]. cbn. auto. }
  destruct (n_state nd) eqn:S; destruct (q_kind r); destruct (s_result s); cbn [fst snd];
    try (intros H; exact (False_ind _ H));
    try (match goal with |- context [if n_term nd <? ?l then _ else _] => destruct (n_term nd <? l) end; cbn [fst snd];
         intros H; exact (False_ind _ H));
    try (destruct (ack_counts rv nd r); cbn [fst snd]; [|intros H; exact (False_ind _ H)];
         unfold commit; destruct (_ && _); cbn [fst snd]; [intros H _; apply HB; exact H | intros H; exact (False_ind _ H)]);
    try (unfold reconcile; cbn [fst snd]; intros [<-|[]] _; cbn; auto).
  - destruct (vote_counts rv nd r); cbn [fst snd]; [|intros H; exact (False_ind _ H)].
    rewrite vote_received_eq. destruct (_ <? _); cbn [fst snd]; [|intros H; exact (False_ind _ H)].
    intros H _. apply HB in H. destruct (fix_ack_term rv); rewrite ?local_reset_rows; exact H.
  - unfold pre_vote_received. destruct (_ <? _); cbn [fst snd]; [|intros H; exact (False_ind _ H)].
    unfold election; cbn [fst snd]. intros H K. apply in_map_iff in H as [j [<- _]]. discriminate.
Qed.

Lemma process_ahb_reqs : forall nd el due q,
  In q (snd (process nd el due)) -> is_append_or_hb (q_kind q) = true -> own_row (fst (process nd el due)) q.
Proof.
  intros nd el due q. unfold process, own_row.
  destruct (n_state nd) eqn:S; cbn [is_election andb fst snd];
    try (destruct (n_tt nd <? el); cbn [fst snd]; intros H; exact (False_ind _ H)).
  - destruct (n_et nd <=? el); cbn [fst snd].
    + unfold pre_election; cbn [snd]. intros H K. apply in_map_iff in H as [j [<- _]]. discriminate.
    + destruct (n_tt nd <? el); cbn [fst snd]; intros H; exact (False_ind _ H).
  - intros H _. apply in_map_iff in H as [j [<- _]]. cbn. auto.
Qed.

Lemma append_ahb_reqs : forall nd d q,
  n_size nd <> 1 -> In q (snd (append nd d)) -> own_row (fst (append nd d)) q.
Proof.
  intros nd d q S. unfold append, own_row. cbn [fst snd].
  change (n_size (st_append _ _)) with (n_size nd). apply N.eqb_neq in S. rewrite S.
  intros H. apply in_map_iff in H as [j [<- _]]. cbn. auto.
Qed.

Lemma In_node_ghosts_commit_conv : forall old new idx,
  n_commit old < idx -> idx <= n_commit new ->
  In (GCommit (n_index new) (is_leader (n_state old) && is_leader (n_state new)) (n_term new) idx (log_at (n_logs new) idx))
     (node_ghosts old new).
Proof.
  intros old new idx H1 H2. unfold node_ghosts. apply in_or_app. right. apply in_or_app. right.
  apply in_map_iff. exists idx. split; auto. apply range_from_In. lia.
Qed.
