(* GraphOps.v — the operations of Graph.v (array level) preserve the relaxed simulation
   relation rsim of GraphSim.v: allocation, count, link, unlink (never out of fuel), free. *)
From Agdb Require Import Bytes Graph GraphArr GraphSim GraphSim2 GraphSim3.
From Coq Require Import ZifyBool ZifyNat ZifyN.
Ltac Zify.zify_post_hook ::= Z.div_mod_to_equations.
Open Scope Z_scope.

(* ---------- describing a graph by its four accessor functions on non-negative slots ---------- *)

Definition gdesc (g : graph) (n : Z) (F T FM TM : Z -> Z) : Prop :=
  wfl g /\ capacity g = n /\
  forall j, 0 <= j -> from g j = F j /\ to g j = T j /\ fmeta g j = FM j /\ tmeta g j = TM j.

Lemma gdesc_self g : wfl g -> gdesc g (capacity g) (from g) (to g) (fmeta g) (tmeta g).
Proof. intros H. split; [assumption|]. split; [reflexivity|]. auto. Qed.

Lemma set_abs l i v : set l i v = set l (Z.abs i) v.
Proof. unfold set. rewrite zabs_nat_abs. reflexivity. Qed.

Lemma get_set_upd l i v j :
  0 <= i < Z.of_nat (length l) -> 0 <= j -> get (set l i v) j = upd (get l) i v j.
Proof.
  intros Hi Hj. rewrite get_set. unfold upd.
  rewrite (Z.abs_eq i), (Z.abs_eq j) by lia.
  destruct (Z.eqb_spec i j); destruct (Z.eqb_spec j i); destruct (Z.ltb_spec i (Z.of_nat (length l)));
    cbn [andb]; try reflexivity; lia.
Qed.

Section Desc.
  Variables (g : graph) (n : Z) (F T FM TM : Z -> Z).
  Hypothesis D : gdesc g n F T FM TM.

  Lemma gdesc_from j : from g j = F (Z.abs j).
  Proof. destruct D as [_ [_ H]]. unfold from. rewrite <- get_abs. apply (H (Z.abs j)). lia. Qed.
  Lemma gdesc_to j : to g j = T (Z.abs j).
  Proof. destruct D as [_ [_ H]]. unfold to. rewrite <- get_abs. apply (H (Z.abs j)). lia. Qed.
  Lemma gdesc_fmeta j : fmeta g j = FM (Z.abs j).
  Proof. destruct D as [_ [_ H]]. unfold fmeta. rewrite <- get_abs. apply (H (Z.abs j)). lia. Qed.
  Lemma gdesc_tmeta j : tmeta g j = TM (Z.abs j).
  Proof. destruct D as [_ [_ H]]. unfold tmeta. rewrite <- get_abs. apply (H (Z.abs j)). lia. Qed.

  Lemma gdesc_set_from i v : Z.abs i < n -> gdesc (set_from g i v) n (upd F (Z.abs i) v) T FM TM.
  Proof.
    destruct D as [[L1 [L2 L3]] [Hc H]]. intros Hi. unfold capacity in Hc.
    split; [|split].
    - unfold wfl, set_from; cbn [g_from g_to g_fmeta g_tmeta]. rewrite length_set. auto.
    - unfold capacity, set_from; cbn [g_from]. rewrite length_set. assumption.
    - intros j Hj. destruct (H j Hj) as [H1 [H2 [H3 H4]]].
      unfold from, to, fmeta, tmeta, set_from in *; cbn [g_from g_to g_fmeta g_tmeta].
      repeat split; try assumption.
      rewrite set_abs, get_set_upd by lia. unfold upd. rewrite H1. reflexivity.
  Qed.

  Lemma gdesc_set_to i v : Z.abs i < n -> gdesc (set_to g i v) n F (upd T (Z.abs i) v) FM TM.
  Proof.
    destruct D as [[L1 [L2 L3]] [Hc H]]. intros Hi. unfold capacity in Hc.
    split; [|split].
    - unfold wfl, set_to; cbn [g_from g_to g_fmeta g_tmeta]. rewrite length_set. auto.
    - unfold capacity, set_to; cbn [g_from]. assumption.
    - intros j Hj. destruct (H j Hj) as [H1 [H2 [H3 H4]]].
      unfold from, to, fmeta, tmeta, set_to in *; cbn [g_from g_to g_fmeta g_tmeta].
      repeat split; try assumption.
      rewrite set_abs, get_set_upd by lia. unfold upd. rewrite H2. reflexivity.
  Qed.

  Lemma gdesc_set_fmeta i v : Z.abs i < n -> gdesc (set_fmeta g i v) n F T (upd FM (Z.abs i) v) TM.
  Proof.
    destruct D as [[L1 [L2 L3]] [Hc H]]. intros Hi. unfold capacity in Hc.
    split; [|split].
    - unfold wfl, set_fmeta; cbn [g_from g_to g_fmeta g_tmeta]. rewrite length_set. auto.
    - unfold capacity, set_fmeta; cbn [g_from]. assumption.
    - intros j Hj. destruct (H j Hj) as [H1 [H2 [H3 H4]]].
      unfold from, to, fmeta, tmeta, set_fmeta in *; cbn [g_from g_to g_fmeta g_tmeta].
      repeat split; try assumption.
      rewrite set_abs, get_set_upd by lia. unfold upd. rewrite H3. reflexivity.
  Qed.

  Lemma gdesc_set_tmeta i v : Z.abs i < n -> gdesc (set_tmeta g i v) n F T FM (upd TM (Z.abs i) v).
  Proof.
    destruct D as [[L1 [L2 L3]] [Hc H]]. intros Hi. unfold capacity in Hc.
    split; [|split].
    - unfold wfl, set_tmeta; cbn [g_from g_to g_fmeta g_tmeta]. rewrite length_set. auto.
    - unfold capacity, set_tmeta; cbn [g_from]. assumption.
    - intros j Hj. destruct (H j Hj) as [H1 [H2 [H3 H4]]].
      unfold from, to, fmeta, tmeta, set_tmeta in *; cbn [g_from g_to g_fmeta g_tmeta].
      repeat split; try assumption.
      rewrite set_abs, get_set_upd by lia. unfold upd. rewrite H4. reflexivity.
  Qed.

  Lemma gdesc_grow : gdesc (grow g) (n + 1) F T FM TM.
  Proof.
    destruct D as [[L1 [L2 L3]] [Hc H]]. unfold capacity in Hc.
    split; [|split].
    - unfold wfl, grow; cbn [g_from g_to g_fmeta g_tmeta]. rewrite !app_length. cbn [length]. lia.
    - unfold capacity, grow; cbn [g_from]. rewrite app_length. cbn [length]. lia.
    - intros j Hj. destruct (H j Hj) as [H1 [H2 [H3 H4]]].
      unfold from, to, fmeta, tmeta, grow in *; cbn [g_from g_to g_fmeta g_tmeta].
      rewrite !get_app0. auto.
  Qed.

  Lemma gdesc_overflow : F n = 0 /\ T n = 0 /\ FM n = 0 /\ TM n = 0.
  Proof.
    destruct D as [[L1 [L2 L3]] [Hc H]]. unfold capacity in Hc.
    assert (Hn : 0 <= n) by lia.
    destruct (H n Hn) as [H1 [H2 [H3 H4]]]. rewrite <- H1, <- H2, <- H3, <- H4.
    unfold from, to, fmeta, tmeta. rewrite !get_overflow by lia. auto.
  Qed.

  (* pointwise change of the describing functions *)
  Lemma gdesc_ext F' T' FM' TM' :
    (forall j, 0 <= j -> F' j = F j /\ T' j = T j /\ FM' j = FM j /\ TM' j = TM j) ->
    gdesc g n F' T' FM' TM'.
  Proof.
    intros Hext. destruct D as [W [Hc H]]. split; [assumption|]. split; [assumption|].
    intros j Hj. destruct (H j Hj) as [H1 [H2 [H3 H4]]]. destruct (Hext j Hj) as [-> [-> [-> ->]]]. auto.
  Qed.
End Desc.

Lemma rsim_gdesc g nodes PO PI ER EO EI fl cnt :
  rsim g nodes PO PI ER EO EI fl cnt ->
  exists n F T FM TM, gdesc g n F T FM TM /\ rsimF n F T FM TM nodes PO PI ER EO EI fl cnt /\
    n = capacity g /\ FM = fmeta g /\ TM = tmeta g /\ F = from g /\ T = to g.
Proof.
  intros [W R]. exists (capacity g), (from g), (to g), (fmeta g), (tmeta g).
  split; [apply gdesc_self; assumption|]. auto 10.
Qed.

Lemma rsim_of_gdesc g n F T FM TM nodes PO PI ER EO EI fl cnt :
  gdesc g n F T FM TM -> rsimF n F T FM TM nodes PO PI ER EO EI fl cnt ->
  rsim g nodes PO PI ER EO EI fl cnt.
Proof.
  intros [W [Hc H]] R. split; [assumption|]. rewrite Hc.
  eapply rsimF_ext; [exact R|]. intros j Hj. apply H. lia.
Qed.

Lemma fmeta_even g z : fmeta g (- z) = fmeta g z.
Proof. apply get_neg. Qed.
Lemma tmeta_even g z : tmeta g (- z) = tmeta g z.
Proof. apply get_neg. Qed.
