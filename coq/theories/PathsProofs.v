(* PathsProofs.v — lemmas about Paths.v (C26) *)
From Agdb Require Import Bytes BytesProofs Paths.
From Coq Require String.
Import String.StringSyntax.
Local Open Scope nat_scope.

(* byte-string literals for statements and witnesses (not extracted) *)
Definition b (s : String.string) : bytes := String.list_byte_of_string s.
Arguments b s%string_scope.

Lemma literals :
  c_slash = x2f /\ c_dot = x2e /\ c_backslash = x5c /\ c_nul = x00 /\
  [c_slash] = b "/" /\ [c_dot] = b "." /\ [c_backslash] = b "\" /\
  s_dot = b "." /\ s_dotdot = b ".." /\ s_backups = b "backups" /\ s_audit = b "audit" /\
  s_bak = b ".bak" /\ s_log = b ".log" /\ s_audit_ext = b ".audit".
Proof. repeat split. Qed.

(* ---------- boolean tests ---------- *)

Lemma is_sep_iff c : is_sep c = true <-> c = x2f.
Proof. unfold is_sep, c_slash. apply byte_eqb_eq. Qed.

Lemma bytes_eqb_refl a : bytes_eqb a a = true.
Proof. apply bytes_eqb_eq. reflexivity. Qed.

Lemma bytes_eqb_false a c : bytes_eqb a c = false <-> a <> c.
Proof. rewrite <- not_true_iff_false, bytes_eqb_eq. reflexivity. Qed.

Lemma is_nil_false n : is_nil n = false <-> n <> [].
Proof. destruct n; cbn [is_nil]; split; congruence. Qed.

Lemma existsb_byte_false x n : existsb (fun c => byte_eqb c x) n = false <-> ~ In x n.
Proof.
  rewrite <- not_true_iff_false, existsb_exists. split; intros H.
  - intros Hin. apply H. exists x. split; [exact Hin|]. apply byte_eqb_eq. reflexivity.
  - intros [y [Hin Hy]]. apply byte_eqb_eq in Hy. subst y. exact (H Hin).
Qed.

Lemma existsb_sep_false c : existsb is_sep c = false <-> ~ In x2f c.
Proof. exact (existsb_byte_false x2f c). Qed.

Lemma existsb_anysep_false n : existsb is_anysep n = false <-> ~ In x2f n /\ ~ In x5c n.
Proof.
  rewrite <- not_true_iff_false, existsb_exists. split; intros H.
  - split; intros Hin; apply H; [exists x2f|exists x5c]; (split; [exact Hin|reflexivity]).
  - intros [y [Hin Hy]]. unfold is_anysep in Hy. apply orb_true_iff in Hy.
    destruct H as [H1 H2].
    destruct Hy as [Hy|Hy]; apply byte_eqb_eq in Hy; subst y; [exact (H1 Hin)|exact (H2 Hin)].
Qed.

Lemma starts_with_iff pre n : starts_with pre n = true <-> exists r, n = pre ++ r.
Proof.
  revert n; induction pre as [|x pre IH]; intros n; cbn [starts_with].
  - split; [intros _; exists n; reflexivity|reflexivity].
  - destruct n as [|y n].
    + split; [discriminate|intros [r Hr]; discriminate].
    + rewrite andb_true_iff, byte_eqb_eq, IH. split.
      * intros [-> [r ->]]. exists r. reflexivity.
      * intros [r Hr]. cbn [app] in Hr. injection Hr as -> ->. split; [reflexivity|exists r; reflexivity].
Qed.

Lemma ends_with_iff suf n : ends_with suf n = true <-> exists a, n = a ++ suf.
Proof.
  unfold ends_with. rewrite starts_with_iff. split.
  - intros [r Hr]. exists (rev r).
    rewrite <- (rev_involutive n), Hr, rev_app_distr, rev_involutive. reflexivity.
  - intros [a ->]. exists (rev a). apply rev_app_distr.
Qed.

Lemma starts_with_false pre n : starts_with pre n = false <-> forall r, n <> pre ++ r.
Proof.
  rewrite <- not_true_iff_false, starts_with_iff. split.
  - intros H r E. apply H. exists r. exact E.
  - intros H [r E]. exact (H r E).
Qed.

Lemma ends_with_false suf n : ends_with suf n = false <-> forall a, n <> a ++ suf.
Proof.
  rewrite <- not_true_iff_false, ends_with_iff. split.
  - intros H r E. apply H. exists r. exact E.
  - intros H [r E]. exact (H r E).
Qed.

(* ---------- the validator, rule by rule ---------- *)

Definition name_rules (n : name) : Prop :=
  n <> [] /\
  ~ In x00 n /\
  (~ In x2f n /\ ~ In x5c n) /\
  (n <> s_dot /\ n <> s_dotdot) /\
  (forall r, n <> x2e :: r) /\
  (n <> s_audit /\ n <> s_backups) /\
  (forall a, n <> a ++ s_bak) /\ (forall a, n <> a ++ s_log) /\ (forall a, n <> a ++ s_audit_ext).

Lemma valid_name_defect n : valid_name n = true <-> name_defect_of n = None.
Proof. unfold valid_name. destruct (name_defect_of n); split; congruence. Qed.

Lemma valid_name_tests n :
  valid_name n = true <->
  is_nil n = false /\
  existsb (fun c => byte_eqb c c_nul) n = false /\
  existsb is_anysep n = false /\
  (bytes_eqb n s_dot || bytes_eqb n s_dotdot) = false /\
  starts_with s_dot n = false /\
  (bytes_eqb n s_audit || bytes_eqb n s_backups) = false /\
  (ends_with s_bak n || ends_with s_log n || ends_with s_audit_ext n) = false.
Proof.
  unfold valid_name, name_defect_of.
  destruct (is_nil n).
  { split; [discriminate|intros (H & _); discriminate H]. }
  destruct (existsb (fun c => byte_eqb c c_nul) n).
  { split; [discriminate|intros (_ & H & _); discriminate H]. }
  destruct (existsb is_anysep n).
  { split; [discriminate|intros (_ & _ & H & _); discriminate H]. }
  destruct (bytes_eqb n s_dot || bytes_eqb n s_dotdot).
  { split; [discriminate|intros (_ & _ & _ & H & _); discriminate H]. }
  destruct (starts_with s_dot n).
  { split; [discriminate|intros (_ & _ & _ & _ & H & _); discriminate H]. }
  destruct (bytes_eqb n s_audit || bytes_eqb n s_backups).
  { split; [discriminate|intros (_ & _ & _ & _ & _ & H & _); discriminate H]. }
  destruct (ends_with s_bak n || ends_with s_log n || ends_with s_audit_ext n).
  { split; [discriminate|intros (_ & _ & _ & _ & _ & _ & H); discriminate H]. }
  split; [intros _; repeat split|reflexivity].
Qed.

Lemma valid_name_rules n : valid_name n = true <-> name_rules n.
Proof.
  rewrite valid_name_tests. unfold name_rules.
  rewrite is_nil_false, existsb_byte_false, existsb_anysep_false.
  rewrite !orb_false_iff, !bytes_eqb_false, !ends_with_false, starts_with_false.
  unfold c_nul. change (forall r, n <> s_dot ++ r) with (forall r, n <> x2e :: r).
  tauto.
Qed.

(* each defect is exactly the first violated rule *)
Lemma name_defect_sound n x :
  name_defect_of n = Some x ->
  match x with
  | NEmpty => n = []
  | NNul => In x00 n
  | NSeparator => In x2f n \/ In x5c n
  | NDotName => n = s_dot \/ n = s_dotdot
  | NLeadingDot => exists r, n = x2e :: r
  | NReserved => n = s_audit \/ n = s_backups
  | NReservedSuffix => exists a, n = a ++ s_bak \/ n = a ++ s_log \/ n = a ++ s_audit_ext
  end.
Proof.
  unfold name_defect_of.
  destruct (is_nil n) eqn:E1.
  { intros [= <-]. destruct n; [reflexivity|discriminate]. }
  destruct (existsb (fun c => byte_eqb c c_nul) n) eqn:E2.
  { intros [= <-]. apply existsb_exists in E2 as [y [Hin Hy]].
    apply byte_eqb_eq in Hy. subst y. exact Hin. }
  destruct (existsb is_anysep n) eqn:E3.
  { intros [= <-]. apply existsb_exists in E3 as [y [Hin Hy]].
    apply orb_true_iff in Hy. destruct Hy as [Hy|Hy]; apply byte_eqb_eq in Hy; subst y; auto. }
  destruct (bytes_eqb n s_dot || bytes_eqb n s_dotdot) eqn:E4.
  { intros [= <-]. apply orb_true_iff in E4. rewrite !bytes_eqb_eq in E4. exact E4. }
  destruct (starts_with s_dot n) eqn:E5.
  { intros [= <-]. apply starts_with_iff in E5. exact E5. }
  destruct (bytes_eqb n s_audit || bytes_eqb n s_backups) eqn:E6.
  { intros [= <-]. apply orb_true_iff in E6. rewrite !bytes_eqb_eq in E6. exact E6. }
  destruct (ends_with s_bak n || ends_with s_log n || ends_with s_audit_ext n) eqn:E7.
  { intros [= <-]. rewrite !orb_true_iff, !ends_with_iff in E7.
    destruct E7 as [[[a E]|[a E]]|[a E]]; exists a; auto. }
  discriminate.
Qed.

(* ---------- split / components ---------- *)

Lemma split_sep_nonnil p : split_sep p <> [].
Proof.
  destruct p as [|c r]; cbn [split_sep]; [discriminate|].
  destruct (is_sep c); [discriminate|]. destruct (split_sep r); discriminate.
Qed.

Lemma split_sep_nosep c : ~ In x2f c -> split_sep c = [c].
Proof.
  induction c as [|x c IH]; intros H; cbn [split_sep]; [reflexivity|].
  destruct (is_sep x) eqn:E.
  - apply is_sep_iff in E. subst x. exfalso. apply H. left. reflexivity.
  - rewrite IH; [reflexivity|]. intros Hin. apply H. right. exact Hin.
Qed.

Lemma split_sep_app a c : split_sep (a ++ x2f :: c) = split_sep a ++ split_sep c.
Proof.
  induction a as [|x a IH]; cbn [app split_sep].
  - replace (is_sep x2f) with true by reflexivity. reflexivity.
  - rewrite IH. destruct (is_sep x); [reflexivity|].
    destruct (split_sep a) as [|h t] eqn:E; [exfalso; exact (split_sep_nonnil a E)|].
    reflexivity.
Qed.

Lemma components_single c : c <> [] -> ~ In x2f c -> components c = [c].
Proof.
  intros Hne Hns. unfold components. rewrite split_sep_nosep by exact Hns.
  destruct c; [congruence|reflexivity].
Qed.

Lemma components_app_sep a c :
  c <> [] -> ~ In x2f c -> components (a ++ x2f :: c) = components a ++ [c].
Proof.
  intros Hne Hns. unfold components.
  rewrite split_sep_app, filter_app, (split_sep_nosep c Hns).
  destruct c; [congruence|reflexivity].
Qed.

Lemma components_trailing a : components (a ++ [x2f]) = components a.
Proof.
  unfold components. rewrite split_sep_app, filter_app.
  change (filter (fun c => negb (is_nil c)) (split_sep [])) with (@nil bytes).
  apply app_nil_r.
Qed.

(* ---------- join ---------- *)

Lemma last_is_sep_true a : last_is_sep a = true -> exists a', a = a' ++ [x2f].
Proof.
  unfold last_is_sep. destruct (rev a) as [|c t] eqn:E; [discriminate|].
  intros H. apply is_sep_iff in H. subst c. exists (rev t).
  rewrite <- (rev_involutive a), E. reflexivity.
Qed.

Lemma is_abs_nosep c : ~ In x2f c -> is_abs c = false.
Proof.
  destruct c as [|x c]; [reflexivity|]. cbn [is_abs]. intros H.
  destruct (is_sep x) eqn:E; [|reflexivity].
  apply is_sep_iff in E. subst x. exfalso. apply H. left. reflexivity.
Qed.

Lemma join_rel a c :
  is_abs c = false ->
  join a c = if is_nil a || last_is_sep a then a ++ c else a ++ x2f :: c.
Proof. unfold join. intros ->. reflexivity. Qed.

Lemma components_join p c :
  c <> [] -> ~ In x2f c -> components (join p c) = components p ++ [c].
Proof.
  intros Hne Hns. rewrite join_rel by (apply is_abs_nosep; exact Hns).
  destruct p as [|x p'].
  - cbn [is_nil orb app]. rewrite components_single by assumption. reflexivity.
  - cbn [is_nil orb]. destruct (last_is_sep (x :: p')) eqn:E.
    + apply last_is_sep_true in E as [a' Ea]. rewrite Ea, <- app_assoc. cbn [app].
      rewrite components_app_sep, components_trailing by assumption. reflexivity.
    + apply components_app_sep; assumption.
Qed.

Lemma is_abs_join p c : c <> [] -> ~ In x2f c -> is_abs (join p c) = is_abs p.
Proof.
  intros Hne Hns. rewrite join_rel by (apply is_abs_nosep; exact Hns).
  destruct p as [|x p'].
  - cbn [is_nil orb app]. apply is_abs_nosep. exact Hns.
  - destruct (is_nil (x :: p') || last_is_sep (x :: p')); reflexivity.
Qed.

(* ---------- resolve ---------- *)

Lemma normal_comp_spec c :
  normal_comp c = true <-> c <> [] /\ ~ In x2f c /\ c <> s_dot /\ c <> s_dotdot.
Proof.
  unfold normal_comp. rewrite !andb_true_iff, !negb_true_iff.
  rewrite is_nil_false, existsb_sep_false, !bytes_eqb_false. tauto.
Qed.

(* the key lemma: joining a normal component pushes it *)
Lemma resolve_join p c : normal_comp c = true -> resolve (join p c) = r_extend (resolve p) [c].
Proof.
  intros H. apply normal_comp_spec in H as (H1 & H2 & H3 & H4).
  unfold resolve, r_extend. cbn [r_abs r_ups r_comps].
  rewrite is_abs_join, components_join by assumption.
  rewrite fold_left_app. cbn [fold_left].
  set (st := fold_left _ (components p) _).
  unfold resolve_step.
  apply bytes_eqb_false in H3, H4. rewrite H3, H4.
  cbn [fst snd rev]. reflexivity.
Qed.

Lemma extend_extend r l1 l2 : r_extend (r_extend r l1) l2 = r_extend r (l1 ++ l2).
Proof. unfold r_extend. cbn [r_abs r_ups r_comps]. rewrite app_assoc. reflexivity. Qed.

Lemma extend_inj r l l' : r_extend r l = r_extend r l' -> l = l'.
Proof. unfold r_extend. intros [= H]. exact (app_inv_head _ _ _ H). Qed.

Lemma strict_prefix_app D a c : strict_prefix (D ++ a) (D ++ c) = strict_prefix a c.
Proof.
  induction D as [|x D IH]; cbn [app strict_prefix]; [reflexivity|].
  rewrite bytes_eqb_refl, IH. reflexivity.
Qed.

Lemma strict_prefix_true a c : strict_prefix a c = true -> exists r, c = a ++ r.
Proof.
  revert c; induction a as [|x a IH]; intros c H.
  - exists c. reflexivity.
  - destruct c as [|y c]; cbn [strict_prefix] in H; [discriminate|].
    apply andb_true_iff in H as [Hx Hr]. apply bytes_eqb_eq in Hx. subst y.
    destruct (IH c Hr) as [r ->]. exists r. reflexivity.
Qed.

Lemma inside_extend r l l' : inside (r_extend r l) (r_extend r l') = strict_prefix l l'.
Proof.
  unfold inside, r_extend. cbn [r_abs r_ups r_comps].
  rewrite eqb_reflx, Nat.eqb_refl, strict_prefix_app. reflexivity.
Qed.

Lemma comps_eqb_eq a c : comps_eqb a c = true <-> a = c.
Proof.
  revert c; induction a as [|x a IH]; intros [|y c]; cbn [comps_eqb];
    try (split; [discriminate|discriminate]); [split; reflexivity|].
  rewrite andb_true_iff, IH, bytes_eqb_eq.
  split; [intros [-> ->]; reflexivity|intros [= -> ->]; tauto].
Qed.

Lemma rpath_eqb_eq r r' : rpath_eqb r r' = true <-> r = r'.
Proof.
  destruct r as [a u c], r' as [a' u' c']. unfold rpath_eqb. cbn [r_abs r_ups r_comps].
  rewrite !andb_true_iff, eqb_true_iff, Nat.eqb_eq, comps_eqb_eq.
  split; [intros [[-> ->] ->]; reflexivity|intros [= -> -> ->]; tauto].
Qed.

(* ---------- valid names are normal components ---------- *)

Lemma valid_normal n : valid_name n = true -> normal_comp n = true.
Proof.
  intros H. apply valid_name_rules in H.
  destruct H as (H1 & _ & (H3 & _) & (H4 & H4') & _).
  apply normal_comp_spec. repeat split; assumption.
Qed.

Lemma valid_dot_normal d : valid_name d = true -> normal_comp (dot_name d) = true.
Proof.
  intros H. apply valid_name_rules in H.
  destruct H as (H1 & _ & (H3 & _) & (H4 & _) & _).
  apply normal_comp_spec. unfold dot_name, c_dot, s_dot, s_dotdot in *. repeat split.
  - discriminate.
  - intros [E|E]; [discriminate|exact (H3 E)].
  - intros [= E]. exact (H1 E).
  - intros [= E]. exact (H4 E).
Qed.

Lemma valid_suf_normal d s :
  valid_name d = true -> ~ In x2f s -> 3 <= length s -> normal_comp (d ++ s) = true.
Proof.
  intros H Hs Hl. apply valid_name_rules in H.
  destruct H as (H1 & _ & (H3 & _) & _).
  apply normal_comp_spec. repeat split.
  - destruct d; [congruence|discriminate].
  - intros Hin. apply in_app_or in Hin. tauto.
  - intros E. apply (f_equal (@length byte)) in E. rewrite app_length in E. cbn in E. lia.
  - intros E. apply (f_equal (@length byte)) in E. rewrite app_length in E. cbn in E. lia.
Qed.

Lemma valid_bak_normal d : valid_name d = true -> normal_comp (d ++ s_bak) = true.
Proof. intros H. apply valid_suf_normal; [exact H|apply existsb_sep_false; reflexivity|cbn; lia]. Qed.
Lemma valid_log_normal d : valid_name d = true -> normal_comp (d ++ s_log) = true.
Proof. intros H. apply valid_suf_normal; [exact H|apply existsb_sep_false; reflexivity|cbn; lia]. Qed.
Lemma valid_audit_ext_normal d : valid_name d = true -> normal_comp (d ++ s_audit_ext) = true.
Proof. intros H. apply valid_suf_normal; [exact H|apply existsb_sep_false; reflexivity|cbn; lia]. Qed.

(* ---------- the WAL file: agdb's name = the server's name when no '/' is in the names ---------- *)

Lemma insert_none sep d : ~ In sep d -> insert_dot_after_last sep d = None.
Proof.
  induction d as [|x d IH]; cbn [insert_dot_after_last]; intros H; [reflexivity|].
  rewrite IH by (intros Hin; apply H; right; exact Hin).
  destruct (byte_eqb x sep) eqn:E; [|reflexivity].
  apply byte_eqb_eq in E. subst x. exfalso. apply H. left. reflexivity.
Qed.

Lemma insert_last sep a d :
  ~ In sep d -> insert_dot_after_last sep (a ++ sep :: d) = Some (a ++ sep :: x2e :: d).
Proof.
  intros H. induction a as [|x a IH]; cbn [app insert_dot_after_last].
  - rewrite insert_none by exact H.
    replace (byte_eqb sep sep) with true by (symmetry; apply byte_eqb_eq; reflexivity).
    reflexivity.
  - rewrite IH. reflexivity.
Qed.

Lemma join_owner_shape data o : ~ In x2f o -> exists X, join data o = X ++ o.
Proof.
  intros Hns. rewrite join_rel by (apply is_abs_nosep; exact Hns).
  destruct (is_nil data || last_is_sep data).
  - exists data. reflexivity.
  - exists (data ++ [x2f]). rewrite <- app_assoc. reflexivity.
Qed.

Lemma owner_dir_shape data o :
  o <> [] -> ~ In x2f o ->
  is_nil (join data o) = false /\ last_is_sep (join data o) = false.
Proof.
  intros Hne Hns. destruct (join_owner_shape data o Hns) as [X ->]. split.
  - destruct X; cbn [app is_nil]; [|reflexivity]. destruct o; [congruence|reflexivity].
  - unfold last_is_sep. destruct (exists_last Hne) as (o' & c & ->).
    rewrite !rev_app_distr. cbn [rev app].
    destruct (is_sep c) eqn:E; [|reflexivity].
    apply is_sep_iff in E. subst c. exfalso. apply Hns. apply in_or_app. right. left. reflexivity.
Qed.

Lemma wal_agrees_gen data o d :
  o <> [] -> ~ In x2f o -> ~ In x2f d ->
  wal_filename (db_file data o d) = server_wal data o d.
Proof.
  intros Hne Hns Hd. unfold server_wal, db_file.
  destruct (owner_dir_shape data o Hne Hns) as [N L].
  rewrite (join_rel (join data o) d) by (apply is_abs_nosep; exact Hd).
  rewrite (join_rel (join data o) (dot_name d)) by reflexivity.
  rewrite N, L. cbn [orb].
  unfold wal_filename, c_slash. rewrite insert_last by exact Hd. reflexivity.
Qed.

Lemma wal_agrees data o d :
  valid_name o = true -> valid_name d = true ->
  wal_filename (db_file data o d) = server_wal data o d.
Proof.
  intros Ho Hd. apply valid_name_rules in Ho, Hd.
  destruct Ho as (O1 & _ & (O3 & _) & _). destruct Hd as (_ & _ & (D3 & _) & _).
  apply wal_agrees_gen; assumption.
Qed.

(* ---------- where the files and directories resolve to ---------- *)

Lemma files_resolved data o d k f :
  valid_name o = true -> valid_name d = true ->
  In (k, f) (files data o d) ->
  resolve f = r_extend (resolve data) (o :: rel_path k d).
Proof.
  intros Ho Hd Hin.
  pose proof (valid_normal o Ho) as No.
  pose proof (valid_normal d Hd) as Nd.
  pose proof (valid_dot_normal d Hd) as Ndot.
  pose proof (valid_bak_normal d Hd) as Nbak.
  pose proof (valid_log_normal d Hd) as Nlog.
  pose proof (valid_audit_ext_normal d Hd) as Next.
  assert (Nb : normal_comp s_backups = true) by reflexivity.
  assert (Na : normal_comp s_audit = true) by reflexivity.
  unfold files in Hin. rewrite (wal_agrees data o d Ho Hd) in Hin. cbn [In] in Hin.
  repeat (destruct Hin as [Hin|Hin]; [injection Hin as <- <-|]); [..|contradiction];
    unfold server_wal, db_file, db_backup_file, db_backup_audit_file, db_audit_file,
      rollback_tmp, rollback_audit_tmp, db_backup_dir, db_audit_dir;
    rewrite !resolve_join by assumption; rewrite !extend_extend; reflexivity.
Qed.

Lemma owner_dir_resolved data o :
  valid_name o = true -> resolve (join data o) = r_extend (resolve data) [o].
Proof. intros Ho. apply resolve_join. apply valid_normal. exact Ho. Qed.

Lemma dirs_resolved data o g :
  valid_name o = true -> In g (dirs data o) ->
  exists t, resolve g = r_extend (resolve data) (o :: t) /\ (t = [] \/ t = [s_audit] \/ t = [s_backups]).
Proof.
  intros Ho Hin. pose proof (valid_normal o Ho) as No.
  assert (Nb : normal_comp s_backups = true) by reflexivity.
  assert (Na : normal_comp s_audit = true) by reflexivity.
  unfold dirs in Hin. cbn [In] in Hin.
  destruct Hin as [<-|[<-|[<-|[]]]]; unfold db_audit_dir, db_backup_dir;
    rewrite !resolve_join by assumption; rewrite ?extend_extend.
  - exists []. split; [reflexivity|auto].
  - exists [s_audit]. split; [reflexivity|auto].
  - exists [s_backups]. split; [reflexivity|auto].
Qed.

(* ---------- the combinatorial core: file names of different databases differ ---------- *)

Definition k_pre (k : fkind) : bytes :=
  match k with FWal | FWalServer => [x2e] | _ => [] end.
Definition k_suf (k : fkind) : bytes :=
  match k with
  | FBackup => s_bak | FBackupAudit | FAudit => s_log | FTmpAudit => s_audit_ext | _ => []
  end.
Definition k_sub (k : fkind) : option bytes :=
  match k with FDb | FWal | FWalServer => None | FAudit => Some s_audit | _ => Some s_backups end.
Definition k_name (k : fkind) (d : name) : bytes := k_pre k ++ d ++ k_suf k.

Lemma rel_path_form k d :
  rel_path k d = match k_sub k with None => [k_name k d] | Some s => [s; k_name k d] end.
Proof.
  destruct k; unfold rel_path, k_name, k_sub, k_pre, k_suf, dot_name, c_dot; cbn [app];
    rewrite ?app_nil_r; reflexivity.
Qed.

Lemma name_inj k k' d d' :
  valid_name d = true -> valid_name d' = true -> k_name k d = k_name k' d' -> d = d'.
Proof.
  intros Hd Hd'. apply valid_name_rules in Hd, Hd'.
  destruct Hd as (N1 & _ & _ & _ & L1 & _ & B1 & G1 & A1).
  destruct Hd' as (N1' & _ & _ & _ & L1' & _ & B1' & G1' & A1').
  assert (Hpre : forall k, k_pre k = [] \/ k_pre k = [x2e]) by (intros []; auto).
  assert (Hsuf : forall k, k_suf k = [] \/ k_suf k = s_bak \/ k_suf k = s_log \/ k_suf k = s_audit_ext)
    by (intros []; auto).
  unfold k_name. intros E.
  assert (E2 : d ++ k_suf k = d' ++ k_suf k').
  { destruct (Hpre k) as [P|P], (Hpre k') as [P'|P']; rewrite P, P' in E; cbn [app] in E.
    - exact E.
    - exfalso. destruct d as [|y d]; [apply N1; reflexivity|].
      cbn [app] in E. injection E as -> _. exact (L1 d eq_refl).
    - exfalso. destruct d' as [|y d']; [apply N1'; reflexivity|].
      cbn [app] in E. injection E as <- _. exact (L1' d' eq_refl).
    - injection E as E. exact E. }
  clear E.
  destruct (Hsuf k) as [S|[S|[S|S]]], (Hsuf k') as [S'|[S'|[S'|S']]];
    rewrite S, S' in E2; rewrite ?app_nil_r in E2;
    first
      [ exact E2
      | apply app_inv_tail in E2; exact E2
      | exfalso;
        first [ exact (B1 _ E2) | exact (G1 _ E2) | exact (A1 _ E2)
              | exact (B1' _ (eq_sym E2)) | exact (G1' _ (eq_sym E2)) | exact (A1' _ (eq_sym E2)) ]
      | exfalso; apply (f_equal (@rev byte)) in E2; rewrite !rev_app_distr in E2;
        cbn in E2; discriminate E2 ].
Qed.

Lemma top_not_reserved k d :
  valid_name d = true -> k_sub k = None -> k_name k d <> s_audit /\ k_name k d <> s_backups.
Proof.
  intros Hd. apply valid_name_rules in Hd.
  destruct Hd as (_ & _ & _ & _ & _ & (R1 & R2) & _).
  destruct k; try discriminate; intros _; unfold k_name, k_pre, k_suf; cbn [app];
    rewrite app_nil_r; unfold s_audit, s_backups in *; split; try discriminate; assumption.
Qed.

Lemma sub_cases k s : k_sub k = Some s -> s = s_audit \/ s = s_backups.
Proof. destruct k; intros [= <-]; auto. Qed.

Lemma rel_path_nonnil k d : rel_path k d <> [].
Proof. destruct k; discriminate. Qed.

(* no file of database d is equal to, or an ancestor of, a file of another database d' of the
   same owner (paths relative to the owner's directory) *)
Lemma rel_no_prefix k k' d d' r :
  valid_name d = true -> valid_name d' = true -> d <> d' ->
  rel_path k' d' = rel_path k d ++ r -> False.
Proof.
  intros Hd Hd' Hne. rewrite !rel_path_form.
  destruct (k_sub k) as [s|] eqn:S, (k_sub k') as [s'|] eqn:S'; cbn [app]; intros E.
  - injection E as _ E _. apply Hne. symmetry. exact (name_inj _ _ _ _ Hd' Hd E).
  - discriminate E.
  - injection E as E _. destruct (top_not_reserved k d Hd S) as [T1 T2].
    destruct (sub_cases _ _ S') as [->| ->]; [exact (T1 (eq_sym E))|exact (T2 (eq_sym E))].
  - injection E as E _. apply Hne. symmetry. exact (name_inj _ _ _ _ Hd' Hd E).
Qed.

Lemma pair_no_prefix k k' o d o' d' r :
  valid_name d = true -> valid_name d' = true -> (o, d) <> (o', d') ->
  o' :: rel_path k' d' = (o :: rel_path k d) ++ r -> False.
Proof.
  intros Hd Hd' Hne E. cbn [app] in E. injection E as -> E.
  apply (rel_no_prefix k k' d d' r Hd Hd'); [|exact E].
  intros ->. apply Hne. reflexivity.
Qed.

(* ---------- the theorems ---------- *)

Theorem contained data o d :
  valid_name o = true -> valid_name d = true ->
  forall k f, In (k, f) (files data o d) ->
  inside (resolve (join data o)) (resolve f) = true.
Proof.
  intros Ho Hd k f Hin.
  rewrite (files_resolved data o d k f Ho Hd Hin), (owner_dir_resolved data o Ho).
  rewrite inside_extend. cbn [strict_prefix]. rewrite bytes_eqb_refl.
  destruct (rel_path k d) eqn:E; [exfalso; exact (rel_path_nonnil k d E)|reflexivity].
Qed.

Theorem disjoint data o d o' d' :
  valid_name o = true -> valid_name d = true -> valid_name o' = true -> valid_name d' = true ->
  (o, d) <> (o', d') ->
  forall k f k' f', In (k, f) (files data o d) -> In (k', f') (files data o' d') ->
  resolve f <> resolve f' /\
  inside (resolve f) (resolve f') = false /\
  inside (resolve f') (resolve f) = false.
Proof.
  intros Ho Hd Ho' Hd' Hne k f k' f' Hin Hin'.
  assert (Hne' : (o', d') <> (o, d)) by (intros E; apply Hne; symmetry; exact E).
  rewrite (files_resolved data o d k f Ho Hd Hin), (files_resolved data o' d' k' f' Ho' Hd' Hin').
  rewrite !inside_extend. split; [|split].
  - intros E. apply extend_inj in E.
    apply (pair_no_prefix k k' o d o' d' [] Hd Hd' Hne). rewrite app_nil_r. symmetry. exact E.
  - destruct (strict_prefix _ _) eqn:E; [|reflexivity]. exfalso.
    apply strict_prefix_true in E as [r E]. exact (pair_no_prefix k k' o d o' d' r Hd Hd' Hne E).
  - destruct (strict_prefix _ _) eqn:E; [|reflexivity]. exfalso.
    apply strict_prefix_true in E as [r E]. exact (pair_no_prefix k' k o' d' o d r Hd' Hd Hne' E).
Qed.

(* a database file is never a directory the server needs, nor an ancestor of one
   (no hypothesis relating o and o': it also holds for the database's own owner) *)
Theorem no_dir_clash data o d o' :
  valid_name o = true -> valid_name d = true -> valid_name o' = true ->
  forall k f g, In (k, f) (files data o d) -> In g (dirs data o') ->
  resolve f <> resolve g /\ inside (resolve f) (resolve g) = false.
Proof.
  intros Ho Hd Ho' k f g Hin Hg.
  rewrite (files_resolved data o d k f Ho Hd Hin).
  destruct (dirs_resolved data o' g Ho' Hg) as (t & -> & Ht).
  assert (Core : forall r, o' :: t = (o :: rel_path k d) ++ r -> False).
  { intros r E. cbn [app] in E. injection E as _ E. rewrite rel_path_form in E.
    destruct Ht as [->|Ht].
    - destruct (k_sub k); discriminate E.
    - destruct (k_sub k) as [s|] eqn:S; cbn [app] in E.
      + destruct Ht as [->| ->]; discriminate E.
      + destruct (top_not_reserved k d Hd S) as [T1 T2].
        destruct Ht as [->| ->]; injection E as E _; [exact (T1 (eq_sym E))|exact (T2 (eq_sym E))]. }
  rewrite inside_extend. split.
  - intros E. apply extend_inj in E. apply (Core []). rewrite app_nil_r. symmetry. exact E.
  - destruct (strict_prefix _ _) eqn:E; [|reflexivity]. exfalso.
    apply strict_prefix_true in E as [r E]. exact (Core r E).
Qed.

(* ---------- boolean corollaries (the extracted predicates) ---------- *)

Theorem valid_no_escape data o d :
  valid_name o = true -> valid_name d = true -> escapes data o d = false.
Proof.
  intros Ho Hd. unfold escapes.
  destruct (existsb _ _) eqn:E; [|reflexivity].
  apply existsb_exists in E as [[k f] [Hin Hf]]. cbn [snd] in Hf.
  rewrite (contained data o d Ho Hd k f Hin) in Hf. discriminate Hf.
Qed.

Lemma overlap_false a c :
  a <> c -> inside a c = false -> inside c a = false -> overlap a c = false.
Proof.
  intros H1 H2 H3. unfold overlap. rewrite H2, H3, !orb_false_r.
  apply not_true_iff_false. rewrite rpath_eqb_eq. exact H1.
Qed.

Lemma file_blocks_dir_false f g :
  f <> g -> inside f g = false -> file_blocks_dir f g = false.
Proof.
  intros H1 H2. unfold file_blocks_dir. rewrite H2, orb_false_r.
  apply not_true_iff_false. rewrite rpath_eqb_eq. exact H1.
Qed.

Lemma files_dirs_no_block data o d o' :
  valid_name o = true -> valid_name d = true -> valid_name o' = true ->
  existsb (fun f => existsb (file_blocks_dir f) (map resolve (dirs data o')))
    (map (fun kf => resolve (snd kf)) (files data o d)) = false.
Proof.
  intros Ho Hd Ho'.
  destruct (existsb _ _) eqn:E; [|reflexivity]. exfalso.
  apply existsb_exists in E as [rf [Hrf E]].
  apply in_map_iff in Hrf as [[k f] [<- Hin]]. cbn [snd] in E.
  apply existsb_exists in E as [rg [Hrg E]].
  apply in_map_iff in Hrg as [g [<- Hg]].
  destruct (no_dir_clash data o d o' Ho Hd Ho' k f g Hin Hg) as [H1 H2].
  rewrite (file_blocks_dir_false _ _ H1 H2) in E. discriminate E.
Qed.

Theorem valid_no_clash data o d o' d' :
  valid_name o = true -> valid_name d = true -> valid_name o' = true -> valid_name d' = true ->
  (o, d) <> (o', d') -> clashes data o d o' d' = false.
Proof.
  intros Ho Hd Ho' Hd' Hne. unfold clashes.
  rewrite (files_dirs_no_block data o d o' Ho Hd Ho').
  rewrite (files_dirs_no_block data o' d' o Ho' Hd' Ho).
  rewrite !orb_false_r.
  destruct (existsb _ _) eqn:E; [|reflexivity]. exfalso.
  apply existsb_exists in E as [rf [Hrf E]].
  apply in_map_iff in Hrf as [[k f] [<- Hin]]. cbn [snd] in E.
  apply existsb_exists in E as [rf' [Hrf' E]].
  apply in_map_iff in Hrf' as [[k' f'] [<- Hin']]. cbn [snd] in E.
  destruct (disjoint data o d o' d' Ho Hd Ho' Hd' Hne k f k' f' Hin Hin') as (H1 & H2 & H3).
  rewrite (overlap_false _ _ H1 H2 H3) in E. discriminate E.
Qed.

(* ---------- today's validator: refuted, on concrete witnesses ---------- *)

Definition w_data : path := b "agdb_server_data".
Definition w_alice : name := b "alice".
Definition w_bob : name := b "bob".

(* (a) database ".x" IS the file the server treats as the WAL of database "x" *)
Lemma wal_collision_refuted :
  exists data o d d',
    data = b "agdb_server_data" /\ o = b "alice" /\ d = b "x" /\ d' = b ".x" /\
    accepts_today o = true /\ accepts_today d = true /\ accepts_today d' = true /\
    (o, d) <> (o, d') /\
    server_wal data o d = db_file data o d' /\
    wal_filename (db_file data o d) = db_file data o d' /\
    clashes data o d o d' = true.
Proof.
  exists w_data, w_alice, (b "x"), (b ".x").
  repeat split; try reflexivity. intros E. discriminate E.
Qed.

(* (b) databases "audit" and "backups" are the per-owner directories *)
Lemma reserved_dir_refuted :
  exists data o d1 d2 d,
    data = b "agdb_server_data" /\ o = b "alice" /\ d1 = b "audit" /\ d2 = b "backups" /\ d = b "x" /\
    accepts_today o = true /\ accepts_today d1 = true /\ accepts_today d2 = true /\
    db_file data o d1 = db_audit_dir data o /\
    db_file data o d2 = db_backup_dir data o /\
    inside (resolve (db_file data o d1)) (resolve (db_audit_file data o d)) = true /\
    inside (resolve (db_file data o d2)) (resolve (db_backup_file data o d)) = true /\
    clashes data o d1 o d = true /\ clashes data o d2 o d = true.
Proof.
  exists w_data, w_alice, (b "audit"), (b "backups"), (b "x").
  repeat split; reflexivity.
Qed.

(* (c) alice's database "../bob/x" is bob's database "x" *)
Lemma other_owner_refuted :
  exists data o d o' d',
    data = b "agdb_server_data" /\ o = b "alice" /\ d = b "../bob/x" /\ o' = b "bob" /\ d' = b "x" /\
    accepts_today o = true /\ accepts_today d = true /\
    (o, d) <> (o', d') /\
    resolve (db_file data o d) = resolve (db_file data o' d') /\
    inside (resolve (join data o)) (resolve (db_file data o d)) = false /\
    escapes data o d = true /\ clashes data o d o' d' = true.
Proof.
  exists w_data, w_alice, (b "../bob/x"), w_bob, (b "x").
  repeat split; try reflexivity. intros E. discriminate E.
Qed.

(* (d) "a/../b" is database "b" *)
Lemma dotdot_alias_refuted :
  exists data o d d',
    data = b "agdb_server_data" /\ o = b "alice" /\ d = b "a/../b" /\ d' = b "b" /\
    accepts_today o = true /\ accepts_today d = true /\
    (o, d) <> (o, d') /\
    resolve (db_file data o d) = resolve (db_file data o d') /\
    clashes data o d o d' = true.
Proof.
  exists w_data, w_alice, (b "a/../b"), (b "b").
  repeat split; try reflexivity. intros E. discriminate E.
Qed.

(* (e) an absolute name replaces the whole path *)
Lemma absolute_refuted :
  exists data o d,
    data = b "agdb_server_data" /\ o = b "alice" /\ d = b "/tmp/x" /\
    accepts_today o = true /\ accepts_today d = true /\
    db_file data o d = b "/tmp/x" /\
    inside (resolve (join data o)) (resolve (db_file data o d)) = false /\
    escapes data o d = true.
Proof.
  exists w_data, w_alice, (b "/tmp/x"). repeat split; reflexivity.
Qed.

(* (f) "../../x" leaves the data directory; one more ".." climbs above the working directory *)
Lemma escape_data_dir_refuted :
  exists data o d d2,
    data = b "agdb_server_data" /\ o = b "alice" /\ d = b "../../x" /\ d2 = b "../../../x" /\
    accepts_today o = true /\ accepts_today d = true /\ accepts_today d2 = true /\
    resolve (db_file data o d) = {| r_abs := false; r_ups := 0; r_comps := [b "x"] |} /\
    inside (resolve data) (resolve (db_file data o d)) = false /\
    resolve (db_file data o d2) = {| r_abs := false; r_ups := 1; r_comps := [b "x"] |} /\
    escapes data o d = true /\ escapes data o d2 = true.
Proof.
  exists w_data, w_alice, (b "../../x"), (b "../../../x"). repeat split; reflexivity.
Qed.

(* (g) the rollback temporary of "y.bak" is the backup of "y" *)
Lemma rollback_tmp_refuted :
  exists data o d d',
    data = b "agdb_server_data" /\ o = b "alice" /\ d = b "y.bak" /\ d' = b "y" /\
    accepts_today o = true /\ accepts_today d = true /\
    (o, d) <> (o, d') /\
    rollback_tmp data o d = db_backup_file data o d' /\
    clashes data o d o d' = true.
Proof.
  exists w_data, w_alice, (b "y.bak"), (b "y").
  repeat split; try reflexivity. intros E. discriminate E.
Qed.

(* (h) with a '/' in the name the server removes another file than the WAL agdb created *)
Lemma wal_mismatch_refuted :
  exists data o d,
    data = b "agdb_server_data" /\ o = b "alice" /\ d = b "a/b" /\
    accepts_today o = true /\ accepts_today d = true /\
    wal_filename (db_file data o d) = b "agdb_server_data/alice/a/.b" /\
    server_wal data o d = b "agdb_server_data/alice/.a/b" /\
    wal_filename (db_file data o d) <> server_wal data o d /\
    resolve (wal_filename (db_file data o d)) <> resolve (server_wal data o d).
Proof.
  exists w_data, w_alice, (b "a/b").
  repeat split; try reflexivity; intros E; discriminate E.
Qed.

Theorem today_refuted :
  ~ (forall data o d, accepts_today o = true -> accepts_today d = true -> escapes data o d = false).
Proof.
  intros H. specialize (H w_data w_alice (b "../bob/x") eq_refl eq_refl).
  vm_compute in H. discriminate H.
Qed.

Theorem today_clash_refuted :
  ~ (forall data o d o' d',
        accepts_today o = true -> accepts_today d = true ->
        accepts_today o' = true -> accepts_today d' = true ->
        (o, d) <> (o', d') -> clashes data o d o' d' = false).
Proof.
  intros H.
  assert (Hne : (w_alice, b "x") <> (w_alice, b ".x")) by (intros E; discriminate E).
  specialize (H w_data w_alice (b "x") w_alice (b ".x") eq_refl eq_refl eq_refl eq_refl Hne).
  vm_compute in H. discriminate H.
Qed.

(* every witness above is rejected by valid_name, with the expected rule *)
Lemma witnesses_rejected :
  map name_defect_of
    [b ".x"; b "audit"; b "backups"; b "../bob/x"; b "a/../b"; b "/tmp/x"; b "../../x";
     b "y.bak"; b "a/b"; b ""; b ".."; b "a\b"; b "x.log"; b "x.audit"]
  = [Some NLeadingDot; Some NReserved; Some NReserved; Some NSeparator; Some NSeparator;
     Some NSeparator; Some NSeparator; Some NReservedSuffix; Some NSeparator; Some NEmpty;
     Some NDotName; Some NSeparator; Some NReservedSuffix; Some NReservedSuffix].
Proof. vm_compute. reflexivity. Qed.

(* ---------- non-vacuity ---------- *)

Lemma example_files :
  let data := b "agdb_server_data" in
  let o := b "alice" in
  let d := b "db1" in
  let at_ l := {| r_abs := false; r_ups := 0; r_comps := b "agdb_server_data" :: b "alice" :: l |} in
  valid_name o = true /\ valid_name d = true /\
  map (fun kf => (fst kf, resolve (snd kf))) (files data o d) =
    [ (FDb, at_ [b "db1"]);
      (FWal, at_ [b ".db1"]);
      (FWalServer, at_ [b ".db1"]);
      (FBackup, at_ [b "backups"; b "db1.bak"]);
      (FBackupAudit, at_ [b "backups"; b "db1.log"]);
      (FAudit, at_ [b "audit"; b "db1.log"]);
      (FTmpDb, at_ [b "backups"; b "db1"]);
      (FTmpAudit, at_ [b "backups"; b "db1.audit"]) ] /\
  map resolve (dirs data o) = [at_ []; at_ [b "audit"]; at_ [b "backups"]] /\
  escapes data o d = false.
Proof. vm_compute. repeat split; reflexivity. Qed.

Lemma example_noclash :
  let data := b "agdb_server_data" in
  valid_name (b "alice") = true /\ valid_name (b "bob") = true /\
  valid_name (b "db1") = true /\ valid_name (b "db2") = true /\
  (b "alice", b "db1") <> (b "alice", b "db2") /\
  (b "alice", b "db1") <> (b "bob", b "db1") /\
  clashes data (b "alice") (b "db1") (b "alice") (b "db2") = false /\
  clashes data (b "alice") (b "db1") (b "bob") (b "db1") = false /\
  clashes data (b "alice") (b "db1") (b "alice") (b "db1") = true.
Proof.
  cbv zeta. repeat split; try (vm_compute; reflexivity); intros E; discriminate E.
Qed.
