(* OpenMapRefineOps.v — the probe loops of insert / insert_or_replace / remove_key / remove_value on a table
   satisfying the probe-chain invariant: each completes within `capacity` iterations (wrap guard of fix fc221a8)
   and finds / misses exactly what is stored: a loop that reports "not found" after meeting an Empty slot or
   after a full cycle has seen EVERY slot that could hold the key. *)
From Coq Require Import List NArith ZArith Arith Bool Lia ZifyBool ZifyNat ZifyN Permutation.
Import ListNotations.
From Agdb Require Import OpenMap OpenMapProofs OpenMapSpec OpenMapRefineBase.
Ltac Zify.zify_post_hook ::= Z.div_mod_to_equations.

Section Ops.
  Variables K V : Type.
  Variable keqb : K -> K -> bool.
  Variable veqb : V -> V -> bool.
  Variable h : K -> N.
  Variable rv : om_revision.

  Notation slotT := (slot K V).
  Notation isv := (is_valid K V).
  Notation E := (@Empty K V).
  Notation D := (@Deleted K V).
  Notation ents := (entries K V).
  Notation hp := (hpos K h).
  Notation chainh := (chain K V h).
  Notation mk := (matches_k K V keqb).

  Lemma isv_not_empty : forall s : slotT, isv s = true -> s <> E.
  Proof. intros [| |k v] Hs; cbn in Hs; congruence. Qed.

  (* ---------------- free_index (insert) ---------------- *)

  Lemma free_index_first : forall sl c s, s < c ->
    forall fuel pos p, pos < c -> fuel <= rem c s pos ->
      (forall j, j < c -> dist c s j < dist c s pos -> isv (nth j sl E) = true) ->
      free_index_loop K V fuel sl c pos = Done p ->
      p < c /\ isv (nth p sl E) = false /\
      (forall j, j < c -> dist c s j < dist c s p -> isv (nth j sl E) = true).
  Proof.
    intros sl c s Hs. induction fuel as [|f IH]; intros pos p Hpos Hfuel Hvis Hr;
      cbn [free_index_loop] in Hr; [discriminate|].
    destruct (nth pos sl E) as [| |k v] eqn:Hsl.
    - inversion Hr; subst p. rewrite Hsl. auto.
    - inversion Hr; subst p. rewrite Hsl. auto.
    - destruct (Nat.eq_dec (next_pos c pos) s) as [Heq|Hne].
      { pose proof (rem_wrap c s pos Hs Hpos Heq). destruct f; [cbn [free_index_loop] in Hr; discriminate|lia]. }
      pose proof (rem_next c s pos Hpos Hs Hne) as Hrem.
      apply (IH (next_pos c pos) p); auto; [apply next_pos_lt; exact Hpos|lia|].
      intros j Hj Hd. destruct (visited_step c s pos j Hs Hpos Hj Hne Hd) as [Hlt| ->]; auto.
      rewrite Hsl. reflexivity.
  Qed.

  Hypothesis keqb_eq : forall a b, keqb a b = true <-> a = b.
  Hypothesis veqb_eq : forall a b, veqb a b = true <-> a = b.

  (* ---------------- insert_or_replace ---------------- *)

  (* the slot holds the key with a value the predicate accepts *)
  Definition rep (k : K) (pred : V -> bool) (s : slotT) : bool :=
    match s with Valid k' v' => keqb k' k && pred v' | _ => false end.

  Definition ior_post (sl : list slotT) (c : nat) (k : K) (pred : V -> bool) (nv : V) (r : ior_result K V) : Prop :=
    match ior_ret K V r with
    | Some w =>
        exists p, p < c /\ nth p sl E = Valid k w /\ pred w = true /\
                  ior_slots K V r = upd p (Valid k nv) sl /\ ior_free K V r = None /\ ior_full_cycle K V r = false
    | None =>
        ior_slots K V r = sl /\
        (forall j, j < c -> rep k pred (nth j sl E) = false) /\
        match ior_free K V r with
        | Some p => p < c /\ isv (nth p sl E) = false /\
                    (forall j, j < c -> dist c (hp k c) j < dist c (hp k c) p -> nth j sl E <> E)
        | None => forall j, j < c -> isv (nth j sl E) = true
        end
    end.

  Section Guarded.
    Hypothesis Hguard : fix_insert_wrap_guard rv = true.

    Lemma ior_loop_spec : forall c sl k pred nv, 0 < c -> chainh c sl ->
      forall fuel pos free, pos < c -> rem c (hp k c) pos <= fuel ->
        (forall j, j < c -> dist c (hp k c) j < dist c (hp k c) pos ->
                   nth j sl E <> E /\ rep k pred (nth j sl E) = false) ->
        match free with
        | None => forall j, j < c -> dist c (hp k c) j < dist c (hp k c) pos -> isv (nth j sl E) = true
        | Some p => p < c /\ nth p sl E = D /\ dist c (hp k c) p < dist c (hp k c) pos
        end ->
        exists r, ior_loop K V keqb rv fuel sl c (hp k c) k pred nv pos free = Done r /\ ior_post sl c k pred nv r.
    Proof.
      intros c sl k pred nv Hc Hch. pose proof (hpos_lt K keqb h k c Hc) as Hs. set (s := hp k c) in *.
      induction fuel as [|f IH]; intros pos free Hpos Hrem Hvis Hfree.
      { pose proof (rem_pos c s pos Hs Hpos). lia. }
      cbn [ior_loop]. rewrite Hguard. cbn [andb].
      assert (Hcont : forall free',
        nth pos sl E <> E -> rep k pred (nth pos sl E) = false ->
        match free' with
        | None => forall j, j < c -> dist c s j < dist c s pos \/ j = pos -> isv (nth j sl E) = true
        | Some p => p < c /\ nth p sl E = D /\ (dist c s p < dist c s pos \/ p = pos)
        end ->
        exists r, (if next_pos c pos =? s
                   then Done {| ior_free := free'; ior_ret := None; ior_slots := sl; ior_full_cycle := true |}
                   else ior_loop K V keqb rv f sl c s k pred nv (next_pos c pos) free') = Done r /\
                  ior_post sl c k pred nv r).
      { intros free' Hne Hnr Hfree'. destruct (Nat.eqb_spec (next_pos c pos) s) as [Heq|Hneq].
        - eexists. split; [reflexivity|]. unfold ior_post. cbn [ior_ret ior_slots ior_free].
          split; [reflexivity|]. split.
          + intros j Hj. destruct (visited_wrap c s pos j Hs Hpos Hj Heq) as [Hlt| ->]; [apply Hvis; assumption|exact Hnr].
          + destruct free' as [p|].
            * destruct Hfree' as [Hp [Hd _]]. split; [exact Hp|]. split; [rewrite Hd; reflexivity|].
              intros j Hj _. destruct (visited_wrap c s pos j Hs Hpos Hj Heq) as [Hlt| ->]; [apply Hvis; assumption|exact Hne].
            * intros j Hj. apply Hfree'; [exact Hj|]. exact (visited_wrap c s pos j Hs Hpos Hj Heq).
        - apply IH.
          + apply next_pos_lt; exact Hpos.
          + pose proof (rem_next c s pos Hpos Hs Hneq). lia.
          + intros j Hj Hd. destruct (visited_step c s pos j Hs Hpos Hj Hneq Hd) as [Hlt| ->]; [apply Hvis; assumption|auto].
          + destruct free' as [p|].
            * destruct Hfree' as [Hp [Hd Hor]]. split; [exact Hp|]. split; [exact Hd|].
              rewrite (dist_step c s pos Hs Hpos Hneq). destruct Hor as [Hlt| ->]; lia.
            * intros j Hj Hd. apply Hfree'; [exact Hj|]. exact (visited_step c s pos j Hs Hpos Hj Hneq Hd). }
      destruct (nth pos sl E) as [| |k' v'] eqn:Hsl.
      - (* Empty: insert here *)
        eexists. split; [reflexivity|]. unfold ior_post. cbn [ior_ret ior_slots ior_free].
        split; [reflexivity|]. split.
        + intros j Hj. destruct (rep k pred (nth j sl E)) eqn:Hrep; [|reflexivity]. exfalso.
          destruct (nth j sl E) as [| |k2 v2] eqn:Hj2; cbn [rep] in Hrep; try discriminate.
          pose proof Hrep as Hrep'. apply andb_true_iff in Hrep'. destruct Hrep' as [Hk _].
          apply keqb_eq in Hk. subst k2.
          pose proof (chain_empty_visited K V keqb h c sl pos j k v2 Hch Hc Hpos Hsl Hj Hj2) as Hd.
          destruct (Hvis j Hj Hd) as [_ Hr2]. rewrite Hj2 in Hr2. cbn [rep] in Hr2. congruence.
        + split; [exact Hpos|]. split; [rewrite Hsl; reflexivity|]. intros j Hj Hd. apply Hvis; assumption.
      - (* Deleted *)
        apply Hcont; [discriminate|reflexivity|].
        destruct free as [p|].
        + destruct Hfree as [Hp [Hd Hlt]]. auto.
        + split; [exact Hpos|]. split; [exact Hsl|]. right. reflexivity.
      - (* Valid *)
        destruct (keqb k' k && pred v') eqn:Hrep.
        + apply andb_true_iff in Hrep. destruct Hrep as [Hk Hp]. apply keqb_eq in Hk. subst k'.
          eexists. split; [reflexivity|]. unfold ior_post. cbn [ior_ret ior_slots ior_free ior_full_cycle].
          exists pos. repeat split; auto.
        + apply Hcont; [discriminate|exact Hrep|].
          destruct free as [p|].
          * destruct Hfree as [Hp [Hd Hlt]]. auto.
          * intros j Hj [Hlt| ->]; [apply Hfree; assumption|rewrite Hsl; reflexivity].
    Qed.
  End Guarded.

  (* ---------------- remove_key ---------------- *)

  (* every slot of key k turned into a tombstone *)
  Definition del_key (k : K) (sl : list slotT) : list slotT := map (fun s => if mk k s then D else s) sl.

  Lemma del_key_length : forall k sl, length (del_key k sl) = length sl.
  Proof. intros. apply map_length. Qed.

  Lemma nth_del_key : forall k sl i, nth i (del_key k sl) E = if mk k (nth i sl E) then D else nth i sl E.
  Proof.
    intros k sl i. unfold del_key.
    change E with ((fun s : slotT => if mk k s then D else s) E) at 1. apply map_nth.
  Qed.

  Lemma del_key_upd : forall k sl pos, mk k (nth pos sl E) = true -> del_key k (upd pos D sl) = del_key k sl.
  Proof.
    intros k sl pos Hm. apply (nth_ext _ _ E E).
    - rewrite !del_key_length, upd_length. reflexivity.
    - intros i _. rewrite !nth_del_key, nth_upd.
      destruct (Nat.eqb_spec pos i) as [->|Hne]; cbn [andb]; [|reflexivity].
      destruct (i <? length sl); [|reflexivity]. rewrite Hm. reflexivity.
  Qed.

  Lemma del_key_id : forall k sl, (forall j, j < length sl -> mk k (nth j sl E) = false) -> del_key k sl = sl.
  Proof.
    intros k sl Hno. apply (nth_ext _ _ E E); [apply del_key_length|].
    intros i Hi. rewrite del_key_length in Hi. rewrite nth_del_key, Hno by exact Hi. reflexivity.
  Qed.

  Lemma chain_del_key : forall c k sl, chainh c sl -> chainh c (del_key k sl).
  Proof.
    intros c k sl Hch i k' v' Hi Hv j Hj Hd. rewrite nth_del_key in *.
    destruct (mk k (nth i sl E)); [discriminate|].
    destruct (mk k (nth j sl E)); [discriminate|].
    exact (Hch i k' v' Hi Hv j Hj Hd).
  Qed.

  Lemma entries_del_key : forall k sl, ents (del_key k sl) = mm_remove_key K V keqb k (ents sl).
  Proof.
    intros k. induction sl as [|s t IH]; [reflexivity|].
    cbn [del_key map]. fold (del_key k t). rewrite !entries_cons. unfold mm_remove_key in *.
    rewrite filter_app, <- IH. f_equal.
    destruct s as [| |k' v']; cbn; try reflexivity. destruct (keqb k' k); reflexivity.
  Qed.

  Lemma remove_key_loop_spec : forall c k, 0 < c ->
    forall fuel sl pos n, length sl = c -> chainh c sl -> pos < c -> rem c (hp k c) pos <= fuel ->
      (forall j, j < c -> dist c (hp k c) j < dist c (hp k c) pos -> mk k (nth j sl E) = false) ->
      exists n' full, remove_key_loop K V keqb fuel sl c (hp k c) k pos n = Done (del_key k sl, n', full).
  Proof.
    intros c k Hc. pose proof (hpos_lt K keqb h k c Hc) as Hs. set (s := hp k c) in *.
    induction fuel as [|f IH]; intros sl pos n Hlen Hch Hpos Hrem Hvis.
    { pose proof (rem_pos c s pos Hs Hpos). lia. }
    cbn [remove_key_loop].
    assert (Hcont : forall sl1 n1, length sl1 = c -> chainh c sl1 -> del_key k sl1 = del_key k sl ->
      (forall j, j < c -> dist c s j < dist c s pos \/ j = pos -> mk k (nth j sl1 E) = false) ->
      exists n' full,
        (if next_pos c pos =? s then Done (sl1, n1, true)
         else remove_key_loop K V keqb f sl1 c s k (next_pos c pos) n1) = Done (del_key k sl, n', full)).
    { intros sl1 n1 Hl1 Hch1 Hdk Hvis1. destruct (Nat.eqb_spec (next_pos c pos) s) as [Heq|Hne].
      - exists n1, true. rewrite <- Hdk. rewrite del_key_id; [reflexivity|].
        intros j Hj. rewrite Hl1 in Hj. apply Hvis1; [exact Hj|]. exact (visited_wrap c s pos j Hs Hpos Hj Heq).
      - rewrite <- Hdk. apply IH; auto.
        + apply next_pos_lt; exact Hpos.
        + pose proof (rem_next c s pos Hpos Hs Hne). lia.
        + intros j Hj Hd. apply Hvis1; [exact Hj|]. exact (visited_step c s pos j Hs Hpos Hj Hne Hd). }
    destruct (nth pos sl E) as [| |k' v'] eqn:Hsl.
    - exists n, false. rewrite del_key_id; [reflexivity|]. intros j Hj. rewrite Hlen in Hj.
      destruct (mk k (nth j sl E)) eqn:Hm; [|reflexivity]. exfalso.
      destruct (matches_valid K V keqb keqb_eq k _ Hm) as [v Hv].
      pose proof (chain_empty_visited K V keqb h c sl pos j k v Hch Hc Hpos Hsl Hj Hv) as Hd.
      rewrite (Hvis j Hj Hd) in Hm. discriminate.
    - apply Hcont; auto. intros j Hj [Hlt| ->]; [apply Hvis; assumption|rewrite Hsl; reflexivity].
    - destruct (keqb k' k) eqn:Hk.
      + apply Hcont.
        * rewrite upd_length; exact Hlen.
        * apply chain_upd_deleted; exact Hch.
        * apply del_key_upd. rewrite Hsl. exact Hk.
        * intros j Hj [Hlt| ->].
          -- rewrite nth_upd. destruct ((pos =? j) && (pos <? length sl)); [reflexivity|apply Hvis; assumption].
          -- rewrite nth_upd_same by lia. reflexivity.
      + apply Hcont; auto. intros j Hj [Hlt| ->]; [apply Hvis; assumption|rewrite Hsl; exact Hk].
  Qed.

  (* ---------------- remove_value ---------------- *)

  Definition mkv (k : K) (v : V) (s : slotT) : bool :=
    match s with Valid k' v' => keqb k' k && veqb v' v | _ => false end.

  Lemma remove_value_loop_spec : forall c sl k v, 0 < c -> chainh c sl ->
    forall fuel pos, pos < c -> rem c (hp k c) pos <= fuel ->
      (forall j, j < c -> dist c (hp k c) j < dist c (hp k c) pos -> mkv k v (nth j sl E) = false) ->
      exists r, remove_value_loop K V keqb veqb fuel sl c (hp k c) k v pos = Done r /\
                match fst r with
                | Some p => p < c /\ nth p sl E = Valid k v
                | None => forall j, j < c -> mkv k v (nth j sl E) = false
                end.
  Proof.
    intros c sl k v Hc Hch. pose proof (hpos_lt K keqb h k c Hc) as Hs. set (s := hp k c) in *.
    induction fuel as [|f IH]; intros pos Hpos Hrem Hvis.
    { pose proof (rem_pos c s pos Hs Hpos). lia. }
    cbn [remove_value_loop].
    assert (Hcont : mkv k v (nth pos sl E) = false ->
      exists r, (if next_pos c pos =? s then Done (None, true)
                 else remove_value_loop K V keqb veqb f sl c s k v (next_pos c pos)) = Done r /\
                match fst r with
                | Some p => p < c /\ nth p sl E = Valid k v
                | None => forall j, j < c -> mkv k v (nth j sl E) = false
                end).
    { intros Hnm. destruct (Nat.eqb_spec (next_pos c pos) s) as [Heq|Hne].
      - eexists. split; [reflexivity|]. cbn [fst]. intros j Hj.
        destruct (visited_wrap c s pos j Hs Hpos Hj Heq) as [Hlt| ->]; [apply Hvis; assumption|exact Hnm].
      - apply IH.
        + apply next_pos_lt; exact Hpos.
        + pose proof (rem_next c s pos Hpos Hs Hne). lia.
        + intros j Hj Hd. destruct (visited_step c s pos j Hs Hpos Hj Hne Hd) as [Hlt| ->]; [apply Hvis; assumption|exact Hnm]. }
    destruct (nth pos sl E) as [| |k' v'] eqn:Hsl.
    - eexists. split; [reflexivity|]. cbn [fst]. intros j Hj.
      destruct (mkv k v (nth j sl E)) eqn:Hm; [|reflexivity]. exfalso.
      destruct (nth j sl E) as [| |k2 v2] eqn:Hj2; cbn [mkv] in Hm; try discriminate.
      pose proof Hm as Hm'. apply andb_true_iff in Hm'. destruct Hm' as [Hk _]. apply keqb_eq in Hk. subst k2.
      pose proof (chain_empty_visited K V keqb h c sl pos j k v2 Hch Hc Hpos Hsl Hj Hj2) as Hd.
      pose proof (Hvis j Hj Hd) as Hf. rewrite Hj2 in Hf. cbn [mkv] in Hf. congruence.
    - apply Hcont. reflexivity.
    - destruct (keqb k' k && veqb v' v) eqn:Hm.
      + eexists. split; [reflexivity|]. cbn [fst]. split; [exact Hpos|].
        apply andb_true_iff in Hm. destruct Hm as [Hk Hv]. apply keqb_eq in Hk. apply veqb_eq in Hv. subst k' v'. exact Hsl.
      + apply Hcont. exact Hm.
  Qed.

End Ops.
