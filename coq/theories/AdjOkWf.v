(* AdjOkWf.v — discharges the hypothesis `adj_ok` of the search proofs (C14, C17) from the
   well-formedness invariant `wf` of the slot graph (GraphSim.v / GraphWf.v, proved for every
   history of graph operations starting from graph_new: GraphSpec.grun_wf). *)
From Agdb Require Import Bytes DbValue Graph GraphArr GraphSim GraphSim2 GraphSim3 GraphOps GraphOps2 GraphProofs
  GraphRemove GraphSpec GraphWf.
From Agdb Require Import DbModel Search Revisions AdjOk TraverseSpec TraverseProofs PathProofs.
From Coq Require Import ZifyBool ZifyNat ZifyN.
Ltac Zify.zify_post_hook ::= Z.div_mod_to_equations.
Open Scope Z_scope.

(* a chain shorter than its fuel has reached 0 *)
Lemma short_chain_ends : forall next f a, (length (edge_list next f a) < f)%nat -> chain_ends next f a = true.
Proof.
  induction f as [|f IH]; intros a H; [lia|]. cbn [edge_list chain_ends] in *.
  destruct (a =? 0); [reflexivity|]. cbn [length] in H. apply IH. lia.
Qed.

Lemma edge_id_iff : forall g e, edge_id g e = true <-> e < 0 /\ is_edge g e = true.
Proof.
  intros g e. unfold edge_id. rewrite andb_true_iff. split; intros [H1 H2]; split; try assumption; lia.
Qed.

Lemma node_id_iff : forall g n, node_id g n = true <-> 0 < n /\ is_node g n = true.
Proof.
  intros g n. unfold node_id. rewrite andb_true_iff. split; intros [H1 H2]; split; try assumption; lia.
Qed.

Theorem wf_adj_ok : forall g, wf g -> adj_ok g.
Proof.
  intros g Hwf.
  assert (Hout : forall n, node_id g n = true ->
            NoDup (out_edges g n) /\ (forall e, In e (out_edges g n) <-> edge_id g e = true /\ edge_from g e = n)).
  { intros n Hn. apply node_id_iff in Hn. destruct Hn as [Hp Hn].
    destruct (wf_out_edges g n Hwf Hp Hn) as (H1 & H2 & _). split; [exact H1|].
    intros e. rewrite H2, edge_id_iff. tauto. }
  assert (Hin : forall n, node_id g n = true ->
            NoDup (in_edges g n) /\ (forall e, In e (in_edges g n) <-> edge_id g e = true /\ edge_to g e = n)).
  { intros n Hn. apply node_id_iff in Hn. destruct Hn as [Hp Hn].
    destruct (wf_in_edges g n Hwf Hp Hn) as (H1 & H2 & _). split; [exact H1|].
    intros e. rewrite H2, edge_id_iff. tauto. }
  assert (Hlen : forall l, NoDup l -> (forall e, In e l -> edge_id g e = true) -> (length l < length (g_from g))%nat).
  { intros l Hnd Hl.
    pose proof (elems_length_bound g l Hnd) as H.
    assert (Hcap : 1 <= capacity g) by (apply wf_capacity_pos; exact Hwf). unfold capacity in Hcap.
    assert (He : forall x, In x l -> elem_id g x = true).
    { intros x Hx. unfold elem_id. rewrite (Hl x Hx). apply orb_true_r. }
    specialize (H He). lia. }
  constructor.
  - intros n Hn. destruct (Hout n Hn) as [H1 H2]. apply short_chain_ends. apply (Hlen _ H1).
    intros e He. apply H2 in He. tauto.
  - intros n Hn. destruct (Hin n Hn) as [H1 H2]. apply short_chain_ends. apply (Hlen _ H1).
    intros e He. apply H2 in He. tauto.
  - intros n Hn. apply Hout. exact Hn.
  - intros n Hn. apply Hin. exact Hn.
  - intros n e Hn. apply Hout. exact Hn.
  - intros n e Hn. apply Hin. exact Hn.
  - intros e He. apply edge_id_iff in He. destruct He as [_ He].
    destruct (wf_edge_ends g e Hwf He) as (H1 & H2 & _). apply node_id_iff. split; assumption.
  - intros e He. apply edge_id_iff in He. destruct He as [_ He].
    destruct (wf_edge_ends g e Hwf He) as (_ & _ & H3 & H4). apply node_id_iff. split; assumption.
Qed.

(* every graph reached from the empty graph by insert_node / insert_edge / remove_node /
   remove_edge (arguments as DbImpl passes them: gop_ok) satisfies adj_ok *)
Corollary grun_adj_ok : forall ops g a,
  Forall gop_ok ops -> grun graph_new a_empty ops = Some (g, a) -> adj_ok g.
Proof. intros ops g a H E. apply wf_adj_ok. apply (grun_wf ops g a H E). Qed.

(* the traversal theorem with the invariant instead of the hypothesis *)
Corollary traversal_exact_wf : forall d a reverse origin,
  wf (gr d) -> graph_index (gr d) origin = true ->
  exists r, graph_search rv_fixed d a reverse origin [] HDefault = Some (origin :: r) /\
            NoDup (origin :: r) /\
            (forall x, In x (origin :: r) <-> reach (gr d) reverse origin x).
Proof. intros d a rv o Hwf. apply traversal_exact. apply wf_adj_ok. exact Hwf. Qed.

(* the path-search theorem with the invariant instead of the hypothesis *)
Corollary path_search_total_wf : forall rv d conds o dst,
  wf (gr d) -> dist_free conds = true ->
  node_id (gr d) o = true -> node_id (gr d) dst = true -> o <> dst ->
  exists r, path_search rv d conds o dst = Some r /\
    ((r = [] /\ forall q, is_path (gr d) o dst q -> ~ usable_path rv d conds q) \/
     (exists p, is_path (gr d) o dst p /\ usable_path rv d conds p /\
                r = filter (esel rv d conds) p /\
                forall q, is_path (gr d) o dst q -> usable_path rv d conds q ->
                          cost rv d conds p <= cost rv d conds q)).
Proof. intros rv d conds o dst Hwf. apply path_search_total. apply wf_adj_ok. exact Hwf. Qed.
