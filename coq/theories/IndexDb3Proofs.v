(* IndexDb3Proofs.v — C11, part 4: insert_index (back-fill, duplicate error), and what the
   invariant means for index searches and for the index listing. *)
From Agdb Require Import Bytes DbValue Graph DbModel Search Queries DbValueEqProofs DbFrameProofs
  KvProofs KvDbProofs KvSelectProofs IndexProofs IndexDbProofs IndexDb2Proofs QStepProofs.
From Coq Require Import ZifyBool ZifyNat ZifyN.
Open Scope Z_scope.

(* the database-state invariants of C11, for the live set given by the graph *)
Definition live (d : db) : Z -> bool := graph_index (gr d).
Definition idx_exact (d : db) : Prop := idx_exact_on (live d) d.
Definition vals_live (d : db) : Prop := vals_live_on (live d) d.
Definition idx_distinct (d : db) : Prop := idx_keys_distinct (indexes d).

Lemma live_ok d : E_ok (live d).
Proof.
  intros i. unfold live, graph_index. intros H.
  destruct (Z.ltb_spec i 0).
  - destruct (Z.ltb_spec (- i) 0); [lia|]. destruct (Z.ltb_spec 0 (- i)); [|reflexivity].
    rewrite is_node_neg. destruct (is_node (gr d) i) eqn:En; [|reflexivity].
    apply node_not_edge in En. congruence.
  - destruct (Z.ltb_spec 0 i); [|discriminate].
    destruct (Z.ltb_spec (- i) 0); [|lia].
    assert (Hneg : is_edge (gr d) (- i) = is_edge (gr d) i).
    { unfold is_edge, valid_index, fmeta, from, get, zabs_nat, capacity.
      rewrite Z.abs_opp. replace (- i =? 0) with (i =? 0) by lia. reflexivity. }
    rewrite Hneg. now apply node_not_edge.
Qed.

Lemma idx_exact_new : idx_exact db_new.
Proof. intros key ids Hf. discriminate. Qed.

Lemma vals_live_new : vals_live db_new.
Proof. intros i _ _. unfold kvs_get. cbn. now destruct (zabs_nat i). Qed.

Lemma idx_distinct_new : idx_distinct db_new.
Proof. exact I. Qed.

(* ---------- insert_index ---------- *)
Lemma insert_index_fold_eq d2 key slots :
  fold_left (fun acc i =>
               let iz := Z.of_nat i in
               let id := if is_node (gr acc) iz then iz else - iz in
               fold_left (fun a (x : kv) =>
                 if dbv_eqb (fst x) key then index_insert_if a key (snd x) id else a)
                 (kvs_get (vals acc) iz) acc) slots d2 =
  fold_left (bf_outer key) slots d2.
Proof. reflexivity. Qed.

Lemma append_pairs_keys key ps : forall ix0 : list index, map fst (append_pairs key ix0 ps) = map fst ix0.
Proof.
  induction ps as [|p ps IH]; intros ix0; [reflexivity|]. cbn [append_pairs fold_left].
  fold (append_pairs key (idx_insert_id ix0 key (fst p) (snd p)) ps). rewrite IH.
  unfold idx_insert_id. apply idx_update_keys.
Qed.

Definition backfill_pairs (d : db) (key : dbvalue) : list (dbvalue * Z) :=
  flat_map (slot_pairs d key) (seq 1 (length (vals d) - 1)).

(* creating an index: an existing one is an error without effect; a new one is filled with the
   entries of all data inserted before, and no other index changes *)
Lemma insert_index_spec d key :
  match insert_index d key with
  | RErr e => e = ENotAllowed /\ idx_find (indexes d) key <> None
  | ROk (n, d') =>
      idx_find (indexes d) key = None /\
      gr d' = gr d /\ vals d' = vals d /\ aliases d' = aliases d /\
      (forall key', idx_find (indexes d') key' =
                    match idx_find (indexes d) key' with
                    | Some ids => Some ids
                    | None => if dbv_eqb key key' then Some (backfill_pairs d key) else None
                    end) /\
      map fst (indexes d') = map fst (indexes d) ++ [key] /\
      n = Z.of_nat (length (backfill_pairs d key))
  end.
Proof.
  unfold insert_index. destruct (idx_find (indexes d) key) as [ids|] eqn:F; [split; congruence|].
  cbv zeta. rewrite insert_index_fold_eq.
  set (d2 := with_indexes (push_undo d (CRemoveIndex key)) _).
  pose proof (bf_outer_fold d key (seq 1 (length (vals d2) - 1)) d2 eq_refl eq_refl) as H.
  cbv zeta in H. destruct H as (A & B & C & D & Fx).
  set (d3 := fold_left (bf_outer key) _ d2) in *.
  assert (Hfind : forall key', idx_find (indexes d3) key' =
                    match idx_find (indexes d) key' with
                    | Some ids => Some ids
                    | None => if dbv_eqb key key' then Some (backfill_pairs d key) else None
                    end).
  { intros key'. rewrite Fx, idx_find_append_pairs. subst d2.
    cbn [indexes with_indexes push_undo vals]. rewrite idx_find_snoc.
    destruct (idx_find (indexes d) key') as [ids|] eqn:F'.
    - destruct (dbv_eqb key key') eqn:E; [|reflexivity].
      exfalso. apply idx_find_none_mem in F. rewrite (mem_congr _ key key' E) in F.
      apply idx_find_none_mem in F. congruence.
    - destruct (dbv_eqb key key'); reflexivity. }
  split; [reflexivity|]. split; [exact A|]. split; [exact B|]. split; [exact C|]. split; [exact Hfind|]. split.
  - rewrite Fx, append_pairs_keys. subst d2. cbn [indexes with_indexes push_undo]. rewrite map_app. reflexivity.
  - rewrite Hfind, F, dbv_eqb_refl. reflexivity.
Qed.
