(* KvProofs.v — C09: the per-element key-value lists (DbKeyValues) behave as ordered maps.
   Part 1: the store as an array of lists, insert_or_replace / remove_value / remove on one list. *)
From Agdb Require Import Bytes DbValue Graph DbModel DbValueEqProofs.
From Coq Require Import ZifyBool ZifyNat ZifyN.
Open Scope Z_scope.

(* ---------- the outer vector ---------- *)
Lemma zabs_nat_eq i j : zabs_nat i = zabs_nat j <-> Z.abs i = Z.abs j.
Proof. unfold zabs_nat. lia. Qed.

Lemma kvs_set_nth_length s n v : length (kvs_set_nth s n v) = Nat.max (length s) (S n).
Proof.
  revert s. induction n as [|n IH]; intros [|x s]; cbn [kvs_set_nth length]; try lia.
  - specialize (IH []). cbn [length] in IH. lia.
  - specialize (IH s). lia.
Qed.

Lemma nth_kvs_set_nth s n v m :
  nth m (kvs_set_nth s n v) [] = if Nat.eqb n m then v else nth m s [].
Proof.
  revert s m. induction n as [|n IH]; intros [|x s] [|m]; cbn [kvs_set_nth nth Nat.eqb]; try reflexivity.
  - now destruct m.
  - rewrite IH. now destruct m.
  - apply IH.
Qed.

Lemma kvs_get_set s i v j :
  kvs_get (kvs_set s i v) j = if Z.abs i =? Z.abs j then v else kvs_get s j.
Proof.
  unfold kvs_get, kvs_set. rewrite nth_kvs_set_nth.
  destruct (Nat.eqb_spec (zabs_nat i) (zabs_nat j)) as [E|E]; rewrite zabs_nat_eq in E.
  - now rewrite (proj2 (Z.eqb_eq _ _) E).
  - now rewrite (proj2 (Z.eqb_neq _ _) E).
Qed.

Lemma nth_removelast {A} (l : list A) (d : A) m :
  nth m (removelast l) d = if Nat.ltb (S m) (length l) then nth m l d else d.
Proof.
  revert m. induction l as [|x l IH]; intros m; cbn [removelast].
  - now destruct m.
  - destruct l as [|y l].
    + cbn. now destruct m.
    + destruct m as [|m]; [reflexivity|].
      cbn [nth]. rewrite IH. cbn [length]. reflexivity.
Qed.

Lemma kvs_get_remove s i j :
  kvs_get (kvs_remove s i) j = if Z.abs i =? Z.abs j then [] else kvs_get s j.
Proof.
  unfold kvs_remove.
  destruct (Nat.eqb_spec (S (zabs_nat i)) (length s)) as [E|E].
  - unfold kvs_get. rewrite nth_removelast.
    destruct (Z.eqb_spec (Z.abs i) (Z.abs j)) as [E2|E2].
    + apply zabs_nat_eq in E2. rewrite <- E2.
      destruct (Nat.ltb_spec (S (zabs_nat i)) (length s)); [lia|reflexivity].
    + destruct (Nat.ltb_spec (S (zabs_nat j)) (length s)); [reflexivity|].
      symmetry. apply nth_overflow. rewrite <- zabs_nat_eq in E2. lia.
  - destruct (Nat.ltb_spec (zabs_nat i) (length s)) as [L|L].
    + apply kvs_get_set.
    + destruct (Z.eqb_spec (Z.abs i) (Z.abs j)) as [E2|E2]; [|reflexivity].
      apply zabs_nat_eq in E2. unfold kvs_get. rewrite <- E2. apply nth_overflow. lia.
Qed.

Lemma kvs_get_reserve s i j : kvs_get (kvs_reserve s i) j = kvs_get s j.
Proof.
  unfold kvs_reserve. destruct (Nat.ltb_spec (zabs_nat i) (length s)) as [L|L]; [reflexivity|].
  rewrite kvs_get_set. destruct (Z.eqb_spec (Z.abs i) (Z.abs j)) as [E|E]; [|reflexivity].
  apply zabs_nat_eq in E. unfold kvs_get. rewrite <- E. symmetry. apply nth_overflow. lia.
Qed.

(* ---------- one list ---------- *)
Definition has_key (l : list kv) (k : dbvalue) : bool := existsb (fun p : kv => dbv_eqb (fst p) k) l.
Definition kv_find (l : list kv) (k : dbvalue) : option kv := find (fun p : kv => dbv_eqb (fst p) k) l.
Definition kv_lookup (l : list kv) (k : dbvalue) : option dbvalue :=
  match kv_find l k with Some p => Some (snd p) | None => None end.

Fixpoint keys_distinct (l : list kv) : Prop :=
  match l with
  | [] => True
  | x :: r => has_key r (fst x) = false /\ keys_distinct r
  end.

Lemma kvs_value_lookup s i k : kvs_value s i k = kv_lookup (kvs_get s i) k.
Proof. reflexivity. Qed.

Lemma has_key_app l1 l2 k : has_key (l1 ++ l2) k = has_key l1 k || has_key l2 k.
Proof. apply existsb_app. Qed.

Lemma has_key_congr l k k' : dbv_eqb k k' = true -> has_key l k = has_key l k'.
Proof.
  intros H. induction l as [|x l IH]; cbn [has_key existsb]; [reflexivity|].
  fold (has_key l k). fold (has_key l k'). rewrite IH. f_equal. now apply dbv_eqb_congr_r.
Qed.

Lemma has_key_false_in l k p : has_key l k = false -> In p l -> dbv_eqb (fst p) k = false.
Proof.
  induction l as [|x l IH]; cbn [has_key existsb In]; [intros _ []|].
  intros H [->|Hin]; apply orb_false_iff in H; [tauto|]. apply IH; tauto.
Qed.

Lemma has_key_find l k : has_key l k = match kv_find l k with Some _ => true | None => false end.
Proof.
  induction l as [|x l IH]; cbn [has_key existsb kv_find find]; [reflexivity|].
  destruct (dbv_eqb (fst x) k); [reflexivity|exact IH].
Qed.

Lemma kv_find_some l k p : kv_find l k = Some p -> In p l /\ dbv_eqb (fst p) k = true.
Proof. intros H. apply find_some in H. exact H. Qed.

(* with distinct keys any matching pair is THE pair found *)
Lemma kv_find_in l k p :
  keys_distinct l -> In p l -> dbv_eqb (fst p) k = true -> kv_find l k = Some p.
Proof.
  induction l as [|x l IH]; cbn [keys_distinct In kv_find find]; [intros _ []|].
  intros [Hx Hd] [->|Hin] Hk.
  - now rewrite Hk.
  - destruct (dbv_eqb (fst x) k) eqn:E; [|now apply IH].
    exfalso. pose proof (has_key_false_in l (fst x) p Hx Hin) as Hf.
    rewrite (dbv_eqb_congr_r (fst x) k (fst p) E) in Hf. congruence.
Qed.

Lemma keys_distinct_app l1 l2 :
  keys_distinct (l1 ++ l2) <->
  keys_distinct l1 /\ keys_distinct l2 /\ (forall p, In p l1 -> has_key l2 (fst p) = false).
Proof.
  induction l1 as [|x l1 IH]; cbn [app keys_distinct].
  - split; [intros H; repeat split; [exact H|intros p []]|tauto].
  - rewrite has_key_app, orb_false_iff, IH. split.
    + intros [[H1 H2] (H3 & H4 & H5)]. repeat split; try assumption.
      intros p [->|Hin]; [exact H2|now apply H5].
    + intros [[H1 H2] [H3 H4]]. repeat split; try assumption.
      * apply H4. now left.
      * intros p Hin. apply H4. now right.
Qed.

Lemma keys_distinct_snoc l x : keys_distinct l -> has_key l (fst x) = false -> keys_distinct (l ++ [x]).
Proof.
  intros Hd Hx. apply keys_distinct_app. split; [exact Hd|]. split; [split; [reflexivity|exact I]|].
  intros p Hin. cbn [has_key existsb]. rewrite orb_false_r, dbv_eqb_sym.
  now apply (has_key_false_in l (fst x) p).
Qed.

Lemma keys_distinct_nodup l : keys_distinct l -> NoDup l.
Proof.
  induction l as [|x l IH]; cbn [keys_distinct]; [constructor|].
  intros [Hx Hd]. constructor; [|now apply IH].
  intros Hin. pose proof (has_key_false_in l (fst x) x Hx Hin) as H.
  now rewrite dbv_eqb_refl in H.
Qed.

(* ---- insert_value (append) ---- *)
Lemma kv_find_app l1 l2 k :
  kv_find (l1 ++ l2) k = match kv_find l1 k with Some p => Some p | None => kv_find l2 k end.
Proof.
  induction l1 as [|x l1 IH]; cbn [app kv_find find]; [reflexivity|].
  destruct (dbv_eqb (fst x) k); [reflexivity|exact IH].
Qed.

(* ---- replace_first ---- *)
Lemma replace_first_none l x : replace_first l x = None <-> has_key l (fst x) = false.
Proof.
  induction l as [|y l IH]; cbn [replace_first has_key existsb]; [tauto|].
  fold (has_key l (fst x)).
  destruct (dbv_eqb (fst y) (fst x)); cbn [orb]; [split; discriminate|].
  destruct (replace_first l x) as [[old r']|].
  - split; [discriminate|]. intros H. apply IH in H. discriminate.
  - split; [intros _; now apply IH|reflexivity].
Qed.

(* the shape of a replacement: same position, same length, only that pair changes *)
Lemma replace_first_some l x old l' :
  replace_first l x = Some (old, l') ->
  exists l1 l2, l = l1 ++ old :: l2 /\ l' = l1 ++ x :: l2 /\
                has_key l1 (fst x) = false /\ dbv_eqb (fst old) (fst x) = true.
Proof.
  revert l'. induction l as [|y l IH]; intros l'; cbn [replace_first]; [discriminate|].
  destruct (dbv_eqb (fst y) (fst x)) eqn:E.
  - intros H. inversion H; subst. exists [], l. repeat split. exact E.
  - destruct (replace_first l x) as [[old0 r']|]; [|discriminate].
    intros H. inversion H; subst.
    destruct (IH r' eq_refl) as (l1 & l2 & H1 & H2 & H3 & H4).
    exists (y :: l1), l2. subst. repeat split; [|exact H4].
    cbn [has_key existsb]. fold (has_key l1 (fst x)). now rewrite E, H3.
Qed.

Lemma replace_shape_has_key l1 l2 old x k :
  dbv_eqb (fst old) (fst x) = true ->
  has_key (l1 ++ x :: l2) k = has_key (l1 ++ old :: l2) k.
Proof.
  intros H. rewrite !has_key_app. f_equal. cbn [has_key existsb]. f_equal.
  symmetry. now apply dbv_eqb_congr_l.
Qed.

Lemma replace_shape_distinct l1 l2 old x :
  dbv_eqb (fst old) (fst x) = true ->
  keys_distinct (l1 ++ old :: l2) -> keys_distinct (l1 ++ x :: l2).
Proof.
  intros H. rewrite !keys_distinct_app. cbn [keys_distinct].
  intros (H1 & [H2 H3] & H4). repeat split; try assumption.
  - rewrite <- H2. symmetry. now apply has_key_congr.
  - intros p Hin. specialize (H4 p Hin). cbn [has_key existsb] in *.
    rewrite <- H4. f_equal. symmetry. now apply dbv_eqb_congr_l.
Qed.

(* lookups after insert_or_replace on one list, both branches *)
Lemma kv_find_replace_shape l1 l2 old x k :
  has_key l1 (fst x) = false -> dbv_eqb (fst old) (fst x) = true ->
  kv_find (l1 ++ x :: l2) k =
  if dbv_eqb (fst x) k then Some x else kv_find (l1 ++ old :: l2) k.
Proof.
  intros H1 H2. rewrite !kv_find_app. cbn [kv_find find].
  fold (kv_find l2 k). fold (kv_find l1 k).
  destruct (dbv_eqb (fst x) k) eqn:E.
  - assert (Hn : has_key l1 k = false) by (rewrite <- H1; symmetry; now apply has_key_congr).
    rewrite has_key_find in Hn. now destruct (kv_find l1 k).
  - rewrite (dbv_eqb_congr_l (fst old) (fst x) k H2), E. reflexivity.
Qed.

Lemma kv_find_snoc_new l x k :
  has_key l (fst x) = false ->
  kv_find (l ++ [x]) k = if dbv_eqb (fst x) k then Some x else kv_find l k.
Proof.
  intros H. rewrite kv_find_app. cbn [kv_find find]. fold (kv_find l k).
  destruct (dbv_eqb (fst x) k) eqn:E.
  - assert (Hn : has_key l k = false) by (rewrite <- H; symmetry; now apply has_key_congr).
    rewrite has_key_find in Hn. now destruct (kv_find l k).
  - now destruct (kv_find l k).
Qed.

(* ---- remove_first_key ---- *)
Lemma remove_first_key_absent l k : has_key l k = false -> remove_first_key l k = l.
Proof.
  induction l as [|y l IH]; cbn [remove_first_key has_key existsb]; [reflexivity|].
  fold (has_key l k). intros H. apply orb_false_iff in H. destruct H as [H1 H2].
  rewrite H1. f_equal. now apply IH.
Qed.

Lemma remove_first_key_app l1 l2 k :
  has_key l1 k = false -> remove_first_key (l1 ++ l2) k = l1 ++ remove_first_key l2 k.
Proof.
  induction l1 as [|y l1 IH]; cbn [app remove_first_key has_key existsb]; [reflexivity|].
  fold (has_key l1 k). intros H. apply orb_false_iff in H. destruct H as [H1 H2].
  rewrite H1. f_equal. now apply IH.
Qed.

(* with distinct keys remove_value deletes exactly the pairs with that key, order kept *)
Lemma remove_first_key_filter l k :
  keys_distinct l -> remove_first_key l k = filter (fun p : kv => negb (dbv_eqb (fst p) k)) l.
Proof.
  induction l as [|y l IH]; cbn [keys_distinct remove_first_key filter]; [reflexivity|].
  intros [Hy Hd]. destruct (dbv_eqb (fst y) k) eqn:E; cbn [negb].
  - assert (Hn : has_key l k = false) by (rewrite <- Hy; symmetry; now apply has_key_congr).
    clear -Hn. induction l as [|z l IH]; cbn [filter]; [reflexivity|].
    cbn [has_key existsb] in Hn. apply orb_false_iff in Hn. destruct Hn as [H1 H2].
    rewrite H1. cbn [negb]. f_equal. now apply IH.
  - f_equal. now apply IH.
Qed.

Lemma filter_keys_distinct (f : kv -> bool) l : keys_distinct l -> keys_distinct (filter f l).
Proof.
  induction l as [|y l IH]; cbn [keys_distinct filter]; [trivial|].
  intros [Hy Hd]. destruct (f y); [|now apply IH].
  cbn [keys_distinct]. split; [|now apply IH].
  clear -Hy. induction l as [|z l IH]; cbn [filter]; [reflexivity|].
  cbn [has_key existsb] in Hy. apply orb_false_iff in Hy. destruct Hy as [H1 H2].
  destruct (f z); [|now apply IH]. cbn [has_key existsb]. rewrite H1. now apply IH.
Qed.

Lemma remove_first_key_distinct l k : keys_distinct l -> keys_distinct (remove_first_key l k).
Proof. intros H. rewrite (remove_first_key_filter l k H). now apply filter_keys_distinct. Qed.
