(* DeriveType.v — model of #[derive(DbType)] / #[derive(DbElement)] (agdb_derive/src/db_type.rs),
   #[derive(DbValue)] (agdb_derive/src/db_value.rs) and the From / TryFrom<DbValue> conversion tables
   of agdb/src/db/db_value.rs.  Definitions only (executable, extracted); proofs in DeriveTypeProofs.v.

   A struct is a list of field descriptions; a value is a list of field values of the same shape.
     to_values      = DbType::to_db_values      (None options skipped, flatten inlined, db_id / skip not stored,
                                                 DbElement appends ("db_element_id", <type name>))
     from_element   = DbType::from_db_element   (per field: the FIRST pair whose key is a String equal to the
                                                 field name, converted with TryFrom<DbValue>; a missing
                                                 non-optional key is an error; db_id := element id; skip := default)
     db_keys        = DbType::db_keys           (what select().elements::<T>() asks for; [] = all keys)
   f32 / Vec<f32> fields are NOT modelled (their widening to f64 is a floating point conversion); the harness
   checks them on the implementation only. *)
From Agdb Require Import Bytes Utf8 Codec DbValue DbModel.
Open Scope N_scope.

(* ---------------------------------------------------------------- DbValue as a serialized type *)
(* #[derive(DbSerialize)] on enum DbValue: tag = variant position *)
Definition dbvalue_ty : ty :=
  TEnum [[TBytes]; [TI64]; [TU64]; [TF64]; [TStr]; [TVec TI64]; [TVec TU64]; [TVec TF64]; [TVec TStr]].

Definition val_of_dbvalue (v : dbvalue) : val :=
  match v with
  | DBytes b => VEnum 0 [VBytes b]
  | DI64 z => VEnum 1 [VI64 z]
  | DU64 n => VEnum 2 [VU64 n]
  | DF64 b => VEnum 3 [VF64 b]
  | DString s => VEnum 4 [VStr s]
  | DVecI64 l => VEnum 5 [VVec (map VI64 l)]
  | DVecU64 l => VEnum 6 [VVec (map VU64 l)]
  | DVecF64 l => VEnum 7 [VVec (map VF64 l)]
  | DVecString l => VEnum 8 [VVec (map VStr l)]
  end.

Fixpoint opt_all {A B} (f : A -> option B) (l : list A) : option (list B) :=
  match l with
  | [] => Some []
  | x :: r => match f x, opt_all f r with Some y, Some ys => Some (y :: ys) | _, _ => None end
  end.

Definition dbvalue_of_val (v : val) : option dbvalue :=
  match v with
  | VEnum 0 [VBytes b] => Some (DBytes b)
  | VEnum 1 [VI64 z] => Some (DI64 z)
  | VEnum 2 [VU64 n] => Some (DU64 n)
  | VEnum 3 [VF64 b] => Some (DF64 b)
  | VEnum 4 [VStr s] => Some (DString s)
  | VEnum 5 [VVec l] => option_map DVecI64 (opt_all (fun x => match x with VI64 z => Some z | _ => None end) l)
  | VEnum 6 [VVec l] => option_map DVecU64 (opt_all (fun x => match x with VU64 n => Some n | _ => None end) l)
  | VEnum 7 [VVec l] => option_map DVecF64 (opt_all (fun x => match x with VF64 n => Some n | _ => None end) l)
  | VEnum 8 [VVec l] => option_map DVecString (opt_all (fun x => match x with VStr s => Some s | _ => None end) l)
  | _ => None
  end.

(* ---------------------------------------------------------------- field kinds and values *)
Inductive fkind : Type :=
| KU64 | KI64 | KF64 | KU32 | KI32 | KBool | KStr | KBytes
| KVecI64 | KVecU64 | KVecF64 | KVecStr | KVecI32 | KVecU32 | KVecBool
| KCustom (t : ty)        (* a user value type: #[derive(DbSerialize, DbValue)] *)
| KVecCustom (t : ty).    (* Vec<T> of such a type with #[derive(DbTypeMarker)] *)

Inductive fval : Type :=
| FU64 (n : N) | FI64 (z : Z) | FF64 (bits : N) | FU32 (n : N) | FI32 (z : Z) | FBool (b : bool)
| FStr (s : bytes) | FBytes (b : bytes)
| FVecI64 (l : list Z) | FVecU64 (l : list N) | FVecF64 (l : list N) | FVecStr (l : list bytes)
| FVecI32 (l : list Z) | FVecU32 (l : list N) | FVecBool (l : list bool)
| FCustom (v : val) | FVecCustom (l : list val).

Definition in_i64 (z : Z) : bool := (Z.leb (-9223372036854775808) z) && (Z.ltb z 9223372036854775808).
Definition in_i32 (z : Z) : bool := (Z.leb (-2147483648) z) && (Z.ltb z 2147483648).
Definition b2u (b : bool) : N := if b then 1 else 0.

(* values a Rust program can hold in a field of the kind *)
Definition fval_ok (k : fkind) (v : fval) : bool :=
  match k, v with
  | KU64, FU64 n => n <? two64
  | KI64, FI64 z => in_i64 z
  | KF64, FF64 b => b <? two64
  | KU32, FU32 n => n <? two32
  | KI32, FI32 z => in_i32 z
  | KBool, FBool _ => true
  | KStr, FStr _ => true
  | KBytes, FBytes _ => true
  | KVecI64, FVecI64 l => forallb in_i64 l
  | KVecU64, FVecU64 l => forallb (fun n => n <? two64) l
  | KVecF64, FVecF64 l => forallb (fun n => n <? two64) l
  | KVecStr, FVecStr _ => true
  | KVecI32, FVecI32 l => forallb in_i32 l
  | KVecU32, FVecU32 l => forallb (fun n => n <? two32) l
  | KVecBool, FVecBool _ => true
  | KCustom t, FCustom v => ty_ok t && has_type t v
  | KVecCustom t, FVecCustom l =>
      ty_ok t && forallb (fun v => has_type t v && (size v <? two60)) l && (lenN l <? two60)
  | _, _ => false
  end.

(* ---------------------------------------------------------------- From<T> for DbValue *)
Definition to_dbvalue (v : fval) : dbvalue :=
  match v with
  | FU64 n => DU64 n
  | FI64 z => DI64 z
  | FF64 b => DF64 b
  | FU32 n => DU64 n                      (* u32 -> u64 *)
  | FI32 z => DI64 z                      (* i32 -> i64 *)
  | FBool b => DU64 (b2u b)
  | FStr s => DString s
  | FBytes b => DBytes b
  | FVecI64 l => DVecI64 l
  | FVecU64 l => DVecU64 l
  | FVecF64 l => DVecF64 l
  | FVecStr l => DVecString l
  | FVecI32 l => DVecI64 l
  | FVecU32 l => DVecU64 l
  | FVecBool l => DVecU64 (map b2u l)
  | FCustom v => DBytes (enc v)           (* derive(DbValue): Bytes(serialize(v)) *)
  | FVecCustom l =>
      (* impl<T: Into<DbValue> + DbTypeMarker> From<Vec<T>>: decided by the FIRST element's kind; a
         derive(DbValue) type always gives Bytes => Bytes(serialize(&Vec<DbValue>)); empty => Bytes([]) *)
      match l with
      | [] => DBytes []
      | _ => DBytes (enc (VVec (map (fun v => val_of_dbvalue (DBytes (enc v))) l)))
      end
  end.

(* ---------------------------------------------------------------- TryFrom<DbValue> for T *)
Definition to_u64 (v : dbvalue) : outcome N :=
  match v with DU64 n => Ok n | DI64 z => if (0 <=? z)%Z then Ok (Z.to_N z) else Err | _ => Err end.
Definition to_i64 (v : dbvalue) : outcome Z :=
  match v with DI64 z => Ok z | DU64 n => if n <? two63 then Ok (Z.of_N n) else Err | _ => Err end.

(* position of the highest set bit (own definition: N.log2 would pull Pos.size into the extraction and
   rename the codec's `size`) *)
Fixpoint top_bit_pos (p : positive) : N :=
  match p with xH => 0 | xO q => N.succ (top_bit_pos q) | xI q => N.succ (top_bit_pos q) end.
Definition top_bit (a : N) : N := match a with N0 => 0 | Npos p => top_bit_pos p end.

(* f64::from(i32) / f64::from(u32) on bit patterns (exact: |z| < 2^53) *)
Definition f64_of_int (z : Z) : N :=
  if (z =? 0)%Z then 0 else
  let a := Z.to_N (Z.abs z) in
  let e := top_bit a in
  (if (z <? 0)%Z then two63 else 0) + (1023 + e) * 2 ^ 52 + (a - 2 ^ e) * 2 ^ (52 - e).

Definition to_f64 (v : dbvalue) : outcome N :=
  match v with
  | DF64 b => Ok b
  | DI64 z => if in_i32 z then Ok (f64_of_int z) else Err
  | DU64 n => if n <? two32 then Ok (f64_of_int (Z.of_N n)) else Err
  | _ => Err
  end.

Definition str_true : bytes := [x74; x72; x75; x65].   (* "true" *)
Definition str_one : bytes := [x31].                   (* "1" *)

Definition to_bool (v : dbvalue) : outcome bool :=
  match v with
  | DI64 z => Ok (negb (z =? 0)%Z)
  | DU64 n => Ok (negb (n =? 0))
  | DF64 b => Ok (negb (b =? 0))          (* DbF64 equality is total_cmp: only the pattern of +0.0 is "zero" *)
  | DString s => Ok (bytes_eqb s str_true || bytes_eqb s str_one)
  | _ => Err
  end.

Definition to_u32 (v : dbvalue) : outcome N := obind (to_u64 v) (fun n => if n <? two32 then Ok n else Err).
Definition to_i32 (v : dbvalue) : outcome Z := obind (to_i64 v) (fun z => if in_i32 z then Ok z else Err).
Definition to_str (v : dbvalue) : outcome bytes := match v with DString s => Ok s | _ => Err end.

Fixpoint omap {A B} (f : A -> outcome B) (l : list A) : outcome (list B) :=
  match l with
  | [] => Ok []
  | x :: r => obind (f x) (fun y => obind (omap f r) (fun ys => Ok (y :: ys)))
  end.

Section From.
  Variable p : profile.     (* build profile of the deserializer (arithmetic on untrusted lengths) *)

  (* <T as AgdbSerialize>::deserialize(bytes): trailing bytes are ignored *)
  Definition deser (t : ty) (bs : bytes) : outcome val :=
    match dec p guards_fixed t bs with
    | Ok (v, _) => Ok v
    | Err => Err | Panic => Panic | Alloc => Alloc | Fuel => Fuel
    end.

  (* impl<T: TryFrom<DbValue>> TryFrom<DbValue> for Vec<T>: the elements as DbValues *)
  Definition vec_items (v : dbvalue) : outcome (list dbvalue) :=
    match v with
    | DVecI64 l => Ok (map DI64 l)
    | DVecU64 l => Ok (map DU64 l)
    | DVecF64 l => Ok (map DF64 l)
    | DVecString l => Ok (map DString l)
    | DBytes [] => Ok []
    | DBytes bs =>
        obind (deser (TVec dbvalue_ty) bs) (fun x =>
          match x with
          | VVec l => match opt_all dbvalue_of_val l with Some r => Ok r | None => Err end
          | _ => Err
          end)
    | _ => Err
    end.

  Definition custom_of (t : ty) (v : dbvalue) : outcome val :=
    match v with DBytes bs => deser t bs | _ => Err end.

  Definition from_dbvalue (k : fkind) (v : dbvalue) : outcome fval :=
    match k with
    | KU64 => obind (to_u64 v) (fun x => Ok (FU64 x))
    | KI64 => obind (to_i64 v) (fun x => Ok (FI64 x))
    | KF64 => obind (to_f64 v) (fun x => Ok (FF64 x))
    | KU32 => obind (to_u32 v) (fun x => Ok (FU32 x))
    | KI32 => obind (to_i32 v) (fun x => Ok (FI32 x))
    | KBool => obind (to_bool v) (fun x => Ok (FBool x))
    | KStr => obind (to_str v) (fun x => Ok (FStr x))
    | KBytes => match v with DBytes b => Ok (FBytes b) | _ => Err end
    | KVecI64 => obind (vec_items v) (fun l => obind (omap to_i64 l) (fun x => Ok (FVecI64 x)))
    | KVecU64 => obind (vec_items v) (fun l => obind (omap to_u64 l) (fun x => Ok (FVecU64 x)))
    | KVecF64 => obind (vec_items v) (fun l => obind (omap to_f64 l) (fun x => Ok (FVecF64 x)))
    | KVecStr => obind (vec_items v) (fun l => obind (omap to_str l) (fun x => Ok (FVecStr x)))
    | KVecI32 => obind (vec_items v) (fun l => obind (omap to_i32 l) (fun x => Ok (FVecI32 x)))
    | KVecU32 => obind (vec_items v) (fun l => obind (omap to_u32 l) (fun x => Ok (FVecU32 x)))
    | KVecBool => obind (vec_items v) (fun l => obind (omap to_bool l) (fun x => Ok (FVecBool x)))
    | KCustom t => obind (custom_of t v) (fun x => Ok (FCustom x))
    | KVecCustom t => obind (vec_items v) (fun l => obind (omap (custom_of t) l) (fun x => Ok (FVecCustom x)))
    end.
End From.

(* ---------------------------------------------------------------- struct descriptions *)
Inductive fdesc : Type :=
| DPlain (name : bytes) (k : fkind)      (* name = the field name or its #[agdb(rename = "..")] *)
| DOpt (name : bytes) (k : fkind)        (* Option<T> *)
| DFlatten (fs : list fdesc)             (* #[agdb(flatten)] nested struct deriving DbType *)
| DSkip (optional : bool)                (* #[agdb(skip)]: not stored, Default on read; optional = its type is an Option *)
| DId (optional : bool).                 (* db_id: Option<DbId | QueryId> or DbId *)

Inductive sval : Type :=
| SPlain (v : fval)
| SOpt (o : option fval)
| SFlat (l : list sval)
| SSkip
| SId (o : option Z).

Section Zip.
  Context {R : Type} (f : fdesc -> sval -> R) (app : R -> R -> R) (nil : R).
  Fixpoint zip_fields (fs : list fdesc) (l : list sval) {struct fs} : R :=
    match fs, l with
    | d :: fs', x :: l' => app (f d x) (zip_fields fs' l')
    | _, _ => nil
    end.
End Zip.

(* shape and ranges *)
Fixpoint sval_ok (d : fdesc) (v : sval) {struct d} : bool :=
  match d, v with
  | DPlain _ k, SPlain x => fval_ok k x
  | DOpt _ k, SOpt (Some x) => fval_ok k x
  | DOpt _ _, SOpt None => true
  | DFlatten fs, SFlat l => Nat.eqb (length fs) (length l) && zip_fields sval_ok andb true fs l
  | DSkip _, SSkip => true
  | DId _, SId _ => true
  | _, _ => false
  end.
Definition svals_ok (fs : list fdesc) (l : list sval) : bool :=
  Nat.eqb (length fs) (length l) && zip_fields sval_ok andb true fs l.

Fixpoint to_values_f (d : fdesc) (v : sval) {struct d} : list kv :=
  match d, v with
  | DPlain n _, SPlain x => [(DString n, to_dbvalue x)]
  | DOpt n _, SOpt (Some x) => [(DString n, to_dbvalue x)]
  | DFlatten fs, SFlat l => zip_fields to_values_f (@app kv) [] fs l
  | _, _ => []
  end.

(* "db_element_id" *)
Definition element_id_key : bytes := [x64; x62; x5f; x65; x6c; x65; x6d; x65; x6e; x74; x5f; x69; x64].

(* element = Some type-name for #[derive(DbElement)] *)
Definition to_values (element : option bytes) (fs : list fdesc) (l : list sval) : list kv :=
  zip_fields to_values_f (@app kv) [] fs l ++
  match element with Some n => [(DString element_id_key, DString n)] | None => [] end.

(* element.values.iter().find_map(|kv| kv.key.string() == name) *)
Definition find_key (name : bytes) (kvs : list kv) : option dbvalue :=
  match find (fun x : kv => match fst x with DString s => bytes_eqb s name | _ => false end) kvs with
  | Some x => Some (snd x)
  | None => None
  end.

Section FromElement.
  Variable p : profile.
  Variable id : Z.
  Variable kvs : list kv.

  Fixpoint from_f (d : fdesc) : outcome sval :=
    match d with
    | DPlain n k =>
        match find_key n kvs with
        | None => Err                                             (* Key not found *)
        | Some v => obind (from_dbvalue p k v) (fun x => Ok (SPlain x))
        end
    | DOpt n k =>
        match find_key n kvs with
        | None => Ok (SOpt None)
        | Some v => obind (from_dbvalue p k v) (fun x => Ok (SOpt (Some x)))
        end
    | DFlatten fs =>
        obind ((fix go (l : list fdesc) : outcome (list sval) :=
                  match l with
                  | [] => Ok []
                  | d' :: r => obind (from_f d') (fun y => obind (go r) (fun ys => Ok (y :: ys)))
                  end) fs)
              (fun l => Ok (SFlat l))
    | DSkip _ => Ok SSkip
    | DId _ => Ok (SId (Some id))
    end.

  Definition from_element (fs : list fdesc) : outcome (list sval) := omap from_f fs.
End FromElement.

(* what the value reads back as: db_id := the element id; a skipped field is its default *)
Fixpoint norm_f (id : Z) (v : sval) : sval :=
  match v with
  | SId _ => SId (Some id)
  | SFlat l => SFlat (map (norm_f id) l)
  | x => x
  end.
Definition norm (id : Z) (l : list sval) : list sval := map (norm_f id) l.

(* ---------------------------------------------------------------- db_keys *)
Definition is_nil {A} (l : list A) : bool := match l with [] => true | _ => false end.

(* `has_option`: any own field other than db_id whose type is an Option (also a skipped one) *)
Definition own_option (d : fdesc) : bool :=
  match d with DOpt _ _ => true | DSkip true => true | _ => false end.

(* T::db_keys() of the struct `DFlatten fs`; [] = "all keys".
   fixed = false: the pinned macro — `has_option` looks only at the struct's OWN fields, a flattened struct
   contributes its own db_keys() (possibly [], which then contributes nothing);
   fixed = true (fixes/C22-flatten-option-keys.diff): an empty key list of a flattened struct makes the whole list empty. *)
Section Keys.
  Variable fixed : bool.
  Fixpoint struct_keys (d : fdesc) : list bytes :=
    match d with
    | DFlatten fs =>
      if existsb own_option fs then [] else
      match (fix go (l : list fdesc) : option (list bytes) :=
               match l with
               | [] => Some []
               | DPlain n _ :: r => option_map (cons n) (go r)
               | (DFlatten _ as d') :: r =>
                   let k := struct_keys d' in
                   if fixed && is_nil k then None else option_map (app k) (go r)
               | _ :: r => go r
               end) fs with
      | Some k => k
      | None => []
      end
    | _ => []
    end.
  Definition db_keys (fs : list fdesc) : list bytes := struct_keys (DFlatten fs).
End Keys.

(* SelectValuesQuery { keys, ids: [id] } on the element's stored pairs (Queries.select_values, not a search):
   [] = all pairs; otherwise the requested pairs in request order, NotFound if a key is missing *)
Definition select_pairs (keys : list bytes) (stored : list kv) : outcome (list kv) :=
  match keys with
  | [] => Ok stored
  | _ =>
    let dkeys := map DString keys in
    let values := kvs_values_by_keys [stored] 0 dkeys in
    if negb (Nat.eqb (length values) (length dkeys)) &&
       existsb (fun k => negb (existsb (fun x : kv => dbv_eqb (fst x) k) values)) dkeys
    then Err else Ok values
  end.

(* insert().element(&v) with db_id = Some(id) on an existing element: insert-or-replace per key
   (Queries.insert_values_id -> DbModel.kvs_insert_or_replace on the element's list) *)
Definition upsert_pairs (old : list kv) (new : list kv) : list kv :=
  fold_left (fun l x => match replace_first l x with Some (_, l') => l' | None => l ++ [x] end) new old.
