(* RecordsLoadProofs.v — the table while a file is loaded: set_record and
   rebuild_free_index (Records.v). *)
From Agdb Require Import Bytes BytesProofs Records RecordsProofs RecordsTableProofs.
From Coq Require Import ZifyBool ZifyNat ZifyN.
Ltac Zify.zify_post_hook ::= Z.div_mod_to_equations.
Open Scope N_scope.
Arguments N.add : simpl never.
Arguments N.mul : simpl never.
Arguments N.sub : simpl never.
Arguments N.of_nat : simpl never.
Arguments N.to_nat : simpl never.
Arguments N.eqb : simpl never.
Arguments N.ltb : simpl never.
Arguments N.leb : simpl never.

(* ---------- set_record of a live record ---------- *)
Lemma nth_error_repeat {A} (x : A) n j : nth_error (repeat x n) j = if Nat.ltb j n then Some x else None.
Proof.
  revert j; induction n as [|n IH]; intros [|j]; cbn [repeat nth_error]; try reflexivity.
  rewrite IH. destruct (Nat.ltb_spec j n), (Nat.ltb_spec (S j) (S n)); try reflexivity; lia.
Qed.

Lemma set_record_live rs r : r_index r <> 0 ->
  fps (set_record rs r) = fps rs /\ fsp (set_record rs r) = fsp rs /\
  length (recs (set_record rs r)) = Nat.max (length (recs rs)) (S (N.to_nat (r_index r))) /\
  forall j, nth_error (recs (set_record rs r)) j =
            if Nat.eqb j (N.to_nat (r_index r)) then Some r
            else if Nat.ltb j (length (recs rs)) then nth_error (recs rs) j
            else if Nat.ltb j (S (N.to_nat (r_index r))) then Some rec0 else None.
Proof.
  intros Hi. unfold set_record. destruct (N.eqb_spec (r_index r) 0); [congruence|].
  cbn [fps fsp recs set_recs]. split; [reflexivity|]. split; [reflexivity|].
  set (i := N.to_nat (r_index r)). set (l := recs rs ++ repeat rec0 (S i - length (recs rs))).
  assert (HL : length l = Nat.max (length (recs rs)) (S i)) by (unfold l; rewrite app_length, repeat_length; lia).
  split; [rewrite upd_length; exact HL|].
  intros j. rewrite nth_error_upd, HL.
  destruct (Nat.eqb_spec j i) as [->|Hj].
  - destruct (Nat.ltb_spec i (Nat.max (length (recs rs)) (S i))); [reflexivity|lia].
  - unfold l. destruct (Nat.ltb_spec j (length (recs rs))).
    + now rewrite nth_error_app1.
    + rewrite nth_error_app2 by lia. rewrite nth_error_repeat.
      destruct (Nat.ltb_spec (j - length (recs rs)) (S i - length (recs rs))), (Nat.ltb_spec j (S i)); try reflexivity; lia.
Qed.

Lemma set_record_free rs r : r_index r = 0 -> set_record rs r = mark_free rs (r_pos r) (r_size r).
Proof. intros H. unfold set_record. rewrite H. reflexivity. Qed.

Lemma free_index_maps rs j : fps (free_index rs j) = fps rs /\ fsp (free_index rs j) = fsp rs.
Proof. unfold free_index. destruct (rget rs j); split; reflexivity. Qed.

(* ---------- rebuild_free_index ---------- *)
(* slots below k are live or on the free-index list, slots from k on are live or blank *)
Definition pwf (l : list srec) (k : nat) : Prop :=
  exists r0 fl, nth_error l 0 = Some r0 /\ fchain l (r_index r0) fl /\ NoDup fl /\
    (forall x, In x fl -> (N.to_nat x < k)%nat) /\
    forall i r, (0 < i)%nat -> nth_error l i = Some r ->
      ((i < k)%nat -> In (N.of_nat i) fl \/ r_index r = N.of_nat i) /\
      ((k <= i)%nat -> r_index r = 0 \/ r_index r = N.of_nat i).

Lemma pwf_twf l : lenN l < two64 -> pwf l (length l) -> twf l.
Proof.
  intros HL (r0 & fl & H0 & Hc & ND & _ & Hall). split; [exact HL|].
  exists r0, fl. split; [exact H0|]. split; [exact Hc|]. split; [exact ND|].
  intros i r Hi Hr. apply (Hall i r Hi Hr). apply nth_error_some_lt in Hr. exact Hr.
Qed.

Lemma rebuild_from_spec n : forall k rs,
  pwf (recs rs) k -> (1 <= k)%nat -> (k + n = length (recs rs))%nat ->
  pwf (recs (rebuild_from n k rs)) (length (recs rs)) /\
  length (recs (rebuild_from n k rs)) = length (recs rs) /\
  fps (rebuild_from n k rs) = fps rs /\ fsp (rebuild_from n k rs) = fsp rs /\
  forall j, live_at (recs (rebuild_from n k rs)) j = live_at (recs rs) j.
Proof.
  induction n as [|n IH]; intros k rs PW Hk Hlen; cbn [rebuild_from].
  - replace (length (recs rs)) with k by lia. auto.
  - destruct (nth_error_lt_some (recs rs) k ltac:(lia)) as (r & Hr).
    rewrite (nth_error_nth _ _ rec0 _ Hr).
    destruct PW as (r0 & fl & H0 & Hc & ND & Hfl & Hall).
    destruct (N.eqb_spec (r_index r) 0) as [Ez|Enz].
    + (* a blank slot: push it on the free-index list *)
      set (h := r_index r0) in *.
      assert (Hk0 : N.to_nat (N.of_nat k) = k) by lia.
      assert (Efi : recs (free_index rs (N.of_nat k)) =
                    set_head (upd (recs rs) k {| r_index := h; r_pos := U64MAX; r_size := r_size r |}) (N.of_nat k)).
      { unfold free_index, rget. rewrite Hk0, Hr, (head_free_eq _ _ H0), (nth_error_nth _ _ rec0 _ Hr). reflexivity. }
      assert (H0' : nth_error (upd (recs rs) k {| r_index := h; r_pos := U64MAX; r_size := r_size r |}) 0 = Some r0).
      { rewrite nth_error_upd. destruct (Nat.eqb_spec 0 k); [lia|assumption]. }
      assert (NE : forall j, nth_error (recs (free_index rs (N.of_nat k))) j =
                             if Nat.eqb j 0 then Some {| r_index := N.of_nat k; r_pos := r_pos r0; r_size := r_size r0 |}
                             else if Nat.eqb j k then Some {| r_index := h; r_pos := U64MAX; r_size := r_size r |}
                             else nth_error (recs rs) j).
      { intros j. rewrite Efi, (nth_error_set_head _ _ _ _ H0'). destruct (Nat.eqb_spec j 0); [reflexivity|].
        rewrite nth_error_upd. destruct (Nat.eqb_spec j k); [|reflexivity].
        destruct (Nat.ltb_spec k (length (recs rs))); [reflexivity|lia]. }
      assert (Hlen1 : length (recs (free_index rs (N.of_nat k))) = length (recs rs)).
      { rewrite Efi, set_head_length, upd_length. reflexivity. }
      assert (Hkfl : ~ In (N.of_nat k) fl) by (intros H; apply Hfl in H; lia).
      assert (Hhk : h <> N.of_nat k).
      { destruct (fchain_head _ _ _ Hc) as [[E _]|[_ [t E]]]; [lia|]. intros E'. apply Hkfl. rewrite E, <- E'. left; reflexivity. }
      assert (PW1 : pwf (recs (free_index rs (N.of_nat k))) (S k)).
      { exists {| r_index := N.of_nat k; r_pos := r_pos r0; r_size := r_size r0 |}, (N.of_nat k :: fl).
        split; [rewrite NE; reflexivity|]. cbn [r_index]. split.
        { econstructor; [lia| |].
          - rewrite NE, Hk0. destruct (Nat.eqb_spec k 0); [lia|]. rewrite Nat.eqb_refl. reflexivity.
          - cbn [r_index]. eapply fchain_ext; [|exact Hc]. intros x Hx. rewrite NE.
            destruct (fchain_member _ _ _ Hc ND x Hx) as (Hx0 & _). pose proof (Hfl x Hx).
            destruct (Nat.eqb_spec (N.to_nat x) 0); [lia|]. destruct (Nat.eqb_spec (N.to_nat x) k); [lia|reflexivity]. }
        split; [constructor; assumption|]. split.
        { intros x [<-|Hx]; [lia|]. apply Hfl in Hx. lia. }
        intros i r' Hi Hr'. rewrite NE in Hr'. destruct (Nat.eqb_spec i 0); [lia|].
        destruct (Nat.eqb_spec i k) as [->|Hik].
        - split; [intros _; left; left; reflexivity|intros; lia].
        - destruct (Hall i r' Hi Hr') as [Ha Hb]. split.
          + intros Hlt. destruct (Ha ltac:(lia)); [left; right; assumption|right; assumption].
          + intros Hge. apply Hb. lia. }
      destruct (IH (S k) (free_index rs (N.of_nat k)) PW1 ltac:(lia) ltac:(lia)) as (P & L & F1 & F2 & LV).
      rewrite Hlen1 in P, L. split; [exact P|]. split; [exact L|].
      split; [rewrite F1; apply free_index_maps|]. split; [rewrite F2; apply free_index_maps|].
      intros j. rewrite LV. unfold live_at. rewrite NE.
      destruct (Nat.eqb_spec (N.to_nat j) 0) as [Ej|Ej].
      * assert (j = 0) by lia. subst j. change (N.to_nat 0) with 0%nat. rewrite H0. reflexivity.
      * destruct (Nat.eqb_spec (N.to_nat j) k) as [Ek|Ek]; [|reflexivity].
        rewrite Ek, Hr, Ez. cbn [r_index].
        destruct (N.eqb_spec h j); [lia|]. destruct (N.eqb_spec 0 j); [lia|]. now rewrite !andb_false_r.
    + (* a live slot *)
      assert (Hrk : r_index r = N.of_nat k).
      { destruct (Hall k r ltac:(lia) Hr) as [_ Hb]. destruct (Hb ltac:(lia)); [congruence|assumption]. }
      assert (PW1 : pwf (recs rs) (S k)).
      { exists r0, fl. split; [exact H0|]. split; [exact Hc|]. split; [exact ND|]. split.
        { intros x Hx. apply Hfl in Hx. lia. }
        intros i r' Hi Hr'. destruct (Hall i r' Hi Hr') as [Ha Hb]. split.
        - intros Hlt. destruct (Nat.eq_dec i k) as [->|]; [right; congruence|apply Ha; lia].
        - intros Hge. apply Hb. lia. }
      exact (IH (S k) rs PW1 ltac:(lia) ltac:(lia)).
Qed.
