(* StoredDbOpsLinkHist.v — proofs (stored database, part 27): the COVERED QUERIES as storage programs, from the database
   invariant alone, and their histories.
     so_cq          the covered query shapes (one new node with values; values on an existing element; one edge between existing
                    nodes; removal of an edge / of a node without edges and alias)
     so_covered d c the side conditions in terms of the database d only: capacity < 2^60, ids existing, keys not indexed, values
                    valid (what a Rust program can hold), property vectors below 2^64 bytes; for a removal: the element has at
                    least one property (then its property vector is provably allocated: so_slot_valid)
     so_cq_stored   wf (gr d) + so_covered d c: the program ends in a store holding `fst (exec rv d q)` and returns the id
                    `snd (exec rv d q)` reports — the side conditions so_graph_ok / so_edge_ok / so_remove_edge_ok / so_index_ok
                    are DERIVED from C08's wf and the capacity bound (StoredDbOpsWf.v, StoredDbOpsLinkWf.v)
     so_cqs_stored  every list of covered queries from a stored database satisfying HInv (Inv, db_ok, empty undo stack: what
                    every history from db_new satisfies, C13_history_invariant): the sequence of programs ends in a store
                    holding the fold of `exec rv_fixed`, with the ids exec reports, and HInv again. *)
From Coq Require Import Permutation.
From Agdb Require Import Bytes BytesProofs Utf8 Codec DbValue ValueIndex Graph DbModel Search Queries Revisions Records RecordsProofs
  Storage StorageSpec
  StorageLayout StorageWp StorageRefine StorageProofs Collections CollValues CollWp CollBytes CollVecBase CollVecOps CollVec CollVec2
  CollElems CollSep CollMap CollGraph CollValuesProofs StoredDb StoredDbRep StoredDbLoad StoredDbProofs StoredDbFrame StoredDbOps
  StoredDbOpsGraph StoredDbOpsGraph2 StoredDbOpsGraph3 StoredDbOpsGraph4 StoredDbOpsDb StoredDbOpsKv StoredDbOpsKv2 StoredDbOpsKv3
  StoredDbOpsKv4 StoredDbOpsDb2 StoredDbOpsDb3 StoredDbOpsQuery StoredDbOpsRemove StoredDbOpsWf StoredDbOpsLink StoredDbOpsLinkWf.
From Agdb Require GraphSim GraphWf GraphSpec GraphProofs DbInvProofs QueryInvProofs HistoryAtomicProofs TraversalLiveProofs UndoGraph.
From Coq Require Import ZifyBool ZifyNat ZifyN.
Ltac Zify.zify_post_hook ::= Z.div_mod_to_equations.
Open Scope N_scope.
Arguments N.add : simpl never.
Arguments N.mul : simpl never.
Arguments N.sub : simpl never.
Arguments N.of_nat : simpl never.
Arguments N.to_nat : simpl never.
Arguments N.eqb : simpl never.
Arguments N.ltb : simpl never.
Arguments N.leb : simpl never.
Arguments N.div : simpl never.

Inductive so_cq :=
| CqInsertNode (l : list kv)
| CqInsertValues (id : Z) (l : list kv)
| CqInsertEdge (f t : Z)
| CqRemove (id : Z).

Definition cq_query (c : so_cq) : query :=
  match c with
  | CqInsertNode l => lq_insert_node l
  | CqInsertValues id l => lq_insert_values id l
  | CqInsertEdge f t => lq_insert_edge f t
  | CqRemove id => lq_remove id
  end.

(* the program of a covered query; it returns the id of the element it created *)
Definition cq_run (h : so_db) (c : so_cq) : cprog (so_db * option Z) :=
  match c with
  | CqInsertNode l => r <~ so_q_insert_node h l ;; CRet (fst r, Some (snd r))
  | CqInsertValues id l => h' <~ so_q_insert_values h id l ;; CRet (h', None)
  | CqInsertEdge f t => so_q_insert_edge h f t
  | CqRemove id => h' <~ so_q_remove h id ;; CRet (h', None)
  end.

(* the id of the element a query result reports (insert nodes / insert edges report the new element) *)
Definition cq_out (r : qres) : option Z :=
  match qres_ids r with Some (_, [id]) => Some id | _ => None end.

Definition so_cap_ok (d : db) : Prop := (capacity (gr d) < 1152921504606846976)%Z.

Definition so_covered (d : db) (c : so_cq) : Prop :=
  so_cap_ok d /\
  match c with
  | CqInsertNode l => let id := fst (insert_node_db d) in so_kvs_ok (reserve_kv (snd (insert_node_db d)) id) id l
  | CqInsertValues id l => graph_index (gr d) id = true /\ so_iors_ok (reserve_kv d id) id l
  | CqInsertEdge f t =>
    (0 < f)%Z /\ (0 < t)%Z /\
    (is_node (gr d) f = true /\ is_node (gr d) t = true \/
     (* an endpoint that is not a node: the query is rejected, nothing may change (database at rest) *)
     is_node (gr d) f && is_node (gr d) t = false /\ undo d = [])
  | CqRemove id =>
    kvs_get (vals d) id <> [] /\
    (forall x, In x (kvs_get (vals d) id) -> idx_find (indexes d) (fst x) = None) /\
    ((id < 0)%Z /\ is_edge (gr d) id = true \/
     (0 < id)%Z /\ is_node (gr d) id = true /\ imap_key (aliases d) id = None /\ from (gr d) id = 0%Z /\ to (gr d) id = 0%Z)
  end.

(* an element with a property has an allocated property vector *)
Lemma sd_kv_rep_slot g : forall vi vw kvs n,
  sd_kv_rep g vi vw kvs -> nth n kvs [] <> [] -> nth n vi 0 <> 0.
Proof.
  induction vi as [|i vi IH]; intros vw kvs n H Hn; destruct vw as [|w vw], kvs as [|l kvs]; cbn [sd_kv_rep] in H; try contradiction.
  - destruct n; cbn [nth] in Hn; contradiction Hn; reflexivity.
  - destruct H as [Hs Hr]. destruct n as [|n]; cbn [nth] in *.
    + unfold sd_kv_slot_rep in Hs. destruct w as [[hh bss]|]; [destruct Hs as [X _]; exact X|destruct Hs as [_ X]; contradiction].
    + eapply IH; eassumption.
Qed.

Lemma stored_slot_valid g root d w id :
  stored_db_w g root d w -> kvs_get (vals d) id <> [] -> so_slot_valid (sw_vi w) (zabs_nat id).
Proof. intros H Hn. right. eapply sd_kv_rep_slot; [exact (sr_v _ _ _ _ H)|exact Hn]. Qed.

Lemma wf_node_count_pos g n : GraphSim.wf g -> is_node g n = true -> (1 <= tmeta g 0)%Z.
Proof.
  intros [a [fl HS]] Nn. apply (GraphProofs.is_node_iff _ _ _ _ _ _ _ _ _ HS) in Nn.
  pose proof (GraphSpec.sim_node_count _ _ _ HS) as E. unfold node_count in E. rewrite E.
  destruct (GraphSim.a_nodes a); [destruct Nn|cbn [length]; lia].
Qed.

Section CoveredStep.
  Variable fl : bool.
  Variable rv : revision.

  Theorem so_cq_stored root d w h c sp :
    stored_db_w (hp sp) root d w -> so_handles h w -> GraphSim.wf (gr d) -> so_covered d c ->
    cwp fl (cq_run h c) sp
        (fun r sp' => exists h' w', r = CrOk (h', cq_out (snd (Queries.exec rv d (cq_query c)))) /\
                        stored_db_w (hp sp') root (fst (Queries.exec rv d (cq_query c))) w' /\ so_handles h' w' /\
                        sdepth sp' = sdepth sp /\ frame (hp sp) (hp sp') (sd_foot root w) (sd_foot root w')).
  Proof.
    intros H Hh W [Hcap Hc]. unfold so_cap_ok in Hcap.
    pose proof (wf_so_graph_ok _ W Hcap) as OK.
    destruct c as [l|id l|f t|id]; cbn [cq_run cq_query].
    - (* insert node *)
      destruct (wf_new_ids_ok _ W Hcap) as [Hix _].
      apply cwp_bind. eapply cwp_mono; [|eapply (so_exec_insert_node_stored fl rv); [exact H|exact Hh|exact OK| |exact Hc]].
      + intros r sp' (h' & w' & -> & R & H' & Hh' & D' & F'). cbn [kont cwp fst snd].
        exists h', w'. unfold cq_out. rewrite R. auto.
      + unfold insert_node_db. destruct (insert_node (gr d)) as [i g1] eqn:E. cbn [fst] in *. exact Hix.
    - (* insert values *)
      destruct Hc as [G Hkv].
      apply cwp_bind. eapply cwp_mono; [|eapply (so_exec_insert_values_stored fl rv); [exact H|exact Hh|exact G| |exact Hkv]].
      + intros r sp' (h' & w' & -> & R & H' & Hh' & D' & F'). cbn [kont cwp].
        exists h', w'. unfold cq_out. rewrite R. auto.
      + eapply graph_index_ok; eassumption.
    - (* insert edge *)
      destruct Hc as (Pf & Pt & [[Nf Nt]|[Hn U]]); [destruct (wf_new_ids_ok _ W Hcap) as [_ Hix]|].
      + eapply cwp_mono; [|eapply (so_exec_insert_edge_stored fl rv); [exact H|exact Hh|exact OK|exact Nf|exact Nt|exact Pf|exact Pt| |exact Hix]].
        * intros r sp' (h' & w' & -> & R & H' & Hh' & D' & F').
          exists h', w'. unfold cq_out. rewrite R. auto.
        * apply wf_so_edge_ok; assumption.
      + eapply cwp_mono; [|eapply (so_exec_insert_edge_rejected_stored fl rv); [exact H|exact Hh|exact OK|exact Pf|exact Pt|exact Hn|exact U]].
        intros r sp' (-> & R & Ed & H' & D' & F').
        exists h, w. unfold cq_out. rewrite R, Ed. auto.
    - (* remove *)
      destruct Hc as (Hne & Hnix & [[He Ie]|(Hn & Nn & Al & Ef & Et)]).
      + apply cwp_bind. eapply cwp_mono; [|eapply (so_exec_remove_edge_stored fl rv);
            [exact H|exact Hh|exact He|exact Ie|exact OK|apply wf_so_remove_edge_ok; assumption|eapply stored_slot_valid; eassumption|exact Hnix]].
        intros r sp' (h' & w' & -> & R & H' & Hh' & D' & F'). cbn [kont cwp].
        exists h', w'. unfold cq_out. rewrite R. auto.
      + apply cwp_bind. eapply cwp_mono; [|eapply (so_exec_remove_isolated_node_stored fl rv);
            [exact H|exact Hh|exact Hn|exact OK|exact Nn|exact Al|exact Ef|exact Et|eapply wf_node_count_pos; eassumption
            |eapply stored_slot_valid; eassumption|exact Hnix]].
        intros r sp' (h' & w' & -> & R & H' & Hh' & D' & F'). cbn [kont cwp].
        exists h', w'. unfold cq_out. rewrite R. auto.
  Qed.

  Lemma exec_peak d q d1 n els :
    is_mutating q = true -> exec_mut_step rv d q = StOk d1 (n, els) ->
    gr (fst (exec_in_txn rv d q)) = gr (fst (Queries.exec rv d q)).
  Proof.
    intros M E. rewrite (exec_of_step rv d q d1 n els M E). unfold exec_in_txn. rewrite M, E. reflexivity.
  Qed.

  (* the state before the commit / rollback of a covered query has the graph of the result *)
  Lemma covered_peak d c :
    GraphSim.wf (gr d) -> so_covered d c ->
    gr (fst (exec_in_txn rv d (cq_query c))) = gr (fst (Queries.exec rv d (cq_query c))).
  Proof.
    intros W [Hcap Hc]. destruct c as [l|id l|f t|id]; cbn [cq_query].
    - eapply exec_peak; [reflexivity|apply step_insert_node].
    - destruct Hc as [G _]. eapply exec_peak; [reflexivity|apply step_insert_values; exact G].
    - destruct Hc as (Pf & Pt & [[Nf Nt]|[Hn U]]).
      + assert (E : exists e d1, insert_edge_db d f t = DbModel.ROk (e, d1)).
        { unfold insert_edge_db, insert_edge. rewrite Nf, Nt. cbn [andb].
          destruct (get_free_index (gr d)) as [slot g1]. eexists _, _. reflexivity. }
        destruct E as (e & d1 & E). eapply exec_peak; [reflexivity|]. eapply step_insert_edge; [| |exact E].
        * unfold graph_index. destruct (Z.ltb_spec f 0) as [X|_]; [lia|]. destruct (Z.ltb_spec 0 f) as [_|X]; [exact Nf|lia].
        * unfold graph_index. destruct (Z.ltb_spec t 0) as [X|_]; [lia|]. destruct (Z.ltb_spec 0 t) as [_|X]; [exact Nt|lia].
      + destruct (step_insert_edge_fail rv d f t Pf Pt Hn) as [e E].
        rewrite (exec_of_err rv d (lq_insert_edge f t) e eq_refl E U). unfold exec_in_txn. rewrite E. reflexivity.
    - destruct Hc as (_ & _ & [[He Ie]|(Hn & Nn & Al & Ef & Et)]).
      + destruct (GraphWf.wf_remove_edge _ id W) as [G' [EG _]]; [lia|]. eapply exec_peak; [reflexivity|]. eapply step_remove_edge; eassumption.
      + destruct (GraphWf.wf_remove_node _ id W) as [G' [EG _]]; [lia|]. eapply exec_peak; [reflexivity|]. apply step_remove_isolated_node; try assumption.
        unfold remove_node_db. rewrite Nn. cbn [negb]. rewrite (node_edges_isolated d id Ef Et). cbn [fold_left]. rewrite EG. reflexivity.
  Qed.

  Lemma cq_mutating c : is_mutating (cq_query c) = true.
  Proof. destruct c; reflexivity. Qed.
End CoveredStep.

(* ---------------- histories ---------------- *)
Fixpoint cq_runs (h : so_db) (l : list so_cq) : cprog (so_db * list (option Z)) :=
  match l with
  | [] => CRet (h, [])
  | c :: t =>
    r <~ cq_run h c ;;
    r' <~ cq_runs (fst r) t ;;
    CRet (fst r', snd r :: snd r')
  end.

(* the model: the fold of Queries.exec over the queries, with the ids it reports *)
Fixpoint cq_model (rv : revision) (d : db) (l : list so_cq) : db * list (option Z) :=
  match l with
  | [] => (d, [])
  | c :: t =>
    let r := Queries.exec rv d (cq_query c) in
    let r' := cq_model rv (fst r) t in
    (fst r', cq_out (snd r) :: snd r')
  end.

Lemma cq_model_fold rv l : forall d, fst (cq_model rv d l) = fold_left (fun a c => fst (Queries.exec rv a (cq_query c))) l d.
Proof. induction l as [|c t IH]; intros d; cbn [cq_model fold_left fst]; [reflexivity|apply IH]. Qed.

(* every query is covered in the database it runs on (query_ok: its property list does not name a key twice — the
   side condition of the history invariants C09 / C13); the capacity stays below 2^60 *)
Fixpoint so_covered_all (rv : revision) (d : db) (l : list so_cq) : Prop :=
  match l with
  | [] => True
  | c :: t => so_covered d c /\ QueryInvProofs.query_ok (cq_query c) /\
              so_cap_ok (fst (Queries.exec rv d (cq_query c))) /\
              so_covered_all rv (fst (Queries.exec rv d (cq_query c))) t
  end.

Section CoveredHist.
  Variable fl : bool.

  Theorem so_cqs_stored root : forall l d w h sp,
    stored_db_w (hp sp) root d w -> so_handles h w -> HistoryAtomicProofs.HInv d -> so_covered_all rv_fixed d l ->
    cwp fl (cq_runs h l) sp
        (fun r sp' => exists h' w', r = CrOk (h', snd (cq_model rv_fixed d l)) /\
                        stored_db_w (hp sp') root (fst (cq_model rv_fixed d l)) w' /\ so_handles h' w' /\
                        HistoryAtomicProofs.HInv (fst (cq_model rv_fixed d l)) /\
                        sdepth sp' = sdepth sp /\ frame (hp sp) (hp sp') (sd_foot root w) (sd_foot root w')).
  Proof.
    induction l as [|c t IH]; intros d w h sp H Hh HI OK; cbn [cq_runs cq_model so_covered_all fst snd] in *.
    - cbn [cwp]. exists h, w. repeat (split; [first [reflexivity|assumption]|]). apply frame_refl. intros j; reflexivity.
    - destruct OK as (Hc & Hq & Hcap' & OK'). pose proof HI as [[W _] _].
      assert (HI' : HistoryAtomicProofs.HInv (fst (Queries.exec rv_fixed d (cq_query c)))).
      { apply (HistoryAtomicProofs.item_atomic rv_fixed eq_refl eq_refl eq_refl eq_refl eq_refl TraversalLiveProofs.search_live_fixed
                 d (HistoryAtomicProofs.HQuery (cq_query c)) Hq HI).
        cbn [HistoryAtomicProofs.item_peak]. rewrite (covered_peak rv_fixed d c W Hc).
        unfold so_cap_ok in Hcap'. unfold UndoGraph.two63z. lia. }
      apply cwp_bind. eapply cwp_mono; [|eapply (so_cq_stored fl rv_fixed); eassumption].
      intros r sp1 (h1 & w1 & -> & H1 & Hh1 & D1 & F1). cbn [kont fst snd].
      apply cwp_bind. eapply cwp_mono; [|eapply IH; eassumption].
      intros r2 sp2 (h2 & w2 & -> & H2 & Hh2 & HI2 & D2 & F2). cbn [kont cwp fst snd].
      exists h2, w2. split; [reflexivity|]. split; [exact H2|]. split; [exact Hh2|]. split; [exact HI2|]. split; [congruence|].
      eapply frame_trans; eassumption.
  Qed.
End CoveredHist.
