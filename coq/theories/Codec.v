(* Codec.v — model of agdb's binary serialization
   (agdb/src/utilities/serialize.rs, agdb_derive/src/db_serialize.rs).
   Definitions only. *)
From Agdb Require Import Bytes Utf8.
Open Scope N_scope.

(* Type descriptions.  TStruct covers named structs, tuple structs and unit
   structs (identical encoding: fields in order).  TEnum lists the field
   types of each variant; the tag byte is the variant position. *)
Inductive ty : Type :=
| TU64 | TI64 | TF64 | TUsize | TBool
| TStr            (* String; also PathBuf / SocketAddr / IpAddr via their display string *)
| TBytes          (* Vec<u8> *)
| TTime           (* SystemTime *)
| TVec (t : ty)
| TStruct (fs : list ty)
| TEnum (vs : list (list ty)).

(* Untyped value trees. *)
Inductive val : Type :=
| VU64 (n : N)
| VI64 (z : Z)
| VF64 (bits : N)             (* the 64-bit pattern *)
| VUsize (n : N)
| VBool (b : bool)
| VStr (bs : bytes)
| VBytes (bs : bytes)
| VTime (secs nanos : N) (after_epoch : bool)
| VVec (l : list val)
| VStruct (l : list val)
| VEnum (tag : nat) (l : list val).

(* ---------- encoding and size: recursion on the value ---------- *)

Fixpoint enc (v : val) : bytes :=
  match v with
  | VU64 n => le64 n
  | VI64 z => le64 (z2u z)
  | VF64 b => le64 b
  | VUsize n => le64 n
  | VBool b => [if b then x01 else x00]
  | VStr bs => le64 (lenN bs) ++ bs
  | VBytes bs => le64 (lenN bs) ++ bs
  | VTime s n a => le64 s ++ le32 n ++ [if a then x01 else x00]
  | VVec l => le64 (lenN l) ++ concat (map enc l)
  | VStruct l => concat (map enc l)
  | VEnum tag l => n2b (N.of_nat tag) :: concat (map enc l)
  end.

Definition sumN (l : list N) : N := fold_right N.add 0 l.

(* serialized_size as the code computes it (sums of the parts) *)
Fixpoint size (v : val) : N :=
  match v with
  | VU64 _ | VI64 _ | VF64 _ | VUsize _ => 8
  | VBool _ => 1
  | VStr bs => 8 + lenN bs
  | VBytes bs => 8 + lenN bs
  | VTime _ _ _ => 13
  | VVec l => 8 + sumN (map size l)
  | VStruct l => sumN (map size l)
  | VEnum _ l => 1 + sumN (map size l)
  end.

(* ---------- typing and well-formedness ---------- *)

Definition nanos_per_sec : N := 1000000000.

Section TypeHelpers.
  Variable ht : ty -> val -> bool.
  Fixpoint has_types (fs : list ty) (l : list val) {struct fs} : bool :=
    match fs, l with
    | [], [] => true
    | f :: fs', x :: l' => ht f x && has_types fs' l'
    | _, _ => false
    end.
  Fixpoint pick_types (vs : list (list ty)) (k : nat) (l : list val) {struct vs} : bool :=
    match vs, k with
    | fs :: _, O => has_types fs l
    | _ :: vs', S k' => pick_types vs' k' l
    | [], _ => false
    end.
End TypeHelpers.

Definition two60 : N := 1152921504606846976.

(* has_type t v: v is a value of type t that a Rust program can hold
   (integers in range, strings valid UTF-8, lengths within what an allocation
   can hold, SystemTime representable and in canonical form) *)
Fixpoint has_type (t : ty) (v : val) {struct t} : bool :=
  match t, v with
  | TU64, VU64 n => n <? two64
  | TI64, VI64 z => (Z.leb (-9223372036854775808) z) && (Z.ltb z 9223372036854775808)
  | TF64, VF64 b => b <? two64
  | TUsize, VUsize n => n <? two64
  | TBool, VBool _ => true
  | TStr, VStr bs => utf8_valid bs && (lenN bs <? two60)
  | TBytes, VBytes bs => lenN bs <? two60
  | TTime, VTime s n a =>
      (n <? nanos_per_sec) && (s <? two63) && (a || negb ((s =? 0) && (n =? 0)))
  | TVec t', VVec l => forallb (has_type t') l && (lenN l <? two60)
  | TStruct fs, VStruct l => has_types has_type fs l
  | TEnum vs, VEnum tag l => (Nat.ltb tag 256) && pick_types has_type vs tag l
  | _, _ => false
  end.

(* smallest number of bytes an encoding of the type occupies *)
Fixpoint min_size (t : ty) : N :=
  match t with
  | TU64 | TI64 | TF64 | TUsize | TStr | TBytes | TVec _ => 8
  | TBool => 1
  | TTime => 13
  | TStruct fs => sumN (map min_size fs)
  | TEnum _ => 1
  end.

(* every vector element type occupies at least one byte: excludes
   Vec<unit-like struct>, for which the real decoder iterates `len` times
   without consuming input (see DESIGN C21) *)
Fixpoint ty_ok (t : ty) : bool :=
  match t with
  | TVec t' => (1 <=? min_size t') && ty_ok t'
  | TStruct fs => forallb ty_ok fs
  | TEnum vs => forallb (forallb ty_ok) vs
  | _ => true
  end.

(* ---------- decoding: recursion on the type ---------- *)

(* `mode` records which build profile is modelled for arithmetic on
   untrusted lengths: debug = overflow panics, release = wraps mod 2^64. *)
Inductive profile := Debug | Release.

(* Which revision of the decoder's guards is modelled.  The model follows the
   code in /repo: after the `fix:` commits the guarded variant is the code. *)
Record guards := {
  g_cap_clamped : bool;     (* Vec::with_capacity(len) clamped by the input length *)
  g_add_checked : bool;     (* begin + len computed with checked_add / get(begin..) *)
  g_time_checked : bool     (* nanos >= 1e9 / Duration overflow rejected before Duration::new *)
}.

Definition rd64 (bs : bytes) : outcome N :=
  match slice bs 0 8 with Some s => Ok (de s) | None => Err end.

(* memory size of one element of Vec<T> (size_of::<T>(), lower bound suffices:
   0 only for field-less structs) *)
Definition elem_mem (t : ty) : N :=
  match t with TStruct [] => 0 | TBool => 1 | _ => 8 end.

Definition isize_max : N := two63 - 1.

(* String / Vec<u8> body: bytes.get(begin..end) with end = begin + len *)
Definition dec_blob (p : profile) (g : guards) (bs : bytes) : outcome (bytes * N) :=
  obind (rd64 bs) (fun len =>
    let wrapped := (8 + len) mod two64 in
    if negb (g_add_checked g) && (two64 <=? 8 + len) && match p with Debug => true | Release => false end
    then Panic
    else
      let e := if g_add_checked g then 8 + len else wrapped in
      if (8 <=? e) && (e <=? lenN bs)
      then Ok (firstn (N.to_nat len) (skipn 8 bs), 8 + len)
      else Err).

Section DecHelpers.
  (* helpers parameterised by the element decoder; `dec` below instantiates
     them with itself on structurally smaller types *)
  Variable decf : ty -> bytes -> outcome (val * N).
  Variable bs : bytes.

  (* fields of a struct / tuple / enum variant, decoded at increasing offsets:
     `<T>::deserialize(&buffer[__offset as usize..])?; __offset += size` *)
  Fixpoint dec_fields (mk : list val -> val) (fs : list ty) (off : N) (acc : list val)
    {struct fs} : outcome (val * N) :=
    match fs with
    | [] => Ok (mk (rev acc), off)
    | f :: fs' =>
        if lenN bs <? off then Panic
        else match decf f (skipn (N.to_nat off) bs) with
             | Ok (v, sz) => dec_fields mk fs' (off + sz) (v :: acc)
             | Err => Err | Panic => Panic | Alloc => Alloc | Fuel => Fuel
             end
    end.

  (* `for _ in 0..len { T::deserialize(&bytes[begin..])?; begin += size }` *)
  Definition dec_loop (t' : ty) := fix dec_loop (fuel : nat) (k : N) (off : N) (acc : list val)
    {struct fuel} : outcome (val * N) :=
    if k =? 0 then Ok (VVec (rev acc), off)
    else match fuel with
         | O => Fuel
         | S f =>
             if lenN bs <? off then Panic
             else match decf t' (skipn (N.to_nat off) bs) with
                  | Ok (v, sz) => dec_loop f (k - 1) (off + sz) (v :: acc)
                  | Err => Err | Panic => Panic | Alloc => Alloc | Fuel => Fuel
                  end
         end.

  Fixpoint dec_pick (tag : nat) (vs : list (list ty)) (k : nat) {struct vs} : outcome (val * N) :=
    match vs, k with
    | fs :: _, O => dec_fields (VEnum tag) fs 1 []
    | _ :: vs', S k' => dec_pick tag vs' k'
    | [], _ => Err
    end.
End DecHelpers.

Section Dec.
  Variable p : profile.
  Variable g : guards.

  Definition dec_time (bs : bytes) : outcome (val * N) :=
    match slice bs 0 8, slice bs 8 4, slice bs 12 1 with
    | Some s8, Some n4, Some [fl] =>
        let secs := de s8 in let nanos := de n4 in
        let after := negb (b2n fl =? 0) in
        (* Duration::new(secs, nanos): carries nanos / 1e9 into secs, panics on overflow *)
        let carry := nanos / nanos_per_sec in
        if (two64 <=? secs + carry) then (if g_time_checked g then Err else Panic)
        else
          let s := secs + carry in let n := nanos mod nanos_per_sec in
          (* UNIX_EPOCH.checked_add / checked_sub over i64 seconds *)
          if after then
            (if s <? two63 then Ok (VTime s n true, 13) else Err)
          else
            (if (s <? two63) || ((s =? two63) && (n =? 0)) then
               Ok (VTime s n (if (s =? 0) && (n =? 0) then true else false), 13)
             else Err)
    | _, _, _ => Err
    end.

  (* Vec::with_capacity(len) for element type t' on input bs *)
  Definition vec_alloc (t' : ty) (bs : bytes) (len : N) : outcome unit :=
    let cap := if g_cap_clamped g then N.min len (lenN bs) else len in
    if isize_max <? cap * elem_mem t' then Panic          (* capacity overflow *)
    else if (lenN bs + 1) * 64 <? cap * elem_mem t' then Alloc
    else Ok tt.

  Fixpoint dec (t : ty) (bs : bytes) {struct t} : outcome (val * N) :=
    match t with
    | TU64 => obind (rd64 bs) (fun n => Ok (VU64 n, 8))
    | TI64 => obind (rd64 bs) (fun n => Ok (VI64 (u2z n), 8))
    | TF64 => obind (rd64 bs) (fun n => Ok (VF64 n, 8))
    | TUsize => obind (rd64 bs) (fun n => Ok (VUsize n, 8))
    | TBool => match bs with b :: _ => Ok (VBool (negb (b2n b =? 0)), 1) | [] => Err end
    | TStr => obind (dec_blob p g bs) (fun '(s, n) =>
               if utf8_valid s then Ok (VStr s, n) else Err)
    | TBytes => obind (dec_blob p g bs) (fun '(s, n) => Ok (VBytes s, n))
    | TTime => dec_time bs
    | TVec t' =>
        obind (rd64 bs) (fun len =>
          obind (vec_alloc t' bs len) (fun _ =>
            dec_loop dec bs t' (S (length bs)) len 8 []))
    | TStruct fs => dec_fields dec bs VStruct fs 0 []
    | TEnum vs =>
        match bs with
        | [] => Err
        | b :: _ => dec_pick dec bs (N.to_nat (b2n b)) vs (N.to_nat (b2n b))
        end
    end.
End Dec.

Definition guards_pinned : guards :=
  {| g_cap_clamped := false; g_add_checked := false; g_time_checked := false |}.
Definition guards_fixed : guards :=
  {| g_cap_clamped := true; g_add_checked := true; g_time_checked := true |}.
