(* Search.v — model of the search engine: SearchControl algebra, condition evaluation
   (db.rs evaluate_condition(s)), the limit/offset handlers (db_search_handlers.rs),
   SearchImpl with the four lazy iterators (graph_search/*.rs), the elements search,
   the path search, and SearchQuery::search with sort and slice (query/search_query.rs).
   Definitions only. *)
From Agdb Require Import Bytes DbValue Graph DbModel.
Open Scope Z_scope.

Inductive sc := Continue (b : bool) | Finish (b : bool) | Stop (b : bool).

Definition sc_and (l r : sc) : sc :=
  match l, r with
  | Continue a, Continue b => Continue (a && b)
  | Continue a, Finish b => Finish (a && b)
  | Continue a, Stop b => Stop (a && b)
  | Finish a, Continue b => Finish (a && b)
  | Finish a, Finish b => Finish (a && b)
  | Finish a, Stop b => Finish (a && b)
  | Stop a, Continue b => Stop (a && b)
  | Stop a, Finish b => Finish (a && b)
  | Stop a, Stop b => Stop (a && b)
  end.

Definition sc_or (l r : sc) : sc :=
  match l, r with
  | Continue a, Continue b => Continue (a || b)
  | Continue a, Finish b => Continue (a || b)
  | Continue a, Stop b => Continue (a || b)
  | Finish a, Continue b => Continue (a || b)
  | Finish a, Finish b => Finish (a || b)
  | Finish a, Stop b => Stop (a || b)
  | Stop a, Continue b => Continue (a || b)
  | Stop a, Finish b => Stop (a || b)
  | Stop a, Stop b => Stop (a || b)
  end.

Definition sc_true (c : sc) : bool := match c with Continue b | Finish b | Stop b => b end.
Definition sc_flip (c : sc) : sc :=
  match c with Continue b => Continue (negb b) | Finish b => Finish (negb b) | Stop b => Stop (negb b) end.
Definition sc_set (c : sc) (v : bool) : sc :=
  match c with Continue _ => Continue v | Finish _ => Finish v | Stop _ => Stop v end.

Inductive count_cmp :=
| KEqual (n : Z) | KGreaterThan (n : Z) | KGreaterThanOrEqual (n : Z)
| KLessThan (n : Z) | KLessThanOrEqual (n : Z) | KNotEqual (n : Z).

(* CountComparison::compare_distance(right) *)
Definition compare_distance (c : count_cmp) (right : Z) : sc :=
  match c with
  | KEqual l => match right ?= l with Lt => Continue false | Eq => Stop true | Gt => Stop false end
  | KGreaterThan l => match right ?= l with Gt => Continue true | _ => Continue false end
  | KGreaterThanOrEqual l => match right ?= l with Lt => Continue false | _ => Continue true end
  | KLessThan l => match right ?= l with Lt => Continue true | _ => Stop false end
  | KLessThanOrEqual l => match right ?= l with Gt => Stop false | _ => Continue true end
  | KNotEqual l => match right ?= l with Eq => Continue false | _ => Continue true end
  end.

(* CountComparison::compare(left) *)
Definition count_compare (c : count_cmp) (left : Z) : bool :=
  match c with
  | KEqual r => left =? r
  | KGreaterThan r => r <? left
  | KGreaterThanOrEqual r => r <=? left
  | KLessThan r => left <? r
  | KLessThanOrEqual r => left <=? r
  | KNotEqual r => negb (left =? r)
  end.

Inductive logic := LAnd | LOr.
Inductive modifier := MNone | MBeyond | MNot | MNotBeyond.

Inductive cond_data :=
| CDistance (c : count_cmp)
| CEdge
| CEdgeCount (c : count_cmp)
| CEdgeCountFrom (c : count_cmp)
| CEdgeCountTo (c : count_cmp)
| CIds (ids : list qid)
| CKeyValue (key : dbvalue) (op : comparison_op) (value : dbvalue)
| CKeys (keys : list dbvalue)
| CNode
| CWhere (conds : list cond)
with cond := Cond (l : logic) (m : modifier) (d : cond_data).

Section Rev.
  Variable rv : revision.

  Section Eval.
    Variable d : db.

    Definition ids_match (index : Z) (ids : list qid) : bool :=
      existsb (fun q => index =? match q with
                                 | QId id => id
                                 | QAlias a => match imap_value (aliases d) a with Some id => id | None => 0 end
                                 end) ids.

    (* evaluate_condition / evaluate_conditions *)
    Fixpoint eval_data (index distance : Z) (c : cond_data) {struct c} : sc :=
      match c with
      | CDistance v => compare_distance v distance
      | CEdge => Continue (index <? 0)
      | CEdgeCount v =>
          Continue (if is_node (gr d) index
                    then count_compare v (edge_count_from (gr d) index + edge_count_to (gr d) index) else false)
      | CEdgeCountFrom v =>
          Continue (if is_node (gr d) index then count_compare v (edge_count_from (gr d) index) else false)
      | CEdgeCountTo v =>
          Continue (if is_node (gr d) index then count_compare v (edge_count_to (gr d) index) else false)
      | CIds ids => Continue (ids_match index ids)
      | CKeyValue key op value =>
          Continue (match kvs_value (vals d) index key with
                    | Some v => value_compare (fix_strict_order rv) op v value
                    | None => false
                    end)
      | CKeys keys =>
          Continue (forallb (fun k => mem dbv_eqb k (map fst (kvs_get (vals d) index))) keys)
      | CNode => Continue (0 <? index)
      | CWhere conds =>
          (fix go (cs : list cond) (result : sc) {struct cs} : sc :=
             match cs with
             | [] => result
             | Cond lg md data :: r =>
                 let control0 := eval_data index distance data in
                 let control :=
                   match md with
                   | MBeyond => if sc_true control0 || (distance =? 0) then Continue (sc_true result)
                                else Stop (sc_true result)
                   | MNot => sc_flip control0
                   | MNotBeyond => if sc_true control0 then Stop (sc_true result)
                                   else Continue (sc_true result)
                   | MNone => control0
                   end in
                 go r (match lg with LAnd => sc_and result control | LOr => sc_or result control end)
             end) conds (Continue true)
      end.

    Definition eval_conditions (index distance : Z) (conds : list cond) : sc :=
      eval_data index distance (CWhere conds).
  End Eval.

  (* ---- handlers: Default / Limit / Offset / LimitOffset as one state machine ---- *)
  Inductive handler_kind := HDefault | HLimit (limit : Z) | HOffset (offset : Z) | HLimitOffset (limit offset : Z).

  (* returns (control, new counter) *)
  Definition handle (h : handler_kind) (counter : Z) (control : sc) : sc * Z :=
    match h with
    | HDefault => (control, counter)
    | HLimit limit =>
        let add := sc_true control in
        let counter' := if add then counter + 1 else counter in
        if counter' =? limit then (Finish add, counter') else (control, counter')
    | HOffset offset =>
        if sc_true control then
          let counter' := counter + 1 in (sc_set control (offset <? counter'), counter')
        else (control, counter)
    | HLimitOffset limit offset =>
        (* constructed with limit := limit + offset *)
        let '(control', counter') :=
          if sc_true control then
            let c' := counter + 1 in (sc_set control (offset <? c'), c')
          else (control, counter) in
        if counter' =? limit then (Finish (sc_true control'), counter') else (control', counter')
    end.

  Definition handler_of (limit offset : Z) : handler_kind :=
    if (limit =? 0) && (offset =? 0) then HDefault
    else if offset =? 0 then HLimit limit
    else if limit =? 0 then HOffset offset
    else HLimitOffset (limit + offset) offset.

  (* ---- SearchImpl with the lazy iterators ---- *)
  Inductive algo := BFS | DFS.

  Definition visited (vs : list Z) (i : Z) : bool := existsb (Z.eqb (Z.abs i)) vs.

  (* expand: new work list.  `front` items are (index, distance). *)
  Definition expand (g : graph) (a : algo) (reverse : bool) (origin : Z) (work : list (Z * Z)) (cur : Z * Z) (follow : bool)
    : list (Z * Z) :=
    let '(index, dist) := cur in
    let first := if reverse then first_edge_to g index else first_edge_from g index in
    let sibling := if reverse then next_edge_to g index else next_edge_from g index in
    let target := if reverse then edge_from g index else edge_to g index in
    if 0 <? index then
      if follow && negb (first =? 0) then
        match a with
        | BFS => work ++ [(first, dist + 1)]
        | DFS => (first, dist + 1) :: work
        end
      else work
    else
      (* an edge; the origin edge's siblings are not part of the search when the fix is in *)
      let chain := negb (sibling =? 0) && negb (fix_edge_origin rv && (dist =? 0)) in
      match a with
      | BFS =>
          let w1 := if follow then work ++ [(target, dist + 1)] else work in
          if chain then (sibling, dist) :: w1 else w1
      | DFS =>
          let w1 := if chain then (sibling, dist) :: work else work in
          if follow then (target, dist + 1) :: w1 else w1
      end.

  (* the main loop, on fuel; returns the result list (in order) or None when out of fuel *)
  Fixpoint search_loop (d : db) (a : algo) (reverse : bool) (origin : Z) (conds : list cond) (h : handler_kind)
           (fuel : nat) (work : list (Z * Z)) (vis : list Z) (counter : Z) (acc : list Z) : option (list Z) :=
    match fuel with
    | O => None
    | S f =>
      match work with
      | [] => Some (rev acc)
      | cur :: rest =>
        let '(index, dist) := cur in
        if visited vis index then
          (* a visited edge (the origin met again in its node's list) still continues the lazy list *)
          let rest' := if fix_visited_chain rv && (index <? 0) then expand (gr d) a reverse origin rest cur false
                       else rest in
          search_loop d a reverse origin conds h f rest' vis counter acc
        else
          let vis' := Z.abs index :: vis in
          let '(control, counter') := handle h counter (eval_conditions d index dist conds) in
          match control with
          | Continue add =>
              search_loop d a reverse origin conds h f (expand (gr d) a reverse origin rest cur true) vis' counter'
                          (if add then index :: acc else acc)
          | Finish add => Some (rev (if add then index :: acc else acc))
          | Stop add =>
              search_loop d a reverse origin conds h f (expand (gr d) a reverse origin rest cur false) vis' counter'
                          (if add then index :: acc else acc)
          end
      end
    end.

  (* every element is visited at most once and each visit pushes at most two items *)
  Definition search_fuel (g : graph) : nat := 4 * length (g_from g) + 4.

  Definition graph_search (d : db) (a : algo) (reverse : bool) (origin : Z) (conds : list cond) (h : handler_kind)
    : option (list Z) :=
    if is_node (gr d) origin || is_edge (gr d) origin then
      search_loop d a reverse origin conds h (search_fuel (gr d)) [(origin, 0)] [] 0 []
    else Some [].

  (* ---- elements search ---- *)
  Fixpoint elements_loop (d : db) (conds : list cond) (h : handler_kind) (els : list Z) (distance : Z) (counter : Z)
           (acc : list Z) : list Z :=
    match els with
    | [] => rev acc
    | index :: r =>
      let '(control, counter') := handle h counter (eval_conditions d index distance conds) in
      let acc' := if sc_true control then index :: acc else acc in
      match control with
      | Finish _ => rev acc'
      | _ => elements_loop d conds h r (distance + 1) counter' acc'
      end
    end.

  Definition elements_search (d : db) (conds : list cond) (h : handler_kind) : list Z :=
    elements_loop d conds h (elements (gr d)) 0 0 [].

  (* ---- path search ---- *)
  Record path := { p_elems : list (Z * bool); p_cost : Z }.   (* elements oldest first *)

  (* PathHandler::process : (cost, add) *)
  Definition path_cost (d : db) (conds : list cond) (index distance : Z) : Z * bool :=
    match eval_conditions d index distance conds with
    | Continue add => (if add then 1 else 2, add)
    | Finish add | Stop add => (0, add)
    end.

  (* sort_paths: stable sort, cost descending, then length descending; the LAST is popped *)
  Definition path_before (l r : path) : bool :=    (* l must come strictly before r *)
    (p_cost r <? p_cost l) || ((p_cost l =? p_cost r) && Nat.ltb (length (p_elems r)) (length (p_elems l))).
  Fixpoint insert_path (x : path) (l : list path) : list path :=
    match l with
    | [] => [x]
    | y :: r => if path_before y x then y :: insert_path x r else x :: y :: r
    end.
  (* stable: elements are inserted from the right end of the input, so an element is placed
     before the (originally later) elements it is equal to *)
  Definition sort_paths (l : list path) : list path :=
    fold_right (fun x acc => insert_path x acc) [] l.

  Definition last_index (p : path) : Z := match rev (p_elems p) with (i, _) :: _ => i | [] => 0 end.

  Fixpoint path_loop (d : db) (conds : list cond) (dest : Z) (fuel : nat) (paths : list path) (vis : list Z)
    : option (list (Z * bool)) :=
    match fuel with
    | O => None
    | S f =>
      match rev (sort_paths paths) with
      | [] => Some []
      | cur :: rest_rev =>
        let paths' := rev rest_rev in
        let index := last_index cur in
        if visited vis index then path_loop d conds dest f paths' vis
        else if index =? dest then Some (p_elems cur)
        else
          let vis' := Z.abs index :: vis in
          let dist := Z.of_nat (length (p_elems cur)) + 1 in
          let new_paths :=
            flat_map (fun e =>
              let node := edge_to (gr d) e in
              let ce := path_cost d conds e dist in
              if negb (fst ce =? 0) && negb (visited vis' node) then
                let cn := path_cost d conds node dist in
                if negb (fst cn =? 0) then
                  [ {| p_elems := p_elems cur ++ [(e, snd ce); (node, snd cn)];
                       p_cost := p_cost cur + fst ce + fst cn |} ]
                else []
              else []) (out_edges (gr d) index) in
          path_loop d conds dest f (paths' ++ new_paths) vis'
      end
    end.

  Definition path_search (d : db) (conds : list cond) (origin dest : Z) : option (list Z) :=
    if negb (origin =? dest) && is_node (gr d) origin && is_node (gr d) dest then
      let add := snd (path_cost d conds origin 0) in
      match path_loop d conds dest (length (g_from (gr d)) * length (g_from (gr d)) + 2)
                      [ {| p_elems := [(origin, add)]; p_cost := 0 |} ] [] with
      | Some els => Some (map fst (filter snd els))
      | None => None
      end
    else Some [].

  (* ---- SearchQuery ---- *)
  Inductive algorithm := ABreadthFirst | ADepthFirst | AIndex | AElements.
  Inductive key_order := Asc (k : dbvalue) | Desc (k : dbvalue).

  Record search_query := {
    s_algorithm : algorithm;
    s_origin : qid;
    s_destination : qid;
    s_limit : Z;
    s_offset : Z;
    s_order_by : list key_order;
    s_conditions : list cond
  }.

  Definition order_key (o : key_order) : dbvalue := match o with Asc k | Desc k => k end.

  (* the comparator of SearchQuery::sort *)
  Fixpoint order_cmp (d : db) (orders : list key_order) (l r : Z) : comparison :=
    match orders with
    | [] => Eq
    | o :: rest =>
      let k := order_key o in
      let c := match kvs_value (vals d) l k, kvs_value (vals d) r k with
               | None, None => Eq
               | None, Some _ => Gt
               | Some _, None => Lt
               | Some a, Some b => match o with Asc _ => dbv_cmp a b | Desc _ => CompOpp (dbv_cmp a b) end
               end in
      match c with Eq => order_cmp d rest l r | _ => c end
    end.

  Fixpoint insert_sorted (cmp : Z -> Z -> comparison) (x : Z) (l : list Z) : list Z :=
    match l with
    | [] => [x]
    | y :: r => match cmp x y with Gt => y :: insert_sorted cmp x r | _ => x :: y :: r end
    end.
  (* stable: elements are inserted from the right end of the input, an element goes before the
     (originally later) elements it is equal to *)
  Definition stable_sort (cmp : Z -> Z -> comparison) (l : list Z) : list Z :=
    fold_right (fun x acc => insert_sorted cmp x acc) [] l.

  Inductive sres := SOk (ids : list Z) | SErr (e : errkind) | SPanic.

  (* SearchQuery::slice *)
  Definition slice_ids (limit offset : Z) (ids : list Z) : sres :=
    let n := Z.of_nat (length ids) in
    if (limit =? 0) && (offset =? 0) then SOk ids
    else if limit =? 0 then
      (if offset <=? n then SOk (skipn (Z.to_nat offset) ids)
       else if fix_slice_clamp rv then SOk [] else SPanic)
    else if offset =? 0 then SOk (firstn (Z.to_nat limit) ids)
    else
      (if offset + limit <=? n then SOk (firstn (Z.to_nat limit) (skipn (Z.to_nat offset) ids))
       else if fix_slice_clamp rv then SOk (firstn (Z.to_nat limit) (skipn (Z.to_nat offset) ids)) else SPanic).

  Definition opt_ids (o : option (list Z)) : sres := match o with Some l => SOk l | None => SErr EFuel end.

  Definition is_zero_id (q : qid) : bool := match q with QId 0 => true | _ => false end.

  Definition search (d : db) (s : search_query) : sres :=
    let conds := s_conditions s in
    let sorted_slice (r : sres) : sres :=
      match r with
      | SOk ids => slice_ids (s_limit s) (s_offset s) (stable_sort (order_cmp d (s_order_by s)) ids)
      | e => e
      end in
    let ordered := match s_order_by s with [] => false | _ => true end in
    let h := handler_of (s_limit s) (s_offset s) in
    match s_algorithm s with
    | AIndex =>
        match conds with
        | [] => SErr ENotEnoughData
        | Cond _ _ (CKeyValue key _ value) :: _ =>
            match idx_find (indexes d) key with
            | Some ids => SOk (map snd (filter (fun p : dbvalue * Z => dbv_eqb (fst p) value) ids))
            | None => SErr ENotFound
            end
        | _ => SErr ENotAllowed
        end
    | AElements =>
        if ordered then sorted_slice (SOk (elements_search d conds HDefault))
        else SOk (elements_search d conds h)
    | alg =>
        let a := match alg with ABreadthFirst => BFS | _ => DFS end in
        if is_zero_id (s_destination s) then
          match db_id d (s_origin s) with
          | RErr e => SErr e
          | ROk origin =>
              if ordered then sorted_slice (opt_ids (graph_search d a false origin conds HDefault))
              else opt_ids (graph_search d a false origin conds h)
          end
        else if is_zero_id (s_origin s) then
          match db_id d (s_destination s) with
          | RErr e => SErr e
          | ROk dest =>
              if ordered then sorted_slice (opt_ids (graph_search d a true dest conds HDefault))
              else opt_ids (graph_search d a true dest conds h)
          end
        else
          match db_id d (s_origin s) with
          | RErr e => SErr e
          | ROk origin =>
              match db_id d (s_destination s) with
              | RErr e => SErr e
              | ROk dest => sorted_slice (opt_ids (path_search d conds origin dest))
              end
          end
    end.
End Rev.
