(* CollVecHist.v — proofs (collections, part 8): every history of a storage-backed vector.

   cv_run_spec        for EVERY list of operations — push, replace, remove, swap, resize, reserve,
                      shrink_to_fit, value, iteration, len, interleaved at will with RELOADS
                      (the handle is dropped and rebuilt by DbVec::from_storage) and with the
                      maintenance operations of the storage underneath (optimize, drop + open,
                      backup + open) — the observations are those of the plain list `cl_run`,
                      in which reload and maintenance do nothing; the representation invariant
                      holds at the end and the footprint changed exactly as `frame` says.
   cv_history_on_storage   the same on the model of storage.rs (C04) over a canonical byte
                      store, from a fresh storage: nothing is assumed of the storage. *)
From Agdb Require Import Bytes BytesProofs Records RecordsProofs Storage StorageSpec StorageLayout StorageWp
  StorageRefine StorageProofs Collections CollWp CollBytes CollVecBase CollVecOps CollVec CollVec2.
From Coq Require Import ZifyBool ZifyNat ZifyN.
Ltac Zify.zify_post_hook ::= Z.div_mod_to_equations.
Open Scope N_scope.
Arguments N.add : simpl never.
Arguments N.mul : simpl never.
Arguments N.sub : simpl never.
Arguments N.of_nat : simpl never.
Arguments N.to_nat : simpl never.
Arguments N.eqb : simpl never.
Arguments N.ltb : simpl never.
Arguments N.leb : simpl never.
Arguments N.div : simpl never.

Section Hist.
  Variable T : Type.
  Variable E : cv_elem T.
  Variable L : elem_law E.

  Notation vrep := (vrep T E L).
  Notation foot := (foot T E L).

  (* the values written are representable; the payload 8 + size * len stays a u64 *)
  Definition op_ok (o : cv_op T) : Prop :=
    match o with
    | VoPush x | VoReplace _ x | VoResize _ x => el_valid L x
    | _ => True
    end.
  Definition fits (l : list T) : Prop := 8 + ce_size E * lenN l < two64.
  Fixpoint ops_ok (l : list T) (ops : list (cv_op T)) : Prop :=
    match ops with
    | [] => True
    | o :: t => op_ok o /\ fits (fst (cl_step l o)) /\ ops_ok (fst (cl_step l o)) t
    end.

  Section Spec.
  Variable fl : bool.

  Lemma fin_ok {A} (p : cprog A) (h : cv_vec) (f : A -> cv_vec * cv_obs T) sp (Q : cres (cv_vec * cv_obs T) -> spec -> Prop) :
    cwp fl p sp (fun r sp' => match r with
                              | CrOk a => Q (CrOk (f a)) sp'
                              | CrErr e => Q (CrOk (h, VbErr e)) sp'
                              | CrDead => False
                              end) ->
    cwp fl (r <~ cp_catch p ;; CRet (match r with Datatypes.inl a => f a | Datatypes.inr e => (h, VbErr e) end)) sp Q.
  Proof. intros H. apply cwp_bind. apply cwp_catch. eapply cwp_mono; [|exact H]. intros [a|e|] sp'; cbn [kont cwp]; auto. Qed.

  Lemma cv_step_spec h bss l o sp (Q : cres (cv_vec * cv_obs T) -> spec -> Prop) :
    vrep (hp sp) h bss l -> sdepth sp = 0 -> op_ok o -> fits (fst (cl_step l o)) ->
    (forall h' bss' sp', vrep (hp sp') h' bss' (fst (cl_step l o)) -> cv_index h' = cv_index h -> sdepth sp' = 0 ->
        frame (hp sp) (hp sp') (foot h bss) (foot h' bss') -> Q (CrOk (h', snd (cl_step l o))) sp') ->
    cwp fl (cv_step T E h o) sp Q.
  Proof.
    intros HR Hd Hok Hfit HQ.
    assert (Hsame : forall sp', sp' = sp -> frame (hp sp) (hp sp') (foot h bss) (foot h bss))
      by (intros sp' ->; apply frame_refl; intros j; reflexivity).
    assert (Hnop : forall v, Q (CrOk (h, v)) sp -> Q (CrOk (h, v)) sp) by auto.
    assert (HQ0 : forall v, v = snd (cl_step l o) -> fst (cl_step l o) = l -> Q (CrOk (h, v)) sp).
    { intros v -> El. eapply HQ; [rewrite El; exact HR|reflexivity|exact Hd|apply Hsame; reflexivity]. }
    destruct o; cbn [cv_step cl_step fst snd op_ok] in *.
    - (* push *) apply fin_ok. eapply cv_push_spec; [exact HR|exact Hok| |].
      + unfold fits in Hfit. rewrite lenN_app in Hfit. unfold lenN in *. cbn [length] in Hfit. lia.
      + intros h' bss' sp' HR' Hi Hd' Hf. eapply HQ; [exact HR'|exact Hi|lia|exact Hf].
    - (* replace *) apply fin_ok. eapply cv_replace_spec; [exact HR|exact Hok|].
      destruct (nth_error l (N.to_nat i)); cbn [fst snd] in *.
      + intros bss' sp' HR' Hd' Hf. eapply HQ; [exact HR'|reflexivity|lia|exact Hf].
      + apply HQ0; reflexivity.
    - (* remove *) apply fin_ok. eapply cv_remove_spec; [exact HR|].
      destruct (nth_error l (N.to_nat i)); cbn [fst snd] in *.
      + intros bss' sp' HR' Hd' Hf. eapply HQ; [exact HR'|reflexivity|lia|exact Hf].
      + apply HQ0; reflexivity.
    - (* swap *) apply fin_ok. eapply cv_swap_spec; [exact HR|].
      destruct (N.eqb_spec i j); cbn [fst snd] in *; [apply HQ0; reflexivity|].
      destruct (nth_error l (N.to_nat i)); [destruct (nth_error l (N.to_nat j))|]; cbn [fst snd] in *.
      + intros bss' sp' HR' Hd' Hf. eapply HQ; [exact HR'|reflexivity|lia|exact Hf].
      + apply HQ0; reflexivity.
      + apply HQ0; reflexivity.
    - (* resize *) apply fin_ok. eapply cv_resize_spec; [exact HR|exact Hok| |].
      + unfold fits in Hfit. unfold lenN in Hfit. rewrite cl_resize_length in Hfit. rewrite N2Nat.id in Hfit. exact Hfit.
      + intros h' bss' sp' HR' Hi Hd' Hf. eapply HQ; [exact HR'|exact Hi|lia|exact Hf].
    - (* reserve *) apply fin_ok. eapply cv_reserve_spec; [exact HR|].
      intros h' sp' HR' Hi _ Hd' Hf. eapply HQ; [exact HR'|exact Hi|lia|exact Hf].
    - (* shrink_to_fit *) apply fin_ok. eapply cv_shrink_spec; [exact HR|].
      intros h' sp' HR' Hi Hd' Hf. eapply HQ; [exact HR'|exact Hi|lia|exact Hf].
    - (* value *) apply fin_ok. eapply cv_value_spec; [exact HR|].
      destruct (nth_error l (N.to_nat i)); cbn [fst snd] in *; apply HQ0; reflexivity.
    - (* values *) apply fin_ok. eapply cv_values_spec; [exact HR|]. apply HQ0; reflexivity.
    - (* len *) cbn [cwp]. rewrite (vr_len _ _ _ _ _ _ _ HR). apply HQ0; reflexivity.
    - (* reload *) apply fin_ok. eapply cv_from_storage_spec; [exact HR|].
      intros h' HR' Hi Hl. eapply HQ; [exact HR'|exact Hi|exact Hd|]. unfold foot. rewrite Hi. apply Hsame. reflexivity.
    - (* maintenance of the storage *)
      destruct (cv_is_maint o) eqn:Em.
      + apply fin_ok. apply hwp_maint; [exact Em|exact Hd|]. intros sp' Hm Hd'.
        eapply HQ; [eapply vrep_heq; [exact HR|exact Hm]|reflexivity|exact Hd'|apply frame_refl; exact Hm].
      + cbn [cwp]. apply HQ0; reflexivity.
  Qed.

  Lemma cl_run_cons (l : list T) o t :
    cl_run l (o :: t) = (fst (cl_run (fst (cl_step l o)) t), snd (cl_step l o) :: snd (cl_run (fst (cl_step l o)) t)).
  Proof. cbn [cl_run]. destruct (cl_step l o) as [l1 v]. cbn [fst snd]. destruct (cl_run l1 t). reflexivity. Qed.

  Theorem cv_run_spec : forall ops h bss l sp (Q : cres (cv_vec * list (cv_obs T)) -> spec -> Prop),
    vrep (hp sp) h bss l -> sdepth sp = 0 -> ops_ok l ops ->
    (forall h' bss' sp', vrep (hp sp') h' bss' (fst (cl_run l ops)) -> cv_index h' = cv_index h -> sdepth sp' = 0 ->
        frame (hp sp) (hp sp') (foot h bss) (foot h' bss') -> Q (CrOk (h', snd (cl_run l ops))) sp') ->
    cwp fl (cv_run T E h ops) sp Q.
  Proof.
    induction ops as [|o t IH]; intros h bss l sp Q HR Hd Hok HQ.
    - cbn [cv_run cwp]. eapply HQ; [exact HR|reflexivity|exact Hd|]. apply frame_refl. intros j; reflexivity.
    - destruct Hok as (Ho & Hf & Ht). rewrite cl_run_cons in HQ. cbn [fst snd] in HQ. cbn [cv_run]. apply cwp_bind.
      eapply cv_step_spec; [exact HR|exact Hd|exact Ho|exact Hf|].
      intros h1 bss1 sp1 HR1 Hi1 Hd1 Hf1. cbn [kont fst snd].
      apply cwp_bind. eapply IH; [exact HR1|exact Hd1|exact Ht|].
      intros h2 bss2 sp2 HR2 Hi2 Hd2 Hf2. cbn [kont cwp fst snd].
      eapply HQ; [exact HR2|congruence|exact Hd2|]. eapply frame_trans; eassumption.
  Qed.
  End Spec.

  (* ---------------- on the model of storage.rs ---------------- *)
  Theorem cv_history_on_storage (ops : store_ops cdata) (fl : bool) : kind ops fl ->
    forall (l : list (cv_op T)), ops_ok [] l ->
    let r := cp_run (st_step cdata ops) (h <~ cv_new ;; cv_run T E h l) s_init in
    snd r = CrDead \/
    exists h' sp' bss',
      snd r = CrOk (h', snd (cl_run [] l)) /\
      Rel (fst r) sp' /\ vrep (hp sp') h' bss' (fst (cl_run [] l)).
  Proof.
    intros K l Hok r.
    destruct (cwp_sound ops fl K (h <~ cv_new ;; cv_run T E h l) s_init spec_init
               (fun r sp' => exists h' bss', r = CrOk (h', snd (cl_run [] l)) /\ vrep (hp sp') h' bss' (fst (cl_run [] l)))
               Rel_init) as [D|(sp' & RL & h' & bss' & Er & HR)].
    - apply cwp_bind. apply (cv_new_spec T E L fl). intros h sp1 HR1 _ _ _ Hd1 _. cbn [kont].
      eapply cv_run_spec; [exact HR1|exact Hd1|exact Hok|].
      intros h' bss' sp' HR' _ _ _. exists h', bss'. auto.
    - left. exact D.
    - right. exists h', sp', bss'. auto.
  Qed.
End Hist.
