(* ValueIndex.v — model of the 16-byte value index and of storing / loading a
   DbValue through it (agdb/src/db/db_value_index.rs, db/db_value.rs
   `store_db_value` / `load_db_value`, db/db_key_value.rs and db/db_index.rs
   `VecValue` impls).  Definitions only (executable, extracted).

   The record store is ABSTRACT here: an association list  storage index |-> bytes
   with an allocator that names the index of the next inserted record.  That the
   real record store (storage.rs / storage_records.rs) behaves like this is the
   subject of C04. *)
From Agdb Require Import Bytes Utf8 Codec DbValue.
Open Scope N_scope.

(* ------------------------------------------------------------------ *)
(* DbValueIndex { value: [u8; 16] }                                     *)
(* ------------------------------------------------------------------ *)

Definition vindex := bytes.                       (* invariant: length 16 *)
Definition vi_new : vindex := repeat x00 16.

Definition byte15 (ix : vindex) : N := b2n (nth 15 ix x00).
(* self.value[15] = v *)
Definition put15 (ix : vindex) (n : N) : vindex := firstn 15 ix ++ [n2b n].
(* self.value[0..src.len()].copy_from_slice(src) *)
Definition overwrite (ix : vindex) (src : bytes) : vindex := src ++ skipn (length src) ix.

(* self.value[15] >> 4 *)
Definition vi_type (ix : vindex) : N := N.shiftr (byte15 ix) 4.
(* self.value[15] & 0b00001111 *)
Definition vi_size (ix : vindex) : N := N.land (byte15 ix) 15.
(* u64::from_le_bytes(self.value[0..8]) *)
Definition vi_index (ix : vindex) : N := de (firstn 8 ix).
(* self.size() != 0 || self.index() == 0 *)
Definition is_value (ix : vindex) : bool := negb (vi_size ix =? 0) || (vi_index ix =? 0).
(* &self.value[0..size] *)
Definition vi_value (ix : vindex) : bytes := firstn (N.to_nat (vi_size ix)) ix.

(* (size & 0b00001111) | (self.value[15] & 0b11110000) *)
Definition set_size (ix : vindex) (s : N) : vindex :=
  put15 ix (N.lor (N.land s 15) (N.land (byte15 ix) 240)).
(* (value << 4) | self.size()        — `<<` on u8 drops the bits shifted out *)
Definition set_type (ix : vindex) (t : N) : vindex :=
  put15 ix (N.lor (N.land (N.shiftl t 4) 255) (vi_size ix)).
(* set_size(0); value[0..8] = index.to_le_bytes() *)
Definition set_index (ix : vindex) (n : N) : vindex := overwrite (set_size ix 0) (le64 n).
(* if value.len() > 15 { return false } set_size(len); value[0..len] = value; true *)
Definition set_value (ix : vindex) (bs : bytes) : bool * vindex :=
  if 15 <? lenN bs then (false, ix)
  else (true, overwrite (set_size ix (lenN bs)) bs).

(* DbValueIndex::deserialize: at least 16 bytes, takes the first 16 *)
Definition vi_deserialize (bs : bytes) : outcome vindex :=
  match slice bs 0 16 with Some s => Ok s | None => Err end.

Definition BYTES_META : N := 1.
Definition I64_META : N := 2.
Definition U64_META : N := 3.
Definition F64_META : N := 4.
Definition STRING_META : N := 5.
Definition VEC_I64_META : N := 6.
Definition VEC_U64_META : N := 7.
Definition VEC_F64_META : N := 8.
Definition VEC_STRING_META : N := 9.

(* ------------------------------------------------------------------ *)
(* abstract record store                                                *)
(* ------------------------------------------------------------------ *)

Definition store := list (N * bytes).

Fixpoint lookup (i : N) (st : store) : option bytes :=
  match st with
  | [] => None
  | (j, b) :: r => if j =? i then Some b else lookup i r
  end.

Definition keys (st : store) : list N := map fst st.

(* Storage::insert_bytes: a new record under the index the allocator names *)
Definition st_insert (alloc : store -> N) (bs : bytes) (st : store) : N * store :=
  let i := alloc st in (i, (i, bs) :: st).

(* Storage::remove: Err when the index names no record *)
Definition st_remove (i : N) (st : store) : outcome store :=
  match lookup i st with
  | None => Err
  | Some _ => Ok (filter (fun p => negb (fst p =? i)) st)
  end.

(* Storage::value_as_bytes(index): Err when the index names no record
   (index 0 never does) *)
Definition rec_get (i : N) (st : store) : outcome bytes :=
  match lookup i st with Some b => Ok b | None => Err end.

(* one concrete allocator (the driver uses it): one past the largest index in use *)
Definition fresh_ix (st : store) : N := 1 + fold_right N.max 0 (keys st).

(* ------------------------------------------------------------------ *)
(* String::from_utf8_lossy (core::str::lossy::Utf8Chunks)               *)
(* ------------------------------------------------------------------ *)

Definition repl : bytes := [xef; xbf; xbd].       (* U+FFFD *)

Definition second3 (b0 b1 : byte) : bool :=
  if b2n b0 =? 224 then inr 160 191 b1
  else if b2n b0 =? 237 then inr 128 159 b1
  else cont b1.
Definition second4 (b0 b1 : byte) : bool :=
  if b2n b0 =? 240 then inr 144 191 b1
  else if b2n b0 =? 244 then inr 128 143 b1
  else cont b1.

(* each maximal ill-formed prefix (lead byte plus the continuation bytes that
   were accepted) becomes one U+FFFD; scanning resumes at the offending byte *)
Fixpoint lossy_fuel (fuel : nat) (bs : bytes) : bytes :=
  match fuel with
  | O => []
  | S f =>
    match bs with
    | [] => []
    | b0 :: r0 =>
      if b2n b0 <=? 127 then b0 :: lossy_fuel f r0
      else if inr 194 223 b0 then
        match r0 with
        | b1 :: r1 => if cont b1 then b0 :: b1 :: lossy_fuel f r1 else repl ++ lossy_fuel f r0
        | [] => repl
        end
      else if inr 224 239 b0 then
        match r0 with
        | b1 :: r1 =>
          if second3 b0 b1 then
            match r1 with
            | b2 :: r2 => if cont b2 then b0 :: b1 :: b2 :: lossy_fuel f r2 else repl ++ lossy_fuel f r1
            | [] => repl
            end
          else repl ++ lossy_fuel f r0
        | [] => repl
        end
      else if inr 240 244 b0 then
        match r0 with
        | b1 :: r1 =>
          if second4 b0 b1 then
            match r1 with
            | b2 :: r2 =>
              if cont b2 then
                match r2 with
                | b3 :: r3 => if cont b3 then b0 :: b1 :: b2 :: b3 :: lossy_fuel f r3
                              else repl ++ lossy_fuel f r2
                | [] => repl
                end
              else repl ++ lossy_fuel f r1
            | [] => repl
            end
          else repl ++ lossy_fuel f r0
        | [] => repl
        end
      else repl ++ lossy_fuel f r0
    end
  end.

(* from_utf8_lossy returns the input (Cow::Borrowed) when it is valid *)
Definition utf8_lossy (bs : bytes) : bytes :=
  if utf8_valid bs then bs else lossy_fuel (length bs) bs.

(* ------------------------------------------------------------------ *)
(* DbValue <-> codec values for the out-of-line kinds                   *)
(* ------------------------------------------------------------------ *)

Definition un_i64 (v : val) : Z := match v with VI64 z => z | _ => 0%Z end.
Definition un_n (v : val) : N := match v with VU64 n | VF64 n => n | _ => 0 end.
Definition un_str (v : val) : bytes := match v with VStr s => s | _ => [] end.
Definition un_vec (v : val) : list val := match v with VVec l => l | _ => [] end.

(* T::deserialize(&storage.value_as_bytes(index)?) for T = String / Vec<_> *)
Definition value_as (t : ty) (i : N) (st : store) : outcome val :=
  obind (rec_get i st) (fun bs =>
    obind (dec Debug guards_fixed t bs) (fun r => Ok (fst r))).

(* ------------------------------------------------------------------ *)
(* DbValue::store_db_value                                              *)
(* ------------------------------------------------------------------ *)

Section Store.
  Variable alloc : store -> N.

  (* set_type(t); if !set_value(inline) { set_index(storage.insert_bytes(rec)) } *)
  Definition store_inline_or (t : N) (inline : bytes) (rec : bytes) (st : store) : vindex * store :=
    let ix := set_type vi_new t in
    let (ok, ix') := set_value ix inline in
    if ok then (ix', st)
    else let (i, st') := st_insert alloc rec st in (set_index ix i, st').

  (* set_type(t); set_index(storage.insert(v)) *)
  Definition store_out (t : N) (rec : bytes) (st : store) : vindex * store :=
    let (i, st') := st_insert alloc rec st in (set_index (set_type vi_new t) i, st').

  Definition store_db_value (v : dbvalue) (st : store) : vindex * store :=
    match v with
    | DBytes bs => store_inline_or BYTES_META bs bs st                 (* insert_bytes: raw *)
    | DI64 z => (snd (set_value (set_type vi_new I64_META) (le64 (z2u z))), st)
    | DU64 n => (snd (set_value (set_type vi_new U64_META) (le64 n)), st)
    | DF64 b => (snd (set_value (set_type vi_new F64_META) (le64 b)), st)
    | DString bs => store_inline_or STRING_META bs (enc (VStr bs)) st    (* insert(&String) *)
    | DVecI64 l => store_out VEC_I64_META (enc (VVec (map VI64 l))) st
    | DVecU64 l => store_out VEC_U64_META (enc (VVec (map VU64 l))) st
    | DVecF64 l => store_out VEC_F64_META (enc (VVec (map VF64 l))) st
    | DVecString l => store_out VEC_STRING_META (enc (VVec (map VStr l))) st
    end.

  (* VecValue<DbKeyValue>::store: [key_index.data(), value_index.data()].concat() *)
  Definition store_kv (k v : dbvalue) (st : store) : bytes * store :=
    let (ki, st1) := store_db_value k st in
    let (vi, st2) := store_db_value v st1 in
    (ki ++ vi, st2).
End Store.

(* ------------------------------------------------------------------ *)
(* DbValue::load_db_value                                               *)
(* ------------------------------------------------------------------ *)

(* let mut bytes = [0_u8; 8]; bytes.copy_from_slice(value_index.value());
   — panics unless the inline size is exactly 8 *)
Definition load_num (ix : vindex) : outcome N :=
  if vi_size ix =? 8 then Ok (de (vi_value ix)) else Panic.

Definition load_db_value (ix : vindex) (st : store) : outcome dbvalue :=
  match vi_type ix with
  | 1 => if is_value ix then Ok (DBytes (vi_value ix))
         else obind (rec_get (vi_index ix) st) (fun b => Ok (DBytes b))
  | 2 => obind (load_num ix) (fun n => Ok (DI64 (u2z n)))
  | 3 => obind (load_num ix) (fun n => Ok (DU64 n))
  | 4 => obind (load_num ix) (fun n => Ok (DF64 n))
  | 5 => if is_value ix then Ok (DString (utf8_lossy (vi_value ix)))
         else obind (value_as TStr (vi_index ix) st) (fun v => Ok (DString (un_str v)))
  | 6 => obind (value_as (TVec TI64) (vi_index ix) st) (fun v => Ok (DVecI64 (map un_i64 (un_vec v))))
  | 7 => obind (value_as (TVec TU64) (vi_index ix) st) (fun v => Ok (DVecU64 (map un_n (un_vec v))))
  | 8 => obind (value_as (TVec TF64) (vi_index ix) st) (fun v => Ok (DVecF64 (map un_n (un_vec v))))
  | 9 => obind (value_as (TVec TStr) (vi_index ix) st) (fun v => Ok (DVecString (map un_str (un_vec v))))
  | _ => Panic                                                   (* _ => panic!() *)
  end.

(* the two bounds-check repairs of load_db_value (fixes/C07-value-index.diff): an inline numeric
   value whose size is not 8 and an unknown type nibble are errors instead of panics; the checks
   sit in front of the unchanged match *)
Record vguards := { vg_num_checked : bool; vg_type_checked : bool }.
Definition vg_pinned : vguards := {| vg_num_checked := false; vg_type_checked := false |}.
Definition vg_fixed : vguards := {| vg_num_checked := true; vg_type_checked := true |}.
(* /repo after 51d65f2: the numeric check is in, the `_ => panic!()` arm is pinned by the suite *)
Definition vg_current : vguards := {| vg_num_checked := true; vg_type_checked := false |}.

Definition is_numeric_type (t : N) : bool := (2 <=? t) && (t <=? 4).
Definition is_known_type (t : N) : bool := (1 <=? t) && (t <=? 9).

Definition load_db_value_g (g : vguards) (ix : vindex) (st : store) : outcome dbvalue :=
  if is_numeric_type (vi_type ix) && negb (vi_size ix =? 8) then
    (if vg_num_checked g then Err else Panic)
  else if negb (is_known_type (vi_type ix)) then
    (if vg_type_checked g then Err else Panic)
  else load_db_value ix st.

(* VecValue<DbValue>::remove *)
Definition remove_value (bs : bytes) (st : store) : outcome store :=
  obind (vi_deserialize bs) (fun ix =>
    if is_value ix then Ok st else st_remove (vi_index ix) st).

(* VecValue<DbKeyValue>::load / remove: two indexes, 32 bytes *)
Definition load_kv (bs : bytes) (st : store) : outcome (dbvalue * dbvalue) :=
  obind (vi_deserialize bs) (fun ki =>
    obind (vi_deserialize (skipn 16 bs)) (fun vi =>
      obind (load_db_value ki st) (fun k =>
        obind (load_db_value vi st) (fun v => Ok (k, v))))).

Definition remove_kv (bs : bytes) (st : store) : outcome store :=
  obind (vi_deserialize bs) (fun ki =>
    obind (vi_deserialize (skipn 16 bs)) (fun vi =>
      obind (if is_value ki then Ok st else st_remove (vi_index ki) st) (fun st1 =>
        if is_value vi then Ok st1 else st_remove (vi_index vi) st1))).

(* ------------------------------------------------------------------ *)
(* values a Rust program can hold                                       *)
(* ------------------------------------------------------------------ *)

Definition i64_ok (z : Z) : bool := (Z.leb (-9223372036854775808) z) && (Z.ltb z 9223372036854775808).
Definition str_ok (bs : bytes) : bool := utf8_valid bs && (lenN bs <? two60).

Definition wf_value (v : dbvalue) : bool :=
  match v with
  | DBytes bs => lenN bs <? two60
  | DI64 z => i64_ok z
  | DU64 n => n <? two64
  | DF64 b => b <? two64
  | DString bs => str_ok bs
  | DVecI64 l => forallb i64_ok l && (lenN l <? two60)
  | DVecU64 l => forallb (fun n => n <? two64) l && (lenN l <? two60)
  | DVecF64 l => forallb (fun n => n <? two64) l && (lenN l <? two60)
  | DVecString l => forallb str_ok l && (lenN l <? two60)
  end.
