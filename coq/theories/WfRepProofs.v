(* WfRepProofs.v — the graph invariant of C08 (`wf`: some abstract multigraph simulates the slot arrays,
   GraphSim.v) implies the array well-formedness of C13 (`rep g a` for some abstract view a, UndoGraph.v),
   as long as the capacity fits i64.  Hence the C13 well-formedness `db_ok` of a database state follows
   from the joint invariant `Inv` of C09 / C10 / C11:  Inv d -> capacity (gr d) <= 2^63 -> db_ok d.
   (The converse does not hold: `rep` allows per-node list orders that no single "newest first" edge
   order explains; wf is nevertheless kept by every rollback, see RollbackInvProofs.v.) *)
From Agdb Require Import Bytes BytesProofs DbValue Graph DbModel GraphArr GraphSim GraphProofs GraphSpec GraphWf.
From Agdb Require Import AliasProofs ImapProofs KvProofs KvDbProofs IndexProofs IndexDb3Proofs IndexInvProofs DbInvProofs.
From Agdb Require Import UndoBase UndoObs UndoAlias UndoKv UndoGraphBase UndoGraph UndoAbs UndoDb InvSimProofs.
From Coq Require Import ZifyBool ZifyNat ZifyN.
Ltac Zify.zify_post_hook ::= Z.div_mod_to_equations.
Open Scope Z_scope.

(* the two formulations of a linked chain / of the free chain *)
Lemma chain_conv next l : forall h,
  GraphArr.chain next h l -> (forall x, In x l -> 0 < x) -> UndoGraphBase.chain next h l.
Proof.
  induction l as [|x r IH]; intros h H Hp; cbn [GraphArr.chain] in H.
  - subst h. constructor.
  - destruct H as [-> H]. constructor; [apply Hp; now left|]. apply IH; [exact H|]. intros y Hy. apply Hp. now right.
Qed.

Lemma fchain_conv next fl : forall h,
  h = fhead fl -> GraphSim.fchain next fl -> (forall s, In s fl -> 0 < s /\ - s <> i64_min) ->
  UndoGraphBase.fchain next h fl.
Proof.
  induction fl as [|x r IH]; intros h Hh H Hp; cbn [GraphSim.fchain fhead] in *.
  - subst h. constructor.
  - subst h. destruct H as [Hx H]. destruct (Hp x (or_introl eq_refl)) as [H1 H2].
    constructor; [exact H1|exact H2|]. apply IH; [exact Hx|exact H|]. intros y Hy. apply Hp. now right.
Qed.

Definition view (g : graph) (aa : agraph) (fl : list Z) : ag :=
  {| ak := fun i => slot_kind g i;
     aout := fun n => adj esrc (a_edges aa) n;
     ain := fun n => adj etgt (a_edges aa) n;
     acount := node_count g;
     afree := fl;
     acap := capacity g |}.

Section Bridge.
  Variables (g : graph) (aa : agraph) (fl : list Z).
  Hypothesis HS : GraphSim.sim g aa fl.
  Hypothesis Hcap : capacity g <= two63z.

  Let RS := HS.
  Let R := proj2 HS.
  Let B := GraphSim.r_base _ _ _ _ _ _ _ _ _ _ _ _ _ R.
  Let HO := GraphSim.r_out _ _ _ _ _ _ _ _ _ _ _ _ _ R.
  Let HI := GraphSim.r_in _ _ _ _ _ _ _ _ _ _ _ _ _ R.
  Let FS := GraphSim.r_free _ _ _ _ _ _ _ _ _ _ _ _ _ R.

  Lemma kind_node_iff n : 0 < n -> (slot_kind g n = KNode <-> In n (a_nodes aa)).
  Proof.
    intros Hn. rewrite <- (is_node_kind g n Hn), (is_node_iff _ _ _ _ _ _ _ _ _ HS n), Z.abs_eq by lia. reflexivity.
  Qed.

  Lemma kind_edge_of x : In x (a_edges aa) -> slot_kind g (eslot x) = KEdge (esrc x) (etgt x).
  Proof.
    intros Hx. pose proof (b_ER_range _ _ _ B x Hx) as Hr.
    destruct (class_edge _ _ _ _ _ _ _ _ _ HS x Hx) as [He _].
    apply (is_edge_kind g (eslot x)) in He; [|lia]. destruct He as (f & t & Hk). rewrite Hk.
    destruct (sim_edge_ends _ _ _ HS x Hx) as [E1 E2].
    apply (slot_kind_edge g (eslot x) f t) in Hk; [|lia]. destruct Hk as (_ & _ & _ & -> & ->).
    unfold edge_from, edge_to in E1, E2. rewrite from_opp in E1. rewrite to_opp in E2. now rewrite E1, E2.
  Qed.

  Lemma kind_edge_inv e f t : 0 < e -> slot_kind g e = KEdge f t ->
    exists x, In x (a_edges aa) /\ eslot x = e /\ esrc x = f /\ etgt x = t.
  Proof.
    intros He Hk. assert (Hie : is_edge g e = true) by (apply (is_edge_kind g e He); eauto).
    apply (is_edge_iff _ _ _ _ _ _ _ _ _ HS) in Hie. rewrite Z.abs_eq in Hie by lia.
    apply in_map_iff in Hie. destruct Hie as [x [Hx Hin]]. exists x. split; [exact Hin|]. split; [exact Hx|].
    pose proof (kind_edge_of x Hin) as K. rewrite Hx, Hk in K. injection K as -> ->. now split.
  Qed.

  Theorem sim_rep : rep g (view g aa fl).
  Proof.
    constructor; cbn [view ak aout ain acount afree acap].
    - exact (proj1 HS).
    - split; [exact (GraphSim.r_cap _ _ _ _ _ _ _ _ _ _ _ _ _ R)|exact Hcap].
    - reflexivity.
    - reflexivity.
    - apply fchain_conv; [exact (f_head _ _ _ _ _ _ _ _ _ FS)|exact (f_chain _ _ _ _ _ _ _ _ _ FS)|].
      intros s Hs. destruct (f_fl _ _ _ _ _ _ _ _ _ FS s Hs) as (H1 & H2 & _). split; [lia|exact H2].
    - exact (f_nodup _ _ _ _ _ _ _ _ _ FS).
    - intros s Hs. destruct (f_fl _ _ _ _ _ _ _ _ _ FS s Hs) as (H1 & _ & H3 & H4).
      destruct (f_unused _ _ _ _ _ _ _ _ _ FS s H1 H3 H4) as (A1 & A2 & A3 & A4). repeat split; try assumption; lia.
    - reflexivity.
    - intros n Hn Hk. apply (kind_node_iff n Hn) in Hk.
      destruct (h_chain _ _ _ _ _ _ _ HO n Hk I) as [Hc Hd]. split; [|split; [|exact Hd]].
      + apply chain_conv; [exact Hc|]. intros y Hy. apply in_adj in Hy. destruct Hy as [x [Hx [<- _]]].
        apply (b_ER_range _ _ _ B x Hx).
      + apply NoDup_adj. exact (b_ER_nodup _ _ _ B).
    - intros n Hn Hk. apply (kind_node_iff n Hn) in Hk.
      destruct (h_chain _ _ _ _ _ _ _ HI n Hk I) as [Hc Hd]. split; [|split; [|exact Hd]].
      + apply chain_conv; [exact Hc|]. intros y Hy. apply in_adj in Hy. destruct Hy as [x [Hx [<- _]]].
        apply (b_ER_range _ _ _ B x Hx).
      + apply NoDup_adj. exact (b_ER_nodup _ _ _ B).
    - intros n e Hn Hk. rewrite in_adj. split.
      + intros [x [Hx [<- Hs]]]. pose proof (b_ER_range _ _ _ B x Hx). split; [lia|]. split; [|intros []].
        exists (etgt x). rewrite (kind_edge_of x Hx), Hs. reflexivity.
      + intros (He & [t Ht] & _). destruct (kind_edge_inv e n t He Ht) as (x & Hx & E1 & E2 & _). exists x. tauto.
    - intros n e Hn Hk. rewrite in_adj. split.
      + intros [x [Hx [<- Hs]]]. pose proof (b_ER_range _ _ _ B x Hx). split; [lia|]. split; [|intros []].
        exists (esrc x). rewrite (kind_edge_of x Hx), Hs. reflexivity.
      + intros (He & [f Hf] & _). destruct (kind_edge_inv e f n He Hf) as (x & Hx & E1 & _ & E3). exists x. tauto.
    - intros e f t He Hk. destruct (kind_edge_inv e f t He Hk) as (x & Hx & _ & <- & <-).
      destruct (b_ends _ _ _ B x Hx) as [Hs Ht].
      pose proof (b_nodes_range _ _ _ B _ Hs) as Rs. pose proof (b_nodes_range _ _ _ B _ Ht) as Rt.
      split; [lia|]. split; [lia|]. split; apply kind_node_iff; (lia || assumption).
  Qed.
End Bridge.

Theorem wf_rep g : wf g -> capacity g <= two63z -> exists a, rep g a.
Proof. intros [aa [fl HS]] Hc. exists (view g aa fl). now apply sim_rep. Qed.

(* the C13 well-formedness of a state follows from the joint invariant *)
Theorem Inv_db_ok d : Inv d -> capacity (gr d) <= two63z -> db_ok d.
Proof.
  intros (Hwf & Hb & _ & Hk & (_ & _ & Hi)) Hc. destruct (wf_rep (gr d) Hwf Hc) as [a Ra].
  constructor.
  - apply (gsim_of_rep _ a Ra).
  - assert (Hok : alias_ok (aliases d)) by (intros al i; apply (proj1 Hb al i)).
    split; [exact Hok|]. split; [exact Hok|apply alias_eq_refl].
  - assert (Hok : forall i, keys_ok (kvs_get (vals d) i)) by (intros i; apply keys_distinct_iff, Hk).
    split; [exact Hok|]. split; [exact Hok|reflexivity].
  - assert (Hok : idx_ok (indexes d)) by (now apply idx_distinct_iff).
    split; [exact Hok|]. split; [exact Hok|]. intros key. apply idx_rel_refl.
Qed.
