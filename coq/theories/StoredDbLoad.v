(* StoredDbLoad.v — proofs (stored database, part 2): on every heap that holds a database
   (`stored_db`) the loader of StoredDb.v runs to the end without an error and returns a database equal to the
   represented one up to `sd_eqv` (everything except the order of the alias lists and of each index's id list).
   Assembles the L2 reload lemmas: cv_from_storage_spec / cv_values_spec (vectors), cm_from_storage_spec (map
   data), the graph record, cr_de_ser (root record), el_load of law_dbvalue (= C12's round trip). *)
From Coq Require Import Permutation.
From Agdb Require Import Bytes BytesProofs Utf8 Codec DbValue ValueIndex Graph DbModel Records RecordsProofs Storage StorageSpec
  StorageLayout Collections CollValues CollWp CollBytes CollVecBase CollVecOps CollVec CollVec2 CollElems CollSep CollMap
  CollGraph CollValuesProofs StoredDb StoredDbRep.
From Coq Require Import ZifyBool ZifyNat ZifyN.
Ltac Zify.zify_post_hook ::= Z.div_mod_to_equations.
Open Scope N_scope.
Arguments N.add : simpl never.
Arguments N.mul : simpl never.
Arguments N.sub : simpl never.
Arguments N.of_nat : simpl never.
Arguments N.to_nat : simpl never.
Arguments N.eqb : simpl never.
Arguments N.ltb : simpl never.
Arguments N.leb : simpl never.
Arguments N.div : simpl never.

(* ---- association lists with pairwise distinct keys: a lookup does not depend on the order ---- *)
Section Assoc.
  Context {K V : Type} (keqb : K -> K -> bool).
  Hypothesis keqb_eq : forall a b, keqb a b = true <-> a = b.

  Lemma alookup_some_in (l : list (K * V)) k v : alookup keqb l k = Some v -> In (k, v) l.
  Proof.
    induction l as [|[k' v'] r IH]; cbn [alookup]; [discriminate|].
    destruct (keqb k' k) eqn:E.
    - intros [= ->]. apply keqb_eq in E. subst. left; reflexivity.
    - intros H. right. apply IH. exact H.
  Qed.

  Lemma alookup_none_notin (l : list (K * V)) k : alookup keqb l k = None -> ~ In k (map fst l).
  Proof.
    induction l as [|[k' v'] r IH]; cbn [alookup map fst In]; [tauto|].
    destruct (keqb k' k) eqn:E; [discriminate|].
    intros H [X|X]; [subst; rewrite (proj2 (keqb_eq k k) eq_refl) in E; discriminate|exact (IH H X)].
  Qed.

  Lemma alookup_in_nodup (l : list (K * V)) k v : NoDup (map fst l) -> In (k, v) l -> alookup keqb l k = Some v.
  Proof.
    induction l as [|[k' v'] r IH]; cbn [alookup map fst In]; [tauto|].
    intros ND [X|X]; inversion ND as [|? ? Hn Hr]; subst.
    - injection X as -> ->. rewrite (proj2 (keqb_eq k k) eq_refl). reflexivity.
    - destruct (keqb k' k) eqn:E; [|apply IH; assumption].
      apply keqb_eq in E. subst k'. exfalso. apply Hn. apply in_map_iff. exists (k, v). auto.
  Qed.

  Lemma alookup_perm (l l' : list (K * V)) k :
    Permutation l l' -> NoDup (map fst l) -> alookup keqb l k = alookup keqb l' k.
  Proof.
    intros HP ND.
    assert (ND' : NoDup (map fst l')) by (eapply Permutation_NoDup; [apply Permutation_map; exact HP|exact ND]).
    destruct (alookup keqb l k) as [v|] eqn:E.
    - symmetry. apply alookup_in_nodup; [exact ND'|]. eapply Permutation_in; [exact HP|]. apply alookup_some_in. exact E.
    - destruct (alookup keqb l' k) as [v'|] eqn:E'; [|reflexivity]. exfalso.
      apply alookup_some_in in E'. apply (alookup_none_notin _ _ E).
      apply in_map_iff. exists (k, v'). split; [reflexivity|]. eapply Permutation_in; [symmetry; exact HP|exact E'].
  Qed.
End Assoc.

Section Load.
  Variable fl : bool.

  (* ---- a whole vector ---- *)
  Lemma sd_vec_load_spec (T : Type) (E : cv_elem T) (L : elem_law E) h bss l sp (Q : cres (list T) -> spec -> Prop) :
    vrep T E L (hp sp) h bss l -> Q (CrOk l) sp -> cwp fl (sd_vec_load T E (cv_index h)) sp Q.
  Proof.
    intros HR HQ. unfold sd_vec_load. apply cwp_bind. eapply cv_from_storage_spec; [exact HR|]. intros h' HR' _ _. cbn [kont].
    eapply cv_values_spec; [exact HR'|exact HQ].
  Qed.

  (* ---- a whole map ---- *)
  Lemma sd_map_load_spec (K V : Type) (EK : cv_elem K) (EV : cv_elem V) (LK : elem_law EK) (LV : elem_law EV)
        w idx l sp (Q : cres (list (K * V)) -> spec -> Prop) :
    sd_map_rep K V EK EV LK LV (hp sp) w idx l ->
    (Permutation (sd_table_entries (mw_t w)) l -> Q (CrOk (sd_table_entries (mw_t w))) sp) ->
    cwp fl (sd_map_load K V EK EV idx) sp Q.
  Proof.
    intros (HM & <- & HP) HQ. unfold sd_map_load. destruct HM as [HS _ _].
    apply cwp_bind. eapply cm_from_storage_spec; [exact HS|]. intros d' HS' _ _ _ _. cbn [kont].
    destruct HS' as [_ Rs Rk Rv _ _].
    apply cwp_bind. eapply cv_values_spec; [exact Rs|]. cbn [kont].
    apply cwp_bind. eapply cv_values_spec; [exact Rk|]. cbn [kont].
    apply cwp_bind. eapply cv_values_spec; [exact Rv|]. cbn [kont cwp].
    apply HQ. exact HP.
  Qed.

  (* ---- the graph ---- *)
  Lemma cg_from_storage_spec d s a sp (Q : cres cg_data -> spec -> Prop) :
    grep (hp sp) d s a ->
    (forall d', grep (hp sp) d' s a -> cg_index d' = cg_index d -> Q (CrOk d') sp) ->
    cwp fl (cg_from_storage (cg_index d)) sp Q.
  Proof.
    intros H HQ. unfold cg_from_storage.
    destruct (index_ser_parts _ _ _ _ (gr_bounds _ _ _ _ H GfFrom) (gr_bounds _ _ _ _ H GfTo) (gr_bounds _ _ _ _ H GfFromMeta) (gr_bounds _ _ _ _ H GfToMeta))
      as (P0 & P1 & P2 & P3 & P4).
    change cm_index_ser with cg_index_ser in *. cbn [cg_vec] in P0, P1, P2, P3, P4.
    set (rec := cg_index_ser _ _ _ _) in *.
    apply cwp_bind. eapply cwp_value; [exact (gr_rec _ _ _ _ H)|]. cbn [kont]. fold rec.
    assert (L8 : forall n, (n <= 24)%nat -> 8 <= lenN (skipn n rec)).
    { intros n Hn. unfold lenN in *. rewrite skipn_length. lia. }
    apply cwp_bind. apply cwp_de64; [rewrite P0; lia|]. cbn [kont]. rewrite P1.
    apply cwp_bind. apply cwp_de64; [apply L8; lia|]. cbn [kont]. rewrite P2.
    apply cwp_bind. apply cwp_de64; [apply L8; lia|]. cbn [kont]. rewrite P3.
    apply cwp_bind. apply cwp_de64; [apply L8; lia|]. cbn [kont]. rewrite P4.
    apply cwp_bind. eapply cv_from_storage_spec; [exact (gr_vec _ _ _ _ H GfFrom)|]. intros h1 R1 I1 L1. cbn [kont].
    apply cwp_bind. eapply cv_from_storage_spec; [exact (gr_vec _ _ _ _ H GfTo)|]. intros h2 R2 I2 L2. cbn [kont].
    apply cwp_bind. eapply cv_from_storage_spec; [exact (gr_vec _ _ _ _ H GfFromMeta)|]. intros h3 R3 I3 L3. cbn [kont].
    apply cwp_bind. eapply cv_from_storage_spec; [exact (gr_vec _ _ _ _ H GfToMeta)|]. intros h4 R4 I4 L4. cbn [kont cwp].
    cbn [cg_vec] in *.
    set (d' := {| cg_index := cg_index d; cg_from := h1; cg_to := h2; cg_from_meta := h3; cg_to_meta := h4 |}).
    assert (Ef : gfoot d' s = gfoot d s).
    { unfold gfoot, foot. cbn [d' cg_index cg_from cg_to cg_from_meta cg_to_meta]. rewrite I1, I2, I3, I4. reflexivity. }
    apply (HQ d'); [|reflexivity].
    constructor.
    - cbn [d' cg_index cg_from cg_to cg_from_meta cg_to_meta]. rewrite I1, I2, I3, I4. exact (gr_rec _ _ _ _ H).
    - intros f; destruct f; cbn [d' cg_vec cg_from cg_to cg_from_meta cg_to_meta]; assumption.
    - intros f; destruct f; cbn [d' cg_vec cg_from cg_to cg_from_meta cg_to_meta]; [rewrite I1|rewrite I2|rewrite I3|rewrite I4];
        [apply (gr_bounds _ _ _ _ H GfFrom)|apply (gr_bounds _ _ _ _ H GfTo)|apply (gr_bounds _ _ _ _ H GfFromMeta)|apply (gr_bounds _ _ _ _ H GfToMeta)].
    - rewrite Ef. exact (gr_nodup _ _ _ _ H).
  Qed.

  Lemma sd_graph_load_spec d s g sp (Q : cres graph -> spec -> Prop) :
    grep (hp sp) d s (sd_arrays g) -> Q (CrOk g) sp -> cwp fl (sd_graph_load (cg_index d)) sp Q.
  Proof.
    intros H HQ. unfold sd_graph_load.
    apply cwp_bind. eapply cg_from_storage_spec; [exact H|]. intros d' H' _. cbn [kont].
    pose proof (gr_vec _ _ _ _ H' GfFrom) as R1. pose proof (gr_vec _ _ _ _ H' GfTo) as R2.
    pose proof (gr_vec _ _ _ _ H' GfFromMeta) as R3. pose proof (gr_vec _ _ _ _ H' GfToMeta) as R4.
    cbn [cg_vec ga_get sd_arrays ga_from ga_to ga_from_meta ga_to_meta] in R1, R2, R3, R4.
    apply cwp_bind. eapply cv_values_spec; [exact R1|]. cbn [kont].
    apply cwp_bind. eapply cv_values_spec; [exact R2|]. cbn [kont].
    apply cwp_bind. eapply cv_values_spec; [exact R3|]. cbn [kont].
    apply cwp_bind. eapply cv_values_spec; [exact R4|]. cbn [kont cwp].
    destruct g. exact HQ.
  Qed.

  (* ---- the property lists ---- *)
  Lemma sd_kvs_load_spec : forall idxs ws kvs sp (Q : cres (list (list kv)) -> spec -> Prop),
    sd_kv_rep (hp sp) idxs ws kvs -> Q (CrOk kvs) sp -> cwp fl (sd_kvs_load idxs) sp Q.
  Proof.
    induction idxs as [|i r IH]; intros [|w ws] [|l kvs] sp Q H HQ; cbn [sd_kv_rep] in H; try contradiction;
      cbn [sd_kvs_load]; [exact HQ|].
    destruct H as [Hs Hr]. apply cwp_bind.
    destruct w as [[h bss]|]; cbn [sd_kv_slot_rep] in Hs.
    - destruct Hs as (Hi & <- & HR). destruct (N.eqb_spec (cv_index h) 0) as [E|_]; [contradiction|].
      eapply sd_vec_load_spec; [exact HR|]. cbn [kont].
      apply cwp_bind. eapply IH; [exact Hr|]. cbn [kont cwp]. exact HQ.
    - destruct Hs as [-> ->]. rewrite N.eqb_refl. cbn [cwp kont].
      apply cwp_bind. eapply IH; [exact Hr|]. cbn [kont cwp]. exact HQ.
  Qed.

  (* ---- the indexes ---- *)
  Lemma sd_index_list_load_spec : forall es ws ixs sp (Q : cres (list index) -> spec -> Prop),
    sd_ix_rep (hp sp) es ws ixs ->
    (forall ixs', Forall2 sd_index_eqv ixs ixs' -> Q (CrOk ixs') sp) ->
    cwp fl (sd_index_list_load es) sp Q.
  Proof.
    induction es as [|e r IH]; intros [|w ws] [|ix ixs] sp Q H HQ; cbn [sd_ix_rep] in H; try contradiction;
      cbn [sd_index_list_load]; [apply HQ; constructor|].
    destruct H as [(ixb & mi & -> & Hmi & Hk & Hm) Hr].
    assert (L16 : length ixb = 16%nat).
    { pose proof (el_len ce_dbvalue law_dbvalue _ _ _ Hk) as HL. cbn [ce_size ce_dbvalue] in HL. unfold lenN in HL. lia. }
    apply cwp_bind. unfold sd_index_load.
    apply cwp_bind. rewrite firstn_app_l by (symmetry; exact L16).
    eapply (el_load ce_dbvalue law_dbvalue); [exact Hk|]. cbn [kont].
    apply cwp_bind. rewrite skipn_app_l by (symmetry; exact L16). rewrite cp_de64_le64 by exact Hmi. cbn [cwp kont].
    apply cwp_bind. eapply sd_map_load_spec; [exact Hm|]. intros HP. cbn [kont cwp].
    apply cwp_bind. eapply IH; [exact Hr|]. intros ixs' HF. cbn [kont cwp].
    apply HQ. constructor; [|exact HF]. split; cbn [fst snd]; [reflexivity|symmetry; exact HP].
  Qed.

  (* ---- the whole database ---- *)
  Theorem sd_load_spec root d sp :
    stored_db (hp sp) root d ->
    cwp fl (sd_load root) sp (fun r sp' => sp' = sp /\ exists d', r = CrOk d' /\ sd_eqv d d' /\ undo d' = []).
  Proof.
    intros (w & [Hroot Hu64 _ Hg Hgi Ha1 Hk1 Ha2 Hk2 Hiv Hii Hix Hvv Hvi Hv _]).
    unfold sd_load.
    apply cwp_bind. unfold sd_root_load. apply cwp_bind. eapply cwp_value; [exact Hroot|]. cbn [kont].
    apply cr_de_ser; [exact Hu64|]. cbn [kont].
    apply cwp_bind. rewrite <- Hgi. eapply sd_graph_load_spec; [exact Hg|]. cbn [kont].
    apply cwp_bind. eapply sd_map_load_spec; [exact Ha1|]. intros P1. cbn [kont].
    apply cwp_bind. eapply sd_map_load_spec; [exact Ha2|]. intros P2. cbn [kont].
    apply cwp_bind. unfold sd_indexes_load. apply cwp_bind. rewrite <- Hii.
    eapply sd_vec_load_spec; [exact Hiv|]. cbn [kont].
    eapply sd_index_list_load_spec; [exact Hix|]. intros ixs' HF. cbn [kont].
    apply cwp_bind. unfold sd_values_load. apply cwp_bind. rewrite <- Hvi.
    eapply sd_vec_load_spec; [exact Hvv|]. cbn [kont].
    eapply sd_kvs_load_spec; [exact Hv|]. cbn [kont cwp].
    split; [reflexivity|]. eexists. split; [reflexivity|]. split; [|reflexivity].
    constructor; cbn [gr vals aliases indexes k2v v2k]; try reflexivity.
    - intros a. unfold imap_value. cbn [aliases k2v]. apply alookup_perm; [apply bytes_eqb_eq|symmetry; exact P1|exact Hk1].
    - intros i. unfold imap_key. cbn [aliases v2k]. apply alookup_perm; [apply Z.eqb_eq|symmetry; exact P2|exact Hk2].
    - split; symmetry; assumption.
    - exact HF.
  Qed.
End Load.
