(* StoredDbOpsAlias2.v — DbImpl::insert_new_alias as a PROGRAM over the storage and its proof on a stored database
   (layer L3), for an alias that is NEW and an id that has no alias, when neither table grows nor rehashes in place.

     so_imap_insert        IndexedMapImpl::insert (indexed_map.rs): keys_to_values.insert(key, value); if it returned the
                           previous value v: [values_to_keys.remove(v)]; values_to_keys.insert(value, key); if it returned
                           the previous key k: [keys_to_values.remove(k)].  MapImpl::insert = so_map_insert
                           (StoredDbOpsAlias.v).  The bracketed removals and the grow / in-place rehash branches of the
                           two insertions are NOT modelled: they are parameters (so_alias_rest) and the theorem holds for
                           every choice of them, because under its hypotheses they are not executed.
     so_alias_insert_new   DbImpl::insert_new_alias(db_id, alias): undo_stack.push (memory, no storage call);
                           self.aliases.insert(storage, alias, db_id)
     the handles           DbIndexedMap<String, DbId> = the two DbMapData handles (cm_data); so_alias_handles a w: they are
                           the ones of the witness
     so_alias_tables_ok    C19's invariant PInv of the two stored tables (what every history of multi_map.rs operations from
                           the empty table satisfies: C19_table_refines_multimap), for the hash functions hs / hi
                           (StableHash of String / DbId: parameters, every function) and a minimum capacity >= 4

   sd_a1_update / sd_a2_update: one alias table of a stored database replaced under a frame (the shape of
   StoredDbFrame.sd_graph_update).
   so_alias_insert_new_stored: the theorem pinned as C05_db_insert_new_alias_preserves_stored_db_partial. *)
From Coq Require Import List NArith ZArith Arith Bool Lia Permutation.
Import ListNotations.
From Agdb Require Import Bytes BytesProofs Utf8 Codec DbValue ValueIndex Graph DbModel Records RecordsProofs Storage StorageSpec
  StorageLayout Collections CollValues CollWp CollBytes CollVecBase CollVecOps CollVec CollVec2 CollElems CollSep CollMap CollMapHist
  CollGraph CollValuesProofs OpenMap OpenMapProofs OpenMapSpec OpenMapRefineBase OpenMapRefineStep OpenMapRefine
  StoredDb StoredDbRep StoredDbLoad StoredDbProbe StoredDbFrame StoredDbOps StoredDbOpsDb StoredDbOpsDb2 StoredDbOpsAlias.
Open Scope N_scope.

(* ---------------- the program ---------------- *)
Record so_alias_rest := {
  sar_k2v : so_map_rest; sar_v2k : so_map_rest;
  sar_remove_v2k : cm_data -> Z -> cprog cm_data;          (* values_to_keys.remove(&v) *)
  sar_remove_k2v : cm_data -> bytes -> cprog cm_data       (* keys_to_values.remove(&k) *)
}.

Section AliasProg.
  Variable hs : bytes -> N.      (* <String as StableHash>::stable_hash *)
  Variable hi : Z -> N.          (* <DbId as StableHash>::stable_hash *)

  Definition so_imap_insert (x : so_alias_rest) (a : cm_data * cm_data) (key : bytes) (value : Z) : cprog (cm_data * cm_data) :=
    r1 <~ so_map_insert bytes Z ce_string ce_i64 bytes_eqb hs (sar_k2v x) (fst a) key value ;;
    a2 <~ match snd r1 with Some v => sar_remove_v2k x (snd a) v | None => CRet (snd a) end ;;
    r2 <~ so_map_insert Z bytes ce_i64 ce_string Z.eqb hi (sar_v2k x) a2 value key ;;
    a1 <~ match snd r2 with Some k => sar_remove_k2v x (fst r1) k | None => CRet (fst r1) end ;;
    CRet (a1, fst r2).

  Definition so_alias_insert_new (x : so_alias_rest) (a : cm_data * cm_data) (id : Z) (alias : bytes) : cprog (cm_data * cm_data) :=
    so_imap_insert x a alias id.
End AliasProg.

Definition so_alias_handles (a : cm_data * cm_data) (w : sd_wit) : Prop := fst a = mw_d (sw_a1 w) /\ snd a = mw_d (sw_a2 w).

Definition so_alias_tables_ok (hs : bytes -> N) (hi : Z -> N) (mincap : nat) (w : sd_wit) : Prop :=
  PInv bytes Z hs mincap (ct_omap bytes Z (mw_t (sw_a1 w))) /\ PInv Z bytes hi mincap (ct_omap Z bytes (mw_t (sw_a2 w))).

(* ---------------- one alias table replaced under a frame ---------------- *)
Definition sd_with_a1 (w : sd_wit) (m : sd_mapw bytes Z) : sd_wit :=
  {| sw_root := sw_root w; sw_g := sw_g w; sw_gs := sw_gs w; sw_a1 := m; sw_a2 := sw_a2 w;
     sw_ih := sw_ih w; sw_is := sw_is w; sw_ie := sw_ie w; sw_iw := sw_iw w;
     sw_vh := sw_vh w; sw_vs := sw_vs w; sw_vi := sw_vi w; sw_vw := sw_vw w |}.
Definition sd_with_a2 (w : sd_wit) (m : sd_mapw Z bytes) : sd_wit :=
  {| sw_root := sw_root w; sw_g := sw_g w; sw_gs := sw_gs w; sw_a1 := sw_a1 w; sw_a2 := m;
     sw_ih := sw_ih w; sw_is := sw_is w; sw_ie := sw_ie w; sw_iw := sw_iw w;
     sw_vh := sw_vh w; sw_vs := sw_vs w; sw_vi := sw_vi w; sw_vw := sw_vw w |}.

Definition sd_rest2 (w : sd_wit) : list N :=
  foot bytes (ce_raw 24) sd_law24 (sw_ih w) (sw_is w) ++ sd_ix_foot (sw_ie w) (sw_iw w) ++
  foot N ce_u64 law_u64 (sw_vh w) (sw_vs w) ++ sd_kv_foot (sw_vw w).

Lemma sd_foot_split1 root w :
  sd_foot root w = (root :: gfoot (sw_g w) (sw_gs w)) ++ sd_foot_a1 (sw_a1 w) ++ (sd_foot_a2 (sw_a2 w) ++ sd_rest2 w).
Proof. unfold sd_foot, sd_rest2. cbn [app]. reflexivity. Qed.
Lemma sd_foot_split2 root w :
  sd_foot root w = (root :: gfoot (sw_g w) (sw_gs w) ++ sd_foot_a1 (sw_a1 w)) ++ sd_foot_a2 (sw_a2 w) ++ sd_rest2 w.
Proof. unfold sd_foot, sd_rest2. cbn [app]. rewrite <- app_assoc. reflexivity. Qed.

Lemma live_all_sub g (A B : list N) : live_all g A -> (forall j, In j B -> In j A) -> live_all g B.
Proof. intros H S j Hj. apply H. apply S. exact Hj. Qed.

Theorem sd_a1_update g g' root d w m' l' :
  stored_db_w g root d w -> sd_rep_a1 g' m' (cr_aliases1 (sw_root w)) l' -> NoDup (map fst l') ->
  frame g g' (sd_foot_a1 (sw_a1 w)) (sd_foot_a1 m') ->
  stored_db_w g' root (with_aliases d {| k2v := l'; v2k := v2k (aliases d) |}) (sd_with_a1 w m') /\
  frame g g' (sd_foot root w) (sd_foot root (sd_with_a1 w m')).
Proof.
  intros H HR ND Hf.
  pose proof (sr_nodup _ _ _ _ H) as Hnd. rewrite sd_foot_split1 in Hnd.
  pose proof (stored_db_live _ _ _ _ H) as Hlive. rewrite sd_foot_split1 in Hlive.
  assert (Hl : live_all g ((root :: gfoot (sw_g w) (sw_gs w)) ++ sd_foot_a2 (sw_a2 w) ++ sd_rest2 w)).
  { eapply live_all_sub; [exact Hlive|]. intros j Hj. apply in_app_or in Hj. apply in_or_app.
    destruct Hj as [Hj|Hj]; [left; exact Hj|right; apply in_or_app; right; exact Hj]. }
  assert (NF' : NoDup (sd_foot_a1 m')).
  { destruct HR as (HM & _). exact (ms_nodup _ _ _ _ _ _ _ _ _ _ _ _ _ _ (mr_sep _ _ _ _ _ _ _ _ _ _ _ _ HM)). }
  destruct (sep_update g g' (root :: gfoot (sw_g w) (sw_gs w)) _ _ (sd_foot_a2 (sw_a2 w) ++ sd_rest2 w) Hf Hnd Hl NF') as (N' & F' & Same).
  split; [|rewrite !sd_foot_split1; exact F'].
  destruct H as [Hroot Hu64 Hver Hg Hgi Ha1 Hk1 Ha2 Hk2 Hiv Hii Hix Hvv Hvi Hv _].
  assert (SameG : forall j, In j (root :: gfoot (sw_g w) (sw_gs w)) -> g' j = g j).
  { intros j Hj. apply Same. apply in_or_app. left. exact Hj. }
  assert (SameR : forall j, In j (sd_foot_a2 (sw_a2 w) ++ sd_rest2 w) -> g' j = g j).
  { intros j Hj. apply Same. apply in_or_app. right. exact Hj. }
  unfold sd_rest2 in SameR.
  constructor; cbn [sd_with_a1 sw_root sw_g sw_gs sw_a1 sw_a2 sw_ih sw_is sw_ie sw_iw sw_vh sw_vs sw_vi sw_vw with_aliases gr aliases vals indexes k2v v2k].
  - rewrite SameG; [exact Hroot|left; reflexivity].
  - exact Hu64.
  - exact Hver.
  - eapply grep_transport; [exact Hg|]. intros j Hj. apply SameG. right. exact Hj.
  - exact Hgi.
  - exact HR.
  - exact ND.
  - eapply sd_transport_map; [exact Ha2|]. intros j Hj. apply SameR. apply in_or_app. left. exact Hj.
  - exact Hk2.
  - eapply vrep_transport; [exact Hiv|]. intros j Hj. apply SameR. apply in_or_app; right. apply in_or_app. left. exact Hj.
  - exact Hii.
  - eapply sd_transport_ix; [exact Hix|]. intros j Hj. apply SameR. do 2 (apply in_or_app; right). apply in_or_app. left. exact Hj.
  - eapply vrep_transport; [exact Hvv|]. intros j Hj. apply SameR. do 3 (apply in_or_app; right). apply in_or_app. left. exact Hj.
  - exact Hvi.
  - eapply sd_transport_kv; [exact Hv|]. intros j Hj. apply SameR. do 4 (apply in_or_app; right). exact Hj.
  - rewrite sd_foot_split1. exact N'.
Qed.

Theorem sd_a2_update g g' root d w m' l' :
  stored_db_w g root d w -> sd_rep_a2 g' m' (cr_aliases2 (sw_root w)) l' -> NoDup (map fst l') ->
  frame g g' (sd_foot_a2 (sw_a2 w)) (sd_foot_a2 m') ->
  stored_db_w g' root (with_aliases d {| k2v := k2v (aliases d); v2k := l' |}) (sd_with_a2 w m') /\
  frame g g' (sd_foot root w) (sd_foot root (sd_with_a2 w m')).
Proof.
  intros H HR ND Hf.
  pose proof (sr_nodup _ _ _ _ H) as Hnd. rewrite sd_foot_split2 in Hnd.
  pose proof (stored_db_live _ _ _ _ H) as Hlive. rewrite sd_foot_split2 in Hlive.
  assert (Hl : live_all g ((root :: gfoot (sw_g w) (sw_gs w) ++ sd_foot_a1 (sw_a1 w)) ++ sd_rest2 w)).
  { eapply live_all_sub; [exact Hlive|]. intros j Hj. apply in_app_or in Hj. apply in_or_app.
    destruct Hj as [Hj|Hj]; [left; exact Hj|right; apply in_or_app; right; exact Hj]. }
  assert (NF' : NoDup (sd_foot_a2 m')).
  { destruct HR as (HM & _). exact (ms_nodup _ _ _ _ _ _ _ _ _ _ _ _ _ _ (mr_sep _ _ _ _ _ _ _ _ _ _ _ _ HM)). }
  destruct (sep_update g g' (root :: gfoot (sw_g w) (sw_gs w) ++ sd_foot_a1 (sw_a1 w)) _ _ (sd_rest2 w) Hf Hnd Hl NF') as (N' & F' & Same).
  split; [|rewrite !sd_foot_split2; exact F'].
  destruct H as [Hroot Hu64 Hver Hg Hgi Ha1 Hk1 Ha2 Hk2 Hiv Hii Hix Hvv Hvi Hv _].
  assert (SameG : forall j, In j (root :: gfoot (sw_g w) (sw_gs w) ++ sd_foot_a1 (sw_a1 w)) -> g' j = g j).
  { intros j Hj. apply Same. apply in_or_app. left. exact Hj. }
  assert (SameR : forall j, In j (sd_rest2 w) -> g' j = g j).
  { intros j Hj. apply Same. apply in_or_app. right. exact Hj. }
  unfold sd_rest2 in SameR.
  constructor; cbn [sd_with_a2 sw_root sw_g sw_gs sw_a1 sw_a2 sw_ih sw_is sw_ie sw_iw sw_vh sw_vs sw_vi sw_vw with_aliases gr aliases vals indexes k2v v2k].
  - rewrite SameG; [exact Hroot|left; reflexivity].
  - exact Hu64.
  - exact Hver.
  - eapply grep_transport; [exact Hg|]. intros j Hj. apply SameG. right. apply in_or_app. left. exact Hj.
  - exact Hgi.
  - eapply sd_transport_map; [exact Ha1|]. intros j Hj. apply SameG. right. apply in_or_app. right. exact Hj.
  - exact Hk1.
  - exact HR.
  - exact ND.
  - eapply vrep_transport; [exact Hiv|]. intros j Hj. apply SameR. apply in_or_app. left. exact Hj.
  - exact Hii.
  - eapply sd_transport_ix; [exact Hix|]. intros j Hj. apply SameR. apply in_or_app; right. apply in_or_app. left. exact Hj.
  - eapply vrep_transport; [exact Hvv|]. intros j Hj. apply SameR. do 2 (apply in_or_app; right). apply in_or_app. left. exact Hj.
  - exact Hvi.
  - eapply sd_transport_kv; [exact Hv|]. intros j Hj. apply SameR. do 3 (apply in_or_app; right). exact Hj.
  - rewrite sd_foot_split2. exact N'.
Qed.
