(* OpenMapRefine.v — the open-addressing table REFINES the abstract multimap of OpenMapSpec.v, for every
   history of operations from the empty map: the simulation of one step (OpenMapRefineStep.v) lifted by
   induction over operation lists; plus what it means for lookups (exactly the stored pairs are found) and
   for rehash (lookups are unchanged). *)
From Coq Require Import List NArith ZArith Arith Bool Lia ZifyBool ZifyNat ZifyN Permutation.
Import ListNotations.
From Agdb Require Import OpenMap OpenMapProofs OpenMapSpec OpenMapRefineBase OpenMapRefineRehash
  OpenMapRefineLookup OpenMapRefineOps OpenMapRefineStep.
Ltac Zify.zify_post_hook ::= Z.div_mod_to_equations.

Section Refine.
  Variables K V : Type.
  Variable keqb : K -> K -> bool.
  Variable veqb : V -> V -> bool.
  Variable h : K -> N.
  Variable mincap : nat.
  Variable rv : om_revision.

  Hypothesis keqb_eq : forall a b, keqb a b = true <-> a = b.
  Hypothesis veqb_eq : forall a b, veqb a b = true <-> a = b.
  Hypothesis Hmin : 4 <= mincap.
  Hypothesis Hguard : fix_insert_wrap_guard rv = true.
  Hypothesis Hfin : fix_iter_finished rv = true.

  Notation omapT := (omap K V).
  Notation cap := (capacity K V).
  Notation vals := (mm_values K V keqb).
  Notation rem1 := (mm_remove_one K V keqb veqb).
  Notation absm := (abs K V).
  Notation PI := (PInv K V h mincap).
  Notation sobs := (step_obs K V keqb veqb h mincap rv).
  Notation robs := (run_obs K V keqb veqb h mincap rv).
  Notation mstep := (mm_step K V keqb veqb).
  Notation mrun := (mm_run K V keqb veqb).

  Lemma vals_perm' : forall k a b, Permutation a b -> Permutation (vals k a) (vals k b).
  Proof. intros k a b HP. unfold mm_values. apply Permutation_map. apply Permutation_filter. exact HP. Qed.

  (* one step: the table does what the multimap allows, and stays in the invariant *)
  Theorem step_refines : forall (m : omapT) (o : op K V) (s : mm K V),
    PI m -> Permutation (absm m) s ->
    exists m' ob s', sobs m o = Done (m', ob) /\ PI m' /\ mstep s o ob s' /\ Permutation (absm m') s'.
  Proof.
    intros m o s HI HP. destruct o as [k v|k p v|k|k v|c|k|k]; cbn [step_obs].
    - destruct (insert_spec K V keqb veqb h mincap rv keqb_eq veqb_eq Hmin m k v HI) as [m' [Hr [HI' HP']]].
      rewrite Hr. exists m', ObsUnit, (mm_insert K V k v s). split; [reflexivity|]. split; [exact HI'|].
      split; [constructor|]. eapply Permutation_trans; [exact HP'|]. apply perm_skip. exact HP.
    - destruct (insert_or_replace_spec K V keqb veqb h mincap rv keqb_eq veqb_eq Hmin Hguard m k p v HI)
        as [m' [r [Hr [HI' Hspec]]]].
      rewrite Hr. destruct r as [w|].
      + destruct Hspec as [Hin [Hpw HP']].
        exists m', (ObsReplaced (Some w)), (mm_insert K V k v (rem1 k w s)).
        split; [reflexivity|]. split; [exact HI'|]. split.
        * constructor; [|exact Hpw]. exact (Permutation_in _ (vals_perm' k _ _ HP) Hin).
        * eapply Permutation_trans; [exact HP'|]. apply perm_skip.
          apply (remove_one_perm K V keqb veqb keqb_eq veqb_eq). exact HP.
      + destruct Hspec as [Hnone HP'].
        exists m', (ObsReplaced None), (mm_insert K V k v s).
        split; [reflexivity|]. split; [exact HI'|]. split.
        * constructor. intros w Hw. apply Hnone.
          exact (Permutation_in _ (vals_perm' k _ _ (Permutation_sym HP)) Hw).
        * eapply Permutation_trans; [exact HP'|]. apply perm_skip. exact HP.
    - destruct (remove_key_spec K V keqb veqb h mincap rv keqb_eq veqb_eq Hmin m k HI) as [m' [Hr [HI' HP']]].
      rewrite Hr. exists m', ObsUnit, (mm_remove_key K V keqb k s). split; [reflexivity|]. split; [exact HI'|].
      split; [constructor|]. eapply Permutation_trans; [exact HP'|]. apply Permutation_filter. exact HP.
    - destruct (remove_value_spec K V keqb veqb h mincap rv keqb_eq veqb_eq Hmin m k v HI) as [m' [Hr [HI' HP']]].
      rewrite Hr. exists m', ObsUnit, (rem1 k v s). split; [reflexivity|]. split; [exact HI'|].
      split; [constructor|]. eapply Permutation_trans; [exact HP'|].
      apply (remove_one_perm K V keqb veqb keqb_eq veqb_eq). exact HP.
    - destruct (reserve_good K V keqb veqb h mincap rv keqb_eq veqb_eq Hmin m c HI) as [m' [Hr [HI' HP']]].
      rewrite Hr. exists m', ObsUnit, s. split; [reflexivity|]. split; [exact HI'|].
      split; [constructor|]. eapply Permutation_trans; [exact HP'|exact HP].
    - destruct (lookup_spec K V keqb veqb h mincap rv keqb_eq Hfin m k HI) as [l [_ [Hv HPl]]].
      rewrite Hv. pose proof (Permutation_trans HPl (vals_perm' k _ _ HP)) as HPs.
      exists m, (ObsValue (hd_error l)), s. split; [reflexivity|]. split; [exact HI|]. split; [|exact HP].
      destruct l as [|w l']; cbn [hd_error].
      + constructor. apply Permutation_nil. exact HPs.
      + constructor. apply (Permutation_in _ HPs). left. reflexivity.
    - destruct (lookup_spec K V keqb veqb h mincap rv keqb_eq Hfin m k HI) as [l [Hvs [_ HPl]]].
      rewrite Hvs. exists m, (ObsValues l), s. split; [reflexivity|]. split; [exact HI|]. split; [|exact HP].
      constructor. exact (Permutation_trans HPl (vals_perm' k _ _ HP)).
  Qed.

  Theorem run_refines : forall (ops : list (op K V)) (m : omapT) (s : mm K V),
    PI m -> Permutation (absm m) s ->
    exists m' obl s', robs m ops = Done (m', obl) /\ PI m' /\ mrun s ops obl s' /\ Permutation (absm m') s'.
  Proof.
    induction ops as [|o r IH]; intros m s HI HP; cbn [run_obs].
    - exists m, [], s. split; [reflexivity|]. split; [exact HI|]. split; [constructor|exact HP].
    - destruct (step_refines m o s HI HP) as [m1 [ob [s1 [Hs [HI1 [Hm1 HP1]]]]]]. rewrite Hs.
      destruct (IH m1 s1 HI1 HP1) as [m2 [obl [s2 [Hr [HI2 [Hm2 HP2]]]]]]. rewrite Hr.
      exists m2, (ob :: obl), s2. split; [reflexivity|]. split; [exact HI2|]. split; [|exact HP2].
      econstructor; eassumption.
  Qed.

  (* ALL histories from the empty map *)
  Theorem table_refines_multimap : forall ops : list (op K V),
    exists m obl s, robs empty_map ops = Done (m, obl) /\ mrun [] ops obl s /\
                    Permutation (iter_all K V m) s /\ len m = length s /\ PI m.
  Proof.
    intros ops.
    destruct (run_refines ops empty_map [] (PInv_empty K V h mincap) (Permutation_refl _))
      as [m [obl [s [Hr [HI [Hm HP]]]]]].
    exists m, obl, s. split; [exact Hr|]. split; [exact Hm|]. split; [exact HP|]. split; [|exact HI].
    rewrite (PInv_len K V h mincap m HI). apply Permutation_length. exact HP.
  Qed.

  (* run_obs is `run` of OpenMap.v (the function of C19_probe_bound) with the observations kept *)
  Lemma step_obs_step : forall (m m' : omapT) o ob,
    sobs m o = Done (m', ob) -> step K V keqb veqb h mincap rv m o = Done m'.
  Proof.
    intros m m' o ob. unfold step. destruct o as [k v|k p v|k|k v|c|k|k]; cbn [step_obs step_fuel].
    - fold (insert K V h mincap m k v). destruct (insert K V h mincap m k v); intros Hs; inversion Hs; reflexivity.
    - fold (insert_or_replace K V keqb h mincap rv m k p v).
      destruct (insert_or_replace K V keqb h mincap rv m k p v) as [[m1 r]|]; intros Hs; inversion Hs; reflexivity.
    - fold (remove_key K V keqb h mincap rv m k).
      destruct (remove_key K V keqb h mincap rv m k); intros Hs; inversion Hs; reflexivity.
    - fold (remove_value K V keqb veqb h mincap rv m k v).
      destruct (remove_value K V keqb veqb h mincap rv m k v); intros Hs; inversion Hs; reflexivity.
    - destruct (reserve K V h mincap m c); intros Hs; inversion Hs; reflexivity.
    - fold (value K V keqb h m k). destruct (value K V keqb h m k); intros Hs; inversion Hs; reflexivity.
    - fold (values K V keqb h rv m k). destruct (values K V keqb h rv m k); intros Hs; inversion Hs; reflexivity.
  Qed.

  Lemma run_obs_run : forall ops (m m' : omapT) obl,
    robs m ops = Done (m', obl) -> run K V keqb veqb h mincap rv m ops = Done m'.
  Proof.
    unfold run. induction ops as [|o r IH]; intros m m' obl Hr; cbn [run_obs run_fuel] in *.
    - inversion Hr; reflexivity.
    - destruct (sobs m o) as [[m1 ob]|] eqn:Hs; [|discriminate].
      apply step_obs_step in Hs. unfold step in Hs. rewrite Hs.
      destruct (robs m1 r) as [[m2 obl2]|] eqn:Hr2; [|discriminate]. inversion Hr; subst.
      exact (IH m1 m' obl2 Hr2).
  Qed.

  (* ---------------- lookups find exactly the stored pairs ---------------- *)

  Lemma existsb_in : forall (l : list V) v, existsb (fun w => veqb w v) l = true <-> In v l.
  Proof.
    intros l v. rewrite existsb_exists. split.
    - intros [w [Hin Hw]]. apply veqb_eq in Hw. subst. exact Hin.
    - intros Hin. exists v. split; [exact Hin|apply veqb_eq; reflexivity].
  Qed.

  Lemma contains_value_in : forall k v (s : mm K V), mm_contains_value K V keqb veqb k v s = true <-> In (k, v) s.
  Proof.
    intros k v s. unfold mm_contains_value. rewrite existsb_exists. split.
    - intros [[k' v'] [Hin Hm]]. cbn in Hm. apply andb_true_iff in Hm. destruct Hm as [Hk Hv].
      apply keqb_eq in Hk. apply veqb_eq in Hv. subst. exact Hin.
    - intros Hin. exists (k, v). split; [exact Hin|]. cbn.
      rewrite (keqb_refl K keqb keqb_eq), (veqb_refl V veqb veqb_eq). reflexivity.
  Qed.

  (* on every table satisfying the invariant (in particular after every history, table_refines_multimap) *)
  Theorem lookup_finds_exactly_stored : forall (m : omapT) (k : K), PI m ->
    exists l, values K V keqb h rv m k = Done l /\
              value K V keqb h m k = Done (hd_error l) /\
              Permutation l (vals k (iter_all K V m)) /\
              (forall v, In v l <-> In (k, v) (iter_all K V m)) /\
              (forall v, contains_value K V keqb veqb h rv m k v =
                         Done (mm_contains_value K V keqb veqb k v (iter_all K V m))) /\
              values_count K V keqb h rv m k = Done (length (vals k (iter_all K V m))) /\
              len m = length (iter_all K V m).
  Proof.
    intros m k HI.
    destruct (lookup_spec K V keqb veqb h mincap rv keqb_eq Hfin m k HI) as [l [Hvs [Hv HPl]]].
    change (absm m) with (iter_all K V m) in HPl.
    assert (Hiff : forall v, In v l <-> In (k, v) (iter_all K V m)).
    { intros v. rewrite <- (in_vals K V keqb keqb_eq). split; intros Hin.
      - exact (Permutation_in _ HPl Hin).
      - exact (Permutation_in _ (Permutation_sym HPl) Hin). }
    exists l. split; [exact Hvs|]. split; [exact Hv|]. split; [exact HPl|]. split; [exact Hiff|].
    split; [|split].
    - intros v. unfold contains_value. rewrite Hvs. f_equal.
      apply eq_iff_eq_true. rewrite existsb_in, contains_value_in. apply Hiff.
    - unfold values_count. rewrite Hvs. f_equal. apply Permutation_length. exact HPl.
    - exact (PInv_len K V h mincap m HI).
  Qed.

  (* ---------------- rehash keeps every lookup ---------------- *)

  Lemma lookups_agree : forall (m m' : omapT) k, PI m -> PI m' -> Permutation (absm m') (absm m) ->
    exists l l', values K V keqb h rv m k = Done l /\ values K V keqb h rv m' k = Done l' /\ Permutation l' l /\
                 value K V keqb h m k = Done (hd_error l) /\ value K V keqb h m' k = Done (hd_error l') /\
                 (hd_error l' = None <-> hd_error l = None).
  Proof.
    intros m m' k HI HI' HP.
    destruct (lookup_spec K V keqb veqb h mincap rv keqb_eq Hfin m k HI) as [l [Hvs [Hv HPl]]].
    destruct (lookup_spec K V keqb veqb h mincap rv keqb_eq Hfin m' k HI') as [l' [Hvs' [Hv' HPl']]].
    assert (HPll : Permutation l' l).
    { eapply Permutation_trans; [exact HPl'|]. eapply Permutation_trans; [apply vals_perm'; exact HP|].
      apply Permutation_sym. exact HPl. }
    exists l, l'. repeat split; auto.
    - destruct l as [|x l0]; [reflexivity|]. destruct l' as [|y l1]; [|discriminate].
      apply Permutation_nil in HPll. discriminate.
    - destruct l' as [|y l1]; [reflexivity|]. destruct l as [|x l0]; [|discriminate].
      apply Permutation_sym, Permutation_nil in HPll. discriminate.
  Qed.

  (* grow / shrink (rehash to any capacity that can hold the pairs) and the in-place rehash of fix fc221a8:
     complete, keep the invariant and the stored multiset, and every lookup returns the same values as before *)
  Theorem rehash_keeps_lookups : forall (m : omapT) (c : nat), PI m -> len m < Nat.max c mincap ->
    exists m', rehash K V h mincap m c = Done m' /\ PI m' /\ cap m' = Nat.max c mincap /\
               Permutation (iter_all K V m') (iter_all K V m) /\
               forall k, exists l l', values K V keqb h rv m k = Done l /\ values K V keqb h rv m' k = Done l' /\
                                      Permutation l' l /\
                                      value K V keqb h m k = Done (hd_error l) /\
                                      value K V keqb h m' k = Done (hd_error l') /\
                                      (hd_error l' = None <-> hd_error l = None).
  Proof.
    intros m c HI Hlt. pose proof HI as [[Hcv _] Hch].
    destruct (rehash_good K V keqb veqb h mincap rv keqb_eq veqb_eq Hmin m c Hcv Hlt Hch) as [m' [Hr [Hc [Hl [HG HP]]]]].
    pose proof (Good_PInv K V h mincap rv Hmin m' HG) as HI'.
    exists m'. split; [exact Hr|]. split; [exact HI'|]. split; [exact Hc|]. split; [exact HP|].
    intros k. apply lookups_agree; assumption.
  Qed.

  Theorem rehash_in_place_keeps_lookups : forall (m : omapT), PI m -> 0 < cap m ->
    exists m', rehash_in_place K V h m = Done m' /\ PI m' /\ cap m' = cap m /\
               clean K V (cap m') (slots m') /\
               Permutation (iter_all K V m') (iter_all K V m) /\
               forall k, exists l l', values K V keqb h rv m k = Done l /\ values K V keqb h rv m' k = Done l' /\
                                      Permutation l' l /\
                                      value K V keqb h m k = Done (hd_error l) /\
                                      value K V keqb h m' k = Done (hd_error l') /\
                                      (hd_error l' = None <-> hd_error l = None).
  Proof.
    intros m HI Hc0. pose proof HI as [[Hcv [Hz|[Hmc Hlt]]] Hch]; [lia|].
    destruct (rehash_in_place_full K V keqb veqb h keqb_eq veqb_eq m Hcv Hlt)
      as [m' [Hr [Hc [Hl [Hcv' [Hch' [Hcl HP]]]]]]].
    assert (HI' : PI m').
    { apply (Good_PInv K V h mincap rv Hmin). unfold Good. split; [exact Hcv'|]. split; [lia|]. split; [lia|exact Hch']. }
    exists m'. split; [exact Hr|]. split; [exact HI'|]. split; [exact Hc|]. split; [exact Hcl|]. split; [exact HP|].
    intros k. apply lookups_agree; assumption.
  Qed.

End Refine.
