(* GraphOps2.v — the primitive operations of Graph.v at the array level preserve rsim. *)
From Agdb Require Import Bytes Graph GraphArr GraphSim GraphSim2 GraphSim3 GraphOps.
From Coq Require Import ZifyBool ZifyNat ZifyN.
Ltac Zify.zify_post_hook ::= Z.div_mod_to_equations.
Open Scope Z_scope.

Section Ops.
  Variables (g : graph) (nodes : list Z) (PO PI : Z -> Prop) (ER EO EI : list aedge) (fl : list Z) (cnt : Z).
  Hypothesis RS : rsim g nodes PO PI ER EO EI fl cnt.

  Let W : wfl g := proj1 RS.
  Let R := proj2 RS.
  Let D := gdesc_self g W.
  Let B := r_base _ _ _ _ _ _ _ _ _ _ _ _ _ R.
  Let FS := r_free _ _ _ _ _ _ _ _ _ _ _ _ _ R.

  (* ---- get_free_index ---- *)
  Lemma alloc_spec x g' :
    get_free_index g = (x, g') ->
    0 < x /\ ~ In x nodes /\ ~ In x (map eslot ER) /\ (x = capacity g \/ In x fl) /\
    rsim g' (x :: nodes) PO PI ER EO EI (tl fl) cnt.
  Proof.
    unfold get_free_index. rewrite (f_head _ _ _ _ _ _ _ _ _ FS).
    pose proof (r_cap _ _ _ _ _ _ _ _ _ _ _ _ _ R) as Hcap.
    destruct fl as [|x0 rest] eqn:Efl; cbn [fhead tl].
    - rewrite Z.eqb_refl. intros E. injection E as <- <-.
      split; [lia|]. split.
      { intros Hi. pose proof (b_nodes_range _ _ _ B _ Hi). lia. }
      split.
      { intros Hi. apply in_map_iff in Hi. destruct Hi as [y [Hy Hi]].
        pose proof (b_ER_range _ _ _ B y Hi). lia. }
      split; [left; reflexivity|].
      destruct (gdesc_overflow _ _ _ _ _ _ D) as [O1 [O2 [O3 O4]]].
      eapply rsim_of_gdesc; [apply gdesc_grow; exact D|].
      apply rsimF_alloc_grow; assumption.
    - destruct (f_fl _ _ _ _ _ _ _ _ _ FS x0 (or_introl eq_refl)) as [Hxr [Hxm [Hxn Hxe]]].
      destruct (Z.eqb_spec (- x0) i64_min) as [E0|E0]; [contradiction|].
      rewrite Z.opp_involutive. intros E. injection E as <- <-.
      split; [lia|]. split; [assumption|]. split; [assumption|]. split; [right; left; reflexivity|].
      pose proof (gdesc_set_fmeta _ _ _ _ _ _ D 0 (fmeta g x0)) as D1.
      change (Z.abs 0) with 0 in D1. specialize (D1 ltac:(lia)).
      pose proof (gdesc_set_fmeta _ _ _ _ _ _ D1 x0 0) as D2.
      rewrite (Z.abs_eq x0) in D2 by lia. specialize (D2 ltac:(lia)).
      eapply rsim_of_gdesc; [exact D2|]. apply rsimF_alloc_pop. exact R.
  Qed.

  (* ---- node count ---- *)
  Lemma cnt_spec c : rsim (set_tmeta g 0 c) nodes PO PI ER EO EI fl c.
  Proof.
    pose proof (r_cap _ _ _ _ _ _ _ _ _ _ _ _ _ R) as Hcap.
    pose proof (gdesc_set_tmeta _ _ _ _ _ _ D 0 c) as D1.
    change (Z.abs 0) with 0 in D1. specialize (D1 ltac:(lia)).
    eapply rsim_of_gdesc; [exact D1|]. eapply rsimF_cnt. exact R.
  Qed.

  Lemma node_count_spec : node_count g = cnt.
  Proof. unfold node_count. apply (f_cnt _ _ _ _ _ _ _ _ _ FS). Qed.

  (* ---- link ---- *)
  Lemma link_out_spec e :
    In e ER -> ~ In (eslot e) (map eslot EO) ->
    rsim (update_from_edge g (esrc e) (- eslot e)) nodes PO PI ER (e :: EO) EI fl cnt.
  Proof.
    intros He Hn.
    pose proof (b_ER_range _ _ _ B e He) as Hsr.
    destruct (b_ends _ _ _ B e He) as [Hs _].
    pose proof (b_nodes_range _ _ _ B _ Hs) as Hfr.
    assert (Hne : esrc e <> eslot e).
    { intros E0. apply (b_disj _ _ _ B _ Hs). rewrite E0. apply in_map. assumption. }
    unfold update_from_edge. rewrite Z.opp_involutive.
    pose proof (gdesc_set_fmeta _ _ _ _ _ _ D (- eslot e) (from g (esrc e))) as D1.
    rewrite Z.abs_opp, (Z.abs_eq (eslot e)) in D1 by lia. specialize (D1 ltac:(lia)).
    pose proof (gdesc_set_from _ _ _ _ _ _ D1 (esrc e) (eslot e)) as D2.
    rewrite (Z.abs_eq (esrc e)) in D2 by lia. specialize (D2 ltac:(lia)).
    pose proof (gdesc_fmeta _ _ _ _ _ _ D2 (esrc e)) as Hc.
    rewrite (Z.abs_eq (esrc e)) in Hc by lia. rewrite upd_other in Hc by assumption.
    rewrite Hc.
    pose proof (gdesc_set_fmeta _ _ _ _ _ _ D2 (esrc e) (fmeta g (esrc e) + 1)) as D3.
    rewrite (Z.abs_eq (esrc e)) in D3 by lia. specialize (D3 ltac:(lia)).
    eapply rsim_of_gdesc; [exact D3|]. apply rsimF_link_out; assumption.
  Qed.

  Lemma link_in_spec e :
    In e ER -> ~ In (eslot e) (map eslot EI) ->
    rsim (update_to_edge g (etgt e) (- eslot e)) nodes PO PI ER EO (e :: EI) fl cnt.
  Proof.
    intros He Hn.
    pose proof (b_ER_range _ _ _ B e He) as Hsr.
    destruct (b_ends _ _ _ B e He) as [_ Ht].
    pose proof (b_nodes_range _ _ _ B _ Ht) as Hfr.
    assert (Hne : etgt e <> eslot e).
    { intros E0. apply (b_disj _ _ _ B _ Ht). rewrite E0. apply in_map. assumption. }
    unfold update_to_edge. rewrite Z.opp_involutive.
    pose proof (gdesc_set_tmeta _ _ _ _ _ _ D (- eslot e) (to g (etgt e))) as D1.
    rewrite Z.abs_opp, (Z.abs_eq (eslot e)) in D1 by lia. specialize (D1 ltac:(lia)).
    pose proof (gdesc_set_to _ _ _ _ _ _ D1 (etgt e) (eslot e)) as D2.
    rewrite (Z.abs_eq (etgt e)) in D2 by lia. specialize (D2 ltac:(lia)).
    pose proof (gdesc_tmeta _ _ _ _ _ _ D2 (etgt e)) as Hc.
    rewrite (Z.abs_eq (etgt e)) in Hc by lia. rewrite upd_other in Hc by assumption.
    rewrite Hc.
    pose proof (gdesc_set_tmeta _ _ _ _ _ _ D2 (etgt e) (tmeta g (etgt e) + 1)) as D3.
    rewrite (Z.abs_eq (etgt e)) in D3 by lia. specialize (D3 ltac:(lia)).
    eapply rsim_of_gdesc; [exact D3|]. apply rsimF_link_in; assumption.
  Qed.

  (* ---- unlink: never out of fuel ---- *)
  Lemma unlink_out_spec e :
    In e EO -> PO (esrc e) ->
    exists g', remove_from_edge g (- eslot e) = Some g' /\
      rsim g' nodes PO PI ER (remE (eslot e) EO) EI fl cnt /\
      g_to g' = g_to g /\ g_tmeta g' = g_tmeta g.
  Proof.
    intros He HP.
    pose proof (r_out _ _ _ _ _ _ _ _ _ _ _ _ _ R) as HO.
    assert (HeR : In e ER) by (apply (h_incl _ _ _ _ _ _ _ HO); assumption).
    pose proof (b_ER_range _ _ _ B e HeR) as Hsr.
    destruct (b_ends _ _ _ B e HeR) as [Hs _].
    pose proof (b_nodes_range _ _ _ B _ Hs) as Hfr.
    destruct (h_rec _ _ _ _ _ _ _ HO e HeR) as [Hrec _].
    unfold remove_from_edge.
    rewrite (get_neg (g_from g) (eslot e) : from g (- eslot e) = from g (eslot e)).
    rewrite Hrec, !Z.opp_involutive.
    rewrite (fmeta_even g (eslot e)).
    destruct (Z.eqb_spec (- from g (esrc e)) (- eslot e)) as [Eh|Eh].
    - (* head *)
      assert (Hh : from g (esrc e) = eslot e) by lia.
      pose proof (gdesc_set_from _ _ _ _ _ _ D (esrc e) (fmeta g (eslot e))) as D1.
      rewrite (Z.abs_eq (esrc e)) in D1 by lia. specialize (D1 ltac:(lia)).
      pose proof (gdesc_fmeta _ _ _ _ _ _ D1 (esrc e)) as Hc.
      rewrite (Z.abs_eq (esrc e)) in Hc by lia. rewrite Hc.
      pose proof (gdesc_set_fmeta _ _ _ _ _ _ D1 (esrc e) (fmeta g (esrc e) - 1)) as D2.
      rewrite (Z.abs_eq (esrc e)) in D2 by lia. specialize (D2 ltac:(lia)).
      eexists. split; [reflexivity|]. split; [|split; reflexivity].
      eapply rsim_of_gdesc; [exact D2|]. apply rsimF_unlink_out_head; assumption.
    - (* inner *)
      assert (Hh : from g (esrc e) <> eslot e) by lia.
      destruct (rsimF_unlink_out_inner _ _ _ _ _ _ _ _ _ _ _ _ _ R e (length (g_from g)))
        as [p' [Hf [Hpr [Hpk RF]]]]; try assumption.
      { apply fmeta_even. }
      { unfold capacity. lia. }
      change (fun p : Z => fmeta g p) with (fmeta g). rewrite Hf.
      pose proof (gdesc_set_fmeta _ _ _ _ _ _ D p' (fmeta g (eslot e))) as D1.
      specialize (D1 ltac:(lia)).
      pose proof (gdesc_fmeta _ _ _ _ _ _ D1 (esrc e)) as Hc.
      rewrite (Z.abs_eq (esrc e)) in Hc by lia. rewrite upd_other in Hc by congruence. rewrite Hc.
      pose proof (gdesc_set_fmeta _ _ _ _ _ _ D1 (esrc e) (fmeta g (esrc e) - 1)) as D2.
      rewrite (Z.abs_eq (esrc e)) in D2 by lia. specialize (D2 ltac:(lia)).
      eexists. split; [reflexivity|]. split; [|split; reflexivity].
      eapply rsim_of_gdesc; [exact D2|]. exact RF.
  Qed.

  Lemma unlink_in_spec e :
    In e EI -> PI (etgt e) ->
    exists g', remove_to_edge g (- eslot e) = Some g' /\
      rsim g' nodes PO PI ER EO (remE (eslot e) EI) fl cnt /\
      g_from g' = g_from g /\ g_fmeta g' = g_fmeta g.
  Proof.
    intros He HP.
    pose proof (r_in _ _ _ _ _ _ _ _ _ _ _ _ _ R) as HO.
    assert (HeR : In e ER) by (apply (h_incl _ _ _ _ _ _ _ HO); assumption).
    pose proof (b_ER_range _ _ _ B e HeR) as Hsr.
    destruct (b_ends _ _ _ B e HeR) as [_ Hs].
    pose proof (b_nodes_range _ _ _ B _ Hs) as Hfr.
    destruct (h_rec _ _ _ _ _ _ _ HO e HeR) as [Hrec _].
    unfold remove_to_edge.
    rewrite (get_neg (g_to g) (eslot e) : to g (- eslot e) = to g (eslot e)).
    rewrite Hrec, !Z.opp_involutive.
    rewrite (tmeta_even g (eslot e)).
    destruct (Z.eqb_spec (- to g (etgt e)) (- eslot e)) as [Eh|Eh].
    - (* head *)
      assert (Hh : to g (etgt e) = eslot e) by lia.
      pose proof (gdesc_set_to _ _ _ _ _ _ D (etgt e) (tmeta g (eslot e))) as D1.
      rewrite (Z.abs_eq (etgt e)) in D1 by lia. specialize (D1 ltac:(lia)).
      pose proof (gdesc_tmeta _ _ _ _ _ _ D1 (etgt e)) as Hc.
      rewrite (Z.abs_eq (etgt e)) in Hc by lia. rewrite Hc.
      pose proof (gdesc_set_tmeta _ _ _ _ _ _ D1 (etgt e) (tmeta g (etgt e) - 1)) as D2.
      rewrite (Z.abs_eq (etgt e)) in D2 by lia. specialize (D2 ltac:(lia)).
      eexists. split; [reflexivity|]. split; [|split; reflexivity].
      eapply rsim_of_gdesc; [exact D2|]. apply rsimF_unlink_in_head; assumption.
    - (* inner *)
      assert (Hh : to g (etgt e) <> eslot e) by lia.
      destruct (rsimF_unlink_in_inner _ _ _ _ _ _ _ _ _ _ _ _ _ R e (length (g_from g)))
        as [p' [Hf [Hpr [Hpk RF]]]]; try assumption.
      { apply tmeta_even. }
      { unfold capacity. lia. }
      change (fun p : Z => tmeta g p) with (tmeta g). rewrite Hf.
      pose proof (gdesc_set_tmeta _ _ _ _ _ _ D p' (tmeta g (eslot e))) as D1.
      specialize (D1 ltac:(lia)).
      pose proof (gdesc_tmeta _ _ _ _ _ _ D1 (etgt e)) as Hc.
      rewrite (Z.abs_eq (etgt e)) in Hc by lia. rewrite upd_other in Hc by congruence. rewrite Hc.
      pose proof (gdesc_set_tmeta _ _ _ _ _ _ D1 (etgt e) (tmeta g (etgt e) - 1)) as D2.
      rewrite (Z.abs_eq (etgt e)) in D2 by lia. specialize (D2 ltac:(lia)).
      eexists. split; [reflexivity|]. split; [|split; reflexivity].
      eapply rsim_of_gdesc; [exact D2|]. exact RF.
  Qed.

  (* ---- free_index ---- *)
  Lemma free_desc s :
    0 < s < capacity g ->
    gdesc (free_index g s) (capacity g)
          (upd (from g) s 0) (upd (to g) s 0) (upd (upd (fmeta g) s (fmeta g 0)) 0 (- s)) (upd (tmeta g) s 0).
  Proof.
    intros Hs. unfold free_index.
    pose proof (gdesc_set_fmeta _ _ _ _ _ _ D s (fmeta g 0)) as D1.
    rewrite (Z.abs_eq s) in D1 by lia. specialize (D1 ltac:(lia)).
    pose proof (gdesc_set_fmeta _ _ _ _ _ _ D1 0 (- s)) as D2.
    change (Z.abs 0) with 0 in D2. specialize (D2 ltac:(lia)).
    pose proof (gdesc_set_from _ _ _ _ _ _ D2 s 0) as D3.
    rewrite (Z.abs_eq s) in D3 by lia. specialize (D3 ltac:(lia)).
    pose proof (gdesc_set_to _ _ _ _ _ _ D3 s 0) as D4.
    rewrite (Z.abs_eq s) in D4 by lia. specialize (D4 ltac:(lia)).
    pose proof (gdesc_set_tmeta _ _ _ _ _ _ D4 s 0) as D5.
    rewrite (Z.abs_eq s) in D5 by lia. specialize (D5 ltac:(lia)).
    exact D5.
  Qed.

  Lemma free_rec_spec e :
    In e ER -> ~ In (eslot e) (map eslot EO) -> ~ In (eslot e) (map eslot EI) ->
    rsim (free_index g (eslot e)) nodes PO PI (remE (eslot e) ER) EO EI
         (if - eslot e =? i64_min then [] else eslot e :: fl) cnt.
  Proof.
    intros He H1 H2. pose proof (b_ER_range _ _ _ B e He) as Hsr.
    eapply rsim_of_gdesc; [apply free_desc; assumption|].
    apply (rsimF_free_rec _ _ _ _ _ _ _ _ _ _ _ _ _ R e); assumption.
  Qed.

  Lemma free_node_spec m :
    In m nodes -> (forall y, In y ER -> esrc y <> m /\ etgt y <> m) ->
    rsim (free_index g m) (zrem m nodes) PO PI ER EO EI
         (if - m =? i64_min then [] else m :: fl) cnt.
  Proof.
    intros Hm Hiso. pose proof (b_nodes_range _ _ _ B m Hm) as Hmr.
    eapply rsim_of_gdesc; [apply free_desc; assumption|].
    apply (rsimF_free_node _ _ _ _ _ _ _ _ _ _ _ _ _ R m); assumption.
  Qed.

  (* ---- logical steps ---- *)
  Lemma drop_out_spec e :
    In e EO -> ~ PO (esrc e) -> rsim g nodes PO PI ER (remE (eslot e) EO) EI fl cnt.
  Proof. intros H1 H2. split; [exact W|]. apply (rsimF_drop_out _ _ _ _ _ _ _ _ _ _ _ _ _ R); assumption. Qed.

  Lemma drop_in_spec e :
    In e EI -> ~ PI (etgt e) -> rsim g nodes PO PI ER EO (remE (eslot e) EI) fl cnt.
  Proof. intros H1 H2. split; [exact W|]. apply (rsimF_drop_in _ _ _ _ _ _ _ _ _ _ _ _ _ R); assumption. Qed.

  Lemma weaken_spec (PO' PI' : Z -> Prop) :
    (forall m, In m nodes -> PO' m -> PO m) -> (forall m, In m nodes -> PI' m -> PI m) ->
    rsim g nodes PO' PI' ER EO EI fl cnt.
  Proof. intros H1 H2. split; [exact W|]. apply (rsimF_weaken _ _ _ _ _ _ _ _ _ _ _ _ _ R); assumption. Qed.
End Ops.

(* a fresh node s becomes the record of the edge (s, (f, t)) *)
Lemma node_to_rec_spec g nodes PO PI ER EO EI fl cnt s f t :
  rsim g (s :: nodes) PO PI ER EO EI fl cnt ->
  In f nodes -> In t nodes -> (forall y, In y ER -> esrc y <> s /\ etgt y <> s) ->
  rsim (set_to (set_from g (- s) (- f)) (- s) (- t)) nodes PO PI ((s, (f, t)) :: ER) EO EI fl cnt.
Proof.
  intros [W R] Hf Ht Hiso.
  pose proof (b_nodes_range _ _ _ (r_base _ _ _ _ _ _ _ _ _ _ _ _ _ R) s (or_introl eq_refl)) as Hsr.
  pose proof (gdesc_self g W) as D.
  pose proof (gdesc_set_from _ _ _ _ _ _ D (- s) (- f)) as D1.
  rewrite Z.abs_opp, (Z.abs_eq s) in D1 by lia. specialize (D1 ltac:(lia)).
  pose proof (gdesc_set_to _ _ _ _ _ _ D1 (- s) (- t)) as D2.
  rewrite Z.abs_opp, (Z.abs_eq s) in D2 by lia. specialize (D2 ltac:(lia)).
  eapply rsim_of_gdesc; [exact D2|]. apply rsimF_node_to_rec; assumption.
Qed.
