(* GraphSpec.v — read side of the graph (adjacency iterators, degree counts, element
   iteration), the abstract multigraph specification as an acceptor, and the lifting of the
   simulation to all histories of operations. *)
From Agdb Require Import Bytes Graph GraphArr GraphSim GraphSim2 GraphSim3 GraphOps GraphOps2 GraphProofs GraphRemove.
From Coq Require Import Sorted.
From Coq Require Import ZifyBool ZifyNat ZifyN.
Ltac Zify.zify_post_hook ::= Z.div_mod_to_equations.
Open Scope Z_scope.

(* ---------- the abstract multigraph in terms of ids ---------- *)

(* edge ids are the negated slots *)
Definition a_edge_ids (a : agraph) : list Z := map (fun x => - eslot x) (a_edges a).
(* out- / in-adjacency of a node, newest edge first, as edge ids; a self-loop is in both *)
Definition a_out (a : agraph) (n : Z) : list Z := map Z.opp (adj esrc (a_edges a) n).
Definition a_in (a : agraph) (n : Z) : list Z := map Z.opp (adj etgt (a_edges a) n).
(* endpoints of the edge with id e *)
Definition a_edge (a : agraph) (e : Z) : option (Z * Z) :=
  match find (fun x => eslot x =? - e) (a_edges a) with Some x => Some (snd x) | None => None end.

(* ---------- read side under the simulation ---------- *)

Section Read.
  Variables (g : graph) (a : agraph) (fl : list Z).
  Hypothesis HS : sim g a fl.

  Let R := proj2 HS.
  Let B := r_base _ _ _ _ _ _ _ _ _ _ _ _ _ R.

  Lemma sim_node_count : node_count g = Z.of_nat (length (a_nodes a)).
  Proof. apply (node_count_spec _ _ _ _ _ _ _ _ _ HS). Qed.

  Lemma sim_nodes_pos n : In n (a_nodes a) -> 0 < n < capacity g.
  Proof. apply (b_nodes_range _ _ _ B). Qed.

  Lemma sim_edges_pos x : In x (a_edges a) -> 0 < eslot x < capacity g.
  Proof. apply (b_ER_range _ _ _ B). Qed.

  Lemma sim_nodes_nodup : NoDup (a_nodes a).
  Proof. apply (b_nodes_nodup _ _ _ B). Qed.

  Lemma sim_edges_nodup : NoDup (map eslot (a_edges a)).
  Proof. apply (b_ER_nodup _ _ _ B). Qed.

  Lemma sim_disjoint n : In n (a_nodes a) -> ~ In n (map eslot (a_edges a)).
  Proof. apply (b_disj _ _ _ B). Qed.

  Lemma sim_ends x : In x (a_edges a) -> In (esrc x) (a_nodes a) /\ In (etgt x) (a_nodes a).
  Proof. apply (b_ends _ _ _ B). Qed.

  Lemma sim_graph_index i :
    graph_index g i = true <-> (0 < i /\ In i (a_nodes a)) \/ (i < 0 /\ In (- i) (map eslot (a_edges a))).
  Proof.
    unfold graph_index.
    destruct (Z.ltb_spec i 0) as [Hi|Hi].
    - rewrite (is_edge_iff _ _ _ _ _ _ _ _ _ HS). rewrite Z.abs_neq by lia. split; [intros; right; auto|].
      intros [[H _]|[_ H]]; [lia|assumption].
    - destruct (Z.ltb_spec 0 i) as [Hp|Hp].
      + rewrite (is_node_iff _ _ _ _ _ _ _ _ _ HS). rewrite Z.abs_eq by lia. split; [intros; left; auto|].
        intros [[_ H]|[H _]]; [assumption|lia].
      + split; [discriminate|]. intros [[H _]|[H _]]; lia.
  Qed.

  Lemma sim_out_edges n :
    In n (a_nodes a) ->
    out_edges g n = a_out a n /\ edge_count_from g n = Z.of_nat (length (a_out a n)).
  Proof.
    intros Hn.
    destruct (h_chain _ _ _ _ _ _ _ (r_out _ _ _ _ _ _ _ _ _ _ _ _ _ R) n Hn I) as [Hc Hd].
    unfold a_out. rewrite map_length. split; [|exact Hd].
    unfold out_edges, first_edge_from.
    change (next_edge_from g) with (fun e => - fmeta g e).
    apply edge_list_chain.
    - apply fmeta_even.
    - intros y Hy. apply in_adj in Hy. destruct Hy as [x [Hx [<- _]]]. apply (sim_edges_pos x Hx).
    - exact Hc.
    - apply adj_length_le; [apply sim_edges_nodup|]. intros x Hx. apply (sim_edges_pos x Hx).
  Qed.

  Lemma sim_in_edges n :
    In n (a_nodes a) ->
    in_edges g n = a_in a n /\ edge_count_to g n = Z.of_nat (length (a_in a n)).
  Proof.
    intros Hn.
    destruct (h_chain _ _ _ _ _ _ _ (r_in _ _ _ _ _ _ _ _ _ _ _ _ _ R) n Hn I) as [Hc Hd].
    unfold a_in. rewrite map_length. split; [|exact Hd].
    unfold in_edges, first_edge_to.
    change (next_edge_to g) with (fun e => - tmeta g e).
    apply edge_list_chain.
    - apply tmeta_even.
    - intros y Hy. apply in_adj in Hy. destruct Hy as [x [Hx [<- _]]]. apply (sim_edges_pos x Hx).
    - exact Hc.
    - apply adj_length_le; [apply sim_edges_nodup|]. intros x Hx. apply (sim_edges_pos x Hx).
  Qed.

  Lemma sim_edge_ends x :
    In x (a_edges a) -> edge_from g (- eslot x) = esrc x /\ edge_to g (- eslot x) = etgt x.
  Proof. apply (edge_ends _ _ _ _ _ _ _ _ _ HS). Qed.
End Read.

(* ---------- element iteration: holds for every graph, by definition ---------- *)

Definition abs_lt (x y : Z) : Prop := Z.abs x < Z.abs y.

Lemma element_at_sound g s i :
  element_at g s = Some i -> (1 <= s)%nat -> (s < length (g_from g))%nat ->
  graph_index g i = true /\ Z.abs i = Z.of_nat s.
Proof.
  unfold element_at. intros H H1 H2.
  destruct (Z.ltb_spec (fmeta g (Z.of_nat s)) 0) as [Hf|Hf]; [discriminate|].
  destruct (Z.ltb_spec (from g (Z.of_nat s)) 0) as [Hfr|Hfr]; injection H as <-.
  - split; [|lia]. unfold graph_index, is_edge, valid_index, capacity, fmeta, from. rewrite !get_neg.
    unfold fmeta, from in *. destruct (Z.ltb_spec (- Z.of_nat s) 0); [|lia]. lia.
  - split; [|lia]. unfold graph_index, is_node, valid_index, capacity.
    destruct (Z.ltb_spec (Z.of_nat s) 0); [lia|]. destruct (Z.ltb_spec 0 (Z.of_nat s)); [|lia]. lia.
Qed.

Lemma element_at_complete g i :
  graph_index g i = true ->
  element_at g (Z.to_nat (Z.abs i)) = Some i /\ 1 <= Z.abs i < Z.of_nat (length (g_from g)).
Proof.
  unfold graph_index, element_at. intros H.
  rewrite Z2Nat.id by lia.
  assert (Hf : fmeta g (Z.abs i) = fmeta g i) by apply get_abs.
  assert (Hfr : from g (Z.abs i) = from g i) by apply get_abs.
  rewrite Hf, Hfr.
  unfold is_edge, is_node, valid_index, capacity in H.
  destruct (Z.ltb_spec i 0).
  - destruct (Z.ltb_spec (fmeta g i) 0); [lia|]. destruct (Z.ltb_spec (from g i) 0); [|lia].
    split; [f_equal|]; lia.
  - destruct (Z.ltb_spec 0 i); [|discriminate].
    destruct (Z.ltb_spec (fmeta g i) 0); [lia|]. destruct (Z.ltb_spec (from g i) 0); [lia|].
    split; [f_equal|]; lia.
Qed.

Definition opt_list (o : option Z) : list Z := match o with Some e => [e] | None => [] end.

Lemma flat_seq_in (f : nat -> option Z) a k e :
  In e (flat_map (fun s => opt_list (f s)) (seq a k)) <-> exists s, (a <= s < a + k)%nat /\ f s = Some e.
Proof.
  rewrite in_flat_map. split.
  - intros [s [Hs He]]. apply in_seq in Hs. exists s. split; [lia|].
    destruct (f s); cbn [opt_list] in He; [destruct He as [->|[]]; reflexivity|destruct He].
  - intros [s [Hs He]]. exists s. split; [apply in_seq; lia|]. rewrite He. left. reflexivity.
Qed.

Lemma flat_seq_sorted (f : nat -> option Z) :
  (forall s e, f s = Some e -> Z.abs e = Z.of_nat s) ->
  forall k a, StronglySorted abs_lt (flat_map (fun s => opt_list (f s)) (seq a k)).
Proof.
  intros Hf. induction k as [|k IH]; intros a; cbn [seq flat_map]; [constructor|].
  destruct (f a) as [e|] eqn:E; cbn [opt_list app]; [|apply IH].
  constructor; [apply IH|].
  apply Forall_forall. intros y Hy. apply flat_seq_in in Hy. destruct Hy as [s [Hs Hy]].
  unfold abs_lt. rewrite (Hf _ _ E), (Hf _ _ Hy). lia.
Qed.

Lemma elements_eq g :
  elements g = flat_map (fun s => opt_list (element_at g s)) (seq 1 (length (g_from g) - 1)).
Proof. reflexivity. Qed.

Lemma elements_in g i : In i (elements g) <-> graph_index g i = true.
Proof.
  rewrite elements_eq, flat_seq_in. split.
  - intros [s [Hs He]]. apply (element_at_sound g s i He); lia.
  - intros H. destruct (element_at_complete g i H) as [He Hr].
    exists (Z.to_nat (Z.abs i)). split; [lia|assumption].
Qed.

Lemma elements_sorted g : StronglySorted abs_lt (elements g).
Proof.
  rewrite elements_eq.
  assert (Hgen : forall k a, (1 <= a)%nat -> (a + k <= length (g_from g))%nat ->
            StronglySorted abs_lt (flat_map (fun s => opt_list (element_at g s)) (seq a k))).
  { induction k as [|k IH]; intros a Ha Hk; cbn [seq flat_map]; [constructor|].
    destruct (element_at g a) as [e|] eqn:E; cbn [opt_list app]; [|apply IH; lia].
    constructor; [apply IH; lia|].
    apply Forall_forall. intros y Hy. apply flat_seq_in in Hy. destruct Hy as [s [Hs Hy]].
    unfold abs_lt.
    destruct (element_at_sound g a e E) as [_ ->]; [lia|lia|].
    destruct (element_at_sound g s y Hy) as [_ ->]; lia. }
  destruct (length (g_from g)) as [|n] eqn:El; [constructor|].
  apply Hgen; lia.
Qed.

Lemma sorted_abs_nodup l : StronglySorted abs_lt l -> NoDup l.
Proof.
  induction 1 as [|x l Hs IH Hf]; constructor; [|assumption].
  intros Hi. rewrite Forall_forall in Hf. specialize (Hf x Hi). unfold abs_lt in Hf. lia.
Qed.

Lemma elements_nodup g : NoDup (elements g).
Proof. apply sorted_abs_nodup, elements_sorted. Qed.

(* no two listed elements share a slot, and a listed element is never a freed slot *)
Lemma elements_not_freed g i : In i (elements g) -> 0 <= fmeta g i /\ i <> 0 /\ Z.abs i < capacity g.
Proof.
  intros H. apply elements_in in H. unfold graph_index, is_edge, is_node, valid_index in H.
  destruct (Z.ltb_spec i 0); [lia|]. destruct (Z.ltb_spec 0 i); [lia|discriminate].
Qed.

Lemma elements_sign g i :
  In i (elements g) -> (0 < i /\ is_node g i = true) \/ (i < 0 /\ is_edge g i = true).
Proof.
  intros H. apply elements_in in H. unfold graph_index in H.
  destruct (Z.ltb_spec i 0); [right; auto|]. destruct (Z.ltb_spec 0 i); [left; auto|discriminate].
Qed.

(* with the simulation: exactly the abstract nodes and edge ids *)
Lemma sim_elements g a fl i :
  sim g a fl -> (In i (elements g) <-> In i (a_nodes a) \/ In i (a_edge_ids a)).
Proof.
  intros HS. rewrite elements_in, (sim_graph_index _ _ _ HS). unfold a_edge_ids.
  split.
  - intros [[_ H]|[_ H]]; [left; assumption|right].
    apply in_map_iff in H. destruct H as [x [Hx H]]. apply in_map_iff. exists x. split; [lia|assumption].
  - intros [H|H].
    + left. split; [|assumption]. apply (sim_nodes_pos _ _ _ HS i H).
    + right. apply in_map_iff in H. destruct H as [x [Hx H]].
      pose proof (sim_edges_pos _ _ _ HS x H). split; [lia|].
      apply in_map_iff. exists x. split; [lia|assumption].
Qed.

(* ---------- operations, acceptor specification, histories ---------- *)

Inductive gop :=
| GInsertNode
| GInsertEdge (f t : Z)
| GRemoveNode (n : Z)
| GRemoveEdge (e : Z).

(* the implementation step: new graph and the returned id; None = an unlink loop ran out of fuel *)
Definition gstep (g : graph) (op : gop) : option (graph * option Z) :=
  match op with
  | GInsertNode => let '(i, g') := insert_node g in Some (g', Some i)
  | GInsertEdge f t => match insert_edge g f t with
                       | Some (i, g') => Some (g', Some i)
                       | None => Some (g, None)
                       end
  | GRemoveNode n => match remove_node g n with Some g' => Some (g', None) | None => None end
  | GRemoveEdge e => match remove_edge g e with Some g' => Some (g', None) | None => None end
  end.

Definition zmem (i : Z) (l : list Z) : bool := existsb (Z.eqb i) l.

(* the magnitude |id| is used by neither a node nor an edge *)
Definition a_fresh (a : agraph) (s : Z) : bool := negb (zmem s (a_nodes a)) && negb (zmem s (map eslot (a_edges a))).

(* the abstract multigraph step, given the id the implementation returned (acceptor):
   None = the specification rejects the implementation's answer *)
Definition astep (a : agraph) (op : gop) (out : option Z) : option agraph :=
  match op, out with
  | GInsertNode, Some i =>
      if (0 <? i) && a_fresh a i then Some {| a_nodes := i :: a_nodes a; a_edges := a_edges a |} else None
  | GInsertEdge f t, Some i =>
      if (i <? 0) && a_fresh a (- i) && zmem f (a_nodes a) && zmem t (a_nodes a)
      then Some {| a_nodes := a_nodes a; a_edges := (- i, (f, t)) :: a_edges a |} else None
  | GInsertEdge f t, None =>
      if zmem f (a_nodes a) && zmem t (a_nodes a) then None else Some a
  | GRemoveNode n, None =>
      Some {| a_nodes := zrem n (a_nodes a); a_edges := filter (keep_edge n) (a_edges a) |}
  | GRemoveEdge e, None =>
      Some {| a_nodes := a_nodes a; a_edges := remE (- e) (a_edges a) |}
  | _, _ => None
  end.

(* ids are passed with the sign of their kind (DbImpl::graph_index dispatches on the sign) *)
Definition gop_ok (op : gop) : Prop :=
  match op with
  | GInsertNode => True
  | GInsertEdge f t => 0 <= f /\ 0 <= t
  | GRemoveNode n => 0 <= n
  | GRemoveEdge e => e <= 0
  end.

Fixpoint grun (g : graph) (a : agraph) (ops : list gop) : option (graph * agraph) :=
  match ops with
  | [] => Some (g, a)
  | op :: r =>
    match gstep g op with
    | None => None
    | Some (g', out) =>
      match astep a op out with
      | None => None
      | Some a' => grun g' a' r
      end
    end
  end.

Lemma zmem_iff i l : zmem i l = true <-> In i l.
Proof.
  unfold zmem. rewrite existsb_exists. split.
  - intros [x [Hx E]]. apply Z.eqb_eq in E. subst. assumption.
  - intros H. exists i. split; [assumption|apply Z.eqb_refl].
Qed.

Lemma zmem_false i l : zmem i l = false <-> ~ In i l.
Proof. rewrite <- zmem_iff. destruct (zmem i l); split; intros; congruence. Qed.

Lemma gstep_sim g a fl op :
  sim g a fl -> gop_ok op ->
  exists g' out a' fl', gstep g op = Some (g', out) /\ astep a op out = Some a' /\ sim g' a' fl'.
Proof.
  intros HS Hok. destruct op as [|f t|n|e]; cbn [gstep astep gop_ok] in *.
  - pose proof (insert_node_sim g a fl HS) as H. destruct (insert_node g) as [x g'].
    destruct H as [H1 [H2 [H3 [_ S1]]]].
    exists g', (Some x). eexists. exists (tl fl). split; [reflexivity|].
    assert (E : (0 <? x) && a_fresh a x = true).
    { unfold a_fresh. apply zmem_false in H2. apply zmem_false in H3. rewrite H2, H3. cbn. lia. }
    rewrite E. split; [reflexivity|exact S1].
  - destruct Hok as [Hf Ht].
    destruct (In_dec Z.eq_dec f (a_nodes a)) as [If|If]; [destruct (In_dec Z.eq_dec t (a_nodes a)) as [It|It]|].
    + destruct (insert_edge_sim g a fl f t HS If It) as [x [g' [E [H1 [H2 [H3 [_ S1]]]]]]].
      rewrite E. exists g', (Some (- x)). eexists. exists (tl fl). split; [reflexivity|].
      rewrite Z.opp_involutive.
      assert (E2 : (- x <? 0) && a_fresh a x && zmem f (a_nodes a) && zmem t (a_nodes a) = true).
      { unfold a_fresh. apply zmem_false in H2. apply zmem_false in H3. rewrite H2, H3.
        apply zmem_iff in If. apply zmem_iff in It. rewrite If, It. cbn. lia. }
      rewrite E2. split; [reflexivity|exact S1].
    + rewrite (insert_edge_none g a fl f t HS Hf Ht) by tauto.
      exists g, None, a, fl. split; [reflexivity|]. apply zmem_false in It. rewrite It.
      rewrite Bool.andb_false_r. split; [reflexivity|exact HS].
    + rewrite (insert_edge_none g a fl f t HS Hf Ht) by tauto.
      exists g, None, a, fl. split; [reflexivity|]. apply zmem_false in If. rewrite If.
      cbn [andb]. split; [reflexivity|exact HS].
  - destruct (In_dec Z.eq_dec n (a_nodes a)) as [Hn|Hn].
    + destruct (remove_node_sim g a fl n HS Hn) as [g' [fl' [E S1]]]. rewrite E.
      exists g', None. eexists. exists fl'. split; [reflexivity|]. split; [reflexivity|exact S1].
    + rewrite (remove_node_noop g a fl n HS) by (rewrite Z.abs_eq by lia; assumption).
      exists g, None. eexists. exists fl. split; [reflexivity|]. split; [reflexivity|].
      rewrite zrem_notin by assumption. rewrite filter_all; [destruct a; exact HS|].
      intros x Hx. destruct (sim_ends _ _ _ HS x Hx) as [Ha Hb]. unfold keep_edge.
      destruct (Z.eqb_spec (esrc x) n); [congruence|]. destruct (Z.eqb_spec (etgt x) n); [congruence|]. reflexivity.
  - destruct (In_dec Z.eq_dec (- e) (map eslot (a_edges a))) as [He|He].
    + apply in_map_iff in He. destruct He as [x [Hx He]].
      destruct (remove_edge_sim g a fl x HS He) as [g' [E S1]]. rewrite Hx, Z.opp_involutive in E. rewrite E.
      exists g', None. eexists. eexists. split; [reflexivity|]. split; [reflexivity|].
      rewrite <- Hx. exact S1.
    + rewrite (remove_edge_noop g a fl e HS) by (rewrite Z.abs_neq by lia; assumption).
      exists g, None. eexists. exists fl. split; [reflexivity|]. split; [reflexivity|].
      rewrite remE_notin by assumption. destruct a; exact HS.
Qed.

(* every history of sign-correct operations from the empty graph: no loop runs out of fuel,
   every id the implementation returns is accepted by the abstract multigraph, and the final
   states are related by the simulation *)
Theorem grun_sim ops :
  Forall gop_ok ops ->
  forall g a fl, sim g a fl -> exists g' a' fl', grun g a ops = Some (g', a') /\ sim g' a' fl'.
Proof.
  induction 1 as [|op r Hok _ IH]; intros g a fl HS; cbn [grun].
  - exists g, a, fl. split; [reflexivity|exact HS].
  - destruct (gstep_sim g a fl op HS Hok) as [g1 [out [a1 [fl1 [E1 [E2 S1]]]]]].
    rewrite E1, E2. apply (IH g1 a1 fl1 S1).
Qed.

Corollary grun_new ops :
  Forall gop_ok ops -> exists g a fl, grun graph_new a_empty ops = Some (g, a) /\ sim g a fl.
Proof. intros H. apply (grun_sim ops H graph_new a_empty [] sim_new). Qed.

Corollary grun_wf ops g a :
  Forall gop_ok ops -> grun graph_new a_empty ops = Some (g, a) -> wf g.
Proof.
  intros H E. destruct (grun_new ops H) as [g' [a' [fl [E' S1]]]].
  rewrite E in E'. injection E' as <- <-. exists a, fl. exact S1.
Qed.
