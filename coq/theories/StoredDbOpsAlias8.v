(* StoredDbOpsAlias8.v — DbImpl::insert_new_alias on a stored database with the CODE's grow and in-place rehash.

     so_alias_code hs hi rm1 rm2   the so_alias_rest whose two tables run multi_map.rs's own rehash(capacity * 2) and
                                   rehash_in_place (so_map_code, StoredDbOpsAlias7.v; the resize defaults are String::default()
                                   = "" and DbId::default() = 0); only the two removals IndexedMapImpl::insert performs after
                                   a REPLACED value / key stay parameters (rm1, rm2: not executed for a new alias and an id
                                   without alias)

   so_alias_insert_new_stored_full: as so_alias_insert_new_stored (StoredDbOpsAlias3.v) WITHOUT the side conditions "no grow"
   and "no full probe cycle": whatever the fill of the two tables — including the EMPTY tables of a new database (capacity 0:
   the first insertion grows them to 64 slots) — the program ends in a store holding insert_new_alias d id alias, the tables
   satisfying C19's invariant again (minimum capacity 64, the code's).  Assumed besides PInv: the alias is new, the id has
   no alias, both are valid elements, len + 1 < 2^64, and a table that grows stays below 2^64 bytes per vector
   (so_alias_new_ok2). *)
From Coq Require Import List NArith ZArith Arith Bool Lia Permutation.
Import ListNotations.
From Agdb Require Import Bytes BytesProofs Utf8 Codec DbValue ValueIndex Graph DbModel Records RecordsProofs Storage StorageSpec
  StorageLayout Collections CollValues CollWp CollBytes CollVecBase CollVecOps CollVec CollVec2 CollElems CollSep CollMap CollMapHist
  CollGraph CollValuesProofs OpenMap OpenMapProofs OpenMapSpec OpenMapRefineBase OpenMapRefineStep OpenMapRefine
  StoredDb StoredDbRep StoredDbLoad StoredDbProbe StoredDbFrame StoredDbOps StoredDbOpsDb StoredDbOpsDb2 StoredDbOpsAlias
  StoredDbOpsAlias2 StoredDbOpsAlias3 StoredDbOpsAlias4 StoredDbOpsAlias5 StoredDbOpsAlias6 StoredDbOpsAlias7.
Open Scope N_scope.

Definition so_alias_code (hs : bytes -> N) (hi : Z -> N) (rm1 : cm_data -> Z -> cprog cm_data) (rm2 : cm_data -> bytes -> cprog cm_data)
  : so_alias_rest :=
  {| sar_k2v := so_map_code bytes Z ce_string ce_i64 hs [] 0%Z;
     sar_v2k := so_map_code Z bytes ce_i64 ce_string hi 0%Z [];
     sar_remove_v2k := rm1; sar_remove_k2v := rm2 |}.

Lemma so_str_nil_ok : el_valid law_string ([] : bytes).
Proof. split; [reflexivity|]. vm_compute. reflexivity. Qed.
Lemma so_i64_zero_ok : el_valid law_i64 0%Z.
Proof. cbv. split; [discriminate|reflexivity]. Qed.

Section AliasInsertFull.
  Variable hs : bytes -> N.
  Variable hi : Z -> N.
  Variable fl : bool.

  Definition so_alias_new_ok2 (w : sd_wit) (id : Z) (alias : bytes) : Prop :=
    (so_max_len (lenN (ct_states (mw_t (sw_a1 w)))) <= ct_len (mw_t (sw_a1 w)) -> so_grow_ok bytes Z ce_string ce_i64 (mw_t (sw_a1 w))) /\
    (so_max_len (lenN (ct_states (mw_t (sw_a2 w)))) <= ct_len (mw_t (sw_a2 w)) -> so_grow_ok Z bytes ce_i64 ce_string (mw_t (sw_a2 w))) /\
    el_valid law_string alias /\ el_valid law_i64 id /\
    ct_len (mw_t (sw_a1 w)) + 1 < two64 /\ ct_len (mw_t (sw_a2 w)) + 1 < two64.

  Theorem so_alias_insert_new_stored_full rm1 rm2 root d w h a id alias sp :
    stored_db_w (hp sp) root d w -> so_handles h w -> so_alias_handles a w -> so_alias_tables_ok hs hi 64 w ->
    imap_value (aliases d) alias = None -> imap_key (aliases d) id = None ->
    so_alias_new_ok2 w id alias ->
    cwp fl (so_alias_insert_new hs hi (so_alias_code hs hi rm1 rm2) a id alias) sp
        (fun r sp' => exists a' w', r = CrOk a' /\ stored_db_w (hp sp') root (insert_new_alias d id alias) w' /\
                        so_handles h w' /\ so_alias_handles a' w' /\ so_alias_tables_ok hs hi 64 w' /\
                        (exists m1 m2, w' = sd_with_a2 (sd_with_a1 w m1) m2) /\
                        sdepth sp' = sdepth sp /\ frame (hp sp) (hp sp') (sd_foot root w) (sd_foot root w')).
  Proof.
    intros H Hh [Ea1 Ea2] [P1 P2] Hv Hk (G1 & G2 & VA & VI & L1 & L2).
    destruct a as [a1 a2]. cbn [fst snd] in Ea1, Ea2. subst a1 a2.
    unfold so_alias_insert_new, so_imap_insert. cbn [fst snd so_alias_code sar_k2v sar_v2k sar_remove_v2k sar_remove_k2v].
    destruct (sr_a1 _ _ _ _ H) as (HM1 & Hi1 & Hp1).
    apply cwp_bind.
    eapply (so_map_insert_absent_full bytes Z ce_string ce_i64 law_string law_i64 bytes_eqb Z.eqb hs [] 0%Z fl bytes_eqb_eq Z.eqb_eq
              so_str_nil_ok so_i64_zero_ok);
      [exact HM1|exact P1|eapply (so_absent_from_lookup bytes Z bytes_eqb bytes_eqb_eq); [exact Hp1|exact Hv]|exact VA|exact VI|exact L1|exact G1|].
    intros d1 ss1 ks1 vs1 t1 sp1 HM1' Hidx1 P1' Perm1 Hd1 Hf1. cbn [kont snd fst cbind].
    set (m1 := {| mw_d := d1; mw_ss := ss1; mw_ks := ks1; mw_vs := vs1; mw_t := t1 |}).
    destruct (sd_a1_update (hp sp) (hp sp1) root d w m1 (k2v (aliases d) ++ [(alias, id)])) as [H1 Fr1]; [exact H| | |exact Hf1|].
    { split; [exact HM1'|]. split; [cbn [m1 mw_d]; congruence|]. cbn [m1 mw_t].
      eapply Permutation_trans; [exact Perm1|]. eapply Permutation_trans; [apply perm_skip; exact Hp1|]. apply Permutation_cons_append. }
    { apply (nodup_snoc bytes Z bytes_eqb bytes_eqb_eq); [exact (sr_a1_keys _ _ _ _ H)|exact Hv]. }
    set (w1 := sd_with_a1 w m1) in *.
    destruct (sr_a2 _ _ _ _ H1) as (HM2 & Hi2 & Hp2). cbn [w1 sd_with_a1 sw_a2 sw_root with_aliases aliases v2k] in HM2, Hi2, Hp2.
    apply cwp_bind.
    eapply (so_map_insert_absent_full Z bytes ce_i64 ce_string law_i64 law_string Z.eqb bytes_eqb hi 0%Z [] fl Z.eqb_eq bytes_eqb_eq
              so_i64_zero_ok so_str_nil_ok);
      [exact HM2|exact P2|eapply (so_absent_from_lookup Z bytes Z.eqb Z.eqb_eq); [exact Hp2|exact Hk]|exact VI|exact VA|exact L2|exact G2|].
    intros d2 ss2 ks2 vs2 t2 sp2 HM2' Hidx2 P2' Perm2 Hd2 Hf2. cbn [kont snd fst cbind cwp].
    set (m2 := {| mw_d := d2; mw_ss := ss2; mw_ks := ks2; mw_vs := vs2; mw_t := t2 |}).
    destruct (sd_a2_update (hp sp1) (hp sp2) root _ w1 m2 (v2k (aliases d) ++ [(id, alias)]) H1) as [H2 Fr2]; [| |exact Hf2|].
    { split; [exact HM2'|]. split; [cbn [m2 mw_d w1 sd_with_a1 sw_root]; congruence|]. cbn [m2 mw_t].
      eapply Permutation_trans; [exact Perm2|]. eapply Permutation_trans; [apply perm_skip; exact Hp2|]. apply Permutation_cons_append. }
    { apply (nodup_snoc Z bytes Z.eqb Z.eqb_eq); [exact (sr_a2_keys _ _ _ _ H)|exact Hk]. }
    exists (d1, d2), (sd_with_a2 w1 m2). split; [reflexivity|]. split.
    { eapply stored_db_w_same; [exact H2| | | |]; try reflexivity.
      unfold insert_new_alias. cbn [with_aliases push_undo aliases k2v v2k]. rewrite (imap_insert_new _ _ _ Hv Hk). reflexivity. }
    split; [exact Hh|]. split; [split; reflexivity|]. split; [split; [exact P1'|exact P2']|].
    split; [exists m1, m2; reflexivity|]. split; [lia|].
    eapply frame_trans; [exact Fr1|exact Fr2].
  Qed.
End AliasInsertFull.
