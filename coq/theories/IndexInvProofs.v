(* IndexInvProofs.v — C11, part 6: the index invariants as a property of database states
   (live set = the elements of the graph) and their preservation by the value / index mutations
   of DbImpl that leave the graph alone. *)
From Agdb Require Import Bytes DbValue Graph DbModel Search Queries DbValueEqProofs DbFrameProofs
  KvProofs KvDbProofs KvSelectProofs IndexProofs IndexDbProofs IndexDb2Proofs IndexDb3Proofs IndexDb4Proofs.
Open Scope Z_scope.

(* exact indexes + only live elements have values + no key indexed twice *)
Definition idx_inv (d : db) : Prop := idx_exact d /\ vals_live d /\ idx_distinct d.

Lemma idx_inv_new : idx_inv db_new.
Proof. exact (conj idx_exact_new (conj vals_live_new idx_distinct_new)). Qed.

Lemma idx_distinct_keys d d' : map fst (indexes d') = map fst (indexes d) -> idx_distinct d -> idx_distinct d'.
Proof. unfold idx_distinct, idx_keys_distinct. now intros ->. Qed.

(* transport along a step that keeps the graph *)
Lemma idx_inv_same_gr d d' :
  gr d' = gr d ->
  idx_exact_on (live d) d' -> vals_live_on (live d) d' -> idx_distinct d' -> idx_inv d'.
Proof.
  intros Hg H1 H2 H3. split; [|split; [|exact H3]].
  - apply (idx_exact_on_ext (live d)); [now apply live_same_gr|exact H1].
  - apply (vals_live_on_ext (live d)); [now apply live_same_gr|exact H2].
Qed.

Section IndexInv.
  Variable rv : revision.

  Lemma insert_key_value_inv d id x :
    idx_inv d -> live d id = true -> idx_inv (insert_key_value d id x).
  Proof.
    intros (H1 & H2 & H3) Hid. apply (idx_inv_same_gr d); [reflexivity| | |].
    - now apply insert_key_value_exact; [apply live_ok| |].
    - now apply insert_key_value_live.
    - apply (idx_distinct_keys d); [apply insert_key_value_keys|exact H3].
  Qed.

  Lemma insert_or_replace_key_value_inv d id x :
    idx_inv d -> live d id = true -> idx_inv (insert_or_replace_key_value d id x).
  Proof.
    intros (H1 & H2 & H3) Hid. apply (idx_inv_same_gr d).
    - apply (insert_or_replace_key_value_ga d id x).
    - now apply insert_or_replace_key_value_exact; [apply live_ok| |].
    - now apply insert_or_replace_key_value_live.
    - apply (idx_distinct_keys d); [apply insert_or_replace_key_value_keys|exact H3].
  Qed.

  Lemma reserve_kv_inv d id : idx_inv d -> idx_inv (reserve_kv d id).
  Proof.
    intros (H1 & H2 & H3). apply (idx_inv_same_gr d); [reflexivity| | |exact H3].
    - now apply reserve_kv_exact.
    - now apply reserve_kv_live.
  Qed.

  Lemma insert_kvs_replace_inv d id kvs :
    idx_inv d -> live d id = true -> idx_inv (insert_kvs_replace d id kvs).
  Proof.
    intros Hd Hid. unfold insert_kvs_replace.
    apply (fold_left_inv (fun a => idx_inv a /\ gr a = gr d)).
    - split; [now apply reserve_kv_inv|reflexivity].
    - intros a x _ [Ha Hg]. split.
      + apply insert_or_replace_key_value_inv; [exact Ha|]. unfold live. now rewrite Hg.
      + rewrite (proj1 (insert_or_replace_key_value_ga a id x)). exact Hg.
  Qed.

  Lemma insert_kvs_new_inv d id kvs :
    idx_inv d -> live d id = true -> idx_inv (insert_kvs_new d id kvs).
  Proof.
    intros Hd Hid. unfold insert_kvs_new.
    apply (fold_left_inv (fun a => idx_inv a /\ gr a = gr d)).
    - split; [now apply reserve_kv_inv|reflexivity].
    - intros a x _ [Ha Hg]. split.
      + apply insert_key_value_inv; [exact Ha|]. unfold live. now rewrite Hg.
      + exact Hg.
  Qed.

  Lemma remove_keys_inv d id keys :
    idx_inv d -> kvs_distinct (vals d) -> live d id = true -> idx_inv (snd (remove_keys d id keys)).
  Proof.
    intros (H1 & H2 & H3) Hk Hid. apply (idx_inv_same_gr d).
    - apply (remove_keys_ga d id keys).
    - apply remove_keys_exact; [apply live_ok|exact Hid|apply Hk|exact H1].
    - apply remove_keys_live; [exact Hid|apply Hk|exact H2].
    - apply (idx_distinct_keys d); [apply remove_keys_index_keys|exact H3].
  Qed.

  Lemma insert_index_inv d key n d' :
    insert_index d key = ROk (n, d') -> idx_inv d -> idx_inv d'.
  Proof. intros Hi (H1 & H2 & H3). now apply (insert_index_exact d key n d'). Qed.

  Lemma remove_index_inv d key : idx_inv d -> idx_inv (snd (remove_index d key)).
  Proof.
    intros (H1 & H2 & H3).
    pose proof (remove_index_spec d key H3) as S. cbv zeta in S. destruct S as (A & B & C & D & F & _).
    apply (idx_inv_same_gr d); [exact A| | |exact F].
    - now apply remove_index_exact.
    - now apply (vals_live_on_frame (live d) d).
  Qed.
End IndexInv.
