(* StoredDbOpsAliasExample.v — non-vacuity of so_alias_insert_new_stored (C05_db_insert_new_alias_preserves_stored_db_partial).

   The alias tables of the HAND-BUILT example file (StoredDbExampleBase.v) have capacity 2 — below the minimum capacity of
   C19's invariant, and full (len 1 >= 2 * 15 / 16): an insertion would grow them.  Resizing both tables to capacity 4
   (DbMapData::resize, the program cm_step .. (MoResize 4), run on the model of storage.rs and replayed on the abstract
   record map) yields a record map that HOLDS THE SAME DATABASE sx_db with the tables
       [Empty; Valid "root" 1; Empty; Empty]   and   [Valid 1 "root"; Empty; Empty; Empty].
   For the hash functions hs = (fun _ => 1), hi = (fun _ => 0) (the theorem holds for every hash function) and minimum
   capacity 4 both tables satisfy PInv, and all hypotheses of the theorem hold TOGETHER for the new alias "k" and the id 2
   (node 2 has no alias): not in use, no grow (1 < 4 * 15 / 16 = 3), no full probe cycle, valid elements. *)
From Coq Require Import List NArith ZArith Arith Bool Lia Permutation.
Import ListNotations.
From Agdb Require Import Bytes BytesProofs Utf8 Codec DbValue ValueIndex Graph DbModel Records RecordsProofs Storage StorageSpec
  StorageLayout StorageWp Collections CollValues CollWp CollBytes CollVecBase CollVecOps CollVec CollVec2 CollElems CollSep CollMap
  CollMapHist CollGraph CollValuesProofs OpenMap OpenMapProofs OpenMapSpec OpenMapRefineBase OpenMapRefineStep OpenMapRefine
  StoredDb StoredDbRep StoredDbProofs StoredDbLoad StoredDbProbe StoredDbFrame StoredDbExampleBase StoredDbOps StoredDbOpsDb
  StoredDbOpsDb2 StoredDbOpsExample StoredDbOpsAlias StoredDbOpsAlias2 StoredDbOpsAlias3.
Open Scope N_scope.

Definition sa_new : bytes := [x6b].                                                                     (* "k" *)
Definition sa_hs : bytes -> N := fun _ => 1.
Definition sa_hi : Z -> N := fun _ => 0.

Definition sa_t1 : cm_table bytes Z :=
  {| ct_states := [StEmpty; StValid; StEmpty; StEmpty]; ct_keys := [[]; sx_alias; []; []]; ct_values := [0; 1; 0; 0]%Z; ct_len := 1 |}.
Definition sa_t2 : cm_table Z bytes :=
  {| ct_states := [StValid; StEmpty; StEmpty; StEmpty]; ct_keys := [1; 0; 0; 0]%Z; ct_values := [sx_alias; []; []; []]; ct_len := 1 |}.

Definition sa_prog : cprog (cm_data * cm_data) :=
  r1 <~ cm_step bytes Z ce_string ce_i64 [] 0%Z (mw_d (sw_a1 sx_wit)) (MoResize 4) ;;
  r2 <~ cm_step Z bytes ce_i64 ce_string 0%Z [] (mw_d (sw_a2 sx_wit)) (MoResize 4) ;;
  CRet (fst r1, fst r2).

Lemma sa_str_nil_ok : el_valid law_string ([] : bytes).
Proof. split; [reflexivity|]. vm_compute. reflexivity. Qed.
Lemma sa_i64_ok z : (- 9223372036854775808 <= z < 9223372036854775808)%Z -> el_valid law_i64 z.
Proof. intros H. exact H. Qed.

Lemma sa_cwp fl :
  cwp fl sa_prog (sd_spec_of sx_store)
      (fun r sp' => exists a w', r = CrOk a /\ stored_db_w (hp sp') 1 sx_db w' /\ so_alias_handles a w' /\
                                 mw_t (sw_a1 w') = sa_t1 /\ mw_t (sw_a2 w') = sa_t2).
Proof.
  unfold sa_prog. pose proof sx_stored as H.
  change sx_g with (hp (sd_spec_of sx_store)) in H.
  destruct (sr_a1 _ _ _ _ H) as (HM1 & Hi1 & Hp1).
  apply cwp_bind.
  eapply (cm_step_spec bytes Z ce_string ce_i64 law_string law_i64 [] 0%Z sa_str_nil_ok (sa_i64_ok 0 ltac:(lia)) fl);
    [exact HM1|reflexivity|vm_compute; repeat split; reflexivity|].
  intros d1 ss1 ks1 vs1 sp1 HM1' Hidx1 Hd1 Hf1. cbn [kont fst snd].
  change (fst (ct_step bytes Z [] 0%Z (mw_t (sw_a1 sx_wit)) (MoResize 4))) with sa_t1 in HM1'.
  set (m1 := {| mw_d := d1; mw_ss := ss1; mw_ks := ks1; mw_vs := vs1; mw_t := sa_t1 |}).
  destruct (sd_a1_update _ (hp sp1) 1 sx_db sx_wit m1 (k2v (aliases sx_db)) H) as [H1 Fr1]; [| |exact Hf1|].
  { split; [exact HM1'|]. split; [cbn [m1 mw_d]; rewrite Hidx1; exact Hi1|]. vm_compute. apply Permutation_refl. }
  { exact (sr_a1_keys _ _ _ _ H). }
  destruct (sr_a2 _ _ _ _ H1) as (HM2 & Hi2 & Hp2).
  apply cwp_bind.
  eapply (cm_step_spec Z bytes ce_i64 ce_string law_i64 law_string 0%Z [] (sa_i64_ok 0 ltac:(lia)) sa_str_nil_ok fl);
    [exact HM2|exact Hd1|vm_compute; repeat split; reflexivity|].
  intros d2 ss2 ks2 vs2 sp2 HM2' Hidx2 Hd2 Hf2. cbn [kont fst snd cwp].
  change (fst (ct_step Z bytes 0%Z [] (mw_t (sw_a2 (sd_with_a1 sx_wit m1))) (MoResize 4))) with sa_t2 in HM2'.
  set (m2 := {| mw_d := d2; mw_ss := ss2; mw_ks := ks2; mw_vs := vs2; mw_t := sa_t2 |}).
  destruct (sd_a2_update _ (hp sp2) 1 _ (sd_with_a1 sx_wit m1) m2 (v2k (aliases sx_db)) H1) as [H2 Fr2]; [| |exact Hf2|].
  { split; [exact HM2'|]. split; [cbn [m2 mw_d]; rewrite Hidx2; exact Hi2|]. vm_compute. apply Permutation_refl. }
  { exact (sr_a2_keys _ _ _ _ H). }
  exists (d1, d2), (sd_with_a2 (sd_with_a1 sx_wit m1) m2). split; [reflexivity|]. split.
  { eapply stored_db_w_same; [exact H2| | | |]; reflexivity. }
  split; [split; reflexivity|]. split; reflexivity.
Qed.

Lemma sa_pinv1 : PInv bytes Z sa_hs 4 (ct_omap bytes Z sa_t1).
Proof.
  split.
  - split; [reflexivity|right; vm_compute; lia].
  - intros i k v Hi Hn j Hj Hd. unfold capacity in *. cbn in Hi, Hj.
    destruct i as [|[|[|[|i]]]]; try (cbn in Hn; discriminate); [|lia].
    cbn in Hn. injection Hn as <- <-. change (hpos bytes sa_hs sx_alias _) with 1%nat in Hd. rewrite dist_self in Hd. lia.
Qed.
Lemma sa_pinv2 : PInv Z bytes sa_hi 4 (ct_omap Z bytes sa_t2).
Proof.
  split.
  - split; [reflexivity|right; vm_compute; lia].
  - intros i k v Hi Hn j Hj Hd. unfold capacity in *. cbn in Hi, Hj.
    destruct i as [|[|[|[|i]]]]; try (cbn in Hn; discriminate); [|lia].
    cbn in Hn. injection Hn as <- <-. change (hpos Z sa_hi 1%Z _) with 0%nat in Hd. rewrite dist_self in Hd. lia.
Qed.

Theorem sa_sample :
  exists sp w h a,
    stored_db_w (hp sp) 1 sx_db w /\ so_handles h w /\ so_alias_handles a w /\ so_alias_tables_ok sa_hs sa_hi 4 w /\
    imap_value (aliases sx_db) sa_new = None /\ imap_key (aliases sx_db) 2%Z = None /\
    so_alias_new_ok sa_hs sa_hi w 2%Z sa_new.
Proof.
  destruct (so_replay (st_step cdata ops_file) true sa_prog (fst sx_run) (sd_spec_of sx_store)) as [[[s' sp'] r]|] eqn:ER;
    [|vm_compute in ER; discriminate ER].
  destruct (so_replay_sound (st_step cdata ops_file) true sa_prog _ _ _ _ _ _ (sa_cwp true) ER) as (a & w' & _ & H' & Ha & E1 & E2).
  exists sp', w', {| so_graph := sw_g w'; so_values := sw_vh w' |}, a.
  split; [exact H'|]. split; [split; reflexivity|]. split; [exact Ha|].
  split; [unfold so_alias_tables_ok; rewrite E1, E2; split; [exact sa_pinv1|exact sa_pinv2]|].
  split; [reflexivity|]. split; [reflexivity|].
  unfold so_alias_new_ok. rewrite E1, E2.
  split; [vm_compute; reflexivity|]. split; [vm_compute; reflexivity|].
  split; [intros r0 Hr; vm_compute in Hr; injection Hr as <-; reflexivity|].
  split; [intros r0 Hr; vm_compute in Hr; injection Hr as <-; reflexivity|].
  split; [split; [vm_compute; reflexivity|vm_compute; reflexivity]|].
  split; [apply sa_i64_ok; lia|]. split; vm_compute; reflexivity.
Qed.
