(* StoredDbOpsLinkFinal2.v — proofs (stored database, part 35): the covered histories of StoredDbOpsLinkHist2.v (removals need no
   property; invariant slots_ok) on the MODEL OF storage.rs, and END TO END: programs of the history, a maintenance
   operation, a reload — the loaded database answers every order-independent read-only query as the fold of exec does. *)
From Coq Require Import Permutation.
From Agdb Require Import Bytes BytesProofs Utf8 Codec DbValue ValueIndex Graph DbModel Search Queries Revisions Records RecordsProofs
  Storage StorageSpec
  StorageLayout StorageWp StorageRefine StorageProofs Collections CollValues CollWp CollBytes CollVecBase CollVecOps CollVec CollVec2
  CollElems CollSep CollMap CollGraph CollValuesProofs StoredDb StoredDbRep StoredDbRun StoredDbLoad StoredDbProofs StoredDbQueries
  StoredDbFinal StoredDbFrame StoredDbOps
  StoredDbOpsGraph StoredDbOpsGraph2 StoredDbOpsDb StoredDbOpsKv StoredDbOpsKv2 StoredDbOpsKv3 StoredDbOpsDb2 StoredDbOpsDb3
  StoredDbOpsQuery StoredDbOpsLink StoredDbOpsLinkHist StoredDbOpsLinkHist2.
From Agdb Require HistoryAtomicProofs.
Open Scope N_scope.

Section Open.
  Variable fl : bool.

  (* so_open rebuilds the two handles; the rest of the witness — the slot vector in particular — is the one given *)
  Theorem so_open_spec' root d w sp (Q : cres so_db -> spec -> Prop) :
    stored_db_w (hp sp) root d w ->
    (forall h w', stored_db_w (hp sp) root d w' -> so_handles h w' -> sd_foot root w' = sd_foot root w -> sw_vi w' = sw_vi w ->
                  Q (CrOk h) sp) ->
    cwp fl (so_open root) sp Q.
  Proof.
    intros H HQ. pose proof H as [Hroot Hu64 Hver Hg Hgi Ha1 Hk1 Ha2 Hk2 Hiv Hii Hix Hvv Hvi Hv Hnd].
    unfold so_open.
    apply cwp_bind. unfold sd_root_load. apply cwp_bind. eapply cwp_value; [exact Hroot|]. cbn [kont].
    apply cr_de_ser; [exact Hu64|]. cbn [kont].
    apply cwp_bind. rewrite <- Hgi. eapply cg_from_storage_spec; [exact Hg|]. intros dg Hg' Hgi'. cbn [kont].
    apply cwp_bind. rewrite <- Hvi. eapply cv_from_storage_spec; [exact Hvv|]. intros vh Hvv' Hvi' Hvl'. cbn [kont cwp].
    pose proof (grep_same_vecs _ _ _ _ _ _ _ Hg Hg' Hgi') as Ev.
    assert (Ef : sd_foot root (sd_with_handles w dg vh) = sd_foot root w).
    { unfold sd_foot, gfoot, foot. cbn [sd_with_handles sw_g sw_gs sw_a1 sw_a2 sw_ih sw_is sw_ie sw_iw sw_vh sw_vs sw_vw].
      rewrite Hgi', Hvi'. pose proof (Ev GfFrom) as E1. pose proof (Ev GfTo) as E2. pose proof (Ev GfFromMeta) as E3. pose proof (Ev GfToMeta) as E4.
      cbn [cg_vec] in E1, E2, E3, E4. rewrite E1, E2, E3, E4. reflexivity. }
    apply (HQ _ (sd_with_handles w dg vh)); [|split; reflexivity|exact Ef|reflexivity].
    constructor; cbn [sd_with_handles sw_root sw_g sw_gs sw_a1 sw_a2 sw_ih sw_is sw_ie sw_iw sw_vh sw_vs sw_vi sw_vw]; auto.
    - congruence.
    - congruence.
    - rewrite Ef. exact Hnd.
  Qed.
End Open.

(* a record map holds d with every existing element's property vector allocated *)
Definition stored_db_slots (g : heap) (root : N) (d : db) : Prop := exists w, stored_db_w g root d w /\ slots_ok d w.

Theorem so_covered_on_storage2 (ops : store_ops cdata) (fl : bool) : kind ops fl ->
  forall s sp root d l, Rel s sp -> stored_db_slots (hp sp) root d -> HistoryAtomicProofs.HInv d -> so_covered_all2 rv_fixed d l ->
    let r := cp_run (st_step cdata ops) (h <~ so_open root ;; cq_runs h l) s in
    snd r = CrDead \/
    exists sp' h', Rel (fst r) sp' /\ snd r = CrOk (h', snd (cq_model rv_fixed d l)) /\
                   stored_db_slots (hp sp') root (fst (cq_model rv_fixed d l)) /\
                   HistoryAtomicProofs.HInv (fst (cq_model rv_fixed d l)) /\ sdepth sp' = sdepth sp.
Proof.
  intros K s sp root d l RL (w0 & H0 & S0) HI OK r.
  assert (HW : cwp fl (h <~ so_open root ;; cq_runs h l) sp
                   (fun r sp' => exists h', r = CrOk (h', snd (cq_model rv_fixed d l)) /\
                        stored_db_slots (hp sp') root (fst (cq_model rv_fixed d l)) /\
                        HistoryAtomicProofs.HInv (fst (cq_model rv_fixed d l)) /\ sdepth sp' = sdepth sp)).
  { apply cwp_bind. eapply so_open_spec'; [exact H0|]. intros h w1 H1 Hh1 _ Ev. cbn [kont].
    assert (S1 : slots_ok d w1) by (intros id G; rewrite Ev; apply S0; exact G).
    eapply cwp_mono; [|eapply so_cqs_stored2; eassumption].
    intros r0 sp' (h' & w' & -> & H' & Hh' & HI' & SO' & D' & F'). exists h'. split; [reflexivity|].
    split; [exists w'; split; assumption|]. split; assumption. }
  destruct (cwp_sound ops fl K _ s sp _ RL HW) as [D|(sp' & RL' & h' & E & X)]; [left; exact D|right].
  exists sp', h'. split; [exact RL'|]. split; [exact E|exact X].
Qed.

Theorem so_covered_then_maintenance2 (ops : store_ops cdata) (fl : bool) : kind ops fl ->
  forall rv s sp root d l o,
    Rel s sp -> sdepth sp = 0 -> stored_db_slots (hp sp) root d -> HistoryAtomicProofs.HInv d -> so_covered_all2 rv_fixed d l ->
    cv_is_maint o = true ->
    let r := cp_run (st_step cdata ops) (h <~ so_open root ;; cq_runs h l) s in
    let dN := fst (cq_model rv_fixed d l) in
    snd r = CrDead \/
    snd (st_step cdata ops (fst r) o) = ObPanic \/
    exists h' sp2 d1,
      snd r = CrOk (h', snd (cq_model rv_fixed d l)) /\
      Rel (fst (st_step cdata ops (fst r) o)) sp2 /\ sdepth sp2 = 0 /\ stored_db (hp sp2) root dN /\
      load_db (sm sp2) root = Some d1 /\ sd_eqv dN d1 /\
      forall q, sd_query_ok q -> snd (Queries.exec rv d1 q) = snd (Queries.exec rv dN q).
Proof.
  intros K rv s sp root d l o RL Hd H HI OK Hm r dN.
  destruct (so_covered_on_storage2 ops fl K s sp root d l RL H HI OK) as [D|(sp1 & h' & RL1 & E & (w' & H1 & _) & HI1 & D1)];
    [left; exact D|right]. fold r in RL1, E. fold dN in H1, HI1.
  destruct HI1 as (_ & _ & Hu).
  destruct (sd_queries_after_maintenance ops fl K rv (fst r) sp1 o root dN RL1 (eq_trans D1 Hd) Hm (ex_intro _ w' H1) Hu)
    as [P|(sp2 & d1 & RL2 & Hd2 & H2 & _ & E2 & He & Hq)]; [left; exact P|right].
  exists h', sp2, d1. repeat (split; [assumption|]). exact Hq.
Qed.
