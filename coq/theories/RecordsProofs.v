(* RecordsProofs.v — lemmas about Records.v: the sorted association lists, the free
   space maps (agreement of free_pos_size and free_size_pos, selection rules of
   take_free / take_free_after) and the record table with its free-index list. *)
From Agdb Require Import Bytes BytesProofs Records.
From Coq Require Import ZifyBool ZifyNat ZifyN.
Ltac Zify.zify_post_hook ::= Z.div_mod_to_equations.
Open Scope N_scope.
Arguments N.add : simpl never.
Arguments N.mul : simpl never.
Arguments N.sub : simpl never.
Arguments N.of_nat : simpl never.
Arguments N.to_nat : simpl never.
Arguments N.eqb : simpl never.
Arguments N.ltb : simpl never.
Arguments N.leb : simpl never.

(* ---------- association lists ---------- *)
Fixpoint ksorted {V} (m : list (N * V)) : Prop :=
  match m with
  | [] => True
  | (k, _) :: r => (forall k', In k' (map fst r) -> k < k') /\ ksorted r
  end.

Lemma m_get_put V (m : list (N * V)) k v q :
  m_get (m_put m k v) q = if k =? q then Some v else m_get m q.
Proof.
  induction m as [|[a b] r IH]; cbn [m_put m_get].
  - reflexivity.
  - destruct (N.ltb_spec k a); cbn [m_get].
    + reflexivity.
    + destruct (N.eqb_spec k a); cbn [m_get].
      * subst a. destruct (N.eqb_spec k q); reflexivity.
      * rewrite IH. destruct (N.eqb_spec a q), (N.eqb_spec k q); try reflexivity. congruence.
Qed.

Lemma m_get_del V (m : list (N * V)) k q :
  m_get (m_del m k) q = if k =? q then None else m_get m q.
Proof.
  unfold m_del. induction m as [|[a b] r IH]; cbn [filter m_get fst].
  - destruct (k =? q); reflexivity.
  - destruct (N.eqb_spec a k); cbn [negb m_get].
    + subst a. rewrite IH. destruct (N.eqb_spec k q); reflexivity.
    + rewrite IH. destruct (N.eqb_spec a q), (N.eqb_spec k q); try reflexivity. congruence.
Qed.

Lemma keys_put V (m : list (N * V)) k v x :
  In x (map fst (m_put m k v)) -> x = k \/ In x (map fst m).
Proof.
  induction m as [|[a b] r IH]; cbn [m_put map fst In].
  - intros [H|[]]; auto.
  - destruct (N.ltb_spec k a); cbn [map fst In].
    + intros [H1|[H1|H1]]; auto.
    + destruct (N.eqb_spec k a); cbn [map fst In].
      * intros [H1|H1]; auto.
      * intros [H1|H1]; auto. destruct (IH H1); auto.
Qed.

Lemma ksorted_put V (m : list (N * V)) k v : ksorted m -> ksorted (m_put m k v).
Proof.
  induction m as [|[a b] r IH]; cbn [m_put ksorted].
  - intros _. split; [intros k' []|exact I].
  - intros [Ha Hr]. destruct (N.ltb_spec k a).
    + cbn [ksorted map fst In]. split; [|split; assumption].
      intros k' [<-|Hk]; [assumption|]. specialize (Ha _ Hk). lia.
    + destruct (N.eqb_spec k a).
      * subst a. cbn [ksorted]. split; assumption.
      * cbn [ksorted]. split; [|apply IH, Hr].
        intros k' Hk. destruct (keys_put _ _ _ _ _ Hk) as [->|Hk']; [lia|auto].
Qed.

Lemma keys_del V (m : list (N * V)) k x : In x (map fst (m_del m k)) -> In x (map fst m).
Proof.
  unfold m_del. induction m as [|[a b] r IH]; cbn [filter map fst In]; [tauto|].
  destruct (negb (a =? k)); cbn [map fst In]; tauto.
Qed.

Lemma ksorted_del V (m : list (N * V)) k : ksorted m -> ksorted (m_del m k).
Proof.
  induction m as [|[a b] r IH]; cbn [ksorted]; [tauto|].
  intros [Ha Hr]. unfold m_del in *. cbn [filter fst].
  destruct (negb (a =? k)); [|apply IH, Hr].
  cbn [ksorted]. split; [|apply IH, Hr].
  intros k' Hk. apply Ha. eapply keys_del. exact Hk.
Qed.

Lemma get_In V (m : list (N * V)) k v : m_get m k = Some v -> In (k, v) m.
Proof.
  induction m as [|[a b] r IH]; cbn [m_get In]; [discriminate|].
  destruct (N.eqb_spec a k); [intros [= <-]; subst; auto|auto].
Qed.

Lemma In_get V (m : list (N * V)) k v : ksorted m -> In (k, v) m -> m_get m k = Some v.
Proof.
  induction m as [|[a b] r IH]; cbn [ksorted m_get In]; [tauto|].
  intros [Ha Hr] [[= -> ->]|Hin].
  - now rewrite N.eqb_refl.
  - assert (a < k) by (apply Ha; change k with (fst (k, v)); now apply in_map).
    destruct (N.eqb_spec a k); [lia|auto].
Qed.

Lemma m_prev_In V (m : list (N * V)) k k' v : m_prev m k = Some (k', v) -> In (k', v) m /\ k' < k.
Proof.
  induction m as [|[a b] r IH]; cbn [m_prev In]; [discriminate|].
  destruct (N.ltb_spec a k); [|discriminate].
  destruct (m_prev r k) as [[x y]|].
  - intros [= -> ->]. destruct IH as [? ?]; auto.
  - intros [= -> ->]. auto.
Qed.

Lemma s_add_In s k x : In x (s_add s k) <-> x = k \/ In x s.
Proof.
  induction s as [|a r IH]; cbn [s_add In].
  - intuition.
  - destruct (N.ltb_spec k a); cbn [In]; [intuition|].
    destruct (N.eqb_spec k a); cbn [In]; [subst; intuition|]. rewrite IH. intuition.
Qed.

Lemma s_del_In s k x : In x (s_del s k) <-> x <> k /\ In x s.
Proof.
  unfold s_del. rewrite filter_In. destruct (N.eqb_spec x k); cbn [negb]; intuition; discriminate.
Qed.

(* ---------- the free space maps ---------- *)
Definition fwf (rs : records) : Prop :=
  ksorted (fps rs) /\ ksorted (fsp rs) /\
  forall p s, m_get (fps rs) p = Some s <-> exists ps, m_get (fsp rs) s = Some ps /\ In p ps.

Lemma fwf_new : fwf records_new.
Proof. repeat split; cbn; try tauto; try discriminate. intros [ps [H _]]. discriminate. Qed.

Lemma fwf_clear rs : fwf (clear_free rs).
Proof. repeat split; cbn; try tauto; try discriminate. intros [ps [H _]]. discriminate. Qed.

Lemma fwf_set_recs rs l : fwf rs -> fwf (set_recs rs l).
Proof. exact (fun H => H). Qed.

Lemma fwf_mark_free rs pos size :
  fwf rs -> m_get (fps rs) pos = None -> fwf (mark_free rs pos size).
Proof.
  intros (S1 & S2 & AG) Hnew. unfold fwf, mark_free. cbn [fps fsp].
  split; [apply ksorted_put, S1|]. split; [apply ksorted_put, S2|].
  intros p s. rewrite m_get_put.
  destruct (N.eqb_spec pos p) as [->|Hp].
  - split.
    + intros [= <-]. rewrite m_get_put, N.eqb_refl. eexists; split; [reflexivity|].
      apply s_add_In. auto.
    + intros (ps & Hg & Hin). rewrite m_get_put in Hg.
      destruct (N.eqb_spec size s) as [->|Hs]; [reflexivity|].
      exfalso. assert (m_get (fps rs) p = Some s) by (apply AG; eauto). congruence.
  - rewrite AG. split; intros (ps & Hg & Hin).
    + rewrite m_get_put. destruct (N.eqb_spec size s) as [->|Hs].
      * eexists; split; [reflexivity|]. apply s_add_In. rewrite Hg. auto.
      * eauto.
    + rewrite m_get_put in Hg. destruct (N.eqb_spec size s) as [->|Hs].
      * injection Hg as <-. apply s_add_In in Hin. destruct Hin as [->|Hin]; [congruence|].
        destruct (m_get (fsp rs) s) as [ps0|] eqn:E; [eauto|destruct Hin].
      * eauto.
Qed.

Lemma fwf_remove_free rs pos size :
  fwf rs -> m_get (fps rs) pos = Some size -> fwf (remove_free rs pos).
Proof.
  intros (S1 & S2 & AG) Hin. unfold fwf, remove_free. rewrite Hin. cbn [fps fsp].
  split; [apply ksorted_del, S1|].
  destruct (proj1 (AG pos size) Hin) as (ps0 & Hps0 & Hpos0). rewrite Hps0.
  assert (HS : forall s ps, m_get (match s_del ps0 pos with [] => m_del (fsp rs) size | _ :: _ => m_put (fsp rs) size (s_del ps0 pos) end) s = Some ps
               <-> (if size =? s then ps = s_del ps0 pos /\ ps <> [] else m_get (fsp rs) s = Some ps)).
  { intros s ps. destruct (s_del ps0 pos) as [|a t] eqn:E.
    - rewrite m_get_del. destruct (size =? s); [|tauto]. split; [discriminate|intros [-> H]; congruence].
    - rewrite m_get_put. destruct (size =? s); [|tauto]. split; [intros [= <-]; split; congruence|intros [-> _]; reflexivity]. }
  split.
  { destruct (s_del ps0 pos); [apply ksorted_del, S2|apply ksorted_put, S2]. }
  intros p s. rewrite m_get_del.
  destruct (N.eqb_spec pos p) as [->|Hp].
  - split; [discriminate|]. intros (ps & Hg & Hi). exfalso. apply HS in Hg.
    destruct (N.eqb_spec size s) as [->|Hs].
    + destruct Hg as [-> _]. apply s_del_In in Hi. tauto.
    + assert (m_get (fps rs) p = Some s) by (apply AG; eauto). congruence.
  - rewrite AG. split; intros (ps & Hg & Hi).
    + destruct (N.eqb_spec size s) as [->|Hs].
      * exists (s_del ps0 pos). assert (ps = ps0) by congruence. subst ps. split.
        -- apply HS. rewrite N.eqb_refl. split; [reflexivity|].
           intros E. assert (In p (s_del ps0 pos)) by (apply s_del_In; auto). rewrite E in H. destruct H.
        -- apply s_del_In. auto.
      * exists ps. split; [|assumption]. apply HS. destruct (N.eqb_spec size s); [congruence|assumption].
    + apply HS in Hg. destruct (N.eqb_spec size s) as [->|Hs].
      * destruct Hg as [-> _]. apply s_del_In in Hi. exists ps0. tauto.
      * eauto.
Qed.

Lemma find_free_spec m k s ps :
  ksorted m -> find_free m k = Some (s, ps) ->
  m_get m s = Some ps /\ k <= s /\ (s = k \/ k + 16 <= s).
Proof.
  induction m as [|[a b] r IH]; cbn [find_free ksorted]; [discriminate|].
  intros [Ha Hr].
  destruct ((k <=? a) && ((a =? k) || (k + 16 <=? a))) eqn:E.
  - intros [= -> ->]. cbn [m_get]. rewrite N.eqb_refl. split; [reflexivity|]. lia.
  - intros H. destruct (IH Hr H) as (G & B1 & B2). split; [|auto].
    cbn [m_get]. assert (a < s).
    { apply Ha. apply get_In in G. change s with (fst (s, ps)). now apply in_map. }
    destruct (N.eqb_spec a s); [lia|assumption].
Qed.

Lemma take_free_spec rs k rs' p s :
  fwf rs -> take_free rs k = Some (rs', (p, s)) ->
  m_get (fps rs) p = Some s /\ k <= s /\ (s = k \/ k + 16 <= s) /\ rs' = remove_free rs p.
Proof.
  intros (S1 & S2 & AG). unfold take_free.
  destruct (find_free (fsp rs) k) as [[s0 [|p0 t]]|] eqn:E; try discriminate.
  intros [= <- <- <-]. destruct (find_free_spec _ _ _ _ S2 E) as (G & B1 & B2).
  split; [|auto]. apply AG. exists (p0 :: t). split; [assumption|left; reflexivity].
Qed.

Lemma take_free_after_spec rs e g rs' p s :
  take_free_after rs e g = Some (rs', (p, s)) ->
  p = e /\ m_get (fps rs) e = Some s /\ (16 + s = g \/ g <= s) /\ rs' = remove_free rs e.
Proof.
  unfold take_free_after. destruct (m_get (fps rs) e) as [sz|]; [|discriminate].
  destruct ((16 + sz =? g) || (g <=? sz)) eqn:E; [|discriminate].
  intros [= <- <- <-]. repeat split; auto. lia.
Qed.

Lemma fps_remove_free rs p q :
  m_get (fps (remove_free rs p)) q = if p =? q then None else m_get (fps rs) q.
Proof. unfold remove_free. cbn [fps]. apply m_get_del. Qed.

Lemma fps_mark_free rs p n q :
  m_get (fps (mark_free rs p n)) q = if p =? q then Some n else m_get (fps rs) q.
Proof. unfold mark_free. cbn [fps]. apply m_get_put. Qed.

(* ---------- lists: upd ---------- *)
Lemma upd_length {A} (l : list A) i x : length (upd l i x) = length l.
Proof. revert i; induction l as [|a r IH]; intros [|i]; cbn [upd length]; auto. Qed.

Lemma nth_error_upd {A} (l : list A) i x j :
  nth_error (upd l i x) j = if Nat.eqb j i then (if Nat.ltb i (length l) then Some x else None) else nth_error l j.
Proof.
  revert i j; induction l as [|a r IH]; intros i j.
  - destruct i, j; cbn [upd nth_error length Nat.eqb]; try reflexivity.
    destruct (Nat.eqb j i); reflexivity.
  - destruct i as [|i], j as [|j]; cbn [upd nth_error length Nat.eqb]; try reflexivity.
    rewrite IH. destruct (Nat.eqb j i); [|reflexivity].
    destruct (Nat.ltb_spec i (length r)), (Nat.ltb_spec (S i) (S (length r))); try reflexivity; lia.
Qed.

Lemma nth_error_nth {A} (l : list A) i d x : nth_error l i = Some x -> nth i l d = x.
Proof. revert i; induction l as [|a r IH]; intros [|i]; cbn [nth_error nth]; try discriminate; [now intros [= ->]|auto]. Qed.

Lemma nth_error_some_lt {A} (l : list A) i x : nth_error l i = Some x -> (i < length l)%nat.
Proof. intros H. apply nth_error_Some. congruence. Qed.

Lemma nth_error_lt_some {A} (l : list A) i : (i < length l)%nat -> exists x, nth_error l i = Some x.
Proof. intros H. destruct (nth_error l i) eqn:E; [eauto|]. apply nth_error_None in E. lia. Qed.
