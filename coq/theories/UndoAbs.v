(* UndoAbs.v — C13, the abstract graph level: observational equivalence of abstract graphs
   (same kinds, same count, adjacency up to order, same allocation stream), congruence of the
   abstract operations for it, and the inverse lemmas (LIFO free list). *)
From Agdb Require Import Bytes BytesProofs DbValue Graph DbModel UndoBase UndoObs UndoKv UndoGraphBase UndoGraph
  UndoGraphAlloc UndoGraphEdge UndoGraphOps.
From Coq Require Import Permutation ZifyBool ZifyNat ZifyN.
Ltac Zify.zify_post_hook ::= Z.div_mod_to_equations.
Open Scope Z_scope.

(* the sequence of slots the allocator will hand out: the free list, then capacity, capacity+1, ... *)
Definition astream (fl : list Z) (cap : Z) (k : nat) : Z :=
  if Nat.ltb k (length fl) then nth k fl 0 else cap + Z.of_nat (k - length fl).

Lemma astream_nil cap k : astream [] cap k = cap + Z.of_nat k.
Proof. unfold astream. cbn [length]. destruct (Nat.ltb_spec k 0); [lia|]. f_equal. lia. Qed.
Lemma astream_cons0 s fl cap : astream (s :: fl) cap 0 = s.
Proof. reflexivity. Qed.
Lemma astream_consS s fl cap k : astream (s :: fl) cap (S k) = astream fl cap k.
Proof.
  unfold astream. cbn [length nth].
  destruct (Nat.ltb_spec (S k) (S (length fl))), (Nat.ltb_spec k (length fl)); try lia; reflexivity.
Qed.

Record aeqv (a a' : ag) : Prop := {
  ae_kind : forall i, 0 < i -> ak a i = ak a' i;
  ae_count : acount a = acount a';
  ae_out : forall n, 0 < n -> ak a n = KNode -> Permutation (aout a n) (aout a' n);
  ae_in : forall n, 0 < n -> ak a n = KNode -> Permutation (ain a n) (ain a' n);
  ae_alloc : forall k, astream (afree a) (acap a) k = astream (afree a') (acap a') k
}.

Lemma aeqv_refl a : aeqv a a.
Proof. constructor; intros; reflexivity. Qed.
Lemma aeqv_sym a a' : aeqv a a' -> aeqv a' a.
Proof.
  intros [Hk Hc Ho Hi Ha]. constructor; intros; try (symmetry; auto; fail).
  - symmetry. apply Ho; [assumption|]. rewrite Hk; assumption.
  - symmetry. apply Hi; [assumption|]. rewrite Hk; assumption.
Qed.
Lemma aeqv_trans a1 a2 a3 : aeqv a1 a2 -> aeqv a2 a3 -> aeqv a1 a3.
Proof.
  intros [Hk Hc Ho Hi Ha] [Hk' Hc' Ho' Hi' Ha']. constructor; intros.
  - rewrite Hk by assumption. auto.
  - congruence.
  - rewrite Ho by assumption. apply Ho'; [assumption|]. rewrite <- Hk; assumption.
  - rewrite Hi by assumption. apply Hi'; [assumption|]. rewrite <- Hk; assumption.
  - rewrite Ha. auto.
Qed.

Ltac updz := unfold upd in *;
  repeat match goal with
         | |- context [?x =? ?y] => destruct (Z.eqb_spec x y)
         | H : context [?x =? ?y] |- _ => destruct (Z.eqb_spec x y)
         end; subst; try congruence; try lia; auto.

(* ---- congruence of the building blocks ---- *)

Lemma aeqv_alloc a a' :
  aeqv a a' -> fst (a_alloc a) = fst (a_alloc a') /\ aeqv (snd (a_alloc a)) (snd (a_alloc a')).
Proof.
  intros [Hk Hc Ho Hi Ha].
  assert (E0 : match afree a with [] => acap a | s :: _ => s end = match afree a' with [] => acap a' | s :: _ => s end).
  { specialize (Ha O). destruct (afree a), (afree a'); rewrite ?astream_nil, ?astream_cons0 in Ha; lia. }
  assert (ES : forall k, astream (tl (afree a)) (match afree a with [] => acap a + 1 | _ => acap a end) k =
                         astream (tl (afree a')) (match afree a' with [] => acap a' + 1 | _ => acap a' end) k).
  { intros k. specialize (Ha (S k)).
    destruct (afree a) as [|s fl], (afree a') as [|s' fl']; cbn [tl];
      rewrite ?astream_consS, ?astream_nil in *; rewrite ?astream_nil; try lia; try assumption. }
  pose proof (a_alloc_spec a) as S1. pose proof (a_alloc_spec a') as S2.
  destruct (a_alloc a) as [e a1], (a_alloc a') as [e' a1']. cbn [fst snd].
  destruct S1 as (Ek & Eo & Ei & Ec & Ee & Ef & Ep). destruct S2 as (Ek' & Eo' & Ei' & Ec' & Ee' & Ef' & Ep').
  assert (E : e = e') by congruence. clear Ee Ee'. subst e'. split; [reflexivity|].
  constructor.
  - intros i Hi0. rewrite Ek, Ek'. unfold upd. destruct (Z.eqb_spec i e); auto.
  - congruence.
  - intros n Hn Hkn. rewrite Eo, Eo'. rewrite Ek in Hkn. unfold upd in *. destruct (Z.eqb_spec n e); auto.
  - intros n Hn Hkn. rewrite Ei, Ei'. rewrite Ek in Hkn. unfold upd in *. destruct (Z.eqb_spec n e); auto.
  - intros k. rewrite Ef, Ep, Ef', Ep'. apply ES.
Qed.

Lemma aeqv_release a a' s : aeqv a a' -> aeqv (a_release a s) (a_release a' s).
Proof.
  intros [Hk Hc Ho Hi Ha]. constructor; cbn [a_release ak aout ain acount afree acap]; intros; auto.
  - updz.
  - apply Ho; [assumption|]. updz.
  - apply Hi; [assumption|]. updz.
  - destruct k; [reflexivity|]. rewrite !astream_consS. apply Ha.
Qed.

Lemma aeqv_set_count a a' c : aeqv a a' -> aeqv (a_set_count a c) (a_set_count a' c).
Proof. intros [Hk Hc Ho Hi Ha]. constructor; cbn [a_set_count ak aout ain acount afree acap]; auto. Qed.

Lemma aeqv_make_edge a a' e f t : aeqv a a' -> aeqv (a_make_edge a e f t) (a_make_edge a' e f t).
Proof.
  intros [Hk Hc Ho Hi Ha]. constructor; cbn [a_make_edge ak aout ain acount afree acap]; intros; auto.
  - updz.
  - apply Ho; [assumption|]. updz.
  - apply Hi; [assumption|]. updz.
Qed.

Lemma aeqv_set_out a a' n l l' : aeqv a a' -> Permutation l l' -> aeqv (a_set_out a n l) (a_set_out a' n l').
Proof.
  intros [Hk Hc Ho Hi Ha] P. constructor; cbn [a_set_out ak aout ain acount afree acap]; intros; auto.
  unfold upd. destruct (Z.eqb_spec n0 n); auto.
Qed.
Lemma aeqv_set_in a a' n l l' : aeqv a a' -> Permutation l l' -> aeqv (a_set_in a n l) (a_set_in a' n l').
Proof.
  intros [Hk Hc Ho Hi Ha] P. constructor; cbn [a_set_in ak aout ain acount afree acap]; intros; auto.
  unfold upd. destruct (Z.eqb_spec n0 n); auto.
Qed.

(* ---- congruence of the operations ---- *)

Lemma aeqv_insert_node a a' :
  aeqv a a' -> fst (a_insert_node a) = fst (a_insert_node a') /\ aeqv (snd (a_insert_node a)) (snd (a_insert_node a')).
Proof.
  intros H. destruct (aeqv_alloc a a' H) as (E & H1). unfold a_insert_node.
  destruct (a_alloc a) as [e a1], (a_alloc a') as [e' a1']. cbn [fst snd] in *. split; [assumption|].
  rewrite (ae_count _ _ H1). apply aeqv_set_count, H1.
Qed.

Lemma aeqv_remove_node a a' n : aeqv a a' -> aeqv (a_remove_node a n) (a_remove_node a' n).
Proof.
  intros H. unfold a_remove_node. pose proof (aeqv_release a a' n H) as H1.
  rewrite (ae_count _ _ H1). apply aeqv_set_count, H1.
Qed.

Lemma aeqv_insert_edge a a' f t :
  aeqv a a' -> 0 < f -> 0 < t -> ak a f = KNode -> ak a t = KNode ->
  ak a (fst (a_alloc a)) = KFree ->
  fst (a_insert_edge a f t) = fst (a_insert_edge a' f t) /\ aeqv (snd (a_insert_edge a f t)) (snd (a_insert_edge a' f t)).
Proof.
  intros H Hf Ht Kf Kt Hfree. destruct (aeqv_alloc a a' H) as (E & H1). unfold a_insert_edge.
  pose proof (a_alloc_spec a) as Hsp.
  destruct (a_alloc a) as [e a1], (a_alloc a') as [e' a1']. cbn [fst snd] in *. subst e'.
  destruct Hsp as (Ek & _).
  split; [reflexivity|].
  assert (Hfe : f <> e) by (intros ->; congruence).
  assert (Hte : t <> e) by (intros ->; congruence).
  assert (K1f : ak a1 f = KNode) by (rewrite Ek, upd_other; assumption).
  assert (K1t : ak a1 t = KNode) by (rewrite Ek, upd_other; assumption).
  apply aeqv_set_in.
  - apply aeqv_set_out; [apply aeqv_make_edge, H1|]. constructor.
    cbn [a_make_edge aout]. apply (ae_out _ _ H1); assumption.
  - constructor. cbn [a_set_out a_make_edge ain]. apply (ae_in _ _ H1); assumption.
Qed.

Lemma aeqv_remove_edge a a' e f t :
  aeqv a a' -> 0 < e -> ak a e = KEdge f t -> 0 < f -> 0 < t -> ak a f = KNode -> ak a t = KNode ->
  aeqv (a_remove_edge a e) (a_remove_edge a' e).
Proof.
  intros H He Hk Hf Ht Kf Kt. unfold a_remove_edge. rewrite <- (ae_kind _ _ H) by assumption. rewrite Hk.
  apply aeqv_release. apply aeqv_set_in.
  - apply aeqv_set_out; [exact H|]. apply lrem_perm, (ae_out _ _ H); assumption.
  - cbn [a_set_out ain]. apply lrem_perm, (ae_in _ _ H); assumption.
Qed.

(* ---- inverses ---- *)

(* insert a node, remove it again *)
Lemma a_insert_remove_node a :
  let i := fst (a_insert_node a) in
  0 < i -> ak a i = KFree -> aeqv (a_remove_node (snd (a_insert_node a)) i) a.
Proof.
  cbv zeta. unfold a_insert_node, a_remove_node, a_alloc.
  destruct (afree a) as [|s fl] eqn:Efl; cbn [fst snd]; intros Hi Hfree;
    constructor; cbn [a_set_count a_release a_activate ak aout ain acount afree acap]; intros; try lia.
  - updz.
  - updz.
  - updz.
  - rewrite Efl. destruct k; [rewrite astream_cons0, astream_nil; lia|].
    rewrite astream_consS, !astream_nil. lia.
  - updz.
  - updz.
  - updz.
  - rewrite Efl. reflexivity.
Qed.

(* remove an isolated node, insert a node: the same slot comes back *)
Lemma a_remove_insert_node a n :
  0 < n -> ak a n = KNode -> aout a n = [] -> ain a n = [] ->
  fst (a_insert_node (a_remove_node a n)) = n /\ aeqv (snd (a_insert_node (a_remove_node a n))) a.
Proof.
  intros Hn Hk Ho Hi. unfold a_insert_node, a_remove_node, a_alloc.
  cbn [a_set_count a_release afree fst snd]. split; [reflexivity|].
  constructor; cbn [a_set_count a_release a_activate ak aout ain acount afree acap]; intros; try lia.
  - updz.
  - unfold upd. destruct (Z.eqb_spec n0 n) as [->|]; [rewrite Ho|]; reflexivity.
  - unfold upd. destruct (Z.eqb_spec n0 n) as [->|]; [rewrite Hi|]; reflexivity.
Qed.

Lemma perm_cons_lrem e l : NoDup l -> In e l -> Permutation (e :: lrem e l) l.
Proof.
  intros Hnd Hin. destruct (in_split _ _ Hin) as (l1 & l2 & ->).
  rewrite lrem_split by assumption. apply Permutation_middle.
Qed.

(* insert an edge, remove it again *)
Lemma a_insert_remove_edge a f t :
  let e := fst (a_insert_edge a f t) in
  0 < e -> ak a e = KFree -> 0 < f -> 0 < t -> ak a f = KNode -> ak a t = KNode ->
  ~ In e (aout a f) -> ~ In e (ain a t) ->
  aeqv (a_remove_edge (snd (a_insert_edge a f t)) e) a.
Proof.
  cbv zeta. unfold a_insert_edge, a_remove_edge, a_alloc.
  destruct (afree a) as [|s fl] eqn:Efl; cbn [fst snd]; intros He Hfree Hf Ht Kf Kt Hno Hni;
    cbn [a_set_in a_set_out a_make_edge a_activate ak]; rewrite upd_same;
    constructor; cbn [a_set_in a_set_out a_make_edge a_release a_activate ak aout ain acount afree acap]; intros; try lia.
  - updz.
  - assert (n <> acap a) by (intros ->; updz).
    unfold upd at 1. destruct (Z.eqb_spec n f) as [->|].
    + rewrite upd_same. rewrite upd_other by congruence. rewrite lrem_cons_same by assumption. reflexivity.
    + rewrite !upd_other by congruence. reflexivity.
  - assert (n <> acap a) by (intros ->; updz).
    unfold upd at 1. destruct (Z.eqb_spec n t) as [->|].
    + rewrite upd_same. rewrite upd_other by congruence. rewrite lrem_cons_same by assumption. reflexivity.
    + rewrite !upd_other by congruence. reflexivity.
  - rewrite Efl. destruct k; [rewrite astream_cons0, astream_nil; lia|].
    rewrite astream_consS, !astream_nil. lia.
  - updz.
  - assert (n <> s) by (intros ->; updz).
    unfold upd at 1. destruct (Z.eqb_spec n f) as [->|].
    + rewrite upd_same. rewrite upd_other by congruence. rewrite lrem_cons_same by assumption. reflexivity.
    + rewrite !upd_other by congruence. reflexivity.
  - assert (n <> s) by (intros ->; updz).
    unfold upd at 1. destruct (Z.eqb_spec n t) as [->|].
    + rewrite upd_same. rewrite upd_other by congruence. rewrite lrem_cons_same by assumption. reflexivity.
    + rewrite !upd_other by congruence. reflexivity.
  - rewrite Efl. reflexivity.
Qed.

(* remove an edge, insert it again between the same endpoints: the same slot comes back *)
Lemma a_remove_insert_edge a e f t :
  0 < e -> ak a e = KEdge f t -> ak a f = KNode -> ak a t = KNode ->
  In e (aout a f) -> In e (ain a t) -> NoDup (aout a f) -> NoDup (ain a t) ->
  fst (a_insert_edge (a_remove_edge a e) f t) = e /\ aeqv (snd (a_insert_edge (a_remove_edge a e) f t)) a.
Proof.
  intros He Hk Kf Kt Hio Hii Hndo Hndi.
  assert (Hfe : f <> e) by (intros ->; congruence).
  assert (Hte : t <> e) by (intros ->; congruence).
  unfold a_insert_edge, a_remove_edge, a_alloc. rewrite Hk.
  cbn [a_release a_set_in a_set_out afree fst snd]. split; [reflexivity|].
  constructor; cbn [a_set_in a_set_out a_make_edge a_release a_activate ak aout ain acount afree acap]; intros; try lia.
  - updz.
  - assert (n <> e) by (intros ->; updz).
    unfold upd at 1. destruct (Z.eqb_spec n f) as [->|].
    + rewrite upd_other by congruence. rewrite upd_same. apply perm_cons_lrem; assumption.
    + rewrite !upd_other by congruence. reflexivity.
  - assert (n <> e) by (intros ->; updz).
    unfold upd at 1. destruct (Z.eqb_spec n t) as [->|].
    + rewrite upd_other by congruence. rewrite upd_same. apply perm_cons_lrem; assumption.
    + rewrite !upd_other by congruence. reflexivity.
Qed.
