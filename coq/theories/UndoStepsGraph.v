(* UndoStepsGraph.v — C13_step_inverse for the graph primitives of DbModel.v:
   insert_node_db, insert_edge_db, remove_edge_db, and the removal of an isolated node
   (the last step of remove_node_db).  The LIFO free list gives the removed slot back. *)
From Agdb Require Import Bytes BytesProofs DbValue Graph DbModel Revisions UndoBase UndoObs UndoAlias UndoKv
  UndoGraphBase UndoGraph UndoGraphAlloc UndoGraphEdge UndoGraphOps UndoAbs UndoDb.
From Coq Require Import Permutation ZifyBool ZifyNat ZifyN.
Ltac Zify.zify_post_hook ::= Z.div_mod_to_equations.
Open Scope Z_scope.

Lemma cap_get_free_index g :
  capacity (snd (get_free_index g)) = if fmeta g 0 =? i64_min then capacity g + 1 else capacity g.
Proof.
  unfold get_free_index. destruct (fmeta g 0 =? i64_min); cbn [snd]; [apply cap_grow|].
  rewrite !cap_set_fmeta. reflexivity.
Qed.

Lemma cap_insert_node g : capacity (snd (insert_node g)) = capacity (snd (get_free_index g)).
Proof. unfold insert_node. destruct (get_free_index g). cbn [snd]. apply cap_set_tmeta. Qed.

Lemma cap_insert_edge g f t i g' : insert_edge g f t = Some (i, g') -> capacity g' = capacity (snd (get_free_index g)).
Proof.
  unfold insert_edge. destruct (is_node g f && is_node g t); [|discriminate].
  destruct (get_free_index g) as [s g1]. intros [= <- <-]. cbn [snd].
  rewrite cap_update_to_edge, cap_update_from_edge, cap_set_to, cap_set_from. reflexivity.
Qed.

(* re-allocating in a state whose allocation stream starts with a freed slot never exceeds the bound *)
Lemma alloc_bound g a a' s fl :
  rep g a -> aeqv a a' -> afree a' = s :: fl -> s < acap a' -> acap a' <= two63z ->
  capacity (snd (get_free_index g)) <= two63z.
Proof.
  unfold rep. intros R E Ef Hs Hb. rewrite cap_get_free_index. pose proof (r_cap _ _ _ _ R) as Hcap.
  destruct (Z.eqb_spec (fmeta g 0) i64_min) as [E0|]; [|lia].
  apply (rep_free_empty _ _ _ _ R) in E0. pose proof (ae_alloc _ _ E O) as H0.
  rewrite E0, Ef, astream_nil, astream_cons0, (r_acap _ _ _ _ R) in H0. lia.
Qed.

Lemma db_ok_rep d : db_ok d -> exists a, rep (gr d) a.
Proof. intros [G _ _ _]. destruct G as (a & _ & R & _). eauto. Qed.

(* the abstract view of a state similar to one with a known view *)
Lemma gsim_view ge g a : gsim ge g -> rep g a -> exists ae, rep ge ae /\ aeqv ae a.
Proof.
  intros (ae & a' & Re & R' & E) R. exists ae. split; [assumption|].
  eapply aeqv_trans; [exact E | apply (rep_unique g); assumption].
Qed.

Lemma sim_with_gr e d g' g :
  sim e d -> gsim g' g ->
  sim (with_gr e g') {| gr := g; aliases := aliases d; vals := vals d; indexes := indexes d; undo := undo d |}.
Proof. intros [G A V I] Hg. constructor; cbn; assumption. Qed.

Section Steps.
  Variable rv : revision.
  Hypothesis Hrv : fix_rollback_replace rv = true.

  (* generic graph step with one pushed command *)
  Lemma graph_step d g1 a1 c :
    db_ok d -> rep g1 a1 ->
    (forall e ae, sim e {| gr := g1; aliases := aliases d; vals := vals d; indexes := indexes d; undo := c :: undo d |} ->
        rep (gr e) ae -> aeqv ae a1 ->
        exists g', undo_one e c = ROk (with_gr e g') /\ gsim g' (gr d)) ->
    let d1 := {| gr := g1; aliases := aliases d; vals := vals d; indexes := indexes d; undo := c :: undo d |} in
    db_ok d1 /\ undoable rv d d1.
  Proof.
    intros Hok R1 Hop d1. pose proof Hok as [G A V I]. split.
    - constructor; cbn; eauto using gsim_of_rep.
    - exists [c]. split; [reflexivity|]. intros e He. pose proof He as [Ge Ae Ve Ie]. cbn in Ge, Ae, Ve, Ie.
      destruct (gsim_view _ _ _ Ge R1) as (ae & Re & Ee).
      destruct (Hop e ae He Re Ee) as (g' & Hun & Hg).
      rewrite rollback_cmds_one by assumption. rewrite Hun. eexists. split; [reflexivity|].
      constructor; cbn; assumption.
  Qed.

  (* ---- insert_node_db ---- *)
  Lemma step_insert_node_db d i d1 :
    db_ok d -> insert_node_db d = (i, d1) -> capacity (gr d1) <= two63z ->
    db_ok d1 /\ undoable rv d d1 /\ capacity (gr d) <= capacity (gr d1) /\ 0 < i.
  Proof.
    intros Hok Hins Hb. destruct (db_ok_rep d Hok) as (a & R).
    unfold insert_node_db in Hins. destruct (insert_node (gr d)) as [i0 g] eqn:Eg. injection Hins as <- <-.
    cbn [gr push_undo with_gr] in Hb.
    destruct (rep_insert_node _ _ _ _ R Eg Hb) as (Ei & R1).
    destruct (rep_alloc_fresh _ _ _ _ R) as (Hipos & Hifree).
    pose proof (a_alloc_spec a) as Hsp. unfold a_insert_node in Ei, R1.
    destruct (a_alloc a) as [i1 a1] eqn:Ea. try (rewrite Ea in Hipos, Hifree). cbn [fst snd] in *. subst i0.
    destruct Hsp as (Ek & Eo & Ein & Ec & _ & _ & Ecap).
    assert (Hmono : capacity (gr d) <= capacity g).
    { unfold rep in R, R1. rewrite <- (r_acap _ _ _ _ R), <- (r_acap _ _ _ _ R1). cbn [a_set_count acap]. rewrite Ecap.
      destruct (afree a); lia. }
    assert (Hstep : db_ok {| gr := g; aliases := aliases d; vals := vals d; indexes := indexes d; undo := CRemoveNode i1 :: undo d |} /\
                    undoable rv d {| gr := g; aliases := aliases d; vals := vals d; indexes := indexes d; undo := CRemoveNode i1 :: undo d |}).
    { apply (graph_step d g _ (CRemoveNode i1) Hok R1). intros e ae He Re Ee.
      assert (Kn : ak ae i1 = KNode).
      { rewrite (ae_kind _ _ Ee) by assumption. cbn [a_set_count ak]. rewrite Ek. apply upd_same. }
      assert (Ho : aout ae i1 = []).
      { apply Permutation_nil. symmetry. rewrite (ae_out _ _ Ee) by assumption. cbn [a_set_count aout]. rewrite Eo, upd_same. reflexivity. }
      assert (Hin : ain ae i1 = []).
      { apply Permutation_nil. symmetry. rewrite (ae_in _ _ Ee) by assumption. cbn [a_set_count ain]. rewrite Ein, upd_same. reflexivity. }
      destruct (rep_remove_node _ _ i1 Re Hipos Kn Ho Hin) as (g' & Hrm & Rg' & _).
      exists g'. split; [cbn [undo_one]; rewrite Hrm; reflexivity|].
      exists (a_remove_node ae i1), a. split; [assumption|]. split; [assumption|].
      eapply aeqv_trans; [apply aeqv_remove_node, Ee|].
      pose proof (a_insert_remove_node a) as Hinv. unfold a_insert_node in Hinv. rewrite Ea in Hinv. cbn [fst snd] in Hinv.
      apply Hinv; assumption. }
    destruct Hstep as (Hok1 & U1). split; [exact Hok1|]. split; [exact U1|]. split; assumption.
  Qed.

  (* ---- removing an isolated node (last step of remove_node_db) ---- *)
  Lemma step_remove_isolated_node d a n :
    db_ok d -> rep (gr d) a -> 0 < n -> ak a n = KNode -> aout a n = [] -> ain a n = [] ->
    exists g', Graph.remove_node (gr d) n = Some g' /\
      let d1 := push_undo (with_gr d g') CInsertNode in
      db_ok d1 /\ undoable rv d d1 /\ capacity (gr d1) = capacity (gr d).
  Proof.
    intros Hok R Hn Kn Ho Hi. destruct (rep_remove_node _ _ n R Hn Kn Ho Hi) as (g' & Hrm & R1 & Hcap).
    exists g'. split; [assumption|]. cbv zeta.
    assert (Hstep : db_ok (push_undo (with_gr d g') CInsertNode) /\ undoable rv d (push_undo (with_gr d g') CInsertNode)).
    { apply (graph_step d g' _ CInsertNode Hok R1). intros e ae He Re Ee.
      destruct (insert_node (gr e)) as [i' g''] eqn:Eins.
      assert (Hb : capacity g'' <= two63z).
      { change g'' with (snd (i', g'')). rewrite <- Eins, cap_insert_node.
        eapply (alloc_bound _ _ _ n (afree a) Re Ee); [reflexivity | |].
        - cbn [a_remove_node a_set_count a_release acap]. unfold rep in R. rewrite (r_acap _ _ _ _ R).
          apply (rep_node_range _ _ _ _ R n Hn Kn).
        - cbn [a_remove_node a_set_count a_release acap]. unfold rep in R. rewrite (r_acap _ _ _ _ R).
          apply (r_cap _ _ _ _ R). }
      destruct (rep_insert_node _ _ _ _ Re Eins Hb) as (_ & Rg'').
      exists g''. split; [cbn [undo_one]; rewrite Eins; reflexivity|].
      exists (snd (a_insert_node ae)), a. split; [assumption|]. split; [assumption|].
      eapply aeqv_trans; [apply aeqv_insert_node, Ee|]. apply a_remove_insert_node; assumption. }
    destruct Hstep as (Hok1 & U1). split; [exact Hok1|]. split; [exact U1|]. exact Hcap.
  Qed.

  (* ---- insert_edge_db ---- *)
  Lemma step_insert_edge_db d f t i d1 :
    db_ok d -> 0 < f -> 0 < t -> insert_edge_db d f t = ROk (i, d1) -> capacity (gr d1) <= two63z ->
    db_ok d1 /\ undoable rv d d1 /\ capacity (gr d) <= capacity (gr d1) /\ i < 0.
  Proof.
    intros Hok Hf Ht Hins Hb. destruct (db_ok_rep d Hok) as (a & R).
    unfold insert_edge_db in Hins. destruct (insert_edge (gr d) f t) as [[i0 g]|] eqn:Eg; [|discriminate].
    injection Hins as <- <-. cbn [gr push_undo with_gr] in Hb.
    assert (Hnodes : ak a f = KNode /\ ak a t = KNode).
    { unfold insert_edge in Eg. destruct (is_node (gr d) f && is_node (gr d) t) eqn:En; [|discriminate].
      apply andb_true_iff in En. destruct En as (En1 & En2). unfold rep in R.
      rewrite !(r_kind _ _ _ _ R) by assumption. split; apply is_node_kind; assumption. }
    destruct Hnodes as (Kf & Kt).
    destruct (rep_insert_edge _ _ _ _ _ _ R Hf Ht Kf Kt Eg Hb) as (Ei & R1).
    destruct (rep_alloc_fresh _ _ _ _ R) as (Hepos & Hefree).
    pose proof (a_alloc_spec a) as Hsp. unfold a_insert_edge in Ei, R1.
    destruct (a_alloc a) as [e0 a1] eqn:Ea. try (rewrite Ea in Hepos, Hefree). cbn [fst snd] in *. subst i0.
    destruct Hsp as (Ek & Eo & Ein & Ec & _ & _ & Ecap).
    assert (Hfe : f <> e0) by (intros ->; congruence).
    assert (Hte : t <> e0) by (intros ->; congruence).
    set (A1 := a_set_in (a_set_out (a_make_edge a1 e0 f t) f (e0 :: aout (a_make_edge a1 e0 f t) f)) t
                        (e0 :: ain (a_set_out (a_make_edge a1 e0 f t) f (e0 :: aout (a_make_edge a1 e0 f t) f)) t)) in *.
    assert (KA1 : ak A1 = upd (upd (ak a) e0 KNode) e0 (KEdge f t)).
    { unfold A1. cbn [a_set_in a_set_out a_make_edge ak]. rewrite Ek. reflexivity. }
    assert (Hmono : capacity (gr d) <= capacity g).
    { unfold rep in R, R1. rewrite <- (r_acap _ _ _ _ R), <- (r_acap _ _ _ _ R1). unfold A1.
      cbn [a_set_in a_set_out a_make_edge acap]. rewrite Ecap. destruct (afree a); lia. }
    assert (Hstep : db_ok {| gr := g; aliases := aliases d; vals := vals d; indexes := indexes d; undo := CRemoveEdge (- e0) :: undo d |} /\
                    undoable rv d {| gr := g; aliases := aliases d; vals := vals d; indexes := indexes d; undo := CRemoveEdge (- e0) :: undo d |}).
    { apply (graph_step d g _ (CRemoveEdge (- e0)) Hok R1). intros e ae He Re Ee.
      assert (Ke : ak ae e0 = KEdge f t) by (rewrite (ae_kind _ _ Ee) by assumption; rewrite KA1; apply upd_same).
      assert (Kfe : ak ae f = KNode) by (rewrite (ae_kind _ _ Ee) by assumption; rewrite KA1, !upd_other by assumption; assumption).
      assert (Kte : ak ae t = KNode) by (rewrite (ae_kind _ _ Ee) by assumption; rewrite KA1, !upd_other by assumption; assumption).
      destruct (rep_remove_edge _ _ e0 f t Re Hepos Ke) as (g' & Hrm & Rg' & _).
      exists g'. split; [cbn [undo_one]; rewrite Hrm; reflexivity|].
      exists (a_remove_edge ae e0), a. split; [assumption|]. split; [assumption|].
      eapply aeqv_trans; [apply (aeqv_remove_edge ae A1 e0 f t Ee); assumption|].
      pose proof (a_insert_remove_edge a f t) as Hinv. unfold a_insert_edge in Hinv. rewrite Ea in Hinv. cbn [fst snd] in Hinv.
      apply Hinv; try assumption.
      - intros Hin. destruct (rep_out_edge _ _ _ _ R f e0 Hf Kf Hin) as (t' & Ht'). congruence.
      - intros Hin. destruct (rep_in_edge _ _ _ _ R t e0 Ht Kt Hin) as (f' & Hf'). congruence. }
    destruct Hstep as (Hok1 & U1). split; [exact Hok1|]. split; [exact U1|]. split; [exact Hmono | lia].
  Qed.

  (* ---- remove_edge_db on an existing edge ---- *)
  Lemma step_remove_edge_db d a e0 f t :
    db_ok d -> rep (gr d) a -> 0 < e0 -> ak a e0 = KEdge f t ->
    exists d1, remove_edge_db d (- e0) = (d1, None) /\
      db_ok d1 /\ undoable rv d d1 /\ capacity (gr d1) = capacity (gr d) /\
      aliases d1 = aliases d /\ vals d1 = vals d /\ indexes d1 = indexes d /\
      rep (gr d1) (a_remove_edge a e0).
  Proof.
    intros Hok R He Ke. destruct (rep_remove_edge _ _ e0 f t R He Ke) as (g' & Hrm & R1 & Hcap).
    unfold rep in R. destruct (rep_edge_arrays _ _ _ _ R e0 f t He Ke) as (Her & _ & Efr & Eto & Hf & Ht).
    destruct (r_edge _ _ _ _ R e0 f t He Ke) as (_ & _ & Kf & Kt).
    unfold remove_edge_db. rewrite Hrm. unfold edge_from, edge_to. rewrite from_opp, to_opp, Efr, Eto, !Z.opp_involutive.
    eexists. split; [reflexivity|].
    assert (Hstep : db_ok (push_undo (with_gr d g') (CInsertEdge f t)) /\ undoable rv d (push_undo (with_gr d g') (CInsertEdge f t))).
    { apply (graph_step d g' _ (CInsertEdge f t) Hok R1). intros e ae He' Re Ee.
      assert (KA1 : ak (a_remove_edge a e0) = upd (ak a) e0 KFree).
      { unfold a_remove_edge. rewrite Ke. reflexivity. }
      assert (Hfe : f <> e0) by (intros ->; congruence).
      assert (Hte : t <> e0) by (intros ->; congruence).
      assert (Kfe : ak ae f = KNode) by (rewrite (ae_kind _ _ Ee) by assumption; rewrite KA1, upd_other by assumption; assumption).
      assert (Kte : ak ae t = KNode) by (rewrite (ae_kind _ _ Ee) by assumption; rewrite KA1, upd_other by assumption; assumption).
      destruct (insert_edge_some _ _ f t Re Hf Ht Kfe Kte) as (i' & g'' & Eins).
      assert (Hb : capacity g'' <= two63z).
      { rewrite (cap_insert_edge _ _ _ _ _ Eins).
        eapply (alloc_bound _ _ _ e0 (afree a) Re Ee).
        - unfold a_remove_edge. rewrite Ke. reflexivity.
        - unfold a_remove_edge. rewrite Ke. cbn [a_release a_set_in a_set_out acap]. rewrite (r_acap _ _ _ _ R). assumption.
        - unfold a_remove_edge. rewrite Ke. cbn [a_release a_set_in a_set_out acap]. rewrite (r_acap _ _ _ _ R).
          apply (r_cap _ _ _ _ R). }
      destruct (rep_insert_edge _ _ _ _ _ _ Re Hf Ht Kfe Kte Eins Hb) as (_ & Rg'').
      exists g''. split; [cbn [undo_one]; rewrite Eins; reflexivity|].
      exists (snd (a_insert_edge ae f t)), a. split; [assumption|]. split; [assumption|].
      destruct (rep_alloc_fresh _ _ _ _ Re) as (_ & Hfree).
      eapply aeqv_trans; [apply (aeqv_insert_edge ae (a_remove_edge a e0) f t Ee); assumption|].
      destruct (rep_edge_in_out _ _ e0 f t R He Ke) as (Hio & Hii).
      apply a_remove_insert_edge; try assumption.
      - apply (r_out _ _ _ _ R f Hf Kf).
      - apply (r_in _ _ _ _ R t Ht Kt). }
    destruct Hstep as (Hok1 & U1). split; [exact Hok1|]. split; [exact U1|]. split; [exact Hcap|]. split; [reflexivity|]. split; [reflexivity|]. split; [reflexivity|]. exact R1.
  Qed.
End Steps.
