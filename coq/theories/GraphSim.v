(* GraphSim.v — the simulation relation between the slot arrays of Graph.v and an abstract
   directed multigraph, at the level of the four accessor functions (slot -> Z), and the
   generic preservation lemmas for the primitive steps (link, unlink, allocate, free).

   Abstract side: `nodes : list Z` (node slots = node ids, positive) and lists of abstract edges
   `(slot, (source, target))`, NEWEST FIRST (the edge's id is `- slot`).  The out-list of node m is
   `adj esrc E m` = the slots of the edges with source m in list order; the invariant says that it
   is exactly the chain threaded through from / from_meta starting at `from m` (same for in-lists
   through to / to_meta).

   The relation is relaxed by parameters so that it also describes the intermediate states of
   remove_edge / remove_node: `ER` = edges whose slot record exists, `EO` / `EI` = edges threaded in
   the out- / in-lists, `PO` / `PI` = nodes whose out- / in-list is currently maintained. *)
From Agdb Require Import Bytes Graph GraphArr.
From Coq Require Import ZifyBool ZifyNat ZifyN.
Ltac Zify.zify_post_hook ::= Z.div_mod_to_equations.
Open Scope Z_scope.

Definition aedge := (Z * (Z * Z))%type.
Definition eslot (x : aedge) : Z := fst x.
Definition esrc (x : aedge) : Z := fst (snd x).
Definition etgt (x : aedge) : Z := snd (snd x).

Definition adj (key : aedge -> Z) (E : list aedge) (m : Z) : list Z :=
  map eslot (filter (fun x => key x =? m) E).

Definition remE (s : Z) (E : list aedge) : list aedge := filter (fun x => negb (eslot x =? s)) E.

Definition upd (f : Z -> Z) (i v : Z) : Z -> Z := fun j => if j =? i then v else f j.

Lemma upd_same f i v : upd f i v i = v.
Proof. unfold upd. rewrite Z.eqb_refl. reflexivity. Qed.
Lemma upd_other f i v j : j <> i -> upd f i v j = f j.
Proof. unfold upd. destruct (Z.eqb_spec j i); congruence. Qed.

(* ---------- adj / remE ---------- *)

Lemma in_adj key E m y : In y (adj key E m) <-> exists x, In x E /\ eslot x = y /\ key x = m.
Proof.
  unfold adj. rewrite in_map_iff. split.
  - intros [x [Hx Hin]]. apply filter_In in Hin. destruct Hin as [Hin Hk]. exists x. repeat split; auto; lia.
  - intros [x [Hin [Hx Hk]]]. exists x. split; [assumption|]. apply filter_In. split; [assumption|lia].
Qed.

Lemma adj_cons key x E m :
  adj key (x :: E) m = if key x =? m then eslot x :: adj key E m else adj key E m.
Proof. unfold adj. cbn [filter]. destruct (key x =? m); reflexivity. Qed.

Lemma adj_remE key s E m : adj key (remE s E) m = zrem s (adj key E m).
Proof.
  unfold adj, remE, zrem. induction E as [|x r IH]; cbn [filter map]; [reflexivity|].
  destruct (Z.eqb_spec (eslot x) s) as [Hs|Hs]; cbn [negb].
  - destruct (key x =? m); cbn [map filter]; [|exact IH].
    destruct (Z.eqb_spec (eslot x) s); [|contradiction]. cbn [negb]. exact IH.
  - cbn [filter]. destruct (key x =? m); cbn [map filter]; [|exact IH].
    destruct (Z.eqb_spec (eslot x) s); [contradiction|]. cbn [negb]. f_equal. exact IH.
Qed.

Lemma in_remE s E x : In x (remE s E) <-> In x E /\ eslot x <> s.
Proof. unfold remE. rewrite filter_In. destruct (Z.eqb_spec (eslot x) s); cbn [negb]; intuition congruence. Qed.

Lemma map_eslot_remE s E : map eslot (remE s E) = zrem s (map eslot E).
Proof.
  unfold remE, zrem. induction E as [|x r IH]; cbn [filter map]; [reflexivity|].
  destruct (eslot x =? s); cbn [negb map]; [exact IH|f_equal; exact IH].
Qed.

Lemma NoDup_adj key E m : NoDup (map eslot E) -> NoDup (adj key E m).
Proof.
  unfold adj. induction E as [|x r IH]; cbn [map filter]; intros Hnd; [constructor|].
  apply NoDup_cons_iff in Hnd. destruct Hnd as [Hx Hr].
  destruct (key x =? m); cbn [map]; [|auto]. constructor; [|auto].
  intros Hin. apply Hx. apply in_map_iff in Hin. destruct Hin as [y [Hy Hin]].
  apply filter_In in Hin. apply in_map_iff. exists y. tauto.
Qed.

Lemma adj_notin key E m : (forall x, In x E -> key x <> m) -> adj key E m = [].
Proof.
  unfold adj. induction E as [|x r IH]; intros H; cbn [filter map]; [reflexivity|].
  destruct (Z.eqb_spec (key x) m) as [E|E].
  - exfalso. eapply H; [left; reflexivity|exact E].
  - apply IH. intros y Hy; apply H; right; assumption.
Qed.

Lemma remE_notin s E : ~ In s (map eslot E) -> remE s E = E.
Proof.
  unfold remE. induction E as [|x r IH]; intros H; cbn [filter]; [reflexivity|].
  destruct (Z.eqb_spec (eslot x) s) as [Hs|Hs]; cbn [negb].
  - exfalso. apply H. left. exact Hs.
  - f_equal. apply IH. intros Hi. apply H. right. exact Hi.
Qed.

(* an edge slot determines the abstract edge *)
Lemma slot_inj E x y : NoDup (map eslot E) -> In x E -> In y E -> eslot x = eslot y -> x = y.
Proof.
  induction E as [|z r IH]; intros Hnd Hx Hy Heq; [destruct Hx|].
  cbn [map] in Hnd. apply NoDup_cons_iff in Hnd. destruct Hnd as [Hz Hr].
  destruct Hx as [->|Hx], Hy as [->|Hy]; auto.
  - exfalso. apply Hz. rewrite Heq. apply in_map. assumption.
  - exfalso. apply Hz. rewrite <- Heq. apply in_map. assumption.
Qed.

(* ---------- free list ---------- *)

Definition fhead (fl : list Z) : Z := match fl with [] => i64_min | x :: _ => - x end.

Fixpoint fchain (next : Z -> Z) (fl : list Z) : Prop :=
  match fl with
  | [] => True
  | x :: r => next x = fhead r /\ fchain next r
  end.

Lemma fchain_ext next next' fl :
  (forall y, In y fl -> next' y = next y) -> fchain next fl -> fchain next' fl.
Proof.
  induction fl as [|x r IH]; intros Hext Hc; cbn [fchain] in *; [exact I|].
  destruct Hc as [Hx Hc]. split.
  - rewrite Hext; [assumption|left; reflexivity].
  - apply IH; [|assumption]. intros y Hy; apply Hext; right; assumption.
Qed.

(* ---------- the relation ---------- *)

Record base (n : Z) (nodes : list Z) (ER : list aedge) : Prop := {
  b_nodes_nodup : NoDup nodes;
  b_nodes_range : forall m, In m nodes -> 0 < m < n;
  b_ER_nodup : NoDup (map eslot ER);
  b_ER_range : forall x, In x ER -> 0 < eslot x < n;
  b_disj : forall m, In m nodes -> ~ In m (map eslot ER);
  b_ends : forall x, In x ER -> In (esrc x) nodes /\ In (etgt x) nodes
}.

(* one direction: A = from (resp. to), M = from_meta (resp. to_meta), key = esrc (resp. etgt) *)
Record half (A M : Z -> Z) (nodes : list Z) (P : Z -> Prop) (key : aedge -> Z) (ER E : list aedge) : Prop := {
  h_nodup : NoDup (map eslot E);
  h_incl : incl E ER;
  h_rec : forall x, In x ER -> A (eslot x) = - key x /\ 0 <= M (eslot x);
  h_node : forall m, In m nodes -> 0 <= A m /\ 0 <= M m;
  h_chain : forall m, In m nodes -> P m ->
              chain M (A m) (adj key E m) /\ M m = Z.of_nat (length (adj key E m))
}.

Record freeS (n : Z) (F T FM TM : Z -> Z) (nodes : list Z) (ER : list aedge) (fl : list Z) (cnt : Z) : Prop := {
  f_from0 : F 0 = 0;
  f_to0 : T 0 = 0;
  f_cnt : TM 0 = cnt;
  f_head : FM 0 = fhead fl;
  f_chain : fchain FM fl;
  f_nodup : NoDup fl;
  f_fl : forall s, In s fl -> 0 < s < n /\ - s <> i64_min /\ ~ In s nodes /\ ~ In s (map eslot ER);
  f_unused : forall s, 0 < s < n -> ~ In s nodes -> ~ In s (map eslot ER) ->
               FM s < 0 /\ F s = 0 /\ T s = 0 /\ TM s = 0;
  (* no slot is leaked as long as the slot 2^63 (whose negation is i64::MIN = "no free slot") is not in play *)
  f_cover : n <= 9223372036854775808 ->
            forall s, 0 < s < n -> ~ In s nodes -> ~ In s (map eslot ER) -> In s fl
}.

Record rsimF (n : Z) (F T FM TM : Z -> Z) (nodes : list Z) (PO PI : Z -> Prop)
             (ER EO EI : list aedge) (fl : list Z) (cnt : Z) : Prop := {
  r_cap : 1 <= n;
  r_base : base n nodes ER;
  r_out : half F FM nodes PO esrc ER EO;
  r_in : half T TM nodes PI etgt ER EI;
  r_free : freeS n F T FM TM nodes ER fl cnt
}.

Definition wfl (g : graph) : Prop :=
  length (g_to g) = length (g_from g) /\ length (g_fmeta g) = length (g_from g) /\
  length (g_tmeta g) = length (g_from g).

Definition rsim (g : graph) (nodes : list Z) (PO PI : Z -> Prop) (ER EO EI : list aedge) (fl : list Z) (cnt : Z) : Prop :=
  wfl g /\ rsimF (capacity g) (from g) (to g) (fmeta g) (tmeta g) nodes PO PI ER EO EI fl cnt.

Definition allP : Z -> Prop := fun _ => True.

(* the abstract multigraph: node ids and edges (slot, (source, target)), newest first *)
Record agraph := { a_nodes : list Z; a_edges : list aedge }.

(* the full simulation: everything threaded, node count right; `fl` is the free list *)
Definition sim (g : graph) (a : agraph) (fl : list Z) : Prop :=
  rsim g (a_nodes a) allP allP (a_edges a) (a_edges a) (a_edges a) fl (Z.of_nat (length (a_nodes a))).

Definition wf (g : graph) : Prop := exists a fl, sim g a fl.

(* ---------- generic lemmas: half ---------- *)

Section Half.
  Variables (n : Z) (key : aedge -> Z).
  Implicit Types (A M : Z -> Z) (nodes : list Z) (P : Z -> Prop) (ER E : list aedge) (x : aedge).

  Lemma half_slots_pos A M nodes P ER E m :
    (forall x, In x ER -> 0 < eslot x < n) -> half A M nodes P key ER E ->
    forall y, In y (adj key E m) -> 0 < y < n.
  Proof.
    intros Hr H y Hy. apply in_adj in Hy. destruct Hy as [x [Hx [<- _]]].
    apply Hr. apply (h_incl _ _ _ _ _ _ _ H). assumption.
  Qed.

  (* extensionality: only the node slots and the record slots matter *)
  Lemma half_ext A M A' M' nodes P ER E :
    (forall j, In j nodes \/ In j (map eslot ER) -> A' j = A j /\ M' j = M j) ->
    half A M nodes P key ER E -> half A' M' nodes P key ER E.
  Proof.
    intros Hext [H1 H2 H3 H4 H5]. constructor; auto.
    - intros x Hx. destruct (Hext (eslot x)) as [-> ->]; [right; apply in_map; assumption|]. auto.
    - intros m Hm. destruct (Hext m) as [-> ->]; [left; assumption|]. auto.
    - intros m Hm HP. destruct (Hext m) as [-> ->]; [left; assumption|].
      destruct (H5 m Hm HP) as [Hc Hd]. split; [|assumption].
      eapply chain_ext; [|exact Hc]. intros y Hy. apply in_adj in Hy. destruct Hy as [x [Hx [<- _]]].
      apply Hext. right. apply in_map. apply H2. assumption.
  Qed.

  (* weakening of the maintained-node predicate *)
  Lemma half_weaken A M nodes (P P' : Z -> Prop) ER E :
    (forall m, In m nodes -> P' m -> P m) ->
    half A M nodes P key ER E -> half A M nodes P' key ER E.
  Proof. intros HP [H1 H2 H3 H4 H5]. constructor; auto. Qed.

  (* an edge whose key node is not maintained can be dropped from the threaded list *)
  Lemma half_drop A M nodes P ER E x :
    In x E -> ~ P (key x) -> half A M nodes P key ER E -> half A M nodes P key ER (remE (eslot x) E).
  Proof.
    intros Hx HnP [H1 H2 H3 H4 H5]. constructor; auto.
    - rewrite map_eslot_remE. apply NoDup_zrem. assumption.
    - intros y Hy. apply in_remE in Hy. apply H2. tauto.
    - intros m Hm HP. rewrite adj_remE.
      assert (Hne : ~ In (eslot x) (adj key E m)).
      { intros Hin. apply in_adj in Hin. destruct Hin as [y [Hy [Hs Hk]]].
        assert (y = x) by (apply (slot_inj E); auto). subst y. rewrite Hk in HnP. contradiction. }
      rewrite zrem_notin by assumption. auto.
  Qed.

  (* link: the edge record x (not threaded yet) becomes the head of its key node's list *)
  Lemma half_link A M nodes P ER E x :
    base n nodes ER -> In (key x) nodes ->
    half A M nodes P key ER E -> In x ER -> ~ In (eslot x) (map eslot E) ->
    half (upd A (key x) (eslot x))
         (upd (upd M (eslot x) (A (key x))) (key x) (M (key x) + 1))
         nodes P key ER (x :: E).
  Proof.
    intros B Hk [H1 H2 H3 H4 H5] Hx Hnx.
    pose proof (b_disj _ _ _ B) as Hdisj. pose proof (b_ER_range _ _ _ B) as Hrng.
    assert (Hks : key x <> eslot x).
    { intros E0. apply (Hdisj _ Hk). rewrite E0. apply in_map. assumption. }
    constructor.
    - cbn [map]. constructor; assumption.
    - intros y [<-|Hy]; auto.
    - intros y Hy. assert (eslot y <> key x).
      { intros E0. apply (Hdisj _ Hk). rewrite <- E0. apply in_map. assumption. }
      rewrite (upd_other A) by assumption. rewrite (upd_other _ (key x)) by assumption.
      destruct (H3 y Hy) as [Ha Hm]. split; [assumption|].
      unfold upd at 1. destruct (Z.eqb_spec (eslot y) (eslot x)); [|assumption].
      apply (H4 _ Hk).
    - intros m Hm. destruct (H4 m Hm) as [Ha Hmm].
      assert (m <> eslot x).
      { intros E0. apply (Hdisj _ Hm). rewrite E0. apply in_map. assumption. }
      unfold upd. destruct (Z.eqb_spec m (key x)) as [->|Hne].
      + specialize (Hrng x Hx). lia.
      + destruct (Z.eqb_spec m (eslot x)); [contradiction|]. auto.
    - intros m Hm HP. destruct (H5 m Hm HP) as [Hc Hd]. rewrite adj_cons.
      assert (Hms : m <> eslot x).
      { intros E0. apply (Hdisj _ Hm). rewrite E0. apply in_map. assumption. }
      assert (Hext : forall y, In y (adj key E m) ->
                upd (upd M (eslot x) (A (key x))) (key x) (M (key x) + 1) y = M y).
      { intros y Hy. apply in_adj in Hy. destruct Hy as [z [Hz [<- _]]].
        rewrite upd_other, upd_other; auto.
        - intros E0. apply Hnx. rewrite <- E0. apply in_map. assumption.
        - intros E0. apply (Hdisj _ Hk). rewrite <- E0. apply in_map. apply H2. assumption. }
      destruct (Z.eqb_spec (key x) m) as [E0|E0].
      + subst m. rewrite upd_same. rewrite upd_same. cbn [chain length]. split.
        * split; [reflexivity|]. rewrite (upd_other _ (key x)) by auto. rewrite upd_same.
          eapply chain_ext; [exact Hext|exact Hc].
        * lia.
      + rewrite (upd_other A) by auto. rewrite (upd_other _ (key x)) by auto.
        rewrite (upd_other M) by auto. split; [|assumption].
        eapply chain_ext; [exact Hext|exact Hc].
  Qed.

  (* unlink, head case *)
  Lemma half_unlink_head A M nodes P ER E x :
    base n nodes ER -> In (key x) nodes -> P (key x) ->
    half A M nodes P key ER E -> In x E -> A (key x) = eslot x ->
    half (upd A (key x) (M (eslot x))) (upd M (key x) (M (key x) - 1)) nodes P key ER (remE (eslot x) E).
  Proof.
    intros B Hk HPk [H1 H2 H3 H4 H5] Hx Hhead.
    pose proof (b_disj _ _ _ B) as Hdisj.
    assert (HxR : In x ER) by auto.
    destruct (H5 _ Hk HPk) as [Hck Hdk].
    assert (Hin : In (eslot x) (adj key E (key x))).
    { apply in_adj. exists x. auto. }
    assert (Hndk : NoDup (adj key E (key x))) by (apply NoDup_adj; assumption).
    constructor.
    - rewrite map_eslot_remE. apply NoDup_zrem. assumption.
    - intros y Hy. apply in_remE in Hy. apply H2. tauto.
    - intros y Hy. assert (eslot y <> key x).
      { intros E0. apply (Hdisj _ Hk). rewrite <- E0. apply in_map. assumption. }
      rewrite !upd_other by assumption. auto.
    - intros m Hm. destruct (H4 m Hm) as [Ha Hmm]. unfold upd.
      destruct (Z.eqb_spec m (key x)) as [->|Hne]; [|auto]. split.
      + apply (H3 x HxR).
      + rewrite Hdk. destruct (adj key E (key x)); [destruct Hin|]. cbn [length]. lia.
    - intros m Hm HP. rewrite adj_remE. destruct (H5 m Hm HP) as [Hc Hd].
      assert (Hext : forall y, In y (adj key E m) -> upd M (key x) (M (key x) - 1) y = M y).
      { intros y Hy. apply in_adj in Hy. destruct Hy as [z [Hz [<- _]]]. apply upd_other.
        intros E0. apply (Hdisj _ Hk). rewrite <- E0. apply in_map. auto. }
      destruct (Z.eqb_spec m (key x)) as [->|Hne].
      + rewrite !upd_same. split.
        * destruct (adj key E (key x)) as [|s r] eqn:Eadj; [destruct Hin|].
          cbn [chain] in Hck. destruct Hck as [Hs Hck]. rewrite Hhead in Hs. subst s.
          apply NoDup_cons_iff in Hndk. destruct Hndk as [Hs Hr].
          apply chain_unlink_head; [assumption| |split; [reflexivity|assumption]].
          intros y Hy. apply Hext. right. assumption.
        * rewrite zrem_length by assumption. lia.
      + rewrite !upd_other by assumption.
        assert (Hnin : ~ In (eslot x) (adj key E m)).
        { intros Hi. apply in_adj in Hi. destruct Hi as [y [Hy [Hs Hky]]].
          assert (y = x) by (apply (slot_inj E); auto). subst y. congruence. }
        rewrite zrem_notin by assumption. split; [|assumption].
        eapply chain_ext; [exact Hext|exact Hc].
  Qed.

  (* unlink, inner case: find_prev returns the predecessor *)
  Lemma half_unlink_inner A M nodes P ER E x (fuel : nat) :
    (forall z, M (- z) = M z) ->
    base n nodes ER -> In (key x) nodes -> P (key x) -> n <= Z.of_nat fuel ->
    half A M nodes P key ER E -> In x E -> A (key x) <> eslot x ->
    exists p', find_prev M fuel (- A (key x)) (eslot x) = Some p' /\
      In (Z.abs p') (map eslot ER) /\
      half A (upd (upd M (Z.abs p') (M (eslot x))) (key x) (M (key x) - 1)) nodes P key ER (remE (eslot x) E).
  Proof.
    intros Heven B Hk HPk Hfuel [H1 H2 H3 H4 H5] Hx Hnhead.
    pose proof (b_disj _ _ _ B) as Hdisj. pose proof (b_ER_range _ _ _ B) as Hrng.
    assert (HxR : In x ER) by auto.
    destruct (H5 _ Hk HPk) as [Hck Hdk].
    assert (Hin : In (eslot x) (adj key E (key x))).
    { apply in_adj. exists x. auto. }
    assert (Hndk : NoDup (adj key E (key x))) by (apply NoDup_adj; assumption).
    assert (Hpos : forall y, In y (adj key E (key x)) -> 0 < y < n).
    { intros y Hy. apply in_adj in Hy. destruct Hy as [z [Hz [<- _]]]. apply Hrng. auto. }
    assert (Hlen : (length (adj key E (key x)) <= fuel)%nat).
    { destruct (NoDup_range_length (adj key E (key x)) (Z.to_nat n) Hndk) as [HL|[HL _]].
      - intros y Hy. specialize (Hpos y Hy). lia.
      - lia.
      - rewrite HL. cbn [length]. lia. }
    destruct (chain_unlink_inner M (eslot x) Heven (adj key E (key x)) fuel (A (key x)) (- A (key x)))
      as [p' [Hf [Hpin [Hps [Hnp Hrest]]]]]; auto.
    { intros y Hy. apply Hpos. assumption. }
    { destruct (H4 _ Hk). lia. }
    exists p'. split; [assumption|].
    assert (HpR : In (Z.abs p') (map eslot ER)).
    { apply in_adj in Hpin. destruct Hpin as [z [Hz [<- _]]]. apply in_map. auto. }
    split; [assumption|].
    assert (Hpk : Z.abs p' <> key x).
    { intros E0. apply (Hdisj _ Hk). rewrite <- E0. assumption. }
    constructor.
    - rewrite map_eslot_remE. apply NoDup_zrem. assumption.
    - intros y Hy. apply in_remE in Hy. apply H2. tauto.
    - intros y Hy. assert (eslot y <> key x).
      { intros E0. apply (Hdisj _ Hk). rewrite <- E0. apply in_map. assumption. }
      rewrite (upd_other _ (key x)) by assumption. destruct (H3 y Hy) as [Ha Hm]. split; [assumption|].
      unfold upd. destruct (Z.eqb_spec (eslot y) (Z.abs p')); [|assumption]. apply (H3 x HxR).
    - intros m Hm. destruct (H4 m Hm) as [Ha Hmm]. split; [assumption|]. unfold upd.
      destruct (Z.eqb_spec m (key x)) as [->|Hne].
      + rewrite Hdk. destruct (adj key E (key x)); [destruct Hin|]. cbn [length]. lia.
      + destruct (Z.eqb_spec m (Z.abs p')) as [->|]; [|assumption]. exfalso. apply (Hdisj _ Hm). assumption.
    - intros m Hm HP. rewrite adj_remE. destruct (H5 m Hm HP) as [Hc Hd].
      destruct (Z.eqb_spec m (key x)) as [->|Hne].
      + rewrite upd_same. split.
        * apply Hrest.
          -- rewrite (upd_other _ (key x)) by assumption. apply upd_same.
          -- intros y Hy Hyp Hys. rewrite !upd_other; auto.
             intros E0. apply in_adj in Hy. destruct Hy as [z [Hz [Hzs _]]].
             apply (Hdisj _ Hk). rewrite <- E0, <- Hzs. apply in_map. auto.
        * rewrite zrem_length by assumption. lia.
      + rewrite (upd_other _ (key x)) by assumption.
        assert (Hnin : forall s, In s (adj key E (key x)) -> ~ In s (adj key E m)).
        { intros s Hs Hi. apply in_adj in Hs. destruct Hs as [y1 [Hy1 [Hs1 Hk1]]].
          apply in_adj in Hi. destruct Hi as [y2 [Hy2 [Hs2 Hk2]]].
          assert (y1 = y2) by (apply (slot_inj E); auto; congruence). subst y2. congruence. }
        rewrite zrem_notin by (apply Hnin; assumption).
        assert (Hmp : m <> Z.abs p').
        { intros ->. apply (Hdisj _ Hm). assumption. }
        rewrite (upd_other _ (Z.abs p')) by assumption. split; [|assumption].
        eapply chain_ext; [|exact Hc]. intros y Hy.
        rewrite !upd_other; auto.
        -- intros ->. apply (Hnin _ Hpin). assumption.
        -- intros E0. apply in_adj in Hy. destruct Hy as [z [Hz [Hzs _]]].
           apply (Hdisj _ Hk). rewrite <- E0, <- Hzs. apply in_map. auto.
  Qed.
End Half.
