(* UndoBase.v — basic facts used by the rollback proofs (C13):
   dbv_eqb decides Leibniz equality, a sound boolean permutation check,
   association-list (alookup/aremove/ainsert) algebra. *)
From Agdb Require Import Bytes BytesProofs DbValue Graph DbModel.
From Coq Require Import Permutation ZifyBool ZifyNat ZifyN.
Ltac Zify.zify_post_hook ::= Z.div_mod_to_equations.

(* ------------------------------------------------------------------ *)
(* dbv_eqb is equality                                                 *)

Lemma cmp_then_eq c d : cmp_then c d = Eq <-> c = Eq /\ d = Eq.
Proof. destruct c, d; cbn; split; intros; try tauto; try discriminate; destruct H; discriminate. Qed.

Lemma lex_cmp_eq {A} (cmp : A -> A -> comparison) :
  (forall x y, cmp x y = Eq <-> x = y) -> forall a b, lex_cmp cmp a b = Eq <-> a = b.
Proof.
  intros Hc a. induction a as [|x a IH]; intros [|y b]; cbn [lex_cmp].
  - tauto.
  - split; discriminate.
  - split; discriminate.
  - rewrite cmp_then_eq, Hc, IH. split.
    + intros [-> ->]. reflexivity.
    + intros E. inversion E. auto.
Qed.

Lemma byte_cmp_eq x y : byte_cmp x y = Eq <-> x = y.
Proof.
  unfold byte_cmp. rewrite N.compare_eq_iff. split.
  - intros E. rewrite <- (n2b_b2n x), <- (n2b_b2n y), E. reflexivity.
  - intros ->. reflexivity.
Qed.

Lemma bytes_cmp_eq x y : bytes_cmp x y = Eq <-> x = y.
Proof. apply lex_cmp_eq, byte_cmp_eq. Qed.

Lemma f64_cmp_eq x y : f64_cmp x y = Eq <-> x = y.
Proof.
  unfold f64_cmp, f64_key, two63. rewrite Z.compare_eq_iff.
  destruct (N.ltb_spec x 9223372036854775808), (N.ltb_spec y 9223372036854775808); lia.
Qed.

Lemma dbv_cmp_eq a b : dbv_cmp a b = Eq <-> a = b.
Proof.
  destruct a, b; cbn [dbv_cmp kind];
    try (split; [intros E; apply N.compare_eq_iff in E; discriminate | discriminate]).
  - rewrite bytes_cmp_eq. split; [intros -> | intros [=]]; auto.
  - rewrite Z.compare_eq_iff. split; [intros -> | intros [=]]; auto.
  - rewrite N.compare_eq_iff. split; [intros -> | intros [=]]; auto.
  - rewrite f64_cmp_eq. split; [intros -> | intros [=]]; auto.
  - rewrite bytes_cmp_eq. split; [intros -> | intros [=]]; auto.
  - rewrite (lex_cmp_eq Z.compare Z.compare_eq_iff). split; [intros -> | intros [=]]; auto.
  - rewrite (lex_cmp_eq N.compare N.compare_eq_iff). split; [intros -> | intros [=]]; auto.
  - rewrite (lex_cmp_eq f64_cmp f64_cmp_eq). split; [intros -> | intros [=]]; auto.
  - rewrite (lex_cmp_eq bytes_cmp bytes_cmp_eq). split; [intros -> | intros [=]]; auto.
Qed.

Lemma dbv_eqb_eq a b : dbv_eqb a b = true <-> a = b.
Proof.
  unfold dbv_eqb, is_eq. rewrite <- dbv_cmp_eq.
  destruct (dbv_cmp a b); split; congruence.
Qed.

Lemma dbv_eqb_refl a : dbv_eqb a a = true.
Proof. apply dbv_eqb_eq. reflexivity. Qed.

Lemma dbv_eqb_spec a b : reflect (a = b) (dbv_eqb a b).
Proof. apply iff_reflect. symmetry. apply dbv_eqb_eq. Qed.

Lemma dbv_eqb_neq a b : dbv_eqb a b = false <-> a <> b.
Proof. destruct (dbv_eqb_spec a b); split; congruence. Qed.

Lemma dbv_eqb_sym a b : dbv_eqb a b = dbv_eqb b a.
Proof. destruct (dbv_eqb_spec a b), (dbv_eqb_spec b a); congruence. Qed.

Lemma bytes_eqb_spec a b : reflect (a = b) (bytes_eqb a b).
Proof. apply iff_reflect. symmetry. apply bytes_eqb_eq. Qed.

Lemma bytes_eqb_refl a : bytes_eqb a a = true.
Proof. apply bytes_eqb_eq. reflexivity. Qed.

Definition kv_eqb (x y : kv) : bool := dbv_eqb (fst x) (fst y) && dbv_eqb (snd x) (snd y).
Lemma kv_eqb_eq x y : kv_eqb x y = true <-> x = y.
Proof.
  unfold kv_eqb. destruct x, y; cbn [fst snd]. rewrite andb_true_iff, !dbv_eqb_eq.
  split; [intros [-> ->] | intros [=]]; auto.
Qed.

Definition vid_eqb (x y : dbvalue * Z) : bool := dbv_eqb (fst x) (fst y) && (snd x =? snd y)%Z.
Lemma vid_eqb_eq x y : vid_eqb x y = true <-> x = y.
Proof.
  unfold vid_eqb. destruct x, y; cbn [fst snd]. rewrite andb_true_iff, dbv_eqb_eq, Z.eqb_eq.
  split; [intros [-> ->] | intros [=]]; auto.
Qed.

(* ------------------------------------------------------------------ *)
(* boolean permutation check                                           *)

Section PermCheck.
  Context {A : Type} (eqb : A -> A -> bool) (eqb_eq : forall x y, eqb x y = true <-> x = y).

  Fixpoint remove_one (x : A) (l : list A) : option (list A) :=
    match l with
    | [] => None
    | y :: r => if eqb x y then Some r
                else match remove_one x r with Some r' => Some (y :: r') | None => None end
    end.

  Fixpoint permb (l l' : list A) : bool :=
    match l with
    | [] => match l' with [] => true | _ => false end
    | x :: r => match remove_one x l' with Some l'' => permb r l'' | None => false end
    end.

  Lemma remove_one_perm x l l' : remove_one x l = Some l' -> Permutation l (x :: l').
  Proof.
    revert l'. induction l as [|y r IH]; intros l' H; cbn [remove_one] in H; [discriminate|].
    destruct (eqb x y) eqn:E.
    - apply eqb_eq in E. subst. inversion H. subst. reflexivity.
    - destruct (remove_one x r) eqn:R; [|discriminate]. inversion H. subst.
      rewrite (IH _ eq_refl). apply perm_swap.
  Qed.

  Lemma permb_sound l l' : permb l l' = true -> Permutation l l'.
  Proof.
    revert l'. induction l as [|x r IH]; intros l' H; cbn [permb] in H.
    - destruct l'; [constructor | discriminate].
    - destruct (remove_one x l') eqn:R; [|discriminate].
      apply remove_one_perm in R. rewrite R. constructor. apply IH, H.
  Qed.
End PermCheck.

(* ------------------------------------------------------------------ *)
(* association lists                                                    *)

Section AssocFacts.
  Context {K V : Type} (keqb : K -> K -> bool) (keqb_spec : forall x y, reflect (x = y) (keqb x y)).

  Lemma alookup_aremove (m : list (K * V)) k k' :
    alookup keqb (aremove keqb m k) k' = if keqb k k' then None else alookup keqb m k'.
  Proof.
    induction m as [|[k0 v0] r IH]; cbn [alookup aremove].
    - destruct (keqb k k'); reflexivity.
    - destruct (keqb_spec k0 k) as [->|N0].
      + rewrite IH. destruct (keqb_spec k k'); reflexivity.
      + cbn [alookup]. rewrite IH. destruct (keqb_spec k0 k') as [->|N1]; [|reflexivity].
        destruct (keqb_spec k k'); [congruence | reflexivity].
  Qed.

  Lemma alookup_app (m m' : list (K * V)) k :
    alookup keqb (m ++ m') k = match alookup keqb m k with Some v => Some v | None => alookup keqb m' k end.
  Proof.
    induction m as [|[k0 v0] r IH]; cbn [alookup app]; [reflexivity|].
    destruct (keqb k0 k); [reflexivity | apply IH].
  Qed.

  Lemma alookup_ainsert (m : list (K * V)) k v k' :
    alookup keqb (snd (ainsert keqb m k v)) k' = if keqb k k' then Some v else alookup keqb m k'.
  Proof.
    unfold ainsert. cbn [snd]. rewrite alookup_app, alookup_aremove. cbn [alookup].
    destruct (keqb k k'); [reflexivity|]. destruct (alookup keqb m k'); reflexivity.
  Qed.

  (* extensional equality of association lists is a congruence for the operations *)
  Definition aeq (m m' : list (K * V)) : Prop := forall k, alookup keqb m k = alookup keqb m' k.

  Lemma aeq_aremove m m' k : aeq m m' -> aeq (aremove keqb m k) (aremove keqb m' k).
  Proof. intros H k'. rewrite !alookup_aremove, H. reflexivity. Qed.

  Lemma aeq_ainsert m m' k v : aeq m m' -> aeq (snd (ainsert keqb m k v)) (snd (ainsert keqb m' k v)).
  Proof. intros H k'. rewrite !alookup_ainsert, H. reflexivity. Qed.

  Lemma aremove_absent (m : list (K * V)) k : alookup keqb m k = None -> aremove keqb m k = m.
  Proof.
    induction m as [|[k0 v0] r IH]; cbn [alookup aremove]; [reflexivity|].
    destruct (keqb k0 k); [discriminate|]. intros H. rewrite IH; auto.
  Qed.
End AssocFacts.
