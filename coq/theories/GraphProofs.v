(* GraphProofs.v — the graph of Graph.v refines an abstract directed multigraph:
   classification of slots, well-formedness of the empty graph, and the four mutations
   (insert_node, insert_edge, remove_edge, remove_node) as simulation steps; the unlink loops
   never run out of fuel. *)
From Agdb Require Import Bytes Graph GraphArr GraphSim GraphSim2 GraphSim3 GraphOps GraphOps2.
From Coq Require Import ZifyBool ZifyNat ZifyN.
Ltac Zify.zify_post_hook ::= Z.div_mod_to_equations.
Open Scope Z_scope.

(* ---------- validity predicates only look at the slot |i| ---------- *)

Lemma valid_index_abs g i : valid_index g (Z.abs i) = valid_index g i.
Proof.
  unfold valid_index, fmeta. rewrite get_abs, Z.abs_involutive.
  destruct (Z.eqb_spec (Z.abs i) 0); destruct (Z.eqb_spec i 0); try lia; reflexivity.
Qed.

Lemma is_node_abs g i : is_node g (Z.abs i) = is_node g i.
Proof. unfold is_node, from. rewrite valid_index_abs, get_abs. reflexivity. Qed.

Lemma is_edge_abs g i : is_edge g (Z.abs i) = is_edge g i.
Proof. unfold is_edge, from. rewrite valid_index_abs, get_abs. reflexivity. Qed.

(* ---------- classification of the slots ---------- *)

Section Class.
  Variables (g : graph) (nodes : list Z) (PO PI : Z -> Prop) (ER EO EI : list aedge) (fl : list Z) (cnt : Z).
  Hypothesis RS : rsim g nodes PO PI ER EO EI fl cnt.

  Let R := proj2 RS.
  Let B := r_base _ _ _ _ _ _ _ _ _ _ _ _ _ R.
  Let HO := r_out _ _ _ _ _ _ _ _ _ _ _ _ _ R.
  Let FS := r_free _ _ _ _ _ _ _ _ _ _ _ _ _ R.

  Lemma class_node m : In m nodes -> is_node g m = true /\ is_edge g m = false.
  Proof.
    intros Hm. pose proof (b_nodes_range _ _ _ B m Hm) as Hr.
    destruct (h_node _ _ _ _ _ _ _ HO m Hm) as [H1 H2].
    unfold is_node, is_edge, valid_index. lia.
  Qed.

  Lemma class_edge x : In x ER -> is_edge g (eslot x) = true /\ is_node g (eslot x) = false.
  Proof.
    intros Hx. pose proof (b_ER_range _ _ _ B x Hx) as Hr.
    destruct (h_rec _ _ _ _ _ _ _ HO x Hx) as [H1 H2].
    destruct (b_ends _ _ _ B x Hx) as [Hs _]. pose proof (b_nodes_range _ _ _ B _ Hs) as Hsr.
    unfold is_node, is_edge, valid_index. lia.
  Qed.

  Lemma class_unused s : 0 < s -> ~ In s nodes -> ~ In s (map eslot ER) -> valid_index g s = false.
  Proof.
    intros Hs Ha Hb. unfold valid_index.
    destruct (Z.ltb_spec (Z.abs s) (capacity g)) as [Hc|Hc].
    - destruct (f_unused _ _ _ _ _ _ _ _ _ FS s) as [H1 _]; try assumption; lia.
    - rewrite Bool.andb_false_r. reflexivity.
  Qed.

  Lemma is_node_iff j : is_node g j = true <-> In (Z.abs j) nodes.
  Proof.
    rewrite <- is_node_abs. split.
    - intros H.
      assert (Hp : 0 < Z.abs j).
      { destruct (Z.eq_dec (Z.abs j) 0) as [E|E]; [|lia]. rewrite E in H. discriminate H. }
      destruct (In_dec Z.eq_dec (Z.abs j) nodes) as [Hi|Hi]; [assumption|].
      destruct (In_dec Z.eq_dec (Z.abs j) (map eslot ER)) as [He|He].
      + apply in_map_iff in He. destruct He as [x [Hx He]].
        destruct (class_edge x He) as [_ Hn]. rewrite Hx in Hn. congruence.
      + pose proof (class_unused _ Hp Hi He) as Hv. unfold is_node in H. rewrite Hv in H. discriminate H.
    - intros H. apply class_node. assumption.
  Qed.

  Lemma is_edge_iff j : is_edge g j = true <-> In (Z.abs j) (map eslot ER).
  Proof.
    rewrite <- is_edge_abs. split.
    - intros H.
      assert (Hp : 0 < Z.abs j).
      { destruct (Z.eq_dec (Z.abs j) 0) as [E|E]; [|lia]. rewrite E in H. discriminate H. }
      destruct (In_dec Z.eq_dec (Z.abs j) (map eslot ER)) as [He|He]; [assumption|].
      destruct (In_dec Z.eq_dec (Z.abs j) nodes) as [Hi|Hi].
      + destruct (class_node _ Hi) as [_ Hn]. congruence.
      + pose proof (class_unused _ Hp Hi He) as Hv. unfold is_edge in H. rewrite Hv in H. discriminate H.
    - intros H. apply in_map_iff in H. destruct H as [x [Hx He]]. rewrite <- Hx. apply class_edge. assumption.
  Qed.

  (* endpoints of an edge record, read from the arrays *)
  Lemma edge_ends x : In x ER -> edge_from g (- eslot x) = esrc x /\ edge_to g (- eslot x) = etgt x.
  Proof.
    intros Hx. destruct (h_rec _ _ _ _ _ _ _ HO x Hx) as [H1 _].
    destruct (h_rec _ _ _ _ _ _ _ (r_in _ _ _ _ _ _ _ _ _ _ _ _ _ R) x Hx) as [H2 _].
    unfold edge_from, edge_to, from, to in *. rewrite !get_neg. lia.
  Qed.
End Class.

(* ---------- the empty graph ---------- *)

Definition a_empty : agraph := {| a_nodes := []; a_edges := [] |}.

Lemma sim_new : sim graph_new a_empty [].
Proof.
  unfold sim, rsim. cbn [a_nodes a_edges a_empty length].
  split; [unfold wfl; cbn; auto|].
  constructor.
  - cbn. lia.
  - constructor; cbn [map].
    + constructor.
    + intros ? [].
    + constructor.
    + intros ? [].
    + intros ? [].
    + intros ? [].
  - constructor; cbn [map].
    + constructor.
    + intros ? [].
    + intros ? [].
    + intros ? [].
    + intros ? [].
  - constructor; cbn [map].
    + constructor.
    + intros ? [].
    + intros ? [].
    + intros ? [].
    + intros ? [].
  - constructor; try reflexivity; try exact I.
    + constructor.
    + intros ? [].
    + intros s Hs. cbn in Hs. lia.
    + intros _ s Hs. cbn in Hs. lia.
Qed.

Lemma wf_new : wf graph_new.
Proof. exists a_empty, []. exact sim_new. Qed.

(* ---------- insert_node ---------- *)

Lemma insert_node_sim g a fl :
  sim g a fl ->
  let '(x, g') := insert_node g in
  0 < x /\ ~ In x (a_nodes a) /\ ~ In x (map eslot (a_edges a)) /\
  (x = capacity g \/ In x fl) /\
  sim g' {| a_nodes := x :: a_nodes a; a_edges := a_edges a |} (tl fl).
Proof.
  intros HS. unfold insert_node. destruct (get_free_index g) as [x g1] eqn:E.
  destruct (alloc_spec _ _ _ _ _ _ _ _ _ HS x g1 E) as [H1 [H2 [H3 [H4 S1]]]].
  split; [assumption|]. split; [assumption|]. split; [assumption|]. split; [assumption|].
  rewrite (node_count_spec _ _ _ _ _ _ _ _ _ S1).
  unfold sim. cbn [a_nodes a_edges length].
  replace (Z.of_nat (S (length (a_nodes a)))) with (Z.of_nat (length (a_nodes a)) + 1) by lia.
  eapply cnt_spec. exact S1.
Qed.

(* ---------- insert_edge ---------- *)

Lemma insert_edge_sim g a fl f t :
  sim g a fl -> In f (a_nodes a) -> In t (a_nodes a) ->
  exists x g', insert_edge g f t = Some (- x, g') /\
    0 < x /\ ~ In x (a_nodes a) /\ ~ In x (map eslot (a_edges a)) /\
    (x = capacity g \/ In x fl) /\
    sim g' {| a_nodes := a_nodes a; a_edges := (x, (f, t)) :: a_edges a |} (tl fl).
Proof.
  intros HS Hf Ht. unfold insert_edge.
  pose proof (b_nodes_range _ _ _ (r_base _ _ _ _ _ _ _ _ _ _ _ _ _ (proj2 HS))) as Hrng.
  assert (Ef : is_node g f = true).
  { apply (is_node_iff _ _ _ _ _ _ _ _ _ HS). rewrite Z.abs_eq; [assumption|]. specialize (Hrng f Hf). lia. }
  assert (Et : is_node g t = true).
  { apply (is_node_iff _ _ _ _ _ _ _ _ _ HS). rewrite Z.abs_eq; [assumption|]. specialize (Hrng t Ht). lia. }
  rewrite Ef, Et. cbn [andb].
  destruct (get_free_index g) as [x g1] eqn:E.
  destruct (alloc_spec _ _ _ _ _ _ _ _ _ HS x g1 E) as [H1 [H2 [H3 [H4 S1]]]].
  exists x. eexists. split; [reflexivity|].
  split; [assumption|]. split; [assumption|]. split; [assumption|]. split; [assumption|].
  assert (Hiso : forall y, In y (a_edges a) -> esrc y <> x /\ etgt y <> x).
  { intros y Hy.
    destruct (b_ends _ _ _ (r_base _ _ _ _ _ _ _ _ _ _ _ _ _ (proj2 HS)) y Hy) as [Ha Hb].
    split; intros E0; apply H2; rewrite <- E0; assumption. }
  pose proof (node_to_rec_spec _ _ _ _ _ _ _ _ _ x f t S1 Hf Ht Hiso) as S2.
  set (e := (x, (f, t)) : aedge) in *.
  assert (He : In e (e :: a_edges a)) by (left; reflexivity).
  pose proof (link_out_spec _ _ _ _ _ _ _ _ _ S2 e He H3) as S3.
  pose proof (link_in_spec _ _ _ _ _ _ _ _ _ S3 e He H3) as S4.
  exact S4.
Qed.

Lemma insert_edge_none g a fl f t :
  sim g a fl -> 0 <= f -> 0 <= t -> ~ (In f (a_nodes a) /\ In t (a_nodes a)) ->
  insert_edge g f t = None.
Proof.
  intros HS Hf Ht Hn. unfold insert_edge.
  destruct (is_node g f) eqn:Ef; [|reflexivity].
  destruct (is_node g t) eqn:Et; [|reflexivity].
  exfalso. apply Hn.
  apply (is_node_iff _ _ _ _ _ _ _ _ _ HS) in Ef. apply (is_node_iff _ _ _ _ _ _ _ _ _ HS) in Et.
  rewrite Z.abs_eq in Ef, Et by assumption. split; assumption.
Qed.
