(* StoredDbOpsDb.v — proofs (stored database, part 11): the core mutations of DbImpl keep the database STORED.

     so_handles h w            the in-memory handles of DbImpl (graph, values vector) are the ones of the witness
     so_open_spec              the handles DbImpl::try_new_with_storage builds for an existing file (from_storage)
     so_insert_node_stored     DbImpl::insert_node: stored_db for d  ==>  stored_db for insert_node_db d, same id;
                               the witness changes in the graph component only, the change is confined to the footprint *)
From Coq Require Import Permutation.
From Agdb Require Import Bytes BytesProofs Utf8 Codec DbValue ValueIndex Graph DbModel Records RecordsProofs Storage StorageSpec
  StorageLayout Collections CollValues CollWp CollBytes CollVecBase CollVecOps CollVec CollVec2 CollElems CollSep CollMap
  CollGraph CollValuesProofs StoredDb StoredDbRep StoredDbLoad StoredDbFrame StoredDbOps StoredDbOpsGraph.
From Coq Require Import ZifyBool ZifyNat ZifyN.
Ltac Zify.zify_post_hook ::= Z.div_mod_to_equations.
Open Scope N_scope.
Arguments N.add : simpl never.
Arguments N.mul : simpl never.
Arguments N.sub : simpl never.
Arguments N.of_nat : simpl never.
Arguments N.to_nat : simpl never.
Arguments N.eqb : simpl never.
Arguments N.ltb : simpl never.
Arguments N.leb : simpl never.
Arguments N.div : simpl never.

Definition so_handles (h : so_db) (w : sd_wit) : Prop := so_graph h = sw_g w /\ so_values h = sw_vh w.

(* stored_db does not look at the undo stack *)
Lemma stored_db_w_same g root d d' w :
  stored_db_w g root d w -> gr d' = gr d -> aliases d' = aliases d -> vals d' = vals d -> indexes d' = indexes d ->
  stored_db_w g root d' w.
Proof.
  intros [H1 H2 H3 H4 H5 H6 H7 H8 H9 H10 H11 H12 H13 H14 H15 H16] E1 E2 E3 E4.
  constructor; rewrite ?E1, ?E2, ?E3, ?E4; assumption.
Qed.

(* two handles of the same graph index record have the same four vectors *)
Lemma grep_same_vecs g d d' s s' a a' :
  grep g d s a -> grep g d' s' a' -> cg_index d' = cg_index d -> forall f, cv_index (cg_vec d' f) = cv_index (cg_vec d f).
Proof.
  intros H H' Hi.
  pose proof (gr_rec _ _ _ _ H) as R. pose proof (gr_rec _ _ _ _ H') as R'. rewrite Hi, R in R'. assert (E : cg_index_ser (cv_index (cg_from d)) (cv_index (cg_to d)) (cv_index (cg_from_meta d)) (cv_index (cg_to_meta d)) = cg_index_ser (cv_index (cg_from d')) (cv_index (cg_to d')) (cv_index (cg_from_meta d')) (cv_index (cg_to_meta d'))) by congruence. clear R'.
  destruct (index_ser_parts _ _ _ _ (gr_bounds _ _ _ _ H GfFrom) (gr_bounds _ _ _ _ H GfTo) (gr_bounds _ _ _ _ H GfFromMeta) (gr_bounds _ _ _ _ H GfToMeta))
    as (_ & P1 & P2 & P3 & P4).
  destruct (index_ser_parts _ _ _ _ (gr_bounds _ _ _ _ H' GfFrom) (gr_bounds _ _ _ _ H' GfTo) (gr_bounds _ _ _ _ H' GfFromMeta) (gr_bounds _ _ _ _ H' GfToMeta))
    as (_ & Q1 & Q2 & Q3 & Q4).
  change cm_index_ser with cg_index_ser in *. cbn [cg_vec] in *. rewrite <- E in Q1, Q2, Q3, Q4.
  intros f; destruct f; cbn [cg_vec]; congruence.
Qed.

Definition sd_with_handles (w : sd_wit) (dg : cg_data) (vh : cv_vec) : sd_wit :=
  {| sw_root := sw_root w; sw_g := dg; sw_gs := sw_gs w; sw_a1 := sw_a1 w; sw_a2 := sw_a2 w;
     sw_ih := sw_ih w; sw_is := sw_is w; sw_ie := sw_ie w; sw_iw := sw_iw w;
     sw_vh := vh; sw_vs := sw_vs w; sw_vi := sw_vi w; sw_vw := sw_vw w |}.

Section Ops.
  Variable fl : bool.

  (* ---------------- DbImpl::try_new_with_storage on an existing file: the handles ---------------- *)
  Theorem so_open_spec root d w sp (Q : cres so_db -> spec -> Prop) :
    stored_db_w (hp sp) root d w ->
    (forall h w', stored_db_w (hp sp) root d w' -> so_handles h w' -> sd_foot root w' = sd_foot root w -> Q (CrOk h) sp) ->
    cwp fl (so_open root) sp Q.
  Proof.
    intros H HQ. pose proof H as [Hroot Hu64 Hver Hg Hgi Ha1 Hk1 Ha2 Hk2 Hiv Hii Hix Hvv Hvi Hv Hnd].
    unfold so_open.
    apply cwp_bind. unfold sd_root_load. apply cwp_bind. eapply cwp_value; [exact Hroot|]. cbn [kont].
    apply cr_de_ser; [exact Hu64|]. cbn [kont].
    apply cwp_bind. rewrite <- Hgi. eapply cg_from_storage_spec; [exact Hg|]. intros dg Hg' Hgi'. cbn [kont].
    apply cwp_bind. rewrite <- Hvi. eapply cv_from_storage_spec; [exact Hvv|]. intros vh Hvv' Hvi' Hvl'. cbn [kont cwp].
    pose proof (grep_same_vecs _ _ _ _ _ _ _ Hg Hg' Hgi') as Ev.
    assert (Ef : sd_foot root (sd_with_handles w dg vh) = sd_foot root w).
    { unfold sd_foot, gfoot, foot. cbn [sd_with_handles sw_g sw_gs sw_a1 sw_a2 sw_ih sw_is sw_ie sw_iw sw_vh sw_vs sw_vw].
      rewrite Hgi', Hvi'. pose proof (Ev GfFrom) as E1. pose proof (Ev GfTo) as E2. pose proof (Ev GfFromMeta) as E3. pose proof (Ev GfToMeta) as E4.
      cbn [cg_vec] in E1, E2, E3, E4. rewrite E1, E2, E3, E4. reflexivity. }
    apply (HQ _ (sd_with_handles w dg vh)); [|split; reflexivity|exact Ef].
    constructor; cbn [sd_with_handles sw_root sw_g sw_gs sw_a1 sw_a2 sw_ih sw_is sw_ie sw_iw sw_vh sw_vs sw_vi sw_vw]; auto.
    - congruence.
    - congruence.
    - rewrite Ef. exact Hnd.
  Qed.

  (* ---------------- DbImpl::insert_node ---------------- *)
  Theorem so_insert_node_stored root d w h sp (Q : cres (so_db * Z) -> spec -> Prop) :
    stored_db_w (hp sp) root d w -> so_handles h w -> so_graph_ok (gr d) ->
    (forall h' dg' s' sp',
        stored_db_w (hp sp') root (snd (insert_node_db d)) (sd_with_graph w dg' s') -> so_handles h' (sd_with_graph w dg' s') ->
        sdepth sp' = sdepth sp ->
        frame (hp sp) (hp sp') (sd_foot root w) (sd_foot root (sd_with_graph w dg' s')) ->
        Q (CrOk (h', fst (insert_node_db d))) sp') ->
    cwp fl (so_insert_node h) sp Q.
  Proof.
    intros H [Hh1 Hh2] OK HQ. unfold so_insert_node. apply cwp_bind. rewrite Hh1.
    eapply so_graph_insert_node_spec; [exact (sr_graph _ _ _ _ H)|exact OK|].
    intros dg' s' sp' HG Hi Hd Hf. cbn [kont cwp fst snd].
    rewrite <- (sd_arrays_of (sd_arrays _)) in HG.
    destruct (sd_graph_update _ _ root d w dg' s' _ H Hi HG Hf) as [H' F'].
    unfold insert_node_db in HQ. destruct (insert_node (gr d)) as [i G'] eqn:EI. cbn [fst snd] in *.
    eapply HQ; [|split; [reflexivity|exact Hh2]|exact Hd|exact F'].
    eapply stored_db_w_same; [exact H'| | | |]; cbn [push_undo with_gr gr aliases vals indexes sd_graph_of sd_arrays
      ga_from ga_to ga_from_meta ga_to_meta]; try reflexivity.
    destruct G'; reflexivity.
  Qed.
End Ops.
