(* GraphSim2.v — more generic lemmas on the parts of the simulation relation of GraphSim.v:
   adding / removing nodes and edge records (half, base) and the free-list part (freeS). *)
From Agdb Require Import Bytes Graph GraphArr GraphSim.
From Coq Require Import ZifyBool ZifyNat ZifyN.
Ltac Zify.zify_post_hook ::= Z.div_mod_to_equations.
Open Scope Z_scope.

Section Half2.
  Variables (n : Z) (key : aedge -> Z).
  Implicit Types (A M : Z -> Z) (nodes : list Z) (P : Z -> Prop) (ER E : list aedge) (x : aedge).

  (* fewer records / fewer nodes *)
  Lemma half_shrink A M nodes nodes' P ER ER' E :
    incl nodes' nodes -> incl ER' ER -> incl E ER' ->
    half A M nodes P key ER E -> half A M nodes' P key ER' E.
  Proof. intros Hn Hr He [H1 H2 H3 H4 H5]. constructor; auto. Qed.

  (* a new node with empty lists *)
  Lemma half_add_node A M nodes P ER E s :
    ~ In s nodes -> A s = 0 -> M s = 0 ->
    half A M nodes P key ER E -> (forall x, In x ER -> In (key x) nodes) ->
    half A M (s :: nodes) P key ER E.
  Proof.
    intros Hs HA HM [H1 H2 H3 H4 H5] Hends. constructor; auto.
    - intros m [<-|Hm]; [lia|auto].
    - intros m [<-|Hm] HP; [|auto].
      rewrite adj_notin.
      + cbn [chain length]. split; [assumption|lia].
      + intros x Hx E0. apply Hs. rewrite <- E0. apply Hends. auto.
  Qed.

  (* node s (no edges) becomes the record of the edge x = (s, ..) *)
  Lemma half_node_to_rec A M nodes P ER E x :
    base n (eslot x :: nodes) ER -> In (key x) nodes ->
    half A M (eslot x :: nodes) P key ER E ->
    half (upd A (eslot x) (- key x)) M nodes P key (x :: ER) E.
  Proof.
    intros B Hk [H1 H2 H3 H4 H5].
    pose proof (b_disj _ _ _ B) as Hdisj. pose proof (b_nodes_nodup _ _ _ B) as Hnd.
    apply NoDup_cons_iff in Hnd. destruct Hnd as [Hxn Hnd].
    constructor; auto.
    - intros y Hy. right. auto.
    - intros y [<-|Hy].
      + rewrite upd_same. split; [reflexivity|]. apply (H4 (eslot x)). left; reflexivity.
      + rewrite upd_other; [auto|]. intros E0. apply (Hdisj (eslot x)); [left; reflexivity|].
        rewrite <- E0. apply in_map. assumption.
    - intros m Hm. rewrite upd_other; [apply H4; right; assumption|]. intros ->. contradiction.
    - intros m Hm HP. rewrite upd_other; [apply H5; [right; assumption|assumption]|]. intros ->. contradiction.
  Qed.
End Half2.

(* ---------- base ---------- *)

Lemma base_add_node n nodes ER s :
  base n nodes ER -> 0 < s < n -> ~ In s nodes -> ~ In s (map eslot ER) -> base n (s :: nodes) ER.
Proof.
  intros [H1 H2 H3 H4 H5 H6] Hr Hn He. constructor; auto.
  - constructor; assumption.
  - intros m [<-|Hm]; auto.
  - intros m [<-|Hm]; auto.
  - intros x Hx. destruct (H6 x Hx). split; right; assumption.
Qed.

Lemma base_grow n n' nodes ER : n <= n' -> base n nodes ER -> base n' nodes ER.
Proof.
  intros Hn [H1 H2 H3 H4 H5 H6]. constructor; auto.
  - intros m Hm. specialize (H2 m Hm). lia.
  - intros x Hx. specialize (H4 x Hx). lia.
Qed.

Lemma base_node_to_rec n nodes ER x :
  base n (eslot x :: nodes) ER -> In (esrc x) nodes -> In (etgt x) nodes ->
  (forall y, In y ER -> esrc y <> eslot x /\ etgt y <> eslot x) ->
  base n nodes (x :: ER).
Proof.
  intros [H1 H2 H3 H4 H5 H6] Hs Ht Hiso.
  apply NoDup_cons_iff in H1. destruct H1 as [Hxn Hnd]. constructor; auto.
  - intros m Hm. apply H2. right; assumption.
  - cbn [map]. constructor; [|assumption]. apply H5. left; reflexivity.
  - intros y [<-|Hy]; [apply H2; left; reflexivity|auto].
  - intros m Hm [E0|Hi]; [congruence|]. apply (H5 m); [right; assumption|assumption].
  - intros y [<-|Hy]; [split; assumption|].
    destruct (H6 y Hy) as [[E1|Ha] [E2|Hb]]; destruct (Hiso y Hy); try congruence. split; assumption.
Qed.

Lemma base_free_rec n nodes ER s : base n nodes ER -> base n nodes (remE s ER).
Proof.
  intros [H1 H2 H3 H4 H5 H6]. constructor; auto.
  - rewrite map_eslot_remE. apply NoDup_zrem. assumption.
  - intros x Hx. apply in_remE in Hx. apply H4. tauto.
  - intros m Hm. rewrite map_eslot_remE. intros Hi. apply in_zrem in Hi. apply (H5 m Hm). tauto.
  - intros x Hx. apply in_remE in Hx. apply H6. tauto.
Qed.

Lemma base_free_node n nodes ER m :
  base n nodes ER -> (forall y, In y ER -> esrc y <> m /\ etgt y <> m) -> base n (zrem m nodes) ER.
Proof.
  intros [H1 H2 H3 H4 H5 H6] Hiso. constructor; auto.
  - apply NoDup_zrem. assumption.
  - intros k Hk. apply in_zrem in Hk. apply H2. tauto.
  - intros k Hk. apply in_zrem in Hk. apply H5. tauto.
  - intros y Hy. destruct (H6 y Hy). destruct (Hiso y Hy). split; apply in_zrem; split; auto.
Qed.

(* ---------- freeS ---------- *)

Lemma fhead_neg n fl : (forall s, In s fl -> 0 < s < n) -> fhead fl < 0.
Proof.
  destruct fl as [|x r]; cbn [fhead]; intros H.
  - unfold i64_min. lia.
  - specialize (H x (or_introl eq_refl)). lia.
Qed.

Definition used (nodes : list Z) (ER : list aedge) (j : Z) : Prop := In j nodes \/ In j (map eslot ER).

Lemma freeS_ext n F T FM TM F' T' FM' TM' nodes ER nodes' ER' fl cnt :
  (forall j, used nodes' ER' j <-> used nodes ER j) ->
  (forall j, j = 0 \/ (0 < j < n /\ ~ used nodes ER j) ->
             F' j = F j /\ T' j = T j /\ FM' j = FM j /\ TM' j = TM j) ->
  freeS n F T FM TM nodes ER fl cnt -> freeS n F' T' FM' TM' nodes' ER' fl cnt.
Proof.
  intros Hu Hext [H1 H2 H3 H4 H5 H6 H7 H8 H9].
  destruct (Hext 0 (or_introl eq_refl)) as [E1 [E2 [E3 E4]]].
  assert (Hfree : forall s, In s fl -> 0 < s < n /\ ~ used nodes ER s).
  { intros s Hs. destruct (H7 s Hs) as [Hr [_ [Ha Hb]]]. split; [assumption|]. unfold used; tauto. }
  constructor.
  - congruence.
  - congruence.
  - congruence.
  - congruence.
  - eapply fchain_ext; [|exact H5]. intros y Hy. apply Hext. right. auto.
  - assumption.
  - intros s Hs. destruct (H7 s Hs) as [Hr [Hm [Ha Hb]]]. split; [lia|]. split; [assumption|]. split.
    + intros Hi. apply (proj2 (Hfree s Hs)). apply Hu. left; assumption.
    + intros Hi. apply (proj2 (Hfree s Hs)). apply Hu. right; assumption.
  - intros s Hr Ha Hb.
    assert (Hnu : ~ used nodes ER s).
    { intros Hi. apply Hu in Hi. destruct Hi; contradiction. }
    destruct (Hext s) as [-> [-> [-> ->]]]; [right; split; assumption|].
    apply H8; auto; intros Hi; apply Hnu; [left|right]; assumption.
  - intros Hn s Hr Ha Hb.
    assert (Hnu : ~ used nodes ER s).
    { intros Hi. apply Hu in Hi. destruct Hi; contradiction. }
    apply H9; auto; intros Hi; apply Hnu; [left|right]; assumption.
Qed.

Lemma freeS_cnt n F T FM TM nodes ER fl cnt c :
  freeS n F T FM TM nodes ER fl cnt -> freeS n F T FM (upd TM 0 c) nodes ER fl c.
Proof.
  intros [H1 H2 H3 H4 H5 H6 H7 H8 H9]. constructor; try assumption.
  - apply upd_same.
  - intros s Hr Ha Hb. rewrite upd_other by lia. auto.
Qed.

Lemma freeS_alloc_pop n F T FM TM nodes ER x rest cnt :
  freeS n F T FM TM nodes ER (x :: rest) cnt ->
  freeS n F T (upd (upd FM 0 (FM x)) x 0) TM (x :: nodes) ER rest cnt.
Proof.
  intros [H1 H2 H3 H4 H5 H6 H7 H8 H9].
  destruct (H7 x (or_introl eq_refl)) as [Hxr [Hxm [Hxn Hxe]]].
  cbn [fchain] in H5. destruct H5 as [Hx H5].
  apply NoDup_cons_iff in H6. destruct H6 as [Hxf H6].
  constructor; try assumption.
  - rewrite upd_other by lia. rewrite upd_same. assumption.
  - eapply fchain_ext; [|exact H5]. intros y Hy.
    destruct (H7 y (or_intror Hy)) as [Hyr _].
    assert (y <> x) by (intros ->; contradiction).
    rewrite !upd_other by lia. reflexivity.
  - intros s Hs. destruct (H7 s (or_intror Hs)) as [Hr [Hm [Ha Hb]]]. split; [lia|]. split; [assumption|]. split; [|assumption].
    intros [<-|Hi]; contradiction.
  - intros s Hr Ha Hb.
    assert (s <> x) by (intros ->; apply Ha; left; reflexivity).
    rewrite !upd_other by lia. apply H8; auto. intros Hi. apply Ha. right. assumption.
  - intros Hn s Hr Ha Hb.
    assert (s <> x) by (intros ->; apply Ha; left; reflexivity).
    destruct (H9 Hn s Hr) as [E|Hi]; [intros Hi; apply Ha; right; assumption|assumption|congruence|assumption].
Qed.

Lemma freeS_alloc_grow n F T FM TM nodes ER cnt :
  1 <= n -> freeS n F T FM TM nodes ER [] cnt -> freeS (n + 1) F T FM TM (n :: nodes) ER [] cnt.
Proof.
  intros Hn [H1 H2 H3 H4 H5 H6 H7 H8 H9]. constructor; try assumption.
  - intros s [].
  - intros s Hr Ha Hb. assert (s <> n) by (intros ->; apply Ha; left; reflexivity).
    apply H8; [lia| |assumption]. intros Hi. apply Ha. right. assumption.
  - intros Hn' s Hr Ha Hb. assert (s <> n) by (intros ->; apply Ha; left; reflexivity).
    apply H9; [lia|lia| |assumption]. intros Hi. apply Ha. right. assumption.
Qed.

Lemma freeS_free n F T FM TM nodes ER nodes' ER' fl cnt s :
  freeS n F T FM TM nodes ER fl cnt -> 0 < s < n -> used nodes ER s ->
  (forall j, used nodes' ER' j <-> (used nodes ER j /\ j <> s)) ->
  freeS n (upd F s 0) (upd T s 0) (upd (upd FM s (FM 0)) 0 (- s)) (upd TM s 0) nodes' ER'
        (if - s =? i64_min then [] else s :: fl) cnt.
Proof.
  intros [H1 H2 H3 H4 H5 H6 H7 H8 H9] Hs Hus Hu.
  assert (Hsf : ~ In s fl).
  { intros Hi. destruct (H7 s Hi) as [_ [_ [Ha Hb]]]. destruct Hus; contradiction. }
  assert (Hneg : fhead fl < 0).
  { apply (fhead_neg n). intros y Hy. apply H7. assumption. }
  constructor.
  - rewrite upd_other by lia. assumption.
  - rewrite upd_other by lia. assumption.
  - rewrite upd_other by lia. assumption.
  - rewrite upd_same. destruct (Z.eqb_spec (- s) i64_min) as [E|E]; cbn [fhead]; congruence.
  - destruct (Z.eqb_spec (- s) i64_min) as [E|E]; cbn [fchain]; [exact I|]. split.
    + rewrite upd_other by lia. rewrite upd_same. assumption.
    + eapply fchain_ext; [|exact H5]. intros y Hy. destruct (H7 y Hy) as [Hr _].
      assert (y <> s) by (intros ->; contradiction).
      rewrite !upd_other by lia. reflexivity.
  - destruct (Z.eqb_spec (- s) i64_min); constructor; assumption.
  - intros y Hy.
    assert (Hy' : (y = s /\ - s <> i64_min) \/ In y fl).
    { destruct (Z.eqb_spec (- s) i64_min); [destruct Hy|]. destruct Hy as [<-|Hy]; auto. }
    clear Hy. destruct Hy' as [[-> Hm]|Hy].
    + split; [lia|]. split; [assumption|]. split.
      * intros Hi. assert (Hx : used nodes' ER' s) by (left; assumption). apply Hu in Hx. tauto.
      * intros Hi. assert (Hx : used nodes' ER' s) by (right; assumption). apply Hu in Hx. tauto.
    + destruct (H7 y Hy) as [Hr [Hm [Ha Hb]]]. split; [lia|]. split; [assumption|]. split.
      * intros Hi. assert (Hx : used nodes' ER' y) by (left; assumption). apply Hu in Hx.
        destruct Hx as [[Hx|Hx] _]; contradiction.
      * intros Hi. assert (Hx : used nodes' ER' y) by (right; assumption). apply Hu in Hx.
        destruct Hx as [[Hx|Hx] _]; contradiction.
  - intros j Hr Ha Hb.
    destruct (Z.eq_dec j s) as [->|Hne].
    + rewrite !upd_same. rewrite upd_other by lia. rewrite upd_same. repeat split; auto; lia.
    + rewrite !upd_other by lia.
      apply H8; auto.
      * intros Hi. apply Ha. assert (Hx : used nodes' ER' j) by (apply Hu; split; [left|]; assumption).
        destruct Hx; [assumption|contradiction].
      * intros Hi. apply Hb. assert (Hx : used nodes' ER' j) by (apply Hu; split; [right|]; assumption).
        destruct Hx; [contradiction|assumption].
  - intros Hn j Hr Ha Hb.
    destruct (Z.eqb_spec (- s) i64_min) as [E|E]; [unfold i64_min in E; lia|].
    destruct (Z.eq_dec j s) as [->|Hne]; [left; reflexivity|right].
    apply H9; auto.
    + intros Hi. apply Ha. assert (Hx : used nodes' ER' j) by (apply Hu; split; [left|]; assumption).
      destruct Hx; [assumption|contradiction].
    + intros Hi. apply Hb. assert (Hx : used nodes' ER' j) by (apply Hu; split; [right|]; assumption).
      destruct Hx; [contradiction|assumption].
Qed.
