(* DbValue.v — model of agdb::DbValue: the nine value kinds, equality, the derived
   total order (variant position first, then payload; DbF64 by f64::total_cmp on
   the bit pattern), and the comparison operators used by search conditions
   (agdb/src/db/db_value.rs, db_f64.rs, query/query_condition.rs).
   Definitions only. *)
From Agdb Require Import Bytes.
Open Scope N_scope.

Inductive dbvalue : Type :=
| DBytes (bs : bytes)
| DI64 (z : Z)
| DU64 (n : N)
| DF64 (bits : N)
| DString (bs : bytes)
| DVecI64 (l : list Z)
| DVecU64 (l : list N)
| DVecF64 (l : list N)
| DVecString (l : list bytes).

Definition kv : Type := (dbvalue * dbvalue)%type.

(* ---- comparison helpers ---- *)

Definition cmp_then (c : comparison) (d : comparison) : comparison :=
  match c with Eq => d | _ => c end.

Fixpoint lex_cmp {A} (cmp : A -> A -> comparison) (a b : list A) : comparison :=
  match a, b with
  | [], [] => Eq
  | [], _ :: _ => Lt
  | _ :: _, [] => Gt
  | x :: a', y :: b' => cmp_then (cmp x y) (lex_cmp cmp a' b')
  end.

Definition byte_cmp (a b : byte) : comparison := N.compare (b2n a) (b2n b).
Definition bytes_cmp : bytes -> bytes -> comparison := lex_cmp byte_cmp.

(* f64::total_cmp on bit patterns: sign-magnitude to two's complement key *)
Definition f64_key (bits : N) : Z :=
  if bits <? two63 then Z.of_N bits else (- Z.of_N (bits - two63) - 1)%Z.
Definition f64_cmp (a b : N) : comparison := Z.compare (f64_key a) (f64_key b).

Definition kind (v : dbvalue) : N :=
  match v with
  | DBytes _ => 0 | DI64 _ => 1 | DU64 _ => 2 | DF64 _ => 3 | DString _ => 4
  | DVecI64 _ => 5 | DVecU64 _ => 6 | DVecF64 _ => 7 | DVecString _ => 8
  end.

(* #[derive(Ord)] on the enum *)
Definition dbv_cmp (a b : dbvalue) : comparison :=
  match a, b with
  | DBytes x, DBytes y => bytes_cmp x y
  | DI64 x, DI64 y => Z.compare x y
  | DU64 x, DU64 y => N.compare x y
  | DF64 x, DF64 y => f64_cmp x y
  | DString x, DString y => bytes_cmp x y
  | DVecI64 x, DVecI64 y => lex_cmp Z.compare x y
  | DVecU64 x, DVecU64 y => lex_cmp N.compare x y
  | DVecF64 x, DVecF64 y => lex_cmp f64_cmp x y
  | DVecString x, DVecString y => lex_cmp bytes_cmp x y
  | _, _ => N.compare (kind a) (kind b)
  end.

Definition is_eq (c : comparison) : bool := match c with Eq => true | _ => false end.
Definition is_lt (c : comparison) : bool := match c with Lt => true | _ => false end.
Definition is_gt (c : comparison) : bool := match c with Gt => true | _ => false end.

Definition dbv_eqb (a b : dbvalue) : bool := is_eq (dbv_cmp a b).

Definition same_kind (a b : dbvalue) : bool := kind a =? kind b.

(* ---- slices of lists (contains / starts_with / ends_with) ---- *)

Section ListOps.
  Context {A : Type} (eqb : A -> A -> bool).
  Fixpoint list_eqb (a b : list A) : bool :=
    match a, b with
    | [], [] => true
    | x :: a', y :: b' => eqb x y && list_eqb a' b'
    | _, _ => false
    end.
  Fixpoint mem (x : A) (l : list A) : bool :=
    match l with [] => false | y :: r => eqb y x || mem x r end.
  Fixpoint starts_with (l p : list A) : bool :=
    match p, l with
    | [], _ => true
    | _ :: _, [] => false
    | y :: p', x :: l' => eqb x y && starts_with l' p'
    end.
  Definition ends_with (l p : list A) : bool := starts_with (rev l) (rev p).
  (* substring / sub-slice search *)
  Fixpoint infix_of (p l : list A) : bool :=
    starts_with l p || match l with [] => false | _ :: l' => infix_of p l' end.
End ListOps.

Definition z_eqb := Z.eqb.
Definition n_eqb := N.eqb.
Definition f_eqb (a b : N) : bool := is_eq (f64_cmp a b).
Definition bs_eqb := bytes_eqb.

(* ---- query_condition.rs: Comparison::compare(left) ---- *)

Inductive comparison_op :=
| CEqual | CGreaterThan | CGreaterThanOrEqual | CLessThan | CLessThanOrEqual | CNotEqual
| CContains | CStartsWith | CEndsWith.

Definition contains_cmp (l r : dbvalue) : bool :=
  match l, r with
  | DString a, DString b => infix_of byte_eqb b a
  | DString a, DVecString bs => forallb (fun x => infix_of byte_eqb x a) bs
  | DVecI64 a, DI64 b => mem z_eqb b a
  | DVecI64 a, DVecI64 b => forallb (fun x => mem z_eqb x a) b
  | DVecU64 a, DU64 b => mem n_eqb b a
  | DVecU64 a, DVecU64 b => forallb (fun x => mem n_eqb x a) b
  | DVecF64 a, DF64 b => mem f_eqb b a
  | DVecF64 a, DVecF64 b => forallb (fun x => mem f_eqb x a) b
  | DVecString a, DString b => mem bs_eqb b a
  | DVecString a, DVecString b => forallb (fun x => mem bs_eqb x a) b
  | _, _ => false
  end.

Definition starts_cmp (l r : dbvalue) : bool :=
  match l, r with
  | DString a, DString b => starts_with byte_eqb a b
  | DString a, DVecString bs => starts_with byte_eqb a (concat bs)
  | DVecI64 a, DI64 b => starts_with z_eqb a [b]
  | DVecI64 a, DVecI64 b => starts_with z_eqb a b
  | DVecU64 a, DU64 b => starts_with n_eqb a [b]
  | DVecU64 a, DVecU64 b => starts_with n_eqb a b
  | DVecF64 a, DF64 b => starts_with f_eqb a [b]
  | DVecF64 a, DVecF64 b => starts_with f_eqb a b
  | DVecString a, DString b => match a with x :: _ => bs_eqb x b | [] => false end
  | DVecString a, DVecString b => starts_with bs_eqb a b
  | _, _ => false
  end.

Definition ends_cmp (l r : dbvalue) : bool :=
  match l, r with
  | DString a, DString b => ends_with byte_eqb a b
  | DString a, DVecString bs => ends_with byte_eqb a (concat bs)
  | DVecI64 a, DI64 b => ends_with z_eqb a [b]
  | DVecI64 a, DVecI64 b => ends_with z_eqb a b
  | DVecU64 a, DU64 b => ends_with n_eqb a [b]
  | DVecU64 a, DVecU64 b => ends_with n_eqb a b
  | DVecF64 a, DF64 b => ends_with f_eqb a [b]
  | DVecF64 a, DVecF64 b => ends_with f_eqb a b
  | DVecString a, DString b => match rev a with x :: _ => bs_eqb x b | [] => false end
  | DVecString a, DVecString b => ends_with bs_eqb a b
  | _, _ => false
  end.

(* `strict` = the ordering comparisons hold only between values of the same kind
   (the documented semantics; the code after the fix: commit).  With strict = false
   this is the derived PartialOrd of the pinned code, which orders across kinds. *)
Definition value_compare (strict : bool) (op : comparison_op) (left right : dbvalue) : bool :=
  let ord_ok := negb strict || same_kind left right in
  match op with
  | CEqual => dbv_eqb left right
  | CNotEqual => negb (dbv_eqb left right)
  | CGreaterThan => ord_ok && is_gt (dbv_cmp left right)
  | CGreaterThanOrEqual => ord_ok && negb (is_lt (dbv_cmp left right))
  | CLessThan => ord_ok && is_lt (dbv_cmp left right)
  | CLessThanOrEqual => ord_ok && negb (is_gt (dbv_cmp left right))
  | CContains => contains_cmp left right
  | CStartsWith => starts_cmp left right
  | CEndsWith => ends_cmp left right
  end.
