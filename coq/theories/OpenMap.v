(* OpenMap.v — executable model of agdb's open-addressing (multi) map
   (agdb/src/collections/multi_map.rs: MultiMapImpl / MultiMapIterator, and
   map.rs: MapImpl = MultiMapImpl with insert_or_replace(|_| true)).

   Definitions only.  Every loop of the code that is not a bounded `for` is
   modelled ON FUEL and returns `OutOfFuel` when the fuel is exhausted; the
   theorems of OpenMapProofs.v say that this outcome is unreachable with
   fuel = capacity (probe loops) / capacity + new_capacity + 1 (rehash_values)
   in the repaired revision, and exhibit histories after which the pinned
   revision runs out of every fuel.

   State: three parallel vectors (states, keys, values) in the code = one list
   of slots here, plus `len`.  The hash is a Section variable (the theorems
   hold for every hash function); the minimum capacity (64 in the code) is a
   parameter `mincap`.  Positions, capacities and `len` are `nat` (they index a
   list; u64 overflow of `capacity * 15` needs capacity > 2^60 and is ignored),
   hashes are `N` (u64). *)
From Coq Require Import List NArith Arith Bool.
Import ListNotations.

Inductive outcome (A : Type) : Type :=
| Done (a : A)
| OutOfFuel.
Arguments Done {A} a.
Arguments OutOfFuel {A}.

(* One boolean per repair in fixes/C19-multimap-termination.diff; all false = pinned code. *)
Record om_revision := {
  fix_insert_wrap_guard : bool;  (* insert_or_replace stops probing after a full cycle *)
  fix_rehash_in_place : bool;    (* a full probe cycle reclaims the Deleted slots: rehash_values(cap, cap)
                                    instead of the no-op rehash(cap) *)
  fix_iter_finished : bool       (* MultiMapIterator remembers that it has wrapped around / met an Empty slot *)
}.

Definition om_pinned : om_revision :=
  {| fix_insert_wrap_guard := false; fix_rehash_in_place := false; fix_iter_finished := false |}.
Definition om_fixed : om_revision :=
  {| fix_insert_wrap_guard := true; fix_rehash_in_place := true; fix_iter_finished := true |}.

(* list update; out of range = unchanged *)
Fixpoint upd {A : Type} (i : nat) (x : A) (l : list A) : list A :=
  match l, i with
  | [], _ => []
  | _ :: t, O => x :: t
  | y :: t, S j => y :: upd j x t
  end.

Definition swap_nth {A : Type} (d : A) (i j : nat) (l : list A) : list A :=
  upd j (nth i l d) (upd i (nth j l d) l).

Section OpenMap.
  Variables K V : Type.
  Variable keqb : K -> K -> bool.   (* PartialEq of the key type *)
  Variable veqb : V -> V -> bool.   (* PartialEq of the value type *)
  Variable h : K -> N.              (* StableHash::stable_hash *)
  Variable mincap : nat.            (* 64 in the code *)
  Variable rv : om_revision.

  Inductive slot : Type :=
  | Empty
  | Deleted
  | Valid (k : K) (v : V).

  Record omap := { slots : list slot; len : nat }.

  Definition capacity (m : omap) : nat := length (slots m).
  Definition empty_map : omap := {| slots := []; len := 0 |}.

  Definition is_valid (s : slot) : bool := match s with Valid _ _ => true | _ => false end.
  Definition is_empty (s : slot) : bool := match s with Empty => true | _ => false end.

  Definition max_len (cap : nat) : nat := cap * 15 / 16.
  Definition min_len (cap : nat) : nat := cap * 7 / 16.

  (* hash % capacity *)
  Definition hpos (k : K) (cap : nat) : nat := N.to_nat (N.modulo (h k) (N.of_nat cap)).

  Definition next_pos (cap pos : nat) : nat := if pos =? cap - 1 then 0 else pos + 1.

  (* ---------------- rehash_values ---------------- *)

  (* inner loop of rehash_valid: first position, cyclically from `pos`, whose occupancy bit is clear *)
  Fixpoint rehash_probe (fuel : nat) (occ : list bool) (newcap pos : nat) : option nat :=
    match fuel with
    | O => None
    | S f =>
        if nth pos occ false
        then rehash_probe f occ newcap (if S pos =? newcap then 0 else S pos)
        else Some pos
    end.

  (* while i != current_capacity { rehash_value(state(i), &mut i, ...) } *)
  Fixpoint rehash_loop (fuel cur newcap : nat) (sl : list slot) (occ : list bool) (i : nat)
    : outcome (list slot) :=
    match fuel with
    | O => OutOfFuel
    | S f =>
        if i =? cur then Done sl
        else
          match nth i sl Empty with
          | Empty => rehash_loop f cur newcap sl occ (i + 1)                       (* rehash_empty *)
          | Deleted =>                                                             (* rehash_deleted *)
              rehash_loop f cur newcap (if i <? newcap then upd i Empty sl else sl) occ (i + 1)
          | Valid k _ =>                                                           (* rehash_valid *)
              if (i <? newcap) && nth i occ false
              then rehash_loop f cur newcap sl occ (i + 1)
              else
                match rehash_probe newcap occ newcap (hpos k newcap) with
                | None => OutOfFuel
                | Some pos =>
                    rehash_loop f cur newcap (swap_nth Empty i pos sl) (upd pos true occ)
                                (if i =? pos then i + 1 else i)
                end
          end
    end.

  Definition rehash_fuel (cur newcap : nat) : nat := S (cur + newcap).

  Definition rehash_values (cur newcap : nat) (sl : list slot) : outcome (list slot) :=
    rehash_loop (rehash_fuel cur newcap) cur newcap sl (repeat false newcap) 0.

  (* rehash: grow = resize then rehash_values; shrink = rehash_values then resize; equal = nothing *)
  Definition rehash (m : omap) (cap : nat) : outcome omap :=
    let cur := capacity m in
    let newcap := Nat.max cap mincap in
    match Nat.compare cur newcap with
    | Lt =>
        match rehash_values cur newcap (slots m ++ repeat Empty (newcap - cur)) with
        | Done sl => Done {| slots := sl; len := len m |}
        | OutOfFuel => OutOfFuel
        end
    | Gt =>
        match rehash_values cur newcap (slots m) with
        | Done sl => Done {| slots := firstn newcap sl; len := len m |}
        | OutOfFuel => OutOfFuel
        end
    | Eq => Done m
    end.

  (* the repair: rehash_values(capacity, capacity) *)
  Definition rehash_in_place (m : omap) : outcome omap :=
    match rehash_values (capacity m) (capacity m) (slots m) with
    | Done sl => Done {| slots := sl; len := len m |}
    | OutOfFuel => OutOfFuel
    end.

  (* what `self.rehash(storage, self.capacity())` after a full probe cycle does in each revision *)
  Definition reclaim (m : omap) : outcome omap :=
    if fix_rehash_in_place rv then rehash_in_place m else rehash m (capacity m).

  Definition reserve (m : omap) (cap : nat) : outcome omap :=
    if capacity m <? cap then rehash m cap else Done m.

  (* if self.len() >= self.max_len() { self.rehash(capacity * 2) } *)
  Definition grow_if_full (m : omap) : outcome omap :=
    if max_len (capacity m) <=? len m then rehash m (capacity m * 2) else Done m.

  Definition do_insert (sl : list slot) (n : nat) (pos : nat) (k : K) (v : V) : omap :=
    {| slots := upd pos (Valid k v) sl; len := n + 1 |}.

  (* ---------------- insert (free_index) ---------------- *)

  Fixpoint free_index_loop (fuel : nat) (sl : list slot) (cap pos : nat) : outcome nat :=
    match fuel with
    | O => OutOfFuel
    | S f =>
        match nth pos sl Empty with
        | Valid _ _ => free_index_loop f sl cap (next_pos cap pos)
        | _ => Done pos
        end
    end.

  Definition insert_fuel (fuel : nat -> nat) (m : omap) (k : K) (v : V) : outcome omap :=
    match grow_if_full m with
    | OutOfFuel => OutOfFuel
    | Done m1 =>
        let cap := capacity m1 in
        match free_index_loop (fuel cap) (slots m1) cap (hpos k cap) with
        | OutOfFuel => OutOfFuel
        | Done pos => Done (do_insert (slots m1) (len m1) pos k v)
        end
    end.

  (* ---------------- insert_or_replace ---------------- *)

  Record ior_result := {
    ior_free : option nat;      (* free_pos *)
    ior_ret : option V;         (* replaced value *)
    ior_slots : list slot;
    ior_full_cycle : bool
  }.

  Fixpoint ior_loop (fuel : nat) (sl : list slot) (cap start : nat) (k : K) (pred : V -> bool) (nv : V)
           (pos : nat) (free : option nat) : outcome ior_result :=
    match fuel with
    | O => OutOfFuel
    | S f =>
        let continue (free' : option nat) :=
          let pos' := next_pos cap pos in
          if fix_insert_wrap_guard rv && (pos' =? start)
          then Done {| ior_free := free'; ior_ret := None; ior_slots := sl; ior_full_cycle := true |}
          else ior_loop f sl cap start k pred nv pos' free' in
        match nth pos sl Empty with
        | Empty => Done {| ior_free := Some pos; ior_ret := None; ior_slots := sl; ior_full_cycle := false |}
        | Deleted => continue (match free with None => Some pos | Some _ => free end)
        | Valid k' v' =>
            if keqb k' k && pred v'
            then Done {| ior_free := None; ior_ret := Some v'; ior_slots := upd pos (Valid k' nv) sl;
                         ior_full_cycle := false |}
            else continue free
        end
    end.

  Definition insert_or_replace_fuel (fuel : nat -> nat) (m : omap) (k : K) (pred : V -> bool) (nv : V)
    : outcome (omap * option V) :=
    match grow_if_full m with
    | OutOfFuel => OutOfFuel
    | Done m1 =>
        let cap := capacity m1 in
        let start := hpos k cap in
        match ior_loop (fuel cap) (slots m1) cap start k pred nv start None with
        | OutOfFuel => OutOfFuel
        | Done r =>
            let m2 := match ior_free r with
                      | Some pos => do_insert (ior_slots r) (len m1) pos k nv
                      | None => {| slots := ior_slots r; len := len m1 |}
                      end in
            if ior_full_cycle r && fix_rehash_in_place rv     (* a full cycle needs fix_insert_wrap_guard *)
            then match rehash_in_place m2 with
                 | Done m3 => Done (m3, ior_ret r)
                 | OutOfFuel => OutOfFuel
                 end
            else Done (m2, ior_ret r)
        end
    end.

  (* ---------------- remove_key ---------------- *)

  Fixpoint remove_key_loop (fuel : nat) (sl : list slot) (cap start : nat) (k : K) (pos : nat) (n : nat)
    : outcome (list slot * nat * bool) :=
    match fuel with
    | O => OutOfFuel
    | S f =>
        match nth pos sl Empty with
        | Empty => Done (sl, n, false)
        | s =>
            let '(sl', n') :=
              match s with
              | Valid k' _ => if keqb k' k then (upd pos Deleted sl, n - 1) else (sl, n)
              | _ => (sl, n)
              end in
            let pos' := next_pos cap pos in
            if pos' =? start then Done (sl', n', true)
            else remove_key_loop f sl' cap start k pos' n'
        end
    end.

  Definition shrink_if_sparse (m : omap) : outcome omap :=
    if len m <=? min_len (capacity m) then rehash m (capacity m / 2) else Done m.

  Definition remove_key_fuel (fuel : nat -> nat) (m : omap) (k : K) : outcome omap :=
    let cap := capacity m in
    if cap =? 0 then Done m
    else
      let start := hpos k cap in
      match remove_key_loop (fuel cap) (slots m) cap start k start (len m) with
      | OutOfFuel => OutOfFuel
      | Done (sl, n, full) =>
          let m1 := {| slots := sl; len := len m |} in
          match (if full && (n =? len m) then reclaim m1 else Done m1) with
          | OutOfFuel => OutOfFuel
          | Done m2 =>
              if n =? len m then Done m2
              else shrink_if_sparse {| slots := slots m2; len := n |}
          end
      end.

  (* ---------------- remove_value ---------------- *)

  Fixpoint remove_value_loop (fuel : nat) (sl : list slot) (cap start : nat) (k : K) (v : V) (pos : nat)
    : outcome (option nat * bool) :=
    match fuel with
    | O => OutOfFuel
    | S f =>
        let step :=
          let pos' := next_pos cap pos in
          if pos' =? start then Done (None, true)
          else remove_value_loop f sl cap start k v pos' in
        match nth pos sl Empty with
        | Empty => Done (None, false)
        | Deleted => step
        | Valid k' v' => if keqb k' k && veqb v' v then Done (Some pos, false) else step
        end
    end.

  (* remove_index: drop_value, len - 1, shrink *)
  Definition remove_index (m : omap) (pos : nat) : outcome omap :=
    shrink_if_sparse {| slots := upd pos Deleted (slots m); len := len m - 1 |}.

  Definition remove_value_fuel (fuel : nat -> nat) (m : omap) (k : K) (v : V) : outcome omap :=
    let cap := capacity m in
    if cap =? 0 then Done m
    else
      let start := hpos k cap in
      match remove_value_loop (fuel cap) (slots m) cap start k v start with
      | OutOfFuel => OutOfFuel
      | Done (Some pos, _) => remove_index m pos
      | Done (None, true) => reclaim m
      | Done (None, false) => Done m
      end.

  (* ---------------- lookups: MultiMapIterator ---------------- *)

  (* `value` / `contains` = the first `next()` of iter_key *)
  Fixpoint value_loop (fuel : nat) (sl : list slot) (cap start : nat) (k : K) (pos : nat)
    : outcome (option V) :=
    match fuel with
    | O => OutOfFuel
    | S f =>
        let pos' := next_pos cap pos in
        let step := if start =? pos' then Done None else value_loop f sl cap start k pos' in
        match nth pos sl Empty with
        | Empty => Done None
        | Deleted => step
        | Valid k' v' => if keqb k' k then Done (Some v') else step
        end
    end.

  Definition value_fuel (fuel : nat -> nat) (m : omap) (k : K) : outcome (option V) :=
    let cap := capacity m in
    if cap =? 0 then Done None
    else value_loop (fuel cap) (slots m) cap (hpos k cap) k (hpos k cap).

  (* `values` / `contains_value` (value absent) / `values_count` = repeated `next()` until None, flattened
     into one loop: one unit of fuel per visited slot.  After a value has been returned the pinned iterator
     resumes WITHOUT its wrap check (the check sits after the `return`). *)
  Fixpoint values_loop (fuel : nat) (sl : list slot) (cap start : nat) (k : K) (pos : nat) (acc : list V)
    : outcome (list V) :=
    match fuel with
    | O => OutOfFuel
    | S f =>
        let pos' := next_pos cap pos in
        let wrapped := start =? pos' in
        let step := if wrapped then Done acc else values_loop f sl cap start k pos' acc in
        match nth pos sl Empty with
        | Empty => Done acc
        | Deleted => step
        | Valid k' v' =>
            if keqb k' k
            then if fix_iter_finished rv && wrapped then Done (acc ++ [v'])
                 else values_loop f sl cap start k pos' (acc ++ [v'])
            else step
        end
    end.

  Definition values_fuel (fuel : nat -> nat) (m : omap) (k : K) : outcome (list V) :=
    let cap := capacity m in
    if cap =? 0 then Done []
    else values_loop (fuel cap) (slots m) cap (hpos k cap) k (hpos k cap) [].

  (* MapIterator (iter): `while pos != capacity` — a bounded scan *)
  Definition iter_all (m : omap) : list (K * V) :=
    flat_map (fun s => match s with Valid k v => [(k, v)] | _ => [] end) (slots m).

  (* ---------------- the claimed bounds: fuel = capacity ---------------- *)

  Definition probe_fuel (cap : nat) : nat := cap.

  Definition insert := insert_fuel probe_fuel.
  Definition insert_or_replace := insert_or_replace_fuel probe_fuel.
  Definition remove_key := remove_key_fuel probe_fuel.
  Definition remove_value := remove_value_fuel probe_fuel.
  Definition value := value_fuel probe_fuel.
  Definition values := values_fuel probe_fuel.

  (* ---------------- histories ---------------- *)

  Inductive op : Type :=
  | OInsert (k : K) (v : V)                                  (* MultiMapImpl::insert *)
  | OInsertOrReplace (k : K) (pred : V -> bool) (v : V)      (* MultiMapImpl::insert_or_replace; MapImpl::insert = pred (fun _ => true) *)
  | ORemoveKey (k : K)                                       (* remove_key; MapImpl::remove *)
  | ORemoveValue (k : K) (v : V)
  | OReserve (cap : nat)
  | OValue (k : K)                                           (* value / contains *)
  | OValues (k : K).                                         (* values / iter_key to the end / contains_value / values_count *)

  Definition step_fuel (fuel : nat -> nat) (m : omap) (o : op) : outcome omap :=
    match o with
    | OInsert k v => insert_fuel fuel m k v
    | OInsertOrReplace k p v =>
        match insert_or_replace_fuel fuel m k p v with Done (m', _) => Done m' | OutOfFuel => OutOfFuel end
    | ORemoveKey k => remove_key_fuel fuel m k
    | ORemoveValue k v => remove_value_fuel fuel m k v
    | OReserve c => reserve m c
    | OValue k => match value_fuel fuel m k with Done _ => Done m | OutOfFuel => OutOfFuel end
    | OValues k => match values_fuel fuel m k with Done _ => Done m | OutOfFuel => OutOfFuel end
    end.

  Definition step := step_fuel probe_fuel.

  Fixpoint run_fuel (fuel : nat -> nat) (m : omap) (ops : list op) : outcome omap :=
    match ops with
    | [] => Done m
    | o :: r => match step_fuel fuel m o with Done m' => run_fuel fuel m' r | OutOfFuel => OutOfFuel end
    end.

  Definition run := run_fuel probe_fuel.

  (* the (key, value) pairs stored, in slot order *)
  Definition entries (sl : list slot) : list (K * V) :=
    flat_map (fun s => match s with Valid k v => [(k, v)] | _ => [] end) sl.

End OpenMap.

Arguments Empty {K V}.
Arguments Deleted {K V}.
Arguments Valid {K V} k v.
Arguments slots {K V} _.
Arguments len {K V} _.
Arguments empty_map {K V}.
