(* CollWp.v — proofs (collections, part 1): the calculus in which the programs of
   Collections.v are verified.

   `cwp fl p sp Q`: for EVERY sequence of answers the abstract record map (StorageSpec.v,
   `spec_step`, started in `sp`) accepts for the storage calls of `p`, the program does not
   die (no answer of the wrong shape) and ends with a result r in a specification state sp'
   with Q r sp'.  The only freedom of the storage is the index an insert returns.

   `cwp_sound` (the discharge of every assumption about the storage): on the MODEL of
   storage.rs over a canonical byte store (Storage.v; ops_file, ops_mem), from any state
   related to sp by C04's refinement relation `Rel`, the run of p either dies by a panic of
   the storage (a request beyond 2^64 bytes) or ends in a state related to some sp' with Q.
   It uses nothing but C04's `step_refines`. *)
From Agdb Require Import Bytes BytesProofs Records RecordsProofs RecordsTableProofs Storage StorageSpec StorageLayout StorageWp
  StorageRefine StorageProofs Collections.
From Coq Require Import ZifyBool ZifyNat ZifyN.
Ltac Zify.zify_post_hook ::= Z.div_mod_to_equations.
Open Scope N_scope.
Arguments N.add : simpl never.
Arguments N.mul : simpl never.
Arguments N.sub : simpl never.
Arguments N.of_nat : simpl never.
Arguments N.to_nat : simpl never.
Arguments N.eqb : simpl never.
Arguments N.ltb : simpl never.
Arguments N.leb : simpl never.
Arguments N.div : simpl never.

(* the one thing a real storage guarantees beyond the abstract map: indexes are u64 values *)
Definition obs_ok (o : sop) (v : obs) : Prop :=
  match o, v with
  | SInsert _, ObNum i => i < two64
  | _, _ => True
  end.

Fixpoint cwp {A} (fl : bool) (p : cprog A) (sp : spec) (Q : cres A -> spec -> Prop) : Prop :=
  match p with
  | CRet a => Q (CrOk a) sp
  | CErr e => Q (CrErr e) sp
  | CDead => False
  | CDo o k => forall v sp', spec_step fl sp o v = Some sp' -> obs_ok o v -> cwp fl (k v) sp' Q
  end.

Section Wp.
  Variable fl : bool.

  Lemma cwp_mono {A} (p : cprog A) : forall sp (Q Q' : cres A -> spec -> Prop),
    (forall r sp', Q r sp' -> Q' r sp') -> cwp fl p sp Q -> cwp fl p sp Q'.
  Proof.
    induction p as [a|e| |o k IH]; intros sp Q Q' HQ H; cbn [cwp] in *; [apply HQ; exact H|apply HQ; exact H|exact H|].
    intros v sp' Hs Hok. eapply IH; [exact HQ|]. apply H; assumption.
  Qed.

  (* the continuation of a bind *)
  Definition kont {A B} (f : A -> cprog B) (Q : cres B -> spec -> Prop) : cres A -> spec -> Prop :=
    fun r sp => match r with
                | CrOk a => cwp fl (f a) sp Q
                | CrErr e => Q (CrErr e) sp
                | CrDead => False
                end.

  Lemma cwp_bind {A B} (p : cprog A) (f : A -> cprog B) : forall sp Q,
    cwp fl p sp (kont f Q) -> cwp fl (cbind p f) sp Q.
  Proof.
    induction p as [a|e| |o k IH]; intros sp Q H; cbn [cbind cwp kont] in *; [exact H|exact H|exact H|].
    intros v sp' Hs Hok. apply IH. apply H; assumption.
  Qed.

  Lemma cwp_bind_inv {A B} (p : cprog A) (f : A -> cprog B) : forall sp Q,
    cwp fl (cbind p f) sp Q -> cwp fl p sp (kont f Q).
  Proof.
    induction p as [a|e| |o k IH]; intros sp Q H; cbn [cbind cwp kont] in *; [exact H|exact H|exact H|].
    intros v sp' Hs Hok. apply IH. apply H; assumption.
  Qed.

  Lemma cwp_try {A} (p : cprog A) : forall sp (Q : cres (option A) -> spec -> Prop),
    cwp fl p sp (fun r sp' => match r with
                              | CrOk a => Q (CrOk (Some a)) sp'
                              | CrErr _ => Q (CrOk None) sp'
                              | CrDead => False
                              end) ->
    cwp fl (cp_try p) sp Q.
  Proof.
    induction p as [a|e| |o k IH]; intros sp Q H; cbn [cp_try cwp] in *; [exact H|exact H|exact H|].
    intros v sp' Hs Hok. apply IH. apply H; assumption.
  Qed.

  Lemma cwp_catch {A} (p : cprog A) : forall sp (Q : cres (sum A cv_err) -> spec -> Prop),
    cwp fl p sp (fun r sp' => match r with
                              | CrOk a => Q (CrOk (Datatypes.inl a)) sp'
                              | CrErr e => Q (CrOk (Datatypes.inr e)) sp'
                              | CrDead => False
                              end) ->
    cwp fl (cp_catch p) sp Q.
  Proof.
    induction p as [a|e| |o k IH]; intros sp Q H; cbn [cp_catch cwp] in *; [exact H|exact H|exact H|].
    intros v sp' Hs Hok. apply IH. apply H; assumption.
  Qed.

  (* ---------------- the storage calls ---------------- *)
  (* every rule hands the continuation a state of which only the map and the depth are known *)

  Lemma sm_mutate sp m : sm (mutate sp m) = m. Proof. reflexivity. Qed.
  Lemma sdepth_mutate sp m : sdepth (mutate sp m) = sdepth sp. Proof. reflexivity. Qed.

  Ltac inv_guard H :=
    unfold guard in H;
    match type of H with
    | (if ?b then _ else _) = Some _ => let E := fresh "EG" in destruct b eqn:E; [injection H as <-|discriminate H]
    end.

  Lemma cwp_insert bs sp (Q : cres N -> spec -> Prop) :
    (forall i sp', i <> 0 -> i < two64 -> m_get (sm sp) i = None -> sm sp' = m_put (sm sp) i bs -> sdepth sp' = sdepth sp ->
       Q (CrOk i) sp') ->
    cwp fl (cp_insert bs) sp Q.
  Proof.
    intros HQ. cbn [cp_insert cp_num cwp]. intros v sp' H Hok. cbn [spec_step] in H.
    destruct v; try discriminate H.
    destruct (N.eqb_spec n 0) as [->|Hn]; cbn [negb] in H; [discriminate|].
    destruct (m_get (sm sp) n) eqn:Hg; [discriminate|]. injection H as <-. cbn [cwp].
    apply HQ; auto.
  Qed.

  Lemma cwp_insert_at i off bs sp x (Q : cres unit -> spec -> Prop) :
    m_get (sm sp) i = Some x ->
    (forall sp', sm sp' = m_put (sm sp) i (v_insert_at x off bs) -> sdepth sp' = sdepth sp -> Q (CrOk tt) sp') ->
    cwp fl (cp_insert_at i off bs) sp Q.
  Proof.
    intros Hg HQ. cbn [cp_insert_at cp_unit cwp]. intros v sp' H Hok. cbn [spec_step] in H. rewrite Hg in H.
    inv_guard H. destruct v; try discriminate. cbn [cwp]. apply HQ; reflexivity.
  Qed.

  Lemma cwp_resize_value i n sp x (Q : cres unit -> spec -> Prop) :
    m_get (sm sp) i = Some x ->
    (forall sp', sm sp' = m_put (sm sp) i (v_resize x n) -> sdepth sp' = sdepth sp -> Q (CrOk tt) sp') ->
    cwp fl (cp_resize_value i n) sp Q.
  Proof.
    intros Hg HQ. cbn [cp_resize_value cp_unit cwp]. intros v sp' H Hok. cbn [spec_step] in H. rewrite Hg in H.
    inv_guard H. destruct v; try discriminate. cbn [cwp]. apply HQ; reflexivity.
  Qed.

  Lemma cwp_move_at i from to n sp x (Q : cres unit -> spec -> Prop) :
    m_get (sm sp) i = Some x -> from + n <= lenN x ->
    (forall sp', sm sp' = m_put (sm sp) i (v_move x from to n) -> sdepth sp' = sdepth sp -> Q (CrOk tt) sp') ->
    cwp fl (cp_move_at i from to n) sp Q.
  Proof.
    intros Hg Hb HQ. cbn [cp_move_at cp_unit cwp]. intros v sp' H Hok. cbn [spec_step] in H. rewrite Hg in H.
    destruct (N.ltb_spec (lenN x) from); [lia|]. destruct (N.ltb_spec (lenN x) (from + n)); [lia|]. cbn [orb] in H.
    inv_guard H. destruct v; try discriminate. cbn [cwp]. apply HQ; reflexivity.
  Qed.

  Lemma cwp_remove i sp x (Q : cres unit -> spec -> Prop) :
    m_get (sm sp) i = Some x ->
    (forall sp', sm sp' = m_del (sm sp) i -> sdepth sp' = sdepth sp -> Q (CrOk tt) sp') ->
    cwp fl (cp_remove i) sp Q.
  Proof.
    intros Hg HQ. cbn [cp_remove cp_unit cwp]. intros v sp' H Hok. cbn [spec_step] in H. rewrite Hg in H.
    inv_guard H. destruct v; try discriminate. cbn [cwp]. apply HQ; reflexivity.
  Qed.

  Lemma cwp_value i sp x (Q : cres bytes -> spec -> Prop) :
    m_get (sm sp) i = Some x -> Q (CrOk x) sp -> cwp fl (cp_value i) sp Q.
  Proof.
    intros Hg HQ. cbn [cp_value cp_bytes cwp]. intros v sp' H Hok. cbn [spec_step] in H. rewrite Hg in H.
    inv_guard H. destruct v; try discriminate. cbn [is_bytes] in *. apply bytes_eqb_eq in EG. subst. exact HQ.
  Qed.

  Lemma cwp_value_missing i sp (Q : cres bytes -> spec -> Prop) :
    m_get (sm sp) i = None -> Q (CrErr (CvStorage SeNotFound)) sp -> cwp fl (cp_value i) sp Q.
  Proof.
    intros Hg HQ. cbn [cp_value cp_bytes cwp]. intros v sp' H Hok. cbn [spec_step] in H. rewrite Hg in H.
    inv_guard H. destruct v; try discriminate. destruct e; try discriminate. exact HQ.
  Qed.

  Lemma cwp_value_at_size i off n sp x (Q : cres bytes -> spec -> Prop) :
    m_get (sm sp) i = Some x -> off + n <= lenN x ->
    Q (CrOk (bs_read x (N.to_nat off) (N.to_nat n))) sp -> cwp fl (cp_value_at_size i off n) sp Q.
  Proof.
    intros Hg Hb HQ. cbn [cp_value_at_size cp_bytes cwp]. intros v sp' H Hok. cbn [spec_step] in H. rewrite Hg in H.
    destruct (N.ltb_spec (lenN x) off); [lia|]. destruct (N.ltb_spec (lenN x) (off + n)); [lia|]. cbn [orb] in H.
    inv_guard H. destruct v; try discriminate. cbn [is_bytes] in *. apply bytes_eqb_eq in EG. subst. exact HQ.
  Qed.

  Lemma cwp_value_size i sp x (Q : cres N -> spec -> Prop) :
    m_get (sm sp) i = Some x -> Q (CrOk (lenN x)) sp -> cwp fl (cp_value_size i) sp Q.
  Proof.
    intros Hg HQ. cbn [cp_value_size cp_num cwp]. intros v sp' H Hok. cbn [spec_step] in H. rewrite Hg in H.
    inv_guard H. destruct v; try discriminate. cbn [is_num] in *. apply N.eqb_eq in EG. subst. exact HQ.
  Qed.

  Lemma cwp_transaction sp (Q : cres N -> spec -> Prop) :
    (forall sp', sm sp' = sm sp -> sdepth sp' = sdepth sp + 1 -> Q (CrOk (sdepth sp + 1)) sp') ->
    cwp fl cp_transaction sp Q.
  Proof.
    intros HQ. cbn [cp_transaction cp_num cwp]. intros v sp' H Hok. cbn [spec_step] in H.
    inv_guard H. destruct v; try discriminate. cbn [is_num] in *. apply N.eqb_eq in EG. subst. apply HQ; reflexivity.
  Qed.

  Lemma cwp_commit id sp (Q : cres unit -> spec -> Prop) :
    sdepth sp = id -> id <> 0 ->
    (forall sp', sm sp' = sm sp -> sdepth sp' = id - 1 -> Q (CrOk tt) sp') ->
    cwp fl (cp_commit id) sp Q.
  Proof.
    intros Hd Hn HQ. cbn [cp_commit cp_unit cwp]. intros v sp' H Hok. cbn [spec_step] in H. rewrite Hd, N.eqb_refl in H.
    cbn [negb] in H. destruct (N.eqb_spec id 0); [contradiction|].
    inv_guard H. destruct v; try discriminate. cbn [cwp]. apply HQ; reflexivity.
  Qed.

  (* the maintenance operations: with no transaction open they change neither the map nor the depth *)
  Lemma cwp_maint o sp (Q : cres unit -> spec -> Prop) :
    cv_is_maint o = true -> sdepth sp = 0 ->
    (forall sp', sm sp' = sm sp -> sdepth sp' = 0 -> Q (CrOk tt) sp') ->
    cwp fl (cp_unit o) sp Q.
  Proof.
    intros Hm Hd HQ. cbn [cp_unit cwp]. intros v sp' H Hok.
    destruct o; try discriminate Hm; cbn [spec_step] in H.
    - inv_guard H. destruct v; try discriminate. cbn [cwp]. apply HQ; [reflexivity|exact Hd].
    - rewrite Hd in H. cbn [N.eqb negb andb] in H. rewrite andb_false_r in H.
      inv_guard H. destruct v; try discriminate. cbn [cwp]. apply HQ; reflexivity.
    - inv_guard H. destruct v; try discriminate. cbn [cwp]. apply HQ; reflexivity.
  Qed.

  Lemma cwp_de64 bs sp (Q : cres N -> spec -> Prop) :
    8 <= lenN bs -> Q (CrOk (de (firstn 8 bs))) sp -> cwp fl (cp_de64 bs) sp Q.
  Proof. intros Hl HQ. unfold cp_de64. destruct (N.ltb_spec (lenN bs) 8); [lia|]. exact HQ. Qed.
End Wp.

(* ---------------- soundness on the storage model of C04 ---------------- *)
Section Sound.
  Variable ops : store_ops cdata.
  Variable fl : bool.
  Hypothesis K : kind ops fl.

  (* every live index of a storage state is a u64 *)
  Lemma Rel_index_bound s sp j v : Rel s sp -> m_get (sm sp) j = Some v -> j < two64.
  Proof.
    intros ((rg & TL & (A0 & Ag)) & _) Hg.
    assert (Hj : j <> 0) by (intros ->; congruence).
    rewrite (Ag j Hj) in Hg. apply get_In in Hg.
    destruct (In_layout 24 rg j v Hg) as (q & Hq).
    destruct (tiles_elim _ _ TL) as (_ & _ & (TR & _) & (TW & _) & _).
    apply (TR q j (lenN v) Hj) in Hq. apply live_at_lt in Hq. destruct TW as (Hlen & _). lia.
  Qed.

  Theorem cwp_sound {A} (p : cprog A) : forall s sp (Q : cres A -> spec -> Prop),
    Rel s sp -> cwp fl p sp Q ->
    snd (cp_run (st_step cdata ops) p s) = CrDead \/
    exists sp', Rel (fst (cp_run (st_step cdata ops) p s)) sp' /\ Q (snd (cp_run (st_step cdata ops) p s)) sp'.
  Proof.
    induction p as [a|e| |o k IH]; intros s sp Q RL H; cbn [cp_run cwp] in *.
    - right. exists sp. auto.
    - right. exists sp. auto.
    - destruct H.
    - destruct (st_step cdata ops s o) as [s' v] eqn:Es.
      pose proof (step_refines ops fl K s sp o RL) as SR. rewrite Es in SR. cbn [fst snd] in SR.
      destruct SR as [->|(sp' & Hs & RL')]; [left; reflexivity|].
      destruct (spec_no_panic fl sp o) as [NP NF].
      assert (Hok : obs_ok o v).
      { destruct o; try exact I. destruct v; try exact I. cbn [obs_ok]. cbn [spec_step] in Hs.
        destruct (negb (n =? 0)); [|discriminate]. destruct (m_get (sm sp) n); [discriminate|]. injection Hs as <-.
        apply (Rel_index_bound _ _ n bs RL'). cbn [sm mutate]. rewrite m_get_put, N.eqb_refl. reflexivity. }
      destruct v; try congruence; apply (IH _ s' sp' Q RL'); apply H; assumption.
  Qed.

  (* a run that does not die leaves a storage that still refines an abstract map: the next program can start *)
  Corollary cwp_sound_ok {A} (p : cprog A) s sp (Q : cres A -> spec -> Prop) s' r :
    Rel s sp -> cwp fl p sp Q -> cp_run (st_step cdata ops) p s = (s', r) -> r <> CrDead ->
    exists sp', Rel s' sp' /\ Q r sp'.
  Proof.
    intros RL H E ND. destruct (cwp_sound p s sp Q RL H) as [D|X]; rewrite E in *; cbn [fst snd] in *; [contradiction|exact X].
  Qed.
End Sound.
