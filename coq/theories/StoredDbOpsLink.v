(* StoredDbOpsLink.v — proofs (stored database, part 25): the LINK between the storage programs so_q_* of StoredDbOps.v and
   the validated query semantics of Queries.v.  For the query shapes the correspondence run executes,
       InsertNodes 1 (Single l) [] (Ids [])                         insert().nodes().values([l])        (count 1, no alias)
       InsertValues (Ids [QId id]) (Single l)                       insert().values([l]).ids(id)        (existing element)
       InsertEdges (Ids [QId f]) (Ids [QId t]) (Single []) false (Ids [])   insert().edges().from(f).to(t)   (existing nodes)
       Remove (Ids [QId id])                                        remove().ids(id)   (an edge / a node without edges, alias)
   `Queries.exec_mut_step` computes exactly the composition of DbModel functions that the so_q_* theorems mention, and
   `Queries.exec` (one query = one transaction: the undo stack is cleared by the commit) returns its `commit`; stored_db
   does not look at the undo stack, so the programs end in a store holding `fst (exec rv d q)` itself, and what they
   return is the id / count of `snd (exec rv d q)`.  The revision is irrelevant for these shapes (stated for every rv). *)
From Coq Require Import Permutation.
From Agdb Require Import Bytes BytesProofs Utf8 Codec DbValue ValueIndex Graph DbModel Search Queries Revisions Records RecordsProofs
  Storage StorageSpec
  StorageLayout StorageWp StorageRefine StorageProofs Collections CollValues CollWp CollBytes CollVecBase CollVecOps CollVec CollVec2
  CollElems CollSep CollMap CollGraph CollValuesProofs StoredDb StoredDbRep StoredDbLoad StoredDbProofs StoredDbFrame StoredDbOps
  StoredDbOpsGraph StoredDbOpsGraph2 StoredDbOpsGraph3 StoredDbOpsGraph4 StoredDbOpsDb StoredDbOpsKv StoredDbOpsKv2 StoredDbOpsKv3
  StoredDbOpsKv4 StoredDbOpsDb2 StoredDbOpsDb3 StoredDbOpsQuery StoredDbOpsRemove.
From Coq Require Import ZifyBool ZifyNat ZifyN.
Ltac Zify.zify_post_hook ::= Z.div_mod_to_equations.
Open Scope N_scope.
Arguments N.add : simpl never.
Arguments N.mul : simpl never.
Arguments N.sub : simpl never.
Arguments N.of_nat : simpl never.
Arguments N.to_nat : simpl never.
Arguments N.eqb : simpl never.
Arguments N.ltb : simpl never.
Arguments N.leb : simpl never.
Arguments N.div : simpl never.
Arguments StOk {A} d a.
Arguments StErr {A} d e.
Arguments StPanic {A} d.

(* the four query shapes *)
Definition lq_insert_node (l : list kv) : query := InsertNodes 1 (Single l) [] (Ids []).
Definition lq_insert_values (id : Z) (l : list kv) : query := InsertValues (Ids [QId id]) (Single l).
Definition lq_insert_edge (f t : Z) : query := InsertEdges (Ids [QId f]) (Ids [QId t]) (Single []) false (Ids []).
Definition lq_remove (id : Z) : query := Remove (Ids [QId id]).

(* what a query result says: the result count and the ids of its elements *)
Definition qres_ids (r : qres) : option (Z * list Z) :=
  match r with QOk n els => Some (n, map e_id els) | _ => None end.

(* one successful mutating query = its step, committed *)
Lemma exec_of_step rv d q d1 n els :
  is_mutating q = true -> exec_mut_step rv d q = StOk d1 (n, els) -> Queries.exec rv d q = (DbModel.commit d1, QOk n els).
Proof. intros M E. unfold Queries.exec, exec_in_txn. rewrite M, E. reflexivity. Qed.

(* ---------------- the steps ---------------- *)
Lemma step_insert_node rv d l :
  let id := fst (insert_node_db d) in
  let d1 := mq_insert_key_values (reserve_kv (snd (insert_node_db d)) id) id l in
  exec_mut_step rv d (lq_insert_node l) = StOk d1 (1%Z, [elem d1 id []]).
Proof.
  cbn zeta. unfold lq_insert_node, exec_mut_step, insert_nodes.
  cbn [lenZ length Z.of_nat Z.max Z.compare Pos.compare existsb andb resolve_ids resolve_all Nat.ltb Nat.leb Nat.max Z.to_nat
       Pos.to_nat Pos.iter_op Init.Nat.add repeat Nat.eqb negb seq combine fold_left nth_error].
  rewrite Bool.andb_false_r. change (Pos.to_nat 1) with 1%nat.
  cbn [repeat length seq combine fold_left nth_error Nat.ltb Nat.leb].
  destruct (insert_node_db d) as [id a1]. cbn [fst snd rev app]. reflexivity.
Qed.

Lemma step_insert_values rv d id l :
  graph_index (gr d) id = true ->
  exec_mut_step rv d (lq_insert_values id l) =
  StOk (mq_insert_or_replace_key_values (reserve_kv d id) id l) (lenZ l, []).
Proof.
  intros G. unfold lq_insert_values, exec_mut_step, insert_values. cbn [st_fold]. unfold insert_values_q, db_id. rewrite G.
  cbn [insert_values_id fst snd Z.add]. reflexivity.
Qed.

Lemma step_insert_edge rv d f t e d1 :
  graph_index (gr d) f = true -> graph_index (gr d) t = true -> insert_edge_db d f t = DbModel.ROk (e, d1) ->
  exec_mut_step rv d (lq_insert_edge f t) = StOk (reserve_kv d1 e) (1%Z, [elem (reserve_kv d1 e) e []]).
Proof.
  intros Gf Gt E. unfold lq_insert_edge, exec_mut_step, insert_edges.
  cbn [resolve_ids resolve_all length Nat.eqb negb edge_db_ids]. unfold db_id. rewrite Gf, Gt.
  cbn [orb length Nat.eqb negb combine edge_values Nat.max repeat]. unfold insert_edge_list. cbn [st_fold]. rewrite E.
  cbn [st_fold rev app ok_elements lenZ length Z.of_nat map Pos.of_succ_nat insert_kvs_new fold_left]. reflexivity.
Qed.

Lemma step_remove_edge rv d e G' :
  (e < 0)%Z -> is_edge (gr d) e = true -> Graph.remove_edge (gr d) e = Some G' ->
  exec_mut_step rv d (lq_remove e) = StOk (remove_all_values (fst (remove_edge_db d e)) e) (1%Z, []).
Proof.
  intros He Ie EG. unfold lq_remove, exec_mut_step, remove_query. cbn [st_fold remove_q]. unfold remove_id, graph_index.
  destruct (Z.ltb_spec e 0) as [_|X]; [|lia]. rewrite Ie. destruct (Z.ltb_spec 0 e) as [X|_]; [lia|].
  unfold remove_edge_db. rewrite EG. cbn [fst]. reflexivity.
Qed.

Lemma step_remove_isolated_node rv d n :
  (0 < n)%Z -> is_node (gr d) n = true -> imap_key (aliases d) n = None -> snd (remove_node_db d n None) = None ->
  exec_mut_step rv d (lq_remove n) = StOk (remove_all_values (fst (remove_node_db d n None)) n) (1%Z, []).
Proof.
  intros Hn Nn Al Er. unfold lq_remove, exec_mut_step, remove_query. cbn [st_fold remove_q]. unfold remove_id, graph_index.
  destruct (Z.ltb_spec n 0) as [X|_]; [lia|]. destruct (Z.ltb_spec 0 n) as [_|X]; [|lia]. rewrite Nn, Al.
  destruct (remove_node_db d n None) as [d1 [k|]]; cbn [fst snd] in *; [discriminate|]. reflexivity.
Qed.

Lemma step_shapes rv d :
    (forall l, let id := fst (insert_node_db d) in
               let d1 := mq_insert_key_values (reserve_kv (snd (insert_node_db d)) id) id l in
               exec_mut_step rv d (lq_insert_node l) = StOk d1 (1%Z, [elem d1 id []])) /\
    (forall id l, graph_index (gr d) id = true ->
               exec_mut_step rv d (lq_insert_values id l) =
               StOk (mq_insert_or_replace_key_values (reserve_kv d id) id l) (lenZ l, [])) /\
    (forall f t e d1, graph_index (gr d) f = true -> graph_index (gr d) t = true ->
               insert_edge_db d f t = DbModel.ROk (e, d1) ->
               exec_mut_step rv d (lq_insert_edge f t) = StOk (reserve_kv d1 e) (1%Z, [elem (reserve_kv d1 e) e []])) /\
    (forall e G', (e < 0)%Z -> is_edge (gr d) e = true -> Graph.remove_edge (gr d) e = Some G' ->
               exec_mut_step rv d (lq_remove e) = StOk (remove_all_values (fst (remove_edge_db d e)) e) (1%Z, [])) /\
    (forall n, (0 < n)%Z -> is_node (gr d) n = true -> imap_key (aliases d) n = None ->
               snd (remove_node_db d n None) = None ->
               exec_mut_step rv d (lq_remove n) = StOk (remove_all_values (fst (remove_node_db d n None)) n) (1%Z, [])).
Proof.
  split; [intros l; apply step_insert_node|]. split; [intros id l; apply step_insert_values|].
  split; [intros f t e d1; apply step_insert_edge|]. split; [intros e G'; apply step_remove_edge|].
  intros n; apply step_remove_isolated_node.
Qed.

(* what the store holds after the committed query, and what the query answers *)
Lemma link_post rv d q d1 n els :
  is_mutating q = true -> exec_mut_step rv d q = StOk d1 (n, els) ->
  qres_ids (snd (Queries.exec rv d q)) = Some (n, map e_id els) /\
  forall g root w, stored_db_w g root d1 w -> stored_db_w g root (fst (Queries.exec rv d q)) w.
Proof.
  intros M E. rewrite (exec_of_step rv d q d1 n els M E). cbn [fst snd qres_ids]. split; [reflexivity|].
  intros g root w H. eapply stored_db_w_same; [exact H| | | |]; reflexivity.
Qed.

(* the post-condition of the linked theorems: the program returns `ret`, the query answers (n, ids), and the store holds the
   database the query returns *)
Definition so_xpost {A} (rv : revision) (root : N) (w : sd_wit) (sp : spec) (d : db) (q : query) (n : Z) (ids : list Z)
  (ret : so_db -> A) (r : cres A) (sp' : spec) : Prop :=
  exists h' w', r = CrOk (ret h') /\ qres_ids (snd (Queries.exec rv d q)) = Some (n, ids) /\
                stored_db_w (hp sp') root (fst (Queries.exec rv d q)) w' /\ so_handles h' w' /\ sdepth sp' = sdepth sp /\
                frame (hp sp) (hp sp') (sd_foot root w) (sd_foot root w').

Section Link.
  Variable fl : bool.
  Variable rv : revision.

  (* insert edges from f to t (no values): insert_edge, reserve_key_value_capacity(e, 0) *)
  Theorem so_q_insert_edge_stored root d w h f t sp :
    stored_db_w (hp sp) root d w -> so_handles h w -> so_graph_ok (gr d) ->
    (insert_edge (gr d) f t <> None -> so_edge_ok (gr d) f t) ->
    (forall e d1, insert_edge_db d f t = DbModel.ROk (e, d1) -> so_index_ok (cg_as_u64 e)) ->
    cwp fl (so_q_insert_edge h f t) sp
        (fun r sp' =>
           match insert_edge_db d f t with
           | DbModel.ROk (e, d1) =>
             exists h' w', r = CrOk (h', Some e) /\ stored_db_w (hp sp') root (reserve_kv d1 e) w' /\ so_handles h' w' /\
                           sdepth sp' = sdepth sp /\ frame (hp sp) (hp sp') (sd_foot root w) (sd_foot root w')
           | DbModel.RErr _ =>
             r = CrOk (h, None) /\ stored_db_w (hp sp') root d w /\ sdepth sp' = sdepth sp /\
             frame (hp sp) (hp sp') (sd_foot root w) (sd_foot root w)
           end).
  Proof.
    intros H Hh OK Hedge Hix. unfold so_q_insert_edge.
    apply cwp_bind. apply hwp_transaction. intros sp0 Hm0 Hd0. cbn [kont].
    apply cwp_bind. eapply so_insert_edge_stored; [eapply stored_db_w_heq; [exact Hm0|exact H]|exact Hh|exact OK|exact Hedge|].
    destruct (insert_edge_db d f t) as [[e d1]|k] eqn:E.
    - intros h1 dg1 s1 sp1 H1 Hh1 D1 F1. cbn [kont fst snd].
      apply cwp_bind. eapply so_reserve_key_value_capacity_stored; [exact H1|exact Hh1|eapply Hix; reflexivity|].
      intros h2 vh2 vs2 vi2 vw2 sp2 H2 Hh2 D2 F2. cbn [kont].
      apply cwp_bind. apply hwp_commit; [lia|lia|]. intros sp4 Hm4 Hd4. cbn [kont cwp].
      eexists _, _. split; [reflexivity|]. split; [eapply stored_db_w_heq; [exact Hm4|exact H2]|]. split; [exact Hh2|]. split; [lia|].
      eapply frame_trans; [apply frame_refl; exact Hm0|]. eapply frame_trans; [exact F1|]. eapply frame_trans; [exact F2|].
      apply frame_refl; exact Hm4.
    - cbn [kont fst snd].
      apply cwp_bind. apply hwp_commit; [lia|lia|]. intros sp4 Hm4 Hd4. cbn [kont cwp].
      split; [reflexivity|]. split; [eapply stored_db_w_heq; [exact Hm4|]; eapply stored_db_w_heq; [exact Hm0|exact H]|]. split; [lia|].
      eapply frame_trans; [apply frame_refl; exact Hm0|apply frame_refl; exact Hm4].
  Qed.

  (* ---------------- the programs against Queries.exec ---------------- *)
  Theorem so_exec_insert_node_stored root d w h l sp :
    stored_db_w (hp sp) root d w -> so_handles h w -> so_graph_ok (gr d) ->
    let id := fst (insert_node_db d) in
    so_index_ok (cg_as_u64 id) -> so_kvs_ok (reserve_kv (snd (insert_node_db d)) id) id l ->
    cwp fl (so_q_insert_node h l) sp (so_xpost rv root w sp d (lq_insert_node l) 1%Z [id] (fun h' => (h', id))).
  Proof.
    intros H Hh OK id Hix Hkv.
    eapply cwp_mono; [|eapply so_q_insert_node_stored; [exact H|exact Hh|exact OK|exact Hix|exact Hkv]].
    intros r sp' (h' & w' & -> & H' & Hh' & D' & F').
    destruct (link_post rv d (lq_insert_node l) _ _ _ eq_refl (step_insert_node rv d l)) as [R S].
    exists h', w'. split; [reflexivity|]. split; [exact R|]. split; [apply S; exact H'|]. auto.
  Qed.

  Theorem so_exec_insert_values_stored root d w h id l sp :
    stored_db_w (hp sp) root d w -> so_handles h w -> graph_index (gr d) id = true ->
    so_index_ok (cg_as_u64 id) -> so_iors_ok (reserve_kv d id) id l ->
    cwp fl (so_q_insert_values h id l) sp (so_xpost rv root w sp d (lq_insert_values id l) (lenZ l) [] (fun h' => h')).
  Proof.
    intros H Hh G Hix Hkv.
    eapply cwp_mono; [|eapply so_q_insert_values_stored; [exact H|exact Hh|exact Hix|exact Hkv]].
    intros r sp' (h' & w' & -> & H' & Hh' & D' & F').
    destruct (link_post rv d (lq_insert_values id l) _ _ _ eq_refl (step_insert_values rv d id l G)) as [R S].
    exists h', w'. split; [reflexivity|]. split; [exact R|]. split; [apply S; exact H'|]. auto.
  Qed.

  Theorem so_exec_insert_edge_stored root d w h f t sp :
    stored_db_w (hp sp) root d w -> so_handles h w -> so_graph_ok (gr d) ->
    is_node (gr d) f = true -> is_node (gr d) t = true -> (0 < f)%Z -> (0 < t)%Z ->
    so_edge_ok (gr d) f t ->
    let e := (- fst (get_free_index (gr d)))%Z in
    so_index_ok (cg_as_u64 e) ->
    cwp fl (so_q_insert_edge h f t) sp (so_xpost rv root w sp d (lq_insert_edge f t) 1%Z [e] (fun h' => (h', Some e))).
  Proof.
    intros H Hh OK Nf Nt Pf Pt Hedge e Hix.
    assert (E : exists d1, insert_edge_db d f t = DbModel.ROk (e, d1)).
    { unfold insert_edge_db, insert_edge. rewrite Nf, Nt. cbn [andb]. subst e.
      destruct (get_free_index (gr d)) as [slot g1]. cbn [fst]. eexists. reflexivity. }
    destruct E as [d1 E].
    assert (Gf : graph_index (gr d) f = true).
    { unfold graph_index. destruct (Z.ltb_spec f 0) as [X|_]; [lia|]. destruct (Z.ltb_spec 0 f) as [_|X]; [exact Nf|lia]. }
    assert (Gt : graph_index (gr d) t = true).
    { unfold graph_index. destruct (Z.ltb_spec t 0) as [X|_]; [lia|]. destruct (Z.ltb_spec 0 t) as [_|X]; [exact Nt|lia]. }
    eapply cwp_mono; [|eapply so_q_insert_edge_stored; [exact H|exact Hh|exact OK|intros _; exact Hedge|]].
    - rewrite E. intros r sp' (h' & w' & -> & H' & Hh' & D' & F').
      destruct (link_post rv d (lq_insert_edge f t) _ _ _ eq_refl (step_insert_edge rv d f t e d1 Gf Gt E)) as [R S].
      exists h', w'. split; [reflexivity|]. split; [exact R|]. split; [apply S; exact H'|]. auto.
    - intros e' d1' E'. rewrite E in E'. injection E' as <- _. exact Hix.
  Qed.

  Theorem so_exec_remove_edge_stored root d w h e sp :
    stored_db_w (hp sp) root d w -> so_handles h w -> (e < 0)%Z -> is_edge (gr d) e = true ->
    so_graph_ok (gr d) -> so_remove_edge_ok (gr d) e ->
    so_slot_valid (sw_vi w) (zabs_nat e) ->
    (forall x, In x (kvs_get (vals d) e) -> idx_find (indexes d) (fst x) = None) ->
    cwp fl (so_q_remove h e) sp (so_xpost rv root w sp d (lq_remove e) 1%Z [] (fun h' => h')).
  Proof.
    intros H Hh He Ie OK Hrm Hslot Hnix.
    eapply cwp_mono; [|eapply so_q_remove_edge_stored; [exact H|exact Hh|exact He|exact OK|exact Hrm|exact Hslot|exact Hnix]].
    intros r sp' (G' & h' & w' & EG & -> & H' & Hh' & D' & F').
    destruct (link_post rv d (lq_remove e) _ _ _ eq_refl (step_remove_edge rv d e G' He Ie EG)) as [R S].
    exists h', w'. split; [reflexivity|]. split; [exact R|]. split; [apply S; exact H'|]. auto.
  Qed.

  Theorem so_exec_remove_isolated_node_stored root d w h n sp :
    stored_db_w (hp sp) root d w -> so_handles h w -> (0 < n)%Z ->
    so_graph_ok (gr d) -> is_node (gr d) n = true -> imap_key (aliases d) n = None ->
    from (gr d) n = 0%Z -> to (gr d) n = 0%Z -> (1 <= tmeta (gr d) 0)%Z ->
    so_slot_valid (sw_vi w) (zabs_nat n) ->
    (forall x, In x (kvs_get (vals d) n) -> idx_find (indexes d) (fst x) = None) ->
    cwp fl (so_q_remove h n) sp (so_xpost rv root w sp d (lq_remove n) 1%Z [] (fun h' => h')).
  Proof.
    intros H Hh Hn OK Nn Al Ef Et Hc Hslot Hnix.
    eapply cwp_mono; [|eapply so_q_remove_isolated_node_stored;
                        [exact H|exact Hh|exact Hn|exact OK|exact Nn|exact Ef|exact Et|exact Hc|exact Hslot|exact Hnix]].
    intros r sp' (h' & w' & -> & H' & Er & Hh' & D' & F').
    destruct (link_post rv d (lq_remove n) _ _ _ eq_refl (step_remove_isolated_node rv d n Hn Nn Al Er)) as [R S].
    exists h', w'. split; [reflexivity|]. split; [exact R|]. split; [apply S; exact H'|]. auto.
  Qed.
End Link.

(* ---------------- a rejected edge insertion: an endpoint (a positive id) that is not a node ---------------- *)
Lemma step_insert_edge_fail rv d f t :
  (0 < f)%Z -> (0 < t)%Z -> is_node (gr d) f && is_node (gr d) t = false ->
  exists e, exec_mut_step rv d (lq_insert_edge f t) = StErr d e.
Proof.
  intros Pf Pt Hn. unfold lq_insert_edge, exec_mut_step, insert_edges.
  cbn [resolve_ids resolve_all length Nat.eqb negb edge_db_ids]. unfold db_id, graph_index.
  destruct (Z.ltb_spec f 0) as [X|_]; [lia|]. destruct (Z.ltb_spec 0 f) as [_|X]; [|lia].
  destruct (Z.ltb_spec t 0) as [X|_]; [lia|]. destruct (Z.ltb_spec 0 t) as [_|X]; [|lia].
  destruct (is_node (gr d) f); [|eexists; reflexivity]. cbn [andb] in Hn. rewrite Hn. eexists. reflexivity.
Qed.

(* a failing query on a database at rest (empty undo stack) is rolled back to the database itself *)
Lemma exec_of_err rv d q e :
  is_mutating q = true -> exec_mut_step rv d q = StErr d e -> undo d = [] ->
  Queries.exec rv d q = (clear_undo d, QErr e).
Proof.
  intros M E U. unfold Queries.exec, exec_in_txn. rewrite M, E. unfold rollback. rewrite U. reflexivity.
Qed.

Section LinkFail.
  Variable fl : bool.
  Variable rv : revision.

  Theorem so_exec_insert_edge_rejected_stored root d w h f t sp :
    stored_db_w (hp sp) root d w -> so_handles h w -> so_graph_ok (gr d) ->
    (0 < f)%Z -> (0 < t)%Z -> is_node (gr d) f && is_node (gr d) t = false -> undo d = [] ->
    cwp fl (so_q_insert_edge h f t) sp
        (fun r sp' => r = CrOk (h, None) /\ qres_ids (snd (Queries.exec rv d (lq_insert_edge f t))) = None /\
                      fst (Queries.exec rv d (lq_insert_edge f t)) = d /\
                      stored_db_w (hp sp') root d w /\ sdepth sp' = sdepth sp /\
                      frame (hp sp) (hp sp') (sd_foot root w) (sd_foot root w)).
  Proof.
    intros H Hh OK Pf Pt Hn U.
    assert (EN : insert_edge (gr d) f t = None) by (unfold insert_edge; rewrite Hn; reflexivity).
    eapply cwp_mono; [|eapply (so_q_insert_edge_stored fl); [exact H|exact Hh|exact OK|intros X; contradiction X; exact EN|]].
    - unfold insert_edge_db. rewrite EN. intros r sp' (-> & H' & D' & F').
      destruct (step_insert_edge_fail rv d f t Pf Pt Hn) as [e E].
      rewrite (exec_of_err rv d (lq_insert_edge f t) e eq_refl E U). cbn [fst snd qres_ids].
      split; [reflexivity|]. split; [reflexivity|]. split; [destruct d; cbn in U |- *; rewrite U; reflexivity|]. auto.
    - unfold insert_edge_db. rewrite EN. intros e d1 X. discriminate X.
  Qed.
End LinkFail.
