(* UndoGraphBase.v — C13, slot-array algebra for Graph.v: accessors over setters,
   linked chains through an array (frame, determinism, unlinking, find_prev, edge_list). *)
From Agdb Require Import Bytes BytesProofs DbValue Graph DbModel UndoBase UndoObs UndoKv.
From Coq Require Import Permutation ZifyBool ZifyNat ZifyN.
Ltac Zify.zify_post_hook ::= Z.div_mod_to_equations.
Open Scope Z_scope.

(* ------------------------------------------------------------------ *)
(* get / set                                                            *)

Lemma zabs_nat_opp i : zabs_nat (- i) = zabs_nat i.
Proof. unfold zabs_nat. rewrite Z.abs_opp. reflexivity. Qed.
Lemma get_opp l i : get l (- i) = get l i.
Proof. unfold get. rewrite zabs_nat_opp. reflexivity. Qed.
Lemma set_opp l i v : set l (- i) v = set l i v.
Proof. unfold set. rewrite zabs_nat_opp. reflexivity. Qed.

Lemma length_set_nth l n v : length (set_nth l n v) = length l.
Proof. revert n. induction l as [|x r IH]; intros [|n]; cbn [set_nth length]; auto. Qed.

Lemma nth_set_nth l n v k : nth k (set_nth l n v) 0 = if Nat.eqb n k && Nat.ltb n (length l) then v else nth k l 0.
Proof.
  revert n k. induction l as [|x r IH]; intros n k.
  - destruct n; cbn [set_nth length]; rewrite andb_false_r; reflexivity.
  - destruct n as [|n], k as [|k]; cbn [set_nth nth length Nat.eqb]; try reflexivity.
    rewrite IH. replace (Nat.ltb (S n) (S (length r))) with (Nat.ltb n (length r)); [reflexivity|].
    destruct (Nat.ltb_spec n (length r)), (Nat.ltb_spec (S n) (S (length r))); auto; lia.
Qed.

Lemma length_set l i v : length (set l i v) = length l.
Proof. apply length_set_nth. Qed.

Lemma get_set l i v j :
  get (set l i v) j = if same_slot i j && Nat.ltb (zabs_nat i) (length l) then v else get l j.
Proof. unfold get, set, same_slot. apply nth_set_nth. Qed.

Lemma get_app0 l j : get (l ++ [0]) j = get l j.
Proof.
  unfold get. destruct (Nat.lt_ge_cases (zabs_nat j) (length l)).
  - apply app_nth1. assumption.
  - rewrite (nth_overflow l) by assumption. rewrite app_nth2 by assumption.
    destruct (zabs_nat j - length l)%nat as [|[|k]]; reflexivity.
Qed.

Lemma same_slot_pos i j : 0 <= i -> 0 <= j -> same_slot i j = (i =? j).
Proof. intros. destruct (same_slot_spec i j); lia. Qed.

(* ------------------------------------------------------------------ *)
(* accessors over setters                                               *)

Definition lens_ok (g : graph) : Prop :=
  length (g_to g) = length (g_from g) /\ length (g_fmeta g) = length (g_from g) /\
  length (g_tmeta g) = length (g_from g).

Lemma from_opp g i : from g (- i) = from g i. Proof. apply get_opp. Qed.
Lemma to_opp g i : to g (- i) = to g i. Proof. apply get_opp. Qed.
Lemma fmeta_opp g i : fmeta g (- i) = fmeta g i. Proof. apply get_opp. Qed.
Lemma tmeta_opp g i : tmeta g (- i) = tmeta g i. Proof. apply get_opp. Qed.
Lemma set_from_opp g i v : set_from g (- i) v = set_from g i v.
Proof. unfold set_from. rewrite set_opp. reflexivity. Qed.
Lemma set_to_opp g i v : set_to g (- i) v = set_to g i v.
Proof. unfold set_to. rewrite set_opp. reflexivity. Qed.
Lemma set_fmeta_opp g i v : set_fmeta g (- i) v = set_fmeta g i v.
Proof. unfold set_fmeta. rewrite set_opp. reflexivity. Qed.
Lemma set_tmeta_opp g i v : set_tmeta g (- i) v = set_tmeta g i v.
Proof. unfold set_tmeta. rewrite set_opp. reflexivity. Qed.

Lemma inrange_nat g i : 0 <= i < capacity g -> Nat.ltb (zabs_nat i) (length (g_from g)) = true.
Proof. unfold capacity, zabs_nat. intros. apply Nat.ltb_lt. lia. Qed.

Section Setters.
  Variables (g : graph) (i v : Z).
  Hypothesis Hl : lens_ok g.
  Hypothesis Hi : 0 <= i < capacity g.

  Lemma from_set_from j : 0 <= j -> from (set_from g i v) j = if i =? j then v else from g j.
  Proof.
    intros Hj. unfold from, set_from. cbn [g_from]. rewrite get_set, inrange_nat, andb_true_r by assumption.
    rewrite same_slot_pos by lia. reflexivity.
  Qed.
  Lemma to_set_to j : 0 <= j -> to (set_to g i v) j = if i =? j then v else to g j.
  Proof.
    intros Hj. unfold to, set_to. cbn [g_to]. destruct Hl as (E & _ & _). rewrite get_set, E, inrange_nat, andb_true_r by assumption.
    rewrite same_slot_pos by lia. reflexivity.
  Qed.
  Lemma fmeta_set_fmeta j : 0 <= j -> fmeta (set_fmeta g i v) j = if i =? j then v else fmeta g j.
  Proof.
    intros Hj. unfold fmeta, set_fmeta. cbn [g_fmeta]. destruct Hl as (_ & E & _). rewrite get_set, E, inrange_nat, andb_true_r by assumption.
    rewrite same_slot_pos by lia. reflexivity.
  Qed.
  Lemma tmeta_set_tmeta j : 0 <= j -> tmeta (set_tmeta g i v) j = if i =? j then v else tmeta g j.
  Proof.
    intros Hj. unfold tmeta, set_tmeta. cbn [g_tmeta]. destruct Hl as (_ & _ & E). rewrite get_set, E, inrange_nat, andb_true_r by assumption.
    rewrite same_slot_pos by lia. reflexivity.
  Qed.
End Setters.

Section SettersFrame.
  Variables (g : graph) (i v : Z).
  Lemma from_set_to j : from (set_to g i v) j = from g j. Proof. reflexivity. Qed.
  Lemma from_set_fmeta j : from (set_fmeta g i v) j = from g j. Proof. reflexivity. Qed.
  Lemma from_set_tmeta j : from (set_tmeta g i v) j = from g j. Proof. reflexivity. Qed.
  Lemma to_set_from j : to (set_from g i v) j = to g j. Proof. reflexivity. Qed.
  Lemma to_set_fmeta j : to (set_fmeta g i v) j = to g j. Proof. reflexivity. Qed.
  Lemma to_set_tmeta j : to (set_tmeta g i v) j = to g j. Proof. reflexivity. Qed.
  Lemma fmeta_set_from j : fmeta (set_from g i v) j = fmeta g j. Proof. reflexivity. Qed.
  Lemma fmeta_set_to j : fmeta (set_to g i v) j = fmeta g j. Proof. reflexivity. Qed.
  Lemma fmeta_set_tmeta j : fmeta (set_tmeta g i v) j = fmeta g j. Proof. reflexivity. Qed.
  Lemma tmeta_set_from j : tmeta (set_from g i v) j = tmeta g j. Proof. reflexivity. Qed.
  Lemma tmeta_set_to j : tmeta (set_to g i v) j = tmeta g j. Proof. reflexivity. Qed.
  Lemma tmeta_set_fmeta j : tmeta (set_fmeta g i v) j = tmeta g j. Proof. reflexivity. Qed.

  Lemma cap_set_from : capacity (set_from g i v) = capacity g.
  Proof. unfold capacity, set_from. cbn [g_from]. rewrite length_set. reflexivity. Qed.
  Lemma cap_set_to : capacity (set_to g i v) = capacity g. Proof. reflexivity. Qed.
  Lemma cap_set_fmeta : capacity (set_fmeta g i v) = capacity g. Proof. reflexivity. Qed.
  Lemma cap_set_tmeta : capacity (set_tmeta g i v) = capacity g. Proof. reflexivity. Qed.

  Lemma lens_set_from : lens_ok g -> lens_ok (set_from g i v).
  Proof. unfold lens_ok, set_from. cbn [g_from g_to g_fmeta g_tmeta]. rewrite length_set. auto. Qed.
  Lemma lens_set_to : lens_ok g -> lens_ok (set_to g i v).
  Proof. unfold lens_ok, set_to. cbn [g_from g_to g_fmeta g_tmeta]. rewrite length_set. auto. Qed.
  Lemma lens_set_fmeta : lens_ok g -> lens_ok (set_fmeta g i v).
  Proof. unfold lens_ok, set_fmeta. cbn [g_from g_to g_fmeta g_tmeta]. rewrite length_set. auto. Qed.
  Lemma lens_set_tmeta : lens_ok g -> lens_ok (set_tmeta g i v).
  Proof. unfold lens_ok, set_tmeta. cbn [g_from g_to g_fmeta g_tmeta]. rewrite length_set. auto. Qed.
End SettersFrame.

Lemma from_grow g j : from (grow g) j = from g j. Proof. apply get_app0. Qed.
Lemma to_grow g j : to (grow g) j = to g j. Proof. apply get_app0. Qed.
Lemma fmeta_grow g j : fmeta (grow g) j = fmeta g j. Proof. apply get_app0. Qed.
Lemma tmeta_grow g j : tmeta (grow g) j = tmeta g j. Proof. apply get_app0. Qed.
Lemma cap_grow g : capacity (grow g) = capacity g + 1.
Proof. unfold capacity, grow. cbn [g_from]. rewrite app_length. cbn [length]. lia. Qed.
Lemma lens_grow g : lens_ok g -> lens_ok (grow g).
Proof.
  unfold lens_ok, grow. cbn [g_from g_to g_fmeta g_tmeta]. rewrite !app_length. cbn [length]. lia.
Qed.

(* beyond the capacity every accessor reads 0 *)
Lemma get_out l j : Z.of_nat (length l) <= Z.abs j -> get l j = 0.
Proof. intros H. unfold get. apply nth_overflow. unfold zabs_nat. lia. Qed.
Lemma from_out g j : capacity g <= Z.abs j -> from g j = 0.
Proof. apply get_out. Qed.
Lemma to_out g j : lens_ok g -> capacity g <= Z.abs j -> to g j = 0.
Proof. intros (E & _ & _) H. apply get_out. unfold capacity in H. lia. Qed.
Lemma fmeta_out g j : lens_ok g -> capacity g <= Z.abs j -> fmeta g j = 0.
Proof. intros (_ & E & _) H. apply get_out. unfold capacity in H. lia. Qed.
Lemma tmeta_out g j : lens_ok g -> capacity g <= Z.abs j -> tmeta g j = 0.
Proof. intros (_ & _ & E) H. apply get_out. unfold capacity in H. lia. Qed.

(* ------------------------------------------------------------------ *)
(* chains of positive slots linked through `nx`, ending in 0            *)

Inductive chain (nx : Z -> Z) : Z -> list Z -> Prop :=
| chain_nil : chain nx 0 []
| chain_cons s l : 0 < s -> chain nx (nx s) l -> chain nx s (s :: l).

Lemma chain_det nx s l l' : chain nx s l -> chain nx s l' -> l = l'.
Proof.
  intros H. revert l'. induction H as [|s l Hs H IH]; intros l' H'; inversion H'; subst; try lia; auto.
  f_equal. apply IH. assumption.
Qed.

Lemma chain_pos nx s l : chain nx s l -> Forall (fun e => 0 < e) l.
Proof. induction 1; constructor; auto. Qed.

Lemma chain_ext nx nx' s l : chain nx s l -> (forall e, In e l -> nx' e = nx e) -> chain nx' s l.
Proof.
  induction 1 as [|s l Hs H IH]; intros E; constructor; auto.
  rewrite E by (left; reflexivity). apply IH. intros e He. apply E. right. assumption.
Qed.

Lemma chain_head nx s l : chain nx s l -> s = match l with [] => 0 | e :: _ => e end.
Proof. destruct 1; reflexivity. Qed.

Lemma chain_zero nx l : chain nx 0 l -> l = [].
Proof. inversion 1; [reflexivity | lia]. Qed.

(* splitting at an element *)
Lemma chain_split nx s l1 e l2 :
  chain nx s (l1 ++ e :: l2) -> chain nx (nx e) l2.
Proof.
  revert s. induction l1 as [|x r IH]; intros s H; cbn [app] in H; inversion H; subst; eauto.
Qed.

(* unlinking element e (not the head): its predecessor p now points to nx e *)
Lemma chain_unlink nx nx' s l1 p e l2 :
  chain nx s (l1 ++ p :: e :: l2) -> NoDup (l1 ++ p :: e :: l2) ->
  nx' p = nx e -> (forall x, In x l1 \/ In x l2 -> nx' x = nx x) ->
  chain nx' s (l1 ++ p :: l2).
Proof.
  revert s. induction l1 as [|x r IH]; intros s H Hnd Hp Ho; cbn [app] in *.
  - inversion H as [|? ? Hs H1]. subst. inversion H1 as [|? ? He H2]. subst.
    constructor; [assumption|]. rewrite Hp.
    eapply chain_ext; [exact H2|]. intros y Hy. apply Ho. right. assumption.
  - inversion H as [|? ? Hs H1]. subst. inversion Hnd as [|? ? Hn1 Hnd1]. subst.
    constructor; [assumption|]. rewrite Ho by (left; left; reflexivity).
    apply IH; try assumption. intros y [Hy|Hy]; apply Ho; [left; right; assumption | right; assumption].
Qed.

(* unlinking the head *)
Lemma chain_unlink_head nx nx' e l :
  chain nx e (e :: l) -> NoDup (e :: l) -> (forall x, x <> e -> nx' x = nx x) -> chain nx' (nx e) l.
Proof.
  intros H Hnd Ho. inversion H as [|? ? Hs H1]. subst. inversion Hnd as [|? ? Hn Hnd1]. subst.
  eapply chain_ext; [exact H1|]. intros y Hy. apply Ho. intros ->. contradiction.
Qed.

(* find_prev finds the predecessor; `nx` may be read through a sign-insensitive accessor *)
Lemma find_prev_spec nx s l1 p e l2 fuel start :
  chain nx s (l1 ++ p :: e :: l2) -> NoDup (l1 ++ p :: e :: l2) ->
  (forall x, nx (- x) = nx x) ->
  (length l1 < fuel)%nat -> (start = s \/ start = - s) ->
  exists q, find_prev nx fuel start e = Some q /\ (q = p \/ q = - p).
Proof.
  revert s fuel start. induction l1 as [|x r IH]; intros s fuel start H Hnd Hsym Hf Hst; cbn [app] in *.
  - inversion H as [|? ? Hs H1]. subst. inversion H1 as [|? ? He H2]. subst.
    destruct fuel as [|fuel]; [cbn in Hf; lia|]. cbn [find_prev].
    assert (E : nx start = nx p) by (destruct Hst as [->| ->]; [reflexivity | apply Hsym]).
    rewrite E, Z.eqb_refl. exists start. split; [reflexivity | assumption].
  - inversion H as [|? ? Hs H1]. subst. inversion Hnd as [|? ? Hn1 Hnd1]. subst.
    destruct fuel as [|fuel]; [cbn in Hf; lia|]. cbn [find_prev].
    assert (E : nx start = nx x) by (destruct Hst as [->| ->]; [reflexivity | apply Hsym]).
    rewrite E.
    (* nx x is the head of the rest; it is not e because e occurs later and the list has no duplicates *)
    assert (Hne : nx x <> e).
    { intros Heq. pose proof (chain_head _ _ _ H1) as Hh. rewrite Heq in Hh.
      destruct r as [|y r']; cbn [app] in *.
      - subst. inversion Hnd1 as [|? ? Hn2 _]. apply Hn2. left. reflexivity.
      - subst. inversion Hnd1 as [|? ? Hn2 _]. apply Hn2. apply in_or_app. right. right. left. reflexivity. }
    destruct (Z.eqb_spec (nx x) e); [contradiction|].
    apply (IH (nx x) fuel (nx x)); auto. cbn [length] in Hf. lia.
Qed.

(* edge_list walks a chain of negated slots *)
Lemma edge_list_chain nx l : forall s fuel,
  chain nx s l -> (length l <= fuel)%nat -> (forall x, nx (- x) = nx x) ->
  edge_list (fun e => - nx e) fuel (- s) = map Z.opp l /\
  (fuel = O -> l = []).
Proof.
  induction l as [|e r IH]; intros s fuel H Hf Hsym.
  - inversion H. subst. split; [|auto]. destruct fuel; reflexivity.
  - inversion H as [|? ? Hs H1]. subst. destruct fuel as [|fuel]; [cbn in Hf; lia|].
    split; [|discriminate]. cbn [edge_list map].
    destruct (Z.eqb_spec (- e) 0); [lia|]. f_equal.
    rewrite Hsym. apply (IH (nx e) fuel); auto. cbn [length] in Hf. lia.
Qed.

(* a duplicate-free list of slots below a bound is no longer than the bound *)
Lemma NoDup_bounded_length (l : list Z) (n : nat) :
  NoDup l -> (forall e, In e l -> 0 <= e < Z.of_nat n) -> (length l <= n)%nat.
Proof.
  intros Hnd Hb.
  assert (Hincl : incl (map Z.to_nat l) (seq 0 n)).
  { intros k Hk. apply in_map_iff in Hk. destruct Hk as (e & <- & He). apply in_seq. specialize (Hb e He). lia. }
  assert (Hnd' : NoDup (map Z.to_nat l)).
  { clear Hincl. induction l as [|x r IH]; [constructor|]. inversion Hnd as [|? ? Hn Hr]. subst.
    cbn [map]. constructor.
    - intros Hin. apply in_map_iff in Hin. destruct Hin as (y & Ey & Hy). apply Hn.
      assert (x = y); [|subst; assumption].
      pose proof (Hb x (or_introl eq_refl)). pose proof (Hb y (or_intror Hy)). lia.
    - apply IH; [assumption|]. intros e He. apply Hb. right. assumption. }
  pose proof (NoDup_incl_length Hnd' Hincl) as Hlen. rewrite map_length, seq_length in Hlen. exact Hlen.
Qed.

(* ------------------------------------------------------------------ *)
(* the free chain: links stored negated, i64::MIN terminates            *)

Inductive fchain (nx : Z -> Z) : Z -> list Z -> Prop :=
| fchain_nil : fchain nx i64_min []
| fchain_cons s l : 0 < s -> - s <> i64_min -> fchain nx (nx s) l -> fchain nx (- s) (s :: l).

Lemma fchain_det nx h l l' : fchain nx h l -> fchain nx h l' -> l = l'.
Proof.
  intros H. revert l'. induction H as [|s l Hs Hm H IH]; intros l' H'.
  - inversion H' as [|s' ? ? ? ? E]; [reflexivity|]. subst. congruence.
  - inversion H' as [E|s' ? ? ? ? E]; subst; [congruence|].
    assert (s' = s) by lia. subst. f_equal. apply IH. assumption.
Qed.

Lemma fchain_ext nx nx' h l : fchain nx h l -> (forall e, In e l -> nx' e = nx e) -> fchain nx' h l.
Proof.
  induction 1 as [|s l Hs Hm H IH]; intros E; constructor; auto.
  rewrite E by (left; reflexivity). apply IH. intros e He. apply E. right. assumption.
Qed.

Lemma fchain_nil_iff nx h l : fchain nx h l -> (h = i64_min <-> l = []).
Proof. destruct 1; split; congruence. Qed.
