(* RaftLogMatch.v — LOG MATCHING for the repaired election code, under the hypothesis that no follower ever
   acknowledges an Append/Heartbeat from a diverged log (KnownClass ack-from-diverged-log never occurs):
   if two nodes hold entries of the same term at one index, their logs are identical up to that index.

   Invariant LI over `run rr_fixed size evs` (one leader per term = C27_election_safety is used at every step):
     - every log is well formed (index = position, terms sorted, entry terms <= the node's term);
     - every Append request in flight carries consecutive indices and sorted terms;
     - a node in state Leader is recorded as leader of its term; a recorded leader (i, t) has term > t or is still
       Leader of t; an Append/Heartbeat in flight comes from a recorded leader of its term;
     - every entry has the term of a recorded leader; the Leader of term T holds every entry of term T that
       exists in any log, at that entry's index;
     - log matching.
   The marker's negation is used exactly once: after an acknowledged Append the follower's log is a prefix of the
   sender's present log, so every fact about the sender's log transfers to the follower. *)
From Coq Require Import NArith List Bool Lia Arith.
From Agdb Require Import Raft RaftProofs RaftInv RaftElect RaftVote RaftLogWf.
Import ListNotations.
Open Scope N_scope.

Definition lmatch (la lb : list entry) : Prop :=
  forall k ea eb, nth_error la k = Some ea -> nth_error lb k = Some eb -> e_term ea = e_term eb ->
                  firstn (S k) la = firstn (S k) lb.

Lemma lmatch_refl : forall l, lmatch l l.
Proof. intros l k ea eb _ _ _. reflexivity. Qed.

Lemma lmatch_sym : forall a b, lmatch a b -> lmatch b a.
Proof. intros a b H k ea eb H1 H2 E. symmetry. eapply H; eauto. Qed.

Lemma nth_error_prefix : forall (a s : list entry) k x,
  a = firstn (length a) s -> nth_error a k = Some x -> nth_error s k = Some x.
Proof.
  intros a s k x E H. assert (L : (k < length a)%nat) by (apply nth_error_Some; congruence).
  rewrite E in H. rewrite nth_error_firstn_lt in H; auto.
Qed.

Lemma lmatch_prefix : forall a s b, a = firstn (length a) s -> lmatch s b -> lmatch a b.
Proof.
  intros a s b E H k ea eb H1 H2 T.
  assert (L : (k < length a)%nat) by (apply nth_error_Some; congruence).
  pose proof (nth_error_prefix _ _ _ _ E H1) as H1'.
  rewrite <- (H k ea eb H1' H2 T). rewrite E at 1. rewrite firstn_firstn. f_equal. lia.
Qed.

Lemma lmatch_snoc : forall a x b,
  lmatch a b -> (forall eb, nth_error b (length a) = Some eb -> e_term eb <> e_term x) -> lmatch (a ++ [x]) b.
Proof.
  intros a x b H N k ea eb H1 H2 T. destruct (Nat.lt_ge_cases k (length a)).
  - rewrite nth_error_app1 in H1 by auto. rewrite firstn_app.
    replace (S k - length a)%nat with O by lia. cbn [firstn]. rewrite app_nil_r. eapply H; eauto.
  - rewrite nth_error_app2 in H1 by auto. destruct (k - length a)%nat eqn:E; cbn in H1; [|destruct n; discriminate].
    inversion H1; subst ea. exfalso. apply (N eb); [|congruence]. replace (length a) with k by lia. exact H2.
Qed.

Definition msg_wf (m : msg) : Prop := match m with MReq r => req_wf r | MResp _ _ => True end.

Record LI (c : cluster) : Prop := {
  li_cinv : cinv c;
  li_wf : forall k nd, nth_error (c_nodes c) k = Some nd -> nwf nd;
  li_msg : forall m, In m (c_net c) -> msg_wf m;
  li_lh1 : forall k nd, nth_error (c_nodes c) k = Some nd -> is_leader (n_state nd) = true ->
             In (N.of_nat k, n_term nd) (leaders (c_hist c));
  li_lh2 : forall k nd t, nth_error (c_nodes c) k = Some nd -> In (N.of_nat k, t) (leaders (c_hist c)) ->
             t < n_term nd \/ (t = n_term nd /\ is_leader (n_state nd) = true);
  li_mh : forall r, In (MReq r) (c_net c) -> is_append_or_hb (q_kind r) = true ->
             In (q_from r, q_term r) (leaders (c_hist c));
  li_lv : forall i t, In (i, t) (leaders (c_hist c)) -> (N.to_nat i < length (c_nodes c))%nat;
  li_el : forall k nd e, nth_error (c_nodes c) k = Some nd -> In e (n_logs nd) ->
             exists i, In (i, e_term e) (leaders (c_hist c));
  li_has : forall kl l kv v e, nth_error (c_nodes c) kl = Some l -> nth_error (c_nodes c) kv = Some v ->
             is_leader (n_state l) = true -> In e (n_logs v) -> e_term e = n_term l ->
             log_at (n_logs l) (e_index e) = Some e;
  li_lm : forall ka a kb b, nth_error (c_nodes c) ka = Some a -> nth_error (c_nodes c) kb = Some b ->
             lmatch (n_logs a) (n_logs b) }.

(* how the acting node's log changes in one step *)
Definition log_change (c : cluster) (i : N) (nd nd' : node) : Prop :=
  n_logs nd' = n_logs nd \/
  (is_leader (n_state nd) = true /\ is_leader (n_state nd') = true /\
   exists d, n_logs nd' = n_logs nd ++ [mkEntry (lenN (n_logs nd) + 1) (n_term nd) d]) \/
  (is_leader (n_state nd') = false /\
   exists j s, j <> N.to_nat i /\ nth_error (c_nodes c) j = Some s /\
               n_logs nd' = firstn (length (n_logs nd')) (n_logs s)).

Definition newmsg (nd' : node) (i : N) (m : msg) : Prop :=
  match m with
  | MReq r => req_wf r /\
              (is_append_or_hb (q_kind r) = true ->
               is_leader (n_state nd') = true /\ q_from r = i /\ q_term r = n_term nd')
  | MResp _ _ => True
  end.

Lemma put_nth : forall c i nd nd' j x,
  get_node c i = Some nd -> nth_error (put_node c i nd') j = Some x ->
  (j = N.to_nat i /\ x = nd') \/ (j <> N.to_nat i /\ nth_error (c_nodes c) j = Some x).
Proof.
  intros c i nd nd' j x G H. unfold put_node, get_node in *.
  destruct (Nat.eq_dec (N.to_nat i) j) as [<-|Hne].
  - rewrite (nth_error_upd_nth_eq _ _ _ _ _ G) in H. inversion H. auto.
  - rewrite nth_error_upd_nth_neq in H by auto. right; split; auto.
Qed.

Lemma In_prefix : forall (a s : list entry) e, a = firstn (length a) s -> In e a -> In e s.
Proof. intros a s e E H. rewrite E in H. eapply In_firstn; eauto. Qed.

Lemma log_at_none_len : forall (l : list entry) e, log_at l (N.of_nat (S (length l))) = Some e -> False.
Proof.
  intros l e H. rewrite log_at_nth in H. assert (nth_error l (length l) = None) by (apply nth_error_None; lia). congruence.
Qed.

Lemma LI_put : forall c i nd nd' net' g,
  LI c -> get_node c i = Some nd ->
  cinv (mkCluster (put_node c i nd') net' (c_hist c ++ g)) ->
  election_safety (c_hist c ++ g) ->
  nwf nd' ->
  n_term nd <= n_term nd' ->
  leaders g = (if is_leader (n_state nd') && negb (is_leader (n_state nd)) then [(i, n_term nd')] else []) ->
  (is_leader (n_state nd) = true ->
   (is_leader (n_state nd') = true /\ n_term nd' = n_term nd) \/
   (is_leader (n_state nd') = false /\ n_term nd < n_term nd')) ->
  log_change c i nd nd' ->
  (forall m, In m net' -> In m (c_net c) \/ newmsg nd' i m) ->
  LI (mkCluster (put_node c i nd') net' (c_hist c ++ g)).
Proof.
  intros c i nd nd' net' g Lc G CI ES W' Tm Lg LL LC NM.
  pose proof G as G0. unfold get_node in G0.
  assert (Wnd : nwf nd) by (eapply (li_wf _ Lc); eauto).
  assert (LH1o : is_leader (n_state nd) = true -> In (i, n_term nd) (leaders (c_hist c))).
  { intros H. pose proof (li_lh1 _ Lc _ _ G0 H) as X. rewrite N2Nat.id in X. exact X. }
  assert (LH2o : forall t, In (i, t) (leaders (c_hist c)) -> t < n_term nd \/ (t = n_term nd /\ is_leader (n_state nd) = true)).
  { intros t H. apply (li_lh2 _ Lc (N.to_nat i) nd t G0). rewrite N2Nat.id. exact H. }
  (* a Leader after the step is a recorded leader of its term *)
  assert (LH1 : is_leader (n_state nd') = true -> In (i, n_term nd') (leaders (c_hist c ++ g))).
  { intros L'. rewrite leaders_app. apply in_or_app. destruct (is_leader (n_state nd)) eqn:L.
    - left. destruct (LL eq_refl) as [[_ E]|[F _]]; [|congruence]. rewrite E. auto.
    - right. rewrite Lg, L'. cbn. auto. }
  (* the old entries of the logs after the step *)
  assert (OLD : forall j x e, nth_error (put_node c i nd') j = Some x -> In e (n_logs x) ->
                (exists j0 x0, nth_error (c_nodes c) j0 = Some x0 /\ In e (n_logs x0)) \/
                (j = N.to_nat i /\ x = nd' /\ is_leader (n_state nd) = true /\ is_leader (n_state nd') = true /\
                 e_term e = n_term nd /\ e_index e = N.of_nat (S (length (n_logs nd))) /\
                 n_logs nd' = n_logs nd ++ [e])).
  { intros j x e Hj He. destruct (put_nth _ _ _ _ _ _ G Hj) as [[-> ->]|[Hne Hj']]; [|left; eauto].
    destruct LC as [E|[(L1 & L2 & d & E)|(L2 & j0 & s0 & Hj0 & Hs0 & E)]].
    - left. exists (N.to_nat i), nd. rewrite <- E. auto.
    - rewrite E in He. apply in_app_or in He as [He|[<-|[]]]; [left; eauto|].
      right. repeat split; auto. cbn. unfold lenN. lia.
    - left. exists j0, s0. split; auto. eapply In_prefix; eauto. }
  constructor; cbn [c_nodes c_net c_hist].
  - exact CI.
  - intros k x Hk. destruct (put_nth _ _ _ _ _ _ G Hk) as [[-> ->]|[Hne Hk']]; auto. eapply (li_wf _ Lc); eauto.
  - intros m Hm. destruct (NM m Hm) as [H|H]; [apply (li_msg _ Lc); auto|].
    destruct m; cbn in *; tauto.
  - (* lh1 *)
    intros k x Hk L. destruct (put_nth _ _ _ _ _ _ G Hk) as [[-> ->]|[Hne Hk']].
    + rewrite N2Nat.id. auto.
    + rewrite leaders_app. apply in_or_app. left. eapply (li_lh1 _ Lc); eauto.
  - (* lh2 *)
    intros k x t Hk Hin. rewrite leaders_app in Hin. apply in_app_or in Hin.
    destruct (put_nth _ _ _ _ _ _ G Hk) as [[-> ->]|[Hne Hk']].
    + rewrite N2Nat.id in Hin. destruct Hin as [Hin|Hin].
      * destruct (LH2o _ Hin) as [H|[-> L]]; [left; lia|].
        destruct (LL L) as [[L' E]|[L' E]]; [right; auto|left; lia].
      * rewrite Lg in Hin. destruct (is_leader (n_state nd') && negb (is_leader (n_state nd))) eqn:B; [|destruct Hin].
        destruct Hin as [Hin|[]]. inversion Hin; subst t. apply andb_true_iff in B as [B _]. right; auto.
    + destruct Hin as [Hin|Hin]; [eapply (li_lh2 _ Lc); eauto|].
      rewrite Lg in Hin. destruct (is_leader (n_state nd') && negb (is_leader (n_state nd))); [|destruct Hin].
      destruct Hin as [Hin|[]]. inversion Hin. exfalso. apply Hne. lia.
  - (* mh *)
    intros r Hr A. destruct (NM _ Hr) as [H|H].
    + rewrite leaders_app. apply in_or_app. left. apply (li_mh _ Lc); auto.
    + cbn in H. destruct H as [_ H]. destruct (H A) as (L' & -> & ->). auto.
  - (* lv *)
    intros i0 t Hin. unfold put_node. rewrite upd_nth_length. rewrite leaders_app in Hin. apply in_app_or in Hin as [Hin|Hin].
    + eapply (li_lv _ Lc); eauto.
    + rewrite Lg in Hin. destruct (is_leader (n_state nd') && negb (is_leader (n_state nd))); [|destruct Hin].
      destruct Hin as [Hin|[]]. inversion Hin; subst. apply nth_error_Some. congruence.
  - (* el *)
    intros k x e Hk He. destruct (OLD _ _ _ Hk He) as [(j0 & x0 & Hj0 & He0)|(-> & -> & L1 & L2 & Et & _)].
    + destruct (li_el _ Lc _ _ _ Hj0 He0) as [i0 Hi0]. exists i0. rewrite leaders_app. apply in_or_app. auto.
    + exists i. rewrite Et. destruct (LL L1) as [[_ E]|[F _]]; [|congruence]. rewrite <- E. auto.
  - (* has *)
    intros kl l kv v e Hl Hv L He Et.
    destruct (put_nth _ _ _ _ _ _ G Hl) as [[-> ->]|[Hnel Hl']].
    + (* the leader is the acting node *)
      destruct (is_leader (n_state nd)) eqn:L0.
      * destruct (LL eq_refl) as [[_ E]|[F _]]; [|congruence].
        assert (KEEP : forall idx x, log_at (n_logs nd) idx = Some x -> log_at (n_logs nd') idx = Some x).
        { intros idx x H. destruct LC as [E'|[(_ & _ & d & E')|(L2 & _)]]; [rewrite E'; auto| |congruence].
          rewrite E'. apply log_at_snoc_keep; auto. }
        destruct (OLD _ _ _ Hv He) as [(j0 & x0 & Hj0 & He0)|(-> & _ & _ & _ & _ & Ei & El)].
        -- apply KEEP. eapply (li_has _ Lc _ nd _ x0); eauto. congruence.
        -- rewrite El, Ei. rewrite log_at_nth. rewrite nth_error_app2 by lia. rewrite Nat.sub_diag. reflexivity.
      * (* newly elected: no entry of its term exists *)
        exfalso.
        assert (Hold : exists j0 x0, nth_error (c_nodes c) j0 = Some x0 /\ In e (n_logs x0)).
        { destruct (OLD _ _ _ Hv He) as [H|(_ & _ & F & _)]; [exact H|congruence]. }
        destruct Hold as (j0 & x0 & Hj0 & He0).
        destruct (li_el _ Lc _ _ _ Hj0 He0) as [i0 Hi0].
        assert (i0 = i).
        { apply (ES i0 i (n_term nd')); [rewrite leaders_app; apply in_or_app; left; rewrite <- Et; exact Hi0 | apply LH1; exact L]. }
        subst i0. rewrite Et in Hi0.
        destruct (LH2o _ Hi0) as [H|[_ H]]; [lia|congruence].
    + (* another leader, unchanged *)
      destruct (OLD _ _ _ Hv He) as [(j0 & x0 & Hj0 & He0)|(-> & -> & L1 & L2 & Et' & _)].
      * eapply (li_has _ Lc kl l j0 x0); eauto.
      * exfalso. apply Hnel.
        assert (N.of_nat kl = i); [|lia].
        apply (ES (N.of_nat kl) i (n_term l)).
        -- rewrite leaders_app; apply in_or_app; left. eapply (li_lh1 _ Lc); eauto.
        -- rewrite <- Et, Et'. rewrite leaders_app; apply in_or_app; left. auto.
  - (* lm *)
    assert (ONE : forall kb b, kb <> N.to_nat i -> nth_error (c_nodes c) kb = Some b -> lmatch (n_logs nd') (n_logs b)).
    { intros kb b Hne Hb. destruct LC as [E|[(L1 & L2 & d & E)|(L2 & j0 & s0 & Hj0 & Hs0 & E)]].
      - rewrite E. eapply (li_lm _ Lc); eauto.
      - rewrite E. apply lmatch_snoc; [eapply (li_lm _ Lc); eauto|].
        intros eb Heb Teq. cbn [e_term] in Teq.
        pose proof (li_has _ Lc _ nd _ b eb G0 Hb L1 (nth_error_In _ _ Heb) Teq) as H.
        destruct (w_log _ (li_wf _ Lc _ _ Hb)) as [P _]. rewrite (P _ _ Heb) in H.
        eapply log_at_none_len; eauto.
      - eapply lmatch_prefix; [exact E|]. eapply (li_lm _ Lc); eauto. }
    intros ka a kb b Ha Hb.
    destruct (put_nth _ _ _ _ _ _ G Ha) as [[-> ->]|[Hnea Ha']]; destruct (put_nth _ _ _ _ _ _ G Hb) as [[-> ->]|[Hneb Hb']].
    + apply lmatch_refl.
    + eapply ONE; eauto.
    + apply lmatch_sym. eapply ONE; eauto.
    + eapply (li_lm _ Lc); eauto.
Qed.

(* ------------------------------------------------------------------ the marker *)

Lemma ack_diverged_app : forall a b, ack_diverged_b (a ++ b) = ack_diverged_b a || ack_diverged_b b.
Proof. intros. unfold ack_diverged_b. apply existsb_app. Qed.

Lemma entries_eqb_eq : forall a b, entries_eqb a b = true -> a = b.
Proof.
  induction a as [|x a IH]; intros [|y b] H; cbn in H; try discriminate; auto.
  apply andb_true_iff in H as [H1 H2]. apply entry_eqb_eq in H1. f_equal; auto.
Qed.

(* no GAckDiverged recorded for an acknowledged Append/Heartbeat: the follower's log is a prefix of the sender's *)
Lemma no_ack_diverged : forall c new r s sender,
  ack_diverged_b (request_ghosts c new r s) = false ->
  is_append_or_hb (q_kind r) = true -> is_ok (s_result s) = true ->
  get_node c (q_from r) = Some sender -> ninv new ->
  n_logs new = firstn (length (n_logs new)) (n_logs sender).
Proof.
  intros c new r s sender H A O G I. unfold request_ghosts in H. rewrite !ack_diverged_app in H.
  apply orb_false_iff in H as [_ H]. apply orb_false_iff in H as [_ H].
  rewrite A, O, G in H. cbn [andb] in H.
  destruct (entries_eqb _ _) eqn:E; [|discriminate H].
  apply entries_eqb_eq in E. rewrite <- (ni_len _ I) in E. rewrite firstn_all in E. exact E.
Qed.

(* ------------------------------------------------------------------ steps that change no node *)

Lemma LI_same : forall c c',
  LI c -> cinv c' -> c_nodes c' = c_nodes c -> c_hist c' = c_hist c ->
  (forall m, In m (c_net c') -> In m (c_net c)) -> LI c'.
Proof.
  intros c c' L CI N H M. constructor; rewrite ?N, ?H; try apply L; auto.
  - intros m Hm. apply (li_msg _ L). auto.
  - intros r Hr. apply (li_mh _ L). auto.
Qed.

Lemma req_wf_other : forall q, (forall logs, q_kind q <> KAppend logs) -> req_wf q.
Proof. intros q H. unfold req_wf. destruct (q_kind q); auto. exfalso. eapply H; eauto. Qed.

(* ------------------------------------------------------------------ the step *)

Theorem LI_step : forall c e,
  LI c -> election_safety (c_hist (step rr_fixed c e)) -> ack_diverged_b (c_hist (step rr_fixed c e)) = false ->
  LI (step rr_fixed c e).
Proof.
  intros c e Lc ES AD.
  pose proof (proj1 (step_inv rr_fixed c e (li_cinv _ Lc))) as CI.
  destruct (li_cinv _ Lc) as [HN HM].
  destruct e as [i el due | k el | k | k | i d]; cbn [step] in *.
  - (* Tick *)
    destruct (get_node c i) as [nd|] eqn:G; [|exact Lc].
    pose proof (get_node_index _ _ _ HN G) as Ei.
    pose proof (li_wf _ Lc _ _ G) as W.
    pose proof (term_process nd el due) as Tm.
    pose proof (keep_process nd el due) as Kp.
    pose proof (leader_process nd el due) as Lp.
    pose proof (good_process nd el due (w_inv _ W)) as [I' _].
    pose proof (reqs_process nd el due) as RO.
    pose proof (reqs_process_kind nd el due) as RK.
    destruct (process nd el due) as [nd' reqs]. cbn [fst snd c_hist c_nodes c_net] in *.
    apply (LI_put c i nd nd'); auto; try lia.
    + eapply nwf_keep; eauto. lia.
    + rewrite leaders_node_ghosts, Lp. destruct (is_leader (n_state nd)); reflexivity.
    + intros L. left. split; congruence.
    + left. apply Kp.
    + intros m Hm. apply in_app_or in Hm as [Hm|Hm]; [left; exact Hm|right].
      apply in_map_iff in Hm as [q [<- Hq]]. cbn. destruct (RO _ Hq) as [Fq _].
      destruct (RK _ Hq) as [(Kq & Lq & Tq)|Kq].
      * split; [apply req_wf_other; intros logs; rewrite Kq; discriminate|].
        intros _. repeat split; congruence.
      * split; [apply req_wf_other; intros logs; rewrite Kq; discriminate|]. rewrite Kq. discriminate.
  - (* Deliver *)
    destruct (nth_error (c_net c) k) as [[r | r s]|] eqn:Hk; [| |exact Lc].
    + (* request *)
      pose proof (HM _ (nth_error_In _ _ Hk)) as Hok. cbn in Hok.
      pose proof (li_msg _ Lc _ (nth_error_In _ _ Hk)) as RW. cbn in RW.
      destruct (get_node c (q_to r)) as [nd|] eqn:G.
      2:{ eapply LI_same; eauto. cbn. intros m Hm. eapply In_remove_nth; eauto. }
      pose proof (get_node_index _ _ _ HN G) as Ei.
      assert (Hne : q_from r <> n_index nd) by congruence.
      pose proof (li_wf _ Lc _ _ G) as W.
      pose proof (good_request rr_fixed nd r el (w_inv _ W) Hne) as [I' St].
      pose proof (request_keeps rr_fixed nd r el) as Kp.
      pose proof (request_term rr_fixed nd r el) as (T1 & _ & _).
      pose proof (request_shape rr_fixed nd r el W RW Hne) as [W' Sh].
      pose proof (request_leader rr_fixed nd r el) as RL.
      destruct (handle_request rr_fixed nd r el) as [nd' s]. cbn [fst snd c_hist c_nodes c_net] in *.
      destruct St as (Hi & _).
      rewrite ack_diverged_app in AD. apply orb_false_iff in AD as [_ AD].
      rewrite ack_diverged_app in AD. apply orb_false_iff in AD as [AD _].
      apply (LI_put c (q_to r) nd nd'); auto.
      * rewrite leaders_app, leaders_request_ghosts, leaders_node_ghosts, Hi, Ei. reflexivity.
      * intros L. destruct (RL L) as [->|(A & T2 & T3 & L')]; [left; auto|right; split; auto].
        destruct (N.eq_dec (n_term nd) (q_term r)) as [E|]; [exfalso|lia].
        apply Hok. apply (ES (q_from r) (q_to r) (q_term r)); rewrite leaders_app; apply in_or_app; left.
        -- apply (li_mh _ Lc); auto. eapply nth_error_In; eauto.
        -- rewrite <- E, <- Ei. rewrite <- (N2Nat.id (n_index nd)). rewrite Ei. eapply (li_lh1 _ Lc); eauto.
      * destruct Sh as [E|[A O]]; [left; exact E|].
        destruct (is_leader (n_state nd')) eqn:L'.
        { left. rewrite (Kp (eq_trans (f_equal (orb (is_candidate (n_state nd'))) L') (orb_true_r _))). reflexivity. }
        right; right. split; auto.
        assert (V : (N.to_nat (q_from r) < length (c_nodes c))%nat).
        { eapply (li_lv _ Lc). apply (li_mh _ Lc); eauto. eapply nth_error_In; eauto. }
        destruct (nth_error (c_nodes c) (N.to_nat (q_from r))) as [sender|] eqn:Gs; [|apply nth_error_None in Gs; lia].
        exists (N.to_nat (q_from r)), sender. split; [lia|]. split; auto.
        eapply no_ack_diverged; eauto.
      * intros m Hm. apply in_app_or in Hm as [Hm|[<-|[]]]; [left; eapply In_remove_nth; eauto | right; exact I].
    + (* response *)
      pose proof (HM _ (nth_error_In _ _ Hk)) as Hok. cbn in Hok. destruct Hok as [Hft Hto].
      destruct (get_node c (s_to s)) as [nd|] eqn:G.
      2:{ eapply LI_same; eauto. cbn. intros m Hm. eapply In_remove_nth; eauto. }
      pose proof (get_node_index _ _ _ HN G) as Ei.
      assert (Hne : q_to r <> n_index nd) by congruence.
      pose proof (li_wf _ Lc _ _ G) as W.
      pose proof (good_response rr_fixed nd r s (w_inv _ W) Hne) as [I' St].
      pose proof (response_term rr_fixed nd r s eq_refl) as T1.
      pose proof (keep_response rr_fixed nd r s (w_inv _ W) Hne) as Kp.
      pose proof (response_from_leader rr_fixed nd r s) as RL.
      pose proof (reqs_response rr_fixed nd r s Hne) as RO.
      pose proof (response_reqs rr_fixed nd r s) as RQ.
      destruct (handle_response rr_fixed nd r s) as [nd' reqs]. cbn [fst snd c_hist c_nodes c_net] in *.
      destruct St as (Hi & _).
      rewrite (response_ghosts_fixed rr_fixed nd r s eq_refl) in *. cbn [app] in *.
      apply (LI_put c (s_to s) nd nd'); auto.
      * eapply nwf_keep; eauto.
      * rewrite leaders_node_ghosts, Hi, Ei. reflexivity.
      * left. apply Kp.
      * intros m Hm. apply in_app_or in Hm as [Hm|Hm]; [left; eapply In_remove_nth; eauto | right].
        apply in_map_iff in Hm as [q [<- Hq]]. cbn. destruct (RO _ Hq) as [Fq _]. destruct (RQ q W Hq) as [Wq Aq].
        split; auto. intros A. destruct (Aq A) as [Lq Tq]. repeat split; congruence.
  - (* Drop *)
    eapply LI_same; eauto. cbn. intros m Hm. eapply In_remove_nth; eauto.
  - (* Duplicate *)
    destruct (nth_error (c_net c) k) as [m0|] eqn:Hk; [|exact Lc].
    eapply LI_same; eauto. cbn. intros m Hm. apply in_app_or in Hm as [Hm|[<-|[]]]; auto. eapply nth_error_In; eauto.
  - (* ClientAppend *)
    destruct (get_node c i) as [nd|] eqn:G; [|exact Lc].
    destruct (is_leader (n_state nd)) eqn:L; [|exact Lc].
    pose proof (get_node_index _ _ _ HN G) as Ei.
    pose proof (li_wf _ Lc _ _ G) as W.
    pose proof (term_append nd d) as Tm.
    pose proof (append_state nd d) as As.
    pose proof (reqs_append nd d) as RO.
    pose proof (append_shape nd d W) as (W' & El & RK).
    destruct (append nd d) as [nd' reqs]. cbn [fst snd c_hist c_nodes c_net] in *.
    apply (LI_put c i nd nd'); auto; try lia.
    + rewrite leaders_node_ghosts, As, L. reflexivity.
    + intros _. left. rewrite As. auto.
    + right; left. rewrite As. repeat split; auto. exists d. exact El.
    + intros m Hm. apply in_app_or in Hm as [Hm|Hm]; [left; exact Hm|right].
      apply in_map_iff in Hm as [q [<- Hq]]. cbn. destruct (RO _ Hq) as [Fq _]. destruct (RK _ Hq) as [Kq Tq].
      split.
      * unfold req_wf. rewrite Kq. split; [apply chain_single|]. intros e [<-|[]]. cbn. lia.
      * intros _. rewrite As. repeat split; congruence.
Qed.

(* ------------------------------------------------------------------ the initial cluster, all histories *)

Lemma init_node : forall size k nd,
  nth_error (c_nodes (init_default size)) k = Some nd -> exists j, nd = new_node size j 1000 1000 3000.
Proof.
  intros size k nd H. unfold init_default, init in H. cbn [c_nodes] in H. rewrite nth_error_map in H.
  destruct (nth_error (seq 0 (N.to_nat size)) k); [|discriminate]. cbn in H. inversion H. eauto.
Qed.

Lemma new_node_lt : forall size j, p_lt (local (new_node size j 1000 1000 3000)) = 0.
Proof.
  intros size j. unfold local, node_at, new_node. cbn [n_peers n_index].
  set (l := map _ _). set (k := N.to_nat j).
  assert (A : forall p, In p l -> p_lt p = 0).
  { intros p Hp. unfold l in Hp. apply in_map_iff in Hp as [x [<- _]]. reflexivity. }
  destruct (Nat.lt_ge_cases k (length l)).
  - apply A. apply nth_In. auto.
  - rewrite nth_overflow by auto. reflexivity.
Qed.

Lemma init_LI : forall size, size <> 1 -> LI (init_default size).
Proof.
  intros size Hs. pose proof (init_inv size Hs) as CI.
  assert (Hh : c_hist (init_default size) = []).
  { unfold init_default, init. cbn [c_hist]. apply N.eqb_neq in Hs. rewrite Hs. reflexivity. }
  assert (NL : forall k nd, nth_error (c_nodes (init_default size)) k = Some nd ->
               n_logs nd = [] /\ is_leader (n_state nd) = false /\ p_lt (local nd) = 0).
  { intros k nd H. destruct (init_node _ _ _ H) as [j ->]. split; [reflexivity|]. split; [|apply new_node_lt].
    unfold new_node. cbn [n_state]. apply N.eqb_neq in Hs. rewrite Hs. reflexivity. }
  constructor; rewrite ?Hh.
  - exact CI.
  - intros k nd H. destruct (NL _ _ H) as (E & _ & Lt). constructor.
    + destruct CI as [HN _]. apply (HN _ _ H).
    + rewrite E. apply wf_log_nil.
    + rewrite E, Lt. reflexivity.
    + rewrite E. intros e [].
  - intros m H. cbn in H. destruct H.
  - intros k nd H L. destruct (NL _ _ H) as (_ & F & _). congruence.
  - intros k nd t _ [].
  - intros r H. cbn in H. destruct H.
  - intros i t [].
  - intros k nd e H He. destruct (NL _ _ H) as (E & _). rewrite E in He. destruct He.
  - intros kl l kv v e Hl Hv L. destruct (NL _ _ Hl) as (_ & F & _). congruence.
  - intros ka a kb b Ha Hb. destruct (NL _ _ Ha) as (E & _). rewrite E. intros k ea eb H. destruct k; discriminate.
Qed.

Theorem LI_run : forall size evs,
  size <> 1 -> ack_diverged_b (c_hist (run rr_fixed size evs)) = false -> LI (run rr_fixed size evs).
Proof.
  intros size evs Hs. induction evs as [|e evs IH] using rev_ind; intros AD.
  - apply init_LI; auto.
  - pose proof (election_safety_fixed size (evs ++ [e])) as ES.
    rewrite fold_run_app in *. unfold run_from in *. cbn [fold_left] in *.
    apply LI_step; auto. apply IH.
    destruct (step_hist rr_fixed (run rr_fixed size evs) e) as [g Hg]. rewrite Hg, ack_diverged_app in AD.
    apply orb_false_iff in AD. tauto.
Qed.

(* ================================================================== the statement *)

(* LOG MATCHING: if two nodes hold entries of the same term at index idx, their logs agree at every index <= idx
   (in particular the two entries are equal: an (index, term) pair determines the entry) *)
Definition log_matching (c : cluster) : Prop :=
  forall a b, In a (c_nodes c) -> In b (c_nodes c) ->
  forall idx ea eb, log_at (n_logs a) idx = Some ea -> log_at (n_logs b) idx = Some eb -> e_term ea = e_term eb ->
  forall j, j <= idx -> log_at (n_logs a) j = log_at (n_logs b) j.

Lemma lmatch_log_at : forall la lb idx ea eb j,
  lmatch la lb -> log_at la idx = Some ea -> log_at lb idx = Some eb -> e_term ea = e_term eb -> j <= idx ->
  log_at la j = log_at lb j.
Proof.
  intros la lb idx ea eb j M Ha Hb T Hj. unfold log_at in *.
  destruct (N.eqb_spec idx 0); [discriminate|]. destruct (N.eqb_spec j 0); [reflexivity|].
  pose proof (M _ _ _ Ha Hb T) as E.
  rewrite <- (nth_error_firstn_lt _ la (S (N.to_nat (idx - 1)))) by lia.
  rewrite <- (nth_error_firstn_lt _ lb (S (N.to_nat (idx - 1)))) by lia.
  rewrite E. reflexivity.
Qed.

Theorem log_matching_partial : forall size evs,
  size <> 1 -> ack_diverged_b (c_hist (run rr_fixed size evs)) = false -> log_matching (run rr_fixed size evs).
Proof.
  intros size evs Hs AD a b Ha Hb idx ea eb H1 H2 T j Hj.
  pose proof (LI_run size evs Hs AD) as L.
  apply In_nth_error in Ha as [ka Ha]. apply In_nth_error in Hb as [kb Hb].
  eapply lmatch_log_at; eauto. eapply (li_lm _ L); eauto.
Qed.

(* the other facts of the invariant, for every node of every such history: logs are well formed *)
Theorem logs_wf_partial : forall size evs nd,
  size <> 1 -> ack_diverged_b (c_hist (run rr_fixed size evs)) = false -> In nd (c_nodes (run rr_fixed size evs)) ->
  (forall idx e, log_at (n_logs nd) idx = Some e -> e_index e = idx /\ e_term e <= n_term nd) /\
  (forall i j ei ej, i <= j -> log_at (n_logs nd) i = Some ei -> log_at (n_logs nd) j = Some ej -> e_term ei <= e_term ej).
Proof.
  intros size evs nd Hs AD Hn. pose proof (LI_run size evs Hs AD) as L.
  apply In_nth_error in Hn as [k Hk]. pose proof (li_wf _ L _ _ Hk) as W. split.
  - intros idx e H. split; [eapply log_at_wf_index; eauto; apply (w_log _ W)|].
    apply (w_term _ W). unfold log_at in H. destruct (idx =? 0); [discriminate|]. eapply nth_error_In; eauto.
  - intros i j ei ej Hij Hi Hj. destruct (w_log _ W) as [_ S]. unfold log_at in *.
    destruct (N.eqb_spec i 0); [discriminate|]. destruct (N.eqb_spec j 0); [discriminate|].
    eapply S; [|exact Hi|exact Hj]. lia.
Qed.

(* non-vacuity: a fault-free 3-node history (node 0 elected, two entries replicated to and committed on all three
   nodes) satisfies the hypothesis — and those of the other two log-replication classes *)
Definition wlog_ok : list event :=
  Tick 0 0 [] :: repeat (Deliver 0%nat 0) 16 ++ ClientAppend 0 11 :: repeat (Deliver 0%nat 0) 10 ++
  ClientAppend 0 12 :: repeat (Deliver 0%nat 0) 10.

Lemma wlog_ok_facts :
  let c := run rr_fixed 3 wlog_ok in
  ack_diverged_b (c_hist c) = false /\ old_term_commit_b (c_hist c) = false /\
  map n_commit (c_nodes c) = [2; 2; 2] /\
  map n_logs (c_nodes c) = [[mkEntry 1 1 11; mkEntry 2 1 12]; [mkEntry 1 1 11; mkEntry 2 1 12]; [mkEntry 1 1 11; mkEntry 2 1 12]].
Proof. vm_compute. repeat split; reflexivity. Qed.
